/-
  C09 — quantile-mapping transfer functions are monotone (rank preserving).

  Within one calibration window: `x_i < x_j → out_i ≤ out_j` (`OrderPres x out`, `Lemmas/C09Stats.lean`).
  Where the window function really is pointwise the theorem says more: the output is the image `x.map T` of a
  non-decreasing `T` (which implies `OrderPres`, `image_orderPres`); where it is rank based (ISIMIP steps 4, 6,
  CDFt's randomisation) it is stated index-wise.  Exact rational arithmetic (float rounding is carried by the
  correspondence / the oracle of `harness/c09.py`).  Random draws are explicit list arguments constrained only by
  numpy's documented interval; every randomised theorem is `∀ draws`.

  Stated on the shared layer-N model (`Model/{Stats,Family,Debiasers,Isimip}.lean`); `ecdf` / `iecdf` laws are reused
  from `Props/C16.lean`.  Helper lemmas: `Lemmas/C09{Stats,Deb,Step4,Step6,Families,Window,Precip}.lean`.
  Guards that only exclude inputs on which the code computes with `nan` / `inf` (empty samples, a zero mean in a
  denominator) are explicit hypotheses (`lsGuard`, `qmGuard`, `cdftGuard`) even where Lean's total division would let
  the statement through without them.
-/
import IbicusModel.Lemmas.C09Window
import IbicusModel.Lemmas.C09Precip
import IbicusModel.Lemmas.GenDebiasers

namespace Props.C09
open Model.Stats Model.Family Model.Debiasers Model.Isimip Model.Precip Model.PrecipQM Lemmas.Stats Lemmas.C09

/-! ## 0. pointwise image of a monotone map ⇒ rank preservation -/

/-- the two formulations agree in the direction that matters: a pointwise image under a non-decreasing map
    never puts a strictly smaller input above a larger one -/
theorem image_orderPres (x out : List Rat) (h : ∃ T : Rat → Rat, MonoR T ∧ out = x.map T) : OrderPres x out := by
  obtain ⟨T, hT, rfl⟩ := h
  exact orderPres_map x T hT

/-! ## 1. LinearScaling -/

/-- additive: `x ↦ x − (mean H − mean obs)` is **strictly** increasing — no guard beyond non-empty samples -/
theorem ls_add_strict_mono (obs H F : List Rat) (_hg : lsGuard .additive obs H) :
    ∃ T : Rat → Rat, StrictMonoR T ∧ linearScaling .additive obs H F = F.map T :=
  ⟨fun x => x - (mean H - mean obs), fun _ _ h => by simp only []; linarith, rfl⟩

/-- multiplicative: `x ↦ x · (mean obs / mean H)` is non-decreasing **iff-guard** `mean obs / mean H ≥ 0`
    (true for non-negative, pr-like data; for sign-changing data the ratio can be negative — see
    `legacy_ls_mult_reverses`) -/
theorem ls_mult_mono (obs H F : List Rat) (_hg : lsGuard .multiplicative obs H) (hr : 0 ≤ mean obs / mean H) :
    ∃ T : Rat → Rat, MonoR T ∧ linearScaling .multiplicative obs H F = F.map T :=
  ⟨fun x => x * (mean obs / mean H), fun _ _ h => mul_le_mul_of_nonneg_right h hr, rfl⟩

/-- non-negative data with a positive model mean satisfy the guard -/
theorem ls_mult_guard_of_nonneg (obs H : List Rat) (ho : ∀ v ∈ obs, 0 ≤ v) (hh : ∀ v ∈ H, 0 ≤ v) :
    0 ≤ mean obs / mean H := by
  unfold mean
  apply div_nonneg <;> apply div_nonneg
  · exact List.sum_nonneg ho
  · exact_mod_cast Nat.zero_le _
  · exact List.sum_nonneg hh
  · exact_mod_cast Nat.zero_le _

example : ∃ T : Rat → Rat, MonoR T ∧ linearScaling .multiplicative [2, 4] [1, 2] [0, 3, 1] = [0, 3, 1].map T :=
  ls_mult_mono _ _ _ (by decide +kernel) (by decide +kernel)

/-- the guard is necessary: with a negative ratio the code really reverses the order (concrete witness:
    `obs = [1]`, `cm_hist = [-1]`, future `1 < 2` ↦ `-1 > -2`) -/
theorem legacy_ls_mult_reverses : linearScaling .multiplicative [1] [-1] [1, 2] = [-1, -2] := by decide +kernel

/-! ## 2. QuantileMapping, parametric -/

/-- any family (`fit` / `cdf` / `ppf` as ibicus uses them): if the cdf fitted to `cm_hist` is non-decreasing and the
    ppf fitted to `obs` is non-decreasing on `[t, 1 − t]` (`t = cdf_threshold ≤ 1/2`), the window function is the image
    of a non-decreasing map, for all three detrendings (`δ = mean F / mean H > 0` for the multiplicative one) -/
theorem qm_param_mono_family {P} (Fam : Family P) (t : Rat) (ht : t ≤ 1 / 2) (d : Detrending) (obs H F : List Rat)
    (_hg : qmGuard d obs H F)
    (hc : MonoR (Fam.cdf (Fam.fit H)))
    (hp : ∀ p q : Rat, t ≤ p → p ≤ q → q ≤ 1 - t → Fam.ppf (Fam.fit obs) p ≤ Fam.ppf (Fam.fit obs) q)
    (hδ : d = .multiplicative → 0 < mean F / mean H) :
    ∃ T : Rat → Rat, MonoR T ∧ qmParam Fam t d obs H F = F.map T :=
  ⟨qmWrap d H F (qmParam1 Fam t obs H),
   qmWrap_mono d H F _ (qmParam1_mono Fam t ht obs H hc hp) hδ,
   quantileMapping_eq_map (standardQMParam Fam t) (qmParam1 Fam t obs H) obs H
     (fun x => standardQMParam_eq_map Fam t x obs H) d F⟩

/-- **location–scale families with `LocScaleLaws`** (proved for the test double, assumed for `scipy.stats.norm` …):
    guards = the two fitted scales are positive, `0 < cdf_threshold ≤ 1/2`, `δ > 0` for multiplicative detrending -/
theorem qm_param_mono (Fam : LocScaleFam) (L : LocScaleLaws Fam) (t : Rat) (ht0 : 0 < t) (ht : t ≤ 1 / 2)
    (d : Detrending) (obs H F : List Rat) (hg : qmGuard d obs H F) (hso : 0 < Fam.scale obs) (hsh : 0 < Fam.scale H)
    (hδ : d = .multiplicative → 0 < mean F / mean H) :
    ∃ T : Rat → Rat, MonoR T ∧ qmParam Fam.toFamily t d obs H F = F.map T :=
  qm_param_mono_family Fam.toFamily t ht d obs H F hg
    (locScale_cdf_monoR L (Fam.fit H) hsh)
    (fun p q h0 hpq h1 => locScale_ppf_mono L (Fam.fit obs) hso t ht0 p q h0 hpq h1) hδ

-- the hypotheses are satisfiable: the executable family, `t = 1e-10`, additive detrending
example : ∃ T : Rat → Rat, MonoR T ∧
    qmParam ratSigmoid.toFamily defaultCdfThreshold .additive [1, 2, 4] [0, 2, 3] [5, 1, 1] = [5, 1, 1].map T :=
  qm_param_mono Model.Family.ratSigmoid Lemmas.Family.ratSigmoid_laws _ (by decide +kernel) (by decide +kernel) _ _ _ _
    (by decide +kernel) (by decide +kernel) (by decide +kernel) (fun h => by cases h)

/-- **saturation and clipping**: the fitted cdf may be composed with *any* non-decreasing `R` — e.g. the rounding of
    its value to a double, which makes it exactly `0.0` / `1.0` in the far tails (beyond ±8.3 σ for a normal cdf) — and
    need only be non-decreasing, not strictly: `threshold_cdf_vals` clips every value into `[t, 1 − t]`, where the ppf is
    monotone, so saturated and nearly saturated values cannot swap. -/
theorem qm_param_mono_saturating {P} (Fam : Family P) (R : Rat → Rat) (hR : MonoR R) (t : Rat) (ht : t ≤ 1 / 2)
    (d : Detrending) (obs H F : List Rat) (hg : qmGuard d obs H F)
    (hc : MonoR (Fam.cdf (Fam.fit H)))
    (hp : ∀ p q : Rat, t ≤ p → p ≤ q → q ≤ 1 - t → Fam.ppf (Fam.fit obs) p ≤ Fam.ppf (Fam.fit obs) q)
    (hδ : d = .multiplicative → 0 < mean F / mean H) :
    ∃ T : Rat → Rat, MonoR T ∧
      qmParam { fit := Fam.fit, cdf := fun p x => R (Fam.cdf p x), ppf := Fam.ppf } t d obs H F = F.map T :=
  qm_param_mono_family { fit := Fam.fit, cdf := fun p x => R (Fam.cdf p x), ppf := Fam.ppf } t ht d obs H F hg
    (fun a b h => hR _ _ (hc a b h)) hp hδ

/-- why the clipping (and not a replacement of the exact end points only) is needed: the map
    `v ↦ 1 − t if v ≥ 1, t if v ≤ 0, v otherwise` is **not** monotone — a value just below 1 passes through and ends
    above the image of 1 (concrete witness, `t = 1/10`) -/
theorem clipping_is_needed :
    ¬ MonoR (fun v : Rat => if v ≥ 1 then 1 - 1 / 10 else if v ≤ 0 then 1 / 10 else v) := by
  intro h
  have := h (19 / 20) 1 (by norm_num)
  norm_num at this

/-! ## 3. QuantileMapping, non-parametric (constant extrapolation) -/

/-- the extrapolating quantile map is non-decreasing **for every (ecdf, iecdf) pair with `EQLaws`** — generic
    argument: inside the source range `iecdf_y ∘ ecdf_x`; `v < min x ⇒ v + min y − min x < min y ≤ iecdf_y(·)`;
    `v > max x ⇒ v + max y − max x > max y ≥ iecdf_y(·)` -/
theorem qmapExtrap_mono_generic {E Q : List Rat → Rat → Rat} (L : EQLaws E Q) (x y : List Rat) (hx : 2 ≤ x.length)
    (hy : 2 ≤ y.length) : MonoR (qmapExtrapG E Q x y) := qmapExtrapG_mono L x y hx hy

/-- all `2 × 9` modelled pairs: `quantile_map_non_parametically_with_constant_extrapolation(x, y, vals)` is the
    image of `vals` under a non-decreasing map -/
theorem qmapExtrap_all_pairs (em : EcdfMethod) (im : IecdfMethod) (x y vals : List Rat) (hx : 2 ≤ x.length)
    (hy : 2 ≤ y.length) : ∃ T : Rat → Rat, MonoR T ∧ qmapExtrap em im x y vals = vals.map T :=
  ⟨qmapExtrap1 em im x y,
   fun a b h => by
     rw [← qmapExtrapG_model, ← qmapExtrapG_model]
     exact qmapExtrapG_mono (eqLaws_model em im) x y hx hy a b h,
   Props.C16.qmapExtrap_eq_map em im x y vals⟩

/-- `ecdf_method = "kernel_density"` (bins are an oracle with `HistLaws`), any `iecdf` method -/
theorem qmapExtrap_kernel_density (edges : List Rat → List Rat) (counts : List Rat → List Nat)
    (hl : ∀ s, HistLaws (edges s) (counts s)) (im : IecdfMethod) (x y : List Rat) (hx : 2 ≤ x.length)
    (hy : 2 ≤ y.length) : MonoR (qmapExtrapG (fun s => ecdfHist1 (edges s) (counts s)) (iecdf1 im) x y) :=
  qmapExtrapG_mono (eqLaws_hist edges counts hl im) x y hx hy

/-- **the debiaser**: `QuantileMapping(mapping_type = "nonparametric")`, all three detrendings -/
theorem qm_nonparam_mono (d : Detrending) (obs H F : List Rat) (ho : 2 ≤ obs.length) (hh : 2 ≤ H.length)
    (hδ : d = .multiplicative → 0 < mean F / mean H) :
    ∃ T : Rat → Rat, MonoR T ∧ qmNonparam d obs H F = F.map T :=
  ⟨qmWrap d H F (qmapExtrap1 .step .inverted_cdf H obs),
   qmWrap_mono d H F _ (fun _ _ h => Props.C16.qmapExtrap_mono .step .inverted_cdf H obs hh ho h) hδ,
   quantileMapping_eq_map standardQMNonparam (qmapExtrap1 .step .inverted_cdf H obs) obs H
     (fun x => Props.C16.qmapExtrap_eq_map .step .inverted_cdf H obs x) d F⟩

example : ∃ T : Rat → Rat, MonoR T ∧ qmNonparam .no_detrending [1, 2, 4] [0, 2, 3] [5, -7, 2, 2] = [5, -7, 2, 2].map T :=
  qm_nonparam_mono _ _ _ _ (by decide) (by decide) (fun h => by cases h)

/-! ## 3b. QuantileMapping with multiplicative detrending on SIGNED data (`δ = mean F / mean H < 0`)

  `δ > 0` in §2 / §3 is sufficient, not necessary: `apply_on_window` computes `qm(F / δ) · δ` with the SAME signed `δ` on
  both sides, so for `δ < 0` the division reverses the order, the non-decreasing inner mapping keeps the reversed order
  and the multiplication reverses it back.  The only guard left is `δ ≠ 0` (part of `qmGuard`: the code divides by
  `mean H` and by `δ`).  Scaling back with `|δ|` instead of `δ` would make the whole transfer function order *reversing*
  (`abs_rescaling_reverses`). -/

/-- the detrending wrapper keeps monotonicity for every non-zero scaling factor, negative ones included -/
theorem qmWrap_mono_signed (d : Detrending) (H F : List Rat) (g : Rat → Rat) (hg : MonoR g)
    (hδ : d = .multiplicative → mean F / mean H ≠ 0) : MonoR (qmWrap d H F g) := by
  cases d with
  | additive => exact qmWrap_mono .additive H F g hg (fun h => by cases h)
  | no_detrending => exact qmWrap_mono .no_detrending H F g hg (fun h => by cases h)
  | multiplicative =>
    rcases lt_or_gt_of_ne (hδ rfl) with hneg | hpos
    · intro a b hab
      simp only [qmWrap]
      have h1 : b / (mean F / mean H) ≤ a / (mean F / mean H) :=
        div_le_div_of_nonpos_of_le (le_of_lt hneg) hab
      exact mul_le_mul_of_nonpos_right (hg _ _ h1) (le_of_lt hneg)
    · exact qmWrap_mono .multiplicative H F g hg (fun _ => hpos)

/-- parametric QuantileMapping, any family: all three detrendings, **either sign** of `mean F / mean H` -/
theorem qm_param_mono_family_signed {P} (Fam : Family P) (t : Rat) (ht : t ≤ 1 / 2) (d : Detrending) (obs H F : List Rat)
    (_hg : qmGuard d obs H F)
    (hc : MonoR (Fam.cdf (Fam.fit H)))
    (hp : ∀ p q : Rat, t ≤ p → p ≤ q → q ≤ 1 - t → Fam.ppf (Fam.fit obs) p ≤ Fam.ppf (Fam.fit obs) q)
    (hδ : d = .multiplicative → mean F / mean H ≠ 0) :
    ∃ T : Rat → Rat, MonoR T ∧ qmParam Fam t d obs H F = F.map T :=
  ⟨qmWrap d H F (qmParam1 Fam t obs H),
   qmWrap_mono_signed d H F _ (qmParam1_mono Fam t ht obs H hc hp) hδ,
   quantileMapping_eq_map (standardQMParam Fam t) (qmParam1 Fam t obs H) obs H
     (fun x => standardQMParam_eq_map Fam t x obs H) d F⟩

/-- location–scale families with `LocScaleLaws` (`scipy.stats.norm` on temperatures in °C …), either sign of `δ` -/
theorem qm_param_mono_signed (Fam : LocScaleFam) (L : LocScaleLaws Fam) (t : Rat) (ht0 : 0 < t) (ht : t ≤ 1 / 2)
    (d : Detrending) (obs H F : List Rat) (hg : qmGuard d obs H F) (hso : 0 < Fam.scale obs) (hsh : 0 < Fam.scale H)
    (hδ : d = .multiplicative → mean F / mean H ≠ 0) :
    ∃ T : Rat → Rat, MonoR T ∧ qmParam Fam.toFamily t d obs H F = F.map T :=
  qm_param_mono_family_signed Fam.toFamily t ht d obs H F hg
    (locScale_cdf_monoR L (Fam.fit H) hsh)
    (fun p q h0 hpq h1 => locScale_ppf_mono L (Fam.fit obs) hso t ht0 p q h0 hpq h1) hδ

/-- non-parametric QuantileMapping, all three detrendings, either sign of `δ` -/
theorem qm_nonparam_mono_signed (d : Detrending) (obs H F : List Rat) (ho : 2 ≤ obs.length) (hh : 2 ≤ H.length)
    (hδ : d = .multiplicative → mean F / mean H ≠ 0) :
    ∃ T : Rat → Rat, MonoR T ∧ qmNonparam d obs H F = F.map T :=
  ⟨qmWrap d H F (qmapExtrap1 .step .inverted_cdf H obs),
   qmWrap_mono_signed d H F _ (fun _ _ h => Props.C16.qmapExtrap_mono .step .inverted_cdf H obs hh ho h) hδ,
   quantileMapping_eq_map standardQMNonparam (qmapExtrap1 .step .inverted_cdf H obs) obs H
     (fun x => Props.C16.qmapExtrap_eq_map .step .inverted_cdf H obs x) d F⟩

-- satisfiable with a NEGATIVE factor: mean H = -1, mean F = 2 (δ = -2), executed
example : mean [3, 1] / mean [-2, 0] < 0 ∧
    OrderPres [3, 1] (qmNonparam .multiplicative [1, 2, 4] [-2, 0] [3, 1]) :=
  ⟨by decide +kernel,
   image_orderPres _ _ (qm_nonparam_mono_signed .multiplicative [1, 2, 4] [-2, 0] [3, 1] (by decide) (by decide)
     (fun _ => by decide +kernel))⟩

/-- why the factor must keep its sign on the way back: with `|δ|` in place of `δ` after the mapping, the transfer
    function of a negative `δ` is order **reversing** even for the identity inner mapping (concrete witness, `δ = -2`) -/
theorem abs_rescaling_reverses :
    let δ : Rat := -2
    ([1, 2] : List Rat).map (fun x => (x / δ) * Py.absQ δ) = [-1, -2] := by decide +kernel

/-! ## 4. CDFt -/

/-- `_apply_CDFt_mapping` is the image of `cm_future` under the composition of four monotone maps (after the shift),
    for every (E, Q) with `EQLaws`.  Guards: samples of size ≥ 2; the multiplicative shift `mean obs / mean H ≥ 0`. -/
theorem cdft_mono {E Q : List Rat → Rat → Rat} (L : EQLaws E Q) (d : DeltaShift) (obs H F : List Rat)
    (_hg : cdftGuard d obs H F) (ho : 2 ≤ obs.length) (hh : 2 ≤ H.length) (hf : 2 ≤ F.length)
    (hs : d = .multiplicative → 0 ≤ mean obs / mean H) :
    ∃ T : Rat → Rat, MonoR T ∧ cdftMappingG E Q d obs H F = F.map T :=
  ⟨_, cdftT_mono L d obs H F ho hh hf hs, cdftMappingG_eq_map E Q d obs H F⟩

/-- all `2 × 9` modelled method pairs -/
theorem cdft_mono_model (d : DeltaShift) (em : EcdfMethod) (im : IecdfMethod) (obs H F : List Rat)
    (hg : cdftGuard d obs H F) (ho : 2 ≤ obs.length) (hh : 2 ≤ H.length) (hf : 2 ≤ F.length)
    (hs : d = .multiplicative → 0 ≤ mean obs / mean H) :
    ∃ T : Rat → Rat, MonoR T ∧ cdftMapping d em im obs H F = F.map T :=
  cdft_mono (eqLaws_model em im) d obs H F hg ho hh hf hs

/-- `ecdf_method = "kernel_density"` × the nine `iecdf` methods (histogram bins: oracle with `HistLaws`) -/
theorem cdft_mono_kernel_density (edges : List Rat → List Rat) (counts : List Rat → List Nat)
    (hl : ∀ s, HistLaws (edges s) (counts s)) (im : IecdfMethod) (d : DeltaShift) (obs H F : List Rat)
    (hg : cdftGuard d obs H F) (ho : 2 ≤ obs.length) (hh : 2 ≤ H.length) (hf : 2 ≤ F.length)
    (hs : d = .multiplicative → 0 ≤ mean obs / mean H) :
    ∃ T : Rat → Rat, MonoR T ∧
      cdftMappingG (fun s => ecdfHist1 (edges s) (counts s)) (iecdf1 im) d obs H F = F.map T :=
  cdft_mono (eqLaws_hist edges counts hl im) d obs H F hg ho hh hf hs

example : ∃ T : Rat → Rat, MonoR T ∧ cdftMapping .additive .linear .hazen [1, 2, 4] [0, 2, 3] [5, 1, 1] = [5, 1, 1].map T :=
  cdft_mono_model _ _ _ _ _ _ (by decide +kernel) (by decide) (by decide) (by decide) (fun h => by cases h)

/-- **CDFt with SSR, for every draw list**: with `0 ≤ u < threshold` (numpy's contract; `threshold` = the smallest
    positive value) the randomised zeros stay strictly below every positive value, the CDFt map is monotone, and the
    final censoring `x < threshold ↦ 0` is monotone: a strictly smaller **original** value never gets a larger output.
    No sign condition on the data is needed for the randomisation; the multiplicative shift needs its ratio `≥ 0`
    on the randomised samples (true for non-negative data). -/
theorem cdft_ssr_order {E Q : List Rat → Rat → Rat} (L : EQLaws E Q) (d : DeltaShift) (obs H F u : List Rat)
    (ho : 2 ≤ obs.length) (hh : 2 ≤ H.length) (hf : 2 ≤ F.length)
    (hu : ssrDrawsOk (ssrThreshold obs H F) u) (hlen : ssrDrawCount obs H F ≤ u.length)
    (hs : d = .multiplicative → 0 ≤ mean (ssrBefore obs H F u).1 / mean (ssrBefore obs H F u).2.1) :
    OrderPres F (cdftStepsG true E Q d obs H F u) := by
  unfold ssrDrawCount at hlen
  unfold cdftStepsG
  simp only [if_true]
  set thr := ssrThreshold obs H F with hthr
  have e1 : (ssrBefore obs H F u).1 = ssrRandomize obs (u.take obs.length) := rfl
  have e2 : (ssrBefore obs H F u).2.1 = ssrRandomize H ((u.drop obs.length).take H.length) := rfl
  have e3 : (ssrBefore obs H F u).2.2.1 = ssrRandomize F ((u.drop (obs.length + H.length)).take F.length) := rfl
  have e4 : (ssrBefore obs H F u).2.2.2 = thr := rfl
  have l1 : obs.length ≤ (u.take obs.length).length := by rw [List.length_take]; omega
  have l2 : H.length ≤ ((u.drop obs.length).take H.length).length := by
    rw [List.length_take, List.length_drop]; omega
  have l3 : F.length ≤ ((u.drop (obs.length + H.length)).take F.length).length := by
    rw [List.length_take, List.length_drop]; omega
  -- the randomisation is strictly rank preserving
  have hstrict : StrictOrderPres F (ssrBefore obs H F u).2.2.1 := by
    rw [e3]
    apply ssrRandomize_strict F _ thr l3
    · intro v hv hpos; exact ssrThreshold_le_of_pos obs H F hv hpos
    · intro r hr
      exact hu r (List.mem_of_mem_drop (List.mem_of_mem_take hr))
    · rintro ⟨v, hv, hpos⟩; exact ssrThreshold_pos_of_pos obs H F hv hpos
  -- the mapping followed by the censoring is a monotone pointwise image of the randomised series
  have hmono : OrderPres (ssrBefore obs H F u).2.2.1
      (ssrAfter (ssrBefore obs H F u).2.2.2
        (cdftMappingG E Q d (ssrBefore obs H F u).1 (ssrBefore obs H F u).2.1 (ssrBefore obs H F u).2.2.1)) := by
    rw [e4, cdftMappingG_eq_map, ssrAfter_eq_map, List.map_map]
    apply orderPres_map
    apply MonoR.comp (censor_monoR thr (ssrThreshold_nonneg obs H F))
    exact cdftT_mono L d _ _ _ (by rw [e1, ssrRandomize_length _ _ l1]; exact ho)
      (by rw [e2, ssrRandomize_length _ _ l2]; exact hh) (by rw [e3, ssrRandomize_length _ _ l3]; exact hf) hs
  exact hstrict.trans hmono

/-- instance for the modelled method pairs (what `CDFt._apply_debiasing_steps` computes with `SSR = True`) -/
theorem cdft_ssr_order_model (d : DeltaShift) (em : EcdfMethod) (im : IecdfMethod) (obs H F u : List Rat)
    (ho : 2 ≤ obs.length) (hh : 2 ≤ H.length) (hf : 2 ≤ F.length)
    (hu : ssrDrawsOk (ssrThreshold obs H F) u) (hlen : ssrDrawCount obs H F ≤ u.length)
    (hs : d = .multiplicative → 0 ≤ mean (ssrBefore obs H F u).1 / mean (ssrBefore obs H F u).2.1) :
    OrderPres F (cdftSteps true d em im obs H F u) :=
  cdft_ssr_order (eqLaws_model em im) d obs H F u ho hh hf hu hlen hs

/-- for non-negative `obs` and `cm_hist` (precipitation) the guard on the multiplicative shift holds by itself:
    the randomised samples are non-negative too -/
theorem cdft_ssr_order_nonneg (d : DeltaShift) (em : EcdfMethod) (im : IecdfMethod) (obs H F u : List Rat)
    (ho : 2 ≤ obs.length) (hh : 2 ≤ H.length) (hf : 2 ≤ F.length)
    (hu : ssrDrawsOk (ssrThreshold obs H F) u) (hlen : ssrDrawCount obs H F ≤ u.length)
    (hobs : ∀ v ∈ obs, 0 ≤ v) (hH : ∀ v ∈ H, 0 ≤ v) :
    OrderPres F (cdftSteps true d em im obs H F u) := by
  apply cdft_ssr_order_model d em im obs H F u ho hh hf hu hlen
  intro _
  have nn : ∀ (x w : List Rat), (∀ v ∈ x, 0 ≤ v) → (∀ r ∈ w, r ∈ u) → ∀ v ∈ ssrRandomize x w, 0 ≤ v := by
    intro x w hx hw v hv
    rcases mem_ssrRandomize hv with h | h
    · exact hx v h
    · exact (hu v (hw v h)).1
  apply div_nonneg
  · exact mean_nonneg (nn obs _ hobs (fun r hr => List.mem_of_mem_take hr))
  · exact mean_nonneg (nn H _ hH (fun r hr => List.mem_of_mem_drop (List.mem_of_mem_take hr)))

-- satisfiable: pr-like series with zeros, threshold 1/2, draws in [0, 1/2)
example : OrderPres [0, 2, 0, 1] (cdftSteps true .additive .linear .linear [0, 1, 3] [1/2, 0, 2] [0, 2, 0, 1]
    [1/4, 1/8, 3/8, 0, 1/4, 1/8, 3/8, 1/16, 1/4, 1/3]) :=
  cdft_ssr_order_model _ _ _ _ _ _ _ (by decide) (by decide) (by decide) (by unfold ssrDrawsOk; decide +kernel) (by decide)
    (fun h => by cases h)

/-! ## 5. ISIMIP step 4 -/

/-- lower randomisation: the values `≤ lower_threshold` are replaced by the **sorted** draws in the rank order of the
    replaced values; every draw `≤ lower_threshold` (numpy: `[lower_bound, lower_threshold)`) -/
theorem step4_lower_order (c : Cfg) (vals draws out : List Rat)
    (hd : ∀ r ∈ draws, ExtRat.leOf r c.lowerThreshold = true)
    (h : step4RandomizeLower c vals draws = .ok out) : OrderPres vals out :=
  randomizeMasked_lower_order vals (fun v => ExtRat.leOf v c.lowerThreshold) draws out
    (fun _ _ ha hb => leOf_sep ha hb) (fun r hr _ ha => le_of_lt (leOf_sep ha (hd r hr))) h

/-- upper randomisation: draws `≥ upper_threshold` (numpy: `[upper_threshold, upper_bound)`) -/
theorem step4_upper_order (c : Cfg) (vals draws out : List Rat)
    (hd : ∀ r ∈ draws, ExtRat.geOf r c.upperThreshold = true)
    (h : step4RandomizeUpper c vals draws = .ok out) : OrderPres vals out :=
  randomizeMasked_upper_order vals (fun v => ExtRat.geOf v c.upperThreshold) draws out
    (fun _ _ ha hb => geOf_sep ha hb) (fun r hr _ ha => le_of_lt (geOf_sep ha (hd r hr))) h

/-- **`step4` on `cm_future`, for every draw**: both randomisations one after the other (whichever apply), the
    thresholds being ordered (`x ≤ lower_threshold ⇒ ¬ x ≥ upper_threshold`) -/
theorem step4_order (c : Cfg) (d : Draws) (obs H F : List Rat) (r : List Rat × List Rat × List Rat)
    (hdL : ∀ u ∈ d.lowF, ExtRat.leOf u c.lowerThreshold = true)
    (hdU : ∀ u ∈ d.upF, ExtRat.geOf u c.upperThreshold = true)
    (hsep : ∀ v : Rat, ExtRat.leOf v c.lowerThreshold = true → ExtRat.geOf v c.upperThreshold = false)
    (h : step4 c d obs H F = .ok r) : OrderPres F r.2.2 := by
  obtain ⟨f1, h1, h2⟩ := step4_F c d obs H F r h
  by_cases hl : (c.hasLowerBound && c.hasLowerThreshold) = true <;>
    by_cases hu : (c.hasUpperBound && c.hasUpperThreshold) = true <;>
    simp only [hl, hu, if_true, if_false, Bool.false_eq_true] at h1 h2
  · exact randomize_two_stage F f1 r.2.2 (fun v => ExtRat.leOf v c.lowerThreshold)
      (fun v => ExtRat.geOf v c.upperThreshold) d.lowF d.upF h1 h2 (fun _ _ ha hb => leOf_sep ha hb)
      (fun _ _ ha hb => geOf_sep ha hb) hdL hdU hsep
  · rw [h2]; exact step4_lower_order c F d.lowF f1 hdL h1
  · rw [h1] at h2; exact step4_upper_order c F d.upF r.2.2 hdU h2
  · rw [h2, h1]; exact ⟨rfl, fun i j _ _ h => le_of_lt h⟩

/-! ## 6. ISIMIP step 6 -/

/-- **`step6` preserves ranks**, bounded and unbounded variables, parametric and non-parametric branches (every
    fallback included): the `n_l` smallest values go to the lower bound, the `n_u` largest to the upper bound, the rest
    is the image of a monotone map whose values stay inside the bounds.
    Guards: non-empty samples; `event_likelihood_adjustment = False`; the family's laws for the `floc` / `fscale` that
    step 6 passes (`IsiLaws`); bounds enclose thresholds (`CfgOrdered`); the future values lie inside the bounds
    (used only when there are no pseudo-future observations between the thresholds and the middle values are
    left unadjusted). -/
theorem step6_mono (c : Cfg) (fam : IsiFamily) (o : Oracles) (obs obsFut H F out : List Rat)
    (ho : obs ≠ []) (hh : H ≠ []) (hf : F ≠ [])
    (hela : c.eventLikelihoodAdjustment = false) (hL : IsiLaws c fam) (hc : CfgOrdered c)
    (hdata : ∀ v ∈ F, InBounds c v)
    (h : step6 c fam o obs obsFut H F = .ok out) : OrderPres F out :=
  step6_orderPres c fam o obs obsFut H F out ho hh hf hela hL hc hdata h

/-- unbounded variables (tas / psl / rlds) with any location–scale family: the guards reduce to `LocScaleLaws` -/
theorem step6_mono_unbounded (c : Cfg) (Fam : LocScaleFam) (L : LocScaleLaws Fam) (scaleAt : Rat → List Rat → Rat)
    (hsa : ∀ l d, 0 ≤ scaleAt l d) (hfs : ∀ fl s, fixedArgs c = .ok (fl, some s) → 0 < s)
    (hlb : c.lowerBound = .negInf) (hub : c.upperBound = .posInf)
    (o : Oracles) (obs obsFut H F out : List Rat) (ho : obs ≠ []) (hh : H ≠ []) (hf : F ≠ [])
    (hela : c.eventLikelihoodAdjustment = false)
    (h : step6 c (IsiFamily.ofLocScale Fam scaleAt) o obs obsFut H F = .ok out) : OrderPres F out :=
  step6_mono c _ o obs obsFut H F out ho hh hf hela (isiLaws_locScale c Fam L scaleAt hsa hfs hlb hub)
    (cfgOrdered_unbounded c hlb hub) (fun v _ => by unfold InBounds; rw [hlb, hub]; exact ⟨rfl, rfl⟩) h

-- the guards are satisfiable: unbounded variable with the executable test double …
example : IsiLaws tasCfg Model.Isimip.ratSigmoid ∧ CfgOrdered tasCfg :=
  ⟨isiLaws_tas, cfgOrdered_unbounded tasCfg rfl rfl⟩
-- … and a variable with both bounds and thresholds (hurs-like) with a genuinely bounded family (uniform)
example : IsiLaws hursCfg uniformFam ∧ CfgOrdered hursCfg := ⟨isiLaws_hurs_uniform, cfgOrdered_hurs⟩

/-- **the whole ISIMIP window** `_apply_on_window` with `detrending = False` (steps 3 and 7 are the identity):
    `step6 ∘ step5 ∘ step4`.  Guards of `step6_mono`, plus what numpy documents about the step-4 draws (inside
    `[bound, threshold]` resp. `[threshold, bound]`) and **pairwise distinct draws** (probability 1): with tied draws
    two different sub-threshold values become equal after step 4 and step 6 orders equal values by `argsort`'s
    tie-breaking — `step4_order` (`≤`, every draw) is the statement without that guard. -/
theorem window_mono (c : Cfg) (fam : IsiFamily) (o : Oracles) (d : Draws) (obs H F : List Rat)
    (yO yH yF : List Int) (out : List Rat) (hdet : c.detrending = false)
    (ho : obs ≠ []) (hh : H ≠ []) (hf : F ≠ [])
    (hela : c.eventLikelihoodAdjustment = false) (hL : IsiLaws c fam) (hc : CfgOrdered c)
    (hdata : ∀ v ∈ F, InBounds c v)
    (hndL : d.lowF.Nodup) (hndU : d.upF.Nodup)
    (hdL : ∀ u ∈ d.lowF, ExtRat.leOf u c.lowerThreshold = true ∧ InBounds c u)
    (hdU : ∀ u ∈ d.upF, ExtRat.geOf u c.upperThreshold = true ∧ InBounds c u)
    (h : applyOnWindow c fam o d obs H F yO yH yF = .ok out) : OrderPres F out :=
  window_orderPres c fam o d obs H F yO yH yF out hdet ho hh hf hela hL hc hdata hndL hndU hdL hdU h

/-! ## 6b. event likelihood adjustment: the guard `eventLikelihoodAdjustment = false` is necessary (F22) -/

/-- **F22** (known finding, inherent to the method — not a guard to hide behind): with `event_likelihood_adjustment = True`
    step 6 maps the value of rank `i` to `ppf_obs_future(expit(L_obs_hist,i + clamp(L_cm_future,i − L_cm_hist,i)))`, and the
    adjusted likelihood is **not** monotone in `i`.  Concrete witness on the executable model (tas-like configuration
    without bounds, rational test family, `logit` / `expit` = the rational sigmoid's `G⁻¹` / `G` — strictly increasing and
    mutually inverse —, `np.log(10)` ≈ `23/10`): `obs_hist = obs_future = cm_future = [0, 1, 2, 3]` (tie-free),
    `cm_hist = [0, 1, 2, 10]` (one hot outlier): the future values `2 < 3` come out as `155/54 > 5/2`.
    Every *other* guard of `step6_mono` holds on this instance, and the same call with the option off returns
    `[0, 1, 2, 3]` (order preserving, as `step6_mono` says).  `decide +kernel` on a concrete witness. -/
theorem step6_ela_can_reorder :
    -- the remaining guards of `step6_mono`
    (IsiLaws elaCfg Model.Isimip.ratSigmoid ∧ CfgOrdered elaCfg ∧ ∀ v ∈ ([0, 1, 2, 3] : List Rat), InBounds elaCfg v) ∧
    -- the stand-ins for `expit` / `logit` are strictly increasing / inverse to each other
    ((∀ a b : Rat, a < b → elaOracles.expit a < elaOracles.expit b) ∧ ∀ z : Rat, elaOracles.logit (elaOracles.expit z) = z) ∧
    -- option on: `x_2 = 2 < x_3 = 3` but `out_2 = 155/54 > out_3 = 5/2`
    step6 elaCfg Model.Isimip.ratSigmoid elaOracles [0, 1, 2, 3] [0, 1, 2, 3] [0, 1, 2, 10] [0, 1, 2, 3]
      = .ok [-29 / 54, 7 / 6, 155 / 54, 5 / 2] ∧
    ¬ OrderPres [0, 1, 2, 3] [-29 / 54, 7 / 6, 155 / 54, 5 / 2] ∧
    -- control: the identical call with the option off
    step6 tasCfg Model.Isimip.ratSigmoid elaOracles [0, 1, 2, 3] [0, 1, 2, 3] [0, 1, 2, 10] [0, 1, 2, 3]
      = .ok [0, 1, 2, 3] := by
  have e1 : sortQ [0, 1, 2, 3] = [0, 1, 2, 3] := sortQ_of_sorted_ela (by decide +kernel)
  have e2 : sortQ [0, 1, 2, 10] = [0, 1, 2, 10] := sortQ_of_sorted_ela (by decide +kernel)
  have e3 : argsort [0, 1, 2, 3] = [0, 1, 2, 3] := argsort_of_sorted_ela (by decide +kernel)
  have e4 : rankOf [0, 1, 2, 3] = [0, 1, 2, 3] := by
    unfold rankOf
    rw [e3]
    exact argsort_of_sorted_ela (l := [((0 : Nat) : Rat), ((1 : Nat) : Rat), ((2 : Nat) : Rat), ((3 : Nat) : Rat)])
      (by decide +kernel)
  refine ⟨⟨isiLaws_ela, cfgOrdered_unbounded elaCfg rfl rfl, fun v _ => ⟨rfl, rfl⟩⟩,
    ⟨Lemmas.Family.ratSigmoid_laws.G_strictMono, Lemmas.Family.ratSigmoid_laws.Ginv_G⟩, ?_, ?_, ?_⟩
  · unfold step6 step6Full
    simp only [e1, e2, e3, e4]
    decide +kernel
  · intro h
    have := h.2 2 3 (by decide) (by decide) (by decide +kernel)
    revert this
    decide +kernel
  · unfold step6 step6Full
    simp only [e1, e2, e3, e4]
    decide +kernel

-- the same instance in another storage order (compiled evaluation, `#guard`: the window sorts): values `2 < 3` at
-- positions 0 and 2 receive `155/54 > 5/2`; with the option off the call returns its input
#guard (match step6 elaCfg Model.Isimip.ratSigmoid elaOracles [3, 0, 2, 1] [1, 3, 0, 2] [10, 0, 2, 1] [2, 0, 3, 1] with
  | .ok out => out == [155 / 54, -29 / 54, 5 / 2, 7 / 6] | .error _ => false)
#guard (match step6 tasCfg Model.Isimip.ratSigmoid elaOracles [3, 0, 2, 1] [1, 3, 0, 2] [10, 0, 2, 1] [2, 0, 3, 1] with
  | .ok out => out == [2, 0, 3, 1] | .error _ => false)

/-! ## 7. the precipitation models inside parametric QuantileMapping (`Model/PrecipQM.lean`) -/

/-- **hurdle model, every draw** (`u ≤ p0` — `np.random.uniform(0, p0)`; `p0` = dry fraction of `cm_hist`): zeros are
    ties whose randomised cdf values never exceed `p0`, wet values have cdf values `≥ p0`, the hurdle ppf is monotone —
    a strictly smaller (non-negative) value never gets a larger output; with and without `cdf_randomization` -/
theorem hurdle_qm_order (Ah Ao : Amounts) (L : PrecipLaws Ah Ao) (p0h p0o : Rat) (rand : Bool) (t : Rat)
    (ht0 : 0 < t) (ht : t ≤ 1 / 2) (hp1 : p0h ≤ 1) (hpo : p0o < 1)
    (xi xj ui uj : Rat) (hxi : 0 ≤ xi) (hlt : xi < xj) (hui : ui ≤ p0h) :
    qmHurdle1 Ah Ao p0h p0o rand t ui xi ≤ qmHurdle1 Ah Ao p0h p0o rand t uj xj :=
  qmHurdle1_order Ah Ao L p0h p0o rand t ht0 ht hp1 hpo xi xj ui uj hxi hlt hui

/-- … as the window function `QuantileMapping.apply_on_window` (`no_detrending`, or `multiplicative` with `δ > 0` —
    the default for `pr`): rank preserving for every draw list with one draw `≤ p0` per value.  Non-negative data. -/
theorem hurdle_window_order (Ah Ao : Amounts) (L : PrecipLaws Ah Ao) (p0h p0o : Rat) (rand : Bool) (t : Rat)
    (ht0 : 0 < t) (ht : t ≤ 1 / 2) (hp1 : p0h ≤ 1) (hpo : p0o < 1) (d : Detrending) (H F us : List Rat)
    (hd : d ≠ .additive) (hδ : d = .multiplicative → 0 < mean F / mean H)
    (hlen : F.length ≤ us.length) (hF : ∀ v ∈ F, 0 ≤ v) (hus : ∀ u ∈ us, u ≤ p0h) :
    OrderPres F (window d H F (fun u x => qmHurdle1 Ah Ao p0h p0o rand t u x) us) :=
  precipWindow_orderPres d H F _ us (fun u => u ≤ p0h) hd hδ hlen hF hus
    (fun a b ua ub ha hab hu => qmHurdle1_order Ah Ao L p0h p0o rand t ht0 ht hp1 hpo a b ua ub ha hab hu)

/-- the executable instance the driver runs (fits of the rational test double): guards satisfiable -/
example : PrecipLaws (meanFit [0, 0, 1, 3]) (meanFit [0, 1, 2, 4]) :=
  precipLaws_ratFam _ _ (by decide +kernel) (by decide +kernel)

example : qmHurdle1 (meanFit [0, 0, 1, 3]) (meanFit [0, 1, 2, 4]) (hurdleP0 [0, 0, 1, 3]) (hurdleP0 [0, 1, 2, 4]) true
    (1 / 1000) (1 / 3) 0 ≤
    qmHurdle1 (meanFit [0, 0, 1, 3]) (meanFit [0, 1, 2, 4]) (hurdleP0 [0, 0, 1, 3]) (hurdleP0 [0, 1, 2, 4]) true
    (1 / 1000) 0 (1 / 2) :=
  hurdle_qm_order _ _ (precipLaws_ratFam _ _ (by decide +kernel) (by decide +kernel)) _ _ _ _ (by norm_num) (by norm_num)
    (by decide +kernel) (by decide +kernel) _ _ _ _ (le_refl _) (by norm_num) (by decide +kernel)

/-- **ignore-zeros model**: a dry value (`cdf = −∞`, clipped to `cdf_threshold`) is mapped to `ppf_obs(cdf_threshold)`,
    never above the image of a wet value; no randomness -/
theorem iz_qm_order (Ah Ao : Amounts) (L : PrecipLaws Ah Ao) (t : Rat) (ht0 : 0 < t) (ht : t ≤ 1 / 2)
    (xi xj : Rat) (hxi : 0 ≤ xi) (hlt : xi < xj) : qmIz1 Ah Ao t xi ≤ qmIz1 Ah Ao t xj :=
  qmIz1_order Ah Ao L t ht0 ht xi xj hxi hlt

theorem iz_window_order (Ah Ao : Amounts) (L : PrecipLaws Ah Ao) (t : Rat) (ht0 : 0 < t) (ht : t ≤ 1 / 2)
    (d : Detrending) (H F us : List Rat) (hd : d ≠ .additive) (hδ : d = .multiplicative → 0 < mean F / mean H)
    (hlen : F.length ≤ us.length) (hF : ∀ v ∈ F, 0 ≤ v) :
    OrderPres F (window d H F (fun _ x => qmIz1 Ah Ao t x) us) :=
  precipWindow_orderPres d H F _ us (fun _ => True) hd hδ hlen hF (fun _ _ => trivial)
    (fun a b _ _ ha hab _ => qmIz1_order Ah Ao L t ht0 ht a b ha hab)

/-- **left-censored gamma model, what holds for every draw**: monotone on values at or above the censoring threshold,
    and `x_i < thr ≤ x_j ⇒ out_i ≤ out_j` (draw of the sub-threshold value in `[0, thr)`), with and without
    `censor_in_ppf` -/
theorem censored_qm_order (Ah Ao : Amounts) (L : PrecipLaws Ah Ao) (thr : Rat) (censor : Bool) (t : Rat)
    (ht0 : 0 < t) (ht : t ≤ 1 / 2) (h0 : 0 ≤ thr)
    (xi xj ui uj : Rat) (hxi : 0 ≤ xi) (hlt : xi < xj) (hj : thr ≤ xj) (hui0 : 0 ≤ ui) (hui : ui < thr) :
    qmCens1 Ah Ao thr censor t ui xi ≤ qmCens1 Ah Ao thr censor t uj xj :=
  qmCens1_order Ah Ao L thr censor t ht0 ht h0 xi xj ui uj hxi hlt hj hui0 hui

/-- … as the window function (`no_detrending`): for every draw list with `0 ≤ u < thr`, every pair `F_i < F_j` with
    `F_j` at or above the censoring threshold keeps its order -/
theorem censored_window_order (Ah Ao : Amounts) (L : PrecipLaws Ah Ao) (thr : Rat) (censor : Bool) (t : Rat)
    (ht0 : 0 < t) (ht : t ≤ 1 / 2) (h0 : 0 ≤ thr) (H F us : List Rat)
    (hlen : F.length ≤ us.length) (hF : ∀ v ∈ F, 0 ≤ v) (hus : ∀ u ∈ us, 0 ≤ u ∧ u < thr)
    (i j : Nat) (hi : i < F.length) (hj : j < F.length) (hlt : F.getD i 0 < F.getD j 0) (hthr : thr ≤ F.getD j 0) :
    (window .no_detrending H F (fun u x => qmCens1 Ah Ao thr censor t u x) us).getD i 0 ≤
      (window .no_detrending H F (fun u x => qmCens1 Ah Ao thr censor t u x) us).getD j 0 := by
  rw [window_getD_no H F _ us hlen i hi, window_getD_no H F _ us hlen j hj]
  have hu := hus _ (getD_mem us i (by omega))
  exact qmCens1_order Ah Ao L thr censor t ht0 ht h0 _ _ _ _ (hF _ (getD_mem F i hi)) hlt hthr hu.1 hu.2

/-- **F16** (known finding, inherent to censoring — not a guard to hide behind): two *distinct sub-threshold*
    inputs are re-drawn independently and can come out in either order.  Concrete witness on the executable model:
    `cm_hist` amounts scale 1, `obs` amounts scale 4 (the composed map is `x ↦ 4x`), `thr = 1`, `t = 1/1000`:
    inputs `0 < 1/2`, draws `3/4`, `1/2` (both in `[0, thr)`), outputs `3 > 2`. -/
theorem censored_qm_subthreshold_pair_can_invert :
    PrecipLaws (ratFam 0 1) (ratFam 0 4) ∧
    qmCens1 (ratFam 0 1) (ratFam 0 4) 1 true (1 / 1000) (1 / 2) (1 / 2) <
      qmCens1 (ratFam 0 1) (ratFam 0 4) 1 true (1 / 1000) (3 / 4) 0 :=
  ⟨precipLaws_ratFam 1 4 (by norm_num) (by norm_num), by decide +kernel⟩

/-! ## 8. legitimate zero-valued settings: a threshold of `0` is a threshold -/

/-- the location that step 6 fixes in the parametric fits is the lower threshold whenever it is finite — **including
    `0`** (`ISIMIP(lower_threshold = 0)`: only exact zeros are dry); `floc = 0.0` must not be mistaken for "not fixed" -/
theorem fixedArgs_floc (c : Cfg) (l : Rat) (h : c.lowerThreshold = .fin l) (fl fs : Option Rat)
    (hf : fixedArgs c = .ok (fl, fs)) : fl = some l := by
  unfold fixedArgs at hf
  cases hu : c.upperThreshold <;>
    simp [Cfg.hasLowerThreshold, Cfg.hasUpperThreshold, h, hu, ExtRat.gtNegInf, ExtRat.ltPosInf, ExtRat.toRat, bind,
      Except.bind, pure, Except.pure, Except.map] at hf <;>
    exact hf.1.symm

/-- pr with `lower_threshold = lower_bound = 0` -/
def prZeroCfg : Cfg :=
  { trendMethod := .mixed, nonparametricQm := false, detrending := false,
    lowerBound := .fin 0, lowerThreshold := .fin 0 }

example : fixedArgs prZeroCfg = .ok (some 0, none) := by decide +kernel

/-
  Not proved here (left to the oracle of `harness/c09.py`, stated in full):

  * QuantileMapping with a precipitation model and `detrending = "additive"` (not a default; the shifted values
    `x − δ` can be negative or hit zero, where the hurdle / ignore-zeros `x == 0` test changes class).
  * the whole ISIMIP window for *tied* step-4 draws (`window_mono` carries `Nodup` hypotheses on the draws), and with
    `detrending = True` (the per-year trend added back in step 7 differs between years, so order is preserved
    within a year only — outside the property's "within one window, detrending off" clause).
  * event likelihood adjustment (`event_likelihood_adjustment = True`, not a default of any variable):
    `expit(L_obs_i + clamp(L_future_i − L_hist_i))` is not monotone in `i` in general.  Nothing positive is claimed for
    it: the guard of `step6_mono` is shown necessary by `step6_ela_can_reorder` (§6b), and the real code with the option
    on is run by the oracle (`ela_cases` in `harness/c09.py`) — its inversions are the recorded known finding F22.
-/

end Props.C09
