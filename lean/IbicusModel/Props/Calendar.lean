/-
  Calendar facts behind C07 / C08 / C19 (every seasonal window, time group and annual statistic starts from
  `day_of_year` / `month` / `year` / `season` of the time axis).  Stated for the model `Model.Calendar`, which the
  correspondence check ties to `ibicus.utils.day_of_year` etc. on every run.
-/
import IbicusModel.Model.Calendar
import Mathlib.Tactic.IntervalCases

namespace Props.Calendar
open Model.Calendar

theorem valid_iff (y : Int) (m d : Nat) :
    valid y m d = true ↔ 1 ≤ m ∧ m ≤ 12 ∧ 1 ≤ d ∧ d ≤ monthLen (isLeap y) m := by
  simp [valid]

theorem daysBefore_succ (leap : Bool) (m : Nat) (h1 : 1 ≤ m) (h12 : m ≤ 12) :
    daysBefore leap (m + 1) = daysBefore leap m + monthLen leap m := by
  interval_cases m <;> cases leap <;> decide

theorem daysBefore_thirteen (leap : Bool) : daysBefore leap 13 = yearLen leap := by
  cases leap <;> decide

theorem daysBefore_mono (leap : Bool) (m : Nat) (h1 : 1 ≤ m) (h12 : m ≤ 12) :
    daysBefore leap m + monthLen leap m ≤ yearLen leap := by
  interval_cases m <;> cases leap <;> decide

/-- every date has a day of year in `1 .. 365/366` (the range the window kernels assume) -/
theorem dayOfYear_range (y : Int) (m d : Nat) (h : valid y m d = true) :
    1 ≤ dayOfYear y m d ∧ dayOfYear y m d ≤ yearLen (isLeap y) := by
  obtain ⟨h1, h12, hd1, hd⟩ := (valid_iff y m d).1 h
  have := daysBefore_mono (isLeap y) m h1 h12
  unfold dayOfYear
  omega

theorem next_same (y : Int) (m d : Nat) (h : d < monthLen (isLeap y) m) : next y m d = (y, m, d + 1) := by
  simp [next, h]

theorem next_month (y : Int) (m d : Nat) (h : ¬ d < monthLen (isLeap y) m) (hm : m < 12) :
    next y m d = (y, m + 1, 1) := by
  simp [next, h, hm]

theorem next_year (y : Int) (m d : Nat) (h : ¬ d < monthLen (isLeap y) m) (hm : ¬ m < 12) :
    next y m d = (y + 1, 1, 1) := by
  simp [next, h, hm]

theorem monthLen_pos (leap : Bool) (m : Nat) (h1 : 1 ≤ m) (h12 : m ≤ 12) : 1 ≤ monthLen leap m := by
  interval_cases m <;> cases leap <;> decide

/-- the following day is a date again -/
theorem valid_next (y : Int) (m d : Nat) (h : valid y m d = true) :
    valid (next y m d).1 (next y m d).2.1 (next y m d).2.2 = true := by
  obtain ⟨h1, h12, hd1, hd⟩ := (valid_iff y m d).1 h
  by_cases hlt : d < monthLen (isLeap y) m
  · rw [next_same y m d hlt]
    show valid y m (d + 1) = true
    exact (valid_iff _ _ _).2 ⟨h1, h12, by omega, by omega⟩
  · by_cases hm : m < 12
    · rw [next_month y m d hlt hm]
      show valid y (m + 1) 1 = true
      exact (valid_iff _ _ _).2 ⟨by omega, by omega, by omega, monthLen_pos _ _ (by omega) (by omega)⟩
    · rw [next_year y m d hlt hm]
      show valid (y + 1) 1 1 = true
      exact (valid_iff _ _ _).2 ⟨by omega, by omega, by omega, monthLen_pos _ _ (by omega) (by omega)⟩

/-- from one day to the next the day of year increases by one, or — exactly on the last day of the year, day 365 of a
    common year / 366 of a leap year — restarts at 1 in the following year -/
theorem dayOfYear_next (y : Int) (m d : Nat) (h : valid y m d = true) :
    ((next y m d).1 = y ∧ dayOfYear (next y m d).1 (next y m d).2.1 (next y m d).2.2 = dayOfYear y m d + 1
        ∧ dayOfYear y m d < yearLen (isLeap y))
    ∨ ((next y m d).1 = y + 1 ∧ dayOfYear (next y m d).1 (next y m d).2.1 (next y m d).2.2 = 1
        ∧ dayOfYear y m d = yearLen (isLeap y)) := by
  obtain ⟨h1, h12, hd1, hd⟩ := (valid_iff y m d).1 h
  have hm0 := daysBefore_mono (isLeap y) m h1 h12
  by_cases hlt : d < monthLen (isLeap y) m
  · left
    rw [next_same y m d hlt]
    refine ⟨rfl, ?_, ?_⟩
    · show daysBefore (isLeap y) m + (d + 1) = daysBefore (isLeap y) m + d + 1
      omega
    · show daysBefore (isLeap y) m + d < yearLen (isLeap y)
      omega
  · by_cases hm : m < 12
    · left
      rw [next_month y m d hlt hm]
      have hs := daysBefore_succ (isLeap y) m h1 h12
      have hm2 := daysBefore_mono (isLeap y) (m + 1) (by omega) (by omega)
      have hpos := monthLen_pos (isLeap y) (m + 1) (by omega) (by omega)
      refine ⟨rfl, ?_, ?_⟩
      · show daysBefore (isLeap y) (m + 1) + 1 = daysBefore (isLeap y) m + d + 1
        omega
      · show daysBefore (isLeap y) m + d < yearLen (isLeap y)
        omega
    · right
      rw [next_year y m d hlt hm]
      have hm12 : m = 12 := by omega
      subst hm12
      have hs : daysBefore (isLeap y) 13 = daysBefore (isLeap y) 12 + monthLen (isLeap y) 12 :=
        daysBefore_succ (isLeap y) 12 (by omega) (by omega)
      have h13 := daysBefore_thirteen (isLeap y)
      refine ⟨rfl, ?_, ?_⟩
      · show daysBefore (isLeap (y + 1)) 1 + 1 = 1
        cases isLeap (y + 1) <;> decide
      · show daysBefore (isLeap y) 12 + d = yearLen (isLeap y)
        omega

/-- every day of year `1 .. 365/366` is the day of year of a date of that year: a series covering a whole calendar year
    presents every day of the year to the windows (and day 366 exactly in leap years) -/
theorem dayOfYear_surjective (y : Int) (k : Nat) (h1 : 1 ≤ k) (hk : k ≤ yearLen (isLeap y)) :
    valid y (ofDoy (isLeap y) k).1 (ofDoy (isLeap y) k).2 = true
      ∧ dayOfYear y (ofDoy (isLeap y) k).1 (ofDoy (isLeap y) k).2 = k := by
  have key : ∀ leap : Bool, ∀ k : Fin 367, 1 ≤ k.val → k.val ≤ yearLen leap →
      (1 ≤ (ofDoy leap k.val).1 ∧ (ofDoy leap k.val).1 ≤ 12 ∧ 1 ≤ (ofDoy leap k.val).2
        ∧ (ofDoy leap k.val).2 ≤ monthLen leap (ofDoy leap k.val).1)
      ∧ daysBefore leap (ofDoy leap k.val).1 + (ofDoy leap k.val).2 = k.val := by
    decide +kernel
  have hk367 : k < 367 := by
    have : yearLen (isLeap y) ≤ 366 := by cases isLeap y <;> decide
    omega
  obtain ⟨hv, hd⟩ := key (isLeap y) ⟨k, hk367⟩ h1 hk
  exact ⟨(valid_iff _ _ _).2 hv, hd⟩

/-- months are laid out one after the other -/
theorem daysBefore_lt (leap : Bool) (m m' : Nat) (h : m < m') (h1 : 1 ≤ m) (h12 : m' ≤ 12) :
    daysBefore leap m + monthLen leap m ≤ daysBefore leap m' := by
  have key : ∀ leap : Bool, ∀ a b : Fin 13, 1 ≤ a.val → a.val < b.val →
      daysBefore leap a.val + monthLen leap a.val ≤ daysBefore leap b.val := by
    decide +kernel
  exact key leap ⟨m, by omega⟩ ⟨m', by omega⟩ h1 h

/-- within a year the day of year identifies the date -/
theorem dayOfYear_injective (y : Int) (m d m' d' : Nat) (h : valid y m d = true) (h' : valid y m' d' = true)
    (he : dayOfYear y m d = dayOfYear y m' d') : m = m' ∧ d = d' := by
  obtain ⟨h1, h12, hd1, hd⟩ := (valid_iff y m d).1 h
  obtain ⟨h1', h12', hd1', hd'⟩ := (valid_iff y m' d').1 h'
  unfold dayOfYear at he
  have hmm : m = m' := by
    rcases Nat.lt_trichotomy m m' with hlt | heq | hgt
    · have := daysBefore_lt (isLeap y) m m' hlt h1 h12'
      omega
    · exact heq
    · have := daysBefore_lt (isLeap y) m' m hgt h1' h12
      omega
  subst hmm
  exact ⟨rfl, by omega⟩

/-- every date of a run of consecutive days is a date, so its day of year lies in `1 .. 365/366` -/
theorem run_valid (n : Nat) (y : Int) (m d : Nat) (h : valid y m d = true) :
    ∀ p ∈ run n y m d, valid p.1 p.2.1 p.2.2 = true := by
  induction n generalizing y m d with
  | zero => intro p hp; simp [run] at hp
  | succ n ih =>
    intro p hp
    simp only [run, List.mem_cons] at hp
    rcases hp with rfl | hp
    · exact h
    · exact ih _ _ _ (valid_next y m d h) p hp

theorem run_length (n : Nat) (y : Int) (m d : Nat) : (run n y m d).length = n := by
  induction n generalizing y m d with
  | zero => rfl
  | succ n ih => simp [run, ih]

/-- the inferred calendar starts on 1 January 1950 and consists of dates -/
theorem inferred_valid (n : Nat) : ∀ p ∈ inferred n, valid p.1 p.2.1 p.2.2 = true :=
  run_valid n 1950 1 1 (by decide)

/-- the four seasons partition the twelve months, three months each (DJF / MAM / JJA / SON) -/
theorem season_partition :
    (∀ m : Nat, 1 ≤ m → m ≤ 12 → (season m).isSome)
    ∧ ((List.range 13).filter (fun m => season m = some "Winter")) = [1, 2, 12]
    ∧ ((List.range 13).filter (fun m => season m = some "Spring")) = [3, 4, 5]
    ∧ ((List.range 13).filter (fun m => season m = some "Summer")) = [6, 7, 8]
    ∧ ((List.range 13).filter (fun m => season m = some "Autumn")) = [9, 10, 11] := by
  refine ⟨?_, by decide, by decide, by decide, by decide⟩
  intro m h1 h12
  interval_cases m <;> decide

/-- century years: 1900 and 2100 are common years, 2000 is a leap year -/
example : isLeap 1900 = false ∧ isLeap 2100 = false ∧ isLeap 2000 = true ∧ isLeap 2024 = true := by decide
example : dayOfYear 2100 3 1 = 60 ∧ dayOfYear 2000 3 1 = 61 ∧ dayOfYear 2024 12 31 = 366 := by decide
example : next 2023 12 31 = (2024, 1, 1) ∧ next 2024 2 28 = (2024, 2, 29) ∧ next 2100 2 28 = (2100, 3, 1) := by decide
example : (inferred 3) = [(1950, 1, 1), (1950, 1, 2), (1950, 1, 3)] := by decide

end Props.Calendar
