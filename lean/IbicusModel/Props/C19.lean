/-
  C19 — threshold metrics count and accumulate exactly what their definition says.
  Property theorems only (helper lemmas live in `Lemmas/Metrics.lean`), stated on `Model.Metrics`
  (hand-written model of `ibicus/evaluate/metrics.py`; tied to the source by the tier-B correspondence of
  `harness/c19.py` through `drivers/DrvMetrics.lean`).
-/
import IbicusModel.Lemmas.Metrics

namespace Props.C19
open Model.Metrics Lemmas.Metrics

/-! ## 1. The instance array is the defining comparison -/

/-- the threshold that applies at `[t][i][j]`: the metric's value (global) or its entry at the location (local),
    overall or looked up under the time group of step `t`; `none` = no such key / no time given -/
def thrAt (s : Spec) (grp : Option (Nat → Int)) (t i j : Nat) : Option Rat :=
  match s with
  | .overall v => some (v.at i j)
  | .grouped f =>
    match grp with
    | none => none
    | some g => (f (g t)).map (fun v => v.at i j)

/-- a threshold value is usable on `T` time steps: always (overall), or time is given and every step's group has a key -/
def specOk (s : Spec) (grp : Option (Nat → Int)) (T : Nat) : Prop :=
  match s with
  | .overall _ => True
  | .grouped f => ∃ g, grp = some g ∧ ∀ t, t < T → (f (g t)).isSome = true

theorem thresholds_ok_iff (s : Spec) (grp : Option (Nat → Int)) (T : Nat) :
    (∃ th, thresholds s grp T = .ok th) ↔ specOk s grp T := by
  cases s with
  | overall v => simp [thresholds, specOk]
  | grouped f =>
    cases grp with
    | none => simp [thresholds, specOk]
    | some g =>
      simp only [thresholds, specOk, Option.some.injEq, exists_eq_left']
      by_cases h : (List.range T).all (fun t => (f (g t)).isSome) = true
      · simp only [h, if_true, Except.ok.injEq, exists_eq', true_iff]
        intro t ht
        exact List.all_eq_true.mp h t (List.mem_range.mpr ht)
      · simp only [h, if_false, reduceCtorEq, exists_false, false_iff, Bool.false_eq_true]
        intro hall
        exact h (List.all_eq_true.mpr (fun t ht => hall t (List.mem_range.mp ht)))

theorem thresholds_error (s : Spec) (grp : Option (Nat → Int)) (T : Nat) (e : String)
    (h : thresholds s grp T = .error e) : e = "ValueError" := by
  cases s with
  | overall v => simp [thresholds] at h
  | grouped f =>
    cases grp with
    | none => simp only [thresholds, Except.error.injEq] at h; exact h.symm
    | some g =>
      simp only [thresholds] at h
      split_ifs at h
      simp only [Except.error.injEq] at h; exact h.symm

theorem thresholds_value (s : Spec) (grp : Option (Nat → Int)) (T : Nat) (th : Nat → Nat → Nat → Rat)
    (h : thresholds s grp T = .ok th) (t i j : Nat) (ht : t < T) : thrAt s grp t i j = some (th t i j) := by
  cases s with
  | overall v =>
    simp only [thresholds, Except.ok.injEq] at h
    subst h; rfl
  | grouped f =>
    cases grp with
    | none => simp [thresholds] at h
    | some g =>
      simp only [thresholds] at h
      split_ifs at h with hall
      simp only [Except.ok.injEq] at h
      subst h
      have := List.all_eq_true.mp hall t (List.mem_range.mpr ht)
      simp only [thrAt]
      cases hf : f (g t) with
      | none => simp [hf] at this
      | some v => simp

theorem maskHL_def (x : Data) (s : Spec) (hl : HL) (grp : Option (Nat → Int)) (T : Nat) (a : Mask)
    (h : maskHL x s hl grp T = .ok a) (t i j : Nat) (ht : t < T) :
    ∃ th, thrAt s grp t i j = some th ∧ a t i j = cmpHL hl (x t i j) th := by
  unfold maskHL at h
  cases hth : thresholds s grp T with
  | error e => simp [hth] at h
  | ok th =>
    simp only [hth, Except.ok.injEq] at h
    subst h
    exact ⟨th t i j, thresholds_value s grp T th hth t i j ht, rfl⟩

theorem maskHL_ok_iff (x : Data) (s : Spec) (hl : HL) (grp : Option (Nat → Int)) (T : Nat) :
    (∃ a, maskHL x s hl grp T = .ok a) ↔ specOk s grp T := by
  rw [← thresholds_ok_iff]
  unfold maskHL
  cases thresholds s grp T <;> simp

theorem maskHL_error (x : Data) (s : Spec) (hl : HL) (grp : Option (Nat → Int)) (T : Nat) (e : String)
    (h : maskHL x s hl grp T = .error e) : e = "ValueError" := by
  unfold maskHL at h
  cases hth : thresholds s grp T with
  | error e' =>
    simp only [hth, Except.error.injEq] at h
    subst h; exact thresholds_error s grp T _ hth
  | ok th => simp [hth] at h

/-- **instances_def.**  Whenever `calculate_instances_of_threshold_exceedance` returns, its entry at every
    `[t][i][j]` is 1 exactly when the defining comparison holds there and 0 otherwise — for the four threshold
    types (strict `>`; strict `<`; `lower < x < upper`; `x < lower ∨ x > upper`), thresholds global or per location
    (`Thr.at`), overall or looked up under the time group of step `t` (`thrAt`). -/
theorem instances_def (m : Metric) (x : Data) (grp : Option (Nat → Int)) (T : Nat) (a : Nat → Nat → Nat → Nat)
    (h : instances m x grp T = .ok a) (t i j : Nat) (ht : t < T) :
    match m.ty with
    | .higher => ∃ th, thrAt m.v0 grp t i j = some th ∧ a t i j = if x t i j > th then 1 else 0
    | .lower => ∃ th, thrAt m.v0 grp t i j = some th ∧ a t i j = if x t i j < th then 1 else 0
    | .between => ∃ lo hi, thrAt m.v0 grp t i j = some lo ∧ thrAt m.v1 grp t i j = some hi ∧
        a t i j = if lo < x t i j ∧ x t i j < hi then 1 else 0
    | .outside => ∃ lo hi, thrAt m.v0 grp t i j = some lo ∧ thrAt m.v1 grp t i j = some hi ∧
        a t i j = if x t i j < lo ∨ x t i j > hi then 1 else 0 := by
  unfold instances at h
  cases hm : mask m x grp T with
  | error e => simp [hm, Except.map] at h
  | ok mk =>
    simp only [hm, Except.map, Except.ok.injEq] at h
    subst h
    unfold mask at hm
    cases hty : m.ty with
    | higher =>
      simp only [hty] at hm ⊢
      obtain ⟨th, h1, h2⟩ := maskHL_def x m.v0 .higher grp T mk hm t i j ht
      exact ⟨th, h1, by simp [inst, h2, cmpHL]⟩
    | lower =>
      simp only [hty] at hm ⊢
      obtain ⟨th, h1, h2⟩ := maskHL_def x m.v0 .lower grp T mk hm t i j ht
      exact ⟨th, h1, by simp [inst, h2, cmpHL]⟩
    | between =>
      simp only [hty] at hm ⊢
      cases ha : maskHL x m.v0 .higher grp T with
      | error e => simp [ha] at hm
      | ok a0 =>
        cases hb : maskHL x m.v1 .lower grp T with
        | error e => simp [ha, hb] at hm
        | ok b0 =>
          simp only [ha, hb, Except.ok.injEq] at hm
          subst hm
          obtain ⟨lo, h1, h2⟩ := maskHL_def x m.v0 .higher grp T a0 ha t i j ht
          obtain ⟨hi, h3, h4⟩ := maskHL_def x m.v1 .lower grp T b0 hb t i j ht
          exact ⟨lo, hi, h1, h3, by simp [inst, h2, h4, cmpHL]⟩
    | outside =>
      simp only [hty] at hm ⊢
      cases ha : maskHL x m.v0 .lower grp T with
      | error e => simp [ha] at hm
      | ok a0 =>
        cases hb : maskHL x m.v1 .higher grp T with
        | error e => simp [ha, hb] at hm
        | ok b0 =>
          simp only [ha, hb, Except.ok.injEq] at hm
          subst hm
          obtain ⟨lo, h1, h2⟩ := maskHL_def x m.v0 .lower grp T a0 ha t i j ht
          obtain ⟨hi, h3, h4⟩ := maskHL_def x m.v1 .higher grp T b0 hb t i j ht
          exact ⟨lo, hi, h1, h3, by simp [inst, h2, h4, cmpHL]⟩

/-- which threshold values a metric type reads -/
def usesUpper : ThType → Bool
  | .between | .outside => true
  | _ => false

/-- **instances succeed iff every threshold is available**: overall metrics always; time-scoped metrics iff `time`
    is given and every time step's group has a key in (each of) the threshold dict(s). -/
theorem instances_ok_iff (m : Metric) (x : Data) (grp : Option (Nat → Int)) (T : Nat) :
    (∃ a, instances m x grp T = .ok a) ↔ specOk m.v0 grp T ∧ (usesUpper m.ty = true → specOk m.v1 grp T) := by
  have key : (∃ a, instances m x grp T = .ok a) ↔ ∃ mk, mask m x grp T = .ok mk := by
    unfold instances
    cases mask m x grp T <;> simp [Except.map]
  rw [key]
  unfold mask
  cases hty : m.ty with
  | higher => simp only [usesUpper, Bool.false_eq_true, false_imp_iff, and_true]; exact maskHL_ok_iff ..
  | lower => simp only [usesUpper, Bool.false_eq_true, false_imp_iff, and_true]; exact maskHL_ok_iff ..
  | between =>
    simp only [usesUpper, true_imp_iff]
    rw [← maskHL_ok_iff x m.v0 .higher grp T, ← maskHL_ok_iff x m.v1 .lower grp T]
    cases maskHL x m.v0 .higher grp T <;> cases maskHL x m.v1 .lower grp T <;> simp
  | outside =>
    simp only [usesUpper, true_imp_iff]
    rw [← maskHL_ok_iff x m.v0 .lower grp T, ← maskHL_ok_iff x m.v1 .higher grp T]
    cases maskHL x m.v0 .lower grp T <;> cases maskHL x m.v1 .higher grp T <;> simp

/-- the only failure is the `ValueError` for a missing time-group key / missing `time` -/
theorem instances_error (m : Metric) (x : Data) (grp : Option (Nat → Int)) (T : Nat) (e : String)
    (h : instances m x grp T = .error e) : e = "ValueError" := by
  unfold instances at h
  cases hm : mask m x grp T with
  | ok mk => simp [hm, Except.map] at h
  | error e' =>
    simp only [hm, Except.map, Except.error.injEq] at h
    subst h
    unfold mask at hm
    cases hty : m.ty <;> simp only [hty] at hm
    · exact maskHL_error _ _ _ _ _ _ hm
    · exact maskHL_error _ _ _ _ _ _ hm
    · cases ha : maskHL x m.v0 .higher grp T with
      | error e0 => simp only [ha, Except.error.injEq] at hm; subst hm; exact maskHL_error _ _ _ _ _ _ ha
      | ok a0 =>
        cases hb : maskHL x m.v1 .lower grp T with
        | error e1 => simp only [ha, hb, Except.error.injEq] at hm; subst hm; exact maskHL_error _ _ _ _ _ _ hb
        | ok b0 => simp [ha, hb] at hm
    · cases ha : maskHL x m.v0 .lower grp T with
      | error e0 => simp only [ha, Except.error.injEq] at hm; subst hm; exact maskHL_error _ _ _ _ _ _ ha
      | ok a0 =>
        cases hb : maskHL x m.v1 .higher grp T with
        | error e1 => simp only [ha, hb, Except.error.injEq] at hm; subst hm; exact maskHL_error _ _ _ _ _ _ hb
        | ok b0 => simp [ha, hb] at hm

/-! non-vacuity: concrete metrics of every kind (value at one cell; `99` would be an error) -/
section examples
def xs : Data := fun t i j => (t : Rat) + (i : Rat) / 2 - (j : Rat)
def months : Nat → Int := fun t => if t < 2 then 1 else 2
def at' (r : Except String (Nat → Nat → Nat → Nat)) (t i j : Nat) : Nat :=
  match r with | .ok a => a t i j | .error _ => 99
def isErr (r : Except String (Nat → Nat → Nat → Nat)) : Bool :=
  match r with | .ok _ => false | .error e => e == "ValueError"
-- strict `>`: a tie with the threshold is not an instance
example : at' (instances ⟨.higher, .overall (.glob 2), .overall (.glob 0)⟩ xs none 4) 2 0 0 = 0 := by decide +kernel
example : at' (instances ⟨.higher, .overall (.glob 2), .overall (.glob 0)⟩ xs none 4) 3 0 0 = 1 := by decide +kernel
-- local thresholds
example : at' (instances ⟨.lower, .overall (.loc (fun i _ => (i : Rat) * 3)), .overall (.glob 0)⟩ xs none 4) 1 1 0 = 1 := by
  decide +kernel
-- between / outside with per-month thresholds
example : at' (instances ⟨.between, .grouped (fun k => if k = 1 then some (.glob 0) else if k = 2 then some (.glob 2) else none),
    .grouped (fun k => if k = 1 ∨ k = 2 then some (.glob 3) else none)⟩ xs (some months) 4) 1 0 0 = 1 := by decide +kernel
example : at' (instances ⟨.outside, .grouped (fun k => if k = 1 then some (.glob 0) else if k = 2 then some (.glob 2) else none),
    .grouped (fun k => if k = 1 ∨ k = 2 then some (.glob 3) else none)⟩ xs (some months) 4) 2 0 0 = 0 := by decide +kernel
-- a month without a key, or no time: ValueError
example : isErr (instances ⟨.higher, .grouped (fun k => if k = 1 then some (.glob 0) else none), .overall (.glob 0)⟩
    xs (some months) 4) = true := by decide +kernel
example : isErr (instances ⟨.higher, .grouped (fun _ => some (.glob 0)), .overall (.glob 0)⟩ xs none 4) = true := by
  decide +kernel
end examples

/-! ## 2. Exceedance probability = per-location mean of the instance array -/

/-- `calculate_exceedance_probability[i][j]` is the mean over time of the instance column (guard: non-empty time
    axis — numpy returns NaN for `T = 0`) -/
theorem probability_mean (m : Mask) (T i j : Nat) (_hT : 0 < T) :
    prob m T i j = Py.mean ((List.range T).map (fun t => ((inst m t i j : Nat) : Rat))) := by
  unfold prob Py.mean
  rw [cast_sumR]
  simp [sumR]

/-- it is a probability, and times the number of time steps it is the number of instances at the location -/
theorem probability_range (m : Mask) (T i j : Nat) (hT : 0 < T) :
    0 ≤ prob m T i j ∧ prob m T i j ≤ 1 ∧ prob m T i j * (T : Rat) = ((sumR T (fun t => inst m t i j) : Nat) : Rat) := by
  unfold prob
  have hTq : (0 : Rat) < (T : Rat) := by exact_mod_cast hT
  have hc : ((sumR T (fun t => inst m t i j) : Nat) : Rat) ≤ (T : Rat) := by
    exact_mod_cast sumR_le T _ (fun k _ => inst_le_one m k i j)
  refine ⟨by positivity, ?_, ?_⟩
  · rw [div_le_one hTq]; exact hc
  · field_simp

example : prob (fun t _ _ => decide (t % 2 = 0)) 4 0 0 = 1 / 2 := by decide +kernel

/-! ## 3. Conservation of the count -/

/-- **annual_counts_conserve (per location)** for any number of years ≥ 1 (a single year included), any order of the
    time axis: the annual counts over `np.unique(year(time))` add up to the location's number of instances. -/
theorem annual_counts_conserve_at (m : Mask) (yr : Nat → Int) (T i j : Nat) :
    ((unique (yearList yr T)).map (fun y => annualCount m yr T y i j)).sum = countAt m T i j := by
  unfold annualCount countAt
  exact sum_years _ yr T _ (nodup_unique _) (fun t ht => yr_mem_unique yr T t ht)

/-- **annual_counts_conserve**: the whole table `[years][I][J]` sums to the total number of instances -/
theorem annual_counts_conserve (m : Mask) (yr : Nat → Int) (T I J : Nat) :
    ((unique (yearList yr T)).map (fun y => sumIJ I J (fun i j => annualCount m yr T y i j))).sum = total m T I J := by
  rw [listSum_sumIJ_comm, total_eq_sum_countAt]
  apply sumIJ_congr; intro i j _ _
  exact annual_counts_conserve_at m yr T i j

/-- every annual count is the number of instances among exactly that year's time steps -/
theorem annual_count_def (m : Mask) (yr : Nat → Int) (T : Nat) (y : Int) (i j : Nat) :
    annualCount m yr T y i j = ((List.range T).filter (fun t => decide (yr t = y) && m t i j)).length := by
  unfold annualCount sumYear inst
  induction T with
  | zero => simp
  | succ T ih =>
    simp only [List.range_succ, List.filter_append, List.map_append, List.sum_append, List.length_append, ih]
    by_cases h1 : yr T = y <;> cases h2 : m T i j <;> simp [h1, h2]

-- one year / three years, unsorted time axis
example : unique (yearList (fun _ => 2001) 3) = [2001] := by decide +kernel
example : unique [2003, 2001, 2002, 2003, 2001, 2002, 2003] = [2001, 2002, 2003] := by
  simp [unique, uniq, List.mergeSort, List.MergeSort.Internal.splitInTwo]
example : annualCount (fun t _ _ => decide (t ≠ 3)) (fun t => if t < 2 then 2001 else 2000) 5 2000 0 0 = 2 ∧
    annualCount (fun t _ _ => decide (t ≠ 3)) (fun t => if t < 2 then 2001 else 2000) 5 2001 0 0 = 2 ∧
    countAt (fun t _ _ => decide (t ≠ 3)) 5 0 0 = 4 := by decide

/-! ### spell lengths -/

/-- **spell_eq_rle**: on every non-empty Boolean series the numpy expression
    `np.diff(np.where(np.concatenate(([m[0]], m[:-1] != m[1:], [True])))[0])[::2]` is the list of lengths of the
    maximal runs of `True`, in order. -/
theorem spell_eq_rle (m : List Bool) (hne : m ≠ []) :
    spellsLiteral m = some ((rle m).map (fun (n : Nat) => (n : Int))) := by
  cases m with
  | nil => exact absurd rfl hne
  | cons a t =>
    unfold spellsLiteral flags rle
    simp only [Option.map_some, Option.some.injEq]
    rw [changes_cons]
    have h := (spell_scan (a :: t) 0).1
    have e : transFrom false (a :: t) = a :: transFrom a t := by simp [transFrom]
    rw [e] at h
    exact h

/-- on an empty time axis the real code raises `IndexError` (`m[0]`) -/
theorem spell_empty : spellsLiteral [] = none := rfl

/-- **spell_lengths_conserve**: the spell lengths of a series are positive and sum to its number of `True`s -/
theorem spell_lengths_conserve (m : List Bool) (hne : m ≠ []) :
    ∃ l, spellsLiteral m = some l ∧ l.sum = (m.count true : Int) ∧ ∀ s ∈ l, 0 < s := by
  refine ⟨_, spell_eq_rle m hne, ?_, ?_⟩
  · have := rleAux_sum m 0
    unfold rle
    rw [cast_list_sum, this]; simp
  · intro s hs
    rw [List.mem_map] at hs
    obtain ⟨n, hn, rfl⟩ := hs
    exact_mod_cast rleAux_pos m 0 n hn

example : spellsLiteral [true, true, false, true, false, false, true, true, true] = some [2, 1, 3] := by decide
example : spellsLiteral [false, false] = some [] := by decide
example : spellsLiteral [true] = some [1] := by decide

/-- `calculate_spell_length` on a grid (non-empty time axis): the run lengths of every location's column,
    locations in `np.ndindex` order, those with `length > minimum_length` kept -/
theorem spell_lengths_grid (m : Mask) (T I J : Nat) (hT : 0 < T) (minLen : Int) :
    spellLengths m T I J minLen = some
      (((cells I J).map (fun c => (rle (column m T c.1 c.2)).map (fun (n : Nat) => (n : Int)))).flatten.filter
        (fun s => decide (s > minLen))) := by
  unfold spellLengths
  have : (fun c : Nat × Nat => spellsLiteral (column m T c.1 c.2)) =
      (fun c => some ((rle (column m T c.1 c.2)).map (fun (n : Nat) => (n : Int)))) := by
    funext c; exact spell_eq_rle _ (column_ne_nil m T c.1 c.2 hT)
  rw [this, mapM_some]; rfl

/-- **spell_lengths_conserve (grid, minimum length 0)**: all spells are kept, they are positive and sum to the total
    number of instances.  (`minimum_length = ℓ` keeps the spells with `length > ℓ`, see `spell_lengths_grid`.) -/
theorem spell_lengths_conserve_grid (m : Mask) (T I J : Nat) (hT : 0 < T) :
    ∃ l, spellLengths m T I J 0 = some l ∧ l.sum = ((total m T I J : Nat) : Int) ∧ ∀ s ∈ l, 0 < s := by
  refine ⟨_, spell_lengths_grid m T I J hT 0, ?_, ?_⟩
  · have hpos : ∀ s ∈ ((cells I J).map (fun c => (rle (column m T c.1 c.2)).map (fun (n : Nat) => (n : Int)))).flatten,
        decide (s > 0) = true := by
      intro s hs
      rw [List.mem_flatten] at hs
      obtain ⟨l, hl, hsl⟩ := hs
      rw [List.mem_map] at hl
      obtain ⟨c, _, rfl⟩ := hl
      rw [List.mem_map] at hsl
      obtain ⟨n, hn, rfl⟩ := hsl
      have := rleAux_pos _ 0 n hn
      simp only [gt_iff_lt, decide_eq_true_eq]; exact_mod_cast this
    rw [List.filter_eq_self.mpr hpos, List.sum_flatten, List.map_map]
    have : ((fun l : List Int => l.sum) ∘ fun c : Nat × Nat => (rle (column m T c.1 c.2)).map (fun (n : Nat) => (n : Int))) =
        fun c => ((countAt m T c.1 c.2 : Nat) : Int) := by
      funext c
      simp only [Function.comp]
      rw [cast_list_sum]
      unfold rle
      rw [rleAux_sum, column_count]; simp
    rw [this, sum_cells, total_eq_sum_countAt]
    unfold sumIJ
    rw [show ((sumR I fun i => sumR J fun j => countAt m T i j : Nat) : Int) =
      sumR I (fun i => ((sumR J (fun j => countAt m T i j) : Nat) : Int)) from cast_sumR_int _ _]
    apply sumR_congr; intro i _
    exact (cast_sumR_int _ _).symm
  · intro s hs
    rw [List.mem_filter] at hs
    simpa using hs.2

-- minimum length 1 drops the spell of length exactly 1 (strict `>`)
example : spellLengths (fun t _ _ => decide (t ≠ 2 ∧ t ≠ 4)) 6 1 1 1 = some [2] := by decide
example : spellLengths (fun t _ _ => decide (t ≠ 2 ∧ t ≠ 4)) 6 1 1 0 = some [2, 1, 1] := by decide
example : spellLengths (fun _ _ _ => true) 0 1 1 0 = none := by decide

/-! ### spatial extent -/

/-- **spatial_extent_conserve**: the extents (zero-extent time steps are dropped, which does not change the sum)
    times the number of cells sum to the total number of instances.  Guard: at least one cell. -/
theorem spatial_extent_conserve (m : Mask) (T I J : Nat) (hIJ : 0 < I * J) :
    (spatialExtent m T I J).sum * ((I * J : Nat) : Rat) = ((total m T I J : Nat) : Rat) := by
  unfold spatialExtent
  rw [filter_ne_zero_sum]
  have hN : ((I * J : Nat) : Rat) ≠ 0 := by exact_mod_cast (Nat.pos_iff_ne_zero.mp hIJ)
  change sumR T (fun t => ((cellsAt m I J t : Nat) : Rat) / ((I * J : Nat) : Rat)) * _ = _
  rw [sumR_mul_right]
  have : total m T I J = sumR T (fun t => cellsAt m I J t) := rfl
  rw [this, cast_sumR]
  apply sumR_congr; intro t _
  field_simp

/-- every reported extent is positive (the time steps without an instance are not reported) -/
theorem spatial_extent_pos (m : Mask) (T I J : Nat) : ∀ e ∈ spatialExtent m T I J, 0 < e := by
  intro e he
  unfold spatialExtent at he
  rw [List.mem_filter, List.mem_map] at he
  obtain ⟨⟨t, _, rfl⟩, hne⟩ := he
  have h0 : (0 : Rat) ≤ ((cellsAt m I J t : Nat) : Rat) / ((I * J : Nat) : Rat) := by positivity
  have hne' : ((cellsAt m I J t : Nat) : Rat) / ((I * J : Nat) : Rat) ≠ 0 := by simpa using hne
  exact lt_of_le_of_ne h0 (Ne.symm hne')

example : spatialExtent (fun t i _ => decide (t = 1 ∨ (t = 2 ∧ i = 0))) 4 2 3 = [1, 1 / 2] := by decide +kernel

/-! ### spatiotemporal clusters (labelling = oracle with `LabelLaw`; the harness checks the law on scipy's labels) -/

/-- **clusters_conserve**: if the labelling uses the labels `1..k`, each at least once, and is positive exactly on
    the instances, then the table has `k` rows, every cluster size is positive and the sizes sum to the total number of
    instances. -/
theorem clusters_conserve (m : Mask) (lab : Nat → Nat → Nat → Nat) (T I J k : Nat) (law : LabelLaw m lab T I J k) :
    (clusterSizes m lab T I J).length = k ∧ (∀ s ∈ clusterSizes m lab T I J, 0 < s) ∧
    (clusterSizes m lab T I J).sum = total m T I J := by
  have hk := maxLabel_eq m lab T I J k law
  unfold clusterSizes
  rw [hk]
  refine ⟨by simp, ?_, ?_⟩
  · intro s hs
    rw [List.mem_map] at hs
    obtain ⟨l, hl, rfl⟩ := hs
    rw [List.mem_range] at hl
    obtain ⟨t, i, j, ht, hi, hj, hlab⟩ := law.nonempty (l + 1) (by omega) (by omega)
    have hm : m t i j = true := (law.pos_iff t i j ht hi hj).mp (by omega)
    have hi1 : inst m t i j = 1 := by simp [inst, hm]
    have : (if lab t i j = l + 1 then inst m t i j else 0) ≤
        sum3 T I J (fun t i j => if lab t i j = l + 1 then inst m t i j else 0) :=
      single_le_sum3 T I J (fun t i j => if lab t i j = l + 1 then inst m t i j else 0) t i j ht hi hj
    rw [if_pos hlab, hi1] at this
    unfold clusterSize
    omega
  · change sumR k (fun l => clusterSize m lab T I J (l + 1)) = _
    unfold clusterSize total
    rw [sumR_sum3_comm]
    apply sum3_congr
    intro t i j ht hi hj
    rw [sumR_ite_succ]
    by_cases hm : m t i j = true
    · have h1 := (law.pos_iff t i j ht hi hj).mpr hm
      have h2 := law.le_k t i j ht hi hj
      rw [if_pos ⟨by omega, h2⟩]
    · have : inst m t i j = 0 := by simp [inst, hm]
      rw [this]; split_ifs <;> rfl

/-- F8 (repaired): the background label 0 carries no instance, so a table that starts at label 0 has a
    cluster of size 0 -/
theorem legacy_cluster_label0 (m : Mask) (lab : Nat → Nat → Nat → Nat) (T I J k : Nat) (law : LabelLaw m lab T I J k) :
    clusterSize m lab T I J 0 = 0 := by
  unfold clusterSize
  have : sum3 T I J (fun t i j => if lab t i j = 0 then inst m t i j else 0) = sum3 T I J (fun _ _ _ => 0) := by
    apply sum3_congr
    intro t i j ht hi hj
    by_cases h0 : lab t i j = 0
    · have : ¬ m t i j = true := fun hm => by have := (law.pos_iff t i j ht hi hj).mpr hm; omega
      simp [h0, inst, this]
    · simp [h0]
  rw [this]
  unfold sum3 sumIJ
  simp [sumR_const_zero]

-- a labelling that satisfies the law: two clusters on a 3 × 1 × 2 grid
def exMask : Mask := fun t _ j => decide (t = 0 ∨ (t = 2 ∧ j = 1))
def exLab : Nat → Nat → Nat → Nat := fun t _ j => if t = 0 then 1 else if t = 2 ∧ j = 1 then 2 else 0
example : LabelLaw exMask exLab 3 1 2 2 where
  le_k := by intro t i j _ _ _; unfold exLab; split_ifs <;> omega
  pos_iff := by
    intro t i j ht hi hj
    have : t = 0 ∨ t = 1 ∨ t = 2 := by omega
    have : j = 0 ∨ j = 1 := by omega
    rcases ‹t = 0 ∨ t = 1 ∨ t = 2› with rfl | rfl | rfl <;> rcases ‹j = 0 ∨ j = 1› with rfl | rfl <;>
      simp [exLab, exMask]
  nonempty := by
    intro l h1 h2
    have : l = 1 ∨ l = 2 := by omega
    rcases this with rfl | rfl
    · exact ⟨0, 0, 0, by omega, by omega, by omega, by simp [exLab]⟩
    · exact ⟨2, 0, 1, by omega, by omega, by omega, by simp [exLab]⟩
example : clusterSizes exMask exLab 3 1 2 = [2, 1] ∧ total exMask 3 1 2 = 3 := by decide

/-! ## 4. Accumulative metrics -/

/-- **accumulative_filter**: `filter_threshold_exceedances` keeps exactly the values that meet the condition and is
    zero elsewhere -/
theorem accumulative_filter (x : Data) (m : Mask) (t i j : Nat) :
    (m t i j = true → filt x m t i j = x t i j) ∧ (m t i j = false → filt x m t i j = 0) := by
  unfold filt; constructor <;> intro h <;> simp [h]

/-- **accumulative_sum**: the amount at a location is the sum of the data over exactly the time steps that meet the
    condition -/
theorem accumulative_sum (x : Data) (m : Mask) (T i j : Nat) :
    sumR T (fun t => filt x m t i j) = (((List.range T).filter (fun t => m t i j)).map (fun t => x t i j)).sum := by
  rw [sum_filter_range]; rfl

/-- **accumulative_percent**: for non-negative data with a positive total the percentage of the total amount beyond
    the threshold is defined, is `100 · (amount over the steps meeting the condition) / total`, and lies in `[0, 100]`.
    (A zero total is `0/0`: NaN in numpy, `none` here.) -/
theorem accumulative_percent (x : Data) (m : Mask) (T i j : Nat) (hx : ∀ t, t < T → 0 ≤ x t i j)
    (hpos : 0 < sumR T (fun t => x t i j)) :
    ∃ p, percent x m T i j = some p ∧
      p = 100 * (((List.range T).filter (fun t => m t i j)).map (fun t => x t i j)).sum / sumR T (fun t => x t i j) ∧
      0 ≤ p ∧ p ≤ 100 := by
  have hne : sumR T (fun t => x t i j) ≠ 0 := ne_of_gt hpos
  refine ⟨100 * sumR T (fun t => filt x m t i j) / sumR T (fun t => x t i j), ?_, ?_, ?_, ?_⟩
  · unfold percent; simp only [hne, if_false]
  · rw [accumulative_sum]
  · have : 0 ≤ sumR T (fun t => filt x m t i j) :=
      sumR_nonneg T _ (fun t ht => by unfold filt; split_ifs; exact hx t ht; exact le_refl _)
    positivity
  · have : sumR T (fun t => filt x m t i j) ≤ sumR T (fun t => x t i j) :=
      sumR_mono T _ _ (fun t ht => by unfold filt; split_ifs; exact le_refl _; exact hx t ht)
    rw [div_le_iff₀ hpos]; linarith

theorem percent_none_iff (x : Data) (m : Mask) (T i j : Nat) :
    percent x m T i j = none ↔ sumR T (fun t => x t i j) = 0 := by
  unfold percent; simp only []; split_ifs with h <;> simp [h]

example : percent (fun t _ _ => (t : Rat)) (fun t _ _ => decide ((t : Rat) > 2)) 5 0 0 = some 70 := by decide +kernel
example : percent (fun _ _ _ => 0) (fun _ _ _ => true) 5 0 0 = none := by decide +kernel

/-- **accumulative_annual**: the annual value is the sum of the data over exactly the time steps of that year that
    meet the condition … -/
theorem accumulative_annual (x : Data) (m : Mask) (yr : Nat → Int) (T : Nat) (y : Int) (i j : Nat) :
    annualValue x m yr T y i j =
      (((List.range T).filter (fun t => decide (yr t = y) && m t i j)).map (fun t => x t i j)).sum := by
  unfold annualValue
  rw [sumYear_eq, sum_filter_range]
  apply sumR_congr; intro t _
  unfold filt
  by_cases h1 : yr t = y <;> cases h2 : m t i j <;> simp [h1, h2]

/-- … and the annual values add up to the whole amount beyond the threshold (any number of years ≥ 1) -/
theorem accumulative_annual_conserve (x : Data) (m : Mask) (yr : Nat → Int) (T i j : Nat) :
    ((unique (yearList yr T)).map (fun y => annualValue x m yr T y i j)).sum = sumR T (fun t => filt x m t i j) := by
  unfold annualValue
  exact sum_years _ yr T _ (nodup_unique _) (fun t ht => yr_mem_unique yr T t ht)

/-- **accumulative_intensity**: the intensity index is defined iff at least one time step meets the condition (none:
    `0/0`, NaN in numpy), and then it is the mean of the data over exactly those steps -/
theorem accumulative_intensity (x : Data) (m : Mask) (T i j : Nat) :
    (intensity x m T i j = none ↔ countAt m T i j = 0) ∧
    (∀ v, intensity x m T i j = some v →
      v = Py.mean (((List.range T).filter (fun t => m t i j)).map (fun t => x t i j))) := by
  have hlen : ((List.range T).filter (fun t => m t i j)).length = countAt m T i j := by
    unfold countAt
    induction T with
    | zero => simp
    | succ T ih =>
      rw [List.range_succ, List.filter_append, List.length_append, ih, sumR_succ]
      cases h : m T i j <;> simp [inst, h]
  have hc : sumR T (fun t => inst m t i j) = countAt m T i j := rfl
  unfold intensity
  simp only [hc]
  constructor
  · split_ifs with h <;> simp [h]
  · intro v hv
    split_ifs at hv with h
    simp only [Option.some.injEq] at hv
    rw [← hv]
    unfold Py.mean
    rw [List.length_map, hlen, accumulative_sum]

example : intensity (fun t _ _ => (t : Rat)) (fun t _ _ => decide ((t : Rat) > 2)) 5 0 0 = some (7 / 2) := by decide +kernel
example : intensity (fun t _ _ => (t : Rat)) (fun t _ _ => decide ((t : Rat) > 9)) 5 0 0 = none := by decide +kernel

/-! ## 5. The dataset passed in is never modified (store model; the flag is observed on the real code by the harness:
      `np.shares_memory(result, dataset) = False` and the caller's bytes are unchanged) -/

/-- **dataset_unchanged**: `filter_threshold_exceedances` (`inPlace = false`, i.e. `np.where(mask, dataset, 0)`)
    returns a *new* buffer holding the filtered values; the caller's buffer and every other buffer keep their content -/
theorem dataset_unchanged (h : Heap) (src : Nat) (m : Mask) (hs : src < h.bufs.length) :
    (filterStore false h src m).2 ≠ src ∧
    (filterStore false h src m).1.get (filterStore false h src m).2 = filt (h.get src) m ∧
    ∀ id, id < h.bufs.length → (filterStore false h src m).1.get id = h.get id := by
  simp only [filterStore, Bool.false_eq_true, if_false]
  refine ⟨by omega, ?_, ?_⟩
  · simp [Heap.get, List.getD_eq_getElem?_getD]
  · intro id hid
    simp [Heap.get, List.getD_eq_getElem?_getD, List.getElem?_append_left hid]

/-- F7 (repaired): the in-place variant returns the caller's own buffer and overwrites it -/
theorem legacy_filter_in_place :
    ∃ (h : Heap) (src : Nat) (m : Mask), src < h.bufs.length ∧ (filterStore true h src m).2 = src ∧
      (filterStore true h src m).1.get src 0 0 0 ≠ h.get src 0 0 0 := by
  refine ⟨⟨[fun _ _ _ => 1]⟩, 0, fun _ _ _ => false, by simp, rfl, ?_⟩
  decide +kernel

/-! ## 6. Thresholds defined by a quantile are exceeded with the corresponding empirical frequency -/

open Model.Stats in
/-- **quantile_count**: in a tie-free sample of size `n ≥ 1` exactly `n − 1 − ⌊q (n−1)⌋` values are strictly above the
    (numpy default, `linear`) `q`-quantile, for every `q ∈ [0, 1]` -/
theorem quantile_count (x : List Rat) (q : Rat) (hn : x.Nodup) (hne : x ≠ []) (hq0 : 0 ≤ q) (hq1 : q ≤ 1) :
    (((x.filter (fun v => decide (v > quantileLinear (sortQ x) q))).length : Nat) : Int) =
      (x.length : Int) - 1 - (q * ((x.length : Rat) - 1)).floor := by
  have hs := sortQ_strict x hn
  have hsne : sortQ x ≠ [] := by
    intro h; have := sortQ_length x; rw [h] at this; simp at this; exact hne (List.length_eq_zero_iff.mp this.symm)
  obtain ⟨f, hf, hlt, hlo, _, hhi⟩ := quantileLinear_bracket (sortQ x) hs hsne q hq0 hq1
  rw [sortQ_length] at hf
  rw [mul_comm q, ← hf]
  have hperm : (x.filter (fun v => decide (v > quantileLinear (sortQ x) q))).length =
      ((sortQ x).filter (fun v => decide (v > quantileLinear (sortQ x) q))).length :=
    ((sortQ_perm x).filter _).length_eq.symm
  rw [hperm, count_false_then_true (sortQ x) _ (f + 1) (by omega)]
  · rw [sortQ_length] at hlt ⊢; omega
  · intro a ha hag
    have := strict_getElem_le (sortQ x) hs a f ha hlt (by omega)
    simp only [gt_iff_lt, decide_eq_false_iff_not, not_lt]; linarith
  · intro a ha hag
    have h1 := hhi (by omega)
    have := strict_getElem_le (sortQ x) hs (f + 1) a (by omega) ha hag
    simp only [gt_iff_lt, decide_eq_true_eq]; linarith

open Model.Stats in
/-- the mirror image for `threshold_type = "lower"`: `⌈q (n−1)⌉` values are strictly below the `q`-quantile -/
theorem quantile_count_lower (x : List Rat) (q : Rat) (hn : x.Nodup) (hne : x ≠ []) (hq0 : 0 ≤ q) (hq1 : q ≤ 1) :
    (((x.filter (fun v => decide (v < quantileLinear (sortQ x) q))).length : Nat) : Int) =
      if ((q * ((x.length : Rat) - 1)).floor : Rat) = q * ((x.length : Rat) - 1) then (q * ((x.length : Rat) - 1)).floor
      else (q * ((x.length : Rat) - 1)).floor + 1 := by
  have hs := sortQ_strict x hn
  have hsne : sortQ x ≠ [] := by
    intro h; have := sortQ_length x; rw [h] at this; simp at this; exact hne (List.length_eq_zero_iff.mp this.symm)
  obtain ⟨f, hf, hlt, hlo, heq, hhi⟩ := quantileLinear_bracket (sortQ x) hs hsne q hq0 hq1
  rw [sortQ_length] at hf heq
  rw [mul_comm q, ← hf]
  have hperm : (x.filter (fun v => decide (v < quantileLinear (sortQ x) q))).length =
      ((sortQ x).filter (fun v => decide (v < quantileLinear (sortQ x) q))).length :=
    ((sortQ_perm x).filter _).length_eq.symm
  rw [hperm]
  by_cases hint : (((f : Nat) : Int) : Rat) = ((x.length : Rat) - 1) * q
  · -- the quantile is the order statistic `s[f]`
    have hQ : (sortQ x)[f] = quantileLinear (sortQ x) q := heq.mpr (by rw [← hint]; push_cast; rfl)
    rw [if_pos hint, count_true_then_false (sortQ x) _ f (by omega)]
    · intro a ha hag
      have := List.pairwise_iff_getElem.mp hs a f ha hlt hag
      simp only [decide_eq_true_eq]; rw [← hQ]; exact this
    · intro a ha hag
      have := strict_getElem_le (sortQ x) hs f a hlt ha hag
      simp only [decide_eq_false_iff_not, not_lt]; rw [← hQ]; exact this
  · have hQ : (sortQ x)[f] ≠ quantileLinear (sortQ x) q := by
      intro h; apply hint; rw [heq.mp h]; push_cast; rfl
    have hQlt : (sortQ x)[f] < quantileLinear (sortQ x) q := lt_of_le_of_ne hlo hQ
    rw [if_neg hint, count_true_then_false (sortQ x) _ (f + 1) (by omega)]
    · push_cast; rfl
    · intro a ha hag
      have := strict_getElem_le (sortQ x) hs a f ha hlt (by omega)
      simp only [decide_eq_true_eq]; linarith
    · intro a ha hag
      have h1 := hhi (by omega)
      have := strict_getElem_le (sortQ x) hs (f + 1) a (by omega) ha hag
      simp only [decide_eq_false_iff_not, not_lt]; linarith

open Model.Stats in
/-- **quantile_frequency**: the exceedance frequency of the `q`-quantile differs from `1 − q` by at most `1/n` -/
theorem quantile_frequency (x : List Rat) (q : Rat) (hn : x.Nodup) (hne : x ≠ []) (hq0 : 0 ≤ q) (hq1 : q ≤ 1) :
    let c : Rat := (((x.filter (fun v => decide (v > quantileLinear (sortQ x) q))).length : Nat) : Rat)
    let n : Rat := (x.length : Rat)
    (1 - q) - 1 / n ≤ c / n ∧ c / n ≤ (1 - q) + 1 / n := by
  intro c n
  have hc := quantile_count x q hn hne hq0 hq1
  have hlen : 0 < x.length := List.length_pos_iff.mpr hne
  have hnpos : (0 : Rat) < n := by show (0 : Rat) < (x.length : Rat); exact_mod_cast hlen
  have hcq : c = n - 1 - ((q * (n - 1)).floor : Rat) := by
    have := congrArg (fun z : Int => (z : Rat)) hc
    simpa using this
  have h1 := floor_le' (q * (n - 1))
  have h2 := lt_floor_add_one' (q * (n - 1))
  have e : ∀ a b : Rat, a / n ≤ b / n ↔ a ≤ b := fun a b => div_le_div_iff_of_pos_right hnpos
  constructor
  · rw [show (1 - q) - 1 / n = ((1 - q) * n - 1) / n by field_simp, e]; rw [hcq]; nlinarith
  · rw [show (1 - q) + 1 / n = ((1 - q) * n + 1) / n by field_simp, e]; rw [hcq]; nlinarith

-- the hypotheses are satisfiable; `(n − 1) q = 4.5`, quantile 5, two of seven values above: `7 − 1 − 4`
example : ([3, 1, 4, 3 / 2, 9, 2, 6] : List Rat).Nodup := by decide +kernel
open Model.Stats in
example : quantileLinear [1, 3 / 2, 2, 3, 4, 6, 9] (3 / 4) = 5 ∧
    (([3, 1, 4, 3 / 2, 9, 2, 6] : List Rat).filter (fun v => decide (v > 5))).length = 2 := by decide +kernel

/-! the same statement on the metric that `from_quantile` builds (threshold type `higher`, scope `overall`) -/

open Model.Stats in
/-- **from_quantile, global**: the metric `from_quantile(x, q, "higher")` built from a tie-free data set has exactly
    `n − 1 − ⌊q (n−1)⌋` instances on that data set, `n = T·I·J` its number of values -/
theorem from_quantile_count_global (x : Data) (grp : Option (Nat → Int)) (T I J : Nat) (q q' : Rat)
    (hn : (flat x (List.range T) I J).Nodup) (hne : flat x (List.range T) I J ≠ []) (hq0 : 0 ≤ q) (hq1 : q ≤ 1) :
    ∃ met a, fromQuantile .higher false .global x grp T I J q q' = .ok met ∧ instances met x grp T = .ok a ∧
      ((sum3 T I J a : Nat) : Int) = ((flat x (List.range T) I J).length : Int) - 1 -
        (q * (((flat x (List.range T) I J).length : Rat) - 1)).floor := by
  refine ⟨_, _, rfl, rfl, ?_⟩
  rw [← quantile_count _ q hn hne hq0 hq1, flat_count]
  rfl

open Model.Stats in
/-- **from_quantile, local**: with per-location thresholds every location whose series is tie-free has
    `T − 1 − ⌊q (T−1)⌋` instances -/
theorem from_quantile_count_local (x : Data) (grp : Option (Nat → Int)) (T I J : Nat) (q q' : Rat) (i j : Nat)
    (hn : ((List.range T).map (fun t => x t i j)).Nodup) (hT : 0 < T) (hq0 : 0 ≤ q) (hq1 : q ≤ 1) :
    ∃ met a, fromQuantile .higher false .local x grp T I J q q' = .ok met ∧ instances met x grp T = .ok a ∧
      ((sumR T (fun t => a t i j) : Nat) : Int) = (T : Int) - 1 - (q * ((T : Rat) - 1)).floor := by
  refine ⟨_, _, rfl, rfl, ?_⟩
  have hne : (List.range T).map (fun t => x t i j) ≠ [] := by
    intro h; have := congrArg List.length h; simp at this; omega
  have := quantile_count _ q hn hne hq0 hq1
  rw [count_map_range] at this
  simp only [List.length_map, List.length_range] at this
  rw [← this]
  rfl

/-- `from_quantile` for `between` / `outside` needs `q₀ < q₁` (otherwise `ValueError`) and then builds both bounds
    (F18, repaired: the real code tested for the non-existent type `"inside"` and rejected every `between` request) -/
theorem from_quantile_two_sided (ty : ThType) (hty : usesUpper ty = true) (lc : Locality) (x : Data) (T I J : Nat)
    (q0 q1 : Rat) :
    (q0 < q1 → ∃ met, fromQuantile ty false lc x none T I J q0 q1 = .ok met ∧ met.ty = ty) ∧
    (¬ q0 < q1 → fromQuantile ty false lc x none T I J q0 q1 = .error "ValueError") := by
  cases ty <;> simp [usesUpper] at hty <;> constructor <;> intro h <;> simp [fromQuantile, qSpec, h]

/-! ## 7. Storage order of the time axis (round 4)

  Nothing in the property depends on the time steps being stored chronologically.  `perm` is a permutation of
  `0 … T−1`; `reindex perm a` is the array `a` stored in the other order (Model/Metrics.lean). -/

theorem thrAt_reindex (s : Spec) (grp : Option (Nat → Int)) (perm : List Nat) (t i j : Nat) :
    thrAt s (grp.map (reindex perm)) t i j = thrAt s grp (perm.getD t 0) i j := by
  cases s with
  | overall v => rfl
  | grouped f => cases grp <;> rfl

theorem specOk_reindex (s : Spec) (grp : Option (Nat → Int)) (perm : List Nat) (T : Nat)
    (hp : perm.Perm (List.range T)) : specOk s (grp.map (reindex perm)) T ↔ specOk s grp T := by
  cases s with
  | overall v => simp [specOk]
  | grouped f =>
    cases grp with
    | none => simp [specOk]
    | some g =>
      simp only [specOk, Option.map_some, Option.some.injEq, exists_eq_left']
      constructor
      · intro h t ht
        have hm : t ∈ perm := hp.mem_iff.mpr (List.mem_range.mpr ht)
        obtain ⟨k, hk, rfl⟩ := List.mem_iff_getElem.mp hm
        have hk' : k < T := by rw [← perm_length hp]; exact hk
        have := h k hk'
        simpa [reindex, List.getD_eq_getElem?_getD, List.getElem?_eq_getElem hk] using this
      · intro h t ht
        exact h _ (perm_lt hp t ht)

/-- **storage_order_instances**: evaluating a metric on the data set and time axis stored in another order succeeds
    exactly when it does in the original order, and the instance array is the original one stored in that order
    (all threshold types, localities and scopes). -/
theorem storage_order_instances (met : Metric) (x : Data) (grp : Option (Nat → Int)) (perm : List Nat) (T : Nat)
    (hp : perm.Perm (List.range T)) :
    ((∃ a', instances met (reindex perm x) (grp.map (reindex perm)) T = .ok a') ↔ (∃ a, instances met x grp T = .ok a)) ∧
    (∀ a a', instances met x grp T = .ok a → instances met (reindex perm x) (grp.map (reindex perm)) T = .ok a' →
      ∀ t i j, t < T → a' t i j = reindex perm a t i j) := by
  constructor
  · rw [instances_ok_iff, instances_ok_iff, specOk_reindex _ _ _ _ hp, specOk_reindex _ _ _ _ hp]
  · intro a a' h h' t i j ht
    have d' := instances_def met (reindex perm x) (grp.map (reindex perm)) T a' h' t i j ht
    have d := instances_def met x grp T a h (perm.getD t 0) i j (perm_lt hp t ht)
    simp only [thrAt_reindex] at d'
    show a' t i j = a (perm.getD t 0) i j
    cases hty : met.ty <;> simp only [hty] at d d'
    · obtain ⟨th, h1, h2⟩ := d; obtain ⟨th', h1', h2'⟩ := d'
      rw [h1] at h1'; cases h1'; rw [h2, h2']; rfl
    · obtain ⟨th, h1, h2⟩ := d; obtain ⟨th', h1', h2'⟩ := d'
      rw [h1] at h1'; cases h1'; rw [h2, h2']; rfl
    · obtain ⟨lo, hi, h1, h3, h2⟩ := d; obtain ⟨lo', hi', h1', h3', h2'⟩ := d'
      rw [h1] at h1'; rw [h3] at h3'; cases h1'; cases h3'; rw [h2, h2']; rfl
    · obtain ⟨lo, hi, h1, h3, h2⟩ := d; obtain ⟨lo', hi', h1', h3', h2'⟩ := d'
      rw [h1] at h1'; rw [h3] at h3'; cases h1'; cases h3'; rw [h2, h2']; rfl

/-- **storage_order_annual**: the years found, every annual count and every annual value are the same in every
    storage order of the time axis (yearly blocks out of order, descending, shuffled, two runs concatenated …) -/
theorem storage_order_annual (x : Data) (m : Mask) (yr : Nat → Int) (perm : List Nat) (T : Nat)
    (hp : perm.Perm (List.range T)) :
    unique (yearList (reindex perm yr) T) = unique (yearList yr T) ∧
    (∀ y i j, annualCount (reindex perm m) (reindex perm yr) T y i j = annualCount m yr T y i j) ∧
    (∀ y i j, annualValue (reindex perm x) (reindex perm m) (reindex perm yr) T y i j = annualValue x m yr T y i j) := by
  refine ⟨unique_years_reindex perm T hp yr, ?_, ?_⟩
  · intro y i j
    exact sumYear_reindex perm T hp yr y (fun t => inst m t i j)
  · intro y i j
    exact sumYear_reindex perm T hp yr y (fun t => filt x m t i j)

/-- **storage_order_totals**: counts, probabilities, amounts, percentages and intensities per location, spatial
    extents summed, and the total number of instances do not depend on the storage order either -/
theorem storage_order_totals (x : Data) (m : Mask) (perm : List Nat) (T I J : Nat) (hp : perm.Perm (List.range T)) :
    (∀ i j, countAt (reindex perm m) T i j = countAt m T i j) ∧
    (∀ i j, prob (reindex perm m) T i j = prob m T i j) ∧
    (∀ i j, percent (reindex perm x) (reindex perm m) T i j = percent x m T i j) ∧
    (∀ i j, intensity (reindex perm x) (reindex perm m) T i j = intensity x m T i j) ∧
    total (reindex perm m) T I J = total m T I J := by
  have hc : ∀ i j, countAt (reindex perm m) T i j = countAt m T i j := fun i j =>
    sumR_reindex perm T hp (fun t => inst m t i j)
  have hf : ∀ i j, sumR T (fun t => filt (reindex perm x) (reindex perm m) t i j) = sumR T (fun t => filt x m t i j) :=
    fun i j => sumR_reindex perm T hp (fun t => filt x m t i j)
  have hx : ∀ i j, sumR T (fun t => reindex perm x t i j) = sumR T (fun t => x t i j) :=
    fun i j => sumR_reindex perm T hp (fun t => x t i j)
  refine ⟨hc, ?_, ?_, ?_, ?_⟩
  · intro i j; unfold prob; have := hc i j; unfold countAt at this; rw [this]
  · intro i j; unfold percent; simp only [hf, hx]
  · intro i j; unfold intensity; have := hc i j; unfold countAt at this; simp only [hf, this]
  · rw [total_eq_sum_countAt, total_eq_sum_countAt]
    apply sumIJ_congr; intro i j _ _; exact hc i j

-- a descending two-year axis: the years are stored 2001, 2001, 2000, 2000
example : [3, 2, 1, 0].Perm (List.range 4) := by decide
example : annualCount (reindex [3, 2, 1, 0] (fun t _ _ => decide (t ≠ 0))) (reindex [3, 2, 1, 0] (fun t => if t < 2 then 2000 else 2001))
    4 2000 0 0 = 1 := by decide

/-! ## 8. Values at time steps that do not meet the condition never influence an amount (round 4) -/

/-- `filter_threshold_exceedances` selects, it does not compute: for ANY value type (floats with NaN / ±inf included)
    the result at an entry depends on the data only where the condition is met -/
theorem filter_ignores_non_instances {α : Type} [Zero α] (x x' : Nat → Nat → Nat → α) (m : Mask) (t i j : Nat)
    (h : m t i j = true → x t i j = x' t i j) : filtG x m t i j = filtG x' m t i j := by
  unfold filtG
  cases hm : m t i j
  · simp
  · simp [h hm]

theorem filt_eq_filtG (x : Data) (m : Mask) : filt x m = filtG x m := rfl

/-- **amounts_ignore_non_instances**: two data sets that agree on the time steps meeting the condition have the same
    amount, the same annual values and the same intensity index at the location, whatever they hold elsewhere -/
theorem amounts_ignore_non_instances (x x' : Data) (m : Mask) (T i j : Nat)
    (h : ∀ t, t < T → m t i j = true → x t i j = x' t i j) :
    sumR T (fun t => filt x m t i j) = sumR T (fun t => filt x' m t i j) ∧
    (∀ yr y, annualValue x m yr T y i j = annualValue x' m yr T y i j) ∧
    intensity x m T i j = intensity x' m T i j := by
  have hf : ∀ t, t < T → filt x m t i j = filt x' m t i j := fun t ht =>
    filter_ignores_non_instances x x' m t i j (h t ht)
  have hs := sumR_congr T (fun t => filt x m t i j) (fun t => filt x' m t i j) hf
  refine ⟨hs, ?_, ?_⟩
  · intro yr y
    unfold annualValue
    rw [sumYear_eq, sumYear_eq]
    apply sumR_congr; intro t ht
    show (if yr t = y then filt x m t i j else 0) = (if yr t = y then filt x' m t i j else 0)
    rw [hf t ht]
  · unfold intensity; simp only [hs]

/-- IEEE comparisons with NaN are false: NaN is never an instance, for every threshold type -/
theorem nan_never_instance (ty : ThType) (lo hi : Rat) : condX ty .nan lo hi = false := by
  cases ty <;> rfl

/-- `+inf` is not an instance of `lower` / `between`, `−inf` not of `higher` / `between` -/
theorem inf_not_instance (lo hi : Rat) :
    condX .lower .pinf lo hi = false ∧ condX .between .pinf lo hi = false ∧
    condX .higher .ninf lo hi = false ∧ condX .between .ninf lo hi = false := by
  refine ⟨rfl, ?_, rfl, rfl⟩
  simp [condX, XVal.gt, XVal.lt]

/-- on finite values the extended comparison is the defining comparison of `instances_def` -/
theorem condX_fin (ty : ThType) (q lo hi : Rat) :
    condX ty (.fin q) lo hi = (match ty with
      | .higher => decide (q > lo)
      | .lower => decide (q < lo)
      | .between => decide (lo < q ∧ q < hi)
      | .outside => decide (q < lo ∨ q > hi)) := by
  cases ty <;> simp [condX, XVal.gt, XVal.lt]

/-- **filter_finite**: if every non-finite entry fails the condition, the filtered array is finite everywhere
    (so yearly amounts and intensities are) -/
theorem filter_finite (x : Nat → Nat → Nat → XVal) (m : Mask)
    (h : ∀ t i j, (x t i j).isFin = false → m t i j = false) (t i j : Nat) : (filtG x m t i j).isFin = true := by
  unfold filtG
  cases hm : m t i j
  · rfl
  · simp only [if_true]
    cases hf : (x t i j).isFin
    · rw [h t i j hf] at hm; cases hm
    · rfl

example : filtG (fun t _ _ => if t = 1 then XVal.nan else .fin 3) (fun t _ _ => condX .higher (if t = 1 then XVal.nan else .fin 3) 2 0) 1 0 0
    = .fin 0 := by decide +kernel

/-! ## 9. A metric object used repeatedly (round 4): every evaluation reads the current attributes and contents -/

/-- **sequence_eval_current**: in any sequence of attribute assignments, in-place writes and evaluations on one metric
    object, an evaluation returns the instances of the attributes and array contents as they are at that moment -/
theorem sequence_eval_current (T : Nat) (s : MState) (pre post : List Op) :
    runOps T s (pre ++ Op.eval :: post) =
      runOps T s pre ++ evalNow (applyAll s pre) T :: runOps T (applyAll s pre) post := by
  induction pre generalizing s with
  | nil => rfl
  | cons op pre ih =>
    cases op with
    | eval =>
      show evalNow s T :: runOps T s (pre ++ Op.eval :: post) = _
      rw [ih s]; rfl
    | setType ty => exact ih _
    | setThr a b => exact ih _
    | write x => exact ih _
    | scale c => exact ih _
    | setTime g => exact ih _

/-- the state reached is the last value assigned to each component (here: data written after any history) -/
theorem write_overrides_history (s : MState) (pre : List Op) (x : Data) :
    (applyAll s (pre ++ [Op.write x])).x = x := by
  unfold applyAll; rw [List.foldl_append]; rfl

def outAt (l : List (Except String (Nat → Nat → Nat → Nat))) (k t i j : Nat) : Nat :=
  match l[k]? with
  | some (.ok a) => a t i j
  | _ => 99

/-- what the specification excludes: a memo keyed on the identity of the array objects returns the stale mask after
    the buffer is rewritten in place (or after `threshold_type` is reassigned) -/
theorem legacy_identity_cache_stale :
    let s : MState := ⟨.higher, .overall (.glob 0), .overall (.glob 0), fun _ _ _ => 1, none⟩
    outAt (runOps 1 s [.eval, .write (fun _ _ _ => -1), .eval]) 1 0 0 0 = 0 ∧
    outAt (runCachedById 1 s none [.eval, .write (fun _ _ _ => -1), .eval]) 1 0 0 0 = 1 ∧
    outAt (runOps 1 s [.eval, .setType .lower, .eval]) 1 0 0 0 = 0 ∧
    outAt (runCachedById 1 s none [.eval, .setType .lower, .eval]) 1 0 0 0 = 1 := by
  decide +kernel

/-! ## 10. The documented seasons (round 4) -/

/-- `utils.season`: December–February is Winter (0), March–May Spring (1), June–August Summer (2),
    September–November Autumn (3); nothing else is a month -/
theorem season_table :
    (List.range 12).map (fun (k : Nat) => seasonOfMonth ((k : Int) + 1)) =
      [some 0, some 0, some 1, some 1, some 1, some 2, some 2, some 2, some 3, some 3, some 3, some 0] ∧
    ∀ m : Int, (m < 1 ∨ 12 < m) → seasonOfMonth m = none := by
  refine ⟨by decide, ?_⟩
  intro m hm
  unfold seasonOfMonth
  split_ifs <;> first | rfl | omega

/-! ## 11. Two-sided quantile thresholds, remaining ranges (round 4) -/

open Model.Stats in
/-- **quantile_count_outside**: for `q₀ ≤ q₁` in `[0,1]` and a tie-free sample, `⌈q₀ (n−1)⌉ + (n − 1 − ⌊q₁ (n−1)⌋)`
    values lie outside `[Q(q₀), Q(q₁)]` -/
theorem quantile_count_outside (x : List Rat) (q0 q1 : Rat) (hn : x.Nodup) (hne : x ≠ []) (h0 : 0 ≤ q0) (h01 : q0 ≤ q1)
    (h1 : q1 ≤ 1) :
    (((x.filter (fun v => decide (v < quantileLinear (sortQ x) q0) || decide (v > quantileLinear (sortQ x) q1))).length : Nat) : Int) =
      (if ((q0 * ((x.length : Rat) - 1)).floor : Rat) = q0 * ((x.length : Rat) - 1) then (q0 * ((x.length : Rat) - 1)).floor
        else (q0 * ((x.length : Rat) - 1)).floor + 1) + ((x.length : Int) - 1 - (q1 * ((x.length : Rat) - 1)).floor) := by
  have hs := sortQ_strict x hn
  have hsne : sortQ x ≠ [] := by
    intro h; have := sortQ_length x; rw [h] at this; simp at this; exact hne (List.length_eq_zero_iff.mp this.symm)
  obtain ⟨f0, g0, hf0, hl0, hg0, _, hlt0⟩ := quantile_index (sortQ x) hs hsne q0 h0 (le_trans h01 h1)
  obtain ⟨f1, g1, hf1, hl1, _, hgt1, _⟩ := quantile_index (sortQ x) hs hsne q1 (le_trans h0 h01) h1
  rw [sortQ_length] at hf0 hf1 hg0 hl0 hl1
  have hlen : 0 < x.length := List.length_pos_iff.mpr hne
  have hmono : (((x.length : Rat) - 1) * q0).floor ≤ (((x.length : Rat) - 1) * q1).floor := by
    apply floor_mono
    have : (0 : Rat) ≤ (x.length : Rat) - 1 := by
      have : (1 : Rat) ≤ (x.length : Rat) := by exact_mod_cast hlen
      linarith
    exact mul_le_mul_of_nonneg_left h01 this
  have hperm := ((sortQ_perm x).filter (fun v => decide (v < quantileLinear (sortQ x) q0) || decide (v > quantileLinear (sortQ x) q1))).length_eq
  rw [← hperm, count_index_pred (sortQ x) _ (fun k => decide (k < g0 ∨ f1 + 1 ≤ k))]
  · rw [count_range_outside _ g0 f1 (by rw [hg0]; split_ifs <;> omega), sortQ_length, mul_comm q0, mul_comm q1]
    by_cases hi0 : ((((x.length : Rat) - 1) * q0).floor : Rat) = ((x.length : Rat) - 1) * q0
    · rw [if_pos hi0] at hg0 ⊢; subst hg0; omega
    · rw [if_neg hi0] at hg0 ⊢; subst hg0; omega
  · intro k hk
    rw [hlt0 k hk, hgt1 k hk]
    by_cases a : k < g0 <;> by_cases b : f1 + 1 ≤ k <;> simp [a, b]

open Model.Stats in
/-- **quantile_count_between**: for `q₀ ≤ q₁`, `max 0 (⌈q₁ (n−1)⌉ − ⌊q₀ (n−1)⌋ − 1)` values lie strictly between the two
    quantiles (the bounds themselves are excluded: the comparison is strict) -/
theorem quantile_count_between (x : List Rat) (q0 q1 : Rat) (hn : x.Nodup) (hne : x ≠ []) (h0 : 0 ≤ q0) (h01 : q0 ≤ q1)
    (h1 : q1 ≤ 1) :
    (((x.filter (fun v => decide (v > quantileLinear (sortQ x) q0) && decide (v < quantileLinear (sortQ x) q1))).length : Nat) : Int) =
      max 0 ((if ((q1 * ((x.length : Rat) - 1)).floor : Rat) = q1 * ((x.length : Rat) - 1) then (q1 * ((x.length : Rat) - 1)).floor
        else (q1 * ((x.length : Rat) - 1)).floor + 1) - (q0 * ((x.length : Rat) - 1)).floor - 1) := by
  have hs := sortQ_strict x hn
  have hsne : sortQ x ≠ [] := by
    intro h; have := sortQ_length x; rw [h] at this; simp at this; exact hne (List.length_eq_zero_iff.mp this.symm)
  obtain ⟨f0, g0, hf0, hl0, _, hgt0, _⟩ := quantile_index (sortQ x) hs hsne q0 h0 (le_trans h01 h1)
  obtain ⟨f1, g1, hf1, hl1, hg1, _, hlt1⟩ := quantile_index (sortQ x) hs hsne q1 (le_trans h0 h01) h1
  rw [sortQ_length] at hf0 hf1 hg1 hl0 hl1
  have hperm := ((sortQ_perm x).filter (fun v => decide (v > quantileLinear (sortQ x) q0) && decide (v < quantileLinear (sortQ x) q1))).length_eq
  rw [← hperm, count_index_pred (sortQ x) _ (fun k => decide (f0 + 1 ≤ k ∧ k < g1))]
  · rw [count_range_window, sortQ_length, mul_comm q0, mul_comm q1]
    by_cases hi1 : ((((x.length : Rat) - 1) * q1).floor : Rat) = ((x.length : Rat) - 1) * q1
    · rw [if_pos hi1] at hg1 ⊢; subst hg1; omega
    · rw [if_neg hi1] at hg1 ⊢; subst hg1; omega
  · intro k hk
    rw [hgt0 k hk, hlt1 k hk]
    by_cases a : f0 + 1 ≤ k <;> by_cases b : k < g1 <;> simp [a, b]

-- n = 7, q = 1/4, 3/4: (n−1)q = 1.5, 4.5; below Q₀: 2, above Q₁: 2, strictly between: 3
open Model.Stats in
example : quantileLinear [1, 3 / 2, 2, 3, 4, 6, 9] (1 / 4) = 7 / 4 ∧ quantileLinear [1, 3 / 2, 2, 3, 4, 6, 9] (3 / 4) = 5 ∧
    (([3, 1, 4, 3 / 2, 9, 2, 6] : List Rat).filter (fun v => decide (v < 7 / 4) || decide (v > 5))).length = 4 ∧
    (([3, 1, 4, 3 / 2, 9, 2, 6] : List Rat).filter (fun v => decide (v > 7 / 4) && decide (v < 5))).length = 3 := by decide +kernel

/-- `from_quantile` for `between` / `outside`, every scope: `ValueError` unless `q₀ < q₁`; with a time scope also when no
    time is given; otherwise a metric of the requested type (strengthens `from_quantile_two_sided`) -/
theorem from_quantile_two_sided_all (ty : ThType) (hty : usesUpper ty = true) (byTime : Bool) (lc : Locality) (x : Data)
    (grp : Option (Nat → Int)) (T I J : Nat) (q0 q1 : Rat) :
    (q0 < q1 → (byTime = true → grp.isSome = true) → ∃ met, fromQuantile ty byTime lc x grp T I J q0 q1 = .ok met ∧ met.ty = ty) ∧
    (¬ q0 < q1 → fromQuantile ty byTime lc x grp T I J q0 q1 = .error "ValueError") ∧
    (byTime = true → grp = none → fromQuantile ty byTime lc x grp T I J q0 q1 = .error "ValueError") := by
  cases ty <;> simp [usesUpper] at hty <;> cases byTime <;> cases grp <;>
    refine ⟨?_, ?_, ?_⟩ <;> intro h <;> simp [fromQuantile, qSpec, h]

/-! the quantile count for time-scoped thresholds: within every time group -/

/-- the dict `from_quantile` builds for a time scope: a threshold for every group that occurs -/
def groupThr (x : Data) (g : Nat → Int) (T I J : Nat) (q : Rat) : Int → Option Thr := fun key =>
  if ((List.range T).filter (fun t => decide (g t = key))).isEmpty then none
  else some (qThr .global x ((List.range T).filter (fun t => decide (g t = key))) I J q)

open Model.Stats in
/-- **from_quantile, per time group**: the metric `from_quantile(x, q, "higher", scope = day | month | season)` has, among
    the time steps of every group `key` whose values are tie-free, exactly `n − 1 − ⌊q (n−1)⌋` instances (`n` = number of
    values of that group) — in whatever order the time steps are stored -/
theorem from_quantile_count_grouped (x : Data) (g : Nat → Int) (T I J : Nat) (q q' : Rat) (key : Int)
    (hn : (flat x ((List.range T).filter (fun t => decide (g t = key))) I J).Nodup)
    (hne : flat x ((List.range T).filter (fun t => decide (g t = key))) I J ≠ []) (hq0 : 0 ≤ q) (hq1 : q ≤ 1) :
    ∃ met a, fromQuantile .higher true .global x (some g) T I J q q' = .ok met ∧ instances met x (some g) T = .ok a ∧
      (((((List.range T).filter (fun t => decide (g t = key))).map (fun t => sumIJ I J (a t))).sum : Nat) : Int) =
        ((flat x ((List.range T).filter (fun t => decide (g t = key))) I J).length : Int) - 1 -
          (q * (((flat x ((List.range T).filter (fun t => decide (g t = key))) I J).length : Rat) - 1)).floor := by
  have hsome : ∀ t, t < T → ((List.range T).filter (fun t' => decide (g t' = g t))).isEmpty = false := by
    intro t ht
    have : t ∈ (List.range T).filter (fun t' => decide (g t' = g t)) := by simp [List.mem_filter, ht]
    cases hl : (List.range T).filter (fun t' => decide (g t' = g t)) with
    | nil => rw [hl] at this; simp at this
    | cons _ _ => rfl
  have hall : (List.range T).all (fun t => (groupThr x g T I J q (g t)).isSome) = true := by
    rw [List.all_eq_true]
    intro t ht
    simp [groupThr, hsome t (List.mem_range.mp ht)]
  refine ⟨⟨.higher, .grouped (groupThr x g T I J q), .grouped (groupThr x g T I J q)⟩,
    inst (fun t i j => cmpHL .higher (x t i j) (match groupThr x g T I J q (g t) with
      | some v => v.at i j
      | none => 0)), rfl, ?_, ?_⟩
  · simp only [instances, mask, maskHL, thresholds, hall, if_true, Except.map]
    rfl
  · rw [← quantile_count _ q hn hne hq0 hq1, flat_count_list]
    congr 2
    apply List.map_congr_left
    intro t ht
    have htT : t < T := List.mem_range.mp (List.mem_filter.mp ht).1
    have hk : g t = key := by simpa using (List.mem_filter.mp ht).2
    apply sumIJ_congr
    intro i j _ _
    have := hsome t htT
    rw [hk] at this
    simp only [inst, cmpHL, groupThr, hk, this, Bool.false_eq_true, if_false, Thr.at, qThr]

-- the hypotheses of `from_quantile_count_grouped` are satisfiable: four steps in two groups, group 1 = steps 0 and 2
example : (flat (fun t _ _ => (t : Rat)) ((List.range 4).filter (fun t => decide ((if t % 2 = 0 then (1 : Int) else 2) = 1))) 1 1).Nodup ∧
    flat (fun t _ _ => (t : Rat)) ((List.range 4).filter (fun t => decide ((if t % 2 = 0 then (1 : Int) else 2) = 1))) 1 1 ≠ [] := by
  decide +kernel

/-! ## 12. Remaining oracle clauses (round 4) -/

/-- every reported spatial extent is at most 1 (with `spatial_extent_pos`: in `(0, 1]`) -/
theorem spatial_extent_le_one (m : Mask) (T I J : Nat) (hIJ : 0 < I * J) : ∀ e ∈ spatialExtent m T I J, e ≤ 1 := by
  intro e he
  unfold spatialExtent at he
  rw [List.mem_filter, List.mem_map] at he
  obtain ⟨⟨t, _, rfl⟩, _⟩ := he
  have hN : (0 : Rat) < ((I * J : Nat) : Rat) := by exact_mod_cast hIJ
  rw [div_le_one hN]
  have : cellsAt m I J t ≤ I * J := by
    unfold cellsAt sumIJ
    calc sumR I (fun i => sumR J (fun j => inst m t i j)) ≤ sumR I (fun _ => J) := by
          apply sumR_mono_nat; intro i _; exact sumR_le J _ (fun j _ => inst_le_one m t i j)
      _ = I * J := sumR_const_nat I J
  exact_mod_cast this

/-- `minimum_length = ℓ` keeps exactly the spells of the `minimum_length = 0` table that are longer than `ℓ` (`ℓ ≥ 0`) -/
theorem spell_min_length_filter (m : Mask) (T I J : Nat) (hT : 0 < T) (l : Int) (hl : 0 ≤ l) :
    spellLengths m T I J l = (spellLengths m T I J 0).map (fun all => all.filter (fun s => decide (s > l))) := by
  rw [spell_lengths_grid m T I J hT l, spell_lengths_grid m T I J hT 0, Option.map_some, List.filter_filter]
  congr 1
  apply List.filter_congr
  intro s _
  by_cases h : s > l
  · have : s > 0 := by omega
    simp [h, this]
  · simp [h]

end Props.C19
