/-
  C17 — the precipitation statistical models are coherent (fit, cdf, ppf; dry stays dry).
  Property theorems only.  Stated on `Model.Precip` over an *abstract* amounts family `A` satisfying
  `AmountLaws` (cdf strictly increasing on (0,∞) with values in (0,1), ppf its inverse there) and for
  *every* random draw `u` in the documented range; `ratFam_laws` shows the laws are satisfiable.
-/
import IbicusModel.Lemmas.Precip

namespace Props.C17
open Model.Precip Lemmas.Precip

/-! ## hurdle model -/

/-- **the fitted dry probability is the observed fraction of zeros** -/
theorem hurdle_p0 (data : List Rat) (hne : data ≠ []) :
    hurdleP0 data = (zeros data : Rat) / (data.length : Rat) := hurdleP0_eq data hne

example : hurdleP0 [0, 3, 0, 1 / 2] = 1 / 2 := by decide +kernel  -- concrete witness

/-- it lies in `[0,1]`; `< 1` iff some value is wet, `> 0` iff some value is dry -/
theorem hurdle_p0_range (data : List Rat) (hne : data ≠ []) : 0 ≤ hurdleP0 data ∧ hurdleP0 data ≤ 1 :=
  hurdleP0_range data hne

theorem hurdle_p0_lt_one (data : List Rat) (hne : data ≠ []) (hw : rainyDays data ≠ []) : hurdleP0 data < 1 :=
  hurdleP0_lt_one data hne hw

theorem hurdle_p0_pos (data : List Rat) (hne : data ≠ []) (hz : 0 < zeros data) : 0 < hurdleP0 data :=
  hurdleP0_pos data hne hz

/-- **wet values: the cdf value is strictly above `p0` and `ppf (cdf x) = x`** — with or without randomisation,
    whatever the draw -/
theorem hurdle_wet_roundtrip (A : Amounts) (hA : AmountLaws A) (p0 : Rat) (hp1 : p0 < 1) (rand : Bool) (u x : Rat)
    (hx : 0 < x) :
    hurdleCdf A p0 rand u x > p0 ∧ hurdlePpf A p0 (hurdleCdf A p0 rand u x) = x := by
  have hF := hA.pos x hx
  have h1 : 0 < 1 - p0 := by linarith
  have hne : x ≠ 0 := ne_of_gt hx
  have hc : hurdleCdf A p0 rand u x = p0 + (1 - p0) * A.cdfA x := by unfold hurdleCdf; rw [if_neg hne]
  have hgt : p0 + (1 - p0) * A.cdfA x > p0 := by
    have := mul_pos h1 hF.1; linarith
  rw [hc]
  refine ⟨hgt, ?_⟩
  unfold hurdlePpf
  rw [if_pos hgt]
  have : (p0 + (1 - p0) * A.cdfA x - p0) / (1 - p0) = A.cdfA x := by
    field_simp; ring
  rw [this]; exact hA.inv x hx

example : hurdlePpf (ratFam 0 2) (1 / 4) (hurdleCdf (ratFam 0 2) (1 / 4) true (1 / 8) 3) = 3 :=
  (hurdle_wet_roundtrip (ratFam 0 2) (ratFam_laws 2 (by norm_num)) (1 / 4) (by norm_num) true (1 / 8) 3 (by norm_num)).2

/-- **dry stays dry, without randomisation**: `cdf 0 = p0` and the strict test `q > p0` sends it back to 0 -/
theorem hurdle_dry_no_randomisation (A : Amounts) (p0 u : Rat) :
    hurdleCdf A p0 false u 0 = p0 ∧ hurdlePpf A p0 (hurdleCdf A p0 false u 0) = 0 := by
  have hc : hurdleCdf A p0 false u 0 = p0 := by unfold hurdleCdf; simp
  rw [hc]
  exact ⟨rfl, by unfold hurdlePpf; rw [if_neg (lt_irrefl p0)]⟩

/-- **dry stays dry, with randomisation**, for every draw `u ≤ p0` (numpy documents `0 ≤ u < p0`; `u = p0` covers the
    degenerate `uniform(0, 0)` of a sample without dry values) -/
theorem hurdle_dry_randomised (A : Amounts) (p0 u : Rat) (hu : u ≤ p0) :
    hurdleCdf A p0 true u 0 = u ∧ hurdlePpf A p0 (hurdleCdf A p0 true u 0) = 0 := by
  have hc : hurdleCdf A p0 true u 0 = u := by unfold hurdleCdf; simp
  rw [hc]
  exact ⟨rfl, by unfold hurdlePpf; rw [if_neg (not_lt.mpr hu)]⟩

/-- cdf values lie in `[0,1]` (for `x ≥ 0`, `p0 ∈ [0,1]`, draw in `[0, p0]`) -/
theorem hurdle_cdf_range (A : Amounts) (hA : AmountLaws A) (p0 : Rat) (h0 : 0 ≤ p0) (h1 : p0 ≤ 1) (rand : Bool)
    (u x : Rat) (hu0 : 0 ≤ u) (hu : u ≤ p0) (hx : 0 ≤ x) :
    0 ≤ hurdleCdf A p0 rand u x ∧ hurdleCdf A p0 rand u x ≤ 1 := by
  unfold hurdleCdf
  by_cases hx0 : x = 0
  · rw [if_pos hx0]; cases rand <;> simp <;> constructor <;> linarith
  · rw [if_neg hx0]
    have hF := hA.pos x (lt_of_le_of_ne hx (Ne.symm hx0))
    have h2 : 0 ≤ (1 - p0) * A.cdfA x := mul_nonneg (by linarith) (le_of_lt hF.1)
    have h3 : (1 - p0) * A.cdfA x ≤ (1 - p0) * 1 := mul_le_mul_of_nonneg_left (le_of_lt hF.2) (by linarith)
    constructor <;> linarith

/-- strictly increasing over wet values (when some value is wet, `p0 < 1`) -/
theorem hurdle_cdf_mono_wet (A : Amounts) (hA : AmountLaws A) (p0 : Rat) (h1 : p0 < 1) (rand : Bool) (u u' x y : Rat)
    (hx : 0 < x) (hxy : x < y) : hurdleCdf A p0 rand u x < hurdleCdf A p0 rand u' y := by
  have hy : 0 < y := lt_trans hx hxy
  unfold hurdleCdf
  rw [if_neg (ne_of_gt hx), if_neg (ne_of_gt hy)]
  have := mul_lt_mul_of_pos_left (hA.mono x y hx hxy) (by linarith : 0 < 1 - p0)
  linarith

/-- **wet values never receive a cdf value below the dry probability**, and so never below a dry day's value -/
theorem hurdle_wet_above_dry (A : Amounts) (hA : AmountLaws A) (p0 : Rat) (h1 : p0 ≤ 1) (rand : Bool) (u u' x : Rat)
    (hu : u' ≤ p0) (hx : 0 < x) :
    p0 ≤ hurdleCdf A p0 rand u x ∧ hurdleCdf A p0 rand u' 0 ≤ hurdleCdf A p0 rand u x := by
  have hF := hA.pos x hx
  have hc : hurdleCdf A p0 rand u x = p0 + (1 - p0) * A.cdfA x := by unfold hurdleCdf; rw [if_neg (ne_of_gt hx)]
  have h2 : 0 ≤ (1 - p0) * A.cdfA x := mul_nonneg (by linarith) (le_of_lt hF.1)
  rw [hc]
  refine ⟨by linarith, ?_⟩
  unfold hurdleCdf
  cases rand <;> simp <;> linarith

/-! ## ignore-zeros model (values in `ℚ ∪ {−∞}`) -/

theorem iz_cdf_zero (A : Amounts) : izCdf A 0 = .negInf := by unfold izCdf; simp

theorem iz_ppf_neginf (A : Amounts) : izPpf A .negInf = 0 := rfl

/-- dry stays dry -/
theorem iz_dry (A : Amounts) : izPpf A (izCdf A 0) = 0 := by rw [iz_cdf_zero]; rfl

/-- wet values: a finite cdf value in `(0,1)` and an exact round trip -/
theorem iz_wet_roundtrip (A : Amounts) (hA : AmountLaws A) (x : Rat) (hx : 0 < x) :
    (∃ q, izCdf A x = .fin q ∧ 0 < q ∧ q < 1) ∧ izPpf A (izCdf A x) = x := by
  have hc : izCdf A x = .fin (A.cdfA x) := by unfold izCdf; rw [if_neg (ne_of_gt hx)]
  rw [hc]
  exact ⟨⟨_, rfl, hA.pos x hx⟩, hA.inv x hx⟩

/-- non-decreasing (strictly increasing) over wet values -/
theorem iz_cdf_mono_wet (A : Amounts) (hA : AmountLaws A) (x y : Rat) (hx : 0 < x) (hxy : x < y) :
    ∃ p q, izCdf A x = .fin p ∧ izCdf A y = .fin q ∧ p < q := by
  have hy : 0 < y := lt_trans hx hxy
  refine ⟨A.cdfA x, A.cdfA y, ?_, ?_, hA.mono x y hx hxy⟩
  · unfold izCdf; rw [if_neg (ne_of_gt hx)]
  · unfold izCdf; rw [if_neg (ne_of_gt hy)]

example : izPpf (ratFam 0 1) (izCdf (ratFam 0 1) 5) = 5 :=
  (iz_wet_roundtrip (ratFam 0 1) (ratFam_laws 1 (by norm_num)) 5 (by norm_num)).2

/-! ## left-censored gamma model -/

/-- values at or above the censoring threshold come back unchanged (whatever the draw; with or without
    `censor_in_ppf`) -/
theorem cens_wet_roundtrip (A : Amounts) (hA : AmountLaws A) (thr : Rat) (hthr : 0 < thr) (censor : Bool) (u x : Rat)
    (hx : thr ≤ x) : censPpf A thr censor (censCdf A thr u x) = x := by
  have hx0 : 0 < x := lt_of_lt_of_le hthr hx
  unfold censPpf censCdf censArg censPost
  rw [if_neg (not_lt.mpr hx), hA.inv x hx0]
  have : ¬ x < thr := not_lt.mpr hx
  simp [this]

/-- **values below the threshold (dry / drizzle) come back as exactly 0** with `censor_in_ppf = True`, for every draw
    `u ∈ (0, thr)` -/
theorem cens_dry (A : Amounts) (hA : AmountLaws A) (thr : Rat) (u x : Rat) (hu0 : 0 < u) (hu : u < thr)
    (hx : x < thr) : censPpf A thr true (censCdf A thr u x) = 0 := by
  unfold censPpf censCdf censArg censPost
  rw [if_pos hx, hA.inv u hu0]
  simp [hu]

/-- the draw `u = 0` (in numpy's half-open range `[0, thr)`) needs one more fact about the family:
    `ppf (cdf 0) = 0` (true for gamma and for the test double) -/
theorem cens_dry_u_zero (A : Amounts) (hinv0 : A.ppfA (A.cdfA 0) = 0) (thr : Rat) (hthr : 0 < thr) (x : Rat)
    (hx : x < thr) : censPpf A thr true (censCdf A thr 0 x) = 0 := by
  unfold censPpf censCdf censArg censPost
  rw [if_pos hx, hinv0]
  simp [hthr]

/-- with `censor_in_ppf = False` dry values do **not** come back as 0: they come back as the random draw
    (a positive value below the threshold) -/
theorem cens_dry_uncensored (A : Amounts) (hA : AmountLaws A) (thr : Rat) (u x : Rat) (hu0 : 0 < u)
    (hx : x < thr) : censPpf A thr false (censCdf A thr u x) = u := by
  unfold censPpf censCdf censArg censPost
  rw [if_pos hx, hA.inv u hu0]
  simp

/-- cdf values lie in `(0,1)` for every draw `u ∈ (0, thr)`, and are strictly increasing over wet values -/
theorem cens_cdf_range (A : Amounts) (hA : AmountLaws A) (thr : Rat) (hthr : 0 < thr) (u x : Rat) (hu0 : 0 < u) :
    0 < censCdf A thr u x ∧ censCdf A thr u x < 1 := by
  unfold censCdf censArg
  split_ifs with h
  · exact hA.pos u hu0
  · exact hA.pos x (lt_of_lt_of_le hthr (not_lt.mp h))

theorem cens_cdf_mono_wet (A : Amounts) (hA : AmountLaws A) (thr : Rat) (hthr : 0 < thr) (u u' x y : Rat)
    (hx : thr ≤ x) (hxy : x < y) : censCdf A thr u x < censCdf A thr u' y := by
  unfold censCdf censArg
  rw [if_neg (not_lt.mpr hx), if_neg (not_lt.mpr (le_trans hx (le_of_lt hxy)))]
  exact hA.mono x y (lt_of_lt_of_le hthr hx) hxy

/-- a dry day's cdf value stays below every wet day's -/
theorem cens_dry_below_wet (A : Amounts) (hA : AmountLaws A) (thr : Rat) (u u' x y : Rat) (hu0 : 0 < u)
    (hu : u < thr) (hx : x < thr) (hy : thr ≤ y) : censCdf A thr u x < censCdf A thr u' y := by
  unfold censCdf censArg
  rw [if_pos hx, if_neg (not_lt.mpr hy)]
  exact hA.mono u y hu0 (lt_of_lt_of_le hu hy)

example : censPpf (ratFam 0 1) (1 / 10) true (censCdf (ratFam 0 1) (1 / 10) (1 / 20) 0) = 0 :=
  cens_dry (ratFam 0 1) (ratFam_laws 1 (by norm_num)) (1 / 10) (1 / 20) 0 (by norm_num) (by norm_num) (by norm_num)

/-- the fit splits the data at the threshold: the non-censored values are exactly the values `> thr` (in order), all of
    them are above the threshold, and the censored count is the number of values `≤ thr` -/
theorem cens_fit_split (thr : Rat) (data : List Rat) :
    (censFitArgs thr data).1 = data.filter (fun v => decide (v > thr)) ∧
    (∀ v ∈ (censFitArgs thr data).1, thr < v) ∧
    (censFitArgs thr data).2 = (data.filter (fun v => decide (v ≤ thr))).length := by
  have hsplit : ∀ l : List Rat, l.length =
      (l.filter (fun v => decide (v > thr))).length + (l.filter (fun v => decide (v ≤ thr))).length := by
    intro l
    induction l with
    | nil => simp
    | cons a t ih =>
      simp only [List.filter_cons, List.length_cons]
      by_cases h : a > thr
      · have h' : ¬ a ≤ thr := not_le.mpr h
        simp [h, h'] at ih ⊢; omega
      · have h' : a ≤ thr := not_lt.mp h
        simp [h, h'] at ih ⊢; omega
  refine ⟨rfl, ?_, ?_⟩
  · intro v hv
    have : v ∈ data.filter (fun v => decide (v > thr)) := hv
    simpa using (List.mem_filter.mp this).2
  · show data.length - (data.filter (fun v => decide (v > thr))).length = _
    have := hsplit data; omega

example : censFitArgs (1 / 10) [0, 1 / 20, 1 / 10, 3] = ([3], 3) := by decide +kernel  -- concrete witness

/-! ## `map_standard_precipitation_method`: a three-way factory -/

theorem factory_censored (isGamma : Bool) (thr : Rat) (rand : Bool) :
    mapStandard "censored" isGamma thr rand =
      if isGamma = true ∧ 0 < thr then .ok (.censored thr) else .error "ValueError" := by
  unfold mapStandard
  cases isGamma <;> simp
  by_cases h : 0 < thr
  · have h1 : ¬ thr < 0 := by linarith
    have h2 : ¬ thr ≤ 0 := by linarith
    simp [h, h1, h2]
  · have h2 : thr ≤ 0 := by linarith
    simp [h, h2]

theorem factory_hurdle (isGamma : Bool) (thr : Rat) (rand : Bool) :
    mapStandard "hurdle" isGamma thr rand = .ok (.hurdle rand) := by
  unfold mapStandard; simp

theorem factory_ignore_zeros (isGamma : Bool) (thr : Rat) (rand : Bool) :
    mapStandard "ignore_zeros" isGamma thr rand = .ok .ignoreZeros := by
  unfold mapStandard; simp

theorem factory_other (t : String) (isGamma : Bool) (thr : Rat) (rand : Bool) (h1 : t ≠ "censored")
    (h2 : t ≠ "hurdle") (h3 : t ≠ "ignore_zeros") : mapStandard t isGamma thr rand = .error "ValueError" := by
  unfold mapStandard; simp [h1, h2, h3]

/-! ## non-vacuity: the rational family `F(x) = x/(s+x)`, `F⁻¹(p) = s p/(1-p)` satisfies the laws -/

theorem ratFam_laws (s : Rat) (hs : 0 < s) : AmountLaws (ratFam 0 s) := Lemmas.Precip.ratFam_laws s hs

theorem ratFam_inv0 (s : Rat) : (ratFam 0 s).ppfA ((ratFam 0 s).cdfA 0) = 0 := Lemmas.Precip.ratFam_inv0 s

/-! ## proof round 4: families with a location, exact censoring test, element-wise structure of the array forms -/

/-- hurdle, amounts family supported on `(lo, ∞)` with `lo ≥ 0` (a fitted or fixed location — `fit_kwds=None`,
    `{"floc": c}`): wet values above the location are strictly above `p0` and come back exactly -/
theorem hurdle_wet_roundtrip_located (A : Amounts) (lo : Rat) (hlo : 0 ≤ lo) (hA : AmountLawsOn lo A) (p0 : Rat)
    (hp1 : p0 < 1) (rand : Bool) (u x : Rat) (hx : lo < x) :
    hurdleCdf A p0 rand u x > p0 ∧ hurdlePpf A p0 (hurdleCdf A p0 rand u x) = x := by
  have hF := hA.pos x hx
  have h1 : 0 < 1 - p0 := by linarith
  have hne : x ≠ 0 := ne_of_gt (lt_of_le_of_lt hlo hx)
  have hc : hurdleCdf A p0 rand u x = p0 + (1 - p0) * A.cdfA x := by unfold hurdleCdf; rw [if_neg hne]
  have hgt : p0 + (1 - p0) * A.cdfA x > p0 := by
    have := mul_pos h1 hF.1; linarith
  rw [hc]
  refine ⟨hgt, ?_⟩
  unfold hurdlePpf
  rw [if_pos hgt]
  have : (p0 + (1 - p0) * A.cdfA x - p0) / (1 - p0) = A.cdfA x := by
    field_simp; ring
  rw [this]; exact hA.inv x hx

/-- ignore-zeros with a located family -/
theorem iz_wet_roundtrip_located (A : Amounts) (lo : Rat) (hlo : 0 ≤ lo) (hA : AmountLawsOn lo A) (x : Rat)
    (hx : lo < x) : (∃ q, izCdf A x = .fin q ∧ 0 < q ∧ q < 1) ∧ izPpf A (izCdf A x) = x := by
  have hc : izCdf A x = .fin (A.cdfA x) := by unfold izCdf; rw [if_neg (ne_of_gt (lt_of_le_of_lt hlo hx))]
  rw [hc]
  exact ⟨⟨_, rfl, hA.pos x hx⟩, hA.inv x hx⟩

/-- the located rational family satisfies the located laws (non-vacuity; it is the test double of the harness) -/
theorem ratFamLoc_laws (loc s : Rat) (hs : 0 < s) : AmountLawsOn loc (ratFam loc s) := Lemmas.Precip.ratFamLoc_laws loc s hs

example : hurdlePpf (ratFam (1 / 2) 2) (1 / 4) (hurdleCdf (ratFam (1 / 2) 2) (1 / 4) false 0 3) = 3 :=
  (hurdle_wet_roundtrip_located _ (1 / 2) (by norm_num) (ratFamLoc_laws _ 2 (by norm_num)) (1 / 4) (by norm_num) false 0 3
    (by norm_num)).2

/-- the dry statements need **no** law of the family at all (in particular nothing about `ppfA 0`, which is the
    location for a located family): this is what separates `q > p0` from `q ≥ p0` -/
theorem hurdle_dry_any_family (A : Amounts) (p0 u : Rat) (rand : Bool) (hu : u ≤ p0) :
    hurdlePpf A p0 (hurdleCdf A p0 rand u 0) = 0 := by
  cases rand
  · exact (hurdle_dry_no_randomisation A p0 u).2
  · exact (hurdle_dry_randomised A p0 u hu).2

/-- the censoring test of the ppf is exact: a value at or above the threshold is never censored, a value below it is
    set to 0 iff `censor_in_ppf` -/
theorem censPost_spec (thr : Rat) (censor : Bool) (v : Rat) :
    (thr ≤ v → censPost thr censor v = v) ∧ (v < thr → censPost thr true v = 0) ∧ censPost thr false v = v := by
  unfold censPost
  refine ⟨fun h => ?_, fun h => ?_, ?_⟩
  · have : ¬ v < thr := not_lt.mpr h
    simp [this]
  · simp [h]
  · simp

/-! ### the array forms are element-wise: evaluated on selected positions (only the wet values, only zeros, a single
    value, a permutation, repeats …) and on chunks they give the selected / concatenated values of the whole vector -/

theorem hurdleCdfL_select (A : Amounts) (p0 : Rat) (rand : Bool) (us xs : List Rat) (hlen : xs.length = us.length)
    (dx du : Rat) (idx : List Nat) :
    hurdleCdfL A p0 rand (idx.map (fun i => us.getD i du)) (idx.map (fun i => xs.getD i dx)) =
      idx.map (fun i => (hurdleCdfL A p0 rand us xs).getD i (hurdleCdf A p0 rand du dx)) :=
  zipWith_select _ xs us dx du idx hlen

theorem hurdlePpfL_select (A : Amounts) (p0 : Rat) (qs : List Rat) (d : Rat) (idx : List Nat) :
    hurdlePpfL A p0 (idx.map (fun i => qs.getD i d)) = idx.map (fun i => (hurdlePpfL A p0 qs).getD i (hurdlePpf A p0 d)) :=
  map_select _ _ _ _

theorem izCdfL_select (A : Amounts) (xs : List Rat) (d : Rat) (idx : List Nat) :
    izCdfL A (idx.map (fun i => xs.getD i d)) = idx.map (fun i => (izCdfL A xs).getD i (izCdf A d)) :=
  map_select _ _ _ _

theorem izPpfL_select (A : Amounts) (qs : List ERat) (d : ERat) (idx : List Nat) :
    izPpfL A (idx.map (fun i => qs.getD i d)) = idx.map (fun i => (izPpfL A qs).getD i (izPpf A d)) :=
  map_select _ _ _ _

theorem censArgL_select (thr : Rat) (us xs : List Rat) (hlen : xs.length = us.length) (dx du : Rat) (idx : List Nat) :
    censArgL thr (idx.map (fun i => us.getD i du)) (idx.map (fun i => xs.getD i dx)) =
      idx.map (fun i => (censArgL thr us xs).getD i (censArg thr du dx)) :=
  zipWith_select _ xs us dx du idx hlen

theorem censPostL_select (thr : Rat) (censor : Bool) (vs : List Rat) (d : Rat) (idx : List Nat) :
    censPostL thr censor (idx.map (fun i => vs.getD i d)) = idx.map (fun i => (censPostL thr censor vs).getD i (censPost thr censor d)) :=
  map_select _ _ _ _

/-- chunks: evaluating consecutive chunks and concatenating is evaluating the whole vector -/
theorem arrays_chunkwise (A : Amounts) (p0 thr : Rat) (rand censor : Bool) (xs xs' us us' : List Rat)
    (hlen : xs.length = us.length) (qs qs' : List Rat) (es es' : List ERat) :
    hurdleCdfL A p0 rand (us ++ us') (xs ++ xs') = hurdleCdfL A p0 rand us xs ++ hurdleCdfL A p0 rand us' xs' ∧
    hurdlePpfL A p0 (qs ++ qs') = hurdlePpfL A p0 qs ++ hurdlePpfL A p0 qs' ∧
    izCdfL A (xs ++ xs') = izCdfL A xs ++ izCdfL A xs' ∧
    izPpfL A (es ++ es') = izPpfL A es ++ izPpfL A es' ∧
    censArgL thr (us ++ us') (xs ++ xs') = censArgL thr us xs ++ censArgL thr us' xs' ∧
    censPostL thr censor (qs ++ qs') = censPostL thr censor qs ++ censPostL thr censor qs' := by
  refine ⟨List.zipWith_append hlen, List.map_append, List.map_append, List.map_append, List.zipWith_append hlen, List.map_append⟩

/-- in particular: on a vector without any zero the ignore-zeros cdf is finite everywhere, on a vector of zeros it is `-∞`
    everywhere — whatever else the fitted sample contained -/
theorem izCdfL_no_zero (A : Amounts) (xs : List Rat) (h : ∀ x ∈ xs, x ≠ 0) : izCdfL A xs = xs.map (fun x => .fin (A.cdfA x)) := by
  unfold izCdfL
  apply List.map_congr_left
  intro x hx
  unfold izCdf; rw [if_neg (h x hx)]

theorem izCdfL_all_zero (A : Amounts) (n : Nat) : izCdfL A (List.replicate n 0) = List.replicate n .negInf := by
  unfold izCdfL; rw [List.map_replicate, iz_cdf_zero]

end Props.C17
