/-
  C17 — the precipitation statistical models are coherent (fit, cdf, ppf; dry stays dry).
  Property theorems only.  Stated on `Model.Precip` over an *abstract* amounts family `A` satisfying
  `AmountLaws` (cdf strictly increasing on (0,∞) with values in (0,1), ppf its inverse there) and for
  *every* random draw `u` in the documented range; `ratFam_laws` shows the laws are satisfiable.
-/
import IbicusModel.Lemmas.Precip

namespace Props.C17
open Model.Precip Lemmas.Precip

/-! ## hurdle model -/

/-- **the fitted dry probability is the observed fraction of zeros** -/
theorem hurdle_p0 (data : List Rat) (hne : data ≠ []) :
    hurdleP0 data = (zeros data : Rat) / (data.length : Rat) := hurdleP0_eq data hne

example : hurdleP0 [0, 3, 0, 1 / 2] = 1 / 2 := by decide +kernel  -- concrete witness

/-- it lies in `[0,1]`; `< 1` iff some value is wet, `> 0` iff some value is dry -/
theorem hurdle_p0_range (data : List Rat) (hne : data ≠ []) : 0 ≤ hurdleP0 data ∧ hurdleP0 data ≤ 1 :=
  hurdleP0_range data hne

theorem hurdle_p0_lt_one (data : List Rat) (hne : data ≠ []) (hw : rainyDays data ≠ []) : hurdleP0 data < 1 :=
  hurdleP0_lt_one data hne hw

theorem hurdle_p0_pos (data : List Rat) (hne : data ≠ []) (hz : 0 < zeros data) : 0 < hurdleP0 data :=
  hurdleP0_pos data hne hz

/-- **wet values: the cdf value is strictly above `p0` and `ppf (cdf x) = x`** — with or without randomisation,
    whatever the draw -/
theorem hurdle_wet_roundtrip (A : Amounts) (hA : AmountLaws A) (p0 : Rat) (hp1 : p0 < 1) (rand : Bool) (u x : Rat)
    (hx : 0 < x) :
    hurdleCdf A p0 rand u x > p0 ∧ hurdlePpf A p0 (hurdleCdf A p0 rand u x) = x := by
  have hF := hA.pos x hx
  have h1 : 0 < 1 - p0 := by linarith
  have hne : x ≠ 0 := ne_of_gt hx
  have hc : hurdleCdf A p0 rand u x = p0 + (1 - p0) * A.cdfA x := by unfold hurdleCdf; rw [if_neg hne]
  have hgt : p0 + (1 - p0) * A.cdfA x > p0 := by
    have := mul_pos h1 hF.1; linarith
  rw [hc]
  refine ⟨hgt, ?_⟩
  unfold hurdlePpf
  rw [if_pos hgt]
  have : (p0 + (1 - p0) * A.cdfA x - p0) / (1 - p0) = A.cdfA x := by
    field_simp; ring
  rw [this]; exact hA.inv x hx

example : hurdlePpf (ratFam 0 2) (1 / 4) (hurdleCdf (ratFam 0 2) (1 / 4) true (1 / 8) 3) = 3 :=
  (hurdle_wet_roundtrip (ratFam 0 2) (ratFam_laws 2 (by norm_num)) (1 / 4) (by norm_num) true (1 / 8) 3 (by norm_num)).2

/-- **dry stays dry, without randomisation**: `cdf 0 = p0` and the strict test `q > p0` sends it back to 0 -/
theorem hurdle_dry_no_randomisation (A : Amounts) (p0 u : Rat) :
    hurdleCdf A p0 false u 0 = p0 ∧ hurdlePpf A p0 (hurdleCdf A p0 false u 0) = 0 := by
  have hc : hurdleCdf A p0 false u 0 = p0 := by unfold hurdleCdf; simp
  rw [hc]
  exact ⟨rfl, by unfold hurdlePpf; rw [if_neg (lt_irrefl p0)]⟩

/-- **dry stays dry, with randomisation**, for every draw `u ≤ p0` (numpy documents `0 ≤ u < p0`; `u = p0` covers the
    degenerate `uniform(0, 0)` of a sample without dry values) -/
theorem hurdle_dry_randomised (A : Amounts) (p0 u : Rat) (hu : u ≤ p0) :
    hurdleCdf A p0 true u 0 = u ∧ hurdlePpf A p0 (hurdleCdf A p0 true u 0) = 0 := by
  have hc : hurdleCdf A p0 true u 0 = u := by unfold hurdleCdf; simp
  rw [hc]
  exact ⟨rfl, by unfold hurdlePpf; rw [if_neg (not_lt.mpr hu)]⟩

/-- cdf values lie in `[0,1]` (for `x ≥ 0`, `p0 ∈ [0,1]`, draw in `[0, p0]`) -/
theorem hurdle_cdf_range (A : Amounts) (hA : AmountLaws A) (p0 : Rat) (h0 : 0 ≤ p0) (h1 : p0 ≤ 1) (rand : Bool)
    (u x : Rat) (hu0 : 0 ≤ u) (hu : u ≤ p0) (hx : 0 ≤ x) :
    0 ≤ hurdleCdf A p0 rand u x ∧ hurdleCdf A p0 rand u x ≤ 1 := by
  unfold hurdleCdf
  by_cases hx0 : x = 0
  · rw [if_pos hx0]; cases rand <;> simp <;> constructor <;> linarith
  · rw [if_neg hx0]
    have hF := hA.pos x (lt_of_le_of_ne hx (Ne.symm hx0))
    have h2 : 0 ≤ (1 - p0) * A.cdfA x := mul_nonneg (by linarith) (le_of_lt hF.1)
    have h3 : (1 - p0) * A.cdfA x ≤ (1 - p0) * 1 := mul_le_mul_of_nonneg_left (le_of_lt hF.2) (by linarith)
    constructor <;> linarith

/-- strictly increasing over wet values (when some value is wet, `p0 < 1`) -/
theorem hurdle_cdf_mono_wet (A : Amounts) (hA : AmountLaws A) (p0 : Rat) (h1 : p0 < 1) (rand : Bool) (u u' x y : Rat)
    (hx : 0 < x) (hxy : x < y) : hurdleCdf A p0 rand u x < hurdleCdf A p0 rand u' y := by
  have hy : 0 < y := lt_trans hx hxy
  unfold hurdleCdf
  rw [if_neg (ne_of_gt hx), if_neg (ne_of_gt hy)]
  have := mul_lt_mul_of_pos_left (hA.mono x y hx hxy) (by linarith : 0 < 1 - p0)
  linarith

/-- **wet values never receive a cdf value below the dry probability**, and so never below a dry day's value -/
theorem hurdle_wet_above_dry (A : Amounts) (hA : AmountLaws A) (p0 : Rat) (h1 : p0 ≤ 1) (rand : Bool) (u u' x : Rat)
    (hu : u' ≤ p0) (hx : 0 < x) :
    p0 ≤ hurdleCdf A p0 rand u x ∧ hurdleCdf A p0 rand u' 0 ≤ hurdleCdf A p0 rand u x := by
  have hF := hA.pos x hx
  have hc : hurdleCdf A p0 rand u x = p0 + (1 - p0) * A.cdfA x := by unfold hurdleCdf; rw [if_neg (ne_of_gt hx)]
  have h2 : 0 ≤ (1 - p0) * A.cdfA x := mul_nonneg (by linarith) (le_of_lt hF.1)
  rw [hc]
  refine ⟨by linarith, ?_⟩
  unfold hurdleCdf
  cases rand <;> simp <;> linarith

/-! ## ignore-zeros model (values in `ℚ ∪ {−∞}`) -/

theorem iz_cdf_zero (A : Amounts) : izCdf A 0 = .negInf := by unfold izCdf; simp

theorem iz_ppf_neginf (A : Amounts) : izPpf A .negInf = 0 := rfl

/-- dry stays dry -/
theorem iz_dry (A : Amounts) : izPpf A (izCdf A 0) = 0 := by rw [iz_cdf_zero]; rfl

/-- wet values: a finite cdf value in `(0,1)` and an exact round trip -/
theorem iz_wet_roundtrip (A : Amounts) (hA : AmountLaws A) (x : Rat) (hx : 0 < x) :
    (∃ q, izCdf A x = .fin q ∧ 0 < q ∧ q < 1) ∧ izPpf A (izCdf A x) = x := by
  have hc : izCdf A x = .fin (A.cdfA x) := by unfold izCdf; rw [if_neg (ne_of_gt hx)]
  rw [hc]
  exact ⟨⟨_, rfl, hA.pos x hx⟩, hA.inv x hx⟩

/-- non-decreasing (strictly increasing) over wet values -/
theorem iz_cdf_mono_wet (A : Amounts) (hA : AmountLaws A) (x y : Rat) (hx : 0 < x) (hxy : x < y) :
    ∃ p q, izCdf A x = .fin p ∧ izCdf A y = .fin q ∧ p < q := by
  have hy : 0 < y := lt_trans hx hxy
  refine ⟨A.cdfA x, A.cdfA y, ?_, ?_, hA.mono x y hx hxy⟩
  · unfold izCdf; rw [if_neg (ne_of_gt hx)]
  · unfold izCdf; rw [if_neg (ne_of_gt hy)]

example : izPpf (ratFam 0 1) (izCdf (ratFam 0 1) 5) = 5 :=
  (iz_wet_roundtrip (ratFam 0 1) (ratFam_laws 1 (by norm_num)) 5 (by norm_num)).2

/-! ## left-censored gamma model -/

/-- values at or above the censoring threshold come back unchanged (whatever the draw; with or without
    `censor_in_ppf`) -/
theorem cens_wet_roundtrip (A : Amounts) (hA : AmountLaws A) (thr : Rat) (hthr : 0 < thr) (censor : Bool) (u x : Rat)
    (hx : thr ≤ x) : censPpf A thr censor (censCdf A thr u x) = x := by
  have hx0 : 0 < x := lt_of_lt_of_le hthr hx
  unfold censPpf censCdf censArg censPost
  rw [if_neg (not_lt.mpr hx), hA.inv x hx0]
  have : ¬ x < thr := not_lt.mpr hx
  simp [this]

/-- **values below the threshold (dry / drizzle) come back as exactly 0** with `censor_in_ppf = True`, for every draw
    `u ∈ (0, thr)` -/
theorem cens_dry (A : Amounts) (hA : AmountLaws A) (thr : Rat) (u x : Rat) (hu0 : 0 < u) (hu : u < thr)
    (hx : x < thr) : censPpf A thr true (censCdf A thr u x) = 0 := by
  unfold censPpf censCdf censArg censPost
  rw [if_pos hx, hA.inv u hu0]
  simp [hu]

/-- the draw `u = 0` (in numpy's half-open range `[0, thr)`) needs one more fact about the family:
    `ppf (cdf 0) = 0` (true for gamma and for the test double) -/
theorem cens_dry_u_zero (A : Amounts) (hinv0 : A.ppfA (A.cdfA 0) = 0) (thr : Rat) (hthr : 0 < thr) (x : Rat)
    (hx : x < thr) : censPpf A thr true (censCdf A thr 0 x) = 0 := by
  unfold censPpf censCdf censArg censPost
  rw [if_pos hx, hinv0]
  simp [hthr]

/-- with `censor_in_ppf = False` dry values do **not** come back as 0: they come back as the random draw
    (a positive value below the threshold) -/
theorem cens_dry_uncensored (A : Amounts) (hA : AmountLaws A) (thr : Rat) (u x : Rat) (hu0 : 0 < u)
    (hx : x < thr) : censPpf A thr false (censCdf A thr u x) = u := by
  unfold censPpf censCdf censArg censPost
  rw [if_pos hx, hA.inv u hu0]
  simp

/-- cdf values lie in `(0,1)` for every draw `u ∈ (0, thr)`, and are strictly increasing over wet values -/
theorem cens_cdf_range (A : Amounts) (hA : AmountLaws A) (thr : Rat) (hthr : 0 < thr) (u x : Rat) (hu0 : 0 < u) :
    0 < censCdf A thr u x ∧ censCdf A thr u x < 1 := by
  unfold censCdf censArg
  split_ifs with h
  · exact hA.pos u hu0
  · exact hA.pos x (lt_of_lt_of_le hthr (not_lt.mp h))

theorem cens_cdf_mono_wet (A : Amounts) (hA : AmountLaws A) (thr : Rat) (hthr : 0 < thr) (u u' x y : Rat)
    (hx : thr ≤ x) (hxy : x < y) : censCdf A thr u x < censCdf A thr u' y := by
  unfold censCdf censArg
  rw [if_neg (not_lt.mpr hx), if_neg (not_lt.mpr (le_trans hx (le_of_lt hxy)))]
  exact hA.mono x y (lt_of_lt_of_le hthr hx) hxy

/-- a dry day's cdf value stays below every wet day's -/
theorem cens_dry_below_wet (A : Amounts) (hA : AmountLaws A) (thr : Rat) (u u' x y : Rat) (hu0 : 0 < u)
    (hu : u < thr) (hx : x < thr) (hy : thr ≤ y) : censCdf A thr u x < censCdf A thr u' y := by
  unfold censCdf censArg
  rw [if_pos hx, if_neg (not_lt.mpr hy)]
  exact hA.mono u y hu0 (lt_of_lt_of_le hu hy)

example : censPpf (ratFam 0 1) (1 / 10) true (censCdf (ratFam 0 1) (1 / 10) (1 / 20) 0) = 0 :=
  cens_dry (ratFam 0 1) (ratFam_laws 1 (by norm_num)) (1 / 10) (1 / 20) 0 (by norm_num) (by norm_num) (by norm_num)

/-- the fit splits the data at the threshold: non-censored values are those `> thr`, the rest is counted -/
theorem cens_fit_split (thr : Rat) (data : List Rat) :
    (censFitArgs thr data).1 = data.filter (fun v => decide (v > thr)) ∧
    (censFitArgs thr data).2 + (censFitArgs thr data).1.length = data.length := by
  unfold censFitArgs
  simp only []
  have := List.length_filter_le (fun v => decide (v > thr)) data
  refine ⟨trivial, by omega⟩

/-! ## `map_standard_precipitation_method`: a three-way factory -/

theorem factory_censored (isGamma : Bool) (thr : Rat) (rand : Bool) :
    mapStandard "censored" isGamma thr rand =
      if isGamma = true ∧ 0 < thr then .ok (.censored thr) else .error "ValueError" := by
  unfold mapStandard
  cases isGamma <;> simp
  by_cases h : 0 < thr
  · have h1 : ¬ thr < 0 := by linarith
    have h2 : ¬ thr ≤ 0 := by linarith
    simp [h, h1, h2]
  · have h2 : thr ≤ 0 := by linarith
    simp [h, h2]

theorem factory_hurdle (isGamma : Bool) (thr : Rat) (rand : Bool) :
    mapStandard "hurdle" isGamma thr rand = .ok (.hurdle rand) := by
  unfold mapStandard; simp

theorem factory_ignore_zeros (isGamma : Bool) (thr : Rat) (rand : Bool) :
    mapStandard "ignore_zeros" isGamma thr rand = .ok .ignoreZeros := by
  unfold mapStandard; simp

theorem factory_other (t : String) (isGamma : Bool) (thr : Rat) (rand : Bool) (h1 : t ≠ "censored")
    (h2 : t ≠ "hurdle") (h3 : t ≠ "ignore_zeros") : mapStandard t isGamma thr rand = .error "ValueError" := by
  unfold mapStandard; simp [h1, h2, h3]

/-! ## non-vacuity: the rational family `F(x) = x/(s+x)`, `F⁻¹(p) = s p/(1-p)` satisfies the laws -/

theorem ratFam_laws (s : Rat) (hs : 0 < s) : AmountLaws (ratFam 0 s) := Lemmas.Precip.ratFam_laws s hs

theorem ratFam_inv0 (s : Rat) : (ratFam 0 s).ppfA ((ratFam 0 s).cdfA 0) = 0 := Lemmas.Precip.ratFam_inv0 s

end Props.C17
