/-
  Capstone, part 4: `CDFt.apply_on_window` / `QuantileDeltaMapping.apply_on_window` as ONE definition that dispatches on
  `running_window_mode_over_years_of_cm_future`, built from regenerated pieces only:

      seasonal loop `Gen.Loops.loopRW`
        ∘ dispatch `Gen.WinDispatch.cdft / qdm`  (switch, inference of `time_cm_future`, length check + `ValueError`,
                                                  `year(time_cm_future)`, the `else` call — translator/extract_windispatch.py)
            ∘ year loop `Gen.Loops.loopCDFt / loopQDM`   (switch on)
            ∘ steps `Gen.DebWin.cdft_apply_debiasing_steps / qdm_apply_debiasing_steps`  (both branches)
        [QDM: `Gen.DebWin.qdm_get_obs_and_cm_hist_fits` once per window in front of the switch]

  and proved equal to the two definitions `Props.Capstone` states C02 / C03 / C04 on (`regenApplyLocation_CDFt` /
  `_CDFt_years`, `regenApplyLocation_QDM` / `_QDM_years`) — which closes the item `Lemmas/Capstone.lean` lists as not read
  from the source by the glue.  The time axis of `cm_future` is represented by the year of every step (`yearsF`); the
  window's `time_cm_future` is `take yearsF ix`.

  Hand-written glue in this file: `valSamples` / `valQdm` (the value of a source of the `else` call), `callSteps` (method
  lookup by name) and the environment record handed to the dispatch.
-/
import IbicusModel.Props.Capstone
import IbicusModel.Lemmas.GenWinDispatch

namespace Props.Capstone4
open Model.Skeleton Model.Windows Model.Stats Model.Family Model.Debiasers
open Model.Loops (pick Src)
open Model.NpDeb (Env Val Prog)
open Model.WinDispatch (kwOf DEnv)
open Lemmas.Capstone Lemmas.GenWinDispatch
open Lemmas.C03 (allAssigned allAssigned_map_some winOfYears)
open Props.Capstone

variable {P : Type}

/-! ### glue -/

/-- the value of a source of CDFt's `else` call: the whole samples -/
def valSamples (o h x : List Rat) : Src → Option (Val P)
  | .data s => some (.arr (pick o h x s))
  | _ => none

def fit0 : String := "self._get_obs_and_cm_hist_fits(obs, hist).0"
def fit1 : String := "self._get_obs_and_cm_hist_fits(obs, hist).1"

/-- the value of a source of QDM's `else` call: the whole future sample, the two fits computed in front of the switch -/
def valQdm (x : List Rat) (fo fh : Val P) : Src → Option (Val P)
  | .data .fut => some (.arr x)
  | .opaque n => if n = fit0 then some fo else if n = fit1 then some fh else none
  | _ => none

/-- method lookup of the `else` call: the class has one `_apply_debiasing_steps`, the regenerated program `prog` -/
def callSteps (prog : Prog) (env : Env P) (draws : Nat → List Rat) :
    String → (String → Option (Val P)) → Except String (List Rat) :=
  fun callee kw =>
    if callee = "self._apply_debiasing_steps" then single (callProg prog env kw draws) else .error "AttributeError"

/-- what the dispatch sees inside a seasonal window: the switch, the year-window settings, `time_cm_future` of the window
    (by its years), the three samples -/
def winEnv (flag : Bool) (Ly Sy : Int) (yearsF : List Int) (o h x : List Rat) (ix : List Nat) : DEnv Int Rat :=
  ⟨flag, Ly, Sy, pick none none (some (take yearsF ix)), pick o h x, fun _ => [], id⟩

/-! ### the one definition per class -/

/-- `CDFt.apply_on_window`, all of it regenerated; `flag` = `running_window_mode_over_years_of_cm_future` -/
def applyOnWindow_CDFt (flag : Bool) (env : Env P) (drw : List Nat → List Rat) (Ly Sy : Int) (yearsF : List Int) :
    WinFn Rat :=
  fun o h x _ _ ix =>
    (Model.WinDispatch.denote Gen.WinDispatch.cdft Gen.Loops.loopCDFt
      (progYearFn Gen.DebWin.cdft_apply_debiasing_steps env (cdftDraws drw) o h)
      (callSteps Gen.DebWin.cdft_apply_debiasing_steps env (cdftDraws drw o h ix))
      (valSamples o h x) (winEnv flag Ly Sy yearsF o h x ix)).bind allAssigned

/-- `QuantileDeltaMapping.apply_on_window`, all of it regenerated -/
def applyOnWindow_QDM (flag : Bool) (env : Env P) (Ly Sy : Int) (yearsF : List Int) : WinFn Rat :=
  fun o h x _ _ ix => qdmFitsThen Gen.DebWin.qdm_get_obs_and_cm_hist_fits env o h (fun fo fh =>
    (Model.WinDispatch.denote Gen.WinDispatch.qdm Gen.Loops.loopQDM
      (fun xw _ => single (callProg Gen.DebWin.qdm_apply_debiasing_steps env (kwQdm xw fo fh) env.draws))
      (callSteps Gen.DebWin.qdm_apply_debiasing_steps env env.draws)
      (valQdm x fo fh) (winEnv flag Ly Sy yearsF o h x ix)).bind allAssigned)

/-- `RunningWindowDebiaser.apply_location` ∘ `CDFt.apply_on_window` -/
def regenApplyOnWindow_CDFt (flag : Bool) (env : Env P) (drw : List Nat → List Rat) (Ly Sy : Int) (yearsF : List Int)
    (L S : Int) (dO dH dF : List Int) (obs hist fut : List Rat) : Except String (List (Option Rat)) :=
  Model.Loops.denote Gen.Loops.loopRW (applyOnWindow_CDFt flag env drw Ly Sy yearsF) ⟨L, S, pick dO dH dF, pick obs hist fut⟩

/-- `RunningWindowDebiaser.apply_location` ∘ `QuantileDeltaMapping.apply_on_window` -/
def regenApplyOnWindow_QDM (flag : Bool) (env : Env P) (Ly Sy : Int) (yearsF : List Int)
    (L S : Int) (dO dH dF : List Int) (obs hist fut : List Rat) : Except String (List (Option Rat)) :=
  Model.Loops.denote Gen.Loops.loopRW (applyOnWindow_QDM flag env Ly Sy yearsF) ⟨L, S, pick dO dH dF, pick obs hist fut⟩

/-! ### helper facts -/

theorem map_some_allAssigned (r : Except String (List Rat)) : (r.map (List.map some)).bind allAssigned = r := by
  cases r with
  | error e => rfl
  | ok l => exact allAssigned_map_some l

/-- the keywords of CDFt's `else` call are the ones the capstone glue binds (`kwSamples`) -/
theorem kwOf_cdft_samples (o h x : List Rat) :
    kwOf Model.WinDispatch.cdft.elseArgs (valSamples (P := P) o h x) = kwSamples o h x := by
  funext p
  by_cases h1 : p = "obs"
  · subst h1; simp [kwOf, Model.WinDispatch.cdft, List.find?, kwSamples, valSamples, pick]
  by_cases h2 : p = "cm_hist"
  · subst h2; simp [kwOf, Model.WinDispatch.cdft, List.find?, kwSamples, valSamples, pick]
  by_cases h3 : p = "cm_future"
  · subst h3; simp [kwOf, Model.WinDispatch.cdft, List.find?, kwSamples, valSamples, pick]
  · have e1 : ("obs" == p) = false := by simpa using fun hh => h1 hh.symm
    have e2 : ("cm_hist" == p) = false := by simpa using fun hh => h2 hh.symm
    have e3 : ("cm_future" == p) = false := by simpa using fun hh => h3 hh.symm
    simp [kwOf, Model.WinDispatch.cdft, List.find?, kwSamples, h1, h2, h3, e1, e2, e3]

/-- the keywords of QDM's `else` call are the ones the capstone glue binds (`kwQdm`) -/
theorem kwOf_qdm_fits (x : List Rat) (fo fh : Val P) :
    kwOf Model.WinDispatch.qdm.elseArgs (valQdm x fo fh) = kwQdm x fo fh := by
  funext p
  by_cases h1 : p = "cm_future"
  · subst h1; simp [kwOf, Model.WinDispatch.qdm, List.find?, kwQdm, valQdm]
  by_cases h2 : p = "fit_obs"
  · subst h2; simp [kwOf, Model.WinDispatch.qdm, List.find?, kwQdm, valQdm, fit0]
  by_cases h3 : p = "fit_cm_hist"
  · subst h3; simp [kwOf, Model.WinDispatch.qdm, List.find?, kwQdm, valQdm, fit0, fit1]
  · have e1 : ("cm_future" == p) = false := by simpa using fun hh => h1 hh.symm
    have e2 : ("fit_obs" == p) = false := by simpa using fun hh => h2 hh.symm
    have e3 : ("fit_cm_hist" == p) = false := by simpa using fun hh => h3 hh.symm
    simp [kwOf, Model.WinDispatch.qdm, List.find?, kwQdm, h1, h2, h3, e1, e2, e3]

/-! ### CDFt: the window function, branch by branch -/

/-- switch off: the regenerated steps program on the whole window -/
theorem applyOnWindow_CDFt_off (env : Env P) (drw : List Nat → List Rat) (Ly Sy : Int) (yearsF : List Int) :
    applyOnWindow_CDFt false env drw Ly Sy yearsF
      = progWinDraws Gen.DebWin.cdft_apply_debiasing_steps env (cdftDraws drw) := by
  funext o h x io ih ix
  unfold applyOnWindow_CDFt
  rw [denote_else _ _ _ _ _ _ rfl, map_some_allAssigned, Lemmas.GenWinDispatch.cdft, kwOf_cdft_samples]
  rfl

/-- switch on, one year per value of the window: the regenerated year loop over the regenerated steps -/
theorem applyOnWindow_CDFt_on (env : Env P) (drw : List Nat → List Rat) (Ly Sy : Int) (yearsF : List Int)
    (o h x : List Rat) (io ih ix : List Nat) (hl : (take yearsF ix).length = x.length) :
    applyOnWindow_CDFt true env drw Ly Sy yearsF o h x io ih ix
      = yearsWin Gen.Loops.loopCDFt (progYearFn Gen.DebWin.cdft_apply_debiasing_steps env (cdftDraws drw)) Ly Sy yearsF
          o h x io ih ix := by
  unfold applyOnWindow_CDFt yearsWin
  rw [denote_cdft_years _ _ _ (winEnv true Ly Sy yearsF o h x ix) (take yearsF ix) rfl rfl hl,
    Lemmas.GenLoops.loopCDFt, Lemmas.GenLoops.denote_loopCDFt]
  rfl

/-- **F14 clause on the composed function**: switch on and a `time_cm_future` of another length than the window's
    `cm_future` — `ValueError`, no step of the window is computed -/
theorem applyOnWindow_CDFt_value_error (env : Env P) (drw : List Nat → List Rat) (Ly Sy : Int) (yearsF : List Int)
    (o h x : List Rat) (io ih ix : List Nat) (hl : (take yearsF ix).length ≠ x.length) :
    applyOnWindow_CDFt true env drw Ly Sy yearsF o h x io ih ix = .error "ValueError" := by
  unfold applyOnWindow_CDFt
  rw [cdft_value_error _ _ _ (winEnv true Ly Sy yearsF o h x ix) (take yearsF ix) rfl rfl hl]
  rfl

/-! ### QDM: the window function, branch by branch -/

theorem applyOnWindow_QDM_off (env : Env P) (Ly Sy : Int) (yearsF : List Int) :
    applyOnWindow_QDM false env Ly Sy yearsF = qdmWinRegen env := by
  funext o h x io ih ix
  unfold applyOnWindow_QDM qdmWinRegen
  congr 1
  funext fo fh
  rw [denote_else _ _ _ _ _ _ rfl, map_some_allAssigned, Lemmas.GenWinDispatch.qdm, kwOf_qdm_fits]
  rfl

theorem applyOnWindow_QDM_on (env : Env P) (Ly Sy : Int) (yearsF : List Int)
    (o h x : List Rat) (io ih ix : List Nat) (hl : (take yearsF ix).length = x.length) :
    applyOnWindow_QDM true env Ly Sy yearsF o h x io ih ix = qdmYearsWinRegen env Ly Sy yearsF o h x io ih ix := by
  unfold applyOnWindow_QDM qdmYearsWinRegen
  congr 1
  funext fo fh
  rw [denote_qdm_years _ _ _ (winEnv true Ly Sy yearsF o h x ix) (take yearsF ix) rfl rfl hl,
    Lemmas.GenLoops.loopQDM, Lemmas.GenLoops.denote_loopQDM]
  rfl

/-- **F14 clause, QDM**: the fits are computed (they are in front of the switch), then `ValueError` -/
theorem applyOnWindow_QDM_value_error (env : Env P) (Ly Sy : Int) (yearsF : List Int)
    (o h x : List Rat) (io ih ix : List Nat) (hl : (take yearsF ix).length ≠ x.length) :
    applyOnWindow_QDM true env Ly Sy yearsF o h x io ih ix
      = qdmFitsThen Gen.DebWin.qdm_get_obs_and_cm_hist_fits env o h (fun _ _ => .error "ValueError") := by
  unfold applyOnWindow_QDM
  congr 1
  funext fo fh
  rw [qdm_value_error _ _ _ (winEnv true Ly Sy yearsF o h x ix) (take yearsF ix) rfl rfl hl]
  rfl

/-! ### the location functions: ONE definition = the two of `Props.Capstone` -/

/-- **CDFt**: the dispatching definition is, for either value of the switch, the definition `Props.Capstone` states
    C02 / C03 / C04 on.  Guard for the year-window branch: one year per future value (what `apply_location`'s time check
    guarantees), so the `ValueError` branch is not taken in any window. -/
theorem regenApplyOnWindow_CDFt_eq (flag : Bool) (env : Env P) (drw : List Nat → List Rat) (Ly Sy : Int) (yearsF : List Int)
    (L S : Int) (dO dH dF : List Int) (obs hist fut : List Rat) (hleny : flag = true → yearsF.length = fut.length) :
    regenApplyOnWindow_CDFt flag env drw Ly Sy yearsF L S dO dH dF obs hist fut
      = if flag then regenApplyLocation_CDFt_years env drw Ly Sy yearsF L S dO dH dF obs hist fut
        else regenApplyLocation_CDFt env drw L S dO dH dF obs hist fut := by
  cases flag with
  | false =>
    simp only [Bool.false_eq_true, if_false]
    unfold regenApplyOnWindow_CDFt regenApplyLocation_CDFt
    rw [applyOnWindow_CDFt_off]
  | true =>
    simp only [if_true]
    unfold regenApplyOnWindow_CDFt regenApplyLocation_CDFt_years
    rw [Lemmas.GenLoops.loopRW, Lemmas.GenLoops.denote_loopRW, Lemmas.GenLoops.denote_loopRW]
    exact applyLocationRW_congr_at _ _ L S dO dH dF obs hist fut (fun c _ =>
      applyOnWindow_CDFt_on env drw Ly Sy yearsF _ _ _ _ _ _ (window_years_length L dF yearsF fut c (hleny rfl)))

/-- **QDM**: likewise -/
theorem regenApplyOnWindow_QDM_eq (flag : Bool) (env : Env P) (Ly Sy : Int) (yearsF : List Int)
    (L S : Int) (dO dH dF : List Int) (obs hist fut : List Rat) (hleny : flag = true → yearsF.length = fut.length) :
    regenApplyOnWindow_QDM flag env Ly Sy yearsF L S dO dH dF obs hist fut
      = if flag then regenApplyLocation_QDM_years env Ly Sy yearsF L S dO dH dF obs hist fut
        else regenApplyLocation_QDM env L S dO dH dF obs hist fut := by
  cases flag with
  | false =>
    simp only [Bool.false_eq_true, if_false]
    unfold regenApplyOnWindow_QDM regenApplyLocation_QDM
    rw [applyOnWindow_QDM_off]
  | true =>
    simp only [if_true]
    unfold regenApplyOnWindow_QDM regenApplyLocation_QDM_years
    rw [Lemmas.GenLoops.loopRW, Lemmas.GenLoops.denote_loopRW, Lemmas.GenLoops.denote_loopRW]
    exact applyLocationRW_congr_at _ _ L S dO dH dF obs hist fut (fun c _ =>
      applyOnWindow_QDM_on env Ly Sy yearsF _ _ _ _ _ _ (window_years_length L dF yearsF fut c (hleny rfl)))

/-! ### C02 carried by the dispatching definition (either value of the switch) -/

/-- **C02, CDFt, any value of `running_window_mode_over_years_of_cm_future`** (`SSR = False`, `delta_shift` additive or
    `no_shift`, all method pairs) -/
theorem regenApplyOnWindow_CDFt_shift (flag : Bool) (env : Env P) (d : DeltaShift) (hd : d = .additive ∨ d = .no_shift)
    (em : EcdfMethod) (im : IecdfMethod) (hE : CdftEnvOk env false d em im) (drw : List Nat → List Rat)
    (Ly Sy : Int) (yearsF : List Int) (c : Rat) (L S : Int) (dO dH dF : List Int) (obs hist fut : List Rat)
    (hleny : yearsF.length = fut.length)
    (hS : 0 < S) (hSL : S ≤ L) (hlen : dF.length = fut.length) (hr : ∀ d ∈ dF, 1 ≤ d ∧ d ≤ 366)
    (hH : ∀ cc ∈ useCenters S dF, take hist (idxWindow L dH cc) ≠ []) :
    regenApplyOnWindow_CDFt flag env drw Ly Sy yearsF L S dO dH dF obs hist (fut.map (fun v => v + c))
      = (regenApplyOnWindow_CDFt flag env drw Ly Sy yearsF L S dO dH dF obs hist fut).map
          (List.map (Option.map (fun v => v + c))) := by
  rw [regenApplyOnWindow_CDFt_eq flag env drw Ly Sy yearsF L S dO dH dF obs hist _ (fun _ => by simpa using hleny),
    regenApplyOnWindow_CDFt_eq flag env drw Ly Sy yearsF L S dO dH dF obs hist fut (fun _ => hleny)]
  cases flag with
  | true =>
    simp only [if_true]
    exact regenApplyLocation_CDFt_years_shift env d hd em im hE drw Ly Sy yearsF c L S dO dH dF obs hist fut hleny hH
  | false =>
    simp only [Bool.false_eq_true, if_false]
    exact regenApplyLocation_CDFt_shift env d hd em im hE drw c L S dO dH dF obs hist fut hS hSL hlen hr hH

end Props.Capstone4
