/-
  C10 — physical bounds and dry-day structure of the output.

  ISIMIP (`Model.Isimip`): every value step 6 writes is a bound or a value not beyond a threshold (`Good`), hence inside
  `[lb, ub]` (`InBounds`) and never strictly between a bound and its threshold (`NoGap`); the bounded trend transfer of
  step 5 is clipped to `[a, b]`; `pr`: `0` or `≥ lower_threshold`; `rsds`: step 8 multiplies values of `[0,1]` by a
  non-negative annual cycle.  Precipitation (`Model.Debiasers`, `Model.Precip`): LinearScaling / DeltaChange
  (multiplicative), QuantileMapping (hurdle / censored), ScaledDistributionMapping (relative), CDFt (SSR),
  QuantileDeltaMapping are non-negative and defined (every divisor non-zero under the stated guard), and the censoring
  methods return exact zeros (`0` or `≥` the threshold).

  Guards are explicit hypotheses:
  * `Wet c obs H F obsFut` (decidable; `Lemmas.C10.Wet`) — at least two values strictly between the thresholds in each
    sample and in the pseudo-future observations, inputs in `[lb, ub]`.  Step 6 uses only "there is a pseudo-future
    observation between the thresholds": without it the code leaves the entries unadjusted and the statement is false
    (`step6_gap_without_guard`).
  * `CfgOrdered c` — `lb ≤ lower_threshold ≤ upper_threshold ≤ ub` (every variable of `isimip3_variable_settings`).
  * parametric branch of step 6: `RangeLaw fam` — an **oracle law** of the distribution family (fit with `floc`
    [and `fscale`] fixed has support `[floc, ∞)` [resp. `[floc, floc + fscale]`], `ppf` maps `(0,1)` into it); true for
    scipy's gamma / weibull_min / beta (trusted base), proved for the rational witness `uniformFam`; the executable test
    double of the correspondence driver (`ratSigmoid`, support ℝ) does **not** have it, so for the driver's family the law
    stays a stated hypothesis.  `ParamOk c`: an upper threshold comes with a lower threshold and `fscale` is passed
    (not for rice / weibull_min, for which the code fixes `floc` only).  Not needed for `nonparametric_qm = True`
    (hurs, prsnratio, rsds, tasskew).
  * event likelihood adjustment: `0 < expit < 1` (oracle law), only if the option is on.
  * `detrending = False` for the window / location statements (all bounded variables; step 7 would add a trend back).
-/
import IbicusModel.Lemmas.C10Isimip
import IbicusModel.Lemmas.C10Lift
import IbicusModel.Lemmas.C10Precip
import IbicusModel.Lemmas.C10Rsds
import IbicusModel.Lemmas.C10Session
import IbicusModel.Lemmas.GenIsimipVars
import IbicusModel.Props.C07

namespace Props.C10
open Model.Isimip Model.Stats Model.IsimipFreq Model.Family Model.Debiasers Model.Precip Lemmas.C10 Lemmas.Stats

/-! ## ISIMIP -/

/-- **step 5, bounded trend transfer is clipped to `[a, b]`** (`_step5_transfer_trend`, method `bounded`) -/
theorem step5_bounded_in_range (c : Cfg) (o : Oracles) (obs H F out : List Rat) (a b : Rat)
    (hm : c.trendMethod = .bounded) (ha : c.lowerBound = .fin a) (hb : c.upperBound = .fin b) (hab : a ≤ b)
    (h : step5TransferTrend c o obs H F = .ok out) : ∀ v ∈ out, a ≤ v ∧ v ≤ b :=
  step5TransferTrend_bounded_range c o obs H F out a b hm ha hb hab h

/-- `step5` as a whole (with or without `trend_transfer_only_for_values_within_threshold`): pseudo-future observations
    stay in `[a, b]` when the observations are -/
theorem step5_in_range (c : Cfg) (o : Oracles) (obs H F out : List Rat) (a b : Rat)
    (hm : c.trendMethod = .bounded) (ha : c.lowerBound = .fin a) (hb : c.upperBound = .fin b) (hab : a ≤ b)
    (hobs : ∀ v ∈ obs, a ≤ v ∧ v ≤ b) (h : step5 c o obs H F = .ok out) : ∀ v ∈ out, a ≤ v ∧ v ≤ b :=
  step5_bounded_range c o obs H F out a b hm ha hb hab hobs h

/-- the clip is needed for out-of-range input only: for quantiles inside `[a, b]` the four formulas of the bounded
    method stay inside `[a, b]` by themselves (so a variant of the code without the final clip behaves identically on
    the property's inputs) -/
theorem step5_bounded_clip_noop_in_range (a b qO qH qF : Rat) (hO : a ≤ qO ∧ qO ≤ b) (hH : a ≤ qH ∧ qH ≤ b)
    (hF : a ≤ qF ∧ qF ≤ b) : boundedTransfer a b qO qH qF = boundedRaw a b qO qH qF ∧
    a ≤ boundedRaw a b qO qH qF ∧ boundedRaw a b qO qH qF ≤ b :=
  ⟨boundedTransfer_clip_noop a b qO qH qF hO hH hF, boundedRaw_range a b qO qH qF hO hH hF⟩

/-- tasskew-like settings with dyadic thresholds (`[0,1]`, thresholds `1/64`, `63/64`), non-parametric step 6 -/
def skewCfg : Cfg :=
  { trendMethod := .bounded, nonparametricQm := true, detrending := false, lowerBound := .fin 0,
    lowerThreshold := .fin (1 / 64), upperBound := .fin 1, upperThreshold := .fin (63 / 64) }

/-- pr-like settings (lower bound 0, threshold `1/8`, no upper bound), parametric step 6 -/
def prCfg : Cfg :=
  { trendMethod := .mixed, nonparametricQm := false, detrending := false, lowerBound := .fin 0,
    lowerThreshold := .fin (1 / 8) }

-- non-vacuity: a bounded transfer that really clips (the unclipped value is 1 − (1 − 1/2)(1 − 0)/(1 − 3/4) = −1)
example : step5TransferTrend skewCfg {} [1 / 2] [3 / 4] [0] = .ok [0] := by decide +kernel
example : skewCfg.trendMethod = .bounded ∧ skewCfg.lowerBound = .fin 0 ∧ skewCfg.upperBound = .fin 1 := by decide

/-- **step 6: every value is a bound or not beyond a threshold** — the core statement; `step6_in_bounds` and
    `step6_no_gap` are its two readings -/
theorem step6_good (c : Cfg) (fam : IsiFamily) (o : Oracles) (obs obsFut H F out : List Rat)
    (hwet : Wet c obs H F obsFut)
    (hfam : c.nonparametricQm = true ∨ (RangeLaw fam ∧ ParamOk c))
    (hexpit : c.eventLikelihoodAdjustment = true → ∀ x, 0 < o.expit x ∧ o.expit x < 1)
    (h : step6 c fam o obs obsFut H F = .ok out) : out.length = F.length ∧ ∀ v ∈ out, Good c v :=
  Lemmas.C10.step6_good c fam o obs obsFut H F out hwet.pseudo hfam hexpit h

/-- **`lb ≤ out_i ≤ ub`** (bounds in `ℚ ∪ {±∞}`; `InBounds c v` is `v ≥ lb ∧ v ≤ ub` with the code's comparisons) -/
theorem step6_in_bounds (c : Cfg) (fam : IsiFamily) (o : Oracles) (obs obsFut H F out : List Rat)
    (hord : CfgOrdered c) (hwet : Wet c obs H F obsFut)
    (hfam : c.nonparametricQm = true ∨ (RangeLaw fam ∧ ParamOk c))
    (hexpit : c.eventLikelihoodAdjustment = true → ∀ x, 0 < o.expit x ∧ o.expit x < 1)
    (h : step6 c fam o obs obsFut H F = .ok out) : ∀ v ∈ out, InBounds c v :=
  fun v hv => ((step6_good c fam o obs obsFut H F out hwet hfam hexpit h).2 v hv).inBounds_noGap hord |>.1

/-- **`¬ (lb < out_i < lower_threshold)` and `¬ (upper_threshold < out_i < ub)`** -/
theorem step6_no_gap (c : Cfg) (fam : IsiFamily) (o : Oracles) (obs obsFut H F out : List Rat)
    (hord : CfgOrdered c) (hwet : Wet c obs H F obsFut)
    (hfam : c.nonparametricQm = true ∨ (RangeLaw fam ∧ ParamOk c))
    (hexpit : c.eventLikelihoodAdjustment = true → ∀ x, 0 < o.expit x ∧ o.expit x < 1)
    (h : step6 c fam o obs obsFut H F = .ok out) : ∀ v ∈ out, NoGap c v :=
  fun v hv => ((step6_good c fam o obs obsFut H F out hwet hfam hexpit h).2 v hv).inBounds_noGap hord |>.2

/-- the same for finite bounds and thresholds, in plain inequalities -/
theorem step6_in_bounds_no_gap_fin (c : Cfg) (fam : IsiFamily) (o : Oracles) (obs obsFut H F out : List Rat)
    (lb lt ut ub : Rat) (h1 : c.lowerBound = .fin lb) (h2 : c.lowerThreshold = .fin lt)
    (h3 : c.upperThreshold = .fin ut) (h4 : c.upperBound = .fin ub) (hlt : lb ≤ lt) (hmid : lt ≤ ut) (hut : ut ≤ ub)
    (hwet : Wet c obs H F obsFut)
    (hfam : c.nonparametricQm = true ∨ (RangeLaw fam ∧ ParamOk c))
    (hexpit : c.eventLikelihoodAdjustment = true → ∀ x, 0 < o.expit x ∧ o.expit x < 1)
    (h : step6 c fam o obs obsFut H F = .ok out) :
    ∀ v ∈ out, lb ≤ v ∧ v ≤ ub ∧ ¬ (lb < v ∧ v < lt) ∧ ¬ (ut < v ∧ v < ub) := by
  have hord : CfgOrdered c := by
    unfold CfgOrdered; rw [h1, h2, h3, h4]; exact ⟨hlt, hmid, hut⟩
  intro v hv
  have hb := step6_in_bounds c fam o obs obsFut H F out hord hwet hfam hexpit h v hv
  have hg := step6_no_gap c fam o obs obsFut H F out hord hwet hfam hexpit h v hv
  unfold InBounds at hb
  unfold NoGap at hg
  rw [h1, h4] at hb
  rw [h1, h2, h3, h4] at hg
  simp only [ExtRat.geOf, ExtRat.leOf, ExtRat.gtOf, ExtRat.ltOf, decide_eq_true_eq, ge_iff_le, gt_iff_lt] at hb hg
  exact ⟨hb.1, hb.2, hg.1, hg.2⟩

-- non-vacuity (non-parametric branch): all guards hold on a concrete instance with dry, saturated and in-range values,
-- and there is a run (`step6_total`; `List.mergeSort` does not reduce in the kernel, so the run is not evaluated here —
-- the correspondence driver evaluates the same definition)
example : ∃ out, step6 skewCfg ratSigmoid {} [0, 1 / 4, 1 / 2, 3 / 4] [0, 1 / 4, 1 / 2, 3 / 4] [1 / 128, 1 / 4, 1 / 2, 1]
      [1 / 128, 1, 1 / 8, 0, 1 / 2, 1 / 4] = .ok out ∧
    Wet skewCfg [0, 1 / 4, 1 / 2, 3 / 4] [1 / 128, 1 / 4, 1 / 2, 1] [1 / 128, 1, 1 / 8, 0, 1 / 2, 1 / 4] [0, 1 / 4, 1 / 2, 3 / 4] ∧
    CfgOrdered skewCfg := by
  obtain ⟨out, h⟩ := step6_total skewCfg ratSigmoid {} [0, 1 / 4, 1 / 2, 3 / 4] [0, 1 / 4, 1 / 2, 3 / 4]
    [1 / 128, 1 / 4, 1 / 2, 1] [1 / 128, 1, 1 / 8, 0, 1 / 2, 1 / 4] (Or.inr ⟨0, rfl⟩) (Or.inr ⟨1, rfl⟩) (by decide +kernel) rfl
  exact ⟨out, h, by decide +kernel, by decide +kernel⟩
#guard (match step6 skewCfg ratSigmoid {} [0, 1 / 4, 1 / 2, 3 / 4] [0, 1 / 4, 1 / 2, 3 / 4] [1 / 128, 1 / 4, 1 / 2, 1]
    [1 / 128, 1, 1 / 8, 0, 1 / 2, 1 / 4] with | .ok r => r == [0, 3 / 4, 1 / 4, 0, 7 / 12, 5 / 12] | .error _ => false)  -- evaluated, not kernel-checked
-- non-vacuity (parametric branch): the range law is satisfiable (`uniformFam`), and with such a family all guards hold
-- on a pr-like instance that has a run
example : RangeLaw uniformFam ∧ ParamOk prCfg := ⟨uniformFam_rangeLaw, by decide +kernel⟩
example : ∃ out, step6 prCfg uniformFam {} [0, 1, 2, 3] [0, 1, 2, 3] [0, 1 / 16, 2, 3] [0, 1 / 16, 1, 2, 4] = .ok out ∧
    Wet prCfg [0, 1, 2, 3] [0, 1 / 16, 2, 3] [0, 1 / 16, 1, 2, 4] [0, 1, 2, 3] ∧ CfgOrdered prCfg := by
  obtain ⟨out, h⟩ := step6_total prCfg uniformFam {} [0, 1, 2, 3] [0, 1, 2, 3] [0, 1 / 16, 2, 3] [0, 1 / 16, 1, 2, 4]
    (Or.inr ⟨0, rfl⟩) (Or.inl (by decide +kernel)) (by decide +kernel) rfl
  exact ⟨out, h, by decide +kernel, by decide +kernel⟩

#guard (match step6Full prCfg uniformFam {} [0, 1, 2, 3] [0, 1, 2, 3] [0, 1 / 16, 2, 3] [0, 1 / 16, 1, 2, 4] with
  | .ok r => r.branch == .parametric && r.result.all (fun v => v == 0 || decide (1 / 8 ≤ v)) && r.result.contains 0
  | .error _ => false)  -- evaluated, not kernel-checked

/-- **Without the guard the statement is false** (the "no pseudo-future observations between thresholds: values left
    unadjusted" path): the value `1/16` stays strictly between the bound `0` and the threshold `1/8`. -/
theorem step6_gap_without_guard :
    step6 prCfg uniformFam {} [1, 2] [0, 0] [1 / 16, 1] [1 / 16, 1] = .ok [1 / 16, 1] ∧ ¬ NoGap prCfg (1 / 16) := by
  have e1 : argsort [1 / 16, (1 : Rat)] = List.range 2 := argsort_of_sorted (by decide +kernel)
  have e2 : rankOf [1 / 16, (1 : Rat)] = List.range 2 := rankOf_of_sorted (by decide +kernel)
  have e3 : sortQ [1, (2 : Rat)] = [1, 2] := sortQ_of_sorted (by decide +kernel)
  have e4 : sortQ [0, (0 : Rat)] = [0, 0] := sortQ_of_sorted (by decide +kernel)
  have e5 : sortQ [1 / 16, (1 : Rat)] = [1 / 16, 1] := sortQ_of_sorted (by decide +kernel)
  refine ⟨?_, by decide +kernel⟩
  unfold step6 step6Full
  simp only [e1, e2, e3, e4, e5]
  decide +kernel

/-- **ISIMIP pr: `out = 0 ∨ out ≥ lower_threshold`** (lower bound 0 with a threshold, no upper bound) -/
theorem isimip_pr_zero_or_ge (c : Cfg) (fam : IsiFamily) (o : Oracles) (obs obsFut H F out : List Rat) (t : Rat)
    (hlb : c.lowerBound = .fin 0) (hlt : c.lowerThreshold = .fin t) (hub : c.upperBound = .posInf)
    (hwet : Wet c obs H F obsFut)
    (hfam : c.nonparametricQm = true ∨ (RangeLaw fam ∧ ParamOk c))
    (hexpit : c.eventLikelihoodAdjustment = true → ∀ x, 0 < o.expit x ∧ o.expit x < 1)
    (h : step6 c fam o obs obsFut H F = .ok out) : ∀ v ∈ out, v = 0 ∨ t ≤ v := by
  intro v hv
  rcases (step6_good c fam o obs obsFut H F out hwet hfam hexpit h).2 v hv with h1 | h1 | h1
  · rw [hlb] at h1; injection h1 with h1; exact Or.inl h1.symm
  · rw [hub] at h1; exact ExtRat.noConfusion h1
  · have := h1.1
    rw [hlt] at this
    exact Or.inr (by simpa [ExtRat.geOf] using this)

example : prCfg.lowerBound = .fin 0 ∧ prCfg.lowerThreshold = .fin (1 / 8) ∧ prCfg.upperBound = .posInf := by decide +kernel

/-- **the whole window** (`_apply_on_window`, steps 3–7, `detrending = False`): inside the bounds, no value in a gap.
    `WetWindow` = the window's pseudo-future observations (`step5 ∘ step4`) contain a value between the thresholds. -/
theorem window_in_bounds_no_gap (c : Cfg) (fam : IsiFamily) (o : Oracles) (d : Draws) (obs H F out : List Rat)
    (yO yH yF : List Int) (hord : CfgOrdered c) (hd : c.detrending = false) (hwet : WetWindow c o d obs H F)
    (hfam : c.nonparametricQm = true ∨ (RangeLaw fam ∧ ParamOk c))
    (hexpit : c.eventLikelihoodAdjustment = true → ∀ x, 0 < o.expit x ∧ o.expit x < 1)
    (h : applyOnWindow c fam o d obs H F yO yH yF = .ok out) : ∀ v ∈ out, InBounds c v ∧ NoGap c v :=
  fun v hv => (applyOnWindow_good c fam o d obs H F out yO yH yF hd hwet hfam hexpit h v hv).inBounds_noGap hord

-- non-vacuity: a complete window (step 4 draws supplied) that sends two values to the lower bound.  Evaluated with the
-- compiled model (`#guard`; not kernel-checked: the window sorts, and `List.mergeSort` does not reduce in the kernel)
#guard decide (WetWindow skewCfg {} { lowF := [1 / 256, 1 / 128] } [1 / 4, 1 / 2, 3 / 4] [1 / 4, 1 / 2, 5 / 8]
    [0, 1 / 8, 1 / 128, 1 / 2])
#guard (match applyOnWindow skewCfg ratSigmoid {} { lowF := [1 / 256, 1 / 128] } [1 / 4, 1 / 2, 3 / 4] [1 / 4, 1 / 2, 5 / 8]
    [0, 1 / 8, 1 / 128, 1 / 2] [] [] [] with | .ok r => r.length == 4 && r.all (fun v => v == 0 || decide (1 / 64 ≤ v ∧ v ≤ 63 / 64)) && r.contains 0 | .error _ => false)

/-- **with running windows** (`ISIMIP.apply_location`, `running_window_mode = True`, no annual-cycle scaling): every
    value written to the result is inside the bounds and in no gap, provided every window is `WetWindow`. -/
theorem location_rw_in_bounds_no_gap (c : Cfg) (fam : IsiFamily) (orc : List Nat → Oracles) (drw : List Nat → Draws)
    (L S : Int) (doyO doyH doyF yearsO yearsH yearsF : List Int) (obs H F : List Rat) (out : List (Option Rat))
    (hord : CfgOrdered c) (hd : c.detrending = false) (hs : c.scaleByAnnualCycle = false)
    (hwet : ∀ ctr ∈ Model.Windows.useCenters S doyF,
      WetWindow c (orc (Model.Windows.idxWindow L doyF ctr)) (drw (Model.Windows.idxWindow L doyF ctr))
        (Model.Skeleton.take obs (Model.Windows.idxWindow L doyO ctr)) (Model.Skeleton.take H (Model.Windows.idxWindow L doyH ctr))
        (Model.Skeleton.take F (Model.Windows.idxWindow L doyF ctr)))
    (hfam : c.nonparametricQm = true ∨ (RangeLaw fam ∧ ParamOk c))
    (hexpit : c.eventLikelihoodAdjustment = true → ∀ idx x, 0 < (orc idx).expit x ∧ (orc idx).expit x < 1)
    (h : applyLocationRW c fam orc drw L S doyO doyH doyF yearsO yearsH yearsF obs H F = .ok out) :
    ∀ v, some v ∈ out → InBounds c v ∧ NoGap c v := by
  unfold applyLocationRW step1 step8Buffer at h
  simp only [hs, Bool.false_eq_true, if_false, bind, Except.bind, pure, Except.pure] at h
  split at h
  · exact absurd h (by simp)
  · rename_i buf hbuf
    injection h with h
    subst h
    refine Lemmas.C10.applyLocationRW_forall (fun v => InBounds c v ∧ NoGap c v) _ L S doyO doyH doyF obs H F _ ?_ hbuf
    intro ctr hctr r hr v hv
    exact (applyOnWindow_good c fam _ _ _ _ _ r _ _ _ hd (hwet ctr hctr) hfam (fun he => hexpit he _) hr v hv).inBounds_noGap hord

/-- **without running windows** (month mode) -/
theorem location_months_in_bounds_no_gap (c : Cfg) (fam : IsiFamily) (orc : List Nat → Oracles) (drw : List Nat → Draws)
    (mO mH mF doyO doyH doyF yearsO yearsH yearsF : List Int) (obs H F : List Rat) (out : List (Option Rat))
    (hord : CfgOrdered c) (hd : c.detrending = false) (hs : c.scaleByAnnualCycle = false)
    (hwet : ∀ m ∈ Py.arange1 1 13,
      WetWindow c (orc (Py.whereTrue (mF.map (fun x => decide (x = m))))) (drw (Py.whereTrue (mF.map (fun x => decide (x = m)))))
        (Model.Skeleton.take obs (Py.whereTrue (mO.map (fun x => decide (x = m)))))
        (Model.Skeleton.take H (Py.whereTrue (mH.map (fun x => decide (x = m)))))
        (Model.Skeleton.take F (Py.whereTrue (mF.map (fun x => decide (x = m))))))
    (hfam : c.nonparametricQm = true ∨ (RangeLaw fam ∧ ParamOk c))
    (hexpit : c.eventLikelihoodAdjustment = true → ∀ idx x, 0 < (orc idx).expit x ∧ (orc idx).expit x < 1)
    (h : applyLocationMonths c fam orc drw mO mH mF doyO doyH doyF yearsO yearsH yearsF obs H F = .ok out) :
    ∀ v, some v ∈ out → InBounds c v ∧ NoGap c v := by
  unfold applyLocationMonths step1 step8Buffer at h
  simp only [hs, Bool.false_eq_true, if_false, bind, Except.bind, pure, Except.pure] at h
  split at h
  · exact absurd h (by simp)
  · rename_i buf hbuf
    injection h with h
    subst h
    refine Lemmas.C10.applyLocationMonths_forall (fun v => InBounds c v ∧ NoGap c v) _ mO mH mF obs H F _ ?_ hbuf
    intro m hm r hr v hv
    exact (applyOnWindow_good c fam _ _ _ _ _ r _ _ _ hd (hwet m hm) hfam (fun he => hexpit he _) hr v hv).inBounds_noGap hord

/-- **rsds, step 8**: values of `[0,1]` times a non-negative annual cycle are non-negative -/
theorem rsds_step8_nonneg (c : Cfg) (F cyc out : List Rat) (doyF : List Int) (hF : ∀ v ∈ F, 0 ≤ v)
    (hc : ∀ s ∈ cyc, 0 ≤ s) (h : step8 c F (some cyc) doyF = .ok out) : ∀ e ∈ out, 0 ≤ e :=
  step8_nonneg c F cyc out doyF hF hc h

/-- the debiased annual cycle of step 1 **is** non-negative for non-negative data (running mean of running maxima of
    daily maxima, times a factor clipped to `[0.1, 10]`, or a ratio of such cycles) -/
theorem rsds_cycle_nonneg (c : Cfg) (obs H F o1 h1 f1 cyc : List Rat) (dO dH dF : List Int)
    (hO : ∀ v ∈ obs, 0 ≤ v) (hH : ∀ v ∈ H, 0 ≤ v) (hF : ∀ v ∈ F, 0 ≤ v)
    (h : step1 c obs H F dO dH dF = .ok (o1, h1, f1, some cyc)) : ∀ s ∈ cyc, 0 ≤ s :=
  step1_cycle_nonneg c obs H F o1 h1 f1 cyc dO dH dF hO hH hF h

/-- **rsds, `apply_location` with `scale_by_annual_cycle_of_upper_bounds`**: non-negative output for non-negative
    input (lower bound 0), every window (of the scaled series step 1 produces) `WetWindow` -/
theorem rsds_location_nonneg (c : Cfg) (fam : IsiFamily) (orc : List Nat → Oracles) (drw : List Nat → Draws)
    (L S : Int) (doyO doyH doyF yearsO yearsH yearsF : List Int) (obs H F : List Rat) (out : List (Option Rat))
    (hord : CfgOrdered c) (hlb : c.lowerBound = .fin 0) (hd : c.detrending = false)
    (hO : ∀ v ∈ obs, 0 ≤ v) (hH : ∀ v ∈ H, 0 ≤ v) (hF : ∀ v ∈ F, 0 ≤ v)
    (hwet : ∀ o1 h1 f1 cyc, step1 c obs H F doyO doyH doyF = .ok (o1, h1, f1, cyc) →
      ∀ ctr ∈ Model.Windows.useCenters S doyF,
      WetWindow c (orc (Model.Windows.idxWindow L doyF ctr)) (drw (Model.Windows.idxWindow L doyF ctr))
        (Model.Skeleton.take o1 (Model.Windows.idxWindow L doyO ctr)) (Model.Skeleton.take h1 (Model.Windows.idxWindow L doyH ctr))
        (Model.Skeleton.take f1 (Model.Windows.idxWindow L doyF ctr)))
    (hfam : c.nonparametricQm = true ∨ (RangeLaw fam ∧ ParamOk c))
    (hexpit : c.eventLikelihoodAdjustment = true → ∀ idx x, 0 < (orc idx).expit x ∧ (orc idx).expit x < 1)
    (h : applyLocationRW c fam orc drw L S doyO doyH doyF yearsO yearsH yearsF obs H F = .ok out) :
    ∀ v, some v ∈ out → 0 ≤ v := by
  unfold applyLocationRW at h
  simp only [bind, Except.bind] at h
  cases h1 : step1 c obs H F doyO doyH doyF with
  | error e => rw [h1] at h; exact absurd h (by simp)
  | ok r1 =>
    obtain ⟨o1, hh1, f1, cyc⟩ := r1
    rw [h1] at h
    dsimp only at h
    split at h
    · exact absurd h (by simp)
    · rename_i buf hbuf
      have hbufnn : ∀ v, some v ∈ buf → 0 ≤ v := by
        refine Lemmas.C10.applyLocationRW_forall (fun v => 0 ≤ v) _ L S doyO doyH doyF o1 hh1 f1 _ ?_ hbuf
        intro ctr hctr r hr v hv
        have hg := (applyOnWindow_good c fam _ _ _ _ _ r _ _ _ hd (hwet o1 hh1 f1 cyc h1 ctr hctr) hfam
          (fun he => hexpit he _) hr v hv).inBounds_noGap hord
        have := hg.1.1
        rw [hlb] at this
        simpa [ExtRat.geOf] using this
      cases cyc with
      | none =>
        unfold step8Buffer at h
        split at h
        · exact absurd h (by simp)
        · injection h with h; subst h; exact hbufnn
      | some cy =>
        exact step8Buffer_nonneg c buf out cy doyF hbufnn
          (step1_cycle_nonneg c obs H F o1 hh1 f1 cy doyO doyH doyF hO hH hF h1) h

/-- … the same in month mode (`running_window_mode = False`) -/
theorem rsds_location_months_nonneg (c : Cfg) (fam : IsiFamily) (orc : List Nat → Oracles) (drw : List Nat → Draws)
    (mO mH mF doyO doyH doyF yearsO yearsH yearsF : List Int) (obs H F : List Rat) (out : List (Option Rat))
    (hord : CfgOrdered c) (hlb : c.lowerBound = .fin 0) (hd : c.detrending = false)
    (hO : ∀ v ∈ obs, 0 ≤ v) (hH : ∀ v ∈ H, 0 ≤ v) (hF : ∀ v ∈ F, 0 ≤ v)
    (hwet : ∀ o1 h1 f1 cyc, step1 c obs H F doyO doyH doyF = .ok (o1, h1, f1, cyc) →
      ∀ m ∈ Py.arange1 1 13,
      WetWindow c (orc (Py.whereTrue (mF.map (fun x => decide (x = m))))) (drw (Py.whereTrue (mF.map (fun x => decide (x = m)))))
        (Model.Skeleton.take o1 (Py.whereTrue (mO.map (fun x => decide (x = m)))))
        (Model.Skeleton.take h1 (Py.whereTrue (mH.map (fun x => decide (x = m)))))
        (Model.Skeleton.take f1 (Py.whereTrue (mF.map (fun x => decide (x = m))))))
    (hfam : c.nonparametricQm = true ∨ (RangeLaw fam ∧ ParamOk c))
    (hexpit : c.eventLikelihoodAdjustment = true → ∀ idx x, 0 < (orc idx).expit x ∧ (orc idx).expit x < 1)
    (h : applyLocationMonths c fam orc drw mO mH mF doyO doyH doyF yearsO yearsH yearsF obs H F = .ok out) :
    ∀ v, some v ∈ out → 0 ≤ v := by
  unfold applyLocationMonths at h
  simp only [bind, Except.bind] at h
  cases h1 : step1 c obs H F doyO doyH doyF with
  | error e => rw [h1] at h; exact absurd h (by simp)
  | ok r1 =>
    obtain ⟨o1, hh1, f1, cyc⟩ := r1
    rw [h1] at h
    dsimp only at h
    split at h
    · exact absurd h (by simp)
    · rename_i buf hbuf
      have hbufnn : ∀ v, some v ∈ buf → 0 ≤ v := by
        refine Lemmas.C10.applyLocationMonths_forall (fun v => 0 ≤ v) _ mO mH mF o1 hh1 f1 _ ?_ hbuf
        intro ctr hctr r hr v hv
        have hg := (applyOnWindow_good c fam _ _ _ _ _ r _ _ _ hd (hwet o1 hh1 f1 cyc h1 ctr hctr) hfam
          (fun he => hexpit he _) hr v hv).inBounds_noGap hord
        have := hg.1.1
        rw [hlb] at this
        simpa [ExtRat.geOf] using this
      cases cyc with
      | none =>
        unfold step8Buffer at h
        split at h
        · exact absurd h (by simp)
        · injection h with h; subst h; exact hbufnn
      | some cy =>
        exact step8Buffer_nonneg c buf out cy doyF hbufnn
          (step1_cycle_nonneg c obs H F o1 hh1 f1 cy doyO doyH doyF hO hH hF h1) h

/-! ## Precipitation: non-negative, defined, exact zeros -/

/-- **LinearScaling, multiplicative** (`pr`): `x · mean(obs)/mean(H)`; the divisor is positive (never NaN) under
    `lsGuard` (non-empty samples, `mean H ≠ 0`) for non-negative data -/
theorem ls_mult_nonneg (obs H F : List Rat) (ho : ∀ x ∈ obs, 0 ≤ x) (hh : ∀ x ∈ H, 0 ≤ x) (hf : ∀ x ∈ F, 0 ≤ x)
    (hg : lsGuard .multiplicative obs H) : 0 < mean H ∧ ∀ v ∈ linearScaling .multiplicative obs H F, 0 ≤ v :=
  linearScaling_mult_nonneg obs H F ho hh hf hg

example : lsGuard .multiplicative [0, 2, 4] [0, 0, 3] ∧
    linearScaling .multiplicative [0, 2, 4] [0, 0, 3] [0, 5, 1 / 2] = [0, 10, 1] := by decide +kernel

/-- **DeltaChange, multiplicative** (`pr`): `obs · mean(F)/mean(H)` -/
theorem dc_mult_nonneg (obs H F : List Rat) (ho : ∀ x ∈ obs, 0 ≤ x) (hh : ∀ x ∈ H, 0 ≤ x) (hf : ∀ x ∈ F, 0 ≤ x)
    (hg : dcGuard .multiplicative H F) : 0 < mean H ∧ ∀ v ∈ deltaChange .multiplicative obs H F, 0 ≤ v :=
  deltaChange_mult_nonneg obs H F ho hh hf hg

example : dcGuard .multiplicative [0, 0, 3] [0, 5, 1] ∧
    deltaChange .multiplicative [0, 2, 4] [0, 0, 3] [0, 5, 1] = [0, 4, 8] := by decide +kernel

/-- **running windows keep the sign**: whatever the per-window function, a property of all its values is a property of
    all values `apply_location` writes (used for every `RunningWindowDebiaser`; DeltaChange: `applyLocationDC_forall`) -/
theorem rw_location_lift {α} (P : α → Prop) (f : Model.Skeleton.WinFn α) (L S : Int) (dO dH dF : List Int)
    (obs hist fut : List α) (out : List (Option α))
    (hf : ∀ c ∈ Model.Windows.useCenters S dF, ∀ r,
      f (Model.Skeleton.take obs (Model.Windows.idxWindow L dO c)) (Model.Skeleton.take hist (Model.Windows.idxWindow L dH c))
        (Model.Skeleton.take fut (Model.Windows.idxWindow L dF c)) (Model.Windows.idxWindow L dO c)
        (Model.Windows.idxWindow L dH c) (Model.Windows.idxWindow L dF c) = .ok r → ∀ v ∈ r, P v)
    (h : Model.Skeleton.applyLocationRW f L S dO dH dF obs hist fut = .ok out) : ∀ v, some v ∈ out → P v :=
  applyLocationRW_forall P f L S dO dH dF obs hist fut out hf h

/-- **QuantileMapping, hurdle model** (`for_precipitation(model_type="hurdle")`, detrending `multiplicative` — the
    default — or `no_detrending`): `ppf` of the hurdle model is `0` or the `ppf` of a non-negative amounts distribution;
    the result is that times `mean F / mean H ≥ 0`.  `AmountsNonneg`: the fitted amounts distribution has support in
    `[0, ∞)` (gamma with `floc = 0`: oracle law; witness `ratFam 0 s`). -/
theorem qm_hurdle_nonneg (fitA : List Rat → Amounts) (cdfH : Rat × Amounts → Rat → Rat) (t : Rat) (h0 : 0 < t)
    (h1 : t ≤ 1 / 2) (d : Detrending) (hd : d = .multiplicative ∨ d = .no_detrending) (obs H F : List Rat)
    (hA : AmountsNonneg (fitA (rainyDays obs))) (hh : ∀ x ∈ H, 0 ≤ x) (hf : ∀ x ∈ F, 0 ≤ x) :
    ∀ v ∈ qmParam (hurdleFamily fitA cdfH) t d obs H F, 0 ≤ v := by
  apply quantileMapping_nonneg _ d obs H F hd _ hh hf
  intro x
  apply standardQMParam_nonneg _ t h0 h1
  intro q _ hq1
  exact hurdlePpf_nonneg _ hA _ q hq1

/-- … and its divisors (`mean H`, `mean F / mean H`) are positive under `qmGuard` -/
theorem qm_mult_defined (obs H F : List Rat) (hh : ∀ x ∈ H, 0 ≤ x) (hf : ∀ x ∈ F, 0 ≤ x)
    (hg : qmGuard .multiplicative obs H F) : 0 < mean H ∧ 0 < mean F / mean H :=
  qmGuard_pos obs H F hh hf hg

/-- **QuantileMapping, left-censored gamma** (`model_type="censored"`): `ppf` is the gamma `ppf` or `0` -/
theorem qm_censored_nonneg (thr : Rat) (censor : Bool) (fitA : List Rat × Nat → Amounts) (cdfC : Amounts → Rat → Rat)
    (t : Rat) (h0 : 0 < t) (h1 : t ≤ 1 / 2) (d : Detrending) (hd : d = .multiplicative ∨ d = .no_detrending)
    (obs H F : List Rat) (hA : AmountsNonneg (fitA (censFitArgs thr obs))) (hh : ∀ x ∈ H, 0 ≤ x) (hf : ∀ x ∈ F, 0 ≤ x) :
    ∀ v ∈ qmParam (censoredFamily thr censor fitA cdfC) t d obs H F, 0 ≤ v := by
  apply quantileMapping_nonneg _ d obs H F hd _ hh hf
  intro x
  apply standardQMParam_nonneg _ t h0 h1
  intro q hq0 hq1
  exact censPpf_nonneg _ hA thr censor q hq0 hq1

/-- the censored model's `ppf` (with `censor_in_ppf = True`) returns exact zeros, never sub-threshold drizzle -/
theorem censored_ppf_zero_or_ge (A : Amounts) (thr q : Rat) : censPpf A thr true q = 0 ∨ thr ≤ censPpf A thr true q :=
  censPpf_zero_or_ge A thr q

-- non-vacuity: the rational amounts family has support [0, ∞); a hurdle mapping with a dry and two wet values
example : AmountsNonneg (ratFam 0 2) := ratFam_amountsNonneg 2 (by norm_num)
example : qmParam (hurdleFamily (fun r => ratFam 0 (mean r)) (fun p x => hurdleCdf p.2 p.1 false 0 x)) (1 / 64) .multiplicative
    [0, 1, 3] [0, 2, 2] [0, 4, 4] = [0, 4, 4] := by decide +kernel

/-- **ScaledDistributionMapping, relative** (`pr`): zeros for the dry part, `ppf_obs(·) · scaling` with `scaling > 0`
    for the rainy part.  The `ValueError` of the code ("no values bigger than `pr_lower_threshold`") is the `Wet` guard:
    the theorem speaks about runs that return.  `PosOnRainy`: fits of rainy samples have a positive `ppf` on `(0,1)`
    (gamma with `floc = 0`: oracle law; proved for the rational family `ratOdds`). -/
theorem sdm_relative_nonneg {P} (Fam : Family P) (thr t : Rat) (h0 : 0 < t) (h1 : t ≤ 1 / 2) (hpos : PosOnRainy Fam thr)
    (obs H F out : List Rat) (h : sdmRelative Fam thr t obs H F = .ok out) : ∀ v ∈ out, v = 0 ∨ 0 < v :=
  sdmRelative_zero_or_pos Fam thr t h0 h1 hpos obs H F out h

/-- … and never divides by zero (`sdmRelDivGuard`) as soon as `cm_hist` has a rainy value -/
theorem sdm_relative_defined {P} (Fam : Family P) (thr t : Rat) (h0 : 0 < t) (h1 : t ≤ 1 / 2) (hpos : PosOnRainy Fam thr)
    (H F : List Rat) (hH : rainy thr (sortQ H) ≠ []) : sdmRelDivGuard Fam thr t H F :=
  sdmRelDivGuard_of_pos Fam thr t h0 h1 hpos H F hH

example : PosOnRainy ratOdds.toFamily (1 / 8) := ratOdds_posOnRainy (1 / 8) (by norm_num)
-- … and a run that returns (sorted inputs: `List.mergeSort` does not reduce in the kernel)
example : (sdmRelative ratOdds.toFamily (1 / 8) (1 / 64) [0, 0, 1, 2] [0, 0, 0, 2] [0, 1 / 16, 1, 3]).isOk = true := by
  have e1 : sortQ [0, 0, 1, (2 : Rat)] = [0, 0, 1, 2] := sortQ_of_sorted (by decide +kernel)
  have e2 : sortQ [0, 0, 0, (2 : Rat)] = [0, 0, 0, 2] := sortQ_of_sorted (by decide +kernel)
  have e3 : argsort [0, 1 / 16, 1, (3 : Rat)] = List.range 4 := argsort_of_sorted (by decide +kernel)
  unfold sdmRelative
  simp only [e1, e2, e3]
  decide +kernel

/-- **CDFt with SSR: `out = 0 ∨ out ≥ threshold`**, `threshold = ssrThreshold obs H F` = the smallest positive input
    value (`cdft_ssr_threshold_is_min_positive`).  Holds for every delta shift, every `ecdf` / `iecdf` pair and every
    draw list: intermediate values made negative by the additive shift are below the threshold and are zeroed. -/
theorem cdft_ssr_zero_or_ge (E Q : List Rat → Rat → Rat) (d : DeltaShift) (obs H F u : List Rat) :
    ∀ v ∈ cdftStepsG true E Q d obs H F u, v = 0 ∨ ssrThreshold obs H F ≤ v :=
  cdftSteps_ssr_zero_or_ge E Q d obs H F u

theorem cdft_ssr_threshold_is_min_positive (obs H F : List Rat) (hne : positives obs H F ≠ []) :
    0 < ssrThreshold obs H F ∧ ssrThreshold obs H F ∈ positives obs H F ∧
    ∀ v ∈ positives obs H F, ssrThreshold obs H F ≤ v := by
  obtain ⟨h1, h2⟩ := ssrThreshold_spec obs H F hne
  exact ⟨(mem_positives.mp h1).2, h1, h2⟩

/-- never negative -/
theorem cdft_ssr_nonneg (E Q : List Rat → Rat → Rat) (d : DeltaShift) (obs H F u : List Rat) :
    ∀ v ∈ cdftStepsG true E Q d obs H F u, 0 ≤ v := by
  intro v hv
  rcases cdft_ssr_zero_or_ge E Q d obs H F u v hv with h | h
  · rw [h]
  · exact le_trans (ssrThreshold_nonneg obs H F) h

/-- **with year windows of `cm_future`** (the default of CDFt): every window draws afresh and has its own threshold,
    which is at least the threshold of the whole series — `out = 0 ∨ out ≥` the smallest positive input value -/
theorem cdft_ssr_years_zero_or_ge (d : DeltaShift) (em : EcdfMethod) (im : IecdfMethod) (L S : Int) (years : List Int)
    (obs H F : List Rat) (draws : Int → List Rat) (out : List (Option Rat))
    (hpos : ∃ x, (x ∈ obs ∨ x ∈ H) ∧ 0 < x)
    (h : cdftWindowYearsSSR d em im L S years obs H F draws = .ok out) :
    ∀ v, some v ∈ out → v = 0 ∨ ssrThreshold obs H F ≤ v := by
  unfold cdftWindowYearsSSR at h
  split at h
  · exact absurd h (by simp)
  · unfold applyYearsC at h
    refine yearLoop_forall (fun v => v = 0 ∨ ssrThreshold obs H F ≤ v) _ L S years F out ?_ h
    intro c _ r hr v hv
    simp only [cdftYearFnSSR] at hr
    injection hr with hr
    subst hr
    rcases cdft_ssr_zero_or_ge _ _ d obs H _ _ v hv with h0 | h0
    · exact Or.inl h0
    · exact Or.inr (le_trans (ssrThreshold_window obs H F _ (fun w hw => selectWhere_mem _ _ hw) hpos) h0)

-- illustration (the theorems above have no hypotheses): the threshold of a sample is its smallest positive value, and
-- intermediate values made negative by an additive shift come out as exact zeros
example : ssrThreshold [0, 1 / 2, 1] [2, 3, 1] [0, 4, 2] = 1 / 2 ∧ ssrAfter (1 / 2) [-1 / 4, 1, 1 / 2, 1 / 4] = [0, 1, 1 / 2, 0] := by
  decide +kernel

/-- **QuantileDeltaMapping with `censor_values_to_zero`: `out = 0 ∨ out ≥ censoring_threshold`** -/
theorem qdm_zero_or_ge {P} (Fam : Family P) (tp : TrendPres) (E : List Rat → Rat → Rat) (t thr : Rat) (F : List Rat)
    (fo fh : P) : ∀ v ∈ qdmStepsG Fam tp E t (some thr) F fo fh, v = 0 ∨ thr ≤ v :=
  qdmSteps_zero_or_ge Fam tp E t thr F fo fh

/-- … also through the year windows of `cm_future` -/
theorem qdm_years_zero_or_ge {P} (Fam : Family P) (tp : TrendPres) (em : EcdfMethod) (t thr : Rat) (L S : Int)
    (years : List Int) (obs H F : List Rat) (out : List (Option Rat))
    (h : qdmWindowYears Fam tp em t (some thr) L S years obs H F = .ok out) :
    ∀ v, some v ∈ out → v = 0 ∨ thr ≤ v := by
  unfold qdmWindowYears at h
  split at h
  · exact absurd h (by simp)
  · refine applyYears_forall (fun v => v = 0 ∨ thr ≤ v) _ L S years F out ?_ h
    intro c _ r hr v hv
    simp only [qdmYearFn] at hr
    injection hr with hr
    subst hr
    exact qdmSteps_zero_or_ge Fam tp _ t thr _ _ _ v hv

/-- **relative QDM is non-negative and defined**: for non-negative `cm_future` and fits whose `ppf` is positive on
    `(0,1)` (censored gamma: `scipy.stats.gamma.ppf`), every divisor is non-zero (`qdmRelGuard`) and every value is
    non-negative, with or without censoring -/
theorem qdm_relative_nonneg {P} (Fam : Family P) (E : List Rat → Rat → Rat) (t : Rat) (h0 : 0 < t) (h1 : t ≤ 1 / 2)
    (c : Option Rat) (F : List Rat) (hF : ∀ x ∈ F, 0 ≤ x) (fo fh : P)
    (hpo : ∀ q : Rat, 0 < q → q < 1 → 0 < Fam.ppf fo q) (hph : ∀ q : Rat, 0 < q → q < 1 → 0 < Fam.ppf fh q) :
    qdmRelGuard Fam E t F fh ∧ ∀ v ∈ qdmStepsG Fam .relative E t c F fo fh, 0 ≤ v :=
  ⟨qdmRelGuard_of_pos Fam E t h0 h1 F fh hph, qdmSteps_relative_nonneg Fam E t h0 h1 c F hF fo fh hpo hph⟩

-- non-vacuity: relative QDM with the rational scale family, censoring threshold 1: sub-threshold values become 0
example : qdmSteps ratOdds.toFamily .relative .step (1 / 8) (some 1) [0, 1 / 2, 4, 2] 1 2 = [0, 0, 2, 1] := by
  decide +kernel

/-! ## Round 4: the statements the oracle checks end to end -/

section Round4
open Model.IsimipVars Model.IsimipSession

/-- `step6_good` under the guard step 6 really needs: one pseudo-future observation strictly between the thresholds
    (`Wet` asks for two in every sample; this is the sharp form) -/
theorem step6_good_of_pseudo (c : Cfg) (fam : IsiFamily) (o : Oracles) (obs obsFut H F out : List Rat)
    (hp : 0 < (valuesBetween c obsFut).length)
    (hfam : c.nonparametricQm = true ∨ (RangeLaw fam ∧ ParamOk c))
    (hexpit : c.eventLikelihoodAdjustment = true → ∀ x, 0 < o.expit x ∧ o.expit x < 1)
    (hord : CfgOrdered c)
    (h : step6 c fam o obs obsFut H F = .ok out) : out.length = F.length ∧ ∀ v ∈ out, InBounds c v ∧ NoGap c v :=
  ⟨(Lemmas.C10.step6_good c fam o obs obsFut H F out hp hfam hexpit h).1,
   fun v hv => ((Lemmas.C10.step6_good c fam o obs obsFut H F out hp hfam hexpit h).2 v hv).inBounds_noGap hord⟩

/-- **Every bounded variable of `isimip3_variable_settings`** (the table is tied to the code by tier A:
    `Lemmas.GenIsimipVars.bounded_variables_eq` / `_complete`) satisfies every configuration guard of the C10
    theorems: ordered bounds and thresholds, no detrending, non-parametric step 6 or a parametric one whose fixed fit
    arguments cover every finite threshold, finite-or-absent thresholds, a finite bound wherever one can be written, no
    event likelihood adjustment. -/
theorem bounded_variables_wellformed : ∀ r ∈ boundedVariables,
    CfgOrdered r.2 ∧ r.2.detrending = false ∧ (r.2.nonparametricQm = true ∨ ParamOk r.2) ∧ ThrFinite r.2 ∧
    r.2.eventLikelihoodAdjustment = false ∧
    (r.2.hasLowerThreshold = false ∨ ∃ q, r.2.lowerBound = .fin q) ∧ (r.2.hasUpperThreshold = false ∨ ∃ q, r.2.upperBound = .fin q) := by
  intro r hr
  have key : ∀ r ∈ boundedVariables, CfgOrdered r.2 ∧ r.2.detrending = false ∧ (r.2.nonparametricQm = true ∨ ParamOk r.2) ∧
      ThrFinite r.2 ∧ r.2.eventLikelihoodAdjustment = false ∧
      (r.2.hasLowerThreshold = false ∨ (match r.2.lowerBound with | .fin _ => true | _ => false) = true) ∧
      (r.2.hasUpperThreshold = false ∨ (match r.2.upperBound with | .fin _ => true | _ => false) = true) := by
    decide +kernel
  obtain ⟨h1, h2, h3, h4, h5, h6, h7⟩ := key r hr
  refine ⟨h1, h2, h3, h4, h5, ?_, ?_⟩
  · rcases h6 with h | h
    · exact Or.inl h
    · right; cases hb : r.2.lowerBound <;> rw [hb] at h <;> first | exact ⟨_, rfl⟩ | exact absurd h (by simp)
  · rcases h7 with h | h
    · exact Or.inl h
    · right; cases hb : r.2.upperBound <;> rw [hb] at h <;> first | exact ⟨_, rfl⟩ | exact absurd h (by simp)

/-- **the no-gap statement for every bounded variable**, per window: with the settings `from_variable` gives hurs, pr,
    prsnratio, rsds, sfcwind, tasrange, tasskew, every value `_apply_on_window` returns lies in `[lb, ub]` and not strictly
    between a bound and its threshold.  Only data guards remain: `WetWindow`, and the family's range law for the three
    variables whose step 6 is parametric (pr, sfcwind, tasrange).  (rsds: the statement is about the scaled variable;
    `rsds_location_nonneg` is the statement about the output.) -/
theorem bounded_variable_window_in_bounds_no_gap (name : String) (c : Cfg) (hv : (name, c) ∈ boundedVariables)
    (fam : IsiFamily) (hlaw : c.nonparametricQm = false → RangeLaw fam) (o : Oracles) (d : Draws)
    (obs H F out : List Rat) (yO yH yF : List Int) (hwet : WetWindow c o d obs H F)
    (h : applyOnWindow c fam o d obs H F yO yH yF = .ok out) : ∀ v ∈ out, InBounds c v ∧ NoGap c v := by
  obtain ⟨h1, h2, h3, -, h5, -, -⟩ := bounded_variables_wellformed (name, c) hv
  refine window_in_bounds_no_gap c fam o d obs H F out yO yH yF h1 h2 hwet ?_ (fun he => ?_) h
  · rcases h3 with h3 | h3
    · exact Or.inl h3
    · by_cases hn : c.nonparametricQm = true
      · exact Or.inl hn
      · exact Or.inr ⟨hlaw (by simpa using hn), h3⟩
  · rw [h5] at he; exact absurd he (by simp)

/-- … and step 6 returns for each of them on every input (non-vacuity of the guarded statements for all seven) -/
theorem bounded_variable_step6_total (name : String) (c : Cfg) (hv : (name, c) ∈ boundedVariables) (fam : IsiFamily)
    (o : Oracles) (obs obsFut H F : List Rat) : ∃ out, step6 c fam o obs obsFut H F = .ok out := by
  obtain ⟨-, -, -, h4, h5, h6, h7⟩ := bounded_variables_wellformed (name, c) hv
  exact step6_total c fam o obs obsFut H F h6 h7 h4 h5

example : boundedVariables.map (·.1) = ["hurs", "pr", "prsnratio", "rsds", "sfcwind", "tasrange", "tasskew"] := by decide +kernel

/-- **instance reuse (apply – assign – apply): every apply is judged by the settings current at that apply.**
    For every sequence of attribute re-assignments and applies on one object, each recorded apply is the window pipeline
    at the settings recorded with it (`run_result`), those settings are the construction settings with all earlier
    re-assignments applied in order (`session_settings`), and its output obeys the bounds / no-gap statement *of those
    settings*.  The specification has no cache; the tie to the code is the correspondence on real apply – assign – apply
    sequences (`assigncfg` + `window` at the object's current attributes). -/
theorem session_each_apply_judged_by_current_settings (c0 : Cfg) (f0 : IsiFamily) (ops : List Op) (a : Applied)
    (ha : a ∈ run c0 f0 ops) (out : List Rat) (hres : a.result = .ok out)
    (hord : CfgOrdered a.cfg) (hd : a.cfg.detrending = false)
    (hwet : WetWindow a.cfg a.call.o a.call.d a.call.obs a.call.H a.call.F)
    (hfam : a.cfg.nonparametricQm = true ∨ (RangeLaw a.fam ∧ ParamOk a.cfg))
    (hexpit : a.cfg.eventLikelihoodAdjustment = true → ∀ x, 0 < a.call.o.expit x ∧ a.call.o.expit x < 1) :
    ∀ v ∈ out, InBounds a.cfg v ∧ NoGap a.cfg v := by
  rw [run_result ops c0 f0 a ha] at hres
  exact window_in_bounds_no_gap a.cfg a.fam a.call.o a.call.d a.call.obs a.call.H a.call.F out _ _ _ hord hd hwet hfam hexpit hres

theorem session_settings (c : Cfg) (f : IsiFamily) (as : List Assign) (x : Call) :
    (run c f (as.map Op.assign ++ [Op.apply x])).map (·.cfg) = [cfgAfter c as] :=
  run_assigns_then_apply c f as x

-- a re-assignment changes the verdict: 1/4 is a legal pr value for the threshold 1/8 and lies in the gap for 1/2, so
-- judging the second apply by the first apply's settings (a stale cache) is a different, wrong statement
example : NoGap prCfg (1 / 4) ∧ ¬ NoGap (({ lowerThreshold := some (.fin (1 / 2)) } : Assign).on prCfg) (1 / 4) := by
  decide +kernel
example : cfgAfter prCfg [{ lowerThreshold := some (.fin (1 / 2)) }, { nonparametricQm := some true }] =
    { prCfg with lowerThreshold := .fin (1 / 2), nonparametricQm := true } := by decide +kernel

/-- `out = 0 ∨ out ≥ lower_threshold` is the bounds + no-gap statement for a lower bound 0 -/
theorem zero_or_ge_of_valid (c : Cfg) (t v : Rat) (hlb : c.lowerBound = .fin 0) (hlt : c.lowerThreshold = .fin t)
    (hb : InBounds c v) (hg : NoGap c v) : v = 0 ∨ t ≤ v := by
  have h0 := hb.1
  have hgap := hg.1
  rw [hlb] at h0 hgap
  rw [hlt] at hgap
  simp only [ExtRat.geOf, ExtRat.gtOf, ExtRat.ltOf, decide_eq_true_eq, ge_iff_le, gt_iff_lt, not_and, not_lt] at h0 hgap
  rcases eq_or_lt_of_le h0 with h | h
  · exact Or.inl h.symm
  · exact Or.inr (hgap h)

/-- **never NaN, every day** (running windows): every time step of the result is assigned — also day 366 — and the
    assigned value is inside the bounds and in no gap.  (`none` models a never-written entry: NaN under the hook.) -/
theorem location_rw_every_day_valid (c : Cfg) (fam : IsiFamily) (orc : List Nat → Oracles) (drw : List Nat → Draws)
    (L S hS : Int) (doyO doyH doyF yearsO yearsH yearsF : List Int) (obs H F : List Rat) (out : List (Option Rat))
    (hord : CfgOrdered c) (hd : c.detrending = false) (hs : c.scaleByAnnualCycle = false)
    (hodd : S = 2 * hS + 1) (hh : 0 ≤ hS) (hlen : doyF.length = F.length) (hr : ∀ d ∈ doyF, 0 ≤ d ∧ d ≤ 366)
    (hwet : ∀ ctr ∈ Model.Windows.useCenters S doyF,
      WetWindow c (orc (Model.Windows.idxWindow L doyF ctr)) (drw (Model.Windows.idxWindow L doyF ctr))
        (Model.Skeleton.take obs (Model.Windows.idxWindow L doyO ctr)) (Model.Skeleton.take H (Model.Windows.idxWindow L doyH ctr))
        (Model.Skeleton.take F (Model.Windows.idxWindow L doyF ctr)))
    (hfam : c.nonparametricQm = true ∨ (RangeLaw fam ∧ ParamOk c))
    (hexpit : c.eventLikelihoodAdjustment = true → ∀ idx x, 0 < (orc idx).expit x ∧ (orc idx).expit x < 1)
    (h : applyLocationRW c fam orc drw L S doyO doyH doyF yearsO yearsH yearsF obs H F = .ok out) :
    out.length = F.length ∧ ∀ i, i < F.length → ∃ v, out[i]? = some (some v) ∧ InBounds c v ∧ NoGap c v := by
  have hval := location_rw_in_bounds_no_gap c fam orc drw L S doyO doyH doyF yearsO yearsH yearsF obs H F out hord hd hs hwet
    hfam hexpit h
  unfold applyLocationRW step1 step8Buffer at h
  simp only [hs, Bool.false_eq_true, if_false, bind, Except.bind, pure, Except.pure] at h
  split at h
  · exact absurd h (by simp)
  · rename_i buf hbuf
    injection h with h
    subst h
    obtain ⟨h1, h2⟩ := Props.C07.applyLocationRW_all_some _ L S hS doyO doyH doyF obs H F _ hodd hh hlen hr hbuf
    refine ⟨h1, fun i hi => ?_⟩
    obtain ⟨v, hv⟩ := h2 i hi
    exact ⟨v, hv, hval v (List.mem_of_getElem? hv)⟩

/-- … and in month mode -/
theorem location_months_every_day_valid (c : Cfg) (fam : IsiFamily) (orc : List Nat → Oracles) (drw : List Nat → Draws)
    (mO mH mF doyO doyH doyF yearsO yearsH yearsF : List Int) (obs H F : List Rat) (out : List (Option Rat))
    (hord : CfgOrdered c) (hd : c.detrending = false) (hs : c.scaleByAnnualCycle = false)
    (hlen : mF.length = F.length) (hr : ∀ m ∈ mF, 1 ≤ m ∧ m ≤ 12)
    (hwet : ∀ m ∈ Py.arange1 1 13,
      WetWindow c (orc (Py.whereTrue (mF.map (fun x => decide (x = m))))) (drw (Py.whereTrue (mF.map (fun x => decide (x = m)))))
        (Model.Skeleton.take obs (Py.whereTrue (mO.map (fun x => decide (x = m)))))
        (Model.Skeleton.take H (Py.whereTrue (mH.map (fun x => decide (x = m)))))
        (Model.Skeleton.take F (Py.whereTrue (mF.map (fun x => decide (x = m))))))
    (hfam : c.nonparametricQm = true ∨ (RangeLaw fam ∧ ParamOk c))
    (hexpit : c.eventLikelihoodAdjustment = true → ∀ idx x, 0 < (orc idx).expit x ∧ (orc idx).expit x < 1)
    (h : applyLocationMonths c fam orc drw mO mH mF doyO doyH doyF yearsO yearsH yearsF obs H F = .ok out) :
    out.length = F.length ∧ ∀ i, i < F.length → ∃ v, out[i]? = some (some v) ∧ InBounds c v ∧ NoGap c v := by
  have hval := location_months_in_bounds_no_gap c fam orc drw mO mH mF doyO doyH doyF yearsO yearsH yearsF obs H F out hord hd hs
    hwet hfam hexpit h
  unfold applyLocationMonths step1 step8Buffer at h
  simp only [hs, Bool.false_eq_true, if_false, bind, Except.bind, pure, Except.pure] at h
  split at h
  · exact absurd h (by simp)
  · rename_i buf hbuf
    injection h with h
    subst h
    obtain ⟨h1, h2⟩ := Props.C07.applyLocationMonths_all_some _ mO mH mF obs H F _ hlen hr hbuf
    refine ⟨h1, fun i hi => ?_⟩
    obtain ⟨v, hv⟩ := h2 i hi
    exact ⟨v, hv, hval v (List.mem_of_getElem? hv)⟩

/-- **ISIMIP pr at a location: every day is assigned and is `0` or `≥ lower_threshold`** -/
theorem location_rw_pr_zero_or_ge (c : Cfg) (fam : IsiFamily) (orc : List Nat → Oracles) (drw : List Nat → Draws)
    (L S hS : Int) (doyO doyH doyF yearsO yearsH yearsF : List Int) (obs H F : List Rat) (out : List (Option Rat)) (t : Rat)
    (hlb : c.lowerBound = .fin 0) (hlt : c.lowerThreshold = .fin t)
    (hord : CfgOrdered c) (hd : c.detrending = false) (hs : c.scaleByAnnualCycle = false)
    (hodd : S = 2 * hS + 1) (hh : 0 ≤ hS) (hlen : doyF.length = F.length) (hr : ∀ d ∈ doyF, 0 ≤ d ∧ d ≤ 366)
    (hwet : ∀ ctr ∈ Model.Windows.useCenters S doyF,
      WetWindow c (orc (Model.Windows.idxWindow L doyF ctr)) (drw (Model.Windows.idxWindow L doyF ctr))
        (Model.Skeleton.take obs (Model.Windows.idxWindow L doyO ctr)) (Model.Skeleton.take H (Model.Windows.idxWindow L doyH ctr))
        (Model.Skeleton.take F (Model.Windows.idxWindow L doyF ctr)))
    (hfam : c.nonparametricQm = true ∨ (RangeLaw fam ∧ ParamOk c))
    (hexpit : c.eventLikelihoodAdjustment = true → ∀ idx x, 0 < (orc idx).expit x ∧ (orc idx).expit x < 1)
    (h : applyLocationRW c fam orc drw L S doyO doyH doyF yearsO yearsH yearsF obs H F = .ok out) :
    ∀ i, i < F.length → ∃ v, out[i]? = some (some v) ∧ (v = 0 ∨ t ≤ v) := by
  intro i hi
  obtain ⟨v, hv, hb, hg⟩ := (location_rw_every_day_valid c fam orc drw L S hS doyO doyH doyF yearsO yearsH yearsF obs H F out hord hd hs
    hodd hh hlen hr hwet hfam hexpit h).2 i hi
  exact ⟨v, hv, zero_or_ge_of_valid c t v hlb hlt hb hg⟩

/-! ### CDFt (SSR) and QDM through the running windows: censoring is applied to the mapped output of every window and
    the thresholds of the windows dominate the threshold of the whole series -/

/-- CDFt with SSR on sub-samples (a running window, a year window, both): exact zeros or values at least the smallest
    positive value of the **whole** input series -/
theorem cdft_ssr_subsample_zero_or_ge (E Q : List Rat → Rat → Rat) (d : DeltaShift) (obs H F ow Hw Fw u : List Rat)
    (ho : ∀ v ∈ ow, v ∈ obs) (hh : ∀ v ∈ Hw, v ∈ H) (hf : ∀ v ∈ Fw, v ∈ F)
    (hpos : ∃ x, (x ∈ ow ∨ x ∈ Hw ∨ x ∈ Fw) ∧ 0 < x) :
    ∀ v ∈ cdftStepsG true E Q d ow Hw Fw u, v = 0 ∨ ssrThreshold obs H F ≤ v := by
  intro v hv
  rcases cdft_ssr_zero_or_ge E Q d ow Hw Fw u v hv with h | h
  · exact Or.inl h
  · exact Or.inr (le_trans (ssrThreshold_subsample obs H F ow Hw Fw ho hh hf hpos) h)

/-- `CDFt.apply_location` with running windows over days of year (year windows off): every written value is `0` or at
    least the smallest positive input value, provided every window holds a positive value -/
theorem cdft_ssr_location_rw_zero_or_ge (d : DeltaShift) (em : EcdfMethod) (im : IecdfMethod) (draws : List Nat → List Rat)
    (L S : Int) (dO dH dF : List Int) (obs H F : List Rat) (out : List (Option Rat))
    (hpos : ∀ c ∈ Model.Windows.useCenters S dF, ∃ x, (x ∈ Model.Skeleton.take obs (Model.Windows.idxWindow L dO c) ∨
      x ∈ Model.Skeleton.take H (Model.Windows.idxWindow L dH c) ∨ x ∈ Model.Skeleton.take F (Model.Windows.idxWindow L dF c)) ∧ 0 < x)
    (h : Model.Skeleton.applyLocationRW (fun o h x _ _ ix => .ok (cdftSteps true d em im o h x (draws ix))) L S dO dH dF obs H F
      = .ok out) : ∀ v, some v ∈ out → v = 0 ∨ ssrThreshold obs H F ≤ v := by
  refine applyLocationRW_forall (fun v => v = 0 ∨ ssrThreshold obs H F ≤ v) _ L S dO dH dF obs H F out ?_ h
  intro c hc r hr v hv
  injection hr with hr
  subst hr
  exact cdft_ssr_subsample_zero_or_ge _ _ d obs H F _ _ _ _ (fun w hw => take_mem _ _ hw) (fun w hw => take_mem _ _ hw)
    (fun w hw => take_mem _ _ hw) (hpos c hc) v hv

/-- … with the year windows of `cm_future` inside every running window (the default of `CDFt.from_variable("pr")`) -/
theorem cdft_ssr_location_rw_years_zero_or_ge (d : DeltaShift) (em : EcdfMethod) (im : IecdfMethod)
    (draws : List Nat → Int → List Rat) (L S Ly Sy : Int) (dO dH dF yearsF : List Int) (obs H F : List Rat)
    (out : List (Option Rat))
    (hpos : ∀ c ∈ Model.Windows.useCenters S dF, ∃ x, (x ∈ Model.Skeleton.take obs (Model.Windows.idxWindow L dO c) ∨
      x ∈ Model.Skeleton.take H (Model.Windows.idxWindow L dH c)) ∧ 0 < x)
    (h : Model.Skeleton.applyLocationRW (fun o h x _ _ ix =>
        (cdftWindowYearsSSR d em im Ly Sy (Model.Skeleton.take yearsF ix) o h x (draws ix)).bind assignedAll) L S dO dH dF obs H F
      = .ok out) : ∀ v, some v ∈ out → v = 0 ∨ ssrThreshold obs H F ≤ v := by
  refine applyLocationRW_forall (fun v => v = 0 ∨ ssrThreshold obs H F ≤ v) _ L S dO dH dF obs H F out ?_ h
  intro c hc r hr v hv
  cases hy : cdftWindowYearsSSR d em im Ly Sy (Model.Skeleton.take yearsF (Model.Windows.idxWindow L dF c))
      (Model.Skeleton.take obs (Model.Windows.idxWindow L dO c)) (Model.Skeleton.take H (Model.Windows.idxWindow L dH c))
      (Model.Skeleton.take F (Model.Windows.idxWindow L dF c)) (draws (Model.Windows.idxWindow L dF c)) with
  | error e => rw [hy] at hr; exact absurd hr (by simp [Except.bind])
  | ok buf =>
    rw [hy] at hr
    have hmem := assignedAll_mem buf r hr v hv
    obtain ⟨x, hx, hx0⟩ := hpos c hc
    have hx' : ∃ x, (x ∈ Model.Skeleton.take obs (Model.Windows.idxWindow L dO c) ∨
        x ∈ Model.Skeleton.take H (Model.Windows.idxWindow L dH c)) ∧ 0 < x := ⟨x, hx, hx0⟩
    rcases cdft_ssr_years_zero_or_ge d em im Ly Sy _ _ _ _ _ buf hx' hy v hmem with h0 | h0
    · exact Or.inl h0
    · refine Or.inr (le_trans (ssrThreshold_subsample obs H F _ _ _ (fun w hw => take_mem _ _ hw) (fun w hw => take_mem _ _ hw)
        (fun w hw => take_mem _ _ hw) ⟨x, ?_, hx0⟩) h0)
      rcases hx with hx | hx
      · exact Or.inl hx
      · exact Or.inr (Or.inl hx)

/-- `QuantileDeltaMapping.apply_location` with running windows: the censoring acts on the mapped output of every window,
    so every written value is `0` or at least the censoring threshold — with the year windows of `cm_future` … -/
theorem qdm_location_rw_years_zero_or_ge {P} (Fam : Family P) (tp : TrendPres) (em : EcdfMethod) (t thr : Rat)
    (L S Ly Sy : Int) (dO dH dF yearsF : List Int) (obs H F : List Rat) (out : List (Option Rat))
    (h : Model.Skeleton.applyLocationRW (fun o h x _ _ ix =>
        (qdmWindowYears Fam tp em t (some thr) Ly Sy (Model.Skeleton.take yearsF ix) o h x).bind assignedAll) L S dO dH dF obs H F
      = .ok out) : ∀ v, some v ∈ out → v = 0 ∨ thr ≤ v := by
  refine applyLocationRW_forall (fun v => v = 0 ∨ thr ≤ v) _ L S dO dH dF obs H F out ?_ h
  intro c _ r hr v hv
  cases hy : qdmWindowYears Fam tp em t (some thr) Ly Sy (Model.Skeleton.take yearsF (Model.Windows.idxWindow L dF c))
      (Model.Skeleton.take obs (Model.Windows.idxWindow L dO c)) (Model.Skeleton.take H (Model.Windows.idxWindow L dH c))
      (Model.Skeleton.take F (Model.Windows.idxWindow L dF c)) with
  | error e => rw [hy] at hr; exact absurd hr (by simp [Except.bind])
  | ok buf =>
    rw [hy] at hr
    exact qdm_years_zero_or_ge Fam tp em t thr Ly Sy _ _ _ _ buf hy v (assignedAll_mem buf r hr v hv)

/-- … and without them -/
theorem qdm_location_rw_zero_or_ge {P} (Fam : Family P) (tp : TrendPres) (em : EcdfMethod) (t thr : Rat)
    (L S : Int) (dO dH dF : List Int) (obs H F : List Rat) (out : List (Option Rat))
    (h : Model.Skeleton.applyLocationRW (fun o h x _ _ _ => .ok (qdmWindow Fam tp em t (some thr) o h x)) L S dO dH dF obs H F
      = .ok out) : ∀ v, some v ∈ out → v = 0 ∨ thr ≤ v := by
  refine applyLocationRW_forall (fun v => v = 0 ∨ thr ≤ v) _ L S dO dH dF obs H F out ?_ h
  intro c _ r hr v hv
  injection hr with hr
  subst hr
  exact qdm_zero_or_ge Fam tp _ t thr _ _ _ v hv

end Round4

end Props.C10
