/-
  C06, part 3 — ISIMIP with `detrending = True` (tas, psl, rlds) on the model functions the correspondence check ties to
  the code: `Model.Isimip.applyLocationRW` / `applyLocationMonths` take the values and the SEPARATE lists of years (and days
  of year / months); `Model.Isimip.winFn` looks the years of a window sample up by the window's index list
  (`years_obs[indices_window_obs]` of `ISIMIP.apply_location`).

  `Props/C06Inst.lean` proves the time-order equivariance of the window loop for every configuration on a reformulation
  in which every value carries its year (`Dated` pairs: `isimip_rw_time_order_equivariant`,
  `isimip_months_time_order_equivariant`) and, on the model functions themselves, only for `detrending = False`.
  Here the two are bridged: the run on values with separate year lists is the projection (`Prod.fst`) of the run on the
  zipped series (`Lemmas/C06Dated.lean`: the loops commute with a projection of the element type; the window samples of the
  zipped series are the zips of the window samples, `take_zip`), so the statements hold for the model functions with NO
  restriction on `detrending` (or on any other setting).

  Guards that remain (each is needed):
  * `WindowGuard` on every window — tie-freeness of the values that get *ranked*: the detrended future window sample
    (step 6 reads the mapped value at the rank of the value; numpy's `argsort` is not stable, so for tied values the real
    code's assignment within the tie group is arbitrary), and — only when a bound / threshold pair is configured — the
    values step 4 re-inserts the sorted draws at.  For tas / psl / rlds (no bound / threshold pair) it is exactly
    "the detrended future window sample is tie-free" (`*_detrending_time_order_equivariant` below).
  * `hkey` — the per-window parameters of the model (the `linregress` / KS decisions, the numbers `np.random.uniform`
    returned) are the same for the window of the same centre / month in both runs.  They are parameters because the model
    does not re-implement the p-value of `linregress` (a t-distribution tail) nor the random generator; both are
    functions of the window's dated sample up to order in the real code (oracle: same seed).
  * calendar guards of the skeleton (`S = 2h+1 ≤ L`, days of year in `1..366`, months in `1..12`), list lengths.
  No "no bound / threshold pair" restriction is needed any more; it only simplifies the guard.
-/
import IbicusModel.Props.C06Inst
import IbicusModel.Lemmas.C06Dated

namespace Props.C06
open Model.Skeleton Model.Windows Model.Stats
open Lemmas.Pointwise Lemmas.Perm Lemmas.C06 Lemmas.Stats Lemmas.Years

/-! ## 1. One window: `Model.Isimip.winFn` is the projection of the dated window function -/

open Model.Isimip in
/-- on the window samples of the zipped series, `winFn` (years looked up in separate lists by the index lists) returns the
    values of the dated window function `isimipWinFnD` — under the window's tie-free guard (which fixes the length of the
    result) -/
theorem winFn_eq_project (c : Cfg) (fam : IsiFamily) (orc : List Nat → Oracles) (drw : List Nat → Draws)
    (o : Oracles) (d : Draws) (obs H F : List Rat) (yO yH yF : List Int) (iO iH iF : List Nat)
    (hlO : obs.length = yO.length) (hlH : H.length = yH.length) (hlF : F.length = yF.length)
    (hvO : ∀ j ∈ iO, j < obs.length) (hvH : ∀ j ∈ iH, j < H.length) (hvF : ∀ j ∈ iF, j < F.length)
    (ho : orc iF = o) (hd : drw iF = d)
    (hg : WindowGuard c o d (take (obs.zip yO) iO) (take (H.zip yH) iH) (take (F.zip yF) iF)) :
    winFn c fam orc drw yO yH yF (take obs iO) (take H iH) (take F iF) iO iH iF =
      (isimipWinFnD c fam o d (take (obs.zip yO) iO) (take (H.zip yH) iH) (take (F.zip yF) iF) iO iH iF).map
        (List.map Prod.fst) := by
  rw [← isimipWinD_eq_winFn_keyed c fam orc drw obs H F yO yH yF iO iH iF hlO hlH hlF hvO hvH hvF, ho, hd]
  unfold isimipWinFnD
  rw [isimip_window_pointwise_orderfree c fam o d _ _ _ hg]
  cases winCtx c fam o d (take (obs.zip yO) iO) (take (H.zip yH) iH) (take (F.zip yF) iF) with
  | error e => rfl
  | ok Tm =>
    simp only [Except.map]
    congr 1
    rw [List.map_fst_zip]
    simp

/-! ## 2. The running-window loop on values with separate year lists -/

theorem zip_length_eq {α β} (x : List α) (y : List β) (h : y.length = x.length) : (x.zip y).length = x.length := by
  simp [List.length_zip, h]

open Model.Isimip in
/-- the loop on values + separate year lists is the projection of the loop on the zipped series; `dX`, `x`, `yX` may be
    the permuted lists, `oc` / `dc` are the oracles / draws of the window of centre `cc` -/
theorem isimip_rw_project (c : Cfg) (fam : IsiFamily) (orc : List Nat → Oracles) (drw : List Nat → Draws)
    (oc : Int → Oracles) (dc : Int → Draws) (L S : Int) (dO dH dF yO yH yF : List Int) (obs hist fut : List Rat)
    (hlO : dO.length = obs.length) (hlH : dH.length = hist.length) (hlF : dF.length = fut.length)
    (hyO : yO.length = obs.length) (hyH : yH.length = hist.length) (hyF : yF.length = fut.length)
    (hkey : ∀ cc ∈ useCenters S dF, orc (idxWindow L dF cc) = oc cc ∧ drw (idxWindow L dF cc) = dc cc)
    (hg : ∀ cc ∈ useCenters S dF, WindowGuard c (oc cc) (dc cc) (take (obs.zip yO) (idxWindow L dO cc))
      (take (hist.zip yH) (idxWindow L dH cc)) (take (fut.zip yF) (idxWindow L dF cc))) :
    Model.Skeleton.applyLocationRW (winFn c fam orc drw yO yH yF) L S dO dH dF obs hist fut =
      (applyLocationRWC (fun cc => isimipWinFnD c fam (oc cc) (dc cc)) L S dO dH dF (obs.zip yO) (hist.zip yH)
        (fut.zip yF)).map (List.map (Option.map Prod.fst)) := by
  have zO : (obs.zip yO).map Prod.fst = obs := List.map_fst_zip (le_of_eq hyO.symm)
  have zH : (hist.zip yH).map Prod.fst = hist := List.map_fst_zip (le_of_eq hyH.symm)
  have zF : (fut.zip yF).map Prod.fst = fut := List.map_fst_zip (le_of_eq hyF.symm)
  have key := applyLocationRWC_project (fun _ => winFn c fam orc drw yO yH yF)
    (fun cc => isimipWinFnD c fam (oc cc) (dc cc)) Prod.fst L S dO dH dF (obs.zip yO) (hist.zip yH) (fut.zip yF) (by
      intro cc hcc
      rw [zO, zH, zF]
      exact winFn_eq_project c fam orc drw (oc cc) (dc cc) obs hist fut yO yH yF _ _ _ hyO.symm hyH.symm hyF.symm
        (fun j hj => by have := idxWindow_valid L dO cc j hj; omega)
        (fun j hj => by have := idxWindow_valid L dH cc j hj; omega)
        (fun j hj => by have := idxWindow_valid L dF cc j hj; omega)
        (hkey cc hcc).1 (hkey cc hcc).2 (hg cc hcc))
  rw [zO, zH, zF] at key
  exact key

open Model.Isimip in
/-- **the ISIMIP running-window loop on values with SEPARATE year lists — every configuration, `detrending` on or off**
    (`Skeleton.applyLocationRW (Model.Isimip.winFn …)`): permuting each series together with its days of year and its
    years permutes the result like `cm_future`, or both runs raise the same error.  Oracles and draws are keyed by the
    index list of the future window; the two runs get the same ones for the window of the same centre (`hkey`). -/
theorem isimip_rw_years_time_order_equivariant (c : Cfg) (fam : IsiFamily) (orc orc' : List Nat → Oracles)
    (drw drw' : List Nat → Draws) (L S h : Int) (dO dH dF yO yH yF : List Int) (obs hist fut : List Rat)
    (pO pH pF : List Nat)
    (hpO : pO.Perm (List.range obs.length)) (hpH : pH.Perm (List.range hist.length))
    (hpF : pF.Perm (List.range fut.length))
    (hlO : dO.length = obs.length) (hlH : dH.length = hist.length) (hlF : dF.length = fut.length)
    (hyO : yO.length = obs.length) (hyH : yH.length = hist.length) (hyF : yF.length = fut.length)
    (hS : S = 2 * h + 1) (hh : 0 ≤ h) (hSL : S ≤ L) (hr : ∀ d ∈ dF, 1 ≤ d ∧ d ≤ 366)
    (hkey : ∀ cc ∈ useCenters S dF, orc' (idxWindow L (take dF pF) cc) = orc (idxWindow L dF cc) ∧
      drw' (idxWindow L (take dF pF) cc) = drw (idxWindow L dF cc))
    (hg : ∀ cc ∈ useCenters S dF, WindowGuard c (orc (idxWindow L dF cc)) (drw (idxWindow L dF cc))
      (take (obs.zip yO) (idxWindow L dO cc)) (take (hist.zip yH) (idxWindow L dH cc))
      (take (fut.zip yF) (idxWindow L dF cc))) :
    SameUpToOrder (Model.Skeleton.applyLocationRW (winFn c fam orc drw yO yH yF) L S dO dH dF obs hist fut)
      (Model.Skeleton.applyLocationRW (winFn c fam orc' drw' (take yO pO) (take yH pH) (take yF pF)) L S
        (take dO pO) (take dH pH) (take dF pF) (take obs pO) (take hist pH) (take fut pF)) pF := by
  let oc : Int → Oracles := fun cc => orc (idxWindow L dF cc)
  let dc : Int → Draws := fun cc => drw (idxWindow L dF cc)
  have hvO := perm_valid pO hpO
  have hvH := perm_valid pH hpH
  have hvF := perm_valid pF hpF
  have hpFd : pF.Perm (List.range dF.length) := hlF ▸ hpF
  have hcs : useCenters S (take dF pF) = useCenters S dF := useCenters_perm S _ _ (take_perm dF pF hpFd)
  -- lengths of the zipped series and of the permuted lists
  have lzO := zip_length_eq obs yO hyO
  have lzH := zip_length_eq hist yH hyH
  have lzF := zip_length_eq fut yF hyF
  have hpO' : pO.Perm (List.range (obs.zip yO).length) := lzO ▸ hpO
  have hpH' : pH.Perm (List.range (hist.zip yH).length) := lzH ▸ hpH
  have hpF' : pF.Perm (List.range (fut.zip yF).length) := lzF ▸ hpF
  have tl : ∀ {α} (x : List α) (p : List Nat) (n : Nat), x.length = n → (∀ j ∈ p, j < n) → (take x p).length = p.length :=
    fun x p n hx hv => take_length x p (fun j hj => hx ▸ hv j hj)
  -- the zips of the permuted lists are the permuted zips
  have zpO : (take obs pO).zip (take yO pO) = take (obs.zip yO) pO := (take_zip obs yO pO hyO.symm hvO).symm
  have zpH : (take hist pH).zip (take yH pH) = take (hist.zip yH) pH := (take_zip hist yH pH hyH.symm hvH).symm
  have zpF : (take fut pF).zip (take yF pF) = take (fut.zip yF) pF := (take_zip fut yF pF hyF.symm hvF).symm
  -- run 1
  have e1 := isimip_rw_project c fam orc drw oc dc L S dO dH dF yO yH yF obs hist fut hlO hlH hlF hyO hyH hyF
    (fun cc _ => ⟨rfl, rfl⟩) hg
  -- run 2
  have e2 := isimip_rw_project c fam orc' drw' oc dc L S (take dO pO) (take dH pH) (take dF pF) (take yO pO) (take yH pH)
    (take yF pF) (take obs pO) (take hist pH) (take fut pF)
    ((tl dO pO _ hlO hvO).trans (tl obs pO _ rfl hvO).symm) ((tl dH pH _ hlH hvH).trans (tl hist pH _ rfl hvH).symm)
    ((tl dF pF _ hlF hvF).trans (tl fut pF _ rfl hvF).symm)
    ((tl yO pO _ hyO hvO).trans (tl obs pO _ rfl hvO).symm) ((tl yH pH _ hyH hvH).trans (tl hist pH _ rfl hvH).symm)
    ((tl yF pF _ hyF hvF).trans (tl fut pF _ rfl hvF).symm)
    (fun cc hcc => hkey cc (hcs ▸ hcc))
    (by
      intro cc hcc
      rw [hcs] at hcc
      rw [zpO, zpH, zpF]
      unfold idxWindow
      exact WindowGuard_perm c (oc cc) (dc cc)
        (window_sample_perm (obs.zip yO) dO _ pO (lzO.trans hlO.symm) hpO').symm
        (window_sample_perm (hist.zip yH) dH _ pH (lzH.trans hlH.symm) hpH').symm
        (window_sample_perm (fut.zip yF) dF _ pF (lzF.trans hlF.symm) hpF').symm (hg cc hcc))
  rw [zpO, zpH, zpF] at e2
  rw [e1, e2]
  rcases isimip_rw_time_order_equivariant c fam oc dc L S h dO dH dF (obs.zip yO) (hist.zip yH) (fut.zip yF) pO pH pF
      hpO' hpH' hpF' (hlO.trans lzO.symm) (hlH.trans lzH.symm) (hlF.trans lzF.symm) hS hh hSL hr hg with
    ⟨out, r1, r2⟩ | ⟨e, r1, r2⟩
  · refine Or.inl ⟨out.map (Option.map Prod.fst), ?_, ?_⟩
    · rw [r1]; rfl
    · rw [r2, take_mapH]; rfl
  · exact Or.inr ⟨e, by rw [r1]; rfl, by rw [r2]; rfl⟩

open Model.Isimip in
/-- **`ISIMIP.apply_location` (running-window mode) is time-order equivariant — EVERY configuration, in particular
    `detrending = True` (tas, psl, rlds)**, on `Model.Isimip.applyLocationRW` itself with its separate lists of days of
    year and years: step 1, the window loop (steps 3–7 per window, years looked up by the window's index list), step 8.
    Generalises `isimip_apply_location_time_order_equivariant` (which needed `detrending = False`). -/
theorem isimip_apply_location_years_time_order_equivariant (c : Cfg) (fam : IsiFamily) (orc orc' : List Nat → Oracles)
    (drw drw' : List Nat → Draws) (L S h : Int) (dO dH dF yO yH yF : List Int) (obs hist fut : List Rat)
    (pO pH pF : List Nat)
    (hpO : pO.Perm (List.range obs.length)) (hpH : pH.Perm (List.range hist.length))
    (hpF : pF.Perm (List.range fut.length))
    (hlO : dO.length = obs.length) (hlH : dH.length = hist.length) (hlF : dF.length = fut.length)
    (hyO : yO.length = obs.length) (hyH : yH.length = hist.length) (hyF : yF.length = fut.length)
    (hS : S = 2 * h + 1) (hh : 0 ≤ h) (hSL : S ≤ L)
    (hrO : ∀ d ∈ dO, 1 ≤ d ∧ d ≤ 366) (hrH : ∀ d ∈ dH, 1 ≤ d ∧ d ≤ 366) (hrF : ∀ d ∈ dF, 1 ≤ d ∧ d ≤ 366)
    (hkey : ∀ cc ∈ useCenters S dF, orc' (idxWindow L (take dF pF) cc) = orc (idxWindow L dF cc) ∧
      drw' (idxWindow L (take dF pF) cc) = drw (idxWindow L dF cc))
    (hg : ∀ o1 h1 f1 cyc, step1 c obs hist fut dO dH dF = .ok (o1, h1, f1, cyc) →
      ∀ cc ∈ useCenters S dF, WindowGuard c (orc (idxWindow L dF cc)) (drw (idxWindow L dF cc))
        (take (o1.zip yO) (idxWindow L dO cc)) (take (h1.zip yH) (idxWindow L dH cc))
        (take (f1.zip yF) (idxWindow L dF cc))) :
    SameUpToOrder (Model.Isimip.applyLocationRW c fam orc drw L S dO dH dF yO yH yF obs hist fut)
      (Model.Isimip.applyLocationRW c fam orc' drw' L S (take dO pO) (take dH pH) (take dF pF)
        (take yO pO) (take yH pH) (take yF pF) (take obs pO) (take hist pH) (take fut pF)) pF := by
  apply isimip_steps18_lift c fam orc orc' drw drw' L S dO dH dF yO yH yF (take yO pO) (take yH pH) (take yF pF)
    obs hist fut pO pH pF hpO hpH hpF hlO hlH hlF hrO hrH hrF
  intro o1 h1 f1 cyc hs1
  obtain ⟨l1, l2, l3, _⟩ := step1_cycle c obs hist fut dO dH dF o1 h1 f1 cyc hlO.symm hlH.symm hlF.symm hs1
  exact isimip_rw_years_time_order_equivariant c fam orc orc' drw drw' L S h dO dH dF yO yH yF o1 h1 f1 pO pH pF
    (l1 ▸ hpO) (l2 ▸ hpH) (l3 ▸ hpF) (hlO.trans l1.symm) (hlH.trans l2.symm) (hlF.trans l3.symm)
    (hyO.trans l1.symm) (hyH.trans l2.symm) (hyF.trans l3.symm) hS hh hSL hrF hkey (hg o1 h1 f1 cyc hs1)

open Model.Isimip in
theorem step1_of_no_scaling (c : Cfg) (obs H F : List Rat) (dO dH dF : List Int) (hsc : c.scaleByAnnualCycle = false) :
    step1 c obs H F dO dH dF = .ok (obs, H, F, none) := by
  unfold step1
  simp only [hsc, Bool.false_eq_true, if_false]
  rfl

open Model.Isimip in
/-- **ISIMIP running-window mode with detrending — the settings of tas, psl, rlds** (`detrending = True`, no bound /
    threshold pair, no scaling by the annual cycle): on `Model.Isimip.applyLocationRW` with separate year lists.  The only
    data guard left is that every *detrended* future window sample is tie-free (step 6 ranks those values).
    This is the full-strength form of `isimip_rw_detrending_time_order_equivariant_partial` (dated pairs, one oracle for
    all windows): separate lists, oracles / draws per window. -/
theorem isimip_rw_detrending_time_order_equivariant (c : Cfg) (fam : IsiFamily) (orc orc' : List Nat → Oracles)
    (drw drw' : List Nat → Draws) (hd : c.detrending = true)
    (hl : (c.hasLowerBound && c.hasLowerThreshold) = false) (hu : (c.hasUpperBound && c.hasUpperThreshold) = false)
    (hsc : c.scaleByAnnualCycle = false)
    (L S h : Int) (dO dH dF yO yH yF : List Int) (obs hist fut : List Rat) (pO pH pF : List Nat)
    (hpO : pO.Perm (List.range obs.length)) (hpH : pH.Perm (List.range hist.length))
    (hpF : pF.Perm (List.range fut.length))
    (hlO : dO.length = obs.length) (hlH : dH.length = hist.length) (hlF : dF.length = fut.length)
    (hyO : yO.length = obs.length) (hyH : yH.length = hist.length) (hyF : yF.length = fut.length)
    (hS : S = 2 * h + 1) (hh : 0 ≤ h) (hSL : S ≤ L)
    (hrO : ∀ d ∈ dO, 1 ≤ d ∧ d ≤ 366) (hrH : ∀ d ∈ dH, 1 ≤ d ∧ d ≤ 366) (hrF : ∀ d ∈ dF, 1 ≤ d ∧ d ≤ 366)
    (hkey : ∀ cc ∈ useCenters S dF, orc' (idxWindow L (take dF pF) cc) = orc (idxWindow L dF cc) ∧
      drw' (idxWindow L (take dF pF) cc) = drw (idxWindow L dF cc))
    (hnd : ∀ cc ∈ useCenters S dF,
      (detr c (orc (idxWindow L dF cc)).sigF (take (fut.zip yF) (idxWindow L dF cc))).Nodup) :
    SameUpToOrder (Model.Isimip.applyLocationRW c fam orc drw L S dO dH dF yO yH yF obs hist fut)
      (Model.Isimip.applyLocationRW c fam orc' drw' L S (take dO pO) (take dH pH) (take dF pF)
        (take yO pO) (take yH pH) (take yF pF) (take obs pO) (take hist pH) (take fut pF)) pF := by
  apply isimip_apply_location_years_time_order_equivariant c fam orc orc' drw drw' L S h dO dH dF yO yH yF obs hist fut
    pO pH pF hpO hpH hpF hlO hlH hlF hyO hyH hyF hS hh hSL hrO hrH hrF hkey
  intro o1 h1 f1 cyc hs1 cc hcc
  rw [step1_of_no_scaling c obs hist fut dO dH dF hsc] at hs1
  obtain ⟨rfl, rfl, rfl, _⟩ : obs = o1 ∧ hist = h1 ∧ fut = f1 ∧ none = cyc := by
    have := Except.ok.inj hs1
    simp only [Prod.mk.injEq] at this
    exact this
  apply windowGuard_of_no_threshold_pair c _ _ _ _ _ hl hu
  rw [detrG_of_detrending c _ _ hd]
  exact hnd cc hcc

/-! ## 3. Month mode (`running_window_mode = False`) -/

theorem monthIdx_eq' (ms : List Int) (m : Int) : monthIdx ms m = indicesIn ms [m] := by
  unfold monthIdx; exact Lemmas.C06.monthIdx_eq ms m

open Model.Isimip in
/-- the month loop on values + separate year lists is the projection of the month loop on the zipped series -/
theorem isimip_months_project (c : Cfg) (fam : IsiFamily) (orc : List Nat → Oracles) (drw : List Nat → Draws)
    (oc : Int → Oracles) (dc : Int → Draws) (mO mH mF yO yH yF : List Int) (obs hist fut : List Rat)
    (hlO : mO.length = obs.length) (hlH : mH.length = hist.length) (hlF : mF.length = fut.length)
    (hyO : yO.length = obs.length) (hyH : yH.length = hist.length) (hyF : yF.length = fut.length)
    (hkey : ∀ m ∈ Py.arange1 1 13, orc (monthIdx mF m) = oc m ∧ drw (monthIdx mF m) = dc m)
    (hg : ∀ m ∈ Py.arange1 1 13, WindowGuard c (oc m) (dc m) (take (obs.zip yO) (indicesIn mO [m]))
      (take (hist.zip yH) (indicesIn mH [m])) (take (fut.zip yF) (indicesIn mF [m]))) :
    Model.Skeleton.applyLocationMonths (winFn c fam orc drw yO yH yF) mO mH mF obs hist fut =
      (applyLocationMonthsC (fun m => isimipWinFnD c fam (oc m) (dc m)) mO mH mF (obs.zip yO) (hist.zip yH)
        (fut.zip yF)).map (List.map (Option.map Prod.fst)) := by
  have zO : (obs.zip yO).map Prod.fst = obs := List.map_fst_zip (le_of_eq hyO.symm)
  have zH : (hist.zip yH).map Prod.fst = hist := List.map_fst_zip (le_of_eq hyH.symm)
  have zF : (fut.zip yF).map Prod.fst = fut := List.map_fst_zip (le_of_eq hyF.symm)
  have key := applyLocationMonthsC_project (fun _ => winFn c fam orc drw yO yH yF)
    (fun m => isimipWinFnD c fam (oc m) (dc m)) Prod.fst mO mH mF (obs.zip yO) (hist.zip yH) (fut.zip yF) (by
      intro m hm
      rw [zO, zH, zF]
      have hk := hkey m hm
      rw [monthIdx_eq'] at hk
      exact winFn_eq_project c fam orc drw (oc m) (dc m) obs hist fut yO yH yF _ _ _ hyO.symm hyH.symm hyF.symm
        (fun j hj => by have := indicesIn_valid mO [m] j hj; omega)
        (fun j hj => by have := indicesIn_valid mH [m] j hj; omega)
        (fun j hj => by have := indicesIn_valid mF [m] j hj; omega)
        hk.1 hk.2 (hg m hm))
  rw [zO, zH, zF] at key
  exact key

open Model.Isimip in
/-- **the ISIMIP month loop on values with SEPARATE year lists — every configuration, `detrending` on or off** -/
theorem isimip_months_years_time_order_equivariant (c : Cfg) (fam : IsiFamily) (orc orc' : List Nat → Oracles)
    (drw drw' : List Nat → Draws) (mO mH mF yO yH yF : List Int) (obs hist fut : List Rat) (pO pH pF : List Nat)
    (hpO : pO.Perm (List.range obs.length)) (hpH : pH.Perm (List.range hist.length))
    (hpF : pF.Perm (List.range fut.length))
    (hlO : mO.length = obs.length) (hlH : mH.length = hist.length) (hlF : mF.length = fut.length)
    (hyO : yO.length = obs.length) (hyH : yH.length = hist.length) (hyF : yF.length = fut.length)
    (hr : ∀ m ∈ mF, 1 ≤ m ∧ m ≤ 12)
    (hkey : ∀ m ∈ Py.arange1 1 13, orc' (monthIdx (take mF pF) m) = orc (monthIdx mF m) ∧
      drw' (monthIdx (take mF pF) m) = drw (monthIdx mF m))
    (hg : ∀ m ∈ Py.arange1 1 13, WindowGuard c (orc (monthIdx mF m)) (drw (monthIdx mF m))
      (take (obs.zip yO) (indicesIn mO [m])) (take (hist.zip yH) (indicesIn mH [m]))
      (take (fut.zip yF) (indicesIn mF [m]))) :
    SameUpToOrder (Model.Skeleton.applyLocationMonths (winFn c fam orc drw yO yH yF) mO mH mF obs hist fut)
      (Model.Skeleton.applyLocationMonths (winFn c fam orc' drw' (take yO pO) (take yH pH) (take yF pF))
        (take mO pO) (take mH pH) (take mF pF) (take obs pO) (take hist pH) (take fut pF)) pF := by
  let oc : Int → Oracles := fun m => orc (monthIdx mF m)
  let dc : Int → Draws := fun m => drw (monthIdx mF m)
  have hvO := perm_valid pO hpO
  have hvH := perm_valid pH hpH
  have hvF := perm_valid pF hpF
  have lzO := zip_length_eq obs yO hyO
  have lzH := zip_length_eq hist yH hyH
  have lzF := zip_length_eq fut yF hyF
  have hpO' : pO.Perm (List.range (obs.zip yO).length) := lzO ▸ hpO
  have hpH' : pH.Perm (List.range (hist.zip yH).length) := lzH ▸ hpH
  have hpF' : pF.Perm (List.range (fut.zip yF).length) := lzF ▸ hpF
  have tl : ∀ {α} (x : List α) (p : List Nat) (n : Nat), x.length = n → (∀ j ∈ p, j < n) → (take x p).length = p.length :=
    fun x p n hx hv => take_length x p (fun j hj => hx ▸ hv j hj)
  have zpO : (take obs pO).zip (take yO pO) = take (obs.zip yO) pO := (take_zip obs yO pO hyO.symm hvO).symm
  have zpH : (take hist pH).zip (take yH pH) = take (hist.zip yH) pH := (take_zip hist yH pH hyH.symm hvH).symm
  have zpF : (take fut pF).zip (take yF pF) = take (fut.zip yF) pF := (take_zip fut yF pF hyF.symm hvF).symm
  have e1 := isimip_months_project c fam orc drw oc dc mO mH mF yO yH yF obs hist fut hlO hlH hlF hyO hyH hyF
    (fun m _ => ⟨rfl, rfl⟩) hg
  have e2 := isimip_months_project c fam orc' drw' oc dc (take mO pO) (take mH pH) (take mF pF) (take yO pO) (take yH pH)
    (take yF pF) (take obs pO) (take hist pH) (take fut pF)
    ((tl mO pO _ hlO hvO).trans (tl obs pO _ rfl hvO).symm) ((tl mH pH _ hlH hvH).trans (tl hist pH _ rfl hvH).symm)
    ((tl mF pF _ hlF hvF).trans (tl fut pF _ rfl hvF).symm)
    ((tl yO pO _ hyO hvO).trans (tl obs pO _ rfl hvO).symm) ((tl yH pH _ hyH hvH).trans (tl hist pH _ rfl hvH).symm)
    ((tl yF pF _ hyF hvF).trans (tl fut pF _ rfl hvF).symm)
    hkey
    (by
      intro m hm
      rw [zpO, zpH, zpF]
      exact WindowGuard_perm c (oc m) (dc m)
        (window_sample_perm (obs.zip yO) mO _ pO (lzO.trans hlO.symm) hpO').symm
        (window_sample_perm (hist.zip yH) mH _ pH (lzH.trans hlH.symm) hpH').symm
        (window_sample_perm (fut.zip yF) mF _ pF (lzF.trans hlF.symm) hpF').symm (hg m hm))
  rw [zpO, zpH, zpF] at e2
  rw [e1, e2]
  have main := isimip_months_time_order_equivariant c fam oc dc mO mH mF (obs.zip yO) (hist.zip yH) (fut.zip yF) pO pH pF
      hpO' hpH' hpF' (hlO.trans lzO.symm) (hlH.trans lzH.symm) (hlF.trans lzF.symm) hr hg
  unfold SameUpToOrder at main ⊢
  rcases main with ⟨out, r1, r2⟩ | ⟨e, r1, r2⟩
  · refine Or.inl ⟨out.map (Option.map Prod.fst), ?_, ?_⟩
    · rw [r1]; rfl
    · rw [r2, take_mapH]; rfl
  · exact Or.inr ⟨e, by rw [r1]; rfl, by rw [r2]; rfl⟩

open Model.Isimip in
/-- **`ISIMIP.apply_location` in month mode is time-order equivariant — EVERY configuration, in particular
    `detrending = True`**, on `Model.Isimip.applyLocationMonths` itself with its separate lists of months, days of year
    and years.  Generalises `isimip_apply_location_months_time_order_equivariant` (which needed `detrending = False`). -/
theorem isimip_apply_location_months_years_time_order_equivariant (c : Cfg) (fam : IsiFamily)
    (orc orc' : List Nat → Oracles) (drw drw' : List Nat → Draws)
    (mO mH mF dO dH dF yO yH yF : List Int) (obs hist fut : List Rat) (pO pH pF : List Nat)
    (hpO : pO.Perm (List.range obs.length)) (hpH : pH.Perm (List.range hist.length))
    (hpF : pF.Perm (List.range fut.length))
    (hmO : mO.length = obs.length) (hmH : mH.length = hist.length) (hmF : mF.length = fut.length)
    (hlO : dO.length = obs.length) (hlH : dH.length = hist.length) (hlF : dF.length = fut.length)
    (hyO : yO.length = obs.length) (hyH : yH.length = hist.length) (hyF : yF.length = fut.length)
    (hr : ∀ m ∈ mF, 1 ≤ m ∧ m ≤ 12)
    (hrO : ∀ d ∈ dO, 1 ≤ d ∧ d ≤ 366) (hrH : ∀ d ∈ dH, 1 ≤ d ∧ d ≤ 366) (hrF : ∀ d ∈ dF, 1 ≤ d ∧ d ≤ 366)
    (hkey : ∀ m ∈ Py.arange1 1 13, orc' (monthIdx (take mF pF) m) = orc (monthIdx mF m) ∧
      drw' (monthIdx (take mF pF) m) = drw (monthIdx mF m))
    (hg : ∀ o1 h1 f1 cyc, step1 c obs hist fut dO dH dF = .ok (o1, h1, f1, cyc) →
      ∀ m ∈ Py.arange1 1 13, WindowGuard c (orc (monthIdx mF m)) (drw (monthIdx mF m))
        (take (o1.zip yO) (indicesIn mO [m])) (take (h1.zip yH) (indicesIn mH [m]))
        (take (f1.zip yF) (indicesIn mF [m]))) :
    SameUpToOrder (Model.Isimip.applyLocationMonths c fam orc drw mO mH mF dO dH dF yO yH yF obs hist fut)
      (Model.Isimip.applyLocationMonths c fam orc' drw' (take mO pO) (take mH pH) (take mF pF) (take dO pO) (take dH pH)
        (take dF pF) (take yO pO) (take yH pH) (take yF pF) (take obs pO) (take hist pH) (take fut pF)) pF := by
  apply isimip_steps18_lift_months c fam orc orc' drw drw' mO mH mF dO dH dF yO yH yF (take yO pO) (take yH pH)
    (take yF pF) obs hist fut pO pH pF hpO hpH hpF hlO hlH hlF hrO hrH hrF
  intro o1 h1 f1 cyc hs1
  obtain ⟨l1, l2, l3, _⟩ := step1_cycle c obs hist fut dO dH dF o1 h1 f1 cyc hlO.symm hlH.symm hlF.symm hs1
  exact isimip_months_years_time_order_equivariant c fam orc orc' drw drw' mO mH mF yO yH yF o1 h1 f1 pO pH pF
    (l1 ▸ hpO) (l2 ▸ hpH) (l3 ▸ hpF) (hmO.trans l1.symm) (hmH.trans l2.symm) (hmF.trans l3.symm)
    (hyO.trans l1.symm) (hyH.trans l2.symm) (hyF.trans l3.symm) hr hkey (hg o1 h1 f1 cyc hs1)

open Model.Isimip in
/-- **ISIMIP month mode with detrending — the settings of tas, psl, rlds**, on `Model.Isimip.applyLocationMonths` with
    separate year lists; full-strength form of `isimip_months_detrending_time_order_equivariant_partial`. -/
theorem isimip_months_detrending_time_order_equivariant (c : Cfg) (fam : IsiFamily) (orc orc' : List Nat → Oracles)
    (drw drw' : List Nat → Draws) (hd : c.detrending = true)
    (hl : (c.hasLowerBound && c.hasLowerThreshold) = false) (hu : (c.hasUpperBound && c.hasUpperThreshold) = false)
    (hsc : c.scaleByAnnualCycle = false)
    (mO mH mF dO dH dF yO yH yF : List Int) (obs hist fut : List Rat) (pO pH pF : List Nat)
    (hpO : pO.Perm (List.range obs.length)) (hpH : pH.Perm (List.range hist.length))
    (hpF : pF.Perm (List.range fut.length))
    (hmO : mO.length = obs.length) (hmH : mH.length = hist.length) (hmF : mF.length = fut.length)
    (hlO : dO.length = obs.length) (hlH : dH.length = hist.length) (hlF : dF.length = fut.length)
    (hyO : yO.length = obs.length) (hyH : yH.length = hist.length) (hyF : yF.length = fut.length)
    (hr : ∀ m ∈ mF, 1 ≤ m ∧ m ≤ 12)
    (hrO : ∀ d ∈ dO, 1 ≤ d ∧ d ≤ 366) (hrH : ∀ d ∈ dH, 1 ≤ d ∧ d ≤ 366) (hrF : ∀ d ∈ dF, 1 ≤ d ∧ d ≤ 366)
    (hkey : ∀ m ∈ Py.arange1 1 13, orc' (monthIdx (take mF pF) m) = orc (monthIdx mF m) ∧
      drw' (monthIdx (take mF pF) m) = drw (monthIdx mF m))
    (hnd : ∀ m ∈ Py.arange1 1 13, (detr c (orc (monthIdx mF m)).sigF (take (fut.zip yF) (indicesIn mF [m]))).Nodup) :
    SameUpToOrder (Model.Isimip.applyLocationMonths c fam orc drw mO mH mF dO dH dF yO yH yF obs hist fut)
      (Model.Isimip.applyLocationMonths c fam orc' drw' (take mO pO) (take mH pH) (take mF pF) (take dO pO) (take dH pH)
        (take dF pF) (take yO pO) (take yH pH) (take yF pF) (take obs pO) (take hist pH) (take fut pF)) pF := by
  apply isimip_apply_location_months_years_time_order_equivariant c fam orc orc' drw drw' mO mH mF dO dH dF yO yH yF
    obs hist fut pO pH pF hpO hpH hpF hmO hmH hmF hlO hlH hlF hyO hyH hyF hr hrO hrH hrF hkey
  intro o1 h1 f1 cyc hs1 m hm
  rw [step1_of_no_scaling c obs hist fut dO dH dF hsc] at hs1
  obtain ⟨rfl, rfl, rfl, _⟩ : obs = o1 ∧ hist = h1 ∧ fut = f1 ∧ none = cyc := by
    have := Except.ok.inj hs1
    simp only [Prod.mk.injEq] at this
    exact this
  apply windowGuard_of_no_threshold_pair c _ _ _ _ _ hl hu
  rw [detrG_of_detrending c _ _ hd]
  exact hnd m hm

/-! ## 4. The hypotheses are satisfiable (non-vacuity)

  ISIMIP's tas settings (detrending on, no bounds / thresholds, KS test on with the default decision), the rational test
  double as distribution, significant trends in `obs` and `cm_future` (so that step 3 really removes a trend and step 7
  adds it back), three years of `cm_future`, two of `obs` / `cm_hist`, window length 3, step 1, three different
  non-trivial permutations; every detrended future window sample is tie-free. -/

namespace Witness
open Model.Isimip

def cfg : Cfg := { trendMethod := .additive, nonparametricQm := false, detrending := true }
def orc : List Nat → Oracles := fun _ => { sigO := true, sigH := false, sigF := true }
def drw : List Nat → Draws := fun _ => {}
def dO : List Int := [1, 2, 3, 1, 2, 3]
def mO : List Int := [1, 1, 2, 1, 2, 2]
def mH : List Int := [1, 2, 2, 1, 1, 2]
def yO : List Int := [1990, 1990, 1990, 1991, 1991, 1991]
def obs : List Rat := [10, 11, 12, 13, 15, 14]
def hist : List Rat := [20, 21, 23, 22, 25, 24]
def dF : List Int := [1, 2, 3, 1, 2, 3, 1, 2, 3]
def mF : List Int := [1, 1, 2, 1, 2, 2, 1, 2, 2]
def yF : List Int := [2000, 2000, 2000, 2001, 2001, 2001, 2002, 2002, 2002]
def fut : List Rat := [3, 1, 4, 15, 9, 26, 5, 35, 8]
def pO : List Nat := [3, 1, 0, 2, 5, 4]
def pH : List Nat := [2, 0, 1, 5, 4, 3]
def pF : List Nat := [8, 2, 0, 4, 1, 3, 7, 6, 5]

/-- the tie-free guard on the detrended future window samples (complete finite check of a concrete witness) -/
theorem rw_guard : ∀ cc ∈ useCenters 1 dF,
    (detr cfg (orc (idxWindow 3 dF cc)).sigF (take (fut.zip yF) (idxWindow 3 dF cc))).Nodup := by
  unfold detr trendOf annualTrend yearlyMeans
  simp only [uniqueYears_eq_isort]   -- `List.mergeSort` does not reduce in the kernel; insertion sort does
  decide +kernel

theorem months_guard : ∀ m ∈ Py.arange1 1 13,
    (detr cfg (orc (monthIdx mF m)).sigF (take (fut.zip yF) (indicesIn mF [m]))).Nodup := by
  unfold detr trendOf annualTrend yearlyMeans
  simp only [uniqueYears_eq_isort]
  decide +kernel

/-- the trend removed from `cm_future` is not zero: step 3 / step 7 are really exercised -/
example : detr cfg true (fut.zip yF) ≠ fut := by
  unfold detr trendOf annualTrend yearlyMeans
  simp only [uniqueYears_eq_isort]
  decide +kernel

end Witness

open Witness in
/-- a concrete instance of every hypothesis of `isimip_rw_detrending_time_order_equivariant` (and hence of
    `isimip_apply_location_years_time_order_equivariant`, `isimip_rw_years_time_order_equivariant`) -/
example : SameUpToOrder
    (Model.Isimip.applyLocationRW cfg Model.Isimip.ratSigmoid orc drw 3 1 dO dO dF yO yO yF obs hist fut)
    (Model.Isimip.applyLocationRW cfg Model.Isimip.ratSigmoid orc drw 3 1 (take dO pO) (take dO pH) (take dF pF)
      (take yO pO) (take yO pH) (take yF pF) (take obs pO) (take hist pH) (take fut pF)) pF :=
  isimip_rw_detrending_time_order_equivariant cfg Model.Isimip.ratSigmoid orc orc drw drw rfl rfl rfl rfl 3 1 0
    dO dO dF yO yO yF obs hist fut pO pH pF (by decide) (by decide) (by decide) rfl rfl rfl rfl rfl rfl
    (by decide) (by decide) (by decide) (by decide) (by decide) (by decide) (fun _ _ => ⟨rfl, rfl⟩) rw_guard

-- … and the run of this instance succeeds with every step assigned (the first alternative of `SameUpToOrder` is the one
-- realised).  Evaluated with the compiled model (`#guard`; not kernel-checked: the window sorts, and `List.mergeSort`
-- does not reduce in the kernel)
open Witness in
#guard (match Model.Isimip.applyLocationRW cfg Model.Isimip.ratSigmoid orc drw 3 1 dO dO dF yO yO yF obs hist fut with
    | .ok out => out.all Option.isSome | .error _ => false)

open Witness in
/-- a concrete instance of every hypothesis of `isimip_months_detrending_time_order_equivariant` (and hence of
    `isimip_apply_location_months_years_time_order_equivariant`, `isimip_months_years_time_order_equivariant`) -/
example : SameUpToOrder
    (Model.Isimip.applyLocationMonths cfg Model.Isimip.ratSigmoid orc drw mO mH mF dO dO dF yO yO yF obs hist fut)
    (Model.Isimip.applyLocationMonths cfg Model.Isimip.ratSigmoid orc drw (take mO pO) (take mH pH) (take mF pF)
      (take dO pO) (take dO pH) (take dF pF) (take yO pO) (take yO pH) (take yF pF) (take obs pO) (take hist pH)
      (take fut pF)) pF :=
  isimip_months_detrending_time_order_equivariant cfg Model.Isimip.ratSigmoid orc orc drw drw rfl rfl rfl rfl
    mO mH mF dO dO dF yO yO yF obs hist fut pO pH pF (by decide) (by decide) (by decide) rfl rfl rfl rfl rfl rfl rfl rfl rfl
    (by decide) (by decide) (by decide) (by decide) (fun _ _ => ⟨rfl, rfl⟩) months_guard

open Witness in
#guard (match Model.Isimip.applyLocationMonths cfg Model.Isimip.ratSigmoid orc drw mO mH mF dO dO dF yO yO yF obs hist fut with
    | .ok out => out.all Option.isSome | .error _ => false)

/-! ## 5. Step 2 (imputation of missing values; `impute_missing_values = True`, i.e. prsnratio) — NOT covered, and why

  The statement is FALSE for step 2, for the model and for the real code alike.  `_step2_impute_values` draws one value per
  missing entry (`iecdf(valid_values, np.random.random(k))` — a function of the multiset of the valid values and of the
  draws), sorts them, and decides WHICH missing entry receives which of them by
  `interp1d(indices_valid_values, argsort(argsort(valid_values)), fill_value="extrapolate")(indices_of_missing_values)`:
  the rank of a missing entry is interpolated between the ranks of its neighbours *in the array*.  The array position is
  used as the time coordinate, so
    * the valid entries and the multiset of the imputed window do not depend on the storage order (same draws), hence with
      `detrending = False` (prsnratio) the context of steps 4–6 is the same and every VALID time step keeps its result;
    * but the value a MISSING time step receives depends on which entries are stored next to it.
  Real code, same seed (`np.random.seed(1)`), `ISIMIP.from_variable("prsnratio")._step2_impute_values` on
  `x = [.1, nan, .5, .3, nan, .9, .7, nan, .2, .6]` and on `x[p]`, `p = [4, 9, 1, 0, 7, 3, 8, 2, 6, 5]`: the two imputed values
  0.10007 and 0.40043 are exchanged between the time steps 1 and 7 (valid entries and the multiset agree).  The model shows
  the same exchange with the draws `[1/16, 5/8, 3/8]` (below; `#guard` = compiled evaluation, `step2Impute` sorts).
  This is a property of the algorithm (it presupposes chronological storage inside the window), not of the write-back; C06
  therefore holds for ISIMIP on data without missing values (`Model.Isimip.applyLocationRW` / `applyLocationMonths` model
  exactly that: `applyOnWindow` is `_apply_on_window` with step 2 the identity) and cannot be extended to step 2. -/

namespace Witness
open Model.Isimip
def cfgImpute : Cfg := { trendMethod := .additive, nonparametricQm := false, detrending := false, imputeMissingValues := true }
def xImp : List (Option Rat) := [some (1/10), none, some (1/2), some (3/10), none, some (9/10), some (7/10), none, some (1/5), some (3/5)]
def pImp : List Nat := [4, 9, 1, 0, 7, 3, 8, 2, 6, 5]
def uImp : List Rat := [1/16, 5/8, 3/8]
end Witness

-- the imputed series of the permuted window is NOT the permuted imputed series …
open Witness in
#guard (match Model.Isimip.step2Impute cfgImpute xImp uImp, Model.Isimip.step2Impute cfgImpute (take xImp pImp) uImp with
    | .ok r, .ok r' => r' != take r pImp | _, _ => false)
-- … it differs exactly at missing entries (here: the time steps 1 and 7 exchange 11/80 and 7/20), and is a permutation of it
open Witness in
#guard (match Model.Isimip.step2Impute cfgImpute xImp uImp, Model.Isimip.step2Impute cfgImpute (take xImp pImp) uImp with
    | .ok r, .ok r' =>
      ((r'.zip (take r pImp)).zip (take xImp pImp)).all (fun t => t.2.isNone || t.1.1 == t.1.2) &&
      Model.Stats.sortQ r' == Model.Stats.sortQ r &&
      ((r'.zip (take r pImp)).filter (fun t => t.1 != t.2)).length == 2
    | _, _ => false)

end Props.C06
