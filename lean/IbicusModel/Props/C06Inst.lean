/-
  C06 — values stay attached to their time steps, part 2: every debiaser's window function is pointwise over an
  order-free context, hence (by `Props.C06.equivariance_RW / _DC / _years`) permuting the three dated series permutes
  the result exactly like `cm_future` (like `obs` for DeltaChange).

  Window functions are the layer-N models of `Model/Debiasers.lean` / `Model/Isimip.lean` (tied to /repo by
  `harness/debiasers_corr.py`, `harness/isimip_corr.py` and, for LinearScaling / DeltaChange, by the regenerated
  kernels `Lemmas.GenDebiasers.*`).  Exact rational arithmetic: float summation order is carried by the tolerance of
  the harness' oracle (`harness/c06.py`).
  Distribution families are parameters; the only law used is "fit does not depend on the storage order of the
  sample" (`Lemmas.C06.FitPerm`, a consequence of `LocScaleLaws`, proved for the rational test double).
-/
import IbicusModel.Props.C06
import IbicusModel.Props.C16
import IbicusModel.Lemmas.C06Stats
import IbicusModel.Lemmas.C06Rank
import IbicusModel.Lemmas.C06Years
import IbicusModel.Lemmas.C06Except
import IbicusModel.Lemmas.C06Isimip
import IbicusModel.Lemmas.C06Months
import IbicusModel.Lemmas.C06Detrend
import IbicusModel.Lemmas.C06Window
import IbicusModel.Lemmas.C06Centre
import IbicusModel.Lemmas.C06MonthsC
import IbicusModel.Lemmas.C06Cycle
import IbicusModel.Lemmas.GenPrecipFit
import IbicusModel.Lemmas.IsimipModel
import IbicusModel.Lemmas.GenDebiasers

namespace Props.C06
open Model.Skeleton Model.Windows Model.Stats Model.Family Model.Debiasers
open Lemmas.Pointwise Lemmas.Perm Lemmas.C06 Lemmas.Stats Lemmas.Years

/-! ## 0. The shape shared by all instantiations -/

/-- the window function `F obs cm_hist cm_future` is an element-wise map of `cm_future` whose context depends on the
    three window samples only up to their storage order -/
def PointwiseOrderFree {α} (F : List α → List α → List α → List α) : Prop :=
  ∃ G : List α → List α → List α → α → α, (∀ o h x, F o h x = x.map (G o h x)) ∧ OrderFree G

/-- the same, element-wise in `obs` (DeltaChange) -/
def PointwiseOrderFreeObs {α} (F : List α → List α → List α → List α) : Prop :=
  ∃ G : List α → List α → List α → α → α, (∀ o h x, F o h x = o.map (G o h x)) ∧ OrderFree G

/-- a total window function as a `WinFn` (the time / index arguments are not used) -/
def okFn {α} (F : List α → List α → List α → List α) : WinFn α := fun o h x _ _ _ => .ok (F o h x)

/-- **window-free mode** (`running_window_mode = False`: `apply_location` is one call of the window function):
    permuting the three samples permutes the result like `cm_future` -/
theorem equivariance_window {α} (F : List α → List α → List α → List α) (hF : PointwiseOrderFree F)
    (obs hist fut : List α) (pO pH pF : List Nat)
    (hpO : pO.Perm (List.range obs.length)) (hpH : pH.Perm (List.range hist.length))
    (hpF : pF.Perm (List.range fut.length)) :
    F (take obs pO) (take hist pH) (take fut pF) = take (F obs hist fut) pF := by
  obtain ⟨G, hpw, hG⟩ := hF
  rw [hpw, hpw, Lemmas.Lift.take_map,
    hG _ _ _ _ _ _ (take_perm obs pO hpO) (take_perm hist pH hpH) (take_perm fut pF hpF)]

theorem equivariance_window_obs {α} (F : List α → List α → List α → List α) (hF : PointwiseOrderFreeObs F)
    (obs hist fut : List α) (pO pH pF : List Nat)
    (hpO : pO.Perm (List.range obs.length)) (hpH : pH.Perm (List.range hist.length))
    (hpF : pF.Perm (List.range fut.length)) :
    F (take obs pO) (take hist pH) (take fut pF) = take (F obs hist fut) pO := by
  obtain ⟨G, hpw, hG⟩ := hF
  rw [hpw, hpw, Lemmas.Lift.take_map,
    hG _ _ _ _ _ _ (take_perm obs pO hpO) (take_perm hist pH hpH) (take_perm fut pF hpF)]

/-- **running-window mode**: `equivariance_RW` for a total window function of that shape -/
theorem equivariance_RW_of {α} (F : List α → List α → List α → List α) (hF : PointwiseOrderFree F)
    (L S h : Int) (dO dH dF : List Int) (obs hist fut : List α) (pO pH pF : List Nat)
    (hpO : pO.Perm (List.range obs.length)) (hpH : pH.Perm (List.range hist.length))
    (hpF : pF.Perm (List.range fut.length))
    (hlO : dO.length = obs.length) (hlH : dH.length = hist.length) (hlF : dF.length = fut.length)
    (hS : S = 2 * h + 1) (hh : 0 ≤ h) (hSL : S ≤ L) (hr : ∀ d ∈ dF, 1 ≤ d ∧ d ≤ 366) :
    ∃ out, applyLocationRW (okFn F) L S dO dH dF obs hist fut = .ok out ∧
      applyLocationRW (okFn F) L S (take dO pO) (take dH pH) (take dF pF) (take obs pO) (take hist pH) (take fut pF)
        = .ok (take out pF) := by
  obtain ⟨G, hpw, hG⟩ := hF
  exact equivariance_RW (okFn F) G (fun o h x _ _ _ => by simp [okFn, hpw]) hG L S h dO dH dF obs hist fut pO pH pF
    hpO hpH hpF hlO hlH hlF hS hh hSL hr

theorem equivariance_DC_of {α} (F : List α → List α → List α → List α) (hF : PointwiseOrderFreeObs F)
    (L S h : Int) (dO dH dF : List Int) (obs hist fut : List α) (pO pH pF : List Nat)
    (hpO : pO.Perm (List.range obs.length)) (hpH : pH.Perm (List.range hist.length))
    (hpF : pF.Perm (List.range fut.length))
    (hlO : dO.length = obs.length) (hlH : dH.length = hist.length) (hlF : dF.length = fut.length)
    (hS : S = 2 * h + 1) (hh : 0 ≤ h) (hSL : S ≤ L) (hr : ∀ d ∈ dO, 1 ≤ d ∧ d ≤ 366) :
    ∃ out, applyLocationDC (okFn F) L S dO dH dF obs hist fut = .ok out ∧
      applyLocationDC (okFn F) L S (take dO pO) (take dH pH) (take dF pF) (take obs pO) (take hist pH) (take fut pF)
        = .ok (take out pO) := by
  obtain ⟨G, hpw, hG⟩ := hF
  exact equivariance_DC (okFn F) G (fun o h x _ _ _ => by simp [okFn, hpw]) hG L S h dO dH dF obs hist fut pO pH pF
    hpO hpH hpF hlO hlH hlF hS hh hSL hr

/-! ## 1. LinearScaling, DeltaChange (mean based) -/

theorem ls_pointwise_orderfree (d : DeltaType) : PointwiseOrderFree (linearScaling d) := by
  cases d with
  | additive =>
    refine ⟨fun o h _ a => a - (mean h - mean o), fun o h x => rfl, ?_⟩
    intro o o' h h' x x' ho hh _
    simp only [Lemmas.Family.mean_perm ho, Lemmas.Family.mean_perm hh]
  | multiplicative =>
    refine ⟨fun o h _ a => a * (mean o / mean h), fun o h x => rfl, ?_⟩
    intro o o' h h' x x' ho hh _
    simp only [Lemmas.Family.mean_perm ho, Lemmas.Family.mean_perm hh]

theorem dc_pointwise_orderfree (d : DeltaType) : PointwiseOrderFreeObs (deltaChange d) := by
  cases d with
  | additive =>
    refine ⟨fun _ h x a => a + (mean x - mean h), fun o h x => rfl, ?_⟩
    intro o o' h h' x x' _ hh hx
    simp only [Lemmas.Family.mean_perm hx, Lemmas.Family.mean_perm hh]
  | multiplicative =>
    refine ⟨fun _ h x a => a * (mean x / mean h), fun o h x => rfl, ?_⟩
    intro o o' h h' x x' _ hh hx
    simp only [Lemmas.Family.mean_perm hx, Lemmas.Family.mean_perm hh]

/-! ## 2. QuantileMapping -/

theorem qm_param_pointwise_orderfree {P} (Fam : Family P) (hfit : FitPerm Fam) (t : Rat) (d : Detrending) :
    PointwiseOrderFree (qmParam Fam t d) := by
  cases d with
  | additive =>
    refine ⟨fun o h x a => Fam.ppf (Fam.fit o) (thresholdCdf t (Fam.cdf (Fam.fit h) (a - (mean x - mean h))))
      + (mean x - mean h), ?_, ?_⟩
    · intro o h x
      simp only [qmParam, quantileMapping, standardQMParam, List.map_map]
      rfl
    · intro o o' h h' x x' ho hh hx
      simp only [Lemmas.Family.mean_perm hx, Lemmas.Family.mean_perm hh, hfit _ _ ho, hfit _ _ hh]
  | multiplicative =>
    refine ⟨fun o h x a => Fam.ppf (Fam.fit o) (thresholdCdf t (Fam.cdf (Fam.fit h) (a / (mean x / mean h))))
      * (mean x / mean h), ?_, ?_⟩
    · intro o h x
      simp only [qmParam, quantileMapping, standardQMParam, List.map_map]
      rfl
    · intro o o' h h' x x' ho hh hx
      simp only [Lemmas.Family.mean_perm hx, Lemmas.Family.mean_perm hh, hfit _ _ ho, hfit _ _ hh]
  | no_detrending =>
    refine ⟨fun o h _ a => Fam.ppf (Fam.fit o) (thresholdCdf t (Fam.cdf (Fam.fit h) a)), fun o h x => rfl, ?_⟩
    intro o o' h h' x x' ho hh _
    simp only [hfit _ _ ho, hfit _ _ hh]

theorem qm_nonparam_pointwise_orderfree (d : Detrending) : PointwiseOrderFree (qmNonparam d) := by
  cases d with
  | additive =>
    refine ⟨fun o h x a => qmapExtrap1 .step .inverted_cdf h o (a - (mean x - mean h)) + (mean x - mean h), ?_, ?_⟩
    · intro o h x
      simp only [qmNonparam, quantileMapping, standardQMNonparam, Props.C16.qmapExtrap_eq_map, List.map_map]
      rfl
    · intro o o' h h' x x' ho hh hx
      simp only [Lemmas.Family.mean_perm hx, Lemmas.Family.mean_perm hh, qmapExtrap1_perm .step .inverted_cdf hh ho]
  | multiplicative =>
    refine ⟨fun o h x a => qmapExtrap1 .step .inverted_cdf h o (a / (mean x / mean h)) * (mean x / mean h), ?_, ?_⟩
    · intro o h x
      simp only [qmNonparam, quantileMapping, standardQMNonparam, Props.C16.qmapExtrap_eq_map, List.map_map]
      rfl
    · intro o o' h h' x x' ho hh hx
      simp only [Lemmas.Family.mean_perm hx, Lemmas.Family.mean_perm hh, qmapExtrap1_perm .step .inverted_cdf hh ho]
  | no_detrending =>
    refine ⟨fun o h _ a => qmapExtrap1 .step .inverted_cdf h o a, ?_, ?_⟩
    · intro o h x
      simp only [qmNonparam, quantileMapping, standardQMNonparam, Props.C16.qmapExtrap_eq_map]
    · intro o o' h h' x x' ho hh _
      simp only [qmapExtrap1_perm .step .inverted_cdf hh ho]

/-! ## 3. ECDFM, QuantileDeltaMapping (one window, no year windows), CDFt mapping -/

theorem ecdfm_pointwise_orderfree {P} (Fam : Family P) (hfit : FitPerm Fam) (t : Rat) :
    PointwiseOrderFree (ecdfm Fam t) := by
  refine ⟨fun o h x a => a + Fam.ppf (Fam.fit o) (thresholdCdf t (Fam.cdf (Fam.fit x) a))
    - Fam.ppf (Fam.fit h) (thresholdCdf t (Fam.cdf (Fam.fit x) a)), fun o h x => rfl, ?_⟩
  intro o o' h h' x x' ho hh hx
  simp only [hfit _ _ ho, hfit _ _ hh, hfit _ _ hx]

theorem qdm_pointwise_orderfree {P} (Fam : Family P) (hfit : FitPerm Fam) (tp : TrendPres) (em : EcdfMethod)
    (t : Rat) (c : Option Rat) : PointwiseOrderFree (qdmWindow Fam tp em t c) := by
  refine ⟨fun o h x a => qdmCensor c (qdmCore Fam tp (Fam.fit o) (Fam.fit h) a (thresholdCdf t (ecdf1 em x a))),
    fun o h x => rfl, ?_⟩
  intro o o' h h' x x' ho hh hx
  simp only [hfit _ _ ho, hfit _ _ hh, ecdf1_perm em hx]

/-- the shifted samples of `_apply_CDFt_mapping` as element-wise maps -/
def cdftShift (d : DeltaShift) (obs H : List Rat) (a : Rat) : Rat :=
  match d with
  | .additive => a + (mean obs - mean H)
  | .multiplicative => a * (mean obs / mean H)
  | .no_shift => a

theorem cdftShifted_eq (d : DeltaShift) (obs H F : List Rat) :
    cdftShifted d obs H F = (H.map (cdftShift d obs H), F.map (cdftShift d obs H)) := by
  cases d with
  | additive => rfl
  | multiplicative => rfl
  | no_shift =>
    have : cdftShift .no_shift obs H = id := rfl
    simp [cdftShifted, this]

/-- CDFt without SSR, for every pair of `ecdf` / `iecdf` methods: no tie-freeness is needed (both empirical
    functions are functions of the sorted sample; nothing is sorted back) -/
theorem cdft_pointwise_orderfree (d : DeltaShift) (em : EcdfMethod) (im : IecdfMethod) :
    PointwiseOrderFree (cdftMapping d em im) := by
  refine ⟨fun o h x a => iecdf1 im (x.map (cdftShift d o h))
    (ecdf1 em (h.map (cdftShift d o h)) (iecdf1 im o (ecdf1 em (x.map (cdftShift d o h)) (cdftShift d o h a)))), ?_, ?_⟩
  · intro o h x
    simp only [cdftMapping, cdftMappingG, cdftShifted_eq, cdftStage1, cdftStage2, cdftStage3, cdftStage4,
      List.map_map]
    rfl
  · intro o o' h h' x x' ho hh hx
    have hs : cdftShift d o h = cdftShift d o' h' := by
      funext a
      cases d <;> simp only [cdftShift, Lemmas.Family.mean_perm ho, Lemmas.Family.mean_perm hh]
    funext a
    simp only [hs]
    rw [iecdf1_perm im (hx.map _), ecdf1_perm em (hh.map _), iecdf1_perm im ho, ecdf1_perm em (hx.map _)]

/-! ## 4. ScaledDistributionMapping (absolute) — rank based, tie-free `cm_future`

  Full statement: for a tie-free future window sample the result is `cm_future` mapped element-wise with a context
  that depends on the three samples up to permutation; the value at a step depends on its own value and on
  `#{w ∈ cm_future | w < value}` only.  With ties the stable-argsort model and numpy's unstable `argsort` may order
  equal values differently: outside the property ("tie-free values for rank-based methods"). -/

/-- the element-wise form that `sdmAbsolute` takes on tie-free samples (total, defined for every sample) -/
def sdmAbsolutePW (Fam : LocScaleFam) (o h x : List Rat) : List Rat := x.map (sdmAbsG Fam o h x)

theorem sdmAbsolute_eq_PW (Fam : LocScaleFam) (o h x : List Rat) (hx : x.Nodup) :
    sdmAbsolute Fam o h x = sdmAbsolutePW Fam o h x := sdmAbsolute_pointwise Fam o h x hx

theorem sdm_absolute_pointwise_orderfree (Fam : LocScaleFam) (hfit : LocScalePerm Fam) :
    PointwiseOrderFree (sdmAbsolutePW Fam) :=
  ⟨sdmAbsG Fam, fun _ _ _ => rfl, fun _ _ _ _ _ _ ho hh hx => sdmAbsG_orderFree Fam hfit ho hh hx⟩

/-! ## 5. ISIMIP step 6 — rank based, tie-free `cm_future`, every configuration

  `step6` sorts the four samples, computes `mapped_vals` from the sorted samples and returns
  `mapped_vals[argsort(argsort(cm_future))]`.  Errors (`Except`) are part of the context. -/

open Model.Isimip in
/-- `mapped_vals` (sorted order of `cm_future`) or the error: the order-free context of step 6 -/
def step6Ctx (c : Cfg) (fam : IsiFamily) (o : Oracles) (obs obsFut H F : List Rat) : Except String (List Rat) :=
  (step6Full c fam o obs obsFut H F).map (·.mappedSorted)

theorem except_map_bind {ε α β γ} (x : Except ε α) (g : α → Except ε β) (f : β → γ) :
    Except.map f (x >>= g) = x >>= fun a => Except.map f (g a) := by
  cases x <;> rfl

theorem except_map_ite {ε α β} (f : α → β) (P : Prop) [Decidable P] (a b : Except ε α) :
    Except.map f (if P then a else b) = if P then Except.map f a else Except.map f b := by
  split_ifs <;> rfl

theorem except_bind_congr {ε α β} (x : Except ε α) (g g' : α → Except ε β) (h : ∀ a, g a = g' a) :
    (x >>= g) = (x >>= g') := by
  have : g = g' := funext h
  rw [this]

open Model.Isimip in
/-- the return value of `step6` is its `mapped_vals` read through the ranks of `cm_future` -/
theorem step6_eq_ctx (c : Cfg) (fam : IsiFamily) (o : Oracles) (obs obsFut H F : List Rat) :
    step6 c fam o obs obsFut H F = (step6Ctx c fam o obs obsFut H F).map (fun m => takeIdx m (rankOf F)) := by
  unfold step6 step6Ctx step6Full
  simp only [except_map_bind]
  apply except_bind_congr; intro m1
  apply except_bind_congr; intro m2
  simp only [except_map_ite, except_map_bind]
  refine if_congr Iff.rfl (if_congr Iff.rfl ?_ rfl) rfl
  apply except_bind_congr; intro t
  obtain ⟨a, b, c⟩ := t
  rfl

open Model.Isimip in
/-- **the context of step 6 does not depend on the storage order of any of its four samples** (every configuration,
    every family, no tie-freeness: `cm_future[argsort(cm_future)]` is `sort(cm_future)`) -/
theorem step6Ctx_perm (c : Cfg) (fam : IsiFamily) (o : Oracles) {obs obs' oF oF' H H' F F' : List Rat}
    (ho : obs.Perm obs') (hof : oF.Perm oF') (hh : H.Perm H') (hx : F.Perm F') :
    step6Ctx c fam o obs oF H F = step6Ctx c fam o obs' oF' H' F' := by
  unfold step6Ctx step6Full
  rw [takeIdx_argsort, takeIdx_argsort, sortQ_congr ho, sortQ_congr hof, sortQ_congr hh, sortQ_congr hx]
  simp only [except_map_bind]
  apply except_bind_congr; intro m1
  apply except_bind_congr; intro m2
  simp only [except_map_ite, except_map_bind]
  refine if_congr Iff.rfl (if_congr Iff.rfl ?_ rfl) rfl
  apply except_bind_congr; intro t
  obtain ⟨a, b, c⟩ := t
  rfl

open Model.Isimip in
/-- **ISIMIP step 6 on a tie-free `cm_future` is an element-wise map over an order-free (error-aware) context**:
    the value of a step is `mapped_vals[#{w ∈ cm_future | w < value}]`. -/
theorem isimip_step6_pointwise_orderfree (c : Cfg) (fam : IsiFamily) (o : Oracles) (obs oF H F : List Rat)
    (hF : F.Nodup) :
    step6 c fam o obs oF H F =
      (step6Ctx c fam o obs oF H F).map (fun m => F.map (fun a => m.getD (rankLt F a) 0)) := by
  rw [step6_eq_ctx]
  congr 1
  funext m
  exact takeIdx_rankOf_nodup m F hF

open Model.Isimip in
/-- step 6 is time-order equivariant on one window: permuting `obs_hist`, the pseudo-future observations, `cm_hist`
    and a tie-free `cm_future` permutes the result like `cm_future` (errors are reproduced) -/
theorem isimip_step6_time_order_equivariant (c : Cfg) (fam : IsiFamily) (o : Oracles) (obs oF H F : List Rat)
    (pO pOF pH pF : List Nat) (hF : F.Nodup)
    (hpO : pO.Perm (List.range obs.length)) (hpOF : pOF.Perm (List.range oF.length))
    (hpH : pH.Perm (List.range H.length)) (hpF : pF.Perm (List.range F.length)) :
    step6 c fam o (take obs pO) (take oF pOF) (take H pH) (take F pF) =
      (step6 c fam o obs oF H F).map (fun out => take out pF) := by
  have hFp := take_perm F pF hpF
  rw [isimip_step6_pointwise_orderfree c fam o _ _ _ _ (take_perm_nodup F pF hpF hF),
    isimip_step6_pointwise_orderfree c fam o obs oF H F hF,
    step6Ctx_perm c fam o (take_perm obs pO hpO) (take_perm oF pOF hpOF) (take_perm H pH hpH) hFp]
  cases step6Ctx c fam o obs oF H F with
  | error e => rfl
  | ok m =>
    simp only [Except.map]
    congr 1
    rw [Lemmas.Lift.take_map]
    apply List.map_congr_left
    intro a _
    rw [rankLt_perm hFp]

/-! ## 6. The property for each debiaser: permuting the three dated series permutes the result like `cm_future`

  `TimeOrderEquivariantRW f` is the conclusion of `equivariance_RW` with every guard explicit: each series is permuted
  together with its days of year by its own permutation (`p ~ range n`, permuted list `take x p`); window step `S = 2h+1`
  odd and `S ≤ L` (what `__attrs_post_init__` establishes, C07), days of year in `1..366`. -/

def TimeOrderEquivariantRW {α} (f : WinFn α) (ok : List α → Prop) : Prop :=
  ∀ (L S h : Int) (dO dH dF : List Int) (obs hist fut : List α) (pO pH pF : List Nat),
    pO.Perm (List.range obs.length) → pH.Perm (List.range hist.length) → pF.Perm (List.range fut.length) →
    dO.length = obs.length → dH.length = hist.length → dF.length = fut.length →
    S = 2 * h + 1 → 0 ≤ h → S ≤ L → (∀ d ∈ dF, 1 ≤ d ∧ d ≤ 366) → ok fut →
    ∃ out, applyLocationRW f L S dO dH dF obs hist fut = .ok out ∧
      applyLocationRW f L S (take dO pO) (take dH pH) (take dF pF) (take obs pO) (take hist pH) (take fut pF)
        = .ok (take out pF)

/-- DeltaChange: the loop runs over the days of `obs`; the result is permuted like `obs` -/
def TimeOrderEquivariantDC {α} (f : WinFn α) : Prop :=
  ∀ (L S h : Int) (dO dH dF : List Int) (obs hist fut : List α) (pO pH pF : List Nat),
    pO.Perm (List.range obs.length) → pH.Perm (List.range hist.length) → pF.Perm (List.range fut.length) →
    dO.length = obs.length → dH.length = hist.length → dF.length = fut.length →
    S = 2 * h + 1 → 0 ≤ h → S ≤ L → (∀ d ∈ dO, 1 ≤ d ∧ d ≤ 366) →
    ∃ out, applyLocationDC f L S dO dH dF obs hist fut = .ok out ∧
      applyLocationDC f L S (take dO pO) (take dH pH) (take dF pF) (take obs pO) (take hist pH) (take fut pF)
        = .ok (take out pO)

/-- no guard on the values -/
def anySeries {α} : List α → Prop := fun _ => True

theorem timeOrderEquivariantRW_of {α} (F : List α → List α → List α → List α) (hF : PointwiseOrderFree F) :
    TimeOrderEquivariantRW (okFn F) anySeries :=
  fun L S h dO dH dF obs hist fut pO pH pF hpO hpH hpF hlO hlH hlF hS hh hSL hr _ =>
    equivariance_RW_of F hF L S h dO dH dF obs hist fut pO pH pF hpO hpH hpF hlO hlH hlF hS hh hSL hr

/-- a window function that is of the pointwise / order-free shape on tie-free future samples: the property holds for
    tie-free `cm_future` series -/
theorem timeOrderEquivariantRW_of_nodup {α} (F F' : List α → List α → List α → List α)
    (hFF : ∀ o h x, x.Nodup → F o h x = F' o h x) (hF' : PointwiseOrderFree F') :
    TimeOrderEquivariantRW (okFn F) List.Nodup := by
  intro L S h dO dH dF obs hist fut pO pH pF hpO hpH hpF hlO hlH hlF hS hh hSL hr hnd
  have e : ∀ o h x (io ih ix : List Nat), x.Nodup → okFn F o h x io ih ix = okFn F' o h x io ih ix :=
    fun o h x _ _ _ hx => by simp only [okFn, hFF o h x hx]
  rw [applyLocationRW_congr_nodup (okFn F) (okFn F') e L S dO dH dF obs hist fut hnd,
    applyLocationRW_congr_nodup (okFn F) (okFn F') e L S _ _ _ _ _ _ (take_perm_nodup fut pF hpF hnd)]
  exact equivariance_RW_of F' hF' L S h dO dH dF obs hist fut pO pH pF hpO hpH hpF hlO hlH hlF hS hh hSL hr

theorem ls_time_order_equivariant (d : DeltaType) : TimeOrderEquivariantRW (okFn (linearScaling d)) anySeries :=
  timeOrderEquivariantRW_of _ (ls_pointwise_orderfree d)

/-- … and for the string-dispatching kernel regenerated from /repo (tier A, `Lemmas.GenDebiasers.ls_apply_on_window`)
    with a validated `delta_type` -/
theorem ls_gen_time_order_equivariant :
    TimeOrderEquivariantRW (fun o h x _ _ _ => Gen.Debiasers.ls_apply_on_window "additive" o h x) anySeries ∧
    TimeOrderEquivariantRW (fun o h x _ _ _ => Gen.Debiasers.ls_apply_on_window "multiplicative" o h x) anySeries := by
  constructor
  · have : (fun o h x (_ _ _ : List Nat) => Gen.Debiasers.ls_apply_on_window "additive" o h x)
        = okFn (linearScaling .additive) := by
      funext o h x _ _ _
      rw [Lemmas.GenDebiasers.ls_apply_on_window, Lemmas.GenDebiasers.linearScalingS_additive]; rfl
    rw [this]; exact ls_time_order_equivariant _
  · have : (fun o h x (_ _ _ : List Nat) => Gen.Debiasers.ls_apply_on_window "multiplicative" o h x)
        = okFn (linearScaling .multiplicative) := by
      funext o h x _ _ _
      rw [Lemmas.GenDebiasers.ls_apply_on_window, Lemmas.GenDebiasers.linearScalingS_multiplicative]; rfl
    rw [this]; exact ls_time_order_equivariant _

theorem dc_time_order_equivariant (d : DeltaType) : TimeOrderEquivariantDC (okFn (deltaChange d)) :=
  fun L S h dO dH dF obs hist fut pO pH pF hpO hpH hpF hlO hlH hlF hS hh hSL hr =>
    equivariance_DC_of _ (dc_pointwise_orderfree d) L S h dO dH dF obs hist fut pO pH pF hpO hpH hpF hlO hlH hlF
      hS hh hSL hr

theorem dc_gen_time_order_equivariant :
    TimeOrderEquivariantDC (fun o h x _ _ _ => Gen.Debiasers.dc_apply_on_within_year_window "additive" o h x) ∧
    TimeOrderEquivariantDC (fun o h x _ _ _ => Gen.Debiasers.dc_apply_on_within_year_window "multiplicative" o h x) := by
  constructor
  · have : (fun o h x (_ _ _ : List Nat) => Gen.Debiasers.dc_apply_on_within_year_window "additive" o h x)
        = okFn (deltaChange .additive) := by
      funext o h x _ _ _
      rw [Lemmas.GenDebiasers.dc_apply_on_within_year_window, Lemmas.GenDebiasers.deltaChangeS_additive]; rfl
    rw [this]; exact dc_time_order_equivariant _
  · have : (fun o h x (_ _ _ : List Nat) => Gen.Debiasers.dc_apply_on_within_year_window "multiplicative" o h x)
        = okFn (deltaChange .multiplicative) := by
      funext o h x _ _ _
      rw [Lemmas.GenDebiasers.dc_apply_on_within_year_window, Lemmas.GenDebiasers.deltaChangeS_multiplicative]; rfl
    rw [this]; exact dc_time_order_equivariant _

theorem qm_param_time_order_equivariant {P} (Fam : Family P) (hfit : FitPerm Fam) (t : Rat) (d : Detrending) :
    TimeOrderEquivariantRW (okFn (qmParam Fam t d)) anySeries :=
  timeOrderEquivariantRW_of _ (qm_param_pointwise_orderfree Fam hfit t d)

theorem qm_nonparam_time_order_equivariant (d : Detrending) :
    TimeOrderEquivariantRW (okFn (qmNonparam d)) anySeries :=
  timeOrderEquivariantRW_of _ (qm_nonparam_pointwise_orderfree d)

theorem ecdfm_time_order_equivariant {P} (Fam : Family P) (hfit : FitPerm Fam) (t : Rat) :
    TimeOrderEquivariantRW (okFn (ecdfm Fam t)) anySeries :=
  timeOrderEquivariantRW_of _ (ecdfm_pointwise_orderfree Fam hfit t)

/-- QDM with the seasonal window only (`running_window_mode_over_years_of_cm_future = False`) -/
theorem qdm_time_order_equivariant {P} (Fam : Family P) (hfit : FitPerm Fam) (tp : TrendPres) (em : EcdfMethod)
    (t : Rat) (c : Option Rat) : TimeOrderEquivariantRW (okFn (qdmWindow Fam tp em t c)) anySeries :=
  timeOrderEquivariantRW_of _ (qdm_pointwise_orderfree Fam hfit tp em t c)

/-- CDFt with the seasonal window only, `SSR = False` (with SSR the zero values are replaced by fresh random draws:
    the result is a random variable, equivariant in distribution only — outside a deterministic statement) -/
theorem cdft_time_order_equivariant (d : DeltaShift) (em : EcdfMethod) (im : IecdfMethod) :
    TimeOrderEquivariantRW (okFn (cdftMapping d em im)) anySeries :=
  timeOrderEquivariantRW_of _ (cdft_pointwise_orderfree d em im)

/-- absolute SDM, tie-free `cm_future` -/
theorem sdm_absolute_time_order_equivariant (Fam : LocScaleFam) (hfit : LocScalePerm Fam) :
    TimeOrderEquivariantRW (okFn (sdmAbsolute Fam)) List.Nodup :=
  timeOrderEquivariantRW_of_nodup _ _ (sdmAbsolute_eq_PW Fam) (sdm_absolute_pointwise_orderfree Fam hfit)

/-- window-free mode, all at once -/
theorem window_free_time_order_equivariant {P} (Fam : Family P) (hfit : FitPerm Fam)
    (obs hist fut : List Rat) (pO pH pF : List Nat)
    (hpO : pO.Perm (List.range obs.length)) (hpH : pH.Perm (List.range hist.length))
    (hpF : pF.Perm (List.range fut.length)) :
    (∀ d, linearScaling d (take obs pO) (take hist pH) (take fut pF) = take (linearScaling d obs hist fut) pF) ∧
    (∀ d, deltaChange d (take obs pO) (take hist pH) (take fut pF) = take (deltaChange d obs hist fut) pO) ∧
    (∀ t d, qmParam Fam t d (take obs pO) (take hist pH) (take fut pF) = take (qmParam Fam t d obs hist fut) pF) ∧
    (∀ d, qmNonparam d (take obs pO) (take hist pH) (take fut pF) = take (qmNonparam d obs hist fut) pF) ∧
    (∀ t, ecdfm Fam t (take obs pO) (take hist pH) (take fut pF) = take (ecdfm Fam t obs hist fut) pF) ∧
    (∀ tp em t c, qdmWindow Fam tp em t c (take obs pO) (take hist pH) (take fut pF)
        = take (qdmWindow Fam tp em t c obs hist fut) pF) ∧
    (∀ d em im, cdftMapping d em im (take obs pO) (take hist pH) (take fut pF)
        = take (cdftMapping d em im obs hist fut) pF) :=
  ⟨fun d => equivariance_window _ (ls_pointwise_orderfree d) obs hist fut pO pH pF hpO hpH hpF,
   fun d => equivariance_window_obs _ (dc_pointwise_orderfree d) obs hist fut pO pH pF hpO hpH hpF,
   fun t d => equivariance_window _ (qm_param_pointwise_orderfree Fam hfit t d) obs hist fut pO pH pF hpO hpH hpF,
   fun d => equivariance_window _ (qm_nonparam_pointwise_orderfree d) obs hist fut pO pH pF hpO hpH hpF,
   fun t => equivariance_window _ (ecdfm_pointwise_orderfree Fam hfit t) obs hist fut pO pH pF hpO hpH hpF,
   fun tp em t c => equivariance_window _ (qdm_pointwise_orderfree Fam hfit tp em t c) obs hist fut pO pH pF hpO hpH hpF,
   fun d em im => equivariance_window _ (cdft_pointwise_orderfree d em im) obs hist fut pO pH pF hpO hpH hpF⟩

theorem sdm_absolute_window_free (Fam : LocScaleFam) (hfit : LocScalePerm Fam) (obs hist fut : List Rat)
    (pO pH pF : List Nat) (hnd : fut.Nodup)
    (hpO : pO.Perm (List.range obs.length)) (hpH : pH.Perm (List.range hist.length))
    (hpF : pF.Perm (List.range fut.length)) :
    sdmAbsolute Fam (take obs pO) (take hist pH) (take fut pF) = take (sdmAbsolute Fam obs hist fut) pF := by
  rw [sdmAbsolute_eq_PW Fam _ _ _ (take_perm_nodup fut pF hpF hnd), sdmAbsolute_eq_PW Fam _ _ _ hnd]
  exact equivariance_window _ (sdm_absolute_pointwise_orderfree Fam hfit) obs hist fut pO pH pF hpO hpH hpF

/-! ## 7. CDFt / QDM with the seasonal window AND the running window over the years of the future period -/

theorem cdftYearFn_pointwise (d : DeltaShift) (em : EcdfMethod) (im : IecdfMethod) :
    ∃ G : List Rat → List Rat → List Rat → Rat → Rat,
      (∀ o h, PointwiseY (cdftYearFn d em im o h) (G o h)) ∧
      (∀ o o' h h' x x' : List Rat, o.Perm o' → h.Perm h' → x.Perm x' → G o h x = G o' h' x') := by
  obtain ⟨G, hpw, hG⟩ := cdft_pointwise_orderfree d em im
  exact ⟨G, fun o h x _ => by simp [cdftYearFn, hpw], hG⟩

theorem qdmYearFn_pointwise {P} (Fam : Family P) (hfit : FitPerm Fam) (tp : TrendPres) (em : EcdfMethod) (t : Rat)
    (c : Option Rat) :
    ∃ G : List Rat → List Rat → List Rat → Rat → Rat,
      (∀ o h, PointwiseY (qdmYearFn Fam tp em t c o h) (G o h)) ∧
      (∀ o o' h h' x x' : List Rat, o.Perm o' → h.Perm h' → x.Perm x' → G o h x = G o' h' x') := by
  obtain ⟨G, hpw, hG⟩ := qdm_pointwise_orderfree Fam hfit tp em t c
  refine ⟨G, fun o h x _ => ?_, hG⟩
  have := hpw o h x
  simp only [qdmWindow] at this
  simp [qdmYearFn, this]

/-- the year loop alone (`running_window_mode = False`, year windows on): `equivariance_years` applies -/
theorem cdft_years_only_time_order_equivariant (d : DeltaShift) (em : EcdfMethod) (im : IecdfMethod)
    (obs H : List Rat) (YL YS hY : Int) (years : List Int) (fut : List Rat) (p : List Nat)
    (hp : p.Perm (List.range fut.length)) (hlen : years.length = fut.length)
    (hS : YS = 2 * hY + 1) (hh : 0 ≤ hY) (hSL : YS ≤ YL) :
    ∃ out, cdftWindowYears d em im YL YS years obs H fut = .ok out ∧
      cdftWindowYears d em im YL YS (take years p) obs H (take fut p) = .ok (take out p) := by
  obtain ⟨G, hpw, hG⟩ := cdftYearFn_pointwise d em im
  have hv := perm_valid p hp
  have hvy : ∀ j ∈ p, j < years.length := fun j hj => hlen ▸ hv j hj
  unfold cdftWindowYears
  rw [if_neg (by simpa using hlen), if_neg (by rw [take_length years p hvy, take_length fut p hv]; simp)]
  exact equivariance_years _ (G obs H) (hpw obs H) (fun x x' hx => hG _ _ _ _ _ _ (List.Perm.refl _) (List.Perm.refl _) hx)
    YL YS hY years fut p hp hlen hS hh hSL

theorem qdm_years_only_time_order_equivariant {P} (Fam : Family P) (hfit : FitPerm Fam) (tp : TrendPres)
    (em : EcdfMethod) (t : Rat) (c : Option Rat)
    (obs H : List Rat) (YL YS hY : Int) (years : List Int) (fut : List Rat) (p : List Nat)
    (hp : p.Perm (List.range fut.length)) (hlen : years.length = fut.length)
    (hS : YS = 2 * hY + 1) (hh : 0 ≤ hY) (hSL : YS ≤ YL) :
    ∃ out, qdmWindowYears Fam tp em t c YL YS years obs H fut = .ok out ∧
      qdmWindowYears Fam tp em t c YL YS (take years p) obs H (take fut p) = .ok (take out p) := by
  obtain ⟨G, hpw, hG⟩ := qdmYearFn_pointwise Fam hfit tp em t c
  have hv := perm_valid p hp
  have hvy : ∀ j ∈ p, j < years.length := fun j hj => hlen ▸ hv j hj
  unfold qdmWindowYears
  rw [if_neg (by simpa using hlen), if_neg (by rw [take_length years p hvy, take_length fut p hv]; simp)]
  exact equivariance_years _ (G obs H) (hpw obs H) (fun x x' hx => hG _ _ _ _ _ _ (List.Perm.refl _) (List.Perm.refl _) hx)
    YL YS hY years fut p hp hlen hS hh hSL

/-- **CDFt, seasonal and year windows together** (`SSR = False`): values are dated pairs (value, year); permuting the
    three dated series permutes the result like `cm_future`, every step keeping its year -/
theorem cdft_years_time_order_equivariant (d : DeltaShift) (em : EcdfMethod) (im : IecdfMethod)
    (YL YS hY : Int) (hS : YS = 2 * hY + 1) (hh : 0 ≤ hY) (hSL : YS ≤ YL) :
    TimeOrderEquivariantRW (yearsWinFn (cdftYearFn d em im) YL YS) anySeries := by
  obtain ⟨G, hpw, hG⟩ := cdftYearFn_pointwise d em im
  intro L S h dO dH dF obs hist fut pO pH pF hpO hpH hpF hlO hlH hlF hS' hh' hSL' hr _
  exact equivariance_RW _ (yearCtx G YL YS) (yearsWinFn_pointwise _ G hpw YL YS hY hS hh hSL)
    (fun o o' h h' x x' ho hh hx => yearCtx_orderFree G YL YS hG o o' h h' x x' ho hh hx)
    L S h dO dH dF obs hist fut pO pH pF hpO hpH hpF hlO hlH hlF hS' hh' hSL' hr

/-- **QDM, seasonal and year windows together** -/
theorem qdm_years_time_order_equivariant {P} (Fam : Family P) (hfit : FitPerm Fam) (tp : TrendPres) (em : EcdfMethod)
    (t : Rat) (c : Option Rat) (YL YS hY : Int) (hS : YS = 2 * hY + 1) (hh : 0 ≤ hY) (hSL : YS ≤ YL) :
    TimeOrderEquivariantRW (yearsWinFn (qdmYearFn Fam tp em t c) YL YS) anySeries := by
  obtain ⟨G, hpw, hG⟩ := qdmYearFn_pointwise Fam hfit tp em t c
  intro L S h dO dH dF obs hist fut pO pH pF hpO hpH hpF hlO hlH hlF hS' hh' hSL' hr _
  exact equivariance_RW _ (yearCtx G YL YS) (yearsWinFn_pointwise _ G hpw YL YS hY hS hh hSL)
    (fun o o' h h' x x' ho hh hx => yearCtx_orderFree G YL YS hG o o' h h' x x' ho hh hx)
    L S h dO dH dF obs hist fut pO pH pF hpO hpH hpF hlO hlH hlF hS' hh' hSL' hr

/-- the composite window function is the model's `cdftWindowYears` on the window's dated future sample (every step
    assigned; values re-attached to their years) -/
theorem yearsWinFn_cdft_eq (d : DeltaShift) (em : EcdfMethod) (im : IecdfMethod) (YL YS : Int) (o h x : List Dated)
    (io ih ix : List Nat) :
    yearsWinFn (cdftYearFn d em im) YL YS o h x io ih ix =
      match cdftWindowYears d em im YL YS (x.map Prod.snd) (o.map Prod.fst) (h.map Prod.fst) (x.map Prod.fst) with
      | .error e => .error e
      | .ok out => match allSome out with
        | none => .error "unassigned"
        | some vals => .ok (vals.zip (x.map Prod.snd)) := by
  unfold yearsWinFn cdftWindowYears
  rw [if_neg (by simp)]
  rfl

theorem yearsWinFn_qdm_eq {P} (Fam : Family P) (tp : TrendPres) (em : EcdfMethod) (t : Rat) (c : Option Rat)
    (YL YS : Int) (o h x : List Dated) (io ih ix : List Nat) :
    yearsWinFn (qdmYearFn Fam tp em t c) YL YS o h x io ih ix =
      match qdmWindowYears Fam tp em t c YL YS (x.map Prod.snd) (o.map Prod.fst) (h.map Prod.fst) (x.map Prod.fst) with
      | .error e => .error e
      | .ok out => match allSome out with
        | none => .error "unassigned"
        | some vals => .ok (vals.zip (x.map Prod.snd)) := by
  unfold yearsWinFn qdmWindowYears
  rw [if_neg (by simp)]
  rfl

/-! ## 8. ScaledDistributionMapping (relative, precipitation) — rank based, tie-free `cm_future` -/

/-- the sorted result (`cm_future` in sorted order after step 6) or the error: the order-free context -/
def sdmRelCtx {P} (Fam : Family P) (thr t : Rat) (obs H F : List Rat) : Except String (List Rat) :=
  let rO := rainy thr (sortQ obs)
  let rH := rainy thr (sortQ H)
  let fS := sortQ F
  let rF := rainy thr fS
  if rO.length = 0 ∨ rH.length = 0 ∨ rF.length = 0 then .error "ValueError"
  else
    let expected := sdmRelExpected rF.length rO.length obs.length rH.length H.length
    let bc := sdmRelBcInitial Fam t rO rH rF
    .ok (List.replicate (fS.length - expected) (0 : Rat) ++ bc.drop (bc.length - expected))

theorem sdmRelative_eq_ctx {P} (Fam : Family P) (thr t : Rat) (obs H F : List Rat) :
    sdmRelative Fam thr t obs H F = (sdmRelCtx Fam thr t obs H F).map (fun m => takeIdx m (rankOf F)) := by
  unfold sdmRelative sdmRelCtx
  rw [takeIdx_argsort]
  simp only []
  split_ifs <;> rfl

theorem sdmRelCtx_perm {P} (Fam : Family P) (thr t : Rat) {obs obs' H H' F F' : List Rat}
    (ho : obs.Perm obs') (hh : H.Perm H') (hx : F.Perm F') :
    sdmRelCtx Fam thr t obs H F = sdmRelCtx Fam thr t obs' H' F' := by
  unfold sdmRelCtx
  rw [sortQ_congr ho, sortQ_congr hh, sortQ_congr hx, ho.length_eq, hh.length_eq]

/-- **relative SDM on a tie-free `cm_future` is an element-wise map over an order-free (error-aware) context** -/
theorem sdm_relative_pointwise_orderfree {P} (Fam : Family P) (thr t : Rat) (obs H F : List Rat) (hF : F.Nodup) :
    sdmRelative Fam thr t obs H F =
      (sdmRelCtx Fam thr t obs H F).map (fun m => F.map (fun a => m.getD (rankLt F a) 0)) := by
  rw [sdmRelative_eq_ctx]
  congr 1
  funext m
  exact takeIdx_rankOf_nodup m F hF

/-- relative SDM is time-order equivariant on one window (`running_window_mode = False`, or one window of the loop);
    errors are reproduced.  No family law is needed: every fit is taken on a sorted sample. -/
theorem sdm_relative_time_order_equivariant {P} (Fam : Family P) (thr t : Rat) (obs H F : List Rat)
    (pO pH pF : List Nat) (hF : F.Nodup)
    (hpO : pO.Perm (List.range obs.length)) (hpH : pH.Perm (List.range H.length))
    (hpF : pF.Perm (List.range F.length)) :
    sdmRelative Fam thr t (take obs pO) (take H pH) (take F pF) =
      (sdmRelative Fam thr t obs H F).map (fun out => take out pF) := by
  have hFp := take_perm F pF hpF
  rw [sdm_relative_pointwise_orderfree Fam thr t _ _ _ (take_perm_nodup F pF hpF hF),
    sdm_relative_pointwise_orderfree Fam thr t obs H F hF,
    sdmRelCtx_perm Fam thr t (take_perm obs pO hpO) (take_perm H pH hpH) hFp]
  cases sdmRelCtx Fam thr t obs H F with
  | error e => rfl
  | ok m =>
    simp only [Except.map]
    congr 1
    rw [Lemmas.Lift.take_map]
    apply List.map_congr_left
    intro a _
    rw [rankLt_perm hFp]

/-! ## 9. Window functions that may raise, in the running-window loop: relative SDM, ISIMIP `_apply_on_window`

  (The ISIMIP theorems of this section — `…_partial`: no bound / threshold pair, the same oracle for every window — are
  kept as the simple special cases; §9b–9c state the property for EVERY configuration, with oracles / draws per window, on
  `Model.Isimip.applyLocationRW` / `applyLocationMonths` themselves.)

  `TimeOrderEquivariantRWE f ok`: under the guards of `TimeOrderEquivariantRW`, either both runs succeed and the result
  is permuted like `cm_future`, or both runs raise the same error. -/

def TimeOrderEquivariantRWE {α} (f : WinFn α) (ok : List α → Prop) : Prop :=
  ∀ (L S h : Int) (dO dH dF : List Int) (obs hist fut : List α) (pO pH pF : List Nat),
    pO.Perm (List.range obs.length) → pH.Perm (List.range hist.length) → pF.Perm (List.range fut.length) →
    dO.length = obs.length → dH.length = hist.length → dF.length = fut.length →
    S = 2 * h + 1 → 0 ≤ h → S ≤ L → (∀ d ∈ dF, 1 ≤ d ∧ d ≤ 366) → ok fut →
    (∃ out, applyLocationRW f L S dO dH dF obs hist fut = .ok out ∧
      applyLocationRW f L S (take dO pO) (take dH pH) (take dF pF) (take obs pO) (take hist pH) (take fut pF)
        = .ok (take out pF)) ∨
    (∃ e, applyLocationRW f L S dO dH dF obs hist fut = .error e ∧
      applyLocationRW f L S (take dO pO) (take dH pH) (take dF pF) (take obs pO) (take hist pH) (take fut pF)
        = .error e)

theorem timeOrderEquivariantRWE_of_nodup {α C} (f f' : WinFn α)
    (hff : ∀ o h x io ih ix, x.Nodup → f o h x io ih ix = f' o h x io ih ix)
    (E : List α → List α → List α → Except String C) (G : C → List α → α → α)
    (hf' : PointwiseOnE f' E G) (hE : OrderFreeE E G) : TimeOrderEquivariantRWE f List.Nodup := by
  intro L S h dO dH dF obs hist fut pO pH pF hpO hpH hpF hlO hlH hlF hS hh hSL hr hnd
  rw [applyLocationRW_congr_nodup f f' hff L S dO dH dF obs hist fut hnd,
    applyLocationRW_congr_nodup f f' hff L S _ _ _ _ _ _ (take_perm_nodup fut pF hpF hnd)]
  exact equivariance_RW_E f' E G hf' hE L S h dO dH dF obs hist fut pO pH pF hpO hpH hpF hlO hlH hlF hS hh hSL hr

/-- the rank read-out shared by relative SDM and ISIMIP step 6 -/
def rankRead (m : List Rat) (x : List Rat) (a : Rat) : Rat := m.getD (rankLt x a) 0

theorem rankRead_perm (m : List Rat) {x x' : List Rat} (h : x.Perm x') : rankRead m x = rankRead m x' := by
  funext a; unfold rankRead; rw [rankLt_perm h]

/-- **relative SDM in the running-window loop**, tie-free `cm_future` -/
theorem sdm_relative_rw_time_order_equivariant {P} (Fam : Family P) (thr t : Rat) :
    TimeOrderEquivariantRWE (fun o h x _ _ _ => sdmRelative Fam thr t o h x) List.Nodup := by
  apply timeOrderEquivariantRWE_of_nodup _
    (fun o h x _ _ _ => (sdmRelCtx Fam thr t o h x).map (fun m => x.map (rankRead m x)))
    (fun o h x _ _ _ hx => sdm_relative_pointwise_orderfree Fam thr t o h x hx)
    (sdmRelCtx Fam thr t) rankRead (fun _ _ _ _ _ _ => rfl)
  exact ⟨fun o o' h h' x x' ho hh hx => sdmRelCtx_perm Fam thr t ho hh hx, fun m x x' hx => rankRead_perm m hx⟩

open Model.Isimip in
/-- the order-free, error-aware context of `_apply_on_window` (no detrending, no randomisation): the transfer function
    of step 5, then `mapped_vals` of step 6 -/
def isimipCtx (c : Cfg) (fam : IsiFamily) (o : Oracles) (obs H F : List Rat) : Except String (List Rat) :=
  (step5Ctx c o obs H F).bind (fun T => step6Ctx c fam o obs (obs.map T) H F)

open Model.Isimip in
theorem isimipCtx_perm (c : Cfg) (fam : IsiFamily) (o : Oracles) {obs obs' H H' F F' : List Rat}
    (ho : obs.Perm obs') (hh : H.Perm H') (hx : F.Perm F') :
    isimipCtx c fam o obs H F = isimipCtx c fam o obs' H' F' := by
  unfold isimipCtx
  rw [step5Ctx_perm c o ho hh hx]
  cases step5Ctx c o obs' H' F' with
  | error e => rfl
  | ok T => exact step6Ctx_perm c fam o ho (ho.map T) hh hx

open Model.Isimip in
/-- `_apply_on_window` (steps 3–7) with `detrending = False` and no bound / threshold pair (steps 3, 4, 7 are the
    identity; no random draws), tie-free `cm_future`: an element-wise map over `isimipCtx` -/
theorem isimip_window_pointwise_orderfree_partial (c : Cfg) (fam : IsiFamily) (o : Oracles) (d : Draws)
    (obs H F : List Rat) (yO yH yF : List Int) (hd : c.detrending = false)
    (hl : (c.hasLowerBound && c.hasLowerThreshold) = false) (hu : (c.hasUpperBound && c.hasUpperThreshold) = false)
    (hF : F.Nodup) :
    applyOnWindow c fam o d obs H F yO yH yF = (isimipCtx c fam o obs H F).map (fun m => F.map (rankRead m F)) := by
  rw [applyOnWindow_plain c fam o d obs H F yO yH yF hd hl hu, step5_eq]
  unfold isimipCtx
  cases step5Ctx c o obs H F with
  | error e => rfl
  | ok T =>
    simp only [Except.map, Except.bind]
    exact isimip_step6_pointwise_orderfree c fam o obs (obs.map T) H F hF

open Model.Isimip in
/-- **ISIMIP running-window loop** (`Model.Isimip.winFn` in `Skeleton.applyLocationRW`), partial: `detrending = False`,
    no bound / threshold pair, the same oracle decisions for every window, tie-free `cm_future`.
    With detrending: `isimip_rw_detrending_time_order_equivariant_partial` (dated pairs).
    FULL STATEMENT (not proved): the same for every configuration —
    missing: step 4 (`randomizeMasked` = `sortLike` of the sorted draws: rank based, equivariant under the same draws for
    tie-free masked values; exercised by the seeded `ISIMIP-pr` cases of the harness' oracle), and the oracles
    (`linregress` p-value, KS decision) as functions of the window samples up to order instead of the window's index list
    (here: the same decisions for every window). -/
theorem isimip_rw_time_order_equivariant_partial (c : Cfg) (fam : IsiFamily) (o : Oracles) (drw : List Nat → Draws)
    (yearsO yearsH yearsF : List Int) (hd : c.detrending = false)
    (hl : (c.hasLowerBound && c.hasLowerThreshold) = false) (hu : (c.hasUpperBound && c.hasUpperThreshold) = false) :
    TimeOrderEquivariantRWE (winFn c fam (fun _ => o) drw yearsO yearsH yearsF) List.Nodup := by
  apply timeOrderEquivariantRWE_of_nodup _
    (fun ob h x _ _ _ => (isimipCtx c fam o ob h x).map (fun m => x.map (rankRead m x)))
    (fun ob h x io ih ix hx => isimip_window_pointwise_orderfree_partial c fam o (drw ix) ob h x _ _ _ hd hl hu hx)
    (isimipCtx c fam o) rankRead (fun _ _ _ _ _ _ => rfl)
  exact ⟨fun ob ob' h h' x x' ho hh hx => isimipCtx_perm c fam o ho hh hx, fun m x x' hx => rankRead_perm m hx⟩

open Model.Isimip in
/-- **ISIMIP month mode** (`running_window_mode = False`: the loop over the calendar months), partial under the same
    restrictions as `isimip_rw_time_order_equivariant_partial`: either both runs succeed and the result is permuted like
    `cm_future`, or both raise the same error. -/
theorem isimip_months_time_order_equivariant_partial (c : Cfg) (fam : IsiFamily) (o : Oracles) (drw : List Nat → Draws)
    (yearsO yearsH yearsF : List Int) (hd : c.detrending = false)
    (hl : (c.hasLowerBound && c.hasLowerThreshold) = false) (hu : (c.hasUpperBound && c.hasUpperThreshold) = false)
    (mO mH mF : List Int) (obs hist fut : List Rat) (pO pH pF : List Nat)
    (hpO : pO.Perm (List.range obs.length)) (hpH : pH.Perm (List.range hist.length))
    (hpF : pF.Perm (List.range fut.length))
    (hlO : mO.length = obs.length) (hlH : mH.length = hist.length) (hlF : mF.length = fut.length)
    (hr : ∀ m ∈ mF, 1 ≤ m ∧ m ≤ 12) (hnd : fut.Nodup) :
    (∃ out, applyLocationMonths (winFn c fam (fun _ => o) drw yearsO yearsH yearsF) mO mH mF obs hist fut = .ok out ∧
      applyLocationMonths (winFn c fam (fun _ => o) drw yearsO yearsH yearsF) (take mO pO) (take mH pH) (take mF pF)
        (take obs pO) (take hist pH) (take fut pF) = .ok (take out pF)) ∨
    (∃ e, applyLocationMonths (winFn c fam (fun _ => o) drw yearsO yearsH yearsF) mO mH mF obs hist fut = .error e ∧
      applyLocationMonths (winFn c fam (fun _ => o) drw yearsO yearsH yearsF) (take mO pO) (take mH pH) (take mF pF)
        (take obs pO) (take hist pH) (take fut pF) = .error e) := by
  have hff : ∀ ob h x (io ih ix : List Nat), x.Nodup → winFn c fam (fun _ => o) drw yearsO yearsH yearsF ob h x io ih ix =
      (fun ob h x (_ _ _ : List Nat) => (isimipCtx c fam o ob h x).map (fun m => x.map (rankRead m x))) ob h x io ih ix :=
    fun ob h x io ih ix hx => isimip_window_pointwise_orderfree_partial c fam o (drw ix) ob h x _ _ _ hd hl hu hx
  rw [applyLocationMonths_congr_nodup _ _ hff mO mH mF obs hist fut hnd,
    applyLocationMonths_congr_nodup _ _ hff _ _ _ _ _ _ (take_perm_nodup fut pF hpF hnd)]
  exact equivariance_months_E _ (isimipCtx c fam o) rankRead (fun _ _ _ _ _ _ => rfl)
    ⟨fun ob ob' h h' x x' ho hh hx => isimipCtx_perm c fam o ho hh hx, fun m x x' hx => rankRead_perm m hx⟩
    mO mH mF obs hist fut pO pH pF hpO hpH hpF hlO hlH hlF hr

/-! ### ISIMIP with detrending (steps 3 and 7 active): dated samples (value, year)

  The guard is on the *detrended* future window samples (that is what step 6 ranks). -/

open Model.Isimip in
/-- the context map with detrending: remove the trend of the step's year, read the mapped value at the rank of the
    detrended value, add the trend back; the year is kept -/
def isimipDG (c : Cfg) (o : Oracles) (m : List Rat) (x : List Dated) (p : Dated) : Dated :=
  (rankRead m (detr c o.sigF x) (p.1 - trendOf c o.sigF x p.2) + trendOf c o.sigF x p.2, p.2)

open Model.Isimip in
def isimipDCtx (c : Cfg) (fam : IsiFamily) (o : Oracles) (ob h x : List Dated) : Except String (List Rat) :=
  isimipCtx c fam o (detr c o.sigO ob) (detr c o.sigH h) (detr c o.sigF x)

open Model.Isimip in
/-- `_apply_on_window` on dated samples as a window function of the skeleton (values re-attached to their years) -/
def isimipWinFnD (c : Cfg) (fam : IsiFamily) (o : Oracles) (d : Draws) : WinFn Dated :=
  fun ob h x _ _ _ => (isimipWinD c fam o d ob h x).map (fun r => r.zip (x.map Prod.snd))

theorem zip_map_snd {α β} (x : List (α × β)) (g : α × β → α) :
    (x.map g).zip (x.map Prod.snd) = x.map (fun p => (g p, p.2)) := by
  induction x with
  | nil => rfl
  | cons a t ih => simp [ih]

open Model.Isimip in
/-- **`_apply_on_window` with detrending is an element-wise map of (value, year) over an order-free context**
    (no bound / threshold pair; tie-free detrended `cm_future`) -/
theorem isimip_window_detrending_pointwise (c : Cfg) (fam : IsiFamily) (o : Oracles) (d : Draws) (ob h x : List Dated)
    (hd : c.detrending = true)
    (hl : (c.hasLowerBound && c.hasLowerThreshold) = false) (hu : (c.hasUpperBound && c.hasUpperThreshold) = false)
    (hF : (detr c o.sigF x).Nodup) (io ih ix : List Nat) :
    isimipWinFnD c fam o d ob h x io ih ix = (isimipDCtx c fam o ob h x).map (fun m => x.map (isimipDG c o m x)) := by
  unfold isimipWinFnD isimipDCtx isimipCtx
  rw [isimipWinD_detrending c fam o d ob h x hd hl hu, step5_eq]
  cases step5Ctx c o (detr c o.sigO ob) (detr c o.sigH h) (detr c o.sigF x) with
  | error e => rfl
  | ok T =>
    simp only [Except.map, Except.bind]
    rw [isimip_step6_pointwise_orderfree c fam o _ _ _ _ hF]
    cases step6Ctx c fam o (detr c o.sigO ob) ((detr c o.sigO ob).map T) (detr c o.sigH h) (detr c o.sigF x) with
    | error e => rfl
    | ok m =>
      simp only [Except.map]
      congr 1
      have : (detr c o.sigF x).map (fun a => m.getD (rankLt (detr c o.sigF x) a) 0) =
          x.map (fun p => rankRead m (detr c o.sigF x) (p.1 - trendOf c o.sigF x p.2)) := by
        unfold detr rankRead
        rw [List.map_map]; rfl
      rw [this, zipWith_maps, zip_map_snd]
      rfl

open Model.Isimip in
/-- tie to `Model.Isimip.winFn` (values and years indexed by the same index lists): on the window samples of the
    zipped series the dated window function is the model's -/
theorem isimipWinD_eq_winFn (c : Cfg) (fam : IsiFamily) (o : Oracles) (d : Draws) (obs H F : List Rat)
    (yO yH yF : List Int) (iO iH iF : List Nat)
    (hlO : obs.length = yO.length) (hlH : H.length = yH.length) (hlF : F.length = yF.length)
    (hvO : ∀ j ∈ iO, j < obs.length) (hvH : ∀ j ∈ iH, j < H.length) (hvF : ∀ j ∈ iF, j < F.length) :
    isimipWinD c fam o d (take (obs.zip yO) iO) (take (H.zip yH) iH) (take (F.zip yF) iF) =
      winFn c fam (fun _ => o) (fun _ => d) yO yH yF (take obs iO) (take H iH) (take F iF) iO iH iF := by
  unfold isimipWinD winFn
  have hf : ∀ (x : List Rat) (y : List Int) (idx : List Nat), x.length = y.length → (∀ j ∈ idx, j < x.length) →
      (take (x.zip y) idx).map Prod.fst = take x idx ∧ (take (x.zip y) idx).map Prod.snd = take y idx := by
    intro x y idx hl hv
    rw [take_zip x y idx hl hv]
    have hlen : (take x idx).length = (take y idx).length := by
      rw [take_length x idx hv, take_length y idx (fun j hj => hl ▸ hv j hj)]
    exact ⟨List.map_fst_zip (le_of_eq hlen), List.map_snd_zip (le_of_eq hlen.symm)⟩
  rw [(hf obs yO iO hlO hvO).1, (hf obs yO iO hlO hvO).2, (hf H yH iH hlH hvH).1, (hf H yH iH hlH hvH).2,
    (hf F yF iF hlF hvF).1, (hf F yF iF hlF hvF).2]

open Model.Isimip in
theorem isimipD_orderFree (c : Cfg) (fam : IsiFamily) (o : Oracles) :
    OrderFreeE (isimipDCtx c fam o) (isimipDG c o) := by
  constructor
  · intro ob ob' h h' x x' ho hh hx
    exact isimipCtx_perm c fam o (detr_perm c o.sigO ho) (detr_perm c o.sigH hh) (detr_perm c o.sigF hx)
  · intro m x x' hx
    funext p
    unfold isimipDG
    rw [trendOf_perm c o.sigF hx, rankRead_perm m (detr_perm c o.sigF hx)]

open Model.Isimip in
/-- **ISIMIP running-window loop with detrending**, partial: no bound / threshold pair (step 4 inactive — no random draws),
    the same oracle decisions (`linregress` significance, KS) for every window, every detrended future window sample
    tie-free.  Series are dated pairs (value, year).  Either both runs succeed and the result is permuted like
    `cm_future` (every step keeping its year), or both raise the same error. -/
theorem isimip_rw_detrending_time_order_equivariant_partial (c : Cfg) (fam : IsiFamily) (o : Oracles) (d : Draws)
    (hd : c.detrending = true)
    (hl : (c.hasLowerBound && c.hasLowerThreshold) = false) (hu : (c.hasUpperBound && c.hasUpperThreshold) = false)
    (L S h : Int) (dO dH dF : List Int) (obs hist fut : List Dated) (pO pH pF : List Nat)
    (hpO : pO.Perm (List.range obs.length)) (hpH : pH.Perm (List.range hist.length))
    (hpF : pF.Perm (List.range fut.length))
    (hlO : dO.length = obs.length) (hlH : dH.length = hist.length) (hlF : dF.length = fut.length)
    (hS : S = 2 * h + 1) (hh : 0 ≤ h) (hSL : S ≤ L) (hr : ∀ d ∈ dF, 1 ≤ d ∧ d ≤ 366)
    (hnd : ∀ cc ∈ useCenters S dF, (detr c o.sigF (take fut (idxWindow L dF cc))).Nodup) :
    (∃ out, applyLocationRW (isimipWinFnD c fam o d) L S dO dH dF obs hist fut = .ok out ∧
      applyLocationRW (isimipWinFnD c fam o d) L S (take dO pO) (take dH pH) (take dF pF) (take obs pO) (take hist pH)
        (take fut pF) = .ok (take out pF)) ∨
    (∃ e, applyLocationRW (isimipWinFnD c fam o d) L S dO dH dF obs hist fut = .error e ∧
      applyLocationRW (isimipWinFnD c fam o d) L S (take dO pO) (take dH pH) (take dF pF) (take obs pO) (take hist pH)
        (take fut pF) = .error e) := by
  let f' : WinFn Dated := fun ob h x _ _ _ => (isimipDCtx c fam o ob h x).map (fun m => x.map (isimipDG c o m x))
  have hff : ∀ ob h x io ih ix, (detr c o.sigF x).Nodup → isimipWinFnD c fam o d ob h x io ih ix = f' ob h x io ih ix :=
    fun ob h x io ih ix hx => isimip_window_detrending_pointwise c fam o d ob h x hd hl hu hx io ih ix
  have hvF := perm_valid pF hpF
  have hpFd : pF.Perm (List.range dF.length) := hlF ▸ hpF
  have hnd' : ∀ cc ∈ useCenters S (take dF pF),
      (detr c o.sigF (take (take fut pF) (idxWindow L (take dF pF) cc))).Nodup := by
    intro cc hcc
    rw [useCenters_perm S _ _ (take_perm dF pF hpFd)] at hcc
    unfold idxWindow
    exact (detr_perm c o.sigF (window_sample_perm fut dF _ pF hlF.symm hpF)).nodup_iff.mpr (hnd cc hcc)
  rw [applyLocationRW_congr_on _ f' _ hff L S dO dH dF obs hist fut hnd,
    applyLocationRW_congr_on _ f' _ hff L S _ _ _ _ _ _ hnd']
  exact equivariance_RW_E f' (isimipDCtx c fam o) (isimipDG c o) (fun _ _ _ _ _ _ => rfl) (isimipD_orderFree c fam o)
    L S h dO dH dF obs hist fut pO pH pF hpO hpH hpF hlO hlH hlF hS hh hSL hr

open Model.Isimip in
/-- **ISIMIP month mode with detrending**, partial under the same restrictions -/
theorem isimip_months_detrending_time_order_equivariant_partial (c : Cfg) (fam : IsiFamily) (o : Oracles) (d : Draws)
    (hd : c.detrending = true)
    (hl : (c.hasLowerBound && c.hasLowerThreshold) = false) (hu : (c.hasUpperBound && c.hasUpperThreshold) = false)
    (mO mH mF : List Int) (obs hist fut : List Dated) (pO pH pF : List Nat)
    (hpO : pO.Perm (List.range obs.length)) (hpH : pH.Perm (List.range hist.length))
    (hpF : pF.Perm (List.range fut.length))
    (hlO : mO.length = obs.length) (hlH : mH.length = hist.length) (hlF : mF.length = fut.length)
    (hr : ∀ m ∈ mF, 1 ≤ m ∧ m ≤ 12)
    (hnd : ∀ m ∈ Py.arange1 1 13, (detr c o.sigF (take fut (indicesIn mF [m]))).Nodup) :
    (∃ out, applyLocationMonths (isimipWinFnD c fam o d) mO mH mF obs hist fut = .ok out ∧
      applyLocationMonths (isimipWinFnD c fam o d) (take mO pO) (take mH pH) (take mF pF) (take obs pO) (take hist pH)
        (take fut pF) = .ok (take out pF)) ∨
    (∃ e, applyLocationMonths (isimipWinFnD c fam o d) mO mH mF obs hist fut = .error e ∧
      applyLocationMonths (isimipWinFnD c fam o d) (take mO pO) (take mH pH) (take mF pF) (take obs pO) (take hist pH)
        (take fut pF) = .error e) := by
  let f' : WinFn Dated := fun ob h x _ _ _ => (isimipDCtx c fam o ob h x).map (fun m => x.map (isimipDG c o m x))
  have hff : ∀ ob h x io ih ix, (detr c o.sigF x).Nodup → isimipWinFnD c fam o d ob h x io ih ix = f' ob h x io ih ix :=
    fun ob h x io ih ix hx => isimip_window_detrending_pointwise c fam o d ob h x hd hl hu hx io ih ix
  have hnd' : ∀ m ∈ Py.arange1 1 13, (detr c o.sigF (take (take fut pF) (indicesIn (take mF pF) [m]))).Nodup :=
    fun m hm => (detr_perm c o.sigF (window_sample_perm fut mF _ pF hlF.symm hpF)).nodup_iff.mpr (hnd m hm)
  rw [applyLocationMonths_congr_on _ f' _ hff mO mH mF obs hist fut hnd,
    applyLocationMonths_congr_on _ f' _ hff _ _ _ _ _ _ hnd']
  exact equivariance_months_E f' (isimipDCtx c fam o) (isimipDG c o) (fun _ _ _ _ _ _ => rfl) (isimipD_orderFree c fam o)
    mO mH mF obs hist fut pO pH pF hpO hpH hpF hlO hlH hlF hr

/-! ## 9b. ISIMIP `_apply_on_window`, EVERY configuration (steps 3–7: detrending on or off, randomisation of the values
  beyond the thresholds, every trend-transfer method, parametric / non-parametric step 6)

  What differs from window to window besides the samples — the numbers `np.random.uniform` returned (`Draws`) and the
  decisions of the statistical tests (`Oracles`) — is a function of the window centre; both runs of the comparison see the
  same function ("the same seed gives the same numbers for the same window").  Guard (`WindowGuard`): the values that get
  ranked — in each active stage of step 4 and in step 6 — are tie-free. -/

open Model.Isimip in
/-- tie-free through step 4 and into step 6 -/
def WindowGuard (c : Cfg) (o : Oracles) (d : Draws) (ob h x : List Dated) : Prop :=
  SeriesGuard c d.lowO (detrG c o.sigO ob) ∧ SeriesGuard c d.lowH (detrG c o.sigH h) ∧
  SeriesGuard c d.lowF (detrG c o.sigF x) ∧
  ∀ T, step4Ctx c d (detrG c o.sigO ob) (detrG c o.sigH h) (detrG c o.sigF x) = .ok T →
    ((detrG c o.sigF x).map T.2.2).Nodup

open Model.Isimip in
/-- the order-free, error-aware context of the whole window: the step-4 map of `cm_future` and `mapped_vals` of step 6 -/
def winCtx (c : Cfg) (fam : IsiFamily) (o : Oracles) (d : Draws) (ob h x : List Dated) :
    Except String ((Rat → Rat) × List Rat) :=
  (step4Ctx c d (detrG c o.sigO ob) (detrG c o.sigH h) (detrG c o.sigF x)).bind (fun T =>
    (isimipCtx c fam o ((detrG c o.sigO ob).map T.1) ((detrG c o.sigH h).map T.2.1) ((detrG c o.sigF x).map T.2.2)).map
      (fun m => (T.2.2, m)))

open Model.Isimip in
/-- the value of one step: remove the trend of its year, randomise if beyond a threshold, read `mapped_vals` at its rank,
    add the trend back -/
def winG (c : Cfg) (o : Oracles) (Tm : (Rat → Rat) × List Rat) (x : List Dated) (p : Dated) : Dated :=
  (rankRead Tm.2 ((detrG c o.sigF x).map Tm.1) (Tm.1 (p.1 - trendG c o.sigF x p.2)) + trendG c o.sigF x p.2, p.2)

open Model.Isimip in
/-- **`_apply_on_window` is an element-wise map of (value, year) over an order-free context — every configuration** -/
theorem isimip_window_pointwise_orderfree (c : Cfg) (fam : IsiFamily) (o : Oracles) (d : Draws) (ob h x : List Dated)
    (hg : WindowGuard c o d ob h x) :
    isimipWinD c fam o d ob h x = (winCtx c fam o d ob h x).map (fun Tm => x.map (fun p => (winG c o Tm x p).1)) := by
  obtain ⟨g1, g2, g3, g4⟩ := hg
  unfold winCtx isimipCtx
  rw [isimipWinD_general, step4_eq c d _ _ _ g1 g2 g3]
  cases hT : step4Ctx c d (detrG c o.sigO ob) (detrG c o.sigH h) (detrG c o.sigF x) with
  | error e => rfl
  | ok T =>
    simp only [Except.map, Except.bind]
    rw [step5_eq]
    cases step5Ctx c o ((detrG c o.sigO ob).map T.1) ((detrG c o.sigH h).map T.2.1) ((detrG c o.sigF x).map T.2.2) with
    | error e => rfl
    | ok T5 =>
      simp only [Except.map, Except.bind]
      rw [isimip_step6_pointwise_orderfree c fam o _ _ _ _ (g4 T hT)]
      cases step6Ctx c fam o ((detrG c o.sigO ob).map T.1) (((detrG c o.sigO ob).map T.1).map T5)
          ((detrG c o.sigH h).map T.2.1) ((detrG c o.sigF x).map T.2.2) with
      | error e => rfl
      | ok m =>
        simp only [Except.map, Except.bind]
        congr 1
        rw [List.map_map, step7_pointwise]
        rfl

open Model.Isimip in
theorem isimip_window_orderFree (c : Cfg) (fam : IsiFamily) (o : Oracles) (d : Draws) :
    OrderFreeE (winCtx c fam o d) (winG c o) := by
  constructor
  · intro ob ob' h h' x x' ho hh hx
    unfold winCtx
    rw [step4Ctx_perm c d (detrG_perm c o.sigO ho) (detrG_perm c o.sigH hh) (detrG_perm c o.sigF hx)]
    cases step4Ctx c d (detrG c o.sigO ob') (detrG c o.sigH h') (detrG c o.sigF x') with
    | error e => rfl
    | ok T =>
      simp only [Except.bind]
      rw [isimipCtx_perm c fam o ((detrG_perm c o.sigO ho).map T.1) ((detrG_perm c o.sigH hh).map T.2.1)
        ((detrG_perm c o.sigF hx).map T.2.2)]
  · intro Tm x x' hx
    funext p
    unfold winG
    rw [trendG_perm c o.sigF hx, rankRead_perm Tm.2 ((detrG_perm c o.sigF hx).map Tm.1)]

open Model.Isimip in
/-- the guard does not depend on the storage order -/
theorem WindowGuard_perm (c : Cfg) (o : Oracles) (d : Draws) {ob ob' h h' x x' : List Dated}
    (ho : ob.Perm ob') (hh : h.Perm h') (hx : x.Perm x') (hg : WindowGuard c o d ob h x) :
    WindowGuard c o d ob' h' x' := by
  obtain ⟨g1, g2, g3, g4⟩ := hg
  refine ⟨SeriesGuard_perm c _ (detrG_perm c o.sigO ho) g1, SeriesGuard_perm c _ (detrG_perm c o.sigH hh) g2,
    SeriesGuard_perm c _ (detrG_perm c o.sigF hx) g3, ?_⟩
  intro T hT
  rw [← step4Ctx_perm c d (detrG_perm c o.sigO ho) (detrG_perm c o.sigH hh) (detrG_perm c o.sigF hx)] at hT
  exact (((detrG_perm c o.sigF hx).map T.2.2).nodup_iff).mp (g4 T hT)

open Model.Isimip in
/-- the window function of the skeleton on dated pairs, as an element-wise map -/
theorem isimipWinFnD_pointwise (c : Cfg) (fam : IsiFamily) (o : Oracles) (d : Draws) (ob h x : List Dated)
    (hg : WindowGuard c o d ob h x) (io ih ix : List Nat) :
    isimipWinFnD c fam o d ob h x io ih ix = (winCtx c fam o d ob h x).map (fun Tm => x.map (winG c o Tm x)) := by
  unfold isimipWinFnD
  rw [isimip_window_pointwise_orderfree c fam o d ob h x hg]
  cases winCtx c fam o d ob h x with
  | error e => rfl
  | ok Tm =>
    simp only [Except.map]
    congr 1
    rw [zip_map_snd]
    apply List.map_congr_left
    intro p _
    rfl

open Model.Isimip in
/-- **ISIMIP running-window loop, every configuration** (dated pairs; oracles and draws a function of the window
    centre; tie-free guard on every window): either both runs succeed and the result is permuted like `cm_future`,
    every step keeping its year, or both raise the same error. -/
theorem isimip_rw_time_order_equivariant (c : Cfg) (fam : IsiFamily) (orc : Int → Oracles) (drw : Int → Draws)
    (L S h : Int) (dO dH dF : List Int) (obs hist fut : List Dated) (pO pH pF : List Nat)
    (hpO : pO.Perm (List.range obs.length)) (hpH : pH.Perm (List.range hist.length))
    (hpF : pF.Perm (List.range fut.length))
    (hlO : dO.length = obs.length) (hlH : dH.length = hist.length) (hlF : dF.length = fut.length)
    (hS : S = 2 * h + 1) (hh : 0 ≤ h) (hSL : S ≤ L) (hr : ∀ d ∈ dF, 1 ≤ d ∧ d ≤ 366)
    (hg : ∀ cc ∈ useCenters S dF, WindowGuard c (orc cc) (drw cc) (take obs (idxWindow L dO cc))
      (take hist (idxWindow L dH cc)) (take fut (idxWindow L dF cc))) :
    (∃ out, applyLocationRWC (fun cc => isimipWinFnD c fam (orc cc) (drw cc)) L S dO dH dF obs hist fut = .ok out ∧
      applyLocationRWC (fun cc => isimipWinFnD c fam (orc cc) (drw cc)) L S (take dO pO) (take dH pH) (take dF pF)
        (take obs pO) (take hist pH) (take fut pF) = .ok (take out pF)) ∨
    (∃ e, applyLocationRWC (fun cc => isimipWinFnD c fam (orc cc) (drw cc)) L S dO dH dF obs hist fut = .error e ∧
      applyLocationRWC (fun cc => isimipWinFnD c fam (orc cc) (drw cc)) L S (take dO pO) (take dH pH) (take dF pF)
        (take obs pO) (take hist pH) (take fut pF) = .error e) := by
  let f' : Int → WinFn Dated := fun cc ob h x _ _ _ =>
    (winCtx c fam (orc cc) (drw cc) ob h x).map (fun Tm => x.map (winG c (orc cc) Tm x))
  have hff : ∀ cc ob h x io ih ix, WindowGuard c (orc cc) (drw cc) ob h x →
      isimipWinFnD c fam (orc cc) (drw cc) ob h x io ih ix = f' cc ob h x io ih ix :=
    fun cc ob h x io ih ix hx => isimipWinFnD_pointwise c fam (orc cc) (drw cc) ob h x hx io ih ix
  have hpFd : pF.Perm (List.range dF.length) := hlF ▸ hpF
  have hg' : ∀ cc ∈ useCenters S (take dF pF), WindowGuard c (orc cc) (drw cc)
      (take (take obs pO) (idxWindow L (take dO pO) cc)) (take (take hist pH) (idxWindow L (take dH pH) cc))
      (take (take fut pF) (idxWindow L (take dF pF) cc)) := by
    intro cc hcc
    rw [useCenters_perm S _ _ (take_perm dF pF hpFd)] at hcc
    unfold idxWindow
    exact WindowGuard_perm c (orc cc) (drw cc) (window_sample_perm obs dO _ pO hlO.symm hpO).symm
      (window_sample_perm hist dH _ pH hlH.symm hpH).symm (window_sample_perm fut dF _ pF hlF.symm hpF).symm (hg cc hcc)
  rw [applyLocationRWC_congr_on _ f' (fun cc => WindowGuard c (orc cc) (drw cc)) hff L S dO dH dF obs hist fut hg,
    applyLocationRWC_congr_on _ f' (fun cc => WindowGuard c (orc cc) (drw cc)) hff L S _ _ _ _ _ _ hg']
  exact equivariance_RWC_E f' (fun cc => winCtx c fam (orc cc) (drw cc)) (fun cc => winG c (orc cc))
    (fun _ _ _ _ _ _ _ => rfl) (fun cc => isimip_window_orderFree c fam (orc cc) (drw cc))
    L S h dO dH dF obs hist fut pO pH pF hpO hpH hpF hlO hlH hlF hS hh hSL hr

open Model.Isimip in
/-- tie to `Model.Isimip.winFn` with oracles / draws keyed by the index list of the future window: on the window samples
    of the zipped series the dated window function is the model's -/
theorem isimipWinD_eq_winFn_keyed (c : Cfg) (fam : IsiFamily) (orc : List Nat → Oracles) (drw : List Nat → Draws)
    (obs H F : List Rat) (yO yH yF : List Int) (iO iH iF : List Nat)
    (hlO : obs.length = yO.length) (hlH : H.length = yH.length) (hlF : F.length = yF.length)
    (hvO : ∀ j ∈ iO, j < obs.length) (hvH : ∀ j ∈ iH, j < H.length) (hvF : ∀ j ∈ iF, j < F.length) :
    isimipWinD c fam (orc iF) (drw iF) (take (obs.zip yO) iO) (take (H.zip yH) iH) (take (F.zip yF) iF) =
      winFn c fam orc drw yO yH yF (take obs iO) (take H iH) (take F iF) iO iH iF :=
  isimipWinD_eq_winFn c fam (orc iF) (drw iF) obs H F yO yH yF iO iH iF hlO hlH hlF hvO hvH hvF

/-! ## 9c. `Model.Isimip.applyLocationRW` — `ISIMIP.apply_location` as a whole: step 1 (scaling by the annual cycle of upper
  bounds, rsds), the window loop with oracles / draws keyed by the window, step 8 (re-scaling by the debiased cycle,
  looked up by SORTED unique day of year) -/

/-- both runs succeed and the second result is the first one permuted by `p`, or both raise the same error -/
def SameUpToOrder {α} (r r' : Except String (List (Option α))) (p : List Nat) : Prop :=
  (∃ out, r = .ok out ∧ r' = .ok (take out p)) ∨ (∃ e, r = .error e ∧ r' = .error e)

theorem applyLocationRW_length {α} (f : WinFn α) (L S : Int) (dO dH dF : List Int) (obs hist fut : List α)
    (out : List (Option α)) (h : applyLocationRW f L S dO dH dF obs hist fut = .ok out) : out.length = fut.length := by
  obtain ⟨wss, _, rfl⟩ := Lemmas.Skeleton.runLoop_ok _ _ _ _ h
  rw [Lemmas.Skeleton.applyWrites_length]; simp

open Model.Isimip in
/-- **steps 1 and 8 lift the time-order equivariance of the window loop to `apply_location`**: for calendar days of year
    step 1 never raises and scales each series element-wise by a table that does not depend on the storage order; step 8
    re-scales element-wise.  `hinner`: the window loop on the scaled series is time-order equivariant. -/
theorem isimip_steps18_lift (c : Cfg) (fam : IsiFamily) (orc orc' : List Nat → Oracles) (drw drw' : List Nat → Draws)
    (L S : Int) (dO dH dF yO yH yF yO' yH' yF' : List Int) (obs H F : List Rat) (pO pH pF : List Nat)
    (hpO : pO.Perm (List.range obs.length)) (hpH : pH.Perm (List.range H.length)) (hpF : pF.Perm (List.range F.length))
    (hlO : dO.length = obs.length) (hlH : dH.length = H.length) (hlF : dF.length = F.length)
    (hrO : ∀ d ∈ dO, 1 ≤ d ∧ d ≤ 366) (hrH : ∀ d ∈ dH, 1 ≤ d ∧ d ≤ 366) (hrF : ∀ d ∈ dF, 1 ≤ d ∧ d ≤ 366)
    (hinner : ∀ o1 h1 f1 cyc, step1 c obs H F dO dH dF = .ok (o1, h1, f1, cyc) →
      SameUpToOrder (Model.Skeleton.applyLocationRW (winFn c fam orc drw yO yH yF) L S dO dH dF o1 h1 f1)
        (Model.Skeleton.applyLocationRW (winFn c fam orc' drw' yO' yH' yF') L S (take dO pO) (take dH pH) (take dF pF)
          (take o1 pO) (take h1 pH) (take f1 pF)) pF) :
    SameUpToOrder (Model.Isimip.applyLocationRW c fam orc drw L S dO dH dF yO yH yF obs H F)
      (Model.Isimip.applyLocationRW c fam orc' drw' L S (take dO pO) (take dH pH) (take dF pF) yO' yH' yF'
        (take obs pO) (take H pH) (take F pF)) pF := by
  obtain ⟨⟨o1, h1, f1, cyc⟩, hs1⟩ := step1_ok c obs H F dO dH dF hrO hrH hrF
  have hs1' := step1_take c obs H F dO dH dF pO pH pF hlO.symm hlH.symm hlF.symm hpO hpH hpF o1 h1 f1 cyc hs1
  obtain ⟨_, _, hf1, hcyc⟩ := step1_cycle c obs H F dO dH dF o1 h1 f1 cyc hlO.symm hlH.symm hlF.symm hs1
  unfold Model.Isimip.applyLocationRW
  rw [hs1, hs1']
  simp only [bind, Except.bind]
  rcases hinner o1 h1 f1 cyc hs1 with ⟨out, e1, e2⟩ | ⟨e, e1, e2⟩
  · rw [e1, e2]
    simp only []
    have hol : out.length = dF.length := by rw [applyLocationRW_length _ _ _ _ _ _ _ _ _ out e1, hf1, hlF]
    obtain ⟨r, hr8⟩ := step8Buffer_ok c out cyc dF hrF hcyc
    have hpo : pF.Perm (List.range out.length) := by rw [hol, hlF]; exact hpF
    exact Or.inl ⟨r, hr8, step8Buffer_take c out cyc dF pF hol hpo r hr8⟩
  · rw [e1, e2]
    exact Or.inr ⟨e, rfl, rfl⟩

/-! ### the window loop on plain values when step 3 is off (`detrending = False`: every variable except tas, psl, rlds) -/

/-- a value as a dated pair with a dummy year (the years are not read when `detrending = False`) -/
def undated (x : List Rat) : List Dated := x.map (fun a => (a, 0))

theorem undated_perm {x x' : List Rat} (h : x.Perm x') : (undated x).Perm (undated x') := h.map _

open Model.Isimip in
theorem applyOnWindow_years_irrelevant (c : Cfg) (fam : IsiFamily) (o : Oracles) (d : Draws) (obs H F : List Rat)
    (y1 y2 y3 : List Int) (hd : c.detrending = false) :
    applyOnWindow c fam o d obs H F y1 y2 y3 = isimipWinD c fam o d (undated obs) (undated H) (undated F) := by
  have hm : ∀ l : List Rat, (undated l).map Prod.fst = l := by
    intro l
    unfold undated
    rw [List.map_map]
    exact List.map_id l
  unfold isimipWinD
  rw [hm, hm, hm, Lemmas.IsimipModel.applyOnWindow_eq, Lemmas.IsimipModel.applyOnWindow_eq,
    Lemmas.IsimipModel.step3_of_not_detrending c o hd, Lemmas.IsimipModel.step3_of_not_detrending c o hd]

open Model.Isimip in
/-- **the ISIMIP window loop on plain values** (`Skeleton.applyLocationRW (Model.Isimip.winFn …)`, `detrending = False`,
    every other setting arbitrary): oracles and draws keyed by the index list of the future window; the two runs get the
    same oracle decisions and the same random numbers for the window of the same centre (`hkey`). -/
theorem isimip_rw_values_time_order_equivariant (c : Cfg) (fam : IsiFamily) (orc orc' : List Nat → Oracles)
    (drw drw' : List Nat → Draws) (yO yH yF yO' yH' yF' : List Int) (hd : c.detrending = false)
    (L S h : Int) (dO dH dF : List Int) (obs hist fut : List Rat) (pO pH pF : List Nat)
    (hpO : pO.Perm (List.range obs.length)) (hpH : pH.Perm (List.range hist.length))
    (hpF : pF.Perm (List.range fut.length))
    (hlO : dO.length = obs.length) (hlH : dH.length = hist.length) (hlF : dF.length = fut.length)
    (hS : S = 2 * h + 1) (hh : 0 ≤ h) (hSL : S ≤ L) (hr : ∀ d ∈ dF, 1 ≤ d ∧ d ≤ 366)
    (hkey : ∀ cc ∈ useCenters S dF, orc' (idxWindow L (take dF pF) cc) = orc (idxWindow L dF cc) ∧
      drw' (idxWindow L (take dF pF) cc) = drw (idxWindow L dF cc))
    (hg : ∀ cc ∈ useCenters S dF, WindowGuard c (orc (idxWindow L dF cc)) (drw (idxWindow L dF cc))
      (undated (take obs (idxWindow L dO cc))) (undated (take hist (idxWindow L dH cc)))
      (undated (take fut (idxWindow L dF cc)))) :
    SameUpToOrder (Model.Skeleton.applyLocationRW (winFn c fam orc drw yO yH yF) L S dO dH dF obs hist fut)
      (Model.Skeleton.applyLocationRW (winFn c fam orc' drw' yO' yH' yF') L S (take dO pO) (take dH pH) (take dF pF) (take obs pO)
        (take hist pH) (take fut pF)) pF := by
  -- centre-dependent form of both runs
  let oc : Int → Oracles := fun cc => orc (idxWindow L dF cc)
  let dc : Int → Draws := fun cc => drw (idxWindow L dF cc)
  let g : Int → WinFn Rat := fun cc o hh x _ _ _ => isimipWinD c fam (oc cc) (dc cc) (undated o) (undated hh) (undated x)
  have hpFd : pF.Perm (List.range dF.length) := hlF ▸ hpF
  have hcs : useCenters S (take dF pF) = useCenters S dF := useCenters_perm S _ _ (take_perm dF pF hpFd)
  have e1 : Model.Skeleton.applyLocationRW (winFn c fam orc drw yO yH yF) L S dO dH dF obs hist fut =
      applyLocationRWC g L S dO dH dF obs hist fut := by
    unfold Model.Skeleton.applyLocationRW applyLocationRWC
    apply Lemmas.Lift.runLoop_congr
    intro cc _
    unfold windowWrites winFn
    simp only [applyOnWindow_years_irrelevant c fam _ _ _ _ _ _ _ _ hd, g, oc, dc]
  have e2 : Model.Skeleton.applyLocationRW (winFn c fam orc' drw' yO' yH' yF') L S (take dO pO) (take dH pH) (take dF pF) (take obs pO)
      (take hist pH) (take fut pF) =
      applyLocationRWC g L S (take dO pO) (take dH pH) (take dF pF) (take obs pO) (take hist pH) (take fut pF) := by
    unfold Model.Skeleton.applyLocationRW applyLocationRWC
    apply Lemmas.Lift.runLoop_congr
    intro cc hcc
    rw [hcs] at hcc
    unfold windowWrites winFn
    simp only [applyOnWindow_years_irrelevant c fam _ _ _ _ _ _ _ _ hd, g, oc, dc, (hkey cc hcc).1, (hkey cc hcc).2]
  rw [e1, e2]
  -- the total element-wise twin and the guard
  let E : Int → List Rat → List Rat → List Rat → Except String ((Rat → Rat) × List Rat) :=
    fun cc o hh x => winCtx c fam (oc cc) (dc cc) (undated o) (undated hh) (undated x)
  let G : Int → (Rat → Rat) × List Rat → List Rat → Rat → Rat :=
    fun cc Tm x a => (winG c (oc cc) Tm (undated x) (a, 0)).1
  let f' : Int → WinFn Rat := fun cc o hh x _ _ _ => (E cc o hh x).map (fun Tm => x.map (G cc Tm x))
  let Pw : Int → List Rat → List Rat → List Rat → Prop :=
    fun cc o hh x => WindowGuard c (oc cc) (dc cc) (undated o) (undated hh) (undated x)
  have hff : ∀ cc o hh x io ih ix, Pw cc o hh x → g cc o hh x io ih ix = f' cc o hh x io ih ix := by
    intro cc o hh x io ih ix hx
    simp only [g, f', E, G]
    rw [isimip_window_pointwise_orderfree c fam (oc cc) (dc cc) _ _ _ hx]
    cases winCtx c fam (oc cc) (dc cc) (undated o) (undated hh) (undated x) with
    | error e => rfl
    | ok Tm =>
      simp only [Except.map, undated, List.map_map]
      rfl
  have hg' : ∀ cc ∈ useCenters S (take dF pF), Pw cc (take (take obs pO) (idxWindow L (take dO pO) cc))
      (take (take hist pH) (idxWindow L (take dH pH) cc)) (take (take fut pF) (idxWindow L (take dF pF) cc)) := by
    intro cc hcc
    rw [hcs] at hcc
    unfold idxWindow
    exact WindowGuard_perm c (oc cc) (dc cc)
      (undated_perm (window_sample_perm obs dO _ pO hlO.symm hpO).symm)
      (undated_perm (window_sample_perm hist dH _ pH hlH.symm hpH).symm)
      (undated_perm (window_sample_perm fut dF _ pF hlF.symm hpF).symm) (hg cc hcc)
  rw [applyLocationRWC_congr_on g f' Pw hff L S dO dH dF obs hist fut hg,
    applyLocationRWC_congr_on g f' Pw hff L S _ _ _ _ _ _ hg']
  refine equivariance_RWC_E f' E G (fun _ _ _ _ _ _ _ => rfl) (fun cc => ⟨?_, ?_⟩)
    L S h dO dH dF obs hist fut pO pH pF hpO hpH hpF hlO hlH hlF hS hh hSL hr
  · intro o o' hh' hh'' x x' ho hh1 hx
    exact (isimip_window_orderFree c fam (oc cc) (dc cc)).1 _ _ _ _ _ _ (undated_perm ho) (undated_perm hh1) (undated_perm hx)
  · intro Tm x x' hx
    funext a
    simp only [G]
    rw [(isimip_window_orderFree c fam (oc cc) (dc cc)).2 Tm _ _ (undated_perm hx)]

open Model.Isimip in
/-- **`ISIMIP.apply_location` (running-window mode) is time-order equivariant — every variable without detrending**
    (hurs, pr, prsnratio, rsds with its annual-cycle scaling, sfcWind, tasrange, tasskew, and any custom configuration
    with `detrending = False`), on `Model.Isimip.applyLocationRW` itself. -/
theorem isimip_apply_location_time_order_equivariant (c : Cfg) (fam : IsiFamily) (orc orc' : List Nat → Oracles)
    (drw drw' : List Nat → Draws) (yO yH yF yO' yH' yF' : List Int) (hd : c.detrending = false)
    (L S h : Int) (dO dH dF : List Int) (obs hist fut : List Rat) (pO pH pF : List Nat)
    (hpO : pO.Perm (List.range obs.length)) (hpH : pH.Perm (List.range hist.length))
    (hpF : pF.Perm (List.range fut.length))
    (hlO : dO.length = obs.length) (hlH : dH.length = hist.length) (hlF : dF.length = fut.length)
    (hS : S = 2 * h + 1) (hh : 0 ≤ h) (hSL : S ≤ L)
    (hrO : ∀ d ∈ dO, 1 ≤ d ∧ d ≤ 366) (hrH : ∀ d ∈ dH, 1 ≤ d ∧ d ≤ 366) (hrF : ∀ d ∈ dF, 1 ≤ d ∧ d ≤ 366)
    (hkey : ∀ cc ∈ useCenters S dF, orc' (idxWindow L (take dF pF) cc) = orc (idxWindow L dF cc) ∧
      drw' (idxWindow L (take dF pF) cc) = drw (idxWindow L dF cc))
    (hg : ∀ o1 h1 f1 cyc, step1 c obs hist fut dO dH dF = .ok (o1, h1, f1, cyc) →
      ∀ cc ∈ useCenters S dF, WindowGuard c (orc (idxWindow L dF cc)) (drw (idxWindow L dF cc))
        (undated (take o1 (idxWindow L dO cc))) (undated (take h1 (idxWindow L dH cc)))
        (undated (take f1 (idxWindow L dF cc)))) :
    SameUpToOrder (Model.Isimip.applyLocationRW c fam orc drw L S dO dH dF yO yH yF obs hist fut)
      (Model.Isimip.applyLocationRW c fam orc' drw' L S (take dO pO) (take dH pH) (take dF pF) yO' yH' yF'
        (take obs pO) (take hist pH) (take fut pF)) pF := by
  apply isimip_steps18_lift c fam orc orc' drw drw' L S dO dH dF yO yH yF yO' yH' yF' obs hist fut pO pH pF
    hpO hpH hpF hlO hlH hlF hrO hrH hrF
  intro o1 h1 f1 cyc hs1
  obtain ⟨l1, l2, l3, _⟩ := step1_cycle c obs hist fut dO dH dF o1 h1 f1 cyc hlO.symm hlH.symm hlF.symm hs1
  exact isimip_rw_values_time_order_equivariant c fam orc orc' drw drw' yO yH yF yO' yH' yF' hd L S h dO dH dF o1 h1 f1
    pO pH pF (l1 ▸ hpO) (l2 ▸ hpH) (l3 ▸ hpF) (hlO.trans l1.symm) (hlH.trans l2.symm) (hlF.trans l3.symm) hS hh hSL hrF hkey
    (hg o1 h1 f1 cyc hs1)

/-! ### month mode (`running_window_mode = False`): the same for the loop over the calendar months -/

open Model.Isimip in
/-- **ISIMIP month loop, every configuration** (dated pairs; oracles and draws a function of the month) -/
theorem isimip_months_time_order_equivariant (c : Cfg) (fam : IsiFamily) (orc : Int → Oracles) (drw : Int → Draws)
    (mO mH mF : List Int) (obs hist fut : List Dated) (pO pH pF : List Nat)
    (hpO : pO.Perm (List.range obs.length)) (hpH : pH.Perm (List.range hist.length))
    (hpF : pF.Perm (List.range fut.length))
    (hlO : mO.length = obs.length) (hlH : mH.length = hist.length) (hlF : mF.length = fut.length)
    (hr : ∀ m ∈ mF, 1 ≤ m ∧ m ≤ 12)
    (hg : ∀ m ∈ Py.arange1 1 13, WindowGuard c (orc m) (drw m) (take obs (indicesIn mO [m]))
      (take hist (indicesIn mH [m])) (take fut (indicesIn mF [m]))) :
    SameUpToOrder (applyLocationMonthsC (fun m => isimipWinFnD c fam (orc m) (drw m)) mO mH mF obs hist fut)
      (applyLocationMonthsC (fun m => isimipWinFnD c fam (orc m) (drw m)) (take mO pO) (take mH pH) (take mF pF)
        (take obs pO) (take hist pH) (take fut pF)) pF := by
  let f' : Int → WinFn Dated := fun m ob h x _ _ _ =>
    (winCtx c fam (orc m) (drw m) ob h x).map (fun Tm => x.map (winG c (orc m) Tm x))
  have hff : ∀ m ob h x io ih ix, WindowGuard c (orc m) (drw m) ob h x →
      isimipWinFnD c fam (orc m) (drw m) ob h x io ih ix = f' m ob h x io ih ix :=
    fun m ob h x io ih ix hx => isimipWinFnD_pointwise c fam (orc m) (drw m) ob h x hx io ih ix
  have hg' : ∀ m ∈ Py.arange1 1 13, WindowGuard c (orc m) (drw m) (take (take obs pO) (indicesIn (take mO pO) [m]))
      (take (take hist pH) (indicesIn (take mH pH) [m])) (take (take fut pF) (indicesIn (take mF pF) [m])) :=
    fun m hm => WindowGuard_perm c (orc m) (drw m) (window_sample_perm obs mO _ pO hlO.symm hpO).symm
      (window_sample_perm hist mH _ pH hlH.symm hpH).symm (window_sample_perm fut mF _ pF hlF.symm hpF).symm (hg m hm)
  unfold SameUpToOrder
  rw [applyLocationMonthsC_congr_on _ f' (fun m => WindowGuard c (orc m) (drw m)) hff mO mH mF obs hist fut hg,
    applyLocationMonthsC_congr_on _ f' (fun m => WindowGuard c (orc m) (drw m)) hff _ _ _ _ _ _ hg']
  exact equivariance_monthsC_E f' (fun m => winCtx c fam (orc m) (drw m)) (fun m => winG c (orc m))
    (fun _ _ _ _ _ _ _ => rfl) (fun m => isimip_window_orderFree c fam (orc m) (drw m))
    mO mH mF obs hist fut pO pH pF hpO hpH hpF hlO hlH hlF hr

theorem applyLocationMonths_length {α} (f : WinFn α) (mO mH mF : List Int) (obs hist fut : List α)
    (out : List (Option α)) (h : applyLocationMonths f mO mH mF obs hist fut = .ok out) : out.length = fut.length := by
  obtain ⟨wss, _, rfl⟩ := Lemmas.Skeleton.runLoop_ok _ _ _ _ h
  rw [Lemmas.Skeleton.applyWrites_length]; simp

open Model.Isimip in
/-- steps 1 and 8 around the month loop -/
theorem isimip_steps18_lift_months (c : Cfg) (fam : IsiFamily) (orc orc' : List Nat → Oracles) (drw drw' : List Nat → Draws)
    (mO mH mF dO dH dF yO yH yF yO' yH' yF' : List Int) (obs H F : List Rat) (pO pH pF : List Nat)
    (hpO : pO.Perm (List.range obs.length)) (hpH : pH.Perm (List.range H.length)) (hpF : pF.Perm (List.range F.length))
    (hlO : dO.length = obs.length) (hlH : dH.length = H.length) (hlF : dF.length = F.length)
    (hrO : ∀ d ∈ dO, 1 ≤ d ∧ d ≤ 366) (hrH : ∀ d ∈ dH, 1 ≤ d ∧ d ≤ 366) (hrF : ∀ d ∈ dF, 1 ≤ d ∧ d ≤ 366)
    (hinner : ∀ o1 h1 f1 cyc, step1 c obs H F dO dH dF = .ok (o1, h1, f1, cyc) →
      SameUpToOrder (Model.Skeleton.applyLocationMonths (winFn c fam orc drw yO yH yF) mO mH mF o1 h1 f1)
        (Model.Skeleton.applyLocationMonths (winFn c fam orc' drw' yO' yH' yF') (take mO pO) (take mH pH) (take mF pF)
          (take o1 pO) (take h1 pH) (take f1 pF)) pF) :
    SameUpToOrder (Model.Isimip.applyLocationMonths c fam orc drw mO mH mF dO dH dF yO yH yF obs H F)
      (Model.Isimip.applyLocationMonths c fam orc' drw' (take mO pO) (take mH pH) (take mF pF) (take dO pO) (take dH pH)
        (take dF pF) yO' yH' yF' (take obs pO) (take H pH) (take F pF)) pF := by
  obtain ⟨⟨o1, h1, f1, cyc⟩, hs1⟩ := step1_ok c obs H F dO dH dF hrO hrH hrF
  have hs1' := step1_take c obs H F dO dH dF pO pH pF hlO.symm hlH.symm hlF.symm hpO hpH hpF o1 h1 f1 cyc hs1
  obtain ⟨_, _, hf1, hcyc⟩ := step1_cycle c obs H F dO dH dF o1 h1 f1 cyc hlO.symm hlH.symm hlF.symm hs1
  unfold Model.Isimip.applyLocationMonths
  rw [hs1, hs1']
  simp only [bind, Except.bind]
  rcases hinner o1 h1 f1 cyc hs1 with ⟨out, e1, e2⟩ | ⟨e, e1, e2⟩
  · rw [e1, e2]
    simp only []
    have hol : out.length = dF.length := by rw [applyLocationMonths_length _ _ _ _ _ _ _ out e1, hf1, hlF]
    obtain ⟨r, hr8⟩ := step8Buffer_ok c out cyc dF hrF hcyc
    have hpo : pF.Perm (List.range out.length) := by rw [hol, hlF]; exact hpF
    exact Or.inl ⟨r, hr8, step8Buffer_take c out cyc dF pF hol hpo r hr8⟩
  · rw [e1, e2]
    exact Or.inr ⟨e, rfl, rfl⟩

/-- the index list the month loop hands to the window function -/
def monthIdx (ms : List Int) (m : Int) : List Nat := Py.whereTrue (ms.map (fun x => decide (x = m)))

open Model.Isimip in
/-- **the ISIMIP month loop on plain values**, `detrending = False`, oracles / draws keyed by the index list of the
    month's future sample -/
theorem isimip_months_values_time_order_equivariant (c : Cfg) (fam : IsiFamily) (orc orc' : List Nat → Oracles)
    (drw drw' : List Nat → Draws) (yO yH yF yO' yH' yF' : List Int) (hd : c.detrending = false)
    (mO mH mF : List Int) (obs hist fut : List Rat) (pO pH pF : List Nat)
    (hpO : pO.Perm (List.range obs.length)) (hpH : pH.Perm (List.range hist.length))
    (hpF : pF.Perm (List.range fut.length))
    (hlO : mO.length = obs.length) (hlH : mH.length = hist.length) (hlF : mF.length = fut.length)
    (hr : ∀ m ∈ mF, 1 ≤ m ∧ m ≤ 12)
    (hkey : ∀ m ∈ Py.arange1 1 13, orc' (monthIdx (take mF pF) m) = orc (monthIdx mF m) ∧
      drw' (monthIdx (take mF pF) m) = drw (monthIdx mF m))
    (hg : ∀ m ∈ Py.arange1 1 13, WindowGuard c (orc (monthIdx mF m)) (drw (monthIdx mF m))
      (undated (take obs (indicesIn mO [m]))) (undated (take hist (indicesIn mH [m])))
      (undated (take fut (indicesIn mF [m])))) :
    SameUpToOrder (Model.Skeleton.applyLocationMonths (winFn c fam orc drw yO yH yF) mO mH mF obs hist fut)
      (Model.Skeleton.applyLocationMonths (winFn c fam orc' drw' yO' yH' yF') (take mO pO) (take mH pH) (take mF pF)
        (take obs pO) (take hist pH) (take fut pF)) pF := by
  let oc : Int → Oracles := fun m => orc (monthIdx mF m)
  let dc : Int → Draws := fun m => drw (monthIdx mF m)
  let g : Int → WinFn Rat := fun m o hh x _ _ _ => isimipWinD c fam (oc m) (dc m) (undated o) (undated hh) (undated x)
  have e1 : Model.Skeleton.applyLocationMonths (winFn c fam orc drw yO yH yF) mO mH mF obs hist fut =
      applyLocationMonthsC g mO mH mF obs hist fut := by
    unfold Model.Skeleton.applyLocationMonths applyLocationMonthsC
    apply Lemmas.Lift.runLoop_congr
    intro m _
    unfold monthWrites winFn
    simp only [applyOnWindow_years_irrelevant c fam _ _ _ _ _ _ _ _ hd, g, oc, dc, monthIdx]
  have e2 : Model.Skeleton.applyLocationMonths (winFn c fam orc' drw' yO' yH' yF') (take mO pO) (take mH pH) (take mF pF)
      (take obs pO) (take hist pH) (take fut pF) =
      applyLocationMonthsC g (take mO pO) (take mH pH) (take mF pF) (take obs pO) (take hist pH) (take fut pF) := by
    unfold Model.Skeleton.applyLocationMonths applyLocationMonthsC
    apply Lemmas.Lift.runLoop_congr
    intro m hm
    unfold monthWrites winFn
    have hk := hkey m hm
    unfold monthIdx at hk
    simp only [applyOnWindow_years_irrelevant c fam _ _ _ _ _ _ _ _ hd, g, oc, dc, monthIdx, hk.1, hk.2]
  rw [e1, e2]
  let E : Int → List Rat → List Rat → List Rat → Except String ((Rat → Rat) × List Rat) :=
    fun m o hh x => winCtx c fam (oc m) (dc m) (undated o) (undated hh) (undated x)
  let G : Int → (Rat → Rat) × List Rat → List Rat → Rat → Rat :=
    fun m Tm x a => (winG c (oc m) Tm (undated x) (a, 0)).1
  let f' : Int → WinFn Rat := fun m o hh x _ _ _ => (E m o hh x).map (fun Tm => x.map (G m Tm x))
  let Pw : Int → List Rat → List Rat → List Rat → Prop :=
    fun m o hh x => WindowGuard c (oc m) (dc m) (undated o) (undated hh) (undated x)
  have hff : ∀ m o hh x io ih ix, Pw m o hh x → g m o hh x io ih ix = f' m o hh x io ih ix := by
    intro m o hh x io ih ix hx
    simp only [g, f', E, G]
    rw [isimip_window_pointwise_orderfree c fam (oc m) (dc m) _ _ _ hx]
    cases winCtx c fam (oc m) (dc m) (undated o) (undated hh) (undated x) with
    | error e => rfl
    | ok Tm =>
      simp only [Except.map, undated, List.map_map]
      rfl
  have hg' : ∀ m ∈ Py.arange1 1 13, Pw m (take (take obs pO) (indicesIn (take mO pO) [m]))
      (take (take hist pH) (indicesIn (take mH pH) [m])) (take (take fut pF) (indicesIn (take mF pF) [m])) :=
    fun m hm => WindowGuard_perm c (oc m) (dc m)
      (undated_perm (window_sample_perm obs mO _ pO hlO.symm hpO).symm)
      (undated_perm (window_sample_perm hist mH _ pH hlH.symm hpH).symm)
      (undated_perm (window_sample_perm fut mF _ pF hlF.symm hpF).symm) (hg m hm)
  unfold SameUpToOrder
  rw [applyLocationMonthsC_congr_on g f' Pw hff mO mH mF obs hist fut hg,
    applyLocationMonthsC_congr_on g f' Pw hff _ _ _ _ _ _ hg']
  refine equivariance_monthsC_E f' E G (fun _ _ _ _ _ _ _ => rfl) (fun m => ⟨?_, ?_⟩)
    mO mH mF obs hist fut pO pH pF hpO hpH hpF hlO hlH hlF hr
  · intro o o' hh' hh'' x x' ho hh1 hx
    exact (isimip_window_orderFree c fam (oc m) (dc m)).1 _ _ _ _ _ _ (undated_perm ho) (undated_perm hh1) (undated_perm hx)
  · intro Tm x x' hx
    funext a
    simp only [G]
    rw [(isimip_window_orderFree c fam (oc m) (dc m)).2 Tm _ _ (undated_perm hx)]

open Model.Isimip in
/-- **`ISIMIP.apply_location` in month mode is time-order equivariant — every variable without detrending**, on
    `Model.Isimip.applyLocationMonths` itself -/
theorem isimip_apply_location_months_time_order_equivariant (c : Cfg) (fam : IsiFamily) (orc orc' : List Nat → Oracles)
    (drw drw' : List Nat → Draws) (yO yH yF yO' yH' yF' : List Int) (hd : c.detrending = false)
    (mO mH mF dO dH dF : List Int) (obs hist fut : List Rat) (pO pH pF : List Nat)
    (hpO : pO.Perm (List.range obs.length)) (hpH : pH.Perm (List.range hist.length))
    (hpF : pF.Perm (List.range fut.length))
    (hmO : mO.length = obs.length) (hmH : mH.length = hist.length) (hmF : mF.length = fut.length)
    (hlO : dO.length = obs.length) (hlH : dH.length = hist.length) (hlF : dF.length = fut.length)
    (hr : ∀ m ∈ mF, 1 ≤ m ∧ m ≤ 12)
    (hrO : ∀ d ∈ dO, 1 ≤ d ∧ d ≤ 366) (hrH : ∀ d ∈ dH, 1 ≤ d ∧ d ≤ 366) (hrF : ∀ d ∈ dF, 1 ≤ d ∧ d ≤ 366)
    (hkey : ∀ m ∈ Py.arange1 1 13, orc' (monthIdx (take mF pF) m) = orc (monthIdx mF m) ∧
      drw' (monthIdx (take mF pF) m) = drw (monthIdx mF m))
    (hg : ∀ o1 h1 f1 cyc, step1 c obs hist fut dO dH dF = .ok (o1, h1, f1, cyc) →
      ∀ m ∈ Py.arange1 1 13, WindowGuard c (orc (monthIdx mF m)) (drw (monthIdx mF m))
        (undated (take o1 (indicesIn mO [m]))) (undated (take h1 (indicesIn mH [m])))
        (undated (take f1 (indicesIn mF [m])))) :
    SameUpToOrder (Model.Isimip.applyLocationMonths c fam orc drw mO mH mF dO dH dF yO yH yF obs hist fut)
      (Model.Isimip.applyLocationMonths c fam orc' drw' (take mO pO) (take mH pH) (take mF pF) (take dO pO) (take dH pH)
        (take dF pF) yO' yH' yF' (take obs pO) (take hist pH) (take fut pF)) pF := by
  apply isimip_steps18_lift_months c fam orc orc' drw drw' mO mH mF dO dH dF yO yH yF yO' yH' yF' obs hist fut pO pH pF
    hpO hpH hpF hlO hlH hlF hrO hrH hrF
  intro o1 h1 f1 cyc hs1
  obtain ⟨l1, l2, l3, _⟩ := step1_cycle c obs hist fut dO dH dF o1 h1 f1 cyc hlO.symm hlH.symm hlF.symm hs1
  exact isimip_months_values_time_order_equivariant c fam orc orc' drw drw' yO yH yF yO' yH' yF' hd mO mH mF o1 h1 f1
    pO pH pF (l1 ▸ hpO) (l2 ▸ hpH) (l3 ▸ hpF) (hmO.trans l1.symm) (hmH.trans l2.symm) (hmF.trans l3.symm) hr hkey
    (hg o1 h1 f1 cyc hs1)

/-! ## 9d. Fits as functions of the multiset: the left-censored gamma precipitation model

  `fit(data)` hands the likelihood optimiser the values above the censoring threshold (a filter) and the number of
  censored values.  If the optimiser does not depend on the order of its sample (its objective is a sum over the
  sample; Nelder–Mead's floating-point order noise is carried by the oracle's tolerance), the fit satisfies `FitPerm`,
  the one law the parametric theorems use. -/

/-- the optimiser is a function of the multiset of the non-censored sample -/
def InnerOrderFree {P : Type} (inner : List Rat → Int → Rat → P) : Prop :=
  ∀ xs ys n t, xs.Perm ys → inner xs n t = inner ys n t

theorem censoredFit_perm {P : Type} (inner : List Rat → Int → Rat → P) (hin : InnerOrderFree inner) (thr : Rat)
    {data data' : List Rat} (h : data.Perm data') :
    Model.PrecipFit.censoredFit inner thr data = Model.PrecipFit.censoredFit inner thr data' := by
  unfold Model.PrecipFit.censoredFit
  simp only []
  rw [h.length_eq, (h.filter _).length_eq]
  exact hin _ _ _ _ (h.filter _)

/-- … for the fit regenerated from /repo's current source (tier A) -/
theorem gen_censored_fit_perm (inner : List Rat → Int → Rat → Rat × Rat × Rat) (hin : InnerOrderFree inner) (thr : Rat)
    {data data' : List Rat} (h : data.Perm data') :
    Gen.PrecipFit.censored_fit inner thr data = Gen.PrecipFit.censored_fit inner thr data' := by
  rw [Lemmas.GenPrecipFit.censored_fit, Lemmas.GenPrecipFit.censored_fit, censoredFit_perm inner hin thr h]

/-- the censored-gamma family (cdf / ppf arbitrary) satisfies the law the parametric theorems need -/
theorem censored_family_fitPerm {P : Type} (inner : List Rat → Int → Rat → P) (hin : InnerOrderFree inner) (thr : Rat)
    (cdf ppf : P → Rat → Rat) : FitPerm { fit := Model.PrecipFit.censoredFit inner thr, cdf := cdf, ppf := ppf } :=
  fun _ _ h => censoredFit_perm inner hin thr h

/-- QDM for precipitation (censored gamma, seasonal and year windows): time-order equivariant -/
theorem qdm_censored_years_time_order_equivariant {P : Type} (inner : List Rat → Int → Rat → P) (hin : InnerOrderFree inner)
    (thr : Rat) (cdf ppf : P → Rat → Rat) (tp : TrendPres) (em : EcdfMethod) (t : Rat) (cz : Option Rat)
    (YL YS hY : Int) (hS : YS = 2 * hY + 1) (hh : 0 ≤ hY) (hSL : YS ≤ YL) :
    TimeOrderEquivariantRW (yearsWinFn (qdmYearFn { fit := Model.PrecipFit.censoredFit inner thr, cdf := cdf, ppf := ppf }
      tp em t cz) YL YS) anySeries :=
  qdm_years_time_order_equivariant _ (censored_family_fitPerm inner hin thr cdf ppf) tp em t cz YL YS hY hS hh hSL

/-- an optimiser that satisfies the hypothesis (non-vacuity): the method-of-moments pair (mean, mean absolute deviation) -/
example : InnerOrderFree (fun xs (_ : Int) (_ : Rat) => (mean xs, meanAbsDev xs)) :=
  fun _ _ _ _ h => by simp only [Lemmas.Family.mean_perm h, Lemmas.Family.meanAbsDev_perm h]

/-! ## 9e. The month loop (ISIMIP `running_window_mode = False`), restated here as a property theorem -/

/-- **Time-order equivariance of the month loop** for a window function that is pointwise over an order-free context -/
theorem equivariance_months {α} (f : WinFn α) (G : List α → List α → List α → α → α)
    (hf : PointwiseOn f G) (hG : OrderFree G) (mO mH mF : List Int) (obs hist fut : List α)
    (pO pH pF : List Nat)
    (hpO : pO.Perm (List.range obs.length)) (hpH : pH.Perm (List.range hist.length))
    (hpF : pF.Perm (List.range fut.length))
    (hlO : mO.length = obs.length) (hlH : mH.length = hist.length) (hlF : mF.length = fut.length)
    (hr : ∀ m ∈ mF, 1 ≤ m ∧ m ≤ 12) :
    ∃ out, applyLocationMonths f mO mH mF obs hist fut = .ok out ∧
      applyLocationMonths f (take mO pO) (take mH pH) (take mF pF) (take obs pO) (take hist pH) (take fut pF)
        = .ok (take out pF) :=
  Lemmas.C06.equivariance_months f G hf hG mO mH mF obs hist fut pO pH pF hpO hpH hpF hlO hlH hlF hr

/-- a concrete instance of the month-loop guards: three series over different months, three different permutations -/
example : ∃ out, applyLocationMonths (okFn (linearScaling .additive)) [1, 1, 2, 12] [2, 1, 12] [12, 1, 1, 2, 2]
      [10, 11, 12, 13] [20, 21, 22] [1, 2, 3, 4, 5] = .ok out ∧
    applyLocationMonths (okFn (linearScaling .additive)) (take [1, 1, 2, 12] [3, 1, 0, 2]) (take [2, 1, 12] [2, 0, 1])
      (take [12, 1, 1, 2, 2] [4, 2, 0, 1, 3]) (take [10, 11, 12, 13] [3, 1, 0, 2]) (take [20, 21, 22] [2, 0, 1])
      (take [1, 2, 3, 4, 5] [4, 2, 0, 1, 3]) = .ok (take out [4, 2, 0, 1, 3]) := by
  obtain ⟨G, hpw, hG⟩ := ls_pointwise_orderfree .additive
  exact equivariance_months (okFn (linearScaling .additive)) G (fun o h x _ _ _ => by simp [okFn, hpw]) hG
    [1, 1, 2, 12] [2, 1, 12] [12, 1, 1, 2, 2] [10, 11, 12, 13] [20, 21, 22] [1, 2, 3, 4, 5] [3, 1, 0, 2] [2, 0, 1]
    [4, 2, 0, 1, 3] (by decide) (by decide) (by decide) rfl rfl rfl (by decide)

/-! ## 10. The hypotheses are satisfiable (non-vacuity) -/

/-- the family law holds for the executable rational test double -/
theorem ratSigmoid_locScalePerm : LocScalePerm ratSigmoid := locScalePerm_of_laws Lemmas.Family.ratSigmoid_laws

example : FitPerm ratSigmoid.toFamily := ratSigmoid_fitPerm

/-- a concrete instance of every guard of `TimeOrderEquivariantRW`: window length 3, step 1, series of different
    lengths not starting on day 1 and crossing the year boundary, three different non-trivial permutations -/
example : ∃ out, applyLocationRW (okFn (linearScaling .additive)) 3 1 [365, 366, 1, 2] [1, 2, 365] [366, 1, 2, 365, 366]
      [10, 11, 12, 13] [20, 21, 22] [1, 2, 3, 4, 5] = .ok out ∧
    applyLocationRW (okFn (linearScaling .additive)) 3 1 (take [365, 366, 1, 2] [3, 1, 0, 2]) (take [1, 2, 365] [2, 0, 1])
      (take [366, 1, 2, 365, 366] [4, 2, 0, 1, 3]) (take [10, 11, 12, 13] [3, 1, 0, 2]) (take [20, 21, 22] [2, 0, 1])
      (take [1, 2, 3, 4, 5] [4, 2, 0, 1, 3]) = .ok (take out [4, 2, 0, 1, 3]) :=
  ls_time_order_equivariant .additive 3 1 0 [365, 366, 1, 2] [1, 2, 365] [366, 1, 2, 365, 366] [10, 11, 12, 13] [20, 21, 22]
    [1, 2, 3, 4, 5] [3, 1, 0, 2] [2, 0, 1] [4, 2, 0, 1, 3] (by decide) (by decide) (by decide) rfl rfl rfl (by decide) (by decide)
    (by decide) (by decide) trivial

/-- … of `TimeOrderEquivariantDC` -/
example : ∃ out, applyLocationDC (okFn (deltaChange .additive)) 3 1 [365, 366, 1, 2] [1, 2, 365] [366, 1, 2, 365, 366]
      [10, 11, 12, 13] [20, 21, 22] [1, 2, 3, 4, 5] = .ok out ∧
    applyLocationDC (okFn (deltaChange .additive)) 3 1 (take [365, 366, 1, 2] [3, 1, 0, 2]) (take [1, 2, 365] [2, 0, 1])
      (take [366, 1, 2, 365, 366] [4, 2, 0, 1, 3]) (take [10, 11, 12, 13] [3, 1, 0, 2]) (take [20, 21, 22] [2, 0, 1])
      (take [1, 2, 3, 4, 5] [4, 2, 0, 1, 3]) = .ok (take out [3, 1, 0, 2]) :=
  dc_time_order_equivariant .additive 3 1 0 [365, 366, 1, 2] [1, 2, 365] [366, 1, 2, 365, 366] [10, 11, 12, 13] [20, 21, 22]
    [1, 2, 3, 4, 5] [3, 1, 0, 2] [2, 0, 1] [4, 2, 0, 1, 3] (by decide) (by decide) (by decide) rfl rfl rfl (by decide) (by decide)
    (by decide) (by decide)

/-- the tie-free guard of the rank-based methods (absolute SDM with the test double) -/
example : ∃ out, applyLocationRW (okFn (sdmAbsolute ratSigmoid)) 3 1 [365, 366, 1, 2] [1, 2, 365] [366, 1, 2, 365, 366]
      [10, 11, 12, 13] [20, 21, 22] [5, 2, 3, 1, 4] = .ok out ∧
    applyLocationRW (okFn (sdmAbsolute ratSigmoid)) 3 1 (take [365, 366, 1, 2] [3, 1, 0, 2]) (take [1, 2, 365] [2, 0, 1])
      (take [366, 1, 2, 365, 366] [4, 2, 0, 1, 3]) (take [10, 11, 12, 13] [3, 1, 0, 2]) (take [20, 21, 22] [2, 0, 1])
      (take [5, 2, 3, 1, 4] [4, 2, 0, 1, 3]) = .ok (take out [4, 2, 0, 1, 3]) :=
  sdm_absolute_time_order_equivariant ratSigmoid ratSigmoid_locScalePerm 3 1 0 [365, 366, 1, 2] [1, 2, 365]
    [366, 1, 2, 365, 366] [10, 11, 12, 13] [20, 21, 22] [5, 2, 3, 1, 4] [3, 1, 0, 2] [2, 0, 1] [4, 2, 0, 1, 3]
    (by decide) (by decide) (by decide) rfl rfl rfl (by decide) (by decide) (by decide) (by decide) (by decide +kernel)

/-- the year-window guards (`YS = 2·1 + 1 ≤ YL = 5`) together with the seasonal ones: dated pairs (value, year) -/
example : ∃ out, applyLocationRW (yearsWinFn (cdftYearFn .additive .linear .linear) 5 3) 3 1 [365, 366, 1, 2] [1, 2, 365]
      [366, 1, 2, 365, 366] [(10, 1990), (11, 1990), (12, 1991), (13, 1991)] [(20, 1985), (21, 1985), (22, 1985)]
      [(1, 2000), (2, 2001), (3, 2001), (4, 2005), (5, 2008)] = .ok out ∧
    applyLocationRW (yearsWinFn (cdftYearFn .additive .linear .linear) 5 3) 3 1 (take [365, 366, 1, 2] [3, 1, 0, 2])
      (take [1, 2, 365] [2, 0, 1]) (take [366, 1, 2, 365, 366] [4, 2, 0, 1, 3])
      (take [(10, 1990), (11, 1990), (12, 1991), (13, 1991)] [3, 1, 0, 2]) (take [(20, 1985), (21, 1985), (22, 1985)] [2, 0, 1])
      (take [(1, 2000), (2, 2001), (3, 2001), (4, 2005), (5, 2008)] [4, 2, 0, 1, 3]) = .ok (take out [4, 2, 0, 1, 3]) :=
  cdft_years_time_order_equivariant .additive .linear .linear 5 3 1 (by decide) (by decide) (by decide) 3 1 0
    [365, 366, 1, 2] [1, 2, 365] [366, 1, 2, 365, 366] _ _ _ [3, 1, 0, 2] [2, 0, 1] [4, 2, 0, 1, 3]
    (by decide) (by decide) (by decide) rfl rfl rfl (by decide) (by decide) (by decide) (by decide) trivial

open Model.Isimip in
/-- the configuration guards of the ISIMIP partial theorem: tas-like settings without detrending -/
example : let c : Cfg := { trendMethod := .additive, nonparametricQm := false, detrending := false }
    c.detrending = false ∧ (c.hasLowerBound && c.hasLowerThreshold) = false ∧
      (c.hasUpperBound && c.hasUpperThreshold) = false := by decide

open Model.Isimip in
/-- the configuration guards of the detrending theorem: ISIMIP's tas settings (detrending on, no bounds / thresholds) -/
example : let c : Cfg := { trendMethod := .additive, nonparametricQm := false, detrending := true }
    c.detrending = true ∧ (c.hasLowerBound && c.hasLowerThreshold) = false ∧
      (c.hasUpperBound && c.hasUpperThreshold) = false := by decide

open Model.Isimip in
/-- the tie-free guard of the detrending theorem is satisfiable: when the trend of `cm_future` is not significant nothing
    is removed, and the guard is tie-freeness of the future values of every window — implied by a tie-free series -/
theorem detrended_windows_nodup_of_not_significant (c : Cfg) (o : Oracles) (hs : o.sigF = false) (L S : Int)
    (dF : List Int) (fut : List Dated) (hnd : (fut.map Prod.fst).Nodup) :
    ∀ cc ∈ useCenters S dF, (detr c o.sigF (take fut (idxWindow L dF cc))).Nodup := by
  intro cc _
  rw [hs, detr_not_significant, ← take_map']
  exact take_nodup _ _ hnd (indicesIn_nodup dF _)

example : ([((3 : Rat), (2001 : Int)), (1, 2001), (2, 2002)].map Prod.fst).Nodup := by decide +kernel

open Model.Isimip in
/-- the guard of the general ISIMIP theorems is satisfiable: without a bound / threshold pair (ISIMIP's tas, psl, rlds
    settings) it is tie-freeness of the (detrended) future window sample — the earlier `_partial` theorems are instances -/
theorem windowGuard_of_no_threshold_pair (c : Cfg) (o : Oracles) (d : Draws) (ob h x : List Dated)
    (hl : lowerActive c = false) (hu : upperActive c = false) (hnd : (detrG c o.sigF x).Nodup) :
    WindowGuard c o d ob h x := by
  have sg : ∀ dl vals, SeriesGuard c dl vals := by
    intro dl vals
    constructor
    · intro ha; rw [hl] at ha; cases ha
    · intro ha; rw [hu] at ha; cases ha
  refine ⟨sg _ _, sg _ _, sg _ _, ?_⟩
  intro T hT
  unfold step4Ctx lowerCtx upperCtx at hT
  simp only [hl, hu, Bool.false_eq_true, if_false, Except.bind] at hT
  have := Except.ok.inj hT
  rw [← this]
  simpa using hnd

open Model.Isimip in
example : let c : Cfg := { trendMethod := .additive, nonparametricQm := false, detrending := true }
    lowerActive c = false ∧ upperActive c = false := by decide

end Props.C06
