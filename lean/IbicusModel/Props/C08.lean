/-
  C08 — seasonal locality: a day is corrected only from data inside its window.
  Layer S: any element type `α`, any per-window function `f` — therefore bit-for-bit.
-/
import IbicusModel.Lemmas.Windows
import IbicusModel.Lemmas.Skeleton
import IbicusModel.Props.C07

namespace Props.C08
open Model.Windows Lemmas.Windows Model.Skeleton Lemmas.Skeleton

/-- `d` lies within `k` days of day `t`, circularly over the year the way the code wraps
    (`np.mod(·, 366)` with `0 ↦ 366`) -/
def circNear (k t d : Int) : Prop := ∃ x, t - k ≤ x ∧ x ≤ t + k ∧ wrap366 x = d

/-- **The window really uses everything up to `L/2` days from its centre** (and nothing else):
    the calibration sample of centre `c` is exactly the set of steps whose day of year is within `L/2`
    days of `c`, circularly. -/
theorem window_mem_iff_circ (L : Int) (doy : List Int) (c : Int) (j : Nat) :
    j ∈ idxWindow L doy c ↔ ∃ hj : j < doy.length, circNear (L / 2) c doy[j] := by
  unfold idxWindow circNear
  rw [mem_indicesIn]
  constructor
  · rintro ⟨hj, hm⟩
    obtain ⟨x, hx, hw⟩ := (mem_windowRange L c _).mp hm
    exact ⟨hj, x, hx.1, hx.2, hw⟩
  · rintro ⟨hj, x, h1, h2, hw⟩
    exact ⟨hj, (mem_windowRange L c _).mpr ⟨x, ⟨h1, h2⟩, hw⟩⟩

/-- a step adjusted by centre `c` is at most `S/2` days from `c` (no wrapping in the adjust set) -/
theorem adjust_close (S : Int) (doy : List Int) (c : Int) (i : Nat) (hi : i ∈ idxAdjust S doy c) :
    ∃ h : i < doy.length, c - S / 2 ≤ doy[i] ∧ doy[i] ≤ c + S / 2 := by
  unfold idxAdjust at hi
  obtain ⟨hlt, hm⟩ := (mem_indicesIn _ _ _).mp hi
  exact ⟨hlt, ((mem_adjustRange S c _).mp hm).1⟩

/-- widening: everything in the window of a centre that adjusts day `t` is within `L/2 + S/2` days of `t` -/
theorem circNear_of_window (L S c t d : Int) (ht : c - S / 2 ≤ t ∧ t ≤ c + S / 2)
    (hd : circNear (L / 2) c d) : circNear (L / 2 + S / 2) t d := by
  obtain ⟨x, h1, h2, hw⟩ := hd
  exact ⟨x, by omega, by omega, hw⟩

/-- **Seasonal locality (RunningWindowDebiaser, ISIMIP running-window loop).**  Two runs with the same dates whose
    inputs agree at every step lying within `L/2 + S/2` days (circularly) of the target step's day of year give
    the same value at the target step — as `Option (Option α)`, i.e. bit-for-bit, for any `f`. -/
theorem locality_RW {α} (f : WinFn α) (L S : Int) (dO dH dF : List Int)
    (obs hist fut obs' hist' fut' : List α) (out out' : List (Option α)) (i : Nat)
    (hi : i < dF.length) (hlen : fut.length = fut'.length)
    (hO : ∀ j (hj : j < dO.length), circNear (L / 2 + S / 2) dF[i] dO[j] → obs[j]? = obs'[j]?)
    (hH : ∀ j (hj : j < dH.length), circNear (L / 2 + S / 2) dF[i] dH[j] → hist[j]? = hist'[j]?)
    (hF : ∀ j (hj : j < dF.length), circNear (L / 2 + S / 2) dF[i] dF[j] → fut[j]? = fut'[j]?)
    (hrun : applyLocationRW f L S dO dH dF obs hist fut = .ok out)
    (hrun' : applyLocationRW f L S dO dH dF obs' hist' fut' = .ok out') :
    out[i]? = out'[i]? := by
  unfold applyLocationRW at hrun hrun'
  rw [hlen] at hrun
  apply runLoop_local _ _ _ _ _ _ i _ hrun hrun'
  intro c _ ws ws' hR hR'
  by_cases hia : i ∈ idxAdjust S dF c
  · obtain ⟨_, hclose⟩ := adjust_close S dF c i hia
    have key : ∀ (d : List Int) (x x' : List α),
        (∀ j (hj : j < d.length), circNear (L / 2 + S / 2) dF[i] d[j] → x[j]? = x'[j]?) →
        take x (idxWindow L d c) = take x' (idxWindow L d c) := by
      intro d x x' hx
      apply take_congr
      intro j hj
      obtain ⟨hjl, hn⟩ := (window_mem_iff_circ L d c j).mp hj
      exact hx j hjl (circNear_of_window L S c _ _ hclose hn)
    have e : windowWrites f L S dO dH dF obs hist fut c = windowWrites f L S dO dH dF obs' hist' fut' c := by
      unfold windowWrites
      simp only [key dO obs obs' hO, key dH hist hist' hH, key dF fut fut' hF]
    rw [e] at hR
    rw [hR] at hR'
    rw [Except.ok.inj hR']
  · rw [filter_key_eq_nil ws i (by rw [windowWrites_keys _ _ _ _ _ _ _ _ _ _ _ hR]; exact hia),
        filter_key_eq_nil ws' i (by rw [windowWrites_keys _ _ _ _ _ _ _ _ _ _ _ hR']; exact hia)]

/-- **Seasonal locality (DeltaChange)**: the corrected series is `obs`, the target day is an `obs` day. -/
theorem locality_DC {α} (f : WinFn α) (L S : Int) (dO dH dF : List Int)
    (obs hist fut obs' hist' fut' : List α) (out out' : List (Option α)) (i : Nat)
    (hi : i < dO.length) (hlen : obs.length = obs'.length)
    (hO : ∀ j (hj : j < dO.length), circNear (L / 2 + S / 2) dO[i] dO[j] → obs[j]? = obs'[j]?)
    (hH : ∀ j (hj : j < dH.length), circNear (L / 2 + S / 2) dO[i] dH[j] → hist[j]? = hist'[j]?)
    (hF : ∀ j (hj : j < dF.length), circNear (L / 2 + S / 2) dO[i] dF[j] → fut[j]? = fut'[j]?)
    (hrun : applyLocationDC f L S dO dH dF obs hist fut = .ok out)
    (hrun' : applyLocationDC f L S dO dH dF obs' hist' fut' = .ok out') :
    out[i]? = out'[i]? := by
  unfold applyLocationDC at hrun hrun'
  rw [hlen] at hrun
  apply runLoop_local _ _ _ _ _ _ i _ hrun hrun'
  intro c _ ws ws' hR hR'
  by_cases hia : i ∈ idxAdjust S dO c
  · obtain ⟨_, hclose⟩ := adjust_close S dO c i hia
    have key : ∀ (d : List Int) (x x' : List α),
        (∀ j (hj : j < d.length), circNear (L / 2 + S / 2) dO[i] d[j] → x[j]? = x'[j]?) →
        take x (idxWindow L d c) = take x' (idxWindow L d c) := by
      intro d x x' hx
      apply take_congr
      intro j hj
      obtain ⟨hjl, hn⟩ := (window_mem_iff_circ L d c j).mp hj
      exact hx j hjl (circNear_of_window L S c _ _ hclose hn)
    have e : windowWritesDC f L S dO dH dF obs hist fut c = windowWritesDC f L S dO dH dF obs' hist' fut' c := by
      unfold windowWritesDC
      simp only [key dO obs obs' hO, key dH hist hist' hH, key dF fut fut' hF]
    rw [e] at hR
    rw [hR] at hR'
    rw [Except.ok.inj hR']
  · rw [filter_key_eq_nil ws i (by rw [windowWritesDC_keys _ _ _ _ _ _ _ _ _ _ _ hR]; exact hia),
        filter_key_eq_nil ws' i (by rw [windowWritesDC_keys _ _ _ _ _ _ _ _ _ _ _ hR']; exact hia)]

/-! ### Non-vacuity: the bound `L/2` is attained — a change at distance exactly `L/2` from the centre matters,
    a change at distance `L/2 + 1` does not (window function: shift by the sum of the `cm_hist` sample,
    `L = 5`, `S = 1`, target day 10, one value per day 1..20). -/

def probeSum : WinFn Int := fun _ h x _ _ _ => .ok (x.map (· + h.sum))
def days20 : List Int := Py.arange1 1 21
def zeros20 : List Int := List.replicate 20 0

example : circNear 2 10 12 := ⟨12, by decide, by decide, by decide⟩

-- hist changed on day 12 (distance 2 = L/2): the value on day 10 (index 9) changes
example : (applyLocationRW probeSum 5 1 days20 days20 days20 zeros20 (zeros20.set 11 7) zeros20).toOption.map (·[9]?)
    ≠ (applyLocationRW probeSum 5 1 days20 days20 days20 zeros20 zeros20 zeros20).toOption.map (·[9]?) := by decide

-- hist changed on day 13 (distance 3): unchanged
example : (applyLocationRW probeSum 5 1 days20 days20 days20 zeros20 (zeros20.set 12 7) zeros20).toOption.map (·[9]?)
    = (applyLocationRW probeSum 5 1 days20 days20 days20 zeros20 zeros20 zeros20).toOption.map (·[9]?) := by decide

-- the window wraps at the year boundary: centre 366 with L = 5 contains days 364, 365, 366, 1, 2
example : idxWindow 5 [1, 2, 3, 363, 364, 365, 366] 366 = [0, 1, 4, 5, 6] := by decide

end Props.C08
