/-
  C03 — no-bias fixed point: an unbiased model (`cm_hist = obs`, value for value) is left unchanged.
  Property theorems only, on the shared layer-N model `Model.Debiasers` (tied to /repo by tier A for
  LinearScaling / DeltaChange and by the correspondence `harness/debiasers_corr.py` for the rest); exact
  rational arithmetic (float rounding is carried by the tolerance of the correspondence and of the oracle).
  Per-window statements first, then the lifts to the running-window loop over days of year, the loop over year
  windows of the future period, and their composition.
-/
import IbicusModel.Lemmas.C03
import IbicusModel.Lemmas.GenDebiasers
import IbicusModel.Model.InferredDates

namespace Props.C03
open Model.Stats Model.Family Model.Debiasers Model.Skeleton Model.Windows Lemmas.Stats Lemmas.Family Lemmas.C03

/-! ## 1. LinearScaling -/

/-- additive: `x − (mean obs − mean obs) = x`.  Guard: a non-empty calibration sample — `np.mean([])` is NaN in the code
    (the model's total `mean [] = 0` would make the statement true there for the wrong reason) -/
theorem ls_add_fixed_point (obs F : List Rat) (_hne : obs ≠ []) : linearScaling .additive obs obs F = F := by
  unfold linearScaling
  apply map_eq_self
  intro x _
  simp

/-- multiplicative: `x · (mean obs / mean obs) = x`, guard `mean obs ≠ 0` (the code divides by it) -/
theorem ls_mult_fixed_point (obs F : List Rat) (hm : mean obs ≠ 0) : linearScaling .multiplicative obs obs F = F := by
  unfold linearScaling
  apply map_eq_self
  intro x _
  rw [div_self hm, mul_one]

example : linearScaling .additive [1, 2, 4] [1, 2, 4] [3, 5] = [3, 5] := ls_add_fixed_point _ _ (by simp)
example : linearScaling .multiplicative [1, 2, 4] [1, 2, 4] [3, 5] = [3, 5] :=
  ls_mult_fixed_point _ _ (by decide +kernel)
-- the guard is needed: with `mean obs = 0` the code divides 0 by 0 (NaN); the model's total division gives 0
example : linearScaling .multiplicative [-1, 1] [-1, 1] [3, 5] ≠ [3, 5] := by decide +kernel

/-! ## 2. DeltaChange: an unchanged model (`cm_future = cm_hist`) returns the observations -/

theorem dc_identity_add (obs H : List Rat) (_hne : H ≠ []) : deltaChange .additive obs H H = obs := by
  unfold deltaChange
  apply map_eq_self
  intro x _
  simp

theorem dc_identity_mult (obs H : List Rat) (hm : mean H ≠ 0) : deltaChange .multiplicative obs H H = obs := by
  unfold deltaChange
  apply map_eq_self
  intro x _
  rw [div_self hm, mul_one]

/-- both delta types at once, under the model's `dcGuard` -/
theorem dc_identity (d : DeltaType) (obs H : List Rat) (hg : dcGuard d H H) : deltaChange d obs H H = obs := by
  cases d with
  | additive => exact dc_identity_add obs H hg.1
  | multiplicative => exact dc_identity_mult obs H (hg.2.2 rfl)

example : deltaChange .multiplicative [1, 2, 4] [3, 5] [3, 5] = [1, 2, 4] :=
  dc_identity .multiplicative _ _ (by decide +kernel)

/-! ## 3. ECDFM and QuantileDeltaMapping: the two `ppf` terms cancel — **even when clipped**, for *any* family -/

/-- ECDFM: `x + ppf_obs(τ) − ppf_obs(τ) = x` for every family (no law is used), every threshold — also a non-default
    one —, clipped or not.  Guard: a non-empty calibration sample (the fit of an empty sample raises / is NaN in the code;
    a `Family` of the model is total) -/
theorem ecdfm_fixed_point {P} (Fam : Family P) (t : Rat) (obs F : List Rat) (_hne : obs ≠ []) : ecdfm Fam t obs obs F = F := by
  unfold ecdfm
  apply map_eq_self
  intro x _
  simp

/-- QDM absolute on one (year-)window, censoring off: any family, any ecdf `E`, any threshold, clipped or not -/
theorem qdm_absolute_fixed_point {P} (Fam : Family P) (E : List Rat → Rat → Rat) (t : Rat) (F : List Rat) (p : P) :
    qdmStepsG Fam .absolute E t none F p p = F := by
  unfold qdmStepsG qdmCore qdmCensor
  apply map_eq_self
  intro x _
  simp

/-- with `censor_values_to_zero`: values below the censoring threshold become 0, all others are unchanged -/
theorem qdm_absolute_fixed_point_censored {P} (Fam : Family P) (E : List Rat → Rat → Rat) (t thr : Rat)
    (F : List Rat) (p : P) :
    qdmStepsG Fam .absolute E t (some thr) F p p = F.map (fun x => if x < thr then 0 else x) := by
  unfold qdmStepsG qdmCore qdmCensor
  apply List.map_congr_left
  intro x _
  simp

/-- QDM relative: `x · ppf(τ) / ppf(τ) = x`, guard `ppf_H(τ) ≠ 0` for every `τ` that occurs (`qdmRelGuard`) -/
theorem qdm_relative_fixed_point {P} (Fam : Family P) (E : List Rat → Rat → Rat) (t : Rat) (F : List Rat) (p : P)
    (hg : qdmRelGuard Fam E t F p) : qdmStepsG Fam .relative E t none F p p = F := by
  unfold qdmStepsG qdmCore qdmCensor
  exact map_eq_self F _ (fun x hx => by simp only []; exact mul_div_cancel_right₀ x (hg x hx))

/-- QDM relative with `censor_values_to_zero` (the precipitation default): identity on the values at or above
    the censoring threshold, 0 below it -/
theorem qdm_relative_fixed_point_censored {P} (Fam : Family P) (E : List Rat → Rat → Rat) (t thr : Rat)
    (F : List Rat) (p : P) (hg : qdmRelGuard Fam E t F p) :
    qdmStepsG Fam .relative E t (some thr) F p p = F.map (fun x => if x < thr then 0 else x) := by
  unfold qdmStepsG qdmCore qdmCensor
  apply List.map_congr_left
  intro x hx
  simp only []
  rw [mul_div_cancel_right₀ x (hg x hx)]

/-- … hence the identity when every value is at or above the threshold -/
theorem qdm_censored_id_of_ge (thr : Rat) (F : List Rat) (h : ∀ x ∈ F, thr ≤ x) :
    F.map (fun x => if x < thr then 0 else x) = F :=
  map_eq_self F _ (fun x hx => by rw [if_neg (not_lt.mpr (h x hx))])

-- a value EXACTLY at the censoring threshold survives ("at or above"), a value below it is zeroed
example : [1 / 8, 1 / 16, 3].map (fun x => if x < (1 / 8 : Rat) then 0 else x) = [1 / 8, 0, 3] := by decide +kernel

/-- with `censor_values_to_zero` (`c = some thr`) the statement is about series whose values are all at or above the
    censoring threshold; without censoring (`c = none`) there is no condition -/
def AtOrAbove (c : Option Rat) (F : List Rat) : Prop := ∀ thr, c = some thr → ∀ x ∈ F, thr ≤ x

theorem AtOrAbove.sublist {c : Option Rat} {F G : List Rat} (h : AtOrAbove c F) (hs : G.Sublist F) : AtOrAbove c G :=
  fun thr e x hx => h thr e x (hs.subset hx)

/-- one (year-)window with either trend preservation and with or without censoring -/
theorem qdm_steps_fixed_point {P} (Fam : Family P) (tp : TrendPres) (E : List Rat → Rat → Rat) (t : Rat) (c : Option Rat)
    (F : List Rat) (p : P) (hc : AtOrAbove c F) (hg : tp = .relative → qdmRelGuard Fam E t F p) :
    qdmStepsG Fam tp E t c F p p = F := by
  cases c with
  | none =>
    cases tp with
    | absolute => exact qdm_absolute_fixed_point Fam E t F p
    | relative => exact qdm_relative_fixed_point Fam E t F p (hg rfl)
  | some thr =>
    have hid := qdm_censored_id_of_ge thr F (hc thr rfl)
    cases tp with
    | absolute => rw [qdm_absolute_fixed_point_censored, hid]
    | relative => rw [qdm_relative_fixed_point_censored Fam E t thr F p (hg rfl), hid]

/-- the window-free `apply_on_window` of QDM (both fits are the fit of `obs`) -/
theorem qdm_window_fixed_point {P} (Fam : Family P) (tp : TrendPres) (em : EcdfMethod) (t : Rat) (obs F : List Rat)
    (c : Option Rat) (_hne : obs ≠ []) (hc : AtOrAbove c F)
    (hg : tp = .relative → qdmRelGuard Fam (ecdf1 em) t F (Fam.fit obs)) :
    qdmWindow Fam tp em t c obs obs F = F := by
  unfold qdmWindow qdmSteps
  exact qdm_steps_fixed_point Fam tp _ t c F _ hc hg

example : qdmWindow ratSigmoid.toFamily .absolute .linear (1 / 10) none [1, 2, 4] [1, 2, 4] [0, 30, 7] = [0, 30, 7] :=
  qdm_window_fixed_point _ _ _ _ _ _ none (by simp) (fun _ e => by cases e) (by simp)
-- censored, relative, one value exactly at the threshold 1/8 (the precipitation default's shape)
example : qdmWindow ratSigmoid.toFamily .relative .step (1 / 10) (some (1 / 8)) [4, 5, 6] [4, 5, 6] [1 / 8, 5, 8] = [1 / 8, 5, 8] :=
  qdm_window_fixed_point _ _ _ _ _ _ _ (by simp) (fun thr e => by cases e; decide +kernel) (fun _ => by decide +kernel)
-- relative: the guard is satisfiable (positive data far from the family's zero crossing) …
example : qdmRelGuard ratSigmoid.toFamily (ecdf1 .step) (1 / 10) [5, 6, 8] (ratSigmoid.toFamily.fit [4, 5, 6]) := by
  decide +kernel
-- … and needed: `ppf_H(τ) = 0` at one value makes the code compute `x · 0 / 0`
example : ¬ qdmRelGuard ratSigmoid.toFamily (ecdf1 .step) (1 / 2) [1, 2, 3] (ratSigmoid.toFamily.fit [-1, 0, 1]) := by
  decide +kernel

/-! ## 4. Parametric QuantileMapping: identity where `threshold_cdf_vals` does not clip; the clipped branch -/

/-- **parametric QM, `cm_hist = obs`**: under `NoClip` (every cdf value of the detrended future series lies in
    `[t, 1 − t]`) the output is `cm_future`, in each detrending mode.  Guards: fitted scale `≠ 0`; multiplicative
    detrending divides by `mean obs` and by `delta = mean F / mean obs`. -/
theorem qm_param_fixed_point {Fam : LocScaleFam} (L : LocScaleLaws Fam) (t : Rat) (d : Detrending) (obs F : List Rat)
    (hs : Fam.scale obs ≠ 0)
    (hm : d = .multiplicative → mean obs ≠ 0 ∧ mean F ≠ 0)
    (hc : NoClip Fam t (Fam.fit obs) (qmDetrended d obs F)) :
    qmParam Fam.toFamily t d obs obs F = F := by
  have key : ∀ x, NoClip Fam t (Fam.fit obs) x → standardQMParam Fam.toFamily t x obs obs = x := by
    intro x hx
    rw [standardQMParam_noclip L t x obs obs hx]
    exact map_eq_self x _ (fun v _ => by field_simp; ring)
  unfold qmParam quantileMapping
  cases d with
  | additive =>
    simp only []
    simp only [qmDetrended] at hc
    rw [key _ hc, List.map_map]
    apply map_eq_self
    intro x _
    simp
  | multiplicative =>
    obtain ⟨h1, h2⟩ := hm rfl
    have hd : mean F / mean obs ≠ 0 := div_ne_zero h2 h1
    simp only [qmDetrended] at hc
    simp only []
    rw [key _ hc, List.map_map]
    apply map_eq_self
    intro x _
    simp only [Function.comp]
    exact div_mul_cancel₀ x hd
  | no_detrending => exact key _ hc

/-- **the clipped branch** (documented `cdf_threshold` behaviour, not rounding): a value whose cdf exceeds `1 − t`
    is mapped to `ppf_obs(1 − t)`, which — with `cm_hist = obs` — lies strictly *below* the value: it is pulled
    inwards.  (Guard `0 < t ≤ 1/2`, `0 < scale`.)  The oracle never demands identity on such values. -/
theorem qm_param_clipped_value {Fam : LocScaleFam} (L : LocScaleLaws Fam) (t : Rat) (_ht0 : 0 < t) (ht : t ≤ 1 / 2)
    (obs : List Rat) (hs : 0 < Fam.scale obs) (v : Rat) (hv : 1 - t < Fam.cdf (Fam.fit obs) v) :
    standardQMParam Fam.toFamily t [v] obs obs = [Fam.ppf (Fam.fit obs) (1 - t)] ∧
      Fam.ppf (Fam.fit obs) (1 - t) < v := by
  constructor
  · unfold standardQMParam
    simp only [List.map_cons, List.map_nil, LocScaleFam.toFamily]
    rw [thresholdCdf_above t _ ht hv]
  · have hlt : Fam.cdf (Fam.fit obs) v < 1 := L.G_lt_one _
    have := ppf_strictMono L (Fam.fit obs) hs (q := 1 - t) (r := Fam.cdf (Fam.fit obs) v) (by linarith) hlt hv
    rwa [ppf_cdf L (Fam.fit obs) (ne_of_gt hs) v] at this

/-- the lower tail: a value whose cdf is below `t` is mapped to `ppf_obs(t)`, strictly *above* the value -/
theorem qm_param_clipped_value_low {Fam : LocScaleFam} (L : LocScaleLaws Fam) (t : Rat) (_ht0 : 0 < t) (ht : t ≤ 1 / 2)
    (obs : List Rat) (hs : 0 < Fam.scale obs) (v : Rat) (hv : Fam.cdf (Fam.fit obs) v < t) :
    standardQMParam Fam.toFamily t [v] obs obs = [Fam.ppf (Fam.fit obs) t] ∧ v < Fam.ppf (Fam.fit obs) t := by
  constructor
  · unfold standardQMParam
    simp only [List.map_cons, List.map_nil, LocScaleFam.toFamily]
    rw [thresholdCdf_below t _ ht hv]
  · have hpos : 0 < Fam.cdf (Fam.fit obs) v := L.G_pos _
    have := ppf_strictMono L (Fam.fit obs) hs (q := Fam.cdf (Fam.fit obs) v) (r := t) hpos (by linarith) hv
    rwa [ppf_cdf L (Fam.fit obs) (ne_of_gt hs) v] at this

/-- **parametric QM over an arbitrary family** (`scipy.stats.gamma`, `beta`, … — shape parameters, iterative fits): with
    `cm_hist = obs` both fits are *the same function of the same sample*, so the statement needs one law only —
    `ppf_p (cdf_p x) = x` at the (detrended) values — and `NoClipG`.  A fit of `obs` that differs from the fit of `cm_hist`
    (warm starts, different optimiser paths) is outside the model: `Family.fit` is a function. -/
theorem qm_param_fixed_point_general {P} (Fam : Family P) (t : Rat) (d : Detrending) (obs F : List Rat)
    (hm : d = .multiplicative → mean obs ≠ 0 ∧ mean F ≠ 0)
    (hinv : PpfCdfOn Fam (Fam.fit obs) (qmDetrended d obs F))
    (hc : NoClipG Fam t (Fam.fit obs) (qmDetrended d obs F)) :
    qmParam Fam t d obs obs F = F := by
  have key : ∀ x, PpfCdfOn Fam (Fam.fit obs) x → NoClipG Fam t (Fam.fit obs) x → standardQMParam Fam t x obs obs = x := by
    intro x hx hcx
    unfold standardQMParam
    apply map_eq_self
    intro v hv
    obtain ⟨h0, h1⟩ := hcx v hv
    rw [thresholdCdf_id t _ h0 h1, hx v hv]
  unfold qmParam quantileMapping
  cases d with
  | additive =>
    simp only [qmDetrended] at hc hinv
    simp only []
    rw [key _ hinv hc, List.map_map]
    apply map_eq_self
    intro x _
    simp
  | multiplicative =>
    obtain ⟨h1, h2⟩ := hm rfl
    have hd : mean F / mean obs ≠ 0 := div_ne_zero h2 h1
    simp only [qmDetrended] at hc hinv
    simp only []
    rw [key _ hinv hc, List.map_map]
    apply map_eq_self
    intro x _
    simp only [Function.comp]
    exact div_mul_cancel₀ x hd
  | no_detrending => exact key _ hinv hc

-- the hypotheses are satisfiable by a family that is not location–scale in the data (odds family `ratOdds`, positive data)
example : qmParam ratOdds.toFamily (1 / 100) .multiplicative [1, 2, 6] [1, 2, 6] [2, 4, 9] = [2, 4, 9] :=
  qm_param_fixed_point_general _ _ _ _ _ (fun _ => by decide +kernel) (by unfold PpfCdfOn; decide +kernel) (by decide +kernel)

-- non-vacuity with the executable family: guards hold, and one clipped value really moves
example : qmParam ratSigmoid.toFamily (1 / 10) .additive [1, 2, 4] [1, 2, 4] [3, 5, 6] = [3, 5, 6] :=
  qm_param_fixed_point ratSigmoid_laws _ _ _ _ (by decide +kernel) (by simp) (by decide +kernel)
example : qmParam ratSigmoid.toFamily (1 / 10) .multiplicative [1, 2, 4] [1, 2, 4] [3, 5, 6] = [3, 5, 6] :=
  qm_param_fixed_point ratSigmoid_laws _ _ _ _ (by decide +kernel) (fun _ => by decide +kernel) (by decide +kernel)
example : qmParam ratSigmoid.toFamily (1 / 10) .no_detrending [1, 2, 4] [1, 2, 4] [3, 30] ≠ [3, 30] := by
  decide +kernel

/-! ## 5. CDFt with its default methods (`linear_interpolation` / `linear`) -/

/-- **CDFt, `cm_hist = obs`, default pair**: for tie-free `obs` (at least two values) and tie-free `cm_future`
    the mapping `iecdf_F(ecdf_H'(iecdf_obs(ecdf_F(x))))` is the identity on `cm_future`, for every delta shift
    (the shift is 0 resp. 1; multiplicative guard `mean obs ≠ 0`).  Any lengths (also a single future value).

    Other `ecdf × iecdf` pairs (tested on the real code, 30 random cases each, `harness/c03.py` re-tests two of
    them on every run): the identity holds for *unequal* sample sizes **only** for the default pair; for equal
    sizes `|obs| = |cm_future|` it also holds for (step_function, inverted_cdf), (step_function,
    closest_observation) and (linear_interpolation, averaged_inverted_cdf) — there the maps are the rank transfer
    of `Lemmas.Stats.qmap_equal_sizes_all`; it fails for the other fourteen pairs even then.
    `cdft_fixed_point_fails_step_inverted` below is a concrete witness. -/
theorem cdft_fixed_point (d : DeltaShift) (obs F : List Rat) (ho : obs.Nodup) (hno : 2 ≤ obs.length) (hF : F.Nodup)
    (hm : d = .multiplicative → mean obs ≠ 0) :
    cdftMapping d .linear .linear obs obs F = F := by
  unfold cdftMapping cdftMappingG
  rw [cdftShifted_self d obs F hm]
  simp only [cdftStage1, cdftStage2, cdftStage3, cdftStage4, List.map_map]
  exact map_eq_self F _ (fun v hv => by
    simp only [Function.comp, ecdf1_linear]
    exact cdft_elem ho hno hF hv)

example : cdftMapping .additive .linear .linear [1, 4, 2] [1, 4, 2] [7, 0, 3, 5] = [7, 0, 3, 5] :=
  cdft_fixed_point _ _ _ (by decide) (by decide) (by decide) (by simp)
example : cdftMapping .multiplicative .linear .linear [1, 4, 2] [1, 4, 2] [9] = [9] :=
  cdft_fixed_point _ _ _ (by decide) (by decide) (by decide) (fun _ => by decide +kernel)

/-- (step_function, inverted_cdf) with unequal sizes is **not** a fixed point: concrete witness on sorted samples
    (`decide +kernel` on a closed term; the samples are sorted so that the two sorts can be removed first) -/
theorem cdft_fixed_point_fails_step_inverted :
    cdftMapping .no_shift .step .inverted_cdf [1, 2] [1, 2] [10, 20, 30] ≠ [10, 20, 30] := by
  have h1 : sortQ [1, 2] = [1, 2] := sortQ_of_sorted (by decide)
  have h2 : sortQ [10, 20, 30] = [10, 20, 30] := sortQ_of_sorted (by decide)
  simp only [cdftMapping, cdftMappingG, cdftShifted, cdftStage1, cdftStage2, cdftStage3, cdftStage4, iecdf1, h1, h2,
    List.map_cons, List.map_nil]
  decide +kernel

/-- **CDFt with stochastic singularity removal (`SSR = True`, the precipitation default) on strictly positive series**:
    nothing is randomised (no exact zeros), the SSR threshold is the smallest value of the three samples, no future value
    lies below it — the result is `cm_future`, whatever the random draws `u` are (enough of them: `ssrGuard`). -/
theorem cdft_ssr_fixed_point (d : DeltaShift) (obs F u : List Rat) (ho : obs.Nodup) (hno : 2 ≤ obs.length) (hF : F.Nodup)
    (hm : d = .multiplicative → mean obs ≠ 0) (hpo : ∀ v ∈ obs, 0 < v) (hpF : ∀ v ∈ F, 0 < v)
    (hu : ssrGuard true obs obs F u) :
    cdftSteps true d .linear .linear obs obs F u = F := by
  have hlen : obs.length + obs.length + F.length ≤ u.length := hu rfl
  have hne : ∀ (x : List Rat), (∀ v ∈ x, 0 < v) → ∀ v ∈ x, v ≠ 0 := fun x hx v hv => ne_of_gt (hx v hv)
  unfold cdftSteps cdftStepsG
  simp only [if_true, ssrBefore]
  rw [ssrRandomize_of_ne_zero obs _ (hne obs hpo) (by rw [List.length_take]; omega),
    ssrRandomize_of_ne_zero obs _ (hne obs hpo) (by rw [List.length_take, List.length_drop]; omega),
    ssrRandomize_of_ne_zero F _ (hne F hpF) (by rw [List.length_take, List.length_drop]; omega)]
  have := cdft_fixed_point d obs F ho hno hF hm
  unfold cdftMapping at this
  rw [this]
  exact ssrAfter_of_pos obs obs F hpF

example : cdftSteps true .additive .linear .linear [1, 4, 2] [1, 4, 2] [7, 1 / 2, 3] [0, 0, 0, 0, 0, 0, 0, 0, 0] = [7, 1 / 2, 3] :=
  cdft_ssr_fixed_point _ _ _ _ (by decide) (by decide) (by decide +kernel) (by simp) (by decide +kernel) (by decide +kernel) (by decide)
-- with an exact zero in `cm_future` the statement does not apply: the zero is replaced by a draw and mapped
example : ¬ (∀ v ∈ ([7, 0, 3] : List Rat), 0 < v) := by decide +kernel

/-- … and in the loop over year windows of the future period (every window draws afresh: `draws c`) -/
theorem cdft_ssr_fixed_point_years (d : DeltaShift) (L S h : Int) (years : List Int) (obs F : List Rat) (draws : Int → List Rat)
    (hS : S = 2 * h + 1) (hh : 0 ≤ h) (hSL : S ≤ L) (hlen : years.length = F.length)
    (ho : obs.Nodup) (hno : 2 ≤ obs.length) (hF : F.Nodup) (hm : d = .multiplicative → mean obs ≠ 0)
    (hpo : ∀ v ∈ obs, 0 < v) (hpF : ∀ v ∈ F, 0 < v)
    (hu : ∀ c ∈ yearCenters S years, ssrGuard true obs obs (Py.selectWhere F (yearMask years (yearsInWindow L c))) (draws c)) :
    cdftWindowYearsSSR d .linear .linear L S years obs obs F draws = .ok (F.map some) := by
  unfold cdftWindowYearsSSR
  rw [if_neg (by simpa using hlen)]
  apply applyYearsC_fixed_on _ L S h years F hS hh hSL hlen
  intro c hc
  unfold cdftYearFnSSR
  have hsub := selectWhere_sublist F (yearMask years (yearsInWindow L c))
  rw [cdft_ssr_fixed_point d obs _ (draws c) ho hno (hsub.nodup hF) hm hpo (fun v hv => hpF v (hsub.subset hv)) (hu c hc)]

/-! ## 6. Lift to the window loops

`dO`, `dF`: days of year of `obs` (= of `cm_hist`: the unbiased model has the observations' dates) and of
`cm_future`; `L`, `S` = normalised window length / step (`S = 2h+1 ≤ L`).  The result is `cm_future`, every step
assigned (`fut.map some`).  The per-window guards are required of the window samples. -/

/-- LinearScaling additive, running-window mode: every window has observations -/
theorem ls_add_fixed_point_rw (L S h : Int) (dO dF : List Int) (obs F : List Rat)
    (hS : S = 2 * h + 1) (hh : 0 ≤ h) (hSL : S ≤ L) (hlen : dF.length = F.length) (hr : ∀ d ∈ dF, 1 ≤ d ∧ d ≤ 366)
    (hne : ∀ c ∈ useCenters S dF, take obs (idxWindow L dO c) ≠ []) :
    applyLocationRW (winOf (linearScaling .additive)) L S dO dO dF obs obs F = .ok (F.map some) :=
  applyLocationRW_fixed_on _ L S h dO dF obs F hS hh hSL hlen hr
    (fun c hc => by unfold winOf; rw [ls_add_fixed_point _ _ (hne c hc)])

/-- LinearScaling multiplicative: guard `mean ≠ 0` on every window sample of `obs` -/
theorem ls_mult_fixed_point_rw (L S h : Int) (dO dF : List Int) (obs F : List Rat)
    (hS : S = 2 * h + 1) (hh : 0 ≤ h) (hSL : S ≤ L) (hlen : dF.length = F.length) (hr : ∀ d ∈ dF, 1 ≤ d ∧ d ≤ 366)
    (hm : ∀ c ∈ useCenters S dF, mean (take obs (idxWindow L dO c)) ≠ 0) :
    applyLocationRW (winOf (linearScaling .multiplicative)) L S dO dO dF obs obs F = .ok (F.map some) :=
  applyLocationRW_fixed_on _ L S h dO dF obs F hS hh hSL hlen hr
    (fun c hc => by unfold winOf; rw [ls_mult_fixed_point _ _ (hm c hc)])

/-- ECDFM, running-window mode: any family, any threshold; every window has observations -/
theorem ecdfm_fixed_point_rw {P} (Fam : Family P) (t : Rat) (L S h : Int) (dO dF : List Int) (obs F : List Rat)
    (hS : S = 2 * h + 1) (hh : 0 ≤ h) (hSL : S ≤ L) (hlen : dF.length = F.length) (hr : ∀ d ∈ dF, 1 ≤ d ∧ d ≤ 366)
    (hne : ∀ c ∈ useCenters S dF, take obs (idxWindow L dO c) ≠ []) :
    applyLocationRW (winOf (ecdfm Fam t)) L S dO dO dF obs obs F = .ok (F.map some) :=
  applyLocationRW_fixed_on _ L S h dO dF obs F hS hh hSL hlen hr
    (fun c hc => by unfold winOf; rw [ecdfm_fixed_point Fam t _ _ (hne c hc)])

/-- parametric QM, running-window mode: the guards of `qm_param_fixed_point` on every window -/
theorem qm_param_fixed_point_rw {Fam : LocScaleFam} (Lw : LocScaleLaws Fam) (t : Rat) (d : Detrending)
    (L S h : Int) (dO dF : List Int) (obs F : List Rat)
    (hS : S = 2 * h + 1) (hh : 0 ≤ h) (hSL : S ≤ L) (hlen : dF.length = F.length) (hr : ∀ d ∈ dF, 1 ≤ d ∧ d ≤ 366)
    (hg : ∀ c ∈ useCenters S dF,
      Fam.scale (take obs (idxWindow L dO c)) ≠ 0 ∧
      (d = .multiplicative → mean (take obs (idxWindow L dO c)) ≠ 0 ∧ mean (take F (idxWindow L dF c)) ≠ 0) ∧
      NoClip Fam t (Fam.fit (take obs (idxWindow L dO c)))
        (qmDetrended d (take obs (idxWindow L dO c)) (take F (idxWindow L dF c)))) :
    applyLocationRW (winOf (qmParam Fam.toFamily t d)) L S dO dO dF obs obs F = .ok (F.map some) :=
  applyLocationRW_fixed_on _ L S h dO dF obs F hS hh hSL hlen hr
    (fun c hc => by
      obtain ⟨h1, h2, h3⟩ := hg c hc
      unfold winOf; rw [qm_param_fixed_point Lw t d _ _ h1 h2 h3])

/-- QDM without year windows (`running_window_mode_over_years_of_cm_future = False`), running-window mode -/
theorem qdm_fixed_point_rw {P} (Fam : Family P) (tp : TrendPres) (em : EcdfMethod) (t : Rat)
    (L S h : Int) (dO dF : List Int) (obs F : List Rat)
    (hS : S = 2 * h + 1) (hh : 0 ≤ h) (hSL : S ≤ L) (hlen : dF.length = F.length) (hr : ∀ d ∈ dF, 1 ≤ d ∧ d ≤ 366)
    (cz : Option Rat) (hcz : AtOrAbove cz F)
    (hne : ∀ c ∈ useCenters S dF, take obs (idxWindow L dO c) ≠ [])
    (hg : tp = .relative → ∀ c ∈ useCenters S dF,
      qdmRelGuard Fam (ecdf1 em) t (take F (idxWindow L dF c)) (Fam.fit (take obs (idxWindow L dO c)))) :
    applyLocationRW (winOf (qdmWindow Fam tp em t cz)) L S dO dO dF obs obs F = .ok (F.map some) :=
  applyLocationRW_fixed_on _ L S h dO dF obs F hS hh hSL hlen hr
    (fun c hc => by
      unfold winOf
      rw [qdm_window_fixed_point Fam tp em t _ _ cz (hne c hc) (hcz.sublist (show (take F (idxWindow L dF c)).Sublist F from take_indicesIn_sublist F dF _ hlen.symm))
        (fun e => hg e c hc)])

/-- QDM, year windows of the future period (window-free over days of year): any family; relative: the guard on
    every year window -/
theorem qdm_fixed_point_years {P} (Fam : Family P) (tp : TrendPres) (em : EcdfMethod) (t : Rat)
    (L S h : Int) (years : List Int) (obs F : List Rat)
    (hS : S = 2 * h + 1) (hh : 0 ≤ h) (hSL : S ≤ L) (hlen : years.length = F.length) (cz : Option Rat) (_hne : obs ≠ [])
    (hcz : AtOrAbove cz F)
    (hg : tp = .relative → ∀ c ∈ yearCenters S years,
      qdmRelGuard Fam (ecdf1 em) t (Py.selectWhere F (yearMask years (yearsInWindow L c))) (Fam.fit obs)) :
    qdmWindowYears Fam tp em t cz L S years obs obs F = .ok (F.map some) := by
  unfold qdmWindowYears
  rw [if_neg (by simpa using hlen)]
  apply applyYears_fixed_on _ L S h years F hS hh hSL hlen
  intro c hc
  unfold qdmYearFn qdmSteps
  rw [qdm_steps_fixed_point Fam tp _ t cz _ _ (hcz.sublist (selectWhere_sublist F _)) (fun e => hg e c hc)]

/-- CDFt (default pair) without year windows, running-window mode over days of year: tie-free series, at least
    two observations in every window -/
theorem cdft_fixed_point_rw (d : DeltaShift) (L S h : Int) (dO dF : List Int) (obs F : List Rat)
    (hS : S = 2 * h + 1) (hh : 0 ≤ h) (hSL : S ≤ L) (hlen : dF.length = F.length) (hr : ∀ d ∈ dF, 1 ≤ d ∧ d ≤ 366)
    (hlo : obs.length = dO.length) (ho : obs.Nodup) (hF : F.Nodup)
    (hg : ∀ c ∈ useCenters S dF, 2 ≤ (take obs (idxWindow L dO c)).length ∧
      (d = .multiplicative → mean (take obs (idxWindow L dO c)) ≠ 0)) :
    applyLocationRW (winOf (cdftMapping d .linear .linear)) L S dO dO dF obs obs F = .ok (F.map some) :=
  applyLocationRW_fixed_on _ L S h dO dF obs F hS hh hSL hlen hr
    (fun c hc => by
      obtain ⟨h1, h2⟩ := hg c hc
      unfold winOf
      rw [cdft_fixed_point d _ _ (take_idxWindow_nodup obs L dO c hlo ho) h1
        (take_idxWindow_nodup F L dF c hlen.symm hF) h2])

/-- CDFt (default pair), year windows of the future period (the default configuration of the class), window-free
    over days of year -/
theorem cdft_fixed_point_years (d : DeltaShift) (L S h : Int) (years : List Int) (obs F : List Rat)
    (hS : S = 2 * h + 1) (hh : 0 ≤ h) (hSL : S ≤ L) (hlen : years.length = F.length)
    (ho : obs.Nodup) (hno : 2 ≤ obs.length) (hF : F.Nodup) (hm : d = .multiplicative → mean obs ≠ 0) :
    cdftWindowYears d .linear .linear L S years obs obs F = .ok (F.map some) := by
  unfold cdftWindowYears
  rw [if_neg (by simpa using hlen)]
  apply applyYears_fixed_on _ L S h years F hS hh hSL hlen
  intro c _
  unfold cdftYearFn
  rw [cdft_fixed_point d obs _ ho hno ((selectWhere_sublist F _).nodup hF) hm]

/-- CDFt with SSR in running-window mode over days of year (strictly positive series; the draws of a window are keyed
    by the window's index list, like the oracles of `Model.Isimip.winFn`) -/
theorem cdft_ssr_fixed_point_rw (d : DeltaShift) (L S h : Int) (dO dF : List Int) (obs F : List Rat) (draws : List Nat → List Rat)
    (hS : S = 2 * h + 1) (hh : 0 ≤ h) (hSL : S ≤ L) (hlen : dF.length = F.length) (hr : ∀ d ∈ dF, 1 ≤ d ∧ d ≤ 366)
    (hlo : obs.length = dO.length) (ho : obs.Nodup) (hF : F.Nodup) (hpo : ∀ v ∈ obs, 0 < v) (hpF : ∀ v ∈ F, 0 < v)
    (hg : ∀ c ∈ useCenters S dF, 2 ≤ (take obs (idxWindow L dO c)).length ∧
      (d = .multiplicative → mean (take obs (idxWindow L dO c)) ≠ 0) ∧
      ssrGuard true (take obs (idxWindow L dO c)) (take obs (idxWindow L dO c)) (take F (idxWindow L dF c)) (draws (idxWindow L dF c))) :
    applyLocationRW (fun o hst x _ _ ix => .ok (cdftSteps true d .linear .linear o hst x (draws ix))) L S dO dO dF obs obs F
      = .ok (F.map some) :=
  applyLocationRW_fixed_on _ L S h dO dF obs F hS hh hSL hlen hr
    (fun c hc => by
      obtain ⟨h1, h2, h3⟩ := hg c hc
      have hso : (take obs (idxWindow L dO c)).Sublist obs := take_indicesIn_sublist obs dO _ hlo
      have hsF : (take F (idxWindow L dF c)).Sublist F := take_indicesIn_sublist F dF _ hlen.symm
      rw [cdft_ssr_fixed_point d _ _ _ (hso.nodup ho) h1 (hsF.nodup hF) h2 (fun v hv => hpo v (hso.subset hv))
        (fun v hv => hpF v (hsF.subset hv)) h3])

/-- **CDFt in its default configuration** — running windows over days of year *and*, inside each, year windows of
    the future period (`Lemmas.C03.winOfYears` composes the two loops; an unassigned inner step would be an error). -/
theorem cdft_fixed_point_rw_years (d : DeltaShift) (L S h Ly Sy hy : Int) (dO dF yearsF : List Int) (obs F : List Rat)
    (hS : S = 2 * h + 1) (hh : 0 ≤ h) (hSL : S ≤ L) (hlen : dF.length = F.length) (hr : ∀ d ∈ dF, 1 ≤ d ∧ d ≤ 366)
    (hSy : Sy = 2 * hy + 1) (hhy : 0 ≤ hy) (hSLy : Sy ≤ Ly) (hleny : yearsF.length = F.length)
    (hlo : obs.length = dO.length) (ho : obs.Nodup) (hF : F.Nodup)
    (hg : ∀ c ∈ useCenters S dF, 2 ≤ (take obs (idxWindow L dO c)).length ∧
      (d = .multiplicative → mean (take obs (idxWindow L dO c)) ≠ 0)) :
    applyLocationRW (winOfYears (cdftYearFn d .linear .linear) Ly Sy yearsF) L S dO dO dF obs obs F
      = .ok (F.map some) :=
  applyLocationRW_fixed_on _ L S h dO dF obs F hS hh hSL hlen hr
    (fun c hc => by
      obtain ⟨h1, h2⟩ := hg c hc
      have hv : ∀ j ∈ idxWindow L dF c, j < F.length := fun j hj => hlen ▸ Lemmas.Pointwise.idxWindow_valid L dF c j hj
      have hvy : ∀ j ∈ idxWindow L dF c, j < yearsF.length := fun j hj => hleny ▸ hv j hj
      have hl : (take yearsF (idxWindow L dF c)).length = (take F (idxWindow L dF c)).length := by
        rw [Lemmas.Pointwise.take_length _ _ hv, Lemmas.Pointwise.take_length _ _ hvy]
      have := cdft_fixed_point_years d Ly Sy hy (take yearsF (idxWindow L dF c)) (take obs (idxWindow L dO c))
        (take F (idxWindow L dF c)) hSy hhy hSLy hl (take_idxWindow_nodup obs L dO c hlo ho) h1
        (take_idxWindow_nodup F L dF c hlen.symm hF) h2
      unfold cdftWindowYears at this
      rw [if_neg (by simpa using hl)] at this
      unfold winOfYears
      rw [this]
      exact allAssigned_map_some _)

/-- **QDM in its default configuration** — running windows over days of year and, inside each, year windows of the
    future period: any family; relative: the guard on every inner year window -/
theorem qdm_fixed_point_rw_years {P} (Fam : Family P) (tp : TrendPres) (em : EcdfMethod) (t : Rat)
    (L S h Ly Sy hy : Int) (dO dF yearsF : List Int) (obs F : List Rat)
    (hS : S = 2 * h + 1) (hh : 0 ≤ h) (hSL : S ≤ L) (hlen : dF.length = F.length) (hr : ∀ d ∈ dF, 1 ≤ d ∧ d ≤ 366)
    (hSy : Sy = 2 * hy + 1) (hhy : 0 ≤ hy) (hSLy : Sy ≤ Ly) (hleny : yearsF.length = F.length)
    (cz : Option Rat) (hcz : AtOrAbove cz F)
    (hne : ∀ c ∈ useCenters S dF, take obs (idxWindow L dO c) ≠ [])
    (hg : tp = .relative → ∀ c ∈ useCenters S dF, ∀ cy ∈ yearCenters Sy (take yearsF (idxWindow L dF c)),
      qdmRelGuard Fam (ecdf1 em) t
        (Py.selectWhere (take F (idxWindow L dF c)) (yearMask (take yearsF (idxWindow L dF c)) (yearsInWindow Ly cy)))
        (Fam.fit (take obs (idxWindow L dO c)))) :
    applyLocationRW (winOfYears (qdmYearFn Fam tp em t cz) Ly Sy yearsF) L S dO dO dF obs obs F
      = .ok (F.map some) :=
  applyLocationRW_fixed_on _ L S h dO dF obs F hS hh hSL hlen hr
    (fun c hc => by
      have hv : ∀ j ∈ idxWindow L dF c, j < F.length := fun j hj => hlen ▸ Lemmas.Pointwise.idxWindow_valid L dF c j hj
      have hvy : ∀ j ∈ idxWindow L dF c, j < yearsF.length := fun j hj => hleny ▸ hv j hj
      have hl : (take yearsF (idxWindow L dF c)).length = (take F (idxWindow L dF c)).length := by
        rw [Lemmas.Pointwise.take_length _ _ hv, Lemmas.Pointwise.take_length _ _ hvy]
      have := qdm_fixed_point_years Fam tp em t Ly Sy hy (take yearsF (idxWindow L dF c)) (take obs (idxWindow L dO c))
        (take F (idxWindow L dF c)) hSy hhy hSLy hl cz (hne c hc) (hcz.sublist (show (take F (idxWindow L dF c)).Sublist F from take_indicesIn_sublist F dF _ hlen.symm))
        (fun e cy hcy => hg e c hc cy hcy)
      unfold qdmWindowYears at this
      rw [if_neg (by simpa using hl)] at this
      unfold winOfYears
      rw [this]
      exact allAssigned_map_some _)
/-- DeltaChange in running-window mode with an unchanged model (`cm_future = cm_hist`, same dates): the result is
    `obs`, every step assigned.  (`applyLocationDC` loops over the days of `obs`; reading the roles
    (corrected series, calibration pair) = (`obs`, (`cm_hist`, `cm_future`)) it is the running-window skeleton with
    the first two samples equal.) -/
theorem dc_identity_rw (dt : DeltaType) (L S h : Int) (dO dH : List Int) (obs H : List Rat)
    (hS : S = 2 * h + 1) (hh : 0 ≤ h) (hSL : S ≤ L) (hlen : dO.length = obs.length) (hr : ∀ d ∈ dO, 1 ≤ d ∧ d ≤ 366)
    (hne : ∀ c ∈ useCenters S dO, take H (idxWindow L dH c) ≠ [])
    (hm : dt = .multiplicative → ∀ c ∈ useCenters S dO, mean (take H (idxWindow L dH c)) ≠ 0) :
    applyLocationDC (winOf (deltaChange dt)) L S dO dH dH obs H H = .ok (obs.map some) := by
  -- the DeltaChange loop is the running-window loop with the roles of `obs` and `cm_future` exchanged
  have hswap : applyLocationDC (winOf (deltaChange dt)) L S dO dH dH obs H H =
      applyLocationRW (winOf (fun o h x => deltaChange dt x o h)) L S dH dH dO H H obs := by
    unfold applyLocationDC applyLocationRW
    apply Lemmas.Lift.runLoop_congr
    intro c _
    unfold windowWrites windowWritesDC winOf
    rfl
  rw [hswap]
  apply applyLocationRW_fixed_on _ L S h dH dO H obs hS hh hSL hlen hr
  intro c hc
  unfold winOf
  cases dt with
  | additive => exact congrArg _ (dc_identity_add _ _ (hne c hc))
  | multiplicative => exact congrArg _ (dc_identity_mult _ _ (hm rfl c hc))

-- non-vacuity of a lifted statement: two years of days 2..4, S = 3, L = 5 (executable)
example : applyLocationRW (winOf (linearScaling .additive)) 5 3 [2, 3, 4] [2, 3, 4] [2, 3, 4, 2, 3, 4]
    [1, 2, 4] [1, 2, 4] [10, 20, 30, 40, 50, 60] = .ok ([10, 20, 30, 40, 50, 60].map some) :=
  ls_add_fixed_point_rw 5 3 1 _ _ _ _ (by decide) (by decide) (by decide) (by decide) (by decide) (by decide)

/-- DeltaChange in running-window mode WITHOUT time information for the model pair (`time_cm_hist`, `time_cm_future` omitted):
    the library infers the calendar of each series from that series' LENGTH only (`Model.InferredDates.resolve none
    inferredDoy n`: `n` consecutive days from 1950-01-01 — the documented "the first value of obs, cm_hist and cm_future is
    a January 1st"; tied to the code by `Gen.Contract.infer_time` and the driver `DrvInferredDates`).  An unchanged model
    (`cm_future = cm_hist` value for value, hence of equal length) therefore sees equal day-of-year windows and `obs` is
    returned, whatever the dates of `obs` (`dO`: given or inferred) and for series of any length, whole years or not. -/
theorem dc_identity_rw_inferred (dt : DeltaType) (L S h : Int) (dO : List Int) (obs H F : List Rat) (hF : F = H)
    (hS : S = 2 * h + 1) (hh : 0 ≤ h) (hSL : S ≤ L) (hlen : dO.length = obs.length) (hr : ∀ d ∈ dO, 1 ≤ d ∧ d ≤ 366)
    (hne : ∀ c ∈ useCenters S dO,
      take H (idxWindow L (Model.InferredDates.resolve none Model.InferredDates.inferredDoy H.length) c) ≠ [])
    (hm : dt = .multiplicative → ∀ c ∈ useCenters S dO,
      mean (take H (idxWindow L (Model.InferredDates.resolve none Model.InferredDates.inferredDoy H.length) c)) ≠ 0) :
    applyLocationDC (winOf (deltaChange dt)) L S dO
      (Model.InferredDates.resolve none Model.InferredDates.inferredDoy H.length)
      (Model.InferredDates.resolve none Model.InferredDates.inferredDoy F.length) obs H F = .ok (obs.map some) := by
  subst hF
  exact dc_identity_rw dt L S h dO _ obs F hS hh hSL hlen hr hne hm

-- non-vacuity: obs on days 2..4, an undated model series of three steps (inferred days of year 1, 2, 3), S = 3, L = 5
example : applyLocationDC (winOf (deltaChange .additive)) 5 3 [2, 3, 4]
    (Model.InferredDates.resolve none Model.InferredDates.inferredDoy 3)
    (Model.InferredDates.resolve none Model.InferredDates.inferredDoy 3) [10, 20, 30] [1, 2, 4] [1, 2, 4]
    = .ok ([10, 20, 30].map some) :=
  dc_identity_rw_inferred .additive 5 3 1 _ _ _ _ rfl (by decide) (by decide) (by decide) (by decide) (by decide)
    (by decide) (by intro h; cases h)

end Props.C03
