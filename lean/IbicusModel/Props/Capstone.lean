/-
  Capstone — C02 / C03 / C04 stated on the **composition of the regenerated pieces**.

  Every layer between `Debiaser.apply` and the numpy toolkit is regenerated from /repo's source on each run (`Gen.*`) and
  proved, layer by layer, to denote the hand-written model function of that layer; the property theorems of
  `Props/C02.lean`, `Props/C03.lean`, `Props/C04.lean` are stated on the hand-written functions.  Here, per debiaser:

    1. `regenApplyLocation_<Deb>` — the denotation (`Model.Loops.denote`) of the regenerated loop spec (`Gen.Loops.loopRW`,
       `loopDC`, `loopIsimipRW`, `loopCDFt`, `loopQDM`) applied to the denotation of the regenerated per-window piece
       (`Gen.DebWin.*` through `Model.NpDeb.denote`, the regenerated kernels `Gen.Debiasers.*`,
       `Gen.IsimipStep6.apply_on_window`), glued by `Lemmas/Capstone.lean` (keyword binding of the call, nothing else);
    2. `regenApplyLocation_<Deb>_eq_model` — it is the model's `applyLocationRW` / `applyLocationDC` of the model's window
       function (the chain of `Gen = expected` and `denote expected = Model` theorems, used inside the proof);
    3. the properties on it: `_shift` / `_scale` (C02), `_fixed_point` (C03, where the property claims it), `_affine`
       (C04) — each the existing window-lift theorem of `Props.C0x`, rewritten with 2.  Guards are those of the existing
       theorems, stated on the windows of the data;
    4. one level up: `regenApply` — the denotation of the regenerated `Debiaser.apply` / `map_over_locations` /
       `parallel_map_over_locations` / catch wrapper (`Gen.GridLoops.*`) with `regenApplyLocation_<Deb>` as the location
       function — and the grid-level C02 corollary (`Props.C02.grid_shift`).

  So a change of /repo that alters any of the regenerated pieces either breaks the `Gen = expected` obligation of that piece
  (this file imports all of them: it then no longer builds) or changes what these theorems are about.
-/
import IbicusModel.Lemmas.Capstone
import IbicusModel.Props.C02
import IbicusModel.Props.C03
import IbicusModel.Props.C04

namespace Props.Capstone
open Model.Skeleton Model.Windows Model.Stats Model.Family Model.Debiasers
open Model.Loops (pick)
open Model.NpDeb (Env)
open Lemmas.Capstone Lemmas.StatsAffine Lemmas.C04
open Props.C04 (affineBuf)

/-! ## the grid level, generic in the location function -/

section Grid
open Model.Grid Model.GridLoops Lemmas.GenGridLoops Lemmas.C02

variable {κ : Type}

/-- **`Debiaser.apply` as regenerated**: the denotation of the regenerated `apply` / map functions / catch wrapper, with
    `loc` as `self.apply_location` -/
def regenApply (loc : LocFnKw κ Rat String) (E : ApplyEnv κ Rat String) : Except (Err String) (Arr3 (Elem Rat)) :=
  denoteApply Gen.GridLoops.applyDebiaser Gen.GridLoops.serialSpec Gen.GridLoops.parallelSpec Gen.GridLoops.catchSpec
    { E with loc := loc }

/-- `DeltaChange.apply` as regenerated -/
def regenApplyDC (loc : LocFnKw κ Rat String) (E : ApplyEnv κ Rat String) : Except (Err String) (Arr3 (Elem Rat)) :=
  denoteApply Gen.GridLoops.applyDeltaChange Gen.GridLoops.serialSpec Gen.GridLoops.parallelSpec Gen.GridLoops.catchSpec
    { E with loc := loc }

theorem regenApply_eq_model (loc : LocFnKw κ Rat String) (E : ApplyEnv κ Rat String) (nx ny : Nat)
    (hs : ∀ s, E.spatial s = (nx, ny)) :
    regenApply loc E
      = debiaserApply (loc E.kw) E.failsafe (E.arr .obs) (E.arr .hist) (E.arr .fut) nx ny (modeOf E) := by
  unfold regenApply
  rw [Lemmas.GenGridLoops.applyDebiaser, Lemmas.GenGridLoops.serialSpec, Lemmas.GenGridLoops.parallelSpec,
    Lemmas.GenGridLoops.catchSpec, denote_applyDebiaser { E with loc := loc } nx ny hs]
  rfl

theorem regenApplyDC_eq_model (loc : LocFnKw κ Rat String) (E : ApplyEnv κ Rat String) (nx ny : Nat)
    (hs : ∀ s, E.spatial s = (nx, ny)) :
    regenApplyDC loc E
      = deltaChangeApply (loc E.kw) E.failsafe (E.arr .obs) (E.arr .hist) (E.arr .fut) nx ny (modeOf E) := by
  unfold regenApplyDC
  rw [Lemmas.GenGridLoops.applyDeltaChange, Lemmas.GenGridLoops.serialSpec, Lemmas.GenGridLoops.parallelSpec,
    Lemmas.GenGridLoops.catchSpec, denote_applyDeltaChange { E with loc := loc } nx ny hs]
  rfl

/-- the call `apply(obs, cm_hist, g • cm_future, …)` -/
def withFut (E : ApplyEnv κ Rat String) (g : Rat → Rat) : ApplyEnv κ Rat String :=
  { E with arr := fun s => match s with
      | .obs => E.arr .obs
      | .hist => E.arr .hist
      | .fut => map3 g (E.arr .fut) }

/-- **C02 on the regenerated `apply`, generic**: `apply(obs, cm_hist, cm_future + c)` and `apply(obs, cm_hist, cm_future)`
    on a grid of common spatial shape, serial or under any complete pool schedule, failsafe on or off: at a cell where
    `apply_location` returns a full-length series and has the shift law, the output column is the former column plus `c`. -/
theorem regenApply_shift (loc : LocFnKw κ Rat String) (E : ApplyEnv κ Rat String) (c : Rat) (nx ny : Nat)
    (hs : ∀ s, E.spatial s = (nx, ny)) (hm : ModeOk (modeOf E) nx ny) (out out' : Arr3 (Elem Rat))
    (h : regenApply loc E = .ok out) (h' : regenApply loc (withFut E (fun x => x + c)) = .ok out')
    (i j : Nat) (hi : i < nx) (hj : j < ny) (v : List Rat)
    (hv : loc E.kw (slice (E.arr .obs) i j) (slice (E.arr .hist) i j) (slice (E.arr .fut) i j) = .ok v)
    (hl : v.length = (E.arr .fut).length)
    (hloc : loc E.kw (slice (E.arr .obs) i j) (slice (E.arr .hist) i j) ((slice (E.arr .fut) i j).map (fun x => x + c))
      = (loc E.kw (slice (E.arr .obs) i j) (slice (E.arr .hist) i j) (slice (E.arr .fut) i j)).map
          (List.map (fun x => x + c))) :
    slice out' i j = (slice out i j).map (Option.map (Props.C02.valMap (fun x => x + c))) := by
  rw [regenApply_eq_model loc E nx ny hs] at h
  rw [regenApply_eq_model loc (withFut E (fun x => x + c)) nx ny hs] at h'
  exact Props.C02.grid_shift (loc E.kw) c E.failsafe (E.arr .obs) (E.arr .hist) (E.arr .fut) nx ny (modeOf E) hm out out'
    h h' i j hi hj v hv hl hloc

end Grid

/-! ## 1. LinearScaling -/

/-- `RunningWindowDebiaser.apply_location` ∘ `LinearScaling.apply_on_window`, both as regenerated
    (`dt` = the attribute `delta_type`; `L`, `S` = the normalised window length and step; `dO dH dF` = the days of year
    of the three time axes) -/
def regenApplyLocation_LS (dt : String) (L S : Int) (dO dH dF : List Int) (obs hist fut : List Rat) :
    Except String (List (Option Rat)) :=
  Model.Loops.denote Gen.Loops.loopRW (kernelWin (Gen.Debiasers.ls_apply_on_window dt))
    ⟨L, S, pick dO dH dF, pick obs hist fut⟩

theorem regenApplyLocation_LS_eq_model (dt : String) (L S : Int) (dO dH dF : List Int) (obs hist fut : List Rat) :
    regenApplyLocation_LS dt L S dO dH dF obs hist fut
      = applyLocationRW (kernelWin (linearScalingS dt)) L S dO dH dF obs hist fut := by
  unfold regenApplyLocation_LS
  rw [Lemmas.GenLoops.loopRW, Lemmas.GenLoops.denote_loopRW, kernelWin_ls]

theorem regenApplyLocation_LS_eq_model_additive (L S : Int) (dO dH dF : List Int) (obs hist fut : List Rat) :
    regenApplyLocation_LS "additive" L S dO dH dF obs hist fut
      = applyLocationRW (winOf (linearScaling .additive)) L S dO dH dF obs hist fut := by
  unfold regenApplyLocation_LS
  rw [Lemmas.GenLoops.loopRW, Lemmas.GenLoops.denote_loopRW, kernelWin_ls_additive]

theorem regenApplyLocation_LS_eq_model_multiplicative (L S : Int) (dO dH dF : List Int) (obs hist fut : List Rat) :
    regenApplyLocation_LS "multiplicative" L S dO dH dF obs hist fut
      = applyLocationRW (winOf (linearScaling .multiplicative)) L S dO dH dF obs hist fut := by
  unfold regenApplyLocation_LS
  rw [Lemmas.GenLoops.loopRW, Lemmas.GenLoops.denote_loopRW, kernelWin_ls_multiplicative]

/-- **C02, LinearScaling additive, end to end**: adding `c` to `cm_future` adds `c` to every output step, through the
    windows.  Guards (those of `Props.C02.ls_windowed_shift`): `0 < S ≤ L`, one day of year in `1..366` per future value. -/
theorem regenApplyLocation_LS_shift (c : Rat) (L S : Int) (dO dH dF : List Int) (obs hist fut : List Rat)
    (hS : 0 < S) (hSL : S ≤ L) (hlen : dF.length = fut.length) (hr : ∀ d ∈ dF, 1 ≤ d ∧ d ≤ 366) :
    regenApplyLocation_LS "additive" L S dO dH dF obs hist (fut.map (fun v => v + c))
      = (regenApplyLocation_LS "additive" L S dO dH dF obs hist fut).map (List.map (Option.map (fun v => v + c))) := by
  rw [regenApplyLocation_LS_eq_model_additive, regenApplyLocation_LS_eq_model_additive]
  exact Props.C02.ls_windowed_shift c L S dO dH dF obs hist fut hS hSL hlen hr

/-- C02, multiplicative: a factor `k > 0` on `cm_future` passes through (guard: no window has `mean(cm_hist) = 0`) -/
theorem regenApplyLocation_LS_scale (k : Rat) (hk : 0 < k) (L S : Int) (dO dH dF : List Int) (obs hist fut : List Rat)
    (hS : 0 < S) (hSL : S ≤ L) (hlen : dF.length = fut.length) (hr : ∀ d ∈ dF, 1 ≤ d ∧ d ≤ 366)
    (hH : ∀ ctr ∈ useCenters S dF, mean (take hist (idxWindow L dH ctr)) ≠ 0) :
    regenApplyLocation_LS "multiplicative" L S dO dH dF obs hist (fut.map (fun v => k * v))
      = (regenApplyLocation_LS "multiplicative" L S dO dH dF obs hist fut).map (List.map (Option.map (fun v => k * v))) := by
  rw [regenApplyLocation_LS_eq_model_multiplicative, regenApplyLocation_LS_eq_model_multiplicative]
  exact Props.C02.ls_windowed_scale k hk L S dO dH dF obs hist fut hS hSL hlen hr hH

/-- **C03, LinearScaling additive**: `cm_hist = obs` (values and dates) ⇒ the output is `cm_future`, every step assigned.
    Guards of `Props.C03.ls_add_fixed_point_rw`. -/
theorem regenApplyLocation_LS_fixed_point (L S h : Int) (dO dF : List Int) (obs F : List Rat)
    (hS : S = 2 * h + 1) (hh : 0 ≤ h) (hSL : S ≤ L) (hlen : dF.length = F.length) (hr : ∀ d ∈ dF, 1 ≤ d ∧ d ≤ 366)
    (hne : ∀ c ∈ useCenters S dF, take obs (idxWindow L dO c) ≠ []) :
    regenApplyLocation_LS "additive" L S dO dO dF obs obs F = .ok (F.map some) := by
  rw [regenApplyLocation_LS_eq_model_additive]
  exact Props.C03.ls_add_fixed_point_rw L S h dO dF obs F hS hh hSL hlen hr hne

theorem regenApplyLocation_LS_fixed_point_mult (L S h : Int) (dO dF : List Int) (obs F : List Rat)
    (hS : S = 2 * h + 1) (hh : 0 ≤ h) (hSL : S ≤ L) (hlen : dF.length = F.length) (hr : ∀ d ∈ dF, 1 ≤ d ∧ d ≤ 366)
    (hm : ∀ c ∈ useCenters S dF, mean (take obs (idxWindow L dO c)) ≠ 0) :
    regenApplyLocation_LS "multiplicative" L S dO dO dF obs obs F = .ok (F.map some) := by
  rw [regenApplyLocation_LS_eq_model_multiplicative]
  exact Props.C03.ls_mult_fixed_point_rw L S h dO dF obs F hS hh hSL hlen hr hm

/-- **C04, LinearScaling additive**: the unit change `v ↦ a·v + b` on all three series passes through.  Guard (the
    model's `lsGuard`, what `Props.C04.lsWin` reports `undef` without): every window has an observed and a historical value. -/
theorem regenApplyLocation_LS_affine (a b : Rat) (L S : Int) (dO dH dF : List Int) (obs hist fut : List Rat)
    (hG : ∀ c ∈ useCenters S dF, lsGuard .additive (take obs (idxWindow L dO c)) (take hist (idxWindow L dH c))) :
    regenApplyLocation_LS "additive" L S dO dH dF (affine a b obs) (affine a b hist) (affine a b fut)
      = (regenApplyLocation_LS "additive" L S dO dH dF obs hist fut).map (affineBuf a b) := by
  rw [regenApplyLocation_LS_eq_model_additive, regenApplyLocation_LS_eq_model_additive]
  exact unguarded_affine_RW (fun o h _ => decide (lsGuard .additive o h)) _ a b
    (fun o h x => decide_eq_decide.mpr (by simp [lsGuard, affine_ne_nil_iff])) L S dO dH dF obs hist fut
    (Props.C04.ls_windowed_affine a b L S dO dH dF obs hist fut) (fun c hc => decide_eq_true (hG c hc))

/-- C04, multiplicative: pure rescaling `v ↦ a·v`, `a ≠ 0` -/
theorem regenApplyLocation_LS_mult_scale {a : Rat} (ha : a ≠ 0) (L S : Int) (dO dH dF : List Int) (obs hist fut : List Rat)
    (hG : ∀ c ∈ useCenters S dF, lsGuard .multiplicative (take obs (idxWindow L dO c)) (take hist (idxWindow L dH c))) :
    regenApplyLocation_LS "multiplicative" L S dO dH dF (affine a 0 obs) (affine a 0 hist) (affine a 0 fut)
      = (regenApplyLocation_LS "multiplicative" L S dO dH dF obs hist fut).map (affineBuf a 0) := by
  rw [regenApplyLocation_LS_eq_model_multiplicative, regenApplyLocation_LS_eq_model_multiplicative]
  exact unguarded_affine_RW (fun o h _ => decide (lsGuard .multiplicative o h)) _ a 0
    (fun o h x => decide_eq_decide.mpr (lsGuard_mult_scale ha o h)) L S dO dH dF obs hist fut
    (Props.C04.ls_mult_windowed_scale ha L S dO dH dF obs hist fut) (fun c hc => decide_eq_true (hG c hc))

section
open Model.Grid Model.GridLoops Lemmas.GenGridLoops

/-- `LinearScaling(...).apply(obs, cm_hist, cm_future, time_obs=…, time_cm_hist=…, time_cm_future=…)`, every layer
    regenerated; `E.kw` = the days of year of the three time axes -/
def regenApply_LS (dt : String) (L S : Int) (E : ApplyEnv (List Int × List Int × List Int) Rat String) :=
  regenApply (locOf (regenApplyLocation_LS dt L S)) E

/-- **C02, LinearScaling additive, on the grid** -/
theorem regenApply_LS_shift (L S : Int) (E : ApplyEnv (List Int × List Int × List Int) Rat String) (c : Rat) (nx ny : Nat)
    (hs : ∀ s, E.spatial s = (nx, ny)) (hm : ModeOk (modeOf E) nx ny) (out out' : Arr3 (Elem Rat))
    (h : regenApply_LS "additive" L S E = .ok out)
    (h' : regenApply_LS "additive" L S (withFut E (fun x => x + c)) = .ok out')
    (hS : 0 < S) (hSL : S ≤ L) (hr : ∀ d ∈ E.kw.2.2, 1 ≤ d ∧ d ≤ 366)
    (i j : Nat) (hi : i < nx) (hj : j < ny) (hlen : E.kw.2.2.length = (slice (E.arr .fut) i j).length) (v : List Rat)
    (hv : locOf (regenApplyLocation_LS "additive" L S) E.kw (slice (E.arr .obs) i j) (slice (E.arr .hist) i j)
      (slice (E.arr .fut) i j) = .ok v)
    (hl : v.length = (E.arr .fut).length) :
    slice out' i j = (slice out i j).map (Option.map (Props.C02.valMap (fun x => x + c))) :=
  regenApply_shift _ E c nx ny hs hm out out' h h' i j hi hj v hv hl
    (locOf_shift _ _ c _ _ _ (regenApplyLocation_LS_shift c L S _ _ _ _ _ _ hS hSL hlen hr))

end

/-! ## 2. DeltaChange -/

/-- `DeltaChange.apply_location` ∘ `DeltaChange._apply_on_within_year_window`, both as regenerated (the loop runs over the
    days of `obs`, the result has the length of `obs`) -/
def regenApplyLocation_DC (dt : String) (L S : Int) (dO dH dF : List Int) (obs hist fut : List Rat) :
    Except String (List (Option Rat)) :=
  Model.Loops.denote Gen.Loops.loopDC (kernelWin (Gen.Debiasers.dc_apply_on_within_year_window dt))
    ⟨L, S, pick dO dH dF, pick obs hist fut⟩

theorem regenApplyLocation_DC_eq_model (dt : String) (L S : Int) (dO dH dF : List Int) (obs hist fut : List Rat) :
    regenApplyLocation_DC dt L S dO dH dF obs hist fut
      = applyLocationDC (kernelWin (deltaChangeS dt)) L S dO dH dF obs hist fut := by
  unfold regenApplyLocation_DC
  rw [Lemmas.GenLoops.loopDC, Lemmas.GenLoops.denote_loopDC, kernelWin_dc]

theorem regenApplyLocation_DC_eq_model_additive (L S : Int) (dO dH dF : List Int) (obs hist fut : List Rat) :
    regenApplyLocation_DC "additive" L S dO dH dF obs hist fut
      = applyLocationDC (winOf (deltaChange .additive)) L S dO dH dF obs hist fut := by
  unfold regenApplyLocation_DC
  rw [Lemmas.GenLoops.loopDC, Lemmas.GenLoops.denote_loopDC, kernelWin_dc_additive]

theorem regenApplyLocation_DC_eq_model_multiplicative (L S : Int) (dO dH dF : List Int) (obs hist fut : List Rat) :
    regenApplyLocation_DC "multiplicative" L S dO dH dF obs hist fut
      = applyLocationDC (winOf (deltaChange .multiplicative)) L S dO dH dF obs hist fut := by
  unfold regenApplyLocation_DC
  rw [Lemmas.GenLoops.loopDC, Lemmas.GenLoops.denote_loopDC, kernelWin_dc_multiplicative]

/-- **C02, DeltaChange additive**: guard — every window the loop forms (over the days of `obs`) holds a future value -/
theorem regenApplyLocation_DC_shift (c : Rat) (L S : Int) (dO dH dF : List Int) (obs hist fut : List Rat)
    (hne : ∀ ctr ∈ useCenters S dO, take fut (idxWindow L dF ctr) ≠ []) :
    regenApplyLocation_DC "additive" L S dO dH dF obs hist (fut.map (fun v => v + c))
      = (regenApplyLocation_DC "additive" L S dO dH dF obs hist fut).map (List.map (Option.map (fun v => v + c))) := by
  rw [regenApplyLocation_DC_eq_model_additive, regenApplyLocation_DC_eq_model_additive]
  exact Props.C02.dc_windowed_shift c L S dO dH dF obs hist fut hne

theorem regenApplyLocation_DC_scale (k : Rat) (hk : 0 < k) (L S : Int) (dO dH dF : List Int) (obs hist fut : List Rat)
    (hne : ∀ ctr ∈ useCenters S dO, take fut (idxWindow L dF ctr) ≠ []) :
    regenApplyLocation_DC "multiplicative" L S dO dH dF obs hist (fut.map (fun v => k * v))
      = (regenApplyLocation_DC "multiplicative" L S dO dH dF obs hist fut).map (List.map (Option.map (fun v => k * v))) := by
  rw [regenApplyLocation_DC_eq_model_multiplicative, regenApplyLocation_DC_eq_model_multiplicative]
  exact Props.C02.dc_windowed_scale k hk L S dO dH dF obs hist fut hne

/-- **C03, DeltaChange**: an unchanged model (`cm_future = cm_hist`, values and dates) returns the observations -/
theorem regenApplyLocation_DC_identity (L S h : Int) (dO dH : List Int) (obs H : List Rat)
    (hS : S = 2 * h + 1) (hh : 0 ≤ h) (hSL : S ≤ L) (hlen : dO.length = obs.length) (hr : ∀ d ∈ dO, 1 ≤ d ∧ d ≤ 366)
    (hne : ∀ c ∈ useCenters S dO, take H (idxWindow L dH c) ≠ []) :
    regenApplyLocation_DC "additive" L S dO dH dH obs H H = .ok (obs.map some) := by
  rw [regenApplyLocation_DC_eq_model_additive]
  exact Props.C03.dc_identity_rw .additive L S h dO dH obs H hS hh hSL hlen hr hne (fun e => by cases e)

theorem regenApplyLocation_DC_identity_mult (L S h : Int) (dO dH : List Int) (obs H : List Rat)
    (hS : S = 2 * h + 1) (hh : 0 ≤ h) (hSL : S ≤ L) (hlen : dO.length = obs.length) (hr : ∀ d ∈ dO, 1 ≤ d ∧ d ≤ 366)
    (hne : ∀ c ∈ useCenters S dO, take H (idxWindow L dH c) ≠ [])
    (hm : ∀ c ∈ useCenters S dO, mean (take H (idxWindow L dH c)) ≠ 0) :
    regenApplyLocation_DC "multiplicative" L S dO dH dH obs H H = .ok (obs.map some) := by
  rw [regenApplyLocation_DC_eq_model_multiplicative]
  exact Props.C03.dc_identity_rw .multiplicative L S h dO dH obs H hS hh hSL hlen hr hne (fun _ => hm)

/-- **C04, DeltaChange additive**: guard `dcGuard` on every window (a historical and a future value) -/
theorem regenApplyLocation_DC_affine (a b : Rat) (L S : Int) (dO dH dF : List Int) (obs hist fut : List Rat)
    (hG : ∀ c ∈ useCenters S dO, dcGuard .additive (take hist (idxWindow L dH c)) (take fut (idxWindow L dF c))) :
    regenApplyLocation_DC "additive" L S dO dH dF (affine a b obs) (affine a b hist) (affine a b fut)
      = (regenApplyLocation_DC "additive" L S dO dH dF obs hist fut).map (affineBuf a b) := by
  rw [regenApplyLocation_DC_eq_model_additive, regenApplyLocation_DC_eq_model_additive]
  exact unguarded_affine_DC (fun _ h x => decide (dcGuard .additive h x)) _ a b
    (fun o h x => decide_eq_decide.mpr (by simp [dcGuard, affine_ne_nil_iff])) L S dO dH dF obs hist fut
    (Props.C04.dc_windowed_affine a b L S dO dH dF obs hist fut) (fun c hc => decide_eq_true (hG c hc))

theorem regenApplyLocation_DC_mult_scale {a : Rat} (ha : a ≠ 0) (L S : Int) (dO dH dF : List Int) (obs hist fut : List Rat)
    (hG : ∀ c ∈ useCenters S dO, dcGuard .multiplicative (take hist (idxWindow L dH c)) (take fut (idxWindow L dF c))) :
    regenApplyLocation_DC "multiplicative" L S dO dH dF (affine a 0 obs) (affine a 0 hist) (affine a 0 fut)
      = (regenApplyLocation_DC "multiplicative" L S dO dH dF obs hist fut).map (affineBuf a 0) := by
  rw [regenApplyLocation_DC_eq_model_multiplicative, regenApplyLocation_DC_eq_model_multiplicative]
  exact unguarded_affine_DC (fun _ h x => decide (dcGuard .multiplicative h x)) _ a 0
    (fun o h x => decide_eq_decide.mpr (dcGuard_mult_scale ha h x)) L S dO dH dF obs hist fut
    (Props.C04.dc_mult_windowed_scale ha L S dO dH dF obs hist fut) (fun c hc => decide_eq_true (hG c hc))

/-! ## 3. ECDFM -/

variable {P : Type}

/-- `RunningWindowDebiaser.apply_location` ∘ `ECDFM.apply_on_window`, both as regenerated; `env` = the instance's settings
    (`distribution` as `env.fam`, `cdf_threshold` as `env.num "cdf_threshold"`) -/
def regenApplyLocation_ECDFM (env : Env P) (L S : Int) (dO dH dF : List Int) (obs hist fut : List Rat) :
    Except String (List (Option Rat)) :=
  Model.Loops.denote Gen.Loops.loopRW (progWin Gen.DebWin.ecdfm_apply_on_window env) ⟨L, S, pick dO dH dF, pick obs hist fut⟩

theorem regenApplyLocation_ECDFM_eq_model (env : Env P) (L S : Int) (dO dH dF : List Int) (obs hist fut : List Rat) :
    regenApplyLocation_ECDFM env L S dO dH dF obs hist fut
      = applyLocationRW (winOf (ecdfm env.fam (env.num "cdf_threshold"))) L S dO dH dF obs hist fut := by
  unfold regenApplyLocation_ECDFM
  rw [Lemmas.GenLoops.loopRW, Lemmas.GenLoops.denote_loopRW, progWin_ecdfm]

/-- **C02, ECDFM** over a location–scale family with `LocScaleLaws` -/
theorem regenApplyLocation_ECDFM_shift (env : Env (Rat × Rat)) (Fam : LocScaleFam) (hfam : env.fam = Fam.toFamily)
    (hL : LocScaleLaws Fam) (c : Rat) (L S : Int) (dO dH dF : List Int) (obs hist fut : List Rat)
    (hS : 0 < S) (hSL : S ≤ L) (hlen : dF.length = fut.length) (hr : ∀ d ∈ dF, 1 ≤ d ∧ d ≤ 366) :
    regenApplyLocation_ECDFM env L S dO dH dF obs hist (fut.map (fun v => v + c))
      = (regenApplyLocation_ECDFM env L S dO dH dF obs hist fut).map (List.map (Option.map (fun v => v + c))) := by
  rw [regenApplyLocation_ECDFM_eq_model, regenApplyLocation_ECDFM_eq_model, hfam]
  exact Props.C02.ecdfm_windowed_shift Fam hL _ c L S dO dH dF obs hist fut hS hSL hlen hr

/-- **C03, ECDFM**: any family, any threshold -/
theorem regenApplyLocation_ECDFM_fixed_point (env : Env P) (L S h : Int) (dO dF : List Int) (obs F : List Rat)
    (hS : S = 2 * h + 1) (hh : 0 ≤ h) (hSL : S ≤ L) (hlen : dF.length = F.length) (hr : ∀ d ∈ dF, 1 ≤ d ∧ d ≤ 366)
    (hne : ∀ c ∈ useCenters S dF, take obs (idxWindow L dO c) ≠ []) :
    regenApplyLocation_ECDFM env L S dO dO dF obs obs F = .ok (F.map some) := by
  rw [regenApplyLocation_ECDFM_eq_model]
  exact Props.C03.ecdfm_fixed_point_rw env.fam _ L S h dO dF obs F hS hh hSL hlen hr hne

/-- **C04, ECDFM**: guard `scalesOk` — the three window samples non-empty with non-zero fitted scale -/
theorem regenApplyLocation_ECDFM_affine (env : Env (Rat × Rat)) (Fam : LocScaleFam) (hfam : env.fam = Fam.toFamily)
    (Lw : LocScaleLaws Fam) {a : Rat} (ha : 0 < a) (b : Rat) (L S : Int) (dO dH dF : List Int) (obs hist fut : List Rat)
    (hG : ∀ c ∈ useCenters S dF, scalesOk Fam [take obs (idxWindow L dO c), take hist (idxWindow L dH c),
      take fut (idxWindow L dF c)]) :
    regenApplyLocation_ECDFM env L S dO dH dF (affine a b obs) (affine a b hist) (affine a b fut)
      = (regenApplyLocation_ECDFM env L S dO dH dF obs hist fut).map (affineBuf a b) := by
  rw [regenApplyLocation_ECDFM_eq_model, regenApplyLocation_ECDFM_eq_model, hfam]
  exact unguarded_affine_RW (fun o h x => decide (scalesOk Fam [o, h, x])) _ a b
    (fun o h x => decide_eq_decide.mpr (by simpa only [List.map_cons, List.map_nil] using scalesOk_affine Lw ha b [o, h, x]))
    L S dO dH dF obs hist fut
    (Props.C04.ecdfm_windowed_affine Lw ha b _ L S dO dH dF obs hist fut) (fun c hc => decide_eq_true (hG c hc))

/-! ## 4. QuantileMapping -/

/-- `RunningWindowDebiaser.apply_location` ∘ `QuantileMapping.apply_on_window` (with `_standard_qm` inlined by the
    extractor), both as regenerated -/
def regenApplyLocation_QM (env : Env P) (L S : Int) (dO dH dF : List Int) (obs hist fut : List Rat) :
    Except String (List (Option Rat)) :=
  Model.Loops.denote Gen.Loops.loopRW (progWin Gen.DebWin.qm_apply_on_window env) ⟨L, S, pick dO dH dF, pick obs hist fut⟩

theorem regenApplyLocation_QM_eq_model_param (env : Env P) (d : Detrending)
    (hd : env.str "detrending" = Model.NpDeb.detrendingStr d) (hm : env.str "mapping_type" = "parametric")
    (L S : Int) (dO dH dF : List Int) (obs hist fut : List Rat) :
    regenApplyLocation_QM env L S dO dH dF obs hist fut
      = applyLocationRW (winOf (qmParam env.fam (env.num "cdf_threshold") d)) L S dO dH dF obs hist fut := by
  unfold regenApplyLocation_QM
  rw [Lemmas.GenLoops.loopRW, Lemmas.GenLoops.denote_loopRW, progWin_qm_param env d hd hm]

theorem regenApplyLocation_QM_eq_model_nonparam (env : Env P) (d : Detrending)
    (hd : env.str "detrending" = Model.NpDeb.detrendingStr d) (hm : env.str "mapping_type" = "nonparametric")
    (L S : Int) (dO dH dF : List Int) (obs hist fut : List Rat) :
    regenApplyLocation_QM env L S dO dH dF obs hist fut
      = applyLocationRW (winOf (qmNonparam d)) L S dO dH dF obs hist fut := by
  unfold regenApplyLocation_QM
  rw [Lemmas.GenLoops.loopRW, Lemmas.GenLoops.denote_loopRW, progWin_qm_nonparam env d hd hm]

/-- **C02, QuantileMapping with additive detrending**, parametric (any family) or non-parametric -/
theorem regenApplyLocation_QM_shift (env : Env P) (hd : env.str "detrending" = "additive")
    (hm : env.str "mapping_type" = "parametric" ∨ env.str "mapping_type" = "nonparametric")
    (c : Rat) (L S : Int) (dO dH dF : List Int) (obs hist fut : List Rat)
    (hS : 0 < S) (hSL : S ≤ L) (hlen : dF.length = fut.length) (hr : ∀ d ∈ dF, 1 ≤ d ∧ d ≤ 366) :
    regenApplyLocation_QM env L S dO dH dF obs hist (fut.map (fun v => v + c))
      = (regenApplyLocation_QM env L S dO dH dF obs hist fut).map (List.map (Option.map (fun v => v + c))) := by
  rcases hm with hm | hm
  · rw [regenApplyLocation_QM_eq_model_param env .additive hd hm, regenApplyLocation_QM_eq_model_param env .additive hd hm]
    exact Props.C02.qm_windowed_shift (standardQMParam env.fam (env.num "cdf_threshold")) c L S dO dH dF obs hist fut
      hS hSL hlen hr
  · rw [regenApplyLocation_QM_eq_model_nonparam env .additive hd hm,
      regenApplyLocation_QM_eq_model_nonparam env .additive hd hm]
    exact Props.C02.qm_windowed_shift standardQMNonparam c L S dO dH dF obs hist fut hS hSL hlen hr

/-- C02, multiplicative detrending: a factor `k > 0` passes through -/
theorem regenApplyLocation_QM_scale (env : Env P) (hd : env.str "detrending" = "multiplicative")
    (hm : env.str "mapping_type" = "parametric" ∨ env.str "mapping_type" = "nonparametric")
    (k : Rat) (hk : 0 < k) (L S : Int) (dO dH dF : List Int) (obs hist fut : List Rat)
    (hS : 0 < S) (hSL : S ≤ L) (hlen : dF.length = fut.length) (hr : ∀ d ∈ dF, 1 ≤ d ∧ d ≤ 366) :
    regenApplyLocation_QM env L S dO dH dF obs hist (fut.map (fun v => k * v))
      = (regenApplyLocation_QM env L S dO dH dF obs hist fut).map (List.map (Option.map (fun v => k * v))) := by
  rcases hm with hm | hm
  · rw [regenApplyLocation_QM_eq_model_param env .multiplicative hd hm,
      regenApplyLocation_QM_eq_model_param env .multiplicative hd hm]
    exact Props.C02.qm_windowed_scale (standardQMParam env.fam (env.num "cdf_threshold")) k hk L S dO dH dF obs hist fut
      hS hSL hlen hr
  · rw [regenApplyLocation_QM_eq_model_nonparam env .multiplicative hd hm,
      regenApplyLocation_QM_eq_model_nonparam env .multiplicative hd hm]
    exact Props.C02.qm_windowed_scale standardQMNonparam k hk L S dO dH dF obs hist fut hS hSL hlen hr

/-- **C03, parametric QuantileMapping** (every detrending): the guards of `Props.C03.qm_param_fixed_point_rw` on every
    window — non-zero fitted scale, the multiplicative divisors, and no clipping by `cdf_threshold` (`NoClip`) -/
theorem regenApplyLocation_QM_fixed_point (env : Env (Rat × Rat)) (Fam : LocScaleFam) (hfam : env.fam = Fam.toFamily)
    (Lw : LocScaleLaws Fam) (d : Detrending) (hd : env.str "detrending" = Model.NpDeb.detrendingStr d)
    (hm : env.str "mapping_type" = "parametric")
    (L S h : Int) (dO dF : List Int) (obs F : List Rat)
    (hS : S = 2 * h + 1) (hh : 0 ≤ h) (hSL : S ≤ L) (hlen : dF.length = F.length) (hr : ∀ d ∈ dF, 1 ≤ d ∧ d ≤ 366)
    (hg : ∀ c ∈ useCenters S dF,
      Fam.scale (take obs (idxWindow L dO c)) ≠ 0 ∧
      (d = .multiplicative → mean (take obs (idxWindow L dO c)) ≠ 0 ∧ mean (take F (idxWindow L dF c)) ≠ 0) ∧
      Lemmas.C03.NoClip Fam (env.num "cdf_threshold") (Fam.fit (take obs (idxWindow L dO c)))
        (Lemmas.C03.qmDetrended d (take obs (idxWindow L dO c)) (take F (idxWindow L dF c)))) :
    regenApplyLocation_QM env L S dO dO dF obs obs F = .ok (F.map some) := by
  rw [regenApplyLocation_QM_eq_model_param env d hd hm, hfam]
  exact Props.C03.qm_param_fixed_point_rw Lw _ d L S h dO dF obs F hS hh hSL hlen hr hg

/-- **C04, parametric QuantileMapping**, detrending not multiplicative, any `cdf_threshold` -/
theorem regenApplyLocation_QM_affine_param (env : Env (Rat × Rat)) (Fam : LocScaleFam) (hfam : env.fam = Fam.toFamily)
    (Lw : LocScaleLaws Fam) (d : Detrending) (hd : env.str "detrending" = Model.NpDeb.detrendingStr d)
    (hm : env.str "mapping_type" = "parametric") (hdm : d ≠ .multiplicative)
    {a : Rat} (ha : 0 < a) (b : Rat) (L S : Int) (dO dH dF : List Int) (obs hist fut : List Rat)
    (hG : ∀ c ∈ useCenters S dF,
      qmGuard d (take obs (idxWindow L dO c)) (take hist (idxWindow L dH c)) (take fut (idxWindow L dF c)) ∧
      scalesOk Fam [take obs (idxWindow L dO c), take hist (idxWindow L dH c)]) :
    regenApplyLocation_QM env L S dO dH dF (affine a b obs) (affine a b hist) (affine a b fut)
      = (regenApplyLocation_QM env L S dO dH dF obs hist fut).map (affineBuf a b) := by
  rw [regenApplyLocation_QM_eq_model_param env d hd hm, regenApplyLocation_QM_eq_model_param env d hd hm, hfam]
  exact unguarded_affine_RW (fun o h x => decide (qmGuard d o h x ∧ scalesOk Fam [o, h])) _ a b
    (fun o h x => decide_eq_decide.mpr (by
      rw [qmGuard_affine a b d hdm]
      have := scalesOk_affine Lw ha b [o, h]
      simp only [List.map_cons, List.map_nil] at this
      rw [this]))
    L S dO dH dF obs hist fut
    (Props.C04.qm_param_windowed_affine Lw ha b _ d hdm L S dO dH dF obs hist fut) (fun c hc => decide_eq_true (hG c hc))

/-- **C04, non-parametric QuantileMapping** -/
theorem regenApplyLocation_QM_affine_nonparam (env : Env P) (d : Detrending)
    (hd : env.str "detrending" = Model.NpDeb.detrendingStr d) (hm : env.str "mapping_type" = "nonparametric")
    (hdm : d ≠ .multiplicative) {a : Rat} (ha : 0 < a) (b : Rat) (L S : Int) (dO dH dF : List Int) (obs hist fut : List Rat)
    (hG : ∀ c ∈ useCenters S dF,
      qmGuard d (take obs (idxWindow L dO c)) (take hist (idxWindow L dH c)) (take fut (idxWindow L dF c))) :
    regenApplyLocation_QM env L S dO dH dF (affine a b obs) (affine a b hist) (affine a b fut)
      = (regenApplyLocation_QM env L S dO dH dF obs hist fut).map (affineBuf a b) := by
  rw [regenApplyLocation_QM_eq_model_nonparam env d hd hm, regenApplyLocation_QM_eq_model_nonparam env d hd hm]
  exact unguarded_affine_RW (fun o h x => decide (qmGuard d o h x)) _ a b
    (fun o h x => decide_eq_decide.mpr (qmGuard_affine a b d hdm o h x)) L S dO dH dF obs hist fut
    (Props.C04.qm_nonparam_windowed_affine ha b d hdm L S dO dH dF obs hist fut) (fun c hc => decide_eq_true (hG c hc))

/-! ## 5. ScaledDistributionMapping, absolute -/

/-- `RunningWindowDebiaser.apply_location` ∘ `ScaledDistributionMapping._apply_on_window_absolute_sdm`, both as regenerated -/
def regenApplyLocation_SDM (env : Env (Rat × Rat)) (L S : Int) (dO dH dF : List Int) (obs hist fut : List Rat) :
    Except String (List (Option Rat)) :=
  Model.Loops.denote Gen.Loops.loopRW (progWin Gen.DebWin.sdm_apply_on_window_absolute_sdm env)
    ⟨L, S, pick dO dH dF, pick obs hist fut⟩

theorem regenApplyLocation_SDM_eq_model (env : Env (Rat × Rat)) (Fam : LocScaleFam) (hfam : env.fam = Fam.toFamily)
    (hidx : env.parIdx = Model.NpDeb.locScaleIdx) (L S : Int) (dO dH dF : List Int) (obs hist fut : List Rat) :
    regenApplyLocation_SDM env L S dO dH dF obs hist fut
      = applyLocationRW (winOf (sdmAbsolute Fam)) L S dO dH dF obs hist fut := by
  unfold regenApplyLocation_SDM
  rw [Lemmas.GenLoops.loopRW, Lemmas.GenLoops.denote_loopRW, progWin_sdm_abs env Fam hfam hidx]

/-- **C02, SDM absolute** (no law of the family needed) -/
theorem regenApplyLocation_SDM_shift (env : Env (Rat × Rat)) (Fam : LocScaleFam) (hfam : env.fam = Fam.toFamily)
    (hidx : env.parIdx = Model.NpDeb.locScaleIdx) (c : Rat) (L S : Int) (dO dH dF : List Int) (obs hist fut : List Rat)
    (hS : 0 < S) (hSL : S ≤ L) (hlen : dF.length = fut.length) (hr : ∀ d ∈ dF, 1 ≤ d ∧ d ≤ 366) :
    regenApplyLocation_SDM env L S dO dH dF obs hist (fut.map (fun v => v + c))
      = (regenApplyLocation_SDM env L S dO dH dF obs hist fut).map (List.map (Option.map (fun v => v + c))) := by
  rw [regenApplyLocation_SDM_eq_model env Fam hfam hidx, regenApplyLocation_SDM_eq_model env Fam hfam hidx]
  exact Props.C02.sdm_windowed_shift Fam c L S dO dH dF obs hist fut hS hSL hlen hr

/-- **C04, SDM absolute** (C03 is not claimed for SDM: DESIGN §5 F3) -/
theorem regenApplyLocation_SDM_affine (env : Env (Rat × Rat)) (Fam : LocScaleFam) (hfam : env.fam = Fam.toFamily)
    (hidx : env.parIdx = Model.NpDeb.locScaleIdx) (Lw : LocScaleLaws Fam) {a : Rat} (ha : 0 < a) (b : Rat)
    (L S : Int) (dO dH dF : List Int) (obs hist fut : List Rat)
    (hG : ∀ c ∈ useCenters S dF,
      sdmAbsGuard Fam (take obs (idxWindow L dO c)) (take hist (idxWindow L dH c)) (take fut (idxWindow L dF c))) :
    regenApplyLocation_SDM env L S dO dH dF (affine a b obs) (affine a b hist) (affine a b fut)
      = (regenApplyLocation_SDM env L S dO dH dF obs hist fut).map (affineBuf a b) := by
  rw [regenApplyLocation_SDM_eq_model env Fam hfam hidx, regenApplyLocation_SDM_eq_model env Fam hfam hidx]
  exact unguarded_affine_RW (fun o h x => decide (sdmAbsGuard Fam o h x)) _ a b
    (fun o h x => decide_eq_decide.mpr (sdmAbsGuard_affine Lw ha b o h x)) L S dO dH dF obs hist fut
    (Props.C04.sdm_windowed_affine Lw ha b L S dO dH dF obs hist fut) (fun c hc => decide_eq_true (hG c hc))

/-! ## 6. CDFt -/

/-- `RunningWindowDebiaser.apply_location` ∘ `CDFt._apply_debiasing_steps` (SSR steps and `_apply_CDFt_mapping` inlined by
    the extractor), both as regenerated — the configuration `running_window_mode_over_years_of_cm_future = False`, in which
    `apply_on_window` is that one call.  `drw ix` = the `np.random.uniform` stream of the window at future positions `ix`. -/
def regenApplyLocation_CDFt (env : Env P) (drw : List Nat → List Rat) (L S : Int) (dO dH dF : List Int)
    (obs hist fut : List Rat) : Except String (List (Option Rat)) :=
  Model.Loops.denote Gen.Loops.loopRW (progWinDraws Gen.DebWin.cdft_apply_debiasing_steps env (cdftDraws drw))
    ⟨L, S, pick dO dH dF, pick obs hist fut⟩

/-- the settings of a CDFt instance read as the typed settings of the model -/
structure CdftEnvOk (env : Env P) (ssr : Bool) (d : DeltaShift) (em : EcdfMethod) (im : IecdfMethod) : Prop where
  delta : env.str "delta_shift" = Model.NpDeb.deltaShiftStr d
  ssr : env.flag "SSR" = ssr
  ecdf : env.ecdfM "ecdf_method" = ecdf1 em
  iecdf : env.iecdfM "iecdf_method" = iecdf1 im

theorem regenApplyLocation_CDFt_eq_model (env : Env P) (ssr : Bool) (d : DeltaShift) (em : EcdfMethod) (im : IecdfMethod)
    (hE : CdftEnvOk env ssr d em im) (drw : List Nat → List Rat) (L S : Int) (dO dH dF : List Int) (obs hist fut : List Rat) :
    regenApplyLocation_CDFt env drw L S dO dH dF obs hist fut
      = applyLocationRW (fun o h x _ _ ix => .ok (cdftSteps ssr d em im o h x (drw ix))) L S dO dH dF obs hist fut := by
  unfold regenApplyLocation_CDFt
  rw [Lemmas.GenLoops.loopRW, Lemmas.GenLoops.denote_loopRW, progWin_cdft env ssr d em im drw hE.delta hE.ssr hE.ecdf hE.iecdf]

theorem regenApplyLocation_CDFt_eq_model_nossr (env : Env P) (d : DeltaShift) (em : EcdfMethod) (im : IecdfMethod)
    (hE : CdftEnvOk env false d em im) (drw : List Nat → List Rat) (L S : Int) (dO dH dF : List Int)
    (obs hist fut : List Rat) :
    regenApplyLocation_CDFt env drw L S dO dH dF obs hist fut
      = applyLocationRW (winOf (cdftMapping d em im)) L S dO dH dF obs hist fut := by
  unfold regenApplyLocation_CDFt
  rw [Lemmas.GenLoops.loopRW, Lemmas.GenLoops.denote_loopRW,
    progWin_cdft_nossr env d em im drw hE.delta hE.ssr hE.ecdf hE.iecdf]

/-- **C02, CDFt** (`SSR = False`, `delta_shift` additive or `no_shift`, all 2 × 9 method pairs): additionally every window
    holds a historical value -/
theorem regenApplyLocation_CDFt_shift (env : Env P) (d : DeltaShift) (hd : d = .additive ∨ d = .no_shift)
    (em : EcdfMethod) (im : IecdfMethod) (hE : CdftEnvOk env false d em im) (drw : List Nat → List Rat)
    (c : Rat) (L S : Int) (dO dH dF : List Int) (obs hist fut : List Rat)
    (hS : 0 < S) (hSL : S ≤ L) (hlen : dF.length = fut.length) (hr : ∀ d ∈ dF, 1 ≤ d ∧ d ≤ 366)
    (hH : ∀ ctr ∈ useCenters S dF, take hist (idxWindow L dH ctr) ≠ []) :
    regenApplyLocation_CDFt env drw L S dO dH dF obs hist (fut.map (fun v => v + c))
      = (regenApplyLocation_CDFt env drw L S dO dH dF obs hist fut).map (List.map (Option.map (fun v => v + c))) := by
  rw [regenApplyLocation_CDFt_eq_model_nossr env d em im hE, regenApplyLocation_CDFt_eq_model_nossr env d em im hE]
  exact Props.C02.cdft_windowed_shift d hd em im c L S dO dH dF obs hist fut hS hSL hlen hr hH

/-- **C03, CDFt** with its default method pair (`linear_interpolation` / `linear`), `SSR = False`, every `delta_shift`:
    tie-free series, at least two observations in every window -/
theorem regenApplyLocation_CDFt_fixed_point (env : Env P) (d : DeltaShift) (hE : CdftEnvOk env false d .linear .linear)
    (drw : List Nat → List Rat) (L S h : Int) (dO dF : List Int) (obs F : List Rat)
    (hS : S = 2 * h + 1) (hh : 0 ≤ h) (hSL : S ≤ L) (hlen : dF.length = F.length) (hr : ∀ d ∈ dF, 1 ≤ d ∧ d ≤ 366)
    (hlo : obs.length = dO.length) (ho : obs.Nodup) (hF : F.Nodup)
    (hg : ∀ c ∈ useCenters S dF, 2 ≤ (take obs (idxWindow L dO c)).length ∧
      (d = .multiplicative → mean (take obs (idxWindow L dO c)) ≠ 0)) :
    regenApplyLocation_CDFt env drw L S dO dO dF obs obs F = .ok (F.map some) := by
  rw [regenApplyLocation_CDFt_eq_model_nossr env d .linear .linear hE]
  exact Props.C03.cdft_fixed_point_rw d L S h dO dF obs F hS hh hSL hlen hr hlo ho hF hg

/-- **C03, CDFt with `SSR = True`** (strictly positive series, enough draws per window: `ssrGuard`) -/
theorem regenApplyLocation_CDFt_fixed_point_ssr (env : Env P) (d : DeltaShift) (hE : CdftEnvOk env true d .linear .linear)
    (drw : List Nat → List Rat) (L S h : Int) (dO dF : List Int) (obs F : List Rat)
    (hS : S = 2 * h + 1) (hh : 0 ≤ h) (hSL : S ≤ L) (hlen : dF.length = F.length) (hr : ∀ d ∈ dF, 1 ≤ d ∧ d ≤ 366)
    (hlo : obs.length = dO.length) (ho : obs.Nodup) (hF : F.Nodup) (hpo : ∀ v ∈ obs, 0 < v) (hpF : ∀ v ∈ F, 0 < v)
    (hg : ∀ c ∈ useCenters S dF, 2 ≤ (take obs (idxWindow L dO c)).length ∧
      (d = .multiplicative → mean (take obs (idxWindow L dO c)) ≠ 0) ∧
      ssrGuard true (take obs (idxWindow L dO c)) (take obs (idxWindow L dO c)) (take F (idxWindow L dF c))
        (drw (idxWindow L dF c))) :
    regenApplyLocation_CDFt env drw L S dO dO dF obs obs F = .ok (F.map some) := by
  rw [regenApplyLocation_CDFt_eq_model env true d .linear .linear hE]
  exact Props.C03.cdft_ssr_fixed_point_rw d L S h dO dF obs F drw hS hh hSL hlen hr hlo ho hF hpo hpF hg

/-- **C04, CDFt** (`SSR = False`, `delta_shift` not multiplicative, all method pairs): guard `cdftGuard` — the three window
    samples non-empty -/
theorem regenApplyLocation_CDFt_affine (env : Env P) (d : DeltaShift) (hd : d ≠ .multiplicative)
    (em : EcdfMethod) (im : IecdfMethod) (hE : CdftEnvOk env false d em im) (drw : List Nat → List Rat)
    {a : Rat} (ha : 0 < a) (b : Rat) (L S : Int) (dO dH dF : List Int) (obs hist fut : List Rat)
    (hG : ∀ c ∈ useCenters S dF,
      cdftGuard d (take obs (idxWindow L dO c)) (take hist (idxWindow L dH c)) (take fut (idxWindow L dF c))) :
    regenApplyLocation_CDFt env drw L S dO dH dF (affine a b obs) (affine a b hist) (affine a b fut)
      = (regenApplyLocation_CDFt env drw L S dO dH dF obs hist fut).map (affineBuf a b) := by
  rw [regenApplyLocation_CDFt_eq_model_nossr env d em im hE, regenApplyLocation_CDFt_eq_model_nossr env d em im hE]
  have h := Props.C04.cdft_windowed_affine ha b d hd em im none L S dO dH dF obs hist fut
  rw [cdftWin_none] at h
  exact unguarded_affine_RW (fun o h x => decide (cdftGuard d o h x)) _ a b
    (fun o h x => decide_eq_decide.mpr (cdftGuard_affine a b d hd o h x)) L S dO dH dF obs hist fut
    h (fun c hc => decide_eq_true (hG c hc))

/-! ## 7. QuantileDeltaMapping -/

/-- `RunningWindowDebiaser.apply_location` ∘ (`_get_obs_and_cm_hist_fits`, then `_apply_debiasing_steps` on the window's
    `cm_future`), all three as regenerated — the configuration `running_window_mode_over_years_of_cm_future = False` -/
def regenApplyLocation_QDM (env : Env P) (L S : Int) (dO dH dF : List Int) (obs hist fut : List Rat) :
    Except String (List (Option Rat)) :=
  Model.Loops.denote Gen.Loops.loopRW (qdmWinRegen env) ⟨L, S, pick dO dH dF, pick obs hist fut⟩

theorem regenApplyLocation_QDM_eq_model (env : Env P) (tp : TrendPres) (em : EcdfMethod) (cz : Option Rat)
    (hE : Lemmas.GenDebWin.qdmEnvOk env tp cz) (he : env.ecdfM "ecdf_method" = ecdf1 em)
    (L S : Int) (dO dH dF : List Int) (obs hist fut : List Rat) :
    regenApplyLocation_QDM env L S dO dH dF obs hist fut
      = applyLocationRW (winOf (qdmWindow env.fam tp em (env.num "cdf_threshold") cz)) L S dO dH dF obs hist fut := by
  unfold regenApplyLocation_QDM
  rw [Lemmas.GenLoops.loopRW, Lemmas.GenLoops.denote_loopRW, qdmWinRegen_eq env tp em cz hE he]

/-- **C02, QDM absolute without censoring**: any family, any of the two `ecdf` methods -/
theorem regenApplyLocation_QDM_shift (env : Env P) (em : EcdfMethod)
    (hE : Lemmas.GenDebWin.qdmEnvOk env .absolute none) (he : env.ecdfM "ecdf_method" = ecdf1 em)
    (c : Rat) (L S : Int) (dO dH dF : List Int) (obs hist fut : List Rat)
    (hS : 0 < S) (hSL : S ≤ L) (hlen : dF.length = fut.length) (hr : ∀ d ∈ dF, 1 ≤ d ∧ d ≤ 366) :
    regenApplyLocation_QDM env L S dO dH dF obs hist (fut.map (fun v => v + c))
      = (regenApplyLocation_QDM env L S dO dH dF obs hist fut).map (List.map (Option.map (fun v => v + c))) := by
  rw [regenApplyLocation_QDM_eq_model env .absolute em none hE he, regenApplyLocation_QDM_eq_model env .absolute em none hE he]
  exact Props.C02.qdm_windowed_shift env.fam em _ c L S dO dH dF obs hist fut hS hSL hlen hr

/-- **C03, QDM** (absolute or relative, censored or not): the guards of `Props.C03.qdm_fixed_point_rw` -/
theorem regenApplyLocation_QDM_fixed_point (env : Env P) (tp : TrendPres) (em : EcdfMethod) (cz : Option Rat)
    (hE : Lemmas.GenDebWin.qdmEnvOk env tp cz) (he : env.ecdfM "ecdf_method" = ecdf1 em)
    (L S h : Int) (dO dF : List Int) (obs F : List Rat)
    (hS : S = 2 * h + 1) (hh : 0 ≤ h) (hSL : S ≤ L) (hlen : dF.length = F.length) (hr : ∀ d ∈ dF, 1 ≤ d ∧ d ≤ 366)
    (hcz : Props.C03.AtOrAbove cz F)
    (hne : ∀ c ∈ useCenters S dF, take obs (idxWindow L dO c) ≠ [])
    (hg : tp = .relative → ∀ c ∈ useCenters S dF,
      qdmRelGuard env.fam (ecdf1 em) (env.num "cdf_threshold") (take F (idxWindow L dF c))
        (env.fam.fit (take obs (idxWindow L dO c)))) :
    regenApplyLocation_QDM env L S dO dO dF obs obs F = .ok (F.map some) := by
  rw [regenApplyLocation_QDM_eq_model env tp em cz hE he]
  exact Props.C03.qdm_fixed_point_rw env.fam tp em _ L S h dO dF obs F hS hh hSL hlen hr cz hcz hne hg

/-- **C04, QDM absolute without censoring** over a location–scale family: guard `scalesOk` on the `obs` / `cm_hist` samples -/
theorem regenApplyLocation_QDM_affine (env : Env (Rat × Rat)) (Fam : LocScaleFam) (hfam : env.fam = Fam.toFamily)
    (Lw : LocScaleLaws Fam) (em : EcdfMethod)
    (hE : Lemmas.GenDebWin.qdmEnvOk env .absolute none) (he : env.ecdfM "ecdf_method" = ecdf1 em)
    {a : Rat} (ha : 0 < a) (b : Rat) (L S : Int) (dO dH dF : List Int) (obs hist fut : List Rat)
    (hG : ∀ c ∈ useCenters S dF, scalesOk Fam [take obs (idxWindow L dO c), take hist (idxWindow L dH c)]) :
    regenApplyLocation_QDM env L S dO dH dF (affine a b obs) (affine a b hist) (affine a b fut)
      = (regenApplyLocation_QDM env L S dO dH dF obs hist fut).map (affineBuf a b) := by
  rw [regenApplyLocation_QDM_eq_model env .absolute em none hE he, regenApplyLocation_QDM_eq_model env .absolute em none hE he,
    hfam]
  have h := Props.C04.qdm_windowed_affine Lw ha b em (env.num "cdf_threshold") none L S dO dH dF obs hist fut
  rw [qdmWin_none] at h
  exact unguarded_affine_RW (fun o h _ => decide (scalesOk Fam [o, h])) _ a b
    (fun o h x => decide_eq_decide.mpr (by
      simpa only [List.map_cons, List.map_nil] using scalesOk_affine Lw ha b [o, h]))
    L S dO dH dF obs hist fut h (fun c hc => decide_eq_true (hG c hc))

/-! ## 8. CDFt and QuantileDeltaMapping in their default configuration: year windows of `cm_future` inside every seasonal window

  Three regenerated pieces are composed: the seasonal loop (`Gen.Loops.loopRW`), the year loop of `apply_on_window`
  (`Gen.Loops.loopCDFt` / `loopQDM`) and the per-year-window steps (`Gen.DebWin.*`).  `yearsF` = the year of every step of
  the full future series, `Ly`, `Sy` = the normalised year-window length and step.  An inner step that no year window
  adjusts is reported as the error `unassigned` (it is excluded by C07). -/

def regenApplyLocation_CDFt_years (env : Env P) (drw : List Nat → List Rat) (Ly Sy : Int) (yearsF : List Int) (L S : Int)
    (dO dH dF : List Int) (obs hist fut : List Rat) : Except String (List (Option Rat)) :=
  Model.Loops.denote Gen.Loops.loopRW
    (yearsWin Gen.Loops.loopCDFt (progYearFn Gen.DebWin.cdft_apply_debiasing_steps env (cdftDraws drw)) Ly Sy yearsF)
    ⟨L, S, pick dO dH dF, pick obs hist fut⟩

theorem regenApplyLocation_CDFt_years_eq_model (env : Env P) (d : DeltaShift) (em : EcdfMethod) (im : IecdfMethod)
    (hE : CdftEnvOk env false d em im) (drw : List Nat → List Rat) (Ly Sy : Int) (yearsF : List Int) (L S : Int)
    (dO dH dF : List Int) (obs hist fut : List Rat) :
    regenApplyLocation_CDFt_years env drw Ly Sy yearsF L S dO dH dF obs hist fut
      = applyLocationRW (Lemmas.C03.winOfYears (cdftYearFn d em im) Ly Sy yearsF) L S dO dH dF obs hist fut := by
  unfold regenApplyLocation_CDFt_years
  rw [Lemmas.GenLoops.loopRW, Lemmas.GenLoops.denote_loopRW,
    yearsWin_cdft env d em im drw Ly Sy yearsF hE.delta hE.ssr hE.ecdf hE.iecdf]

/-- **C02, CDFt default configuration**: guards — one year per future value, every seasonal window holds a historical value -/
theorem regenApplyLocation_CDFt_years_shift (env : Env P) (d : DeltaShift) (hd : d = .additive ∨ d = .no_shift)
    (em : EcdfMethod) (im : IecdfMethod) (hE : CdftEnvOk env false d em im) (drw : List Nat → List Rat)
    (Ly Sy : Int) (yearsF : List Int) (c : Rat) (L S : Int) (dO dH dF : List Int) (obs hist fut : List Rat)
    (hleny : yearsF.length = fut.length)
    (hH : ∀ ctr ∈ useCenters S dF, take hist (idxWindow L dH ctr) ≠ []) :
    regenApplyLocation_CDFt_years env drw Ly Sy yearsF L S dO dH dF obs hist (fut.map (fun v => v + c))
      = (regenApplyLocation_CDFt_years env drw Ly Sy yearsF L S dO dH dF obs hist fut).map
          (List.map (Option.map (fun v => v + c))) := by
  rw [regenApplyLocation_CDFt_years_eq_model env d em im hE, regenApplyLocation_CDFt_years_eq_model env d em im hE]
  have h := Lemmas.C02.applyLocationRW_equivariant_at (Lemmas.C03.winOfYears (cdftYearFn d em im) Ly Sy yearsF) id id
    (fun v => v + c) (fun v => v + c) L S dO dH dF obs hist fut
    (by
      intro ctr hc
      simp only [List.map_id]
      rw [winOfYears_cdft_eq _ _ _ _ _ _ _ _ _ _ _ _
          (by rw [List.length_map]; exact window_years_length L dF yearsF fut ctr hleny),
        winOfYears_cdft_eq _ _ _ _ _ _ _ _ _ _ _ _ (window_years_length L dF yearsF fut ctr hleny),
        Props.C02.cdft_years_shift d hd em im Ly Sy _ _ _ _ c (hH ctr hc)]
      exact collapse_map _ _)
  simpa only [List.map_id] using h

/-- **C03, CDFt default configuration** (default method pair, `SSR = False`) -/
theorem regenApplyLocation_CDFt_years_fixed_point (env : Env P) (d : DeltaShift) (hE : CdftEnvOk env false d .linear .linear)
    (drw : List Nat → List Rat) (L S h Ly Sy hy : Int) (dO dF yearsF : List Int) (obs F : List Rat)
    (hS : S = 2 * h + 1) (hh : 0 ≤ h) (hSL : S ≤ L) (hlen : dF.length = F.length) (hr : ∀ d ∈ dF, 1 ≤ d ∧ d ≤ 366)
    (hSy : Sy = 2 * hy + 1) (hhy : 0 ≤ hy) (hSLy : Sy ≤ Ly) (hleny : yearsF.length = F.length)
    (hlo : obs.length = dO.length) (ho : obs.Nodup) (hF : F.Nodup)
    (hg : ∀ c ∈ useCenters S dF, 2 ≤ (take obs (idxWindow L dO c)).length ∧
      (d = .multiplicative → mean (take obs (idxWindow L dO c)) ≠ 0)) :
    regenApplyLocation_CDFt_years env drw Ly Sy yearsF L S dO dO dF obs obs F = .ok (F.map some) := by
  rw [regenApplyLocation_CDFt_years_eq_model env d .linear .linear hE]
  exact Props.C03.cdft_fixed_point_rw_years d L S h Ly Sy hy dO dF yearsF obs F hS hh hSL hlen hr hSy hhy hSLy hleny
    hlo ho hF hg

/-- **C04, CDFt default configuration** -/
theorem regenApplyLocation_CDFt_years_affine (env : Env P) (d : DeltaShift) (hd : d ≠ .multiplicative)
    (em : EcdfMethod) (im : IecdfMethod) (hE : CdftEnvOk env false d em im) (drw : List Nat → List Rat)
    (Ly Sy : Int) (yearsF : List Int) {a : Rat} (ha : 0 < a) (b : Rat) (L S : Int) (dO dH dF : List Int)
    (obs hist fut : List Rat) (hleny : yearsF.length = fut.length)
    (hG : ∀ c ∈ useCenters S dF,
      cdftGuard d (take obs (idxWindow L dO c)) (take hist (idxWindow L dH c)) (take fut (idxWindow L dF c))) :
    regenApplyLocation_CDFt_years env drw Ly Sy yearsF L S dO dH dF (affine a b obs) (affine a b hist) (affine a b fut)
      = (regenApplyLocation_CDFt_years env drw Ly Sy yearsF L S dO dH dF obs hist fut).map (affineBuf a b) := by
  rw [regenApplyLocation_CDFt_years_eq_model env d em im hE, regenApplyLocation_CDFt_years_eq_model env d em im hE]
  have hG' := guard_affine_windows (fun o h x => decide (cdftGuard d o h x)) a b
    (fun o h x => decide_eq_decide.mpr (cdftGuard_affine a b d hd o h x)) L dO dH dF obs hist fut _
    (fun c hc => decide_eq_true (hG c hc))
  rw [cdft_years_bridge d em im Ly Sy yearsF L S dO dH dF _ _ _ (by rw [affine_length]; exact hleny)
      (fun c hc => of_decide_eq_true (hG' c hc)),
    cdft_years_bridge d em im Ly Sy yearsF L S dO dH dF obs hist fut hleny hG]
  exact Props.C04.cdft_windowed_affine ha b d hd em im (some (Ly, Sy, yearsF)) L S dO dH dF obs hist fut

def regenApplyLocation_QDM_years (env : Env P) (Ly Sy : Int) (yearsF : List Int) (L S : Int)
    (dO dH dF : List Int) (obs hist fut : List Rat) : Except String (List (Option Rat)) :=
  Model.Loops.denote Gen.Loops.loopRW (qdmYearsWinRegen env Ly Sy yearsF) ⟨L, S, pick dO dH dF, pick obs hist fut⟩

theorem regenApplyLocation_QDM_years_eq_model (env : Env P) (tp : TrendPres) (em : EcdfMethod) (cz : Option Rat)
    (hE : Lemmas.GenDebWin.qdmEnvOk env tp cz) (he : env.ecdfM "ecdf_method" = ecdf1 em)
    (Ly Sy : Int) (yearsF : List Int) (L S : Int) (dO dH dF : List Int) (obs hist fut : List Rat) :
    regenApplyLocation_QDM_years env Ly Sy yearsF L S dO dH dF obs hist fut
      = applyLocationRW (Lemmas.C03.winOfYears (qdmYearFn env.fam tp em (env.num "cdf_threshold") cz) Ly Sy yearsF)
          L S dO dH dF obs hist fut := by
  unfold regenApplyLocation_QDM_years
  rw [Lemmas.GenLoops.loopRW, Lemmas.GenLoops.denote_loopRW, qdmYearsWinRegen_eq env tp em cz Ly Sy yearsF hE he]

/-- **C02, QDM default configuration** (absolute, no censoring): guard — one year per future value -/
theorem regenApplyLocation_QDM_years_shift (env : Env P) (em : EcdfMethod)
    (hE : Lemmas.GenDebWin.qdmEnvOk env .absolute none) (he : env.ecdfM "ecdf_method" = ecdf1 em)
    (Ly Sy : Int) (yearsF : List Int) (c : Rat) (L S : Int) (dO dH dF : List Int) (obs hist fut : List Rat)
    (hleny : yearsF.length = fut.length) :
    regenApplyLocation_QDM_years env Ly Sy yearsF L S dO dH dF obs hist (fut.map (fun v => v + c))
      = (regenApplyLocation_QDM_years env Ly Sy yearsF L S dO dH dF obs hist fut).map
          (List.map (Option.map (fun v => v + c))) := by
  rw [regenApplyLocation_QDM_years_eq_model env .absolute em none hE he,
    regenApplyLocation_QDM_years_eq_model env .absolute em none hE he]
  have h := Lemmas.C02.applyLocationRW_equivariant_at
    (Lemmas.C03.winOfYears (qdmYearFn env.fam .absolute em (env.num "cdf_threshold") none) Ly Sy yearsF) id id
    (fun v => v + c) (fun v => v + c) L S dO dH dF obs hist fut
    (by
      intro ctr hc
      simp only [List.map_id]
      rw [winOfYears_qdm_eq _ _ _ _ _ _ _ _ _ _ _ _ _ _
          (by rw [List.length_map]; exact window_years_length L dF yearsF fut ctr hleny),
        winOfYears_qdm_eq _ _ _ _ _ _ _ _ _ _ _ _ _ _ (window_years_length L dF yearsF fut ctr hleny),
        Props.C02.qdm_years_shift env.fam em _ Ly Sy _ _ _ _ c]
      exact collapse_map _ _)
  simpa only [List.map_id] using h

/-- **C03, QDM default configuration** -/
theorem regenApplyLocation_QDM_years_fixed_point (env : Env P) (tp : TrendPres) (em : EcdfMethod) (cz : Option Rat)
    (hE : Lemmas.GenDebWin.qdmEnvOk env tp cz) (he : env.ecdfM "ecdf_method" = ecdf1 em)
    (L S h Ly Sy hy : Int) (dO dF yearsF : List Int) (obs F : List Rat)
    (hS : S = 2 * h + 1) (hh : 0 ≤ h) (hSL : S ≤ L) (hlen : dF.length = F.length) (hr : ∀ d ∈ dF, 1 ≤ d ∧ d ≤ 366)
    (hSy : Sy = 2 * hy + 1) (hhy : 0 ≤ hy) (hSLy : Sy ≤ Ly) (hleny : yearsF.length = F.length)
    (hcz : Props.C03.AtOrAbove cz F)
    (hne : ∀ c ∈ useCenters S dF, take obs (idxWindow L dO c) ≠ [])
    (hg : tp = .relative → ∀ c ∈ useCenters S dF, ∀ cy ∈ yearCenters Sy (take yearsF (idxWindow L dF c)),
      qdmRelGuard env.fam (ecdf1 em) (env.num "cdf_threshold")
        (Py.selectWhere (take F (idxWindow L dF c)) (yearMask (take yearsF (idxWindow L dF c)) (yearsInWindow Ly cy)))
        (env.fam.fit (take obs (idxWindow L dO c)))) :
    regenApplyLocation_QDM_years env Ly Sy yearsF L S dO dO dF obs obs F = .ok (F.map some) := by
  rw [regenApplyLocation_QDM_years_eq_model env tp em cz hE he]
  exact Props.C03.qdm_fixed_point_rw_years env.fam tp em _ L S h Ly Sy hy dO dF yearsF obs F hS hh hSL hlen hr hSy hhy
    hSLy hleny cz hcz hne hg

/-- **C04, QDM default configuration** (absolute, no censoring, location–scale family) -/
theorem regenApplyLocation_QDM_years_affine (env : Env (Rat × Rat)) (Fam : LocScaleFam) (hfam : env.fam = Fam.toFamily)
    (Lw : LocScaleLaws Fam) (em : EcdfMethod)
    (hE : Lemmas.GenDebWin.qdmEnvOk env .absolute none) (he : env.ecdfM "ecdf_method" = ecdf1 em)
    (Ly Sy : Int) (yearsF : List Int) {a : Rat} (ha : 0 < a) (b : Rat) (L S : Int) (dO dH dF : List Int)
    (obs hist fut : List Rat) (hleny : yearsF.length = fut.length)
    (hG : ∀ c ∈ useCenters S dF, scalesOk Fam [take obs (idxWindow L dO c), take hist (idxWindow L dH c)]) :
    regenApplyLocation_QDM_years env Ly Sy yearsF L S dO dH dF (affine a b obs) (affine a b hist) (affine a b fut)
      = (regenApplyLocation_QDM_years env Ly Sy yearsF L S dO dH dF obs hist fut).map (affineBuf a b) := by
  rw [regenApplyLocation_QDM_years_eq_model env .absolute em none hE he,
    regenApplyLocation_QDM_years_eq_model env .absolute em none hE he, hfam]
  have hG' := guard_affine_windows (fun o h _ => decide (scalesOk Fam [o, h])) a b
    (fun o h x => decide_eq_decide.mpr (by
      simpa only [List.map_cons, List.map_nil] using scalesOk_affine Lw ha b [o, h]))
    L dO dH dF obs hist fut _ (fun c hc => decide_eq_true (hG c hc))
  rw [qdm_years_bridge Fam em _ Ly Sy yearsF L S dO dH dF _ _ _ (by rw [affine_length]; exact hleny)
      (fun c hc => of_decide_eq_true (hG' c hc)),
    qdm_years_bridge Fam em _ Ly Sy yearsF L S dO dH dF obs hist fut hleny hG]
  exact Props.C04.qdm_windowed_affine Lw ha b em _ (some (Ly, Sy, yearsF)) L S dO dH dF obs hist fut

/-! ## 9. ISIMIP

  The regenerated pieces: the running-window loop and the month loop of `ISIMIP.apply_location` (`Gen.Loops.loopIsimipRW`,
  `loopIsimipMonths`) and the wiring of `ISIMIP._apply_on_window` (`Gen.IsimipStep6.apply_on_window`: the order of steps
  2–7, which output feeds which input, the trend of step 3 handed to step 7).  The steps themselves enter as the model's
  (their own `Gen = Model` obligations are `Lemmas.GenIsimipStep6.step3_eq … step6_adjust_eq`, `Lemmas.GenIsimipSteps.*`;
  they are not composed into this term because the Kolmogorov–Smirnov oracle of the regenerated step 6 is keyed by
  intermediate values), and `step1` / `step8` around the loop — opaque `pre` / `post` calls of the loop spec — are the
  model's `Model.Isimip.step1` / `step8Buffer`.  The oracles (`orc`) and draws (`drw`) of a window are keyed by its index list. -/

open Model.Isimip in
/-- `ISIMIP.apply_location`, running-window mode -/
def regenApplyLocation_ISIMIP (c : Cfg) (fam : IsiFamily) (orc : List Nat → Oracles) (drw : List Nat → Draws) (L S : Int)
    (doyO doyH doyF yearsO yearsH yearsF : List Int) (obs H F : List Rat) : Except String (List (Option Rat)) := do
  let (o1, h1, f1, cyc) ← step1 c obs H F doyO doyH doyF
  let out ← Model.Loops.denote Gen.Loops.loopIsimipRW (isimipWinRegen c fam orc drw yearsO yearsH yearsF)
    ⟨L, S, pick doyO doyH doyF, pick o1 h1 f1⟩
  step8Buffer c out cyc doyF

open Model.Isimip in
/-- `ISIMIP.apply_location`, month mode (`running_window_mode = False`; `L`, `S` play no role) -/
def regenApplyLocation_ISIMIP_months (c : Cfg) (fam : IsiFamily) (orc : List Nat → Oracles) (drw : List Nat → Draws)
    (L S : Int) (mO mH mF doyO doyH doyF yearsO yearsH yearsF : List Int) (obs H F : List Rat) :
    Except String (List (Option Rat)) := do
  let (o1, h1, f1, cyc) ← step1 c obs H F doyO doyH doyF
  let out ← Model.Loops.denote Gen.Loops.loopIsimipMonths (isimipWinRegen c fam orc drw yearsO yearsH yearsF)
    ⟨L, S, pick mO mH mF, pick o1 h1 f1⟩
  step8Buffer c out cyc doyF

open Model.Isimip in
theorem regenApplyLocation_ISIMIP_eq_model (c : Cfg) (fam : IsiFamily) (orc : List Nat → Oracles) (drw : List Nat → Draws)
    (L S : Int) (doyO doyH doyF yearsO yearsH yearsF : List Int) (obs H F : List Rat) :
    regenApplyLocation_ISIMIP c fam orc drw L S doyO doyH doyF yearsO yearsH yearsF obs H F
      = Model.Isimip.applyLocationRW c fam orc drw L S doyO doyH doyF yearsO yearsH yearsF obs H F := by
  unfold regenApplyLocation_ISIMIP Model.Isimip.applyLocationRW
  simp only [Lemmas.GenLoops.loopIsimipRW, Lemmas.GenLoops.denote_loopIsimipRW, isimipWinRegen_eq]

open Model.Isimip in
theorem regenApplyLocation_ISIMIP_months_eq_model (c : Cfg) (fam : IsiFamily) (orc : List Nat → Oracles)
    (drw : List Nat → Draws) (L S : Int) (mO mH mF doyO doyH doyF yearsO yearsH yearsF : List Int) (obs H F : List Rat) :
    regenApplyLocation_ISIMIP_months c fam orc drw L S mO mH mF doyO doyH doyF yearsO yearsH yearsF obs H F
      = Model.Isimip.applyLocationMonths c fam orc drw mO mH mF doyO doyH doyF yearsO yearsH yearsF obs H F := by
  unfold regenApplyLocation_ISIMIP_months Model.Isimip.applyLocationMonths
  simp only [Lemmas.GenLoops.loopIsimipMonths, Lemmas.GenLoops.denote_loopIsimipMonths, isimipWinRegen_eq]

open Model.Isimip in
/-- **C02, ISIMIP additive / unbounded, running-window mode**: the guards of `Props.C02.isimip_windowed_shift` -/
theorem regenApplyLocation_ISIMIP_shift (cfg : Cfg) (hU : Lemmas.C02.Unbounded cfg) (ht : cfg.trendMethod = .additive)
    (hcyc : cfg.scaleByAnnualCycle = false)
    (fam : IsiFamily) (hL : Lemmas.C02.IsiShiftLaws fam) (orc : List Nat → Oracles) (drw : List Nat → Draws) (c : Rat)
    (L S : Int) (doyO doyH doyF yearsO yearsH yearsF : List Int) (obs H F : List Rat)
    (hS : 0 < S) (hSL : S ≤ L) (hr : ∀ d ∈ doyF, 1 ≤ d ∧ d ≤ 366)
    (hlO : doyO.length = obs.length) (hlH : doyH.length = H.length) (hlF : doyF.length = F.length)
    (hyO : obs.length = yearsO.length) (hyH : H.length = yearsH.length) (hyF : F.length = yearsF.length)
    (hO : ∀ ctr ∈ useCenters S doyF, take obs (idxWindow L doyO ctr) ≠ [])
    (hH : ∀ ctr ∈ useCenters S doyF, take H (idxWindow L doyH ctr) ≠ []) :
    regenApplyLocation_ISIMIP cfg fam orc drw L S doyO doyH doyF yearsO yearsH yearsF obs H (F.map (fun v => v + c))
      = (regenApplyLocation_ISIMIP cfg fam orc drw L S doyO doyH doyF yearsO yearsH yearsF obs H F).map
          (List.map (Option.map (fun v => v + c))) := by
  rw [regenApplyLocation_ISIMIP_eq_model, regenApplyLocation_ISIMIP_eq_model]
  exact Props.C02.isimip_windowed_shift cfg hU ht hcyc fam hL orc drw c L S doyO doyH doyF yearsO yearsH yearsF obs H F
    hS hSL hr hlO hlH hlF hyO hyH hyF hO hH

open Model.Isimip in
/-- **C02, ISIMIP additive / unbounded, month mode** -/
theorem regenApplyLocation_ISIMIP_months_shift (cfg : Cfg) (hU : Lemmas.C02.Unbounded cfg)
    (ht : cfg.trendMethod = .additive) (hcyc : cfg.scaleByAnnualCycle = false)
    (fam : IsiFamily) (hL : Lemmas.C02.IsiShiftLaws fam) (orc : List Nat → Oracles) (drw : List Nat → Draws) (c : Rat)
    (L S : Int) (mO mH mF doyO doyH doyF yearsO yearsH yearsF : List Int) (obs H F : List Rat)
    (hlO : mO.length = obs.length) (hlH : mH.length = H.length) (hlF : mF.length = F.length)
    (hyO : obs.length = yearsO.length) (hyH : H.length = yearsH.length) (hyF : F.length = yearsF.length)
    (hne : ∀ m ∈ Py.arange1 1 13, take obs (Lemmas.C02.monthIdx mO m) ≠ [] ∧ take H (Lemmas.C02.monthIdx mH m) ≠ [] ∧
      take F (Lemmas.C02.monthIdx mF m) ≠ []) :
    regenApplyLocation_ISIMIP_months cfg fam orc drw L S mO mH mF doyO doyH doyF yearsO yearsH yearsF obs H
        (F.map (fun v => v + c))
      = (regenApplyLocation_ISIMIP_months cfg fam orc drw L S mO mH mF doyO doyH doyF yearsO yearsH yearsF obs H F).map
          (List.map (Option.map (fun v => v + c))) := by
  rw [regenApplyLocation_ISIMIP_months_eq_model, regenApplyLocation_ISIMIP_months_eq_model]
  exact Props.C02.isimip_months_shift cfg hU ht hcyc fam hL orc drw c mO mH mF doyO doyH doyF yearsO yearsH yearsF obs H F
    hlO hlH hlF hyO hyH hyF hne

open Model.Isimip in
/-- **C04, ISIMIP additive / unbounded over a location–scale family, running-window mode** (C03 is not claimed for ISIMIP) -/
theorem regenApplyLocation_ISIMIP_affine {Fam : LocScaleFam} (Lw : LocScaleLaws Fam) (scaleAt : Rat → List Rat → Rat)
    {c : Cfg} (u : Lemmas.C04.Unbounded c) (htm : c.trendMethod = .additive) (hsc : c.scaleByAnnualCycle = false)
    (orc : List Nat → Oracles) (drw : List Nat → Draws) {a : Rat} (ha : 0 < a) (b : Rat) (L S : Int)
    (doyO doyH doyF yearsO yearsH yearsF : List Int) (obs hist fut : List Rat)
    (hO : obs.length = yearsO.length) (hH : hist.length = yearsH.length) (hF : fut.length = yearsF.length) :
    regenApplyLocation_ISIMIP c (IsiFamily.ofLocScale Fam scaleAt) orc drw L S doyO doyH doyF yearsO yearsH yearsF
        (affine a b obs) (affine a b hist) (affine a b fut)
      = (regenApplyLocation_ISIMIP c (IsiFamily.ofLocScale Fam scaleAt) orc drw L S doyO doyH doyF yearsO yearsH yearsF
          obs hist fut).map (affineBuf a b) := by
  rw [regenApplyLocation_ISIMIP_eq_model, regenApplyLocation_ISIMIP_eq_model]
  exact Props.C04.isimip_windowed_affine_RW Lw scaleAt u htm hsc orc drw ha b L S doyO doyH doyF yearsO yearsH yearsF
    obs hist fut hO hH hF

open Model.Isimip in
/-- **C04, ISIMIP, month mode** -/
theorem regenApplyLocation_ISIMIP_months_affine {Fam : LocScaleFam} (Lw : LocScaleLaws Fam) (scaleAt : Rat → List Rat → Rat)
    {c : Cfg} (u : Lemmas.C04.Unbounded c) (htm : c.trendMethod = .additive) (hsc : c.scaleByAnnualCycle = false)
    (orc : List Nat → Oracles) (drw : List Nat → Draws) {a : Rat} (ha : 0 < a) (b : Rat) (L S : Int)
    (mO mH mF doyO doyH doyF yearsO yearsH yearsF : List Int) (obs hist fut : List Rat)
    (hO : obs.length = yearsO.length) (hH : hist.length = yearsH.length) (hF : fut.length = yearsF.length) :
    regenApplyLocation_ISIMIP_months c (IsiFamily.ofLocScale Fam scaleAt) orc drw L S mO mH mF doyO doyH doyF yearsO yearsH
        yearsF (affine a b obs) (affine a b hist) (affine a b fut)
      = (regenApplyLocation_ISIMIP_months c (IsiFamily.ofLocScale Fam scaleAt) orc drw L S mO mH mF doyO doyH doyF yearsO
          yearsH yearsF obs hist fut).map (affineBuf a b) := by
  rw [regenApplyLocation_ISIMIP_months_eq_model, regenApplyLocation_ISIMIP_months_eq_model]
  exact Props.C04.isimip_windowed_affine_months Lw scaleAt u htm hsc orc drw ha b mO mH mF doyO doyH doyF yearsO yearsH
    yearsF obs hist fut hO hH hF

/-! ## 10. One level up: `Debiaser.apply` on a grid, every layer regenerated — C02 cell by cell

  `E : ApplyEnv` = what `apply` is called with after the input check (three arrays of common spatial shape, `failsafe`,
  `parallel` and the completion schedule of the pool, the keyword arguments `E.kw` = the days of year of `time_obs`,
  `time_cm_hist`, `time_cm_future`).  `out` / `out'` = the arrays returned for `cm_future` and `cm_future + c`; at a cell
  `(i, j)` whose `apply_location` returns a full-length series `v` (`hv`, `hl`: no step left unassigned) the output column
  of the second run is the column of the first plus `c` (`valMap`: a failsafe NaN stays NaN).  The guards on the dates
  are those of the location-level theorem. -/

section GridCorollaries
open Model.Grid Model.GridLoops Lemmas.GenGridLoops Lemmas.C02

abbrev TimeKw := List Int × List Int × List Int

/-- `regenApply_shift` for a location function `locOf apl` from the buffer law of `apl` at the cell -/
theorem regenApply_shift_of
    (apl : List Int → List Int → List Int → List Rat → List Rat → List Rat → Except String (List (Option Rat)))
    (E : ApplyEnv TimeKw Rat String) (c : Rat) (nx ny : Nat)
    (hs : ∀ s, E.spatial s = (nx, ny)) (hm : ModeOk (modeOf E) nx ny) (out out' : Arr3 (Elem Rat))
    (h : regenApply (locOf apl) E = .ok out) (h' : regenApply (locOf apl) (withFut E (fun x => x + c)) = .ok out')
    (i j : Nat) (hi : i < nx) (hj : j < ny) (v : List Rat)
    (hv : locOf apl E.kw (slice (E.arr .obs) i j) (slice (E.arr .hist) i j) (slice (E.arr .fut) i j) = .ok v)
    (hl : v.length = (E.arr .fut).length)
    (hapl : apl E.kw.1 E.kw.2.1 E.kw.2.2 (slice (E.arr .obs) i j) (slice (E.arr .hist) i j)
        ((slice (E.arr .fut) i j).map (fun x => x + c))
      = (apl E.kw.1 E.kw.2.1 E.kw.2.2 (slice (E.arr .obs) i j) (slice (E.arr .hist) i j) (slice (E.arr .fut) i j)).map
          (List.map (Option.map (fun x => x + c)))) :
    slice out' i j = (slice out i j).map (Option.map (Props.C02.valMap (fun x => x + c))) :=
  regenApply_shift _ E c nx ny hs hm out out' h h' i j hi hj v hv hl (locOf_shift apl E.kw c _ _ _ hapl)

/-- `DeltaChange(...).apply(...)`, every layer regenerated (the output has the time axis of `obs`) -/
def regenApply_DC (dt : String) (L S : Int) (E : ApplyEnv TimeKw Rat String) :=
  regenApplyDC (locOf (regenApplyLocation_DC dt L S)) E

/-- **C02, DeltaChange additive, on the grid** -/
theorem regenApply_DC_shift (L S : Int) (E : ApplyEnv TimeKw Rat String) (c : Rat) (nx ny : Nat)
    (hs : ∀ s, E.spatial s = (nx, ny)) (hm : ModeOk (modeOf E) nx ny) (out out' : Arr3 (Elem Rat))
    (h : regenApply_DC "additive" L S E = .ok out)
    (h' : regenApply_DC "additive" L S (withFut E (fun x => x + c)) = .ok out')
    (i j : Nat) (hi : i < nx) (hj : j < ny)
    (hne : ∀ ctr ∈ useCenters S E.kw.1, take (slice (E.arr .fut) i j) (idxWindow L E.kw.2.2 ctr) ≠ [])
    (v : List Rat)
    (hv : locOf (regenApplyLocation_DC "additive" L S) E.kw (slice (E.arr .obs) i j) (slice (E.arr .hist) i j)
      (slice (E.arr .fut) i j) = .ok v)
    (hl : v.length = (E.arr .obs).length) :
    slice out' i j = (slice out i j).map (Option.map (Props.C02.valMap (fun x => x + c))) := by
  unfold regenApply_DC at h h'
  rw [regenApplyDC_eq_model _ E nx ny hs] at h
  rw [regenApplyDC_eq_model _ (withFut E (fun x => x + c)) nx ny hs] at h'
  refine Props.C02.grid_equivariant_DC _ (fun x => x + c) (fun x => x + c) E.failsafe (E.arr .obs) (E.arr .hist) (E.arr .fut)
    nx ny (modeOf E) hm out out' h h' i j hi hj v hv hl ?_
  rw [locOf_shift _ E.kw c _ _ _ (regenApplyLocation_DC_shift c L S _ _ _ _ _ _ hne), hv]
  rfl

variable {P : Type}

def regenApply_ECDFM (env : Env P) (L S : Int) (E : ApplyEnv TimeKw Rat String) :=
  regenApply (locOf (regenApplyLocation_ECDFM env L S)) E

/-- **C02, ECDFM, on the grid** -/
theorem regenApply_ECDFM_shift (env : Env (Rat × Rat)) (Fam : LocScaleFam) (hfam : env.fam = Fam.toFamily)
    (hL : LocScaleLaws Fam) (L S : Int) (E : ApplyEnv TimeKw Rat String) (c : Rat) (nx ny : Nat)
    (hs : ∀ s, E.spatial s = (nx, ny)) (hm : ModeOk (modeOf E) nx ny) (out out' : Arr3 (Elem Rat))
    (h : regenApply_ECDFM env L S E = .ok out) (h' : regenApply_ECDFM env L S (withFut E (fun x => x + c)) = .ok out')
    (hS : 0 < S) (hSL : S ≤ L) (hr : ∀ d ∈ E.kw.2.2, 1 ≤ d ∧ d ≤ 366)
    (i j : Nat) (hi : i < nx) (hj : j < ny) (hlen : E.kw.2.2.length = (slice (E.arr .fut) i j).length) (v : List Rat)
    (hv : locOf (regenApplyLocation_ECDFM env L S) E.kw (slice (E.arr .obs) i j) (slice (E.arr .hist) i j)
      (slice (E.arr .fut) i j) = .ok v)
    (hl : v.length = (E.arr .fut).length) :
    slice out' i j = (slice out i j).map (Option.map (Props.C02.valMap (fun x => x + c))) :=
  regenApply_shift_of _ E c nx ny hs hm out out' h h' i j hi hj v hv hl
    (regenApplyLocation_ECDFM_shift env Fam hfam hL c L S _ _ _ _ _ _ hS hSL hlen hr)

def regenApply_QM (env : Env P) (L S : Int) (E : ApplyEnv TimeKw Rat String) :=
  regenApply (locOf (regenApplyLocation_QM env L S)) E

/-- **C02, QuantileMapping with additive detrending, on the grid** -/
theorem regenApply_QM_shift (env : Env P) (hd : env.str "detrending" = "additive")
    (hmt : env.str "mapping_type" = "parametric" ∨ env.str "mapping_type" = "nonparametric")
    (L S : Int) (E : ApplyEnv TimeKw Rat String) (c : Rat) (nx ny : Nat)
    (hs : ∀ s, E.spatial s = (nx, ny)) (hm : ModeOk (modeOf E) nx ny) (out out' : Arr3 (Elem Rat))
    (h : regenApply_QM env L S E = .ok out) (h' : regenApply_QM env L S (withFut E (fun x => x + c)) = .ok out')
    (hS : 0 < S) (hSL : S ≤ L) (hr : ∀ d ∈ E.kw.2.2, 1 ≤ d ∧ d ≤ 366)
    (i j : Nat) (hi : i < nx) (hj : j < ny) (hlen : E.kw.2.2.length = (slice (E.arr .fut) i j).length) (v : List Rat)
    (hv : locOf (regenApplyLocation_QM env L S) E.kw (slice (E.arr .obs) i j) (slice (E.arr .hist) i j)
      (slice (E.arr .fut) i j) = .ok v)
    (hl : v.length = (E.arr .fut).length) :
    slice out' i j = (slice out i j).map (Option.map (Props.C02.valMap (fun x => x + c))) :=
  regenApply_shift_of _ E c nx ny hs hm out out' h h' i j hi hj v hv hl
    (regenApplyLocation_QM_shift env hd hmt c L S _ _ _ _ _ _ hS hSL hlen hr)

def regenApply_SDM (env : Env (Rat × Rat)) (L S : Int) (E : ApplyEnv TimeKw Rat String) :=
  regenApply (locOf (regenApplyLocation_SDM env L S)) E

/-- **C02, SDM absolute, on the grid** -/
theorem regenApply_SDM_shift (env : Env (Rat × Rat)) (Fam : LocScaleFam) (hfam : env.fam = Fam.toFamily)
    (hidx : env.parIdx = Model.NpDeb.locScaleIdx) (L S : Int) (E : ApplyEnv TimeKw Rat String) (c : Rat) (nx ny : Nat)
    (hs : ∀ s, E.spatial s = (nx, ny)) (hm : ModeOk (modeOf E) nx ny) (out out' : Arr3 (Elem Rat))
    (h : regenApply_SDM env L S E = .ok out) (h' : regenApply_SDM env L S (withFut E (fun x => x + c)) = .ok out')
    (hS : 0 < S) (hSL : S ≤ L) (hr : ∀ d ∈ E.kw.2.2, 1 ≤ d ∧ d ≤ 366)
    (i j : Nat) (hi : i < nx) (hj : j < ny) (hlen : E.kw.2.2.length = (slice (E.arr .fut) i j).length) (v : List Rat)
    (hv : locOf (regenApplyLocation_SDM env L S) E.kw (slice (E.arr .obs) i j) (slice (E.arr .hist) i j)
      (slice (E.arr .fut) i j) = .ok v)
    (hl : v.length = (E.arr .fut).length) :
    slice out' i j = (slice out i j).map (Option.map (Props.C02.valMap (fun x => x + c))) :=
  regenApply_shift_of _ E c nx ny hs hm out out' h h' i j hi hj v hv hl
    (regenApplyLocation_SDM_shift env Fam hfam hidx c L S _ _ _ _ _ _ hS hSL hlen hr)

/-- CDFt in its default configuration (year windows inside the seasonal windows; `yearsF` = the years of `time_cm_future`) -/
def regenApply_CDFt (env : Env P) (drw : List Nat → List Rat) (Ly Sy : Int) (yearsF : List Int) (L S : Int)
    (E : ApplyEnv TimeKw Rat String) :=
  regenApply (locOf (regenApplyLocation_CDFt_years env drw Ly Sy yearsF L S)) E

/-- **C02, CDFt (default configuration), on the grid** -/
theorem regenApply_CDFt_shift (env : Env P) (d : DeltaShift) (hd : d = .additive ∨ d = .no_shift)
    (em : EcdfMethod) (im : IecdfMethod) (hE : CdftEnvOk env false d em im) (drw : List Nat → List Rat)
    (Ly Sy : Int) (yearsF : List Int) (L S : Int) (E : ApplyEnv TimeKw Rat String) (c : Rat) (nx ny : Nat)
    (hs : ∀ s, E.spatial s = (nx, ny)) (hm : ModeOk (modeOf E) nx ny) (out out' : Arr3 (Elem Rat))
    (h : regenApply_CDFt env drw Ly Sy yearsF L S E = .ok out)
    (h' : regenApply_CDFt env drw Ly Sy yearsF L S (withFut E (fun x => x + c)) = .ok out')
    (i j : Nat) (hi : i < nx) (hj : j < ny) (hleny : yearsF.length = (slice (E.arr .fut) i j).length)
    (hH : ∀ ctr ∈ useCenters S E.kw.2.2, take (slice (E.arr .hist) i j) (idxWindow L E.kw.2.1 ctr) ≠ [])
    (v : List Rat)
    (hv : locOf (regenApplyLocation_CDFt_years env drw Ly Sy yearsF L S) E.kw (slice (E.arr .obs) i j)
      (slice (E.arr .hist) i j) (slice (E.arr .fut) i j) = .ok v)
    (hl : v.length = (E.arr .fut).length) :
    slice out' i j = (slice out i j).map (Option.map (Props.C02.valMap (fun x => x + c))) :=
  regenApply_shift_of _ E c nx ny hs hm out out' h h' i j hi hj v hv hl
    (regenApplyLocation_CDFt_years_shift env d hd em im hE drw Ly Sy yearsF c L S _ _ _ _ _ _ hleny hH)

/-- QDM in its default configuration -/
def regenApply_QDM (env : Env P) (Ly Sy : Int) (yearsF : List Int) (L S : Int) (E : ApplyEnv TimeKw Rat String) :=
  regenApply (locOf (regenApplyLocation_QDM_years env Ly Sy yearsF L S)) E

/-- **C02, QDM absolute (default configuration), on the grid** -/
theorem regenApply_QDM_shift (env : Env P) (em : EcdfMethod)
    (hE : Lemmas.GenDebWin.qdmEnvOk env .absolute none) (he : env.ecdfM "ecdf_method" = ecdf1 em)
    (Ly Sy : Int) (yearsF : List Int) (L S : Int) (E : ApplyEnv TimeKw Rat String) (c : Rat) (nx ny : Nat)
    (hs : ∀ s, E.spatial s = (nx, ny)) (hm : ModeOk (modeOf E) nx ny) (out out' : Arr3 (Elem Rat))
    (h : regenApply_QDM env Ly Sy yearsF L S E = .ok out)
    (h' : regenApply_QDM env Ly Sy yearsF L S (withFut E (fun x => x + c)) = .ok out')
    (i j : Nat) (hi : i < nx) (hj : j < ny) (hleny : yearsF.length = (slice (E.arr .fut) i j).length) (v : List Rat)
    (hv : locOf (regenApplyLocation_QDM_years env Ly Sy yearsF L S) E.kw (slice (E.arr .obs) i j)
      (slice (E.arr .hist) i j) (slice (E.arr .fut) i j) = .ok v)
    (hl : v.length = (E.arr .fut).length) :
    slice out' i j = (slice out i j).map (Option.map (Props.C02.valMap (fun x => x + c))) :=
  regenApply_shift_of _ E c nx ny hs hm out out' h h' i j hi hj v hv hl
    (regenApplyLocation_QDM_years_shift env em hE he Ly Sy yearsF c L S _ _ _ _ _ _ hleny)

open Model.Isimip in
/-- ISIMIP, running-window mode (`yearsO yearsH yearsF` = the years of the three time axes) -/
def regenApply_ISIMIP (cfg : Cfg) (fam : IsiFamily) (orc : List Nat → Oracles) (drw : List Nat → Draws)
    (yearsO yearsH yearsF : List Int) (L S : Int) (E : ApplyEnv TimeKw Rat String) :=
  regenApply (locOf (fun dO dH dF => regenApplyLocation_ISIMIP cfg fam orc drw L S dO dH dF yearsO yearsH yearsF)) E

open Model.Isimip in
/-- **C02, ISIMIP additive / unbounded, on the grid** -/
theorem regenApply_ISIMIP_shift (cfg : Cfg) (hU : Lemmas.C02.Unbounded cfg) (ht : cfg.trendMethod = .additive)
    (hcyc : cfg.scaleByAnnualCycle = false)
    (fam : IsiFamily) (hL : Lemmas.C02.IsiShiftLaws fam) (orc : List Nat → Oracles) (drw : List Nat → Draws)
    (yearsO yearsH yearsF : List Int) (L S : Int) (E : ApplyEnv TimeKw Rat String) (c : Rat) (nx ny : Nat)
    (hs : ∀ s, E.spatial s = (nx, ny)) (hm : ModeOk (modeOf E) nx ny) (out out' : Arr3 (Elem Rat))
    (h : regenApply_ISIMIP cfg fam orc drw yearsO yearsH yearsF L S E = .ok out)
    (h' : regenApply_ISIMIP cfg fam orc drw yearsO yearsH yearsF L S (withFut E (fun x => x + c)) = .ok out')
    (hS : 0 < S) (hSL : S ≤ L) (hr : ∀ d ∈ E.kw.2.2, 1 ≤ d ∧ d ≤ 366)
    (i j : Nat) (hi : i < nx) (hj : j < ny)
    (hlO : E.kw.1.length = (slice (E.arr .obs) i j).length) (hlH : E.kw.2.1.length = (slice (E.arr .hist) i j).length)
    (hlF : E.kw.2.2.length = (slice (E.arr .fut) i j).length)
    (hyO : (slice (E.arr .obs) i j).length = yearsO.length) (hyH : (slice (E.arr .hist) i j).length = yearsH.length)
    (hyF : (slice (E.arr .fut) i j).length = yearsF.length)
    (hO : ∀ ctr ∈ useCenters S E.kw.2.2, take (slice (E.arr .obs) i j) (idxWindow L E.kw.1 ctr) ≠ [])
    (hH : ∀ ctr ∈ useCenters S E.kw.2.2, take (slice (E.arr .hist) i j) (idxWindow L E.kw.2.1 ctr) ≠ [])
    (v : List Rat)
    (hv : locOf (fun dO dH dF => regenApplyLocation_ISIMIP cfg fam orc drw L S dO dH dF yearsO yearsH yearsF) E.kw
      (slice (E.arr .obs) i j) (slice (E.arr .hist) i j) (slice (E.arr .fut) i j) = .ok v)
    (hl : v.length = (E.arr .fut).length) :
    slice out' i j = (slice out i j).map (Option.map (Props.C02.valMap (fun x => x + c))) :=
  regenApply_shift_of _ E c nx ny hs hm out out' h h' i j hi hj v hv hl
    (regenApplyLocation_ISIMIP_shift cfg hU ht hcyc fam hL orc drw c L S _ _ _ yearsO yearsH yearsF _ _ _ hS hSL hr
      hlO hlH hlF hyO hyH hyF hO hH)

end GridCorollaries

/-! ## 11. Non-vacuity: the regenerated composition runs, and the guards are satisfiable (concrete instances, by evaluation) -/

namespace Demo
open Model.NpDeb

/-- settings of a demo instance over the rational test-double family `ratSigmoid` -/
def env : Env (Rat × Rat) :=
  { args := [],
    str := fun s => if s = "detrending" then "additive" else if s = "mapping_type" then "parametric"
      else if s = "delta_shift" then "additive" else if s = "trend_preservation" then "absolute" else "",
    num := fun _ => 1 / 16, flag := fun _ => false, ecdfM := fun _ => ecdf1 .step, iecdfM := fun _ => iecdf1 .inverted_cdf,
    fam := ratSigmoid.toFamily, parIdx := locScaleIdx, draws := fun _ => [] }

def days : List Int := [1, 2, 3, 4, 5, 6]
def obs : List Rat := [1, 2, 6, 3, 5, 4]
def hist : List Rat := [2, 4, 9, 1, 7, 3]
def fut : List Rat := [5, 7, 40, 2, 8, 9]

-- the composition of the regenerated loop and the regenerated kernel computes LinearScaling on six days (every step written)
example : regenApplyLocation_LS "additive" 3 1 days days days obs hist fut
    = .ok [some (7 / 2), some 5, some 39, some 1, some (25 / 3), some (17 / 2)] := by decide +kernel

-- C02 on it: the hypotheses of `regenApplyLocation_LS_shift` hold for this instance
example : regenApplyLocation_LS "additive" 3 1 days days days obs hist (fut.map (fun v => v + 3))
    = (regenApplyLocation_LS "additive" 3 1 days days days obs hist fut).map (List.map (Option.map (fun v => v + 3))) :=
  regenApplyLocation_LS_shift 3 3 1 days days days _ _ _ (by decide) (by decide) (by decide) (by decide)

-- C03 on it (`cm_hist = obs`)
example : regenApplyLocation_LS "additive" 3 1 days days days obs obs fut = .ok (fut.map some) :=
  regenApplyLocation_LS_fixed_point 3 1 0 days days obs fut (by decide) (by decide) (by decide) (by decide) (by decide)
    (by decide +kernel)

-- C04 on it (K → °F): the guard of `regenApplyLocation_LS_affine` holds on every window
example : regenApplyLocation_LS "additive" 3 1 days days days (affine (9 / 5) 32 obs) (affine (9 / 5) 32 hist) (affine (9 / 5) 32 fut)
    = (regenApplyLocation_LS "additive" 3 1 days days days obs hist fut).map (affineBuf (9 / 5) 32) :=
  regenApplyLocation_LS_affine _ _ 3 1 days days days obs hist fut (by decide +kernel)

-- regenerated loop ∘ regenerated ECDFM program, and the guard `scalesOk` of the C04 statement on every window
example : (regenApplyLocation_ECDFM env 3 1 days days days obs hist fut).toOption.map (fun l => l.all (·.isSome)) = some true := by
  decide +kernel
example : ∀ c ∈ useCenters 1 days, scalesOk ratSigmoid [take obs (idxWindow 3 days c), take hist (idxWindow 3 days c),
    take fut (idxWindow 3 days c)] := by decide +kernel

-- three regenerated pieces (seasonal loop ∘ year loop ∘ QDM steps behind the fits): all six steps written
example : (regenApplyLocation_QDM_years env 3 1 [2001, 2001, 2002, 2002, 2003, 2003] 3 3 [2, 2, 2, 2, 2, 2] [2, 2, 2, 2, 2, 2]
    [2, 2, 2, 2, 2, 2] obs hist fut).toOption.map (fun l => l.all (·.isSome)) = some true := by decide +kernel

/-- a 1 × 2 grid with three time steps, run by the pool with completion order `[1, 0]` -/
def grid : Model.GridLoops.ApplyEnv TimeKw Rat String :=
  { loc := fun _ _ _ _ => .ok [], kw := ([1, 2, 3], [1, 2, 3], [1, 2, 3]), noKw := ([], [], []), isa := fun _ _ => true,
    failsafe := false, parallel := true, sched := [1, 0],
    arr := fun s => match s with
      | .obs => [[[1, 10]], [[2, 30]], [[6, 20]]]
      | .hist => [[[2, 11]], [[4, 33]], [[9, 25]]]
      | .fut => [[[5, 12]], [[7, 31]], [[40, 28]]],
    spatial := fun _ => (1, 2) }

-- `apply` → `parallel_map_over_locations` → catch wrapper → `apply_location` → `apply_on_window`, all regenerated
example : regenApply_LS "additive" 3 1 grid
    = .ok [[[some (.val (7 / 2)), some (.val 10)]], [[some (.val 5), some (.val 28)]],
           [[some (.val (75 / 2)), some (.val 24)]]] := by decide +kernel

end Demo

end Props.Capstone
