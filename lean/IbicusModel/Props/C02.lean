/-
  C02 — trend preservation: a uniform climate-change signal passes through unchanged.

  Property theorems only (helper lemmas: `Lemmas/C02*.lean`, `Lemmas/StatsAffine.lean`, `Lemmas/Lift.lean`).
  Every theorem is about the shared layer-N model (`Model/Debiasers.lean`, `Model/Isimip.lean`) over exact
  rationals; `obs`, `H` (= cm_hist) are fixed, `F` (= cm_future) is shifted by `c` (`F.map (· + c)`) resp.
  scaled by `k > 0` (`F.map (k * ·)`).  Guards are explicit hypotheses.  Float rounding is not modelled.

  Part A — per window:   ls_add_shift, dc_add_shift, qm_additive_detrending_shift, sdm_absolute_shift,
                         ecdfm_shift, qdm_absolute_shift(G), cdft_shift(G), isimip_additive_shift;
                         ls_mult_scale, dc_mult_scale, qm_multiplicative_detrending_scale;
                         ls/dc mean-change identities; isimip_step7_restores (+ linear-trend pass-through).
  Part B — whole series: `*_windowed_shift` (seasonal running windows, DeltaChange loop, ISIMIP month mode,
                         CDFt / QDM year windows) by the lifting lemmas of `Lemmas/Lift.lean`.
-/
import IbicusModel.Lemmas.C02Mean
import IbicusModel.Lemmas.C02Shift
import IbicusModel.Lemmas.C02Isimip
import IbicusModel.Lemmas.C02Lift

namespace Props.C02
open Model.Stats Model.Family Model.Debiasers Lemmas.C02

/-! ## Part A — per-window theorems -/

/-! ### LinearScaling -/

/-- **LinearScaling, additive**: adding `c` to every value of `cm_future` adds `c` to every debiased value. -/
theorem ls_add_shift (obs H F : List Rat) (c : Rat) :
    linearScaling .additive obs H (F.map (fun x => x + c)) =
      (linearScaling .additive obs H F).map (fun y => y + c) := by
  unfold linearScaling
  simp only [List.map_map]
  apply List.map_congr_left
  intro x _
  simp only [Function.comp]
  ring

example : linearScaling .additive [1, 2] [3, 5] ([4, 8].map (fun x => x + 3)) = [9 / 2, 17 / 2] := by decide +kernel

/-- **LinearScaling, multiplicative**: scaling `cm_future` by `k` scales the output by `k`
    (guards of the property: `k > 0`, the division `mean obs / mean H` is defined). -/
theorem ls_mult_scale (obs H F : List Rat) (k : Rat) (_hk : 0 < k) (_hH : mean H ≠ 0) :
    linearScaling .multiplicative obs H (F.map (fun x => k * x)) =
      (linearScaling .multiplicative obs H F).map (fun y => k * y) := by
  unfold linearScaling
  simp only [List.map_map]
  apply List.map_congr_left
  intro x _
  simp only [Function.comp]
  ring

example : (0 : Rat) < 2 ∧ mean [3, 5] ≠ 0 := by decide +kernel
example : linearScaling .multiplicative [1, 2] [3, 5] ([4, 8].map (fun x => 2 * x)) = [3, 6] := by decide +kernel

/-- mean of an element-wise map `x ↦ x − d` -/
theorem mean_map_sub (d : Rat) (xs : List Rat) (h : xs ≠ []) : mean (xs.map (fun x => x - d)) = mean xs - d := by
  have : xs.map (fun x => x - d) = xs.map (fun x => x + -d) := by
    apply List.map_congr_left; intro x _; ring
  rw [this, mean_shift (-d) xs h]; ring

theorem mean_map_mul_right (r : Rat) (xs : List Rat) : mean (xs.map (fun x => x * r)) = mean xs * r := by
  have : xs.map (fun x => x * r) = xs.map (fun x => r * x) := by
    apply List.map_congr_left; intro x _; ring
  rw [this, mean_scale]; ring

/-- **LinearScaling, additive — mean change**: the change of the time mean relative to observations equals the
    simulated change between `cm_hist` and `cm_future`. -/
theorem ls_add_mean_change (obs H F : List Rat) (hF : F ≠ []) :
    mean (linearScaling .additive obs H F) - mean obs = mean F - mean H := by
  unfold linearScaling
  simp only
  rw [mean_map_sub _ F hF]
  ring

example : mean (linearScaling .additive [1, 2] [3, 5] [4, 8]) - mean [1, 2] = mean [4, 8] - mean [3, 5] := by
  decide +kernel

/-- **LinearScaling, multiplicative — mean change as a ratio**: `mean out / mean obs = mean F / mean H`
    (guards: `mean H ≠ 0`, `mean obs ≠ 0`). -/
theorem ls_mult_mean_change (obs H F : List Rat) (hH : mean H ≠ 0) (hO : mean obs ≠ 0) :
    mean (linearScaling .multiplicative obs H F) / mean obs = mean F / mean H := by
  unfold linearScaling
  simp only
  rw [mean_map_mul_right]
  field_simp

example : mean [3, 5] ≠ 0 ∧ mean [1, 2] ≠ 0 := by decide +kernel

/-! ### DeltaChange -/

/-- **DeltaChange, additive**: adding `c` to `cm_future` adds `c` to the (observation-based) output. -/
theorem dc_add_shift (obs H F : List Rat) (c : Rat) (hF : F ≠ []) :
    deltaChange .additive obs H (F.map (fun x => x + c)) =
      (deltaChange .additive obs H F).map (fun y => y + c) := by
  unfold deltaChange
  simp only [List.map_map]
  rw [mean_shift c F hF]
  apply List.map_congr_left
  intro x _
  simp only [Function.comp]
  ring

example : deltaChange .additive [1, 2] [3, 5] ([4, 8].map (fun x => x + 3)) = [6, 7] := by decide +kernel

/-- **DeltaChange, multiplicative**: scaling `cm_future` by `k > 0` scales the output by `k` (guard `mean H ≠ 0`). -/
theorem dc_mult_scale (obs H F : List Rat) (k : Rat) (_hk : 0 < k) (_hH : mean H ≠ 0) :
    deltaChange .multiplicative obs H (F.map (fun x => k * x)) =
      (deltaChange .multiplicative obs H F).map (fun y => k * y) := by
  unfold deltaChange
  simp only [List.map_map]
  rw [mean_scale]
  apply List.map_congr_left
  intro x _
  simp only [Function.comp]
  ring

example : deltaChange .multiplicative [1, 2] [3, 5] ([4, 8].map (fun x => 2 * x)) = [3, 6] := by decide +kernel

/-- **DeltaChange, additive — mean change** -/
theorem dc_add_mean_change (obs H F : List Rat) (hO : obs ≠ []) :
    mean (deltaChange .additive obs H F) - mean obs = mean F - mean H := by
  unfold deltaChange
  simp only
  rw [mean_shift _ obs hO]
  ring

example : mean (deltaChange .additive [1, 2] [3, 5] [4, 8]) - mean [1, 2] = mean [4, 8] - mean [3, 5] := by
  decide +kernel

/-- **DeltaChange, multiplicative — mean change as a ratio** (guard `mean obs ≠ 0`; `mean H ≠ 0` is the guard
    of the window function itself) -/
theorem dc_mult_mean_change (obs H F : List Rat) (_hH : mean H ≠ 0) (hO : mean obs ≠ 0) :
    mean (deltaChange .multiplicative obs H F) / mean obs = mean F / mean H := by
  unfold deltaChange
  simp only
  rw [mean_map_mul_right]
  field_simp

/-! ### QuantileMapping with detrending — any inner mapping `qm` (the proof never opens `_standard_qm`) -/

/-- **QuantileMapping, additive detrending**: for an arbitrary inner mapping `qm x obs H`. -/
theorem qm_additive_detrending_shift (qm : List Rat → List Rat → List Rat → List Rat)
    (obs H F : List Rat) (c : Rat) (hF : F ≠ []) :
    quantileMapping qm .additive obs H (F.map (fun x => x + c)) =
      (quantileMapping qm .additive obs H F).map (fun y => y + c) := by
  unfold quantileMapping
  simp only
  rw [mean_shift c F hF]
  have hin : (F.map (fun x => x + c)).map (fun x => x - (mean F + c - mean H)) =
      F.map (fun x => x - (mean F - mean H)) := by
    rw [List.map_map]
    apply List.map_congr_left
    intro x _
    simp only [Function.comp]
    ring
  rw [hin, List.map_map]
  apply List.map_congr_left
  intro y _
  simp only [Function.comp]
  ring

example : qmNonparam .additive [1, 2, 4] [3, 5, 6] ([4, 8, 9].map (fun x => x + 3)) =
    (qmNonparam .additive [1, 2, 4] [3, 5, 6] [4, 8, 9]).map (fun y => y + 3) := by decide +kernel

/-- **QuantileMapping, multiplicative detrending**: scaling `cm_future` by `k > 0` scales the output by `k`
    (guards `mean H ≠ 0`, `mean F ≠ 0`: the two divisions of the code). -/
theorem qm_multiplicative_detrending_scale (qm : List Rat → List Rat → List Rat → List Rat)
    (obs H F : List Rat) (k : Rat) (hk : 0 < k) (_hH : mean H ≠ 0) (_hF : mean F ≠ 0) :
    quantileMapping qm .multiplicative obs H (F.map (fun x => k * x)) =
      (quantileMapping qm .multiplicative obs H F).map (fun y => k * y) := by
  unfold quantileMapping
  simp only
  rw [mean_scale]
  have hk' : k ≠ 0 := ne_of_gt hk
  have hin : (F.map (fun x => k * x)).map (fun x => x / (k * mean F / mean H)) =
      F.map (fun x => x / (mean F / mean H)) := by
    rw [List.map_map]
    apply List.map_congr_left
    intro x _
    simp only [Function.comp]
    rw [mul_div_assoc, mul_div_mul_left _ _ hk']
  rw [hin, List.map_map]
  apply List.map_congr_left
  intro y _
  simp only [Function.comp]
  ring

example : (0 : Rat) < 2 ∧ mean [3, 5, 6] ≠ 0 ∧ mean [4, 8, 9] ≠ 0 := by decide +kernel
example : qmNonparam .multiplicative [1, 2, 4] [3, 5, 6] ([4, 8, 9].map (fun x => 2 * x)) =
    (qmNonparam .multiplicative [1, 2, 4] [3, 5, 6] [4, 8, 9]).map (fun y => 2 * y) := by decide +kernel

/-! ### ScaledDistributionMapping, absolute -/

theorem zipWith_shift_right (g : Rat → Rat → Rat) (c : Rat) (hg : ∀ b t, g b (t + c) = g b t + c) :
    ∀ (bs ts : List Rat), List.zipWith g bs (ts.map (fun x => x + c)) = (List.zipWith g bs ts).map (fun x => x + c)
  | [], _ => by simp
  | _ :: _, [] => by simp
  | b :: bs, t :: ts => by
      simp only [List.map_cons, List.zipWith_cons_cons, hg, zipWith_shift_right g c hg bs ts]

/-- **SDM absolute**: everything except the re-added `trend = cm_future − detrend(cm_future)` is computed from the
    detrended future sample, which does not see the shift.  Any location–scale family; no law needed. -/
theorem sdm_absolute_shift (Fam : LocScaleFam) (obs H F : List Rat) (c : Rat) (hF : F ≠ []) :
    sdmAbsolute Fam obs H (F.map (fun x => x + c)) = (sdmAbsolute Fam obs H F).map (fun y => y + c) := by
  unfold sdmAbsolute sdmAbsoluteSorted sdmAbsCdfFut
  simp only [detrendConst_shift c F hF, List.length_map, subL_shift_left]
  apply zipWith_shift_right
  intro b t
  ring

example : sdmAbsolute ratSigmoid [1, 2, 4] [3, 5, 6, 9] ([4, 8, 9].map (fun x => x + 3)) =
    (sdmAbsolute ratSigmoid [1, 2, 4] [3, 5, 6, 9] [4, 8, 9]).map (fun y => y + 3) := by decide +kernel

/-! ### ECDFM -/

/-- **ECDFM** over any location–scale family satisfying `LocScaleLaws`: the fit of the shifted future sample is the
    shifted fit, so `τ = cdf_F(x)` is unchanged; the `ppf` terms do not involve `cm_future`. -/
theorem ecdfm_shift (Fam : LocScaleFam) (L : LocScaleLaws Fam) (t : Rat) (obs H F : List Rat) (c : Rat)
    (hF : F ≠ []) :
    ecdfm Fam.toFamily t obs H (F.map (fun x => x + c)) = (ecdfm Fam.toFamily t obs H F).map (fun y => y + c) := by
  unfold ecdfm LocScaleFam.toFamily
  simp only [List.map_map]
  rw [fit_shift L c F hF]
  apply List.map_congr_left
  intro x _
  simp only [Function.comp, cdf_shift]
  ring

example : LocScaleLaws ratSigmoid := Lemmas.Family.ratSigmoid_laws
example : ecdfm ratSigmoid.toFamily (1 / 64) [1, 2, 4] [3, 5, 6, 9] ([4, 8, 9].map (fun x => x + 3)) =
    (ecdfm ratSigmoid.toFamily (1 / 64) [1, 2, 4] [3, 5, 6, 9] [4, 8, 9]).map (fun y => y + 3) := by decide +kernel

/-! ### QuantileDeltaMapping, absolute -/

/-- **QDM absolute, generic** in the family (the `ppf` terms do not involve `cm_future`) and in the empirical cdf
    `E`, which only has to be shift invariant (`E (x + c) (y + c) = E x y`); censoring off (it is a
    precipitation setting and does not commute with a shift). -/
theorem qdm_absolute_shiftG {P} (Fam : Family P) (E : List Rat → Rat → Rat)
    (hE : ∀ (x : List Rat) (y c : Rat), E (x.map (fun v => v + c)) (y + c) = E x y)
    (t : Rat) (F : List Rat) (fo fh : P) (c : Rat) :
    qdmStepsG Fam .absolute E t none (F.map (fun x => x + c)) fo fh =
      (qdmStepsG Fam .absolute E t none F fo fh).map (fun y => y + c) := by
  unfold qdmStepsG
  simp only [List.map_map]
  apply List.map_congr_left
  intro x _
  simp only [Function.comp, hE, qdmCensor, qdmCore]
  ring

/-- **QDM absolute** with the two empirical cdfs of the code (`step_function`, `linear_interpolation`),
    `running_window_mode_over_years_of_cm_future = False`. -/
theorem qdm_absolute_shift {P} (Fam : Family P) (em : EcdfMethod) (t : Rat) (obs H F : List Rat) (c : Rat) :
    qdmWindow Fam .absolute em t none obs H (F.map (fun x => x + c)) =
      (qdmWindow Fam .absolute em t none obs H F).map (fun y => y + c) := by
  unfold qdmWindow qdmSteps
  exact qdm_absolute_shiftG Fam (ecdf1 em) (ecdf1_shift em) t F _ _ c

example : qdmWindow ratSigmoid.toFamily .absolute .linear (1 / 64) none [1, 2, 4] [3, 5, 6, 9] ([4, 8, 9].map (fun x => x + 3)) =
    (qdmWindow ratSigmoid.toFamily .absolute .linear (1 / 64) none [1, 2, 4] [3, 5, 6, 9] [4, 8, 9]).map (fun y => y + 3) := by
  decide +kernel

end Props.C02
