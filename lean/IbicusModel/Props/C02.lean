/-
  C02 — trend preservation: a uniform climate-change signal passes through unchanged.

  Property theorems only (helper lemmas: `Lemmas/C02*.lean`, `Lemmas/StatsAffine.lean`, `Lemmas/Lift.lean`).
  Every theorem is about the shared layer-N model (`Model/Debiasers.lean`, `Model/Isimip.lean`) over exact
  rationals; `obs`, `H` (= cm_hist) are fixed, `F` (= cm_future) is shifted by `c` (`F.map (· + c)`) resp.
  scaled by `k > 0` (`F.map (k * ·)`).  Guards are explicit hypotheses.  Float rounding is not modelled.

  Part A — per window:   ls_add_shift, dc_add_shift, qm_additive_detrending_shift, sdm_absolute_shift,
                         ecdfm_shift, qdm_absolute_shift(G), cdft_shift(G), isimip_additive_shift;
                         ls_mult_scale, dc_mult_scale, qm_multiplicative_detrending_scale;
                         ls/dc mean-change identities; isimip_step7_restores (+ linear-trend pass-through).
  Part B — whole series: `*_windowed_shift` (seasonal running windows, DeltaChange loop, ISIMIP month mode,
                         CDFt / QDM year windows) by the lifting lemmas of `Lemmas/Lift.lean`.
-/
import IbicusModel.Lemmas.C02Mean
import IbicusModel.Lemmas.C02Shift
import IbicusModel.Lemmas.C02Isimip
import IbicusModel.Lemmas.C02Lift
import IbicusModel.Lemmas.C02Grid
import IbicusModel.Lemmas.C02Order
import IbicusModel.Lemmas.C02Dates
import IbicusModel.Lemmas.C02Pos
import IbicusModel.Lemmas.C02Vars

namespace Props.C02
open Model.Stats Model.Family Model.Debiasers Lemmas.C02

/-! ## Part A — per-window theorems -/

/-! ### LinearScaling -/

/-- **LinearScaling, additive**: adding `c` to every value of `cm_future` adds `c` to every debiased value. -/
theorem ls_add_shift (obs H F : List Rat) (c : Rat) :
    linearScaling .additive obs H (F.map (fun x => x + c)) =
      (linearScaling .additive obs H F).map (fun y => y + c) := by
  unfold linearScaling
  simp only [List.map_map]
  apply List.map_congr_left
  intro x _
  simp only [Function.comp]
  ring

example : linearScaling .additive [1, 2] [3, 5] ([4, 8].map (fun x => x + 3)) = [9 / 2, 17 / 2] := by decide +kernel

/-- **LinearScaling, multiplicative**: scaling `cm_future` by `k` scales the output by `k`
    (guards of the property: `k > 0`, the division `mean obs / mean H` is defined). -/
theorem ls_mult_scale (obs H F : List Rat) (k : Rat) (_hk : 0 < k) (_hH : mean H ≠ 0) :
    linearScaling .multiplicative obs H (F.map (fun x => k * x)) =
      (linearScaling .multiplicative obs H F).map (fun y => k * y) := by
  unfold linearScaling
  simp only [List.map_map]
  apply List.map_congr_left
  intro x _
  simp only [Function.comp]
  ring

example : (0 : Rat) < 2 ∧ mean [3, 5] ≠ 0 := by decide +kernel
example : linearScaling .multiplicative [1, 2] [3, 5] ([4, 8].map (fun x => 2 * x)) = [3, 6] := by decide +kernel

/-- **LinearScaling, additive — mean change**: the change of the time mean relative to observations equals the
    simulated change between `cm_hist` and `cm_future`. -/
theorem ls_add_mean_change (obs H F : List Rat) (hF : F ≠ []) :
    mean (linearScaling .additive obs H F) - mean obs = mean F - mean H := by
  unfold linearScaling
  simp only
  rw [mean_map_sub _ F hF]
  ring

example : mean (linearScaling .additive [1, 2] [3, 5] [4, 8]) - mean [1, 2] = mean [4, 8] - mean [3, 5] := by
  decide +kernel

/-- **LinearScaling, multiplicative — mean change as a ratio**: `mean out / mean obs = mean F / mean H`
    (guards: `mean H ≠ 0`, `mean obs ≠ 0`). -/
theorem ls_mult_mean_change (obs H F : List Rat) (hH : mean H ≠ 0) (hO : mean obs ≠ 0) :
    mean (linearScaling .multiplicative obs H F) / mean obs = mean F / mean H := by
  unfold linearScaling
  simp only
  rw [mean_map_mul_right]
  field_simp

example : mean [3, 5] ≠ 0 ∧ mean [1, 2] ≠ 0 := by decide +kernel

/-! ### DeltaChange -/

/-- **DeltaChange, additive**: adding `c` to `cm_future` adds `c` to the (observation-based) output. -/
theorem dc_add_shift (obs H F : List Rat) (c : Rat) (hF : F ≠ []) :
    deltaChange .additive obs H (F.map (fun x => x + c)) =
      (deltaChange .additive obs H F).map (fun y => y + c) := by
  unfold deltaChange
  simp only [List.map_map]
  rw [mean_shift c F hF]
  apply List.map_congr_left
  intro x _
  simp only [Function.comp]
  ring

example : deltaChange .additive [1, 2] [3, 5] ([4, 8].map (fun x => x + 3)) = [6, 7] := by decide +kernel

/-- **DeltaChange, multiplicative**: scaling `cm_future` by `k > 0` scales the output by `k` (guard `mean H ≠ 0`). -/
theorem dc_mult_scale (obs H F : List Rat) (k : Rat) (_hk : 0 < k) (_hH : mean H ≠ 0) :
    deltaChange .multiplicative obs H (F.map (fun x => k * x)) =
      (deltaChange .multiplicative obs H F).map (fun y => k * y) := by
  unfold deltaChange
  simp only [List.map_map]
  rw [mean_scale]
  apply List.map_congr_left
  intro x _
  simp only [Function.comp]
  ring

example : deltaChange .multiplicative [1, 2] [3, 5] ([4, 8].map (fun x => 2 * x)) = [3, 6] := by decide +kernel

/-- **DeltaChange, additive — mean change** -/
theorem dc_add_mean_change (obs H F : List Rat) (hO : obs ≠ []) :
    mean (deltaChange .additive obs H F) - mean obs = mean F - mean H := by
  unfold deltaChange
  simp only
  rw [mean_shift _ obs hO]
  ring

example : mean (deltaChange .additive [1, 2] [3, 5] [4, 8]) - mean [1, 2] = mean [4, 8] - mean [3, 5] := by
  decide +kernel

/-- **DeltaChange, multiplicative — mean change as a ratio** (guard `mean obs ≠ 0`; `mean H ≠ 0` is the guard
    of the window function itself) -/
theorem dc_mult_mean_change (obs H F : List Rat) (_hH : mean H ≠ 0) (hO : mean obs ≠ 0) :
    mean (deltaChange .multiplicative obs H F) / mean obs = mean F / mean H := by
  unfold deltaChange
  simp only
  rw [mean_map_mul_right]
  field_simp

/-! ### QuantileMapping with detrending — any inner mapping `qm` (the proof never opens `_standard_qm`) -/

/-- **QuantileMapping, additive detrending**: for an arbitrary inner mapping `qm x obs H`. -/
theorem qm_additive_detrending_shift (qm : List Rat → List Rat → List Rat → List Rat)
    (obs H F : List Rat) (c : Rat) (hF : F ≠ []) :
    quantileMapping qm .additive obs H (F.map (fun x => x + c)) =
      (quantileMapping qm .additive obs H F).map (fun y => y + c) := by
  unfold quantileMapping
  simp only
  rw [mean_shift c F hF]
  have hin : (F.map (fun x => x + c)).map (fun x => x - (mean F + c - mean H)) =
      F.map (fun x => x - (mean F - mean H)) := by
    rw [List.map_map]
    apply List.map_congr_left
    intro x _
    simp only [Function.comp]
    ring
  rw [hin, List.map_map]
  apply List.map_congr_left
  intro y _
  simp only [Function.comp]
  ring

example : qmNonparam .additive [1, 2, 4] [3, 5, 6] ([4, 8, 9].map (fun x => x + 3)) =
    (qmNonparam .additive [1, 2, 4] [3, 5, 6] [4, 8, 9]).map (fun y => y + 3) :=
  qm_additive_detrending_shift standardQMNonparam _ _ _ 3 (by decide)

/-- **QuantileMapping, multiplicative detrending**: scaling `cm_future` by `k > 0` scales the output by `k`
    (guards `mean H ≠ 0`, `mean F ≠ 0`: the two divisions of the code). -/
theorem qm_multiplicative_detrending_scale (qm : List Rat → List Rat → List Rat → List Rat)
    (obs H F : List Rat) (k : Rat) (hk : 0 < k) (_hH : mean H ≠ 0) (_hF : mean F ≠ 0) :
    quantileMapping qm .multiplicative obs H (F.map (fun x => k * x)) =
      (quantileMapping qm .multiplicative obs H F).map (fun y => k * y) := by
  unfold quantileMapping
  simp only
  rw [mean_scale]
  have hk' : k ≠ 0 := ne_of_gt hk
  have hin : (F.map (fun x => k * x)).map (fun x => x / (k * mean F / mean H)) =
      F.map (fun x => x / (mean F / mean H)) := by
    rw [List.map_map]
    apply List.map_congr_left
    intro x _
    simp only [Function.comp]
    rw [mul_div_assoc k (mean F) (mean H), mul_div_mul_left _ _ hk']
  rw [hin, List.map_map]
  apply List.map_congr_left
  intro y _
  simp only [Function.comp]
  ring

example : (0 : Rat) < 2 ∧ mean [3, 5, 6] ≠ 0 ∧ mean [4, 8, 9] ≠ 0 := by decide +kernel
example : qmNonparam .multiplicative [1, 2, 4] [3, 5, 6] ([4, 8, 9].map (fun x => 2 * x)) =
    (qmNonparam .multiplicative [1, 2, 4] [3, 5, 6] [4, 8, 9]).map (fun y => 2 * y) :=
  qm_multiplicative_detrending_scale standardQMNonparam _ _ _ 2 (by norm_num) (by decide +kernel) (by decide +kernel)

/-! ### ScaledDistributionMapping, absolute -/

/-- **SDM absolute**: everything except the re-added `trend = cm_future − detrend(cm_future)` is computed from the
    detrended future sample, which does not see the shift.  Any location–scale family; no law needed. -/
theorem sdm_absolute_shift (Fam : LocScaleFam) (obs H F : List Rat) (c : Rat) (hF : F ≠ []) :
    sdmAbsolute Fam obs H (F.map (fun x => x + c)) = (sdmAbsolute Fam obs H F).map (fun y => y + c) := by
  unfold sdmAbsolute sdmAbsoluteSorted sdmAbsCdfFut
  simp only [detrendConst_shift c F hF, List.length_map, subL_shift_left]
  apply zipWith_shift_right
  intro b t
  ring

example : sdmAbsolute ratSigmoid [1, 2, 4] [3, 5, 6, 9] ([4, 8, 9].map (fun x => x + 3)) =
    (sdmAbsolute ratSigmoid [1, 2, 4] [3, 5, 6, 9] [4, 8, 9]).map (fun y => y + 3) :=
  sdm_absolute_shift ratSigmoid _ _ _ 3 (by decide)

/-! ### ECDFM -/

/-- **ECDFM** over any location–scale family satisfying `LocScaleLaws`: the fit of the shifted future sample is the
    shifted fit, so `τ = cdf_F(x)` is unchanged; the `ppf` terms do not involve `cm_future`. -/
theorem ecdfm_shift (Fam : LocScaleFam) (L : LocScaleLaws Fam) (t : Rat) (obs H F : List Rat) (c : Rat)
    (hF : F ≠ []) :
    ecdfm Fam.toFamily t obs H (F.map (fun x => x + c)) = (ecdfm Fam.toFamily t obs H F).map (fun y => y + c) := by
  unfold ecdfm LocScaleFam.toFamily
  simp only [List.map_map]
  rw [fit_shift L c F hF]
  apply List.map_congr_left
  intro x _
  simp only [Function.comp, cdf_shift]
  ring

example : LocScaleLaws ratSigmoid := Lemmas.Family.ratSigmoid_laws
example : ecdfm ratSigmoid.toFamily (1 / 64) [1, 2, 4] [3, 5, 6, 9] ([4, 8, 9].map (fun x => x + 3)) =
    (ecdfm ratSigmoid.toFamily (1 / 64) [1, 2, 4] [3, 5, 6, 9] [4, 8, 9]).map (fun y => y + 3) := by decide +kernel

/-! ### QuantileDeltaMapping, absolute -/

/-- **QDM absolute, generic** in the family (the `ppf` terms do not involve `cm_future`) and in the empirical cdf
    `E`, which only has to be shift invariant (`E (x + c) (y + c) = E x y`); censoring off (it is a
    precipitation setting and does not commute with a shift). -/
theorem qdm_absolute_shiftG {P} (Fam : Family P) (E : List Rat → Rat → Rat)
    (hE : ∀ (x : List Rat) (y c : Rat), x ≠ [] → E (x.map (fun v => v + c)) (y + c) = E x y)
    (t : Rat) (F : List Rat) (fo fh : P) (c : Rat) :
    qdmStepsG Fam .absolute E t none (F.map (fun x => x + c)) fo fh =
      (qdmStepsG Fam .absolute E t none F fo fh).map (fun y => y + c) := by
  unfold qdmStepsG
  simp only [List.map_map]
  apply List.map_congr_left
  intro x hx
  simp only [Function.comp, hE F x c (List.ne_nil_of_mem hx), qdmCensor, qdmCore]
  ring

/-- **QDM absolute** with the two empirical cdfs of the code (`step_function`, `linear_interpolation`),
    `running_window_mode_over_years_of_cm_future = False`. -/
theorem qdm_absolute_shift {P} (Fam : Family P) (em : EcdfMethod) (t : Rat) (obs H F : List Rat) (c : Rat) :
    qdmWindow Fam .absolute em t none obs H (F.map (fun x => x + c)) =
      (qdmWindow Fam .absolute em t none obs H F).map (fun y => y + c) := by
  unfold qdmWindow qdmSteps
  exact qdm_absolute_shiftG Fam (ecdf1 em) (fun x y c _ => ecdf1_shift em x y c) t F _ _ c

example : qdmWindow ratSigmoid.toFamily .absolute .linear (1 / 64) none [1, 2, 4] [3, 5, 6, 9] ([4, 8, 9].map (fun x => x + 3)) =
    (qdmWindow ratSigmoid.toFamily .absolute .linear (1 / 64) none [1, 2, 4] [3, 5, 6, 9] [4, 8, 9]).map (fun y => y + 3) :=
  qdm_absolute_shift _ _ _ _ _ _ 3

/-! ### CDFt — every `ecdf` / `iecdf` pair -/

/-- the four stages of `_apply_CDFt_mapping` after the delta shift: shifting the (already delta-shifted) future
    sample `F'` by `c` shifts the result by `c` -/
theorem cdft_core_shift (E Q : List Rat → Rat → Rat) (hL : ShiftLaws E Q) (obs H' F' : List Rat) (c : Rat)
    (hH : H' ≠ []) (hF : F' ≠ []) :
    cdftStage4 Q (F'.map (fun x => x + c)) (cdftStage3 E H' (cdftStage2 Q obs (cdftStage1 E (F'.map (fun x => x + c))))) =
      (cdftStage4 Q F' (cdftStage3 E H' (cdftStage2 Q obs (cdftStage1 E F')))).map (fun y => y + c) := by
  have h1 : cdftStage1 E (F'.map (fun x => x + c)) = cdftStage1 E F' := by
    unfold cdftStage1
    rw [List.map_map]
    apply List.map_congr_left
    intro x _
    simp only [Function.comp]
    exact hL.E_shift F' x c hF
  rw [h1]
  unfold cdftStage4
  rw [List.map_map]
  apply List.map_congr_left
  intro q hq
  simp only [Function.comp]
  apply hL.Q_shift F' q c hF
  unfold cdftStage3 at hq
  obtain ⟨y, _, rfl⟩ := List.mem_map.mp hq
  exact hL.E_le_one H' y hH

/-- **CDFt, generic**: for *any* empirical cdf `E` and inverse empirical cdf `Q` satisfying `ShiftLaws`, with the
    default additive delta shift or without shift (`delta_shift ∈ {"additive", "no_shift"}`). -/
theorem cdft_shiftG (E Q : List Rat → Rat → Rat) (hL : ShiftLaws E Q) (d : DeltaShift)
    (hd : d = .additive ∨ d = .no_shift) (obs H F : List Rat) (c : Rat) (hH : H ≠ []) (hF : F ≠ []) :
    cdftMappingG E Q d obs H (F.map (fun x => x + c)) = (cdftMappingG E Q d obs H F).map (fun y => y + c) := by
  unfold cdftMappingG cdftShifted
  rcases hd with rfl | rfl
  · simp only []
    have hcomm : (F.map (fun x => x + c)).map (fun x => x + (mean obs - mean H)) =
        (F.map (fun x => x + (mean obs - mean H))).map (fun x => x + c) := by
      rw [List.map_map, List.map_map]
      apply List.map_congr_left
      intro x _
      simp only [Function.comp]
      ring
    rw [hcomm]
    exact cdft_core_shift E Q hL obs _ _ c (map_ne_nil _ hH) (map_ne_nil _ hF)
  · exact cdft_core_shift E Q hL obs H F c hH hF

/-- with the multiplicative delta shift the signal is *rescaled* with the historical bias ratio (recorded for
    completeness: `delta_shift = "multiplicative"` is not a trend-preserving configuration in the additive sense) -/
theorem cdft_multiplicative_shiftG (E Q : List Rat → Rat → Rat) (hL : ShiftLaws E Q) (obs H F : List Rat) (c : Rat)
    (hH : H ≠ []) (hF : F ≠ []) :
    cdftMappingG E Q .multiplicative obs H (F.map (fun x => x + c)) =
      (cdftMappingG E Q .multiplicative obs H F).map (fun y => y + c * (mean obs / mean H)) := by
  unfold cdftMappingG cdftShifted
  simp only []
  have hcomm : (F.map (fun x => x + c)).map (fun x => x * (mean obs / mean H)) =
      (F.map (fun x => x * (mean obs / mean H))).map (fun x => x + c * (mean obs / mean H)) := by
    rw [List.map_map, List.map_map]
    apply List.map_congr_left
    intro x _
    simp only [Function.comp]
    ring
  rw [hcomm]
  exact cdft_core_shift E Q hL obs _ _ _ (map_ne_nil _ hH) (map_ne_nil _ hF)

/-- **CDFt** for each of the 2 × 9 `ecdf_method` × `iecdf_method` pairs of the library -/
theorem cdft_shift (d : DeltaShift) (hd : d = .additive ∨ d = .no_shift) (em : EcdfMethod) (im : IecdfMethod)
    (obs H F : List Rat) (c : Rat) (hH : H ≠ []) (hF : F ≠ []) :
    cdftMapping d em im obs H (F.map (fun x => x + c)) = (cdftMapping d em im obs H F).map (fun y => y + c) :=
  cdft_shiftG _ _ (shiftLaws_ecdf_iecdf em im) d hd obs H F c hH hF

/-- **CDFt with `ecdf_method = "kernel_density"`** under the oracle law "the histogram bins shift with the data" -/
theorem cdft_hist_shift (bins : List Rat → List Rat × List Nat) (hb : BinsShift bins) (d : DeltaShift)
    (hd : d = .additive ∨ d = .no_shift) (im : IecdfMethod) (obs H F : List Rat) (c : Rat) (hH : H ≠ []) (hF : F ≠ []) :
    cdftMappingG (histE bins) (iecdf1 im) d obs H (F.map (fun x => x + c)) =
      (cdftMappingG (histE bins) (iecdf1 im) d obs H F).map (fun y => y + c) :=
  cdft_shiftG _ _ (shiftLaws_hist_iecdf bins hb im) d hd obs H F c hH hF

example : cdftMapping .additive .linear .linear [1, 2, 4] [3, 5, 6, 9] ([4, 8, 9].map (fun x => x + 3)) =
    (cdftMapping .additive .linear .linear [1, 2, 4] [3, 5, 6, 9] [4, 8, 9]).map (fun y => y + 3) :=
  cdft_shift .additive (Or.inl rfl) .linear .linear _ _ _ 3 (by decide) (by decide)

/-- the deterministic `_apply_debiasing_steps` (`SSR = False`; SSR is the precipitation path, for which an additive
    shift of a zero-inflated series is not part of the property) -/
theorem cdft_steps_shift (d : DeltaShift) (hd : d = .additive ∨ d = .no_shift) (em : EcdfMethod) (im : IecdfMethod)
    (obs H F u : List Rat) (c : Rat) (hH : H ≠ []) (hF : F ≠ []) :
    cdftSteps false d em im obs H (F.map (fun x => x + c)) u = (cdftSteps false d em im obs H F u).map (fun y => y + c) := by
  unfold cdftSteps cdftStepsG
  simp only [Bool.false_eq_true, if_false]
  exact cdft_shift d hd em im obs H F c hH hF

/-! ### ISIMIP, additive / unbounded -/

/-- **ISIMIP additive (steps 3–7 of `_apply_on_window`)**: trend method `additive`, no bounds / thresholds (tas, psl,
    rlds), parametric **or** non-parametric step 6, with or without detrending and event-likelihood adjustment, any
    `ecdf` / `iecdf` methods; any family with `IsiShiftLaws`.  The `linregress` significance decisions and the
    Kolmogorov–Smirnov decision are the oracle `o`, the same in both runs (oracle laws: both are invariant under the
    common shift; the regression *slope* is modelled exactly and its invariance is proved: `linSlope_shift`). -/
theorem isimip_additive_shift (cfg : Model.Isimip.Cfg) (hU : Unbounded cfg) (ht : cfg.trendMethod = .additive)
    (fam : Model.Isimip.IsiFamily) (hL : IsiShiftLaws fam) (o : Model.Isimip.Oracles) (d : Model.Isimip.Draws) (c : Rat)
    (obs H F : List Rat) (yO yH yF : List Int)
    (hO : obs ≠ []) (hH : H ≠ []) (hF : F ≠ [])
    (hlO : obs.length = yO.length) (hlH : H.length = yH.length) (hlF : F.length = yF.length) :
    Model.Isimip.applyOnWindow cfg fam o d obs H (F.map (fun v => v + c)) yO yH yF =
      (Model.Isimip.applyOnWindow cfg fam o d obs H F yO yH yF).map (List.map (fun v => v + c)) :=
  applyOnWindow_shift cfg hU ht fam hL o d c obs H F yO yH yF hO hH hF hlO hlH hlF

/-- the family laws are satisfiable: every location–scale family with `LocScaleLaws` used the way step 6 uses it,
    in particular the executable rational family -/
theorem isimip_family_laws (F : LocScaleFam) (L : LocScaleLaws F) (scaleAt : Rat → List Rat → Rat) :
    IsiShiftLaws (Model.Isimip.IsiFamily.ofLocScale F scaleAt) := isiShiftLaws_ofLocScale F L scaleAt

/-- the tas configuration of the correspondence (`tas_detr`): additive, parametric, detrending on -/
def tasCfg : Model.Isimip.Cfg := { trendMethod := .additive, nonparametricQm := false, detrending := true, ksTest := false }

example : Unbounded tasCfg ∧ tasCfg.trendMethod = .additive := ⟨⟨rfl, rfl, rfl, rfl⟩, rfl⟩
example : IsiShiftLaws Model.Isimip.ratSigmoid := isiShiftLaws_ratSigmoid
example : Model.Isimip.applyOnWindow tasCfg Model.Isimip.ratSigmoid { sigF := true } {} [1, 2, 4, 3] [3, 5, 6, 9]
      ([4, 8, 9, 13].map (fun v => v + 3)) [2000, 2000, 2001, 2001] [2000, 2000, 2001, 2001] [2030, 2030, 2031, 2031] =
    (Model.Isimip.applyOnWindow tasCfg Model.Isimip.ratSigmoid { sigF := true } {} [1, 2, 4, 3] [3, 5, 6, 9]
      [4, 8, 9, 13] [2000, 2000, 2001, 2001] [2000, 2000, 2001, 2001] [2030, 2030, 2031, 2031]).map (List.map (fun v => v + 3)) :=
  isimip_additive_shift tasCfg ⟨rfl, rfl, rfl, rfl⟩ rfl _ isiShiftLaws_ratSigmoid _ _ 3 _ _ _ _ _ _
    (by decide) (by decide) (by decide) rfl rfl rfl

/-- **Step 7 restores exactly what step 3 removed from `cm_future`**: for any mapped series `x` of the length of
    `cm_future` (what step 6 returns), `step7 (x, trend) − x = trend`, where `trend` is the fourth component of
    `step3` — the within-period trend subtracted from `cm_future` (zero when `detrending = False`). -/
theorem isimip_step7_restores (cfg : Model.Isimip.Cfg) (o : Model.Isimip.Oracles) (obs H F x : List Rat)
    (yO yH yF : List Int) (hx : x.length = F.length) (hlen : F.length = yF.length) :
    List.zipWith (· - ·) (Model.Isimip.step7 cfg x (Model.Isimip.step3 cfg o obs H F yO yH yF).2.2.2) x =
      (Model.Isimip.step3 cfg o obs H F yO yH yF).2.2.2 := by
  unfold Model.Isimip.step7 Model.Isimip.step3
  by_cases hd : cfg.detrending = true
  · simp only [hd, if_true, Model.Isimip.step3RemoveTrend]
    apply zipWith_add_sub_cancel
    rw [hx, Lemmas.IsimipModel.dailyTrend_length cfg o.sigF F yF hlen]
  · simp only [hd, Bool.false_eq_true, if_false, zipWith_sub_self]
    clear hlen hd
    induction x generalizing F with
    | nil => cases F with
      | nil => rfl
      | cons _ _ => simp at hx
    | cons a x ih => cases F with
      | nil => simp at hx
      | cons b F => simp only [List.map_cons]; rw [ih F (by simpa using hx)]

/-- **The trend ISIMIP removes from `cm_future` and restores after quantile mapping is the within-period linear trend
    of its annual means**: with detrending on and a significant regression (oracle `sigF`; flag
    `detrending_with_significance_test`), the fourth component of `step3` gives every value of year `y` the amount
    `slope · (y − mean(unique years))`, `slope = linregress(unique_years, annual_means(cm_future)).slope`
    (`trendSlope`, modelled exactly) — and by `isimip_step7_restores` exactly this is what the output gains over
    the quantile-mapped detrended series. -/
theorem isimip_removed_trend_linear (cfg : Model.Isimip.Cfg) (o : Model.Isimip.Oracles) (obs H F : List Rat)
    (yO yH yF : List Int) (hd : cfg.detrending = true) (hsig : cfg.detrendingWithSignificanceTest = true)
    (hF : o.sigF = true) (hlen : F.length = yF.length) :
    (Model.Isimip.step3 cfg o obs H F yO yH yF).2.2.2 =
      yF.map (fun (y : Int) => trendSlope F yF * ((y : Rat) - meanYear yF)) := by
  unfold Model.Isimip.step3 Model.Isimip.step3RemoveTrend
  simp only [hd, if_true, hF]
  exact dailyTrend_linear cfg hsig F yF hlen

/-- no significant trend: nothing is removed, the output of step 7 is the quantile-mapped series -/
theorem isimip_removed_trend_zero (cfg : Model.Isimip.Cfg) (o : Model.Isimip.Oracles) (obs H F : List Rat)
    (yO yH yF : List Int) (hns : (o.sigF && cfg.detrendingWithSignificanceTest) = false) (hlen : F.length = yF.length) :
    (Model.Isimip.step3 cfg o obs H F yO yH yF).2.2.2 = yF.map (fun (_ : Int) => (0 : Rat)) := by
  unfold Model.Isimip.step3 Model.Isimip.step3RemoveTrend
  by_cases hd : cfg.detrending = true
  · simp only [hd, if_true]
    exact dailyTrend_zero cfg o.sigF hns F yF hlen
  · simp only [hd, Bool.false_eq_true, if_false]
    clear hns hd
    induction F generalizing yF with
    | nil => cases yF with
      | nil => rfl
      | cons _ _ => simp at hlen
    | cons a F ih => cases yF with
      | nil => simp at hlen
      | cons b yF => simp only [List.map_cons]; rw [ih yF (by simpa using hlen)]

example : tasCfg.detrending = true ∧ tasCfg.detrendingWithSignificanceTest = true := ⟨rfl, rfl⟩

/-- **A linear within-period trend of the annual means passes through ISIMIP unchanged**: adding
    `b · (year − mean(unique years))` to `cm_future` (detrending on; the regression significant in both runs — the
    oracle `sigF`; at least two different years) adds exactly that signal to the output of `_apply_on_window`:
    step 3 removes the larger trend (`trendSlope` gains `b`: `Lemmas.C02.trendSlope_add_linear`), steps 4–6 see
    identical inputs, step 7 restores the larger trend.  Any configuration of steps 4–6, any family. -/
theorem isimip_linear_trend_passes (cfg : Model.Isimip.Cfg) (hd : cfg.detrending = true)
    (hsig : cfg.detrendingWithSignificanceTest = true) (fam : Model.Isimip.IsiFamily) (o : Model.Isimip.Oracles)
    (hF : o.sigF = true) (d : Model.Isimip.Draws) (b : Rat) (obs H F : List Rat) (yO yH yF : List Int)
    (hlen : F.length = yF.length) (h2 : ∃ y1 ∈ yF, ∃ y2 ∈ yF, y1 ≠ y2) :
    Model.Isimip.applyOnWindow cfg fam o d obs H (List.zipWith (· + ·) F (linearSignal b yF)) yO yH yF =
      (Model.Isimip.applyOnWindow cfg fam o d obs H F yO yH yF).map (fun r => List.zipWith (· + ·) r (linearSignal b yF)) :=
  applyOnWindow_add_linear cfg hd hsig fam o hF d b obs H F yO yH yF hlen (yearsSS_ne_zero yF h2)

example : ∃ y1 ∈ ([2030, 2030, 2031, 2031] : List Int), ∃ y2 ∈ ([2030, 2030, 2031, 2031] : List Int), y1 ≠ y2 :=
  ⟨2030, by simp, 2031, by simp, by decide⟩

/-- … and `cm_future` itself is recovered from its detrended part (`Lemmas.IsimipModel.step7_step3_roundtrip`) -/
theorem isimip_step7_step3_roundtrip (cfg : Model.Isimip.Cfg) (o : Model.Isimip.Oracles) (obs H F : List Rat)
    (yO yH yF : List Int) (h : F.length = yF.length) :
    Model.Isimip.step7 cfg (Model.Isimip.step3 cfg o obs H F yO yH yF).2.2.1
      (Model.Isimip.step3 cfg o obs H F yO yH yF).2.2.2 = F :=
  Lemmas.IsimipModel.step7_step3_roundtrip cfg o obs H F yO yH yF h

example : ([4, 8, 9, 13] : List Rat).length = ([2030, 2030, 2031, 2031] : List Int).length := rfl

/-! ## Part B — whole series: seasonal running windows, DeltaChange loop, year windows, ISIMIP month mode

    The index sets of every window loop depend on the dates only (`Lemmas/Lift.lean`), so each per-window theorem lifts
    to `apply_location`: the result buffers (`none` = never written) of the two runs are related entry by entry by
    `Option.map (· + c)`. -/

open Model.Skeleton Model.Windows

/-- a window function that ignores the time information -/
def winOf (g : List Rat → List Rat → List Rat → List Rat) : WinFn Rat := fun o h x _ _ _ => .ok (g o h x)

/-- **Generic seasonal lift**: any per-window function with the per-window shift law (for non-empty future
    samples).  Guards on the dates: odd step `0 < S ≤ L`, one day of year in `1..366` per future value. -/
theorem windowed_shift (g : List Rat → List Rat → List Rat → List Rat) (c : Rat)
    (hg : ∀ o h x, x ≠ [] → g o h (x.map (fun v => v + c)) = (g o h x).map (fun v => v + c))
    (L S : Int) (dO dH dF : List Int) (obs hist fut : List Rat)
    (hS : 0 < S) (hSL : S ≤ L) (hlen : dF.length = fut.length) (hr : ∀ d ∈ dF, 1 ≤ d ∧ d ≤ 366) :
    applyLocationRW (winOf g) L S dO dH dF obs hist (fut.map (fun v => v + c)) =
      (applyLocationRW (winOf g) L S dO dH dF obs hist fut).map (List.map (Option.map (fun v => v + c))) := by
  have h := applyLocationRW_equivariant_ne (winOf g) id id (fun v => v + c) (fun v => v + c) L S dO dH dF obs hist fut
    (by
      intro o h x io ih ix hx
      simp only [winOf, List.map_id, Except.map, hg o h x hx])
    (futureWindow_ne_nil L S dF fut hS hSL hlen hr)
  simpa only [List.map_id] using h

/-- **DeltaChange lift** (the loop runs over the days of `obs`): every window the loop forms must contain a future
    value (`hne`; the code takes the mean of that sample) -/
theorem windowed_shift_DC (g : List Rat → List Rat → List Rat → List Rat) (c : Rat)
    (hg : ∀ o h x, x ≠ [] → g o h (x.map (fun v => v + c)) = (g o h x).map (fun v => v + c))
    (L S : Int) (dO dH dF : List Int) (obs hist fut : List Rat)
    (hne : ∀ ctr ∈ useCenters S dO, take fut (idxWindow L dF ctr) ≠ []) :
    applyLocationDC (winOf g) L S dO dH dF obs hist (fut.map (fun v => v + c)) =
      (applyLocationDC (winOf g) L S dO dH dF obs hist fut).map (List.map (Option.map (fun v => v + c))) := by
  have h := applyLocationDC_equivariant_ne (winOf g) id id (fun v => v + c) (fun v => v + c) L S dO dH dF obs hist fut
    (by
      intro o h x io ih ix hx
      simp only [winOf, List.map_id, Except.map, hg o h x hx])
    hne
  simpa only [List.map_id] using h

theorem ls_windowed_shift (c : Rat) (L S : Int) (dO dH dF : List Int) (obs hist fut : List Rat)
    (hS : 0 < S) (hSL : S ≤ L) (hlen : dF.length = fut.length) (hr : ∀ d ∈ dF, 1 ≤ d ∧ d ≤ 366) :
    applyLocationRW (winOf (linearScaling .additive)) L S dO dH dF obs hist (fut.map (fun v => v + c)) =
      (applyLocationRW (winOf (linearScaling .additive)) L S dO dH dF obs hist fut).map
        (List.map (Option.map (fun v => v + c))) :=
  windowed_shift _ c (fun o h x _ => ls_add_shift o h x c) L S dO dH dF obs hist fut hS hSL hlen hr

theorem dc_windowed_shift (c : Rat) (L S : Int) (dO dH dF : List Int) (obs hist fut : List Rat)
    (hne : ∀ ctr ∈ useCenters S dO, take fut (idxWindow L dF ctr) ≠ []) :
    applyLocationDC (winOf (deltaChange .additive)) L S dO dH dF obs hist (fut.map (fun v => v + c)) =
      (applyLocationDC (winOf (deltaChange .additive)) L S dO dH dF obs hist fut).map
        (List.map (Option.map (fun v => v + c))) :=
  windowed_shift_DC _ c (fun o h x hx => dc_add_shift o h x c hx) L S dO dH dF obs hist fut hne

theorem qm_windowed_shift (qm : List Rat → List Rat → List Rat → List Rat) (c : Rat) (L S : Int)
    (dO dH dF : List Int) (obs hist fut : List Rat)
    (hS : 0 < S) (hSL : S ≤ L) (hlen : dF.length = fut.length) (hr : ∀ d ∈ dF, 1 ≤ d ∧ d ≤ 366) :
    applyLocationRW (winOf (quantileMapping qm .additive)) L S dO dH dF obs hist (fut.map (fun v => v + c)) =
      (applyLocationRW (winOf (quantileMapping qm .additive)) L S dO dH dF obs hist fut).map
        (List.map (Option.map (fun v => v + c))) :=
  windowed_shift _ c (fun o h x hx => qm_additive_detrending_shift qm o h x c hx) L S dO dH dF obs hist fut hS hSL hlen hr

theorem sdm_windowed_shift (Fam : LocScaleFam) (c : Rat) (L S : Int) (dO dH dF : List Int) (obs hist fut : List Rat)
    (hS : 0 < S) (hSL : S ≤ L) (hlen : dF.length = fut.length) (hr : ∀ d ∈ dF, 1 ≤ d ∧ d ≤ 366) :
    applyLocationRW (winOf (sdmAbsolute Fam)) L S dO dH dF obs hist (fut.map (fun v => v + c)) =
      (applyLocationRW (winOf (sdmAbsolute Fam)) L S dO dH dF obs hist fut).map
        (List.map (Option.map (fun v => v + c))) :=
  windowed_shift _ c (fun o h x hx => sdm_absolute_shift Fam o h x c hx) L S dO dH dF obs hist fut hS hSL hlen hr

theorem ecdfm_windowed_shift (Fam : LocScaleFam) (hL : LocScaleLaws Fam) (t c : Rat) (L S : Int)
    (dO dH dF : List Int) (obs hist fut : List Rat)
    (hS : 0 < S) (hSL : S ≤ L) (hlen : dF.length = fut.length) (hr : ∀ d ∈ dF, 1 ≤ d ∧ d ≤ 366) :
    applyLocationRW (winOf (ecdfm Fam.toFamily t)) L S dO dH dF obs hist (fut.map (fun v => v + c)) =
      (applyLocationRW (winOf (ecdfm Fam.toFamily t)) L S dO dH dF obs hist fut).map
        (List.map (Option.map (fun v => v + c))) :=
  windowed_shift _ c (fun o h x hx => ecdfm_shift Fam hL t o h x c hx) L S dO dH dF obs hist fut hS hSL hlen hr

theorem qdm_windowed_shift {P} (Fam : Family P) (em : EcdfMethod) (t c : Rat) (L S : Int)
    (dO dH dF : List Int) (obs hist fut : List Rat)
    (hS : 0 < S) (hSL : S ≤ L) (hlen : dF.length = fut.length) (hr : ∀ d ∈ dF, 1 ≤ d ∧ d ≤ 366) :
    applyLocationRW (winOf (qdmWindow Fam .absolute em t none)) L S dO dH dF obs hist (fut.map (fun v => v + c)) =
      (applyLocationRW (winOf (qdmWindow Fam .absolute em t none)) L S dO dH dF obs hist fut).map
        (List.map (Option.map (fun v => v + c))) :=
  windowed_shift _ c (fun o h x _ => qdm_absolute_shift Fam em t o h x c) L S dO dH dF obs hist fut hS hSL hlen hr

/-- CDFt in seasonal windows: additionally every window must contain a historical value (`ecdf` of an empty sample) -/
theorem cdft_windowed_shift (d : DeltaShift) (hd : d = .additive ∨ d = .no_shift) (em : EcdfMethod) (im : IecdfMethod)
    (c : Rat) (L S : Int) (dO dH dF : List Int) (obs hist fut : List Rat)
    (hS : 0 < S) (hSL : S ≤ L) (hlen : dF.length = fut.length) (hr : ∀ d ∈ dF, 1 ≤ d ∧ d ≤ 366)
    (hH : ∀ ctr ∈ useCenters S dF, take hist (idxWindow L dH ctr) ≠ []) :
    applyLocationRW (winOf (cdftMapping d em im)) L S dO dH dF obs hist (fut.map (fun v => v + c)) =
      (applyLocationRW (winOf (cdftMapping d em im)) L S dO dH dF obs hist fut).map
        (List.map (Option.map (fun v => v + c))) := by
  have hF := futureWindow_ne_nil L S dF fut hS hSL hlen hr
  have h := applyLocationRW_equivariant_at (winOf (cdftMapping d em im)) id id (fun v => v + c) (fun v => v + c)
    L S dO dH dF obs hist fut
    (by
      intro ctr hc
      simp only [winOf, List.map_id, Except.map, cdft_shift d hd em im _ _ _ c (hH ctr hc) (hF ctr hc)])
  simpa only [List.map_id] using h

/-! ### year windows over the future period (CDFt, QDM: `running_window_mode_over_years_of_cm_future`) -/

/-- **CDFt, year windows**: every year window is corrected against the same `obs`, `cm_hist`; the year masks depend on
    the years only. -/
theorem cdft_years_shift (d : DeltaShift) (hd : d = .additive ∨ d = .no_shift) (em : EcdfMethod) (im : IecdfMethod)
    (L S : Int) (years : List Int) (obs H F : List Rat) (c : Rat) (hH : H ≠ []) :
    cdftWindowYears d em im L S years obs H (F.map (fun v => v + c)) =
      (cdftWindowYears d em im L S years obs H F).map (List.map (Option.map (fun v => v + c))) := by
  unfold cdftWindowYears
  rw [List.length_map]
  split_ifs
  · rfl
  · apply Lemmas.Lift.applyYears_equivariant
    intro x iw
    unfold cdftYearFn
    simp only [Except.map]
    by_cases hx : x = []
    · subst hx
      cases d <;> simp [cdftMapping, cdftMappingG, cdftShifted, cdftStage1, cdftStage2, cdftStage3, cdftStage4]
    · rw [cdft_shift d hd em im obs H x c hH hx]

/-- **QDM absolute, year windows** -/
theorem qdm_years_shift {P} (Fam : Family P) (em : EcdfMethod) (t : Rat) (L S : Int) (years : List Int)
    (obs H F : List Rat) (c : Rat) :
    qdmWindowYears Fam .absolute em t none L S years obs H (F.map (fun v => v + c)) =
      (qdmWindowYears Fam .absolute em t none L S years obs H F).map (List.map (Option.map (fun v => v + c))) := by
  unfold qdmWindowYears
  rw [List.length_map]
  split_ifs
  · rfl
  · apply Lemmas.Lift.applyYears_equivariant
    intro x iw
    unfold qdmYearFn qdmSteps
    simp only [Except.map]
    rw [qdm_absolute_shiftG Fam (ecdf1 em) (fun x y c _ => ecdf1_shift em x y c) t x _ _ c]

example : cdftWindowYears .additive .linear .linear 3 1 [2030, 2030, 2031, 2032] [1, 2, 4] [3, 5, 6, 9]
      ([4, 8, 9, 13].map (fun v => v + 3)) =
    (cdftWindowYears .additive .linear .linear 3 1 [2030, 2030, 2031, 2032] [1, 2, 4] [3, 5, 6, 9] [4, 8, 9, 13]).map
      (List.map (Option.map (fun v => v + 3))) :=
  cdft_years_shift .additive (Or.inl rfl) _ _ 3 1 _ _ _ _ 3 (by decide)

/-! ### the default CDFt / QDM configuration: seasonal windows, and year windows inside each seasonal window

    The seasonal loop hands the window samples and `time_cm_future[window]` to `apply_on_window`, which loops over year
    windows of that sample.  Result entries are `Option (Option Rat)`: outer `none` = step in no seasonal window,
    inner `none` = step in no year window of its seasonal window (both excluded by C07). -/

/-- `apply_on_window` with year windows as a seasonal window function on buffers of `Option Rat` inputs -/
def cdftSeasonYears (d : DeltaShift) (em : EcdfMethod) (im : IecdfMethod) (Ly Sy : Int) (years : List Int) :
    WinFn (Option Rat) :=
  fun o h x _ _ ix => cdftWindowYears d em im Ly Sy (take years ix) (o.filterMap id) (h.filterMap id) (x.filterMap id)

def qdmSeasonYears {P} (Fam : Family P) (em : EcdfMethod) (t : Rat) (Ly Sy : Int) (years : List Int) :
    WinFn (Option Rat) :=
  fun o h x _ _ ix =>
    qdmWindowYears Fam .absolute em t none Ly Sy (take years ix) (o.filterMap id) (h.filterMap id) (x.filterMap id)

theorem cdft_season_years_shift (d : DeltaShift) (hd : d = .additive ∨ d = .no_shift) (em : EcdfMethod) (im : IecdfMethod)
    (Ly Sy : Int) (years : List Int) (c : Rat) (L S : Int) (dO dH dF : List Int) (obs hist fut : List Rat)
    (hH : ∀ ctr ∈ useCenters S dF, take hist (idxWindow L dH ctr) ≠ []) :
    applyLocationRW (cdftSeasonYears d em im Ly Sy years) L S dO dH dF (obs.map some) (hist.map some)
        ((fut.map (fun v => v + c)).map some) =
      (applyLocationRW (cdftSeasonYears d em im Ly Sy years) L S dO dH dF (obs.map some) (hist.map some)
        (fut.map some)).map (List.map (Option.map (Option.map (fun v => v + c)))) := by
  have hfut : (fut.map (fun v => v + c)).map some = (fut.map some).map (Option.map (fun v => v + c)) := by
    rw [List.map_map, List.map_map]; rfl
  rw [hfut]
  have h := applyLocationRW_equivariant_at (cdftSeasonYears d em im Ly Sy years) id id (Option.map (fun v => v + c))
    (Option.map (fun v => v + c)) L S dO dH dF (obs.map some) (hist.map some) (fut.map some)
    (by
      intro ctr hc
      simp only [cdftSeasonYears, List.map_id, filterMap_id_map]
      apply cdft_years_shift d hd
      rw [take_map_some]
      exact hH ctr hc)
  simpa only [List.map_id] using h

theorem qdm_season_years_shift {P} (Fam : Family P) (em : EcdfMethod) (t : Rat)
    (Ly Sy : Int) (years : List Int) (c : Rat) (L S : Int) (dO dH dF : List Int) (obs hist fut : List Rat) :
    applyLocationRW (qdmSeasonYears Fam em t Ly Sy years) L S dO dH dF (obs.map some) (hist.map some)
        ((fut.map (fun v => v + c)).map some) =
      (applyLocationRW (qdmSeasonYears Fam em t Ly Sy years) L S dO dH dF (obs.map some) (hist.map some)
        (fut.map some)).map (List.map (Option.map (Option.map (fun v => v + c)))) := by
  have hfut : (fut.map (fun v => v + c)).map some = (fut.map some).map (Option.map (fun v => v + c)) := by
    rw [List.map_map, List.map_map]; rfl
  rw [hfut]
  have h := Lemmas.Lift.applyLocationRW_equivariant (qdmSeasonYears Fam em t Ly Sy years) id id
    (Option.map (fun v => v + c)) (Option.map (fun v => v + c)) L S dO dH dF (obs.map some) (hist.map some) (fut.map some)
    (by
      intro o h x io ih ix
      simp only [qdmSeasonYears, List.map_id, filterMap_id_map]
      exact qdm_years_shift Fam em t Ly Sy _ _ _ _ c)
  simpa only [List.map_id] using h

/-! ### ISIMIP `apply_location`: running-window mode and month mode (no scaling by the annual cycle) -/

/-- **ISIMIP additive, running-window mode**: guards — every window the loop forms holds an observed and a historical
    value (`hO`, `hH`), the year lists are parallel to the series. -/
theorem isimip_windowed_shift (cfg : Model.Isimip.Cfg) (hU : Unbounded cfg) (ht : cfg.trendMethod = .additive)
    (hcyc : cfg.scaleByAnnualCycle = false)
    (fam : Model.Isimip.IsiFamily) (hL : IsiShiftLaws fam) (orc : List Nat → Model.Isimip.Oracles)
    (drw : List Nat → Model.Isimip.Draws) (c : Rat) (L S : Int)
    (doyO doyH doyF yearsO yearsH yearsF : List Int) (obs H F : List Rat)
    (hS : 0 < S) (hSL : S ≤ L) (hr : ∀ d ∈ doyF, 1 ≤ d ∧ d ≤ 366)
    (hlO : doyO.length = obs.length) (hlH : doyH.length = H.length) (hlF : doyF.length = F.length)
    (hyO : obs.length = yearsO.length) (hyH : H.length = yearsH.length) (hyF : F.length = yearsF.length)
    (hO : ∀ ctr ∈ useCenters S doyF, take obs (idxWindow L doyO ctr) ≠ [])
    (hH : ∀ ctr ∈ useCenters S doyF, take H (idxWindow L doyH ctr) ≠ []) :
    Model.Isimip.applyLocationRW cfg fam orc drw L S doyO doyH doyF yearsO yearsH yearsF obs H (F.map (fun v => v + c)) =
      (Model.Isimip.applyLocationRW cfg fam orc drw L S doyO doyH doyF yearsO yearsH yearsF obs H F).map
        (List.map (Option.map (fun v => v + c))) := by
  have hF := futureWindow_ne_nil L S doyF F hS hSL hlF hr
  have hvalid : ∀ (d : List Int) (ctr : Int), ∀ j ∈ idxWindow L d ctr, j < d.length :=
    fun d ctr j hj => Lemmas.Pointwise.idxWindow_valid L d ctr j hj
  have h := applyLocationRW_equivariant_at (Model.Isimip.winFn cfg fam orc drw yearsO yearsH yearsF) id id
    (fun v => v + c) (fun v => v + c) L S doyO doyH doyF obs H F
    (by
      intro ctr hc
      simp only [Model.Isimip.winFn, List.map_id]
      exact applyOnWindow_shift cfg hU ht fam hL _ _ c _ _ _ _ _ _ (hO ctr hc) (hH ctr hc) (hF ctr hc)
        (take_length_eq obs yearsO _ hyO (fun j hj => hlO ▸ hvalid doyO ctr j hj))
        (take_length_eq H yearsH _ hyH (fun j hj => hlH ▸ hvalid doyH ctr j hj))
        (take_length_eq F yearsF _ hyF (fun j hj => hlF ▸ hvalid doyF ctr j hj)))
  simp only [List.map_id] at h
  unfold Model.Isimip.applyLocationRW Model.Isimip.step1 Model.Isimip.step8Buffer
  simp only [hcyc, Bool.false_eq_true, if_false, bind, Except.bind, pure, Except.pure, h]
  cases applyLocationRW (Model.Isimip.winFn cfg fam orc drw yearsO yearsH yearsF) L S doyO doyH doyF obs H F with
  | error e => rfl
  | ok out => rfl

/-- **ISIMIP additive, month mode** (`running_window_mode = False`): guards — every calendar month has an observed, a
    historical and a future value; month and year lists parallel to the series. -/
theorem isimip_months_shift (cfg : Model.Isimip.Cfg) (hU : Unbounded cfg) (ht : cfg.trendMethod = .additive)
    (hcyc : cfg.scaleByAnnualCycle = false)
    (fam : Model.Isimip.IsiFamily) (hL : IsiShiftLaws fam) (orc : List Nat → Model.Isimip.Oracles)
    (drw : List Nat → Model.Isimip.Draws) (c : Rat)
    (mO mH mF doyO doyH doyF yearsO yearsH yearsF : List Int) (obs H F : List Rat)
    (hlO : mO.length = obs.length) (hlH : mH.length = H.length) (hlF : mF.length = F.length)
    (hyO : obs.length = yearsO.length) (hyH : H.length = yearsH.length) (hyF : F.length = yearsF.length)
    (hne : ∀ m ∈ Py.arange1 1 13, take obs (monthIdx mO m) ≠ [] ∧ take H (monthIdx mH m) ≠ [] ∧
      take F (monthIdx mF m) ≠ []) :
    Model.Isimip.applyLocationMonths cfg fam orc drw mO mH mF doyO doyH doyF yearsO yearsH yearsF obs H
        (F.map (fun v => v + c)) =
      (Model.Isimip.applyLocationMonths cfg fam orc drw mO mH mF doyO doyH doyF yearsO yearsH yearsF obs H F).map
        (List.map (Option.map (fun v => v + c))) := by
  have h := applyLocationMonths_equivariant_at (Model.Isimip.winFn cfg fam orc drw yearsO yearsH yearsF) id id
    (fun v => v + c) (fun v => v + c) mO mH mF obs H F
    (by
      intro m hm
      obtain ⟨h1, h2, h3⟩ := hne m hm
      simp only [Model.Isimip.winFn, List.map_id]
      exact applyOnWindow_shift cfg hU ht fam hL _ _ c _ _ _ _ _ _ h1 h2 h3
        (take_length_eq obs yearsO _ hyO (fun j hj => hlO ▸ monthIdx_valid mO m j hj))
        (take_length_eq H yearsH _ hyH (fun j hj => hlH ▸ monthIdx_valid mH m j hj))
        (take_length_eq F yearsF _ hyF (fun j hj => hlF ▸ monthIdx_valid mF m j hj)))
  simp only [List.map_id] at h
  unfold Model.Isimip.applyLocationMonths Model.Isimip.step1 Model.Isimip.step8Buffer
  simp only [hcyc, Bool.false_eq_true, if_false, bind, Except.bind, pure, Except.pure, h]
  cases applyLocationMonths (Model.Isimip.winFn cfg fam orc drw yearsO yearsH yearsF) mO mH mF obs H F with
  | error e => rfl
  | ok out => rfl

/-! ## Part C — round 4: the remaining oracle clauses as theorems

    * multiplicative configurations in seasonal windows (`windowed_scale`, DeltaChange loop);
    * CDFt / QDM in seasonal windows for *any* `E`, `Q` with `ShiftLaws` (covers `kernel_density`);
    * ISIMIP: what `_apply_on_window` returns minus what step 6 returned is the trend removed from `cm_future`
      (`isimip_output_minus_step6`), for every configuration;
    * the grid level (`Debiaser.apply` = `Model.Grid.debiaserApply`, tied by C05): a per-location law gives the
      per-cell law (`grid_shift`, `grid_scale`);
    * storage order (`isimip_trend_order_free`), inferred dates (`inferred_*`), month-mode linear trend
      (`isimip_months_linear_trend_passes`). -/

/-- **Generic seasonal lift, multiplicative form**: a per-window scale law lifts to the whole series. -/
theorem windowed_scale (g : List Rat → List Rat → List Rat → List Rat) (k : Rat)
    (hg : ∀ o h x, x ≠ [] → g o h (x.map (fun v => k * v)) = (g o h x).map (fun v => k * v))
    (L S : Int) (dO dH dF : List Int) (obs hist fut : List Rat)
    (hS : 0 < S) (hSL : S ≤ L) (hlen : dF.length = fut.length) (hr : ∀ d ∈ dF, 1 ≤ d ∧ d ≤ 366) :
    applyLocationRW (winOf g) L S dO dH dF obs hist (fut.map (fun v => k * v)) =
      (applyLocationRW (winOf g) L S dO dH dF obs hist fut).map (List.map (Option.map (fun v => k * v))) := by
  have h := applyLocationRW_equivariant_ne (winOf g) id id (fun v => k * v) (fun v => k * v) L S dO dH dF obs hist fut
    (by
      intro o h x io ih ix hx
      simp only [winOf, List.map_id, Except.map, hg o h x hx])
    (futureWindow_ne_nil L S dF fut hS hSL hlen hr)
  simpa only [List.map_id] using h

theorem windowed_scale_DC (g : List Rat → List Rat → List Rat → List Rat) (k : Rat)
    (hg : ∀ o h x, x ≠ [] → g o h (x.map (fun v => k * v)) = (g o h x).map (fun v => k * v))
    (L S : Int) (dO dH dF : List Int) (obs hist fut : List Rat)
    (hne : ∀ ctr ∈ useCenters S dO, take fut (idxWindow L dF ctr) ≠ []) :
    applyLocationDC (winOf g) L S dO dH dF obs hist (fut.map (fun v => k * v)) =
      (applyLocationDC (winOf g) L S dO dH dF obs hist fut).map (List.map (Option.map (fun v => k * v))) := by
  have h := applyLocationDC_equivariant_ne (winOf g) id id (fun v => k * v) (fun v => k * v) L S dO dH dF obs hist fut
    (by
      intro o h x io ih ix hx
      simp only [winOf, List.map_id, Except.map, hg o h x hx])
    hne
  simpa only [List.map_id] using h

/-- LinearScaling multiplicative in seasonal windows: guard — no window has `mean(cm_hist) = 0` (`hH`) -/
theorem ls_windowed_scale (k : Rat) (hk : 0 < k) (L S : Int) (dO dH dF : List Int) (obs hist fut : List Rat)
    (hS : 0 < S) (hSL : S ≤ L) (hlen : dF.length = fut.length) (hr : ∀ d ∈ dF, 1 ≤ d ∧ d ≤ 366)
    (_hH : ∀ ctr ∈ useCenters S dF, mean (take hist (idxWindow L dH ctr)) ≠ 0) :
    applyLocationRW (winOf (linearScaling .multiplicative)) L S dO dH dF obs hist (fut.map (fun v => k * v)) =
      (applyLocationRW (winOf (linearScaling .multiplicative)) L S dO dH dF obs hist fut).map
        (List.map (Option.map (fun v => k * v))) := by
  apply windowed_scale _ k _ L S dO dH dF obs hist fut hS hSL hlen hr
  intro o h x _
  unfold linearScaling
  simp only [List.map_map]
  apply List.map_congr_left
  intro v _
  simp only [Function.comp]
  have := hk
  ring

theorem dc_windowed_scale (k : Rat) (_hk : 0 < k) (L S : Int) (dO dH dF : List Int) (obs hist fut : List Rat)
    (hne : ∀ ctr ∈ useCenters S dO, take fut (idxWindow L dF ctr) ≠ []) :
    applyLocationDC (winOf (deltaChange .multiplicative)) L S dO dH dF obs hist (fut.map (fun v => k * v)) =
      (applyLocationDC (winOf (deltaChange .multiplicative)) L S dO dH dF obs hist fut).map
        (List.map (Option.map (fun v => k * v))) := by
  apply windowed_scale_DC _ k _ L S dO dH dF obs hist fut hne
  intro o h x _
  unfold deltaChange
  simp only [List.map_map]
  rw [mean_scale]
  apply List.map_congr_left
  intro v _
  simp only [Function.comp]
  ring

theorem qm_windowed_scale (qm : List Rat → List Rat → List Rat → List Rat) (k : Rat) (hk : 0 < k) (L S : Int)
    (dO dH dF : List Int) (obs hist fut : List Rat)
    (hS : 0 < S) (hSL : S ≤ L) (hlen : dF.length = fut.length) (hr : ∀ d ∈ dF, 1 ≤ d ∧ d ≤ 366) :
    applyLocationRW (winOf (quantileMapping qm .multiplicative)) L S dO dH dF obs hist (fut.map (fun v => k * v)) =
      (applyLocationRW (winOf (quantileMapping qm .multiplicative)) L S dO dH dF obs hist fut).map
        (List.map (Option.map (fun v => k * v))) := by
  apply windowed_scale _ k _ L S dO dH dF obs hist fut hS hSL hlen hr
  intro o h x _
  -- the per-window proof needs `k ≠ 0` only (the guards `mean H ≠ 0`, `mean F ≠ 0` make the code's divisions defined)
  unfold quantileMapping
  simp only
  rw [mean_scale]
  have hk' : k ≠ 0 := ne_of_gt hk
  have hin : (x.map (fun v => k * v)).map (fun v => v / (k * mean x / mean h)) =
      x.map (fun v => v / (mean x / mean h)) := by
    rw [List.map_map]
    apply List.map_congr_left
    intro v _
    simp only [Function.comp]
    rw [mul_div_assoc k (mean x) (mean h), mul_div_mul_left _ _ hk']
  rw [hin, List.map_map]
  apply List.map_congr_left
  intro y _
  simp only [Function.comp]
  ring

/-- **CDFt in seasonal windows, generic** in `E`, `Q` (`ShiftLaws`): covers `ecdf_method = "kernel_density"`
    (`shiftLaws_hist_iecdf`) as well as the 2 × 9 pairs. -/
theorem cdftG_windowed_shift (E Q : List Rat → Rat → Rat) (hL : ShiftLaws E Q) (d : DeltaShift)
    (hd : d = .additive ∨ d = .no_shift) (c : Rat) (L S : Int) (dO dH dF : List Int) (obs hist fut : List Rat)
    (hS : 0 < S) (hSL : S ≤ L) (hlen : dF.length = fut.length) (hr : ∀ d ∈ dF, 1 ≤ d ∧ d ≤ 366)
    (hH : ∀ ctr ∈ useCenters S dF, take hist (idxWindow L dH ctr) ≠ []) :
    applyLocationRW (winOf (cdftMappingG E Q d)) L S dO dH dF obs hist (fut.map (fun v => v + c)) =
      (applyLocationRW (winOf (cdftMappingG E Q d)) L S dO dH dF obs hist fut).map
        (List.map (Option.map (fun v => v + c))) := by
  have hF := futureWindow_ne_nil L S dF fut hS hSL hlen hr
  have h := applyLocationRW_equivariant_at (winOf (cdftMappingG E Q d)) id id (fun v => v + c) (fun v => v + c)
    L S dO dH dF obs hist fut
    (by
      intro ctr hc
      simp only [winOf, List.map_id, Except.map, cdft_shiftG E Q hL d hd _ _ _ c (hH ctr hc) (hF ctr hc)])
  simpa only [List.map_id] using h

/-- **QDM absolute in seasonal windows, generic** in the family and in the shift-invariant empirical cdf -/
theorem qdmG_windowed_shift {P} (Fam : Family P) (E : List Rat → Rat → Rat)
    (hE : ∀ (x : List Rat) (y c : Rat), x ≠ [] → E (x.map (fun v => v + c)) (y + c) = E x y)
    (t c : Rat) (L S : Int) (dO dH dF : List Int) (obs hist fut : List Rat) :
    applyLocationRW (winOf (fun o h x => qdmStepsG Fam .absolute E t none x (Fam.fit o) (Fam.fit h))) L S dO dH dF
        obs hist (fut.map (fun v => v + c)) =
      (applyLocationRW (winOf (fun o h x => qdmStepsG Fam .absolute E t none x (Fam.fit o) (Fam.fit h))) L S dO dH dF
        obs hist fut).map (List.map (Option.map (fun v => v + c))) := by
  have h := Lemmas.Lift.applyLocationRW_equivariant
    (winOf (fun o h x => qdmStepsG Fam .absolute E t none x (Fam.fit o) (Fam.fit h))) id id (fun v => v + c)
    (fun v => v + c) L S dO dH dF obs hist fut
    (by
      intro o h x io ih ix
      simp only [winOf, List.map_id, Except.map, qdm_absolute_shiftG Fam E hE t x _ _ c])
  simpa only [List.map_id] using h

/-- **ISIMIP, every configuration: output − (step-6 result) = the trend removed from `cm_future`.**  Whenever
    `_apply_on_window` returns `out`, step 6 returned some `r` of the length of `cm_future` and
    `out − r` is, value by value, the fourth component of `step3` (the within-period trend: `slope·(year − mean year)`
    by `isimip_removed_trend_linear`, zero by `isimip_removed_trend_zero`).  No assumption on the order in which the
    dated values are stored. -/
theorem isimip_output_minus_step6 (cfg : Model.Isimip.Cfg) (fam : Model.Isimip.IsiFamily) (o : Model.Isimip.Oracles)
    (d : Model.Isimip.Draws) (obs H F : List Rat) (yO yH yF : List Int) (out : List Rat)
    (hlen : F.length = yF.length)
    (hrun : Model.Isimip.applyOnWindow cfg fam o d obs H F yO yH yF = .ok out) :
    ∃ r : List Rat, r.length = F.length ∧
      List.zipWith (· - ·) out r = (Model.Isimip.step3 cfg o obs H F yO yH yF).2.2.2 := by
  rw [Lemmas.IsimipModel.applyOnWindow_eq] at hrun
  cases h4 : Model.Isimip.step4 cfg d (Model.Isimip.step3 cfg o obs H F yO yH yF).1
      (Model.Isimip.step3 cfg o obs H F yO yH yF).2.1 (Model.Isimip.step3 cfg o obs H F yO yH yF).2.2.1 with
  | error e => rw [h4] at hrun; simp [Except.bind] at hrun
  | ok r4 =>
    rw [h4] at hrun
    simp only [Except.bind] at hrun
    cases h5 : Model.Isimip.step5 cfg o r4.1 r4.2.1 r4.2.2 with
    | error e => rw [h5] at hrun; simp at hrun
    | ok oF =>
      rw [h5] at hrun
      simp only at hrun
      cases h6 : Model.Isimip.step6 cfg fam o r4.1 oF r4.2.1 r4.2.2 with
      | error e => rw [h6] at hrun; simp at hrun
      | ok r =>
        rw [h6] at hrun
        simp only [Except.ok.injEq] at hrun
        have hr : r.length = F.length := by
          have hl := step6_length cfg fam o r4.1 oF r4.2.1 r4.2.2 r h6
          rw [hl, step4_future_length cfg d _ _ _ r4 h4]
          exact (step3_future_length cfg o obs H F yO yH yF hlen)
        refine ⟨r, hr, ?_⟩
        rw [← hrun]
        exact isimip_step7_restores cfg o obs H F r yO yH yF hr hlen

/-! ### the grid level: `Debiaser.apply` / `DeltaChange.apply` (model `Model.Grid`, tied to the code by C05) -/

open Model.Grid in
/-- a value of the floating output mapped through `ψ` (the failsafe NaN stays NaN) -/
def valMap (ψ : Rat → Rat) : Val Rat → Val Rat
  | .nan => .nan
  | .val x => .val (ψ x)

open Model.Grid in
/-- **A per-location law is a per-cell law of `apply`** (serial or parallel, any grid shape): change every entry of
    the `cm_future` array by `φ`; if at cell `(i, j)` the location function answers with `ψ` applied to its former
    result, the output column at `(i, j)` is the former column mapped through `ψ`. -/
theorem grid_equivariant {ε : Type} (loc : LocFn Rat ε) (φ ψ : Rat → Rat) (fs : Bool) (obs hist fut : Arr3 Rat)
    (nx ny : Nat) (m : Mode) (hm : ModeOk m nx ny) (out out' : Arr3 (Elem Rat))
    (h : debiaserApply loc fs obs hist fut nx ny m = .ok out)
    (h' : debiaserApply loc fs obs hist (map3 φ fut) nx ny m = .ok out')
    (i j : Nat) (hi : i < nx) (hj : j < ny) (v : List Rat)
    (hv : loc (slice obs i j) (slice hist i j) (slice fut i j) = .ok v) (hl : v.length = fut.length)
    (hloc : loc (slice obs i j) (slice hist i j) ((slice fut i j).map φ) = .ok (v.map ψ)) :
    slice out' i j = (slice out i j).map (Option.map (valMap ψ)) := by
  rw [Props.C05.debiaser_cellwise loc fs obs hist fut nx ny m hm out h i j hi hj v hv hl]
  rw [Props.C05.debiaser_cellwise loc fs obs hist (map3 φ fut) nx ny m hm out' h' i j hi hj (v.map ψ)
    (by rw [slice_map3]; exact hloc) (by rw [List.length_map, map3_length]; exact hl)]
  rw [List.map_map, List.map_map]
  rfl

open Model.Grid in
/-- the same for `DeltaChange.apply` (output shaped like `obs`) -/
theorem grid_equivariant_DC {ε : Type} (loc : LocFn Rat ε) (φ ψ : Rat → Rat) (fs : Bool) (obs hist fut : Arr3 Rat)
    (nx ny : Nat) (m : Mode) (hm : ModeOk m nx ny) (out out' : Arr3 (Elem Rat))
    (h : deltaChangeApply loc fs obs hist fut nx ny m = .ok out)
    (h' : deltaChangeApply loc fs obs hist (map3 φ fut) nx ny m = .ok out')
    (i j : Nat) (hi : i < nx) (hj : j < ny) (v : List Rat)
    (hv : loc (slice obs i j) (slice hist i j) (slice fut i j) = .ok v) (hl : v.length = obs.length)
    (hloc : loc (slice obs i j) (slice hist i j) ((slice fut i j).map φ) = .ok (v.map ψ)) :
    slice out' i j = (slice out i j).map (Option.map (valMap ψ)) := by
  rw [Props.C05.deltachange_cellwise loc fs obs hist fut nx ny m hm out h i j hi hj v hv hl]
  rw [Props.C05.deltachange_cellwise loc fs obs hist (map3 φ fut) nx ny m hm out' h' i j hi hj (v.map ψ)
    (by rw [slice_map3]; exact hloc) (by rw [List.length_map]; exact hl)]
  rw [List.map_map, List.map_map]
  rfl

open Model.Grid in
/-- **`apply(obs, cm_hist, cm_future + c) = apply(obs, cm_hist, cm_future) + c`, cell by cell**, for a location
    function with the shift law at that cell (every additive theorem of parts A / B provides it). -/
theorem grid_shift {ε : Type} (loc : LocFn Rat ε) (c : Rat) (fs : Bool) (obs hist fut : Arr3 Rat)
    (nx ny : Nat) (m : Mode) (hm : ModeOk m nx ny) (out out' : Arr3 (Elem Rat))
    (h : debiaserApply loc fs obs hist fut nx ny m = .ok out)
    (h' : debiaserApply loc fs obs hist (map3 (fun x => x + c) fut) nx ny m = .ok out')
    (i j : Nat) (hi : i < nx) (hj : j < ny) (v : List Rat)
    (hv : loc (slice obs i j) (slice hist i j) (slice fut i j) = .ok v) (hl : v.length = fut.length)
    (hloc : loc (slice obs i j) (slice hist i j) ((slice fut i j).map (fun x => x + c)) =
      (loc (slice obs i j) (slice hist i j) (slice fut i j)).map (List.map (fun x => x + c))) :
    slice out' i j = (slice out i j).map (Option.map (valMap (fun x => x + c))) :=
  grid_equivariant loc _ _ fs obs hist fut nx ny m hm out out' h h' i j hi hj v hv hl (by rw [hloc, hv]; rfl)

open Model.Grid in
/-- the multiplicative counterpart -/
theorem grid_scale {ε : Type} (loc : LocFn Rat ε) (k : Rat) (fs : Bool) (obs hist fut : Arr3 Rat)
    (nx ny : Nat) (m : Mode) (hm : ModeOk m nx ny) (out out' : Arr3 (Elem Rat))
    (h : debiaserApply loc fs obs hist fut nx ny m = .ok out)
    (h' : debiaserApply loc fs obs hist (map3 (fun x => k * x) fut) nx ny m = .ok out')
    (i j : Nat) (hi : i < nx) (hj : j < ny) (v : List Rat)
    (hv : loc (slice obs i j) (slice hist i j) (slice fut i j) = .ok v) (hl : v.length = fut.length)
    (hloc : loc (slice obs i j) (slice hist i j) ((slice fut i j).map (fun x => k * x)) =
      (loc (slice obs i j) (slice hist i j) (slice fut i j)).map (List.map (fun x => k * x))) :
    slice out' i j = (slice out i j).map (Option.map (valMap (fun x => k * x))) :=
  grid_equivariant loc _ _ fs obs hist fut nx ny m hm out out' h h' i j hi hj v hv hl (by rw [hloc, hv]; rfl)

/-- non-vacuity at the grid level: window-free LinearScaling as the location function satisfies `hloc` at every cell -/
example (o h x : List Rat) (c : Rat) :
    (fun o h x => (Except.ok (linearScaling .additive o h x) : Except String (List Rat))) o h (x.map (fun v => v + c)) =
      ((fun o h x => (Except.ok (linearScaling .additive o h x) : Except String (List Rat))) o h x).map
        (List.map (fun v => v + c)) := by
  simp only [Except.map, ls_add_shift]

/-! ### storage order: the trend is a function of the dated values, not of where they are stored -/

/-- **The within-period trend does not depend on the storage order of the dated series** (a descending, block-swapped
    or shuffled time axis given with its explicit dates): for two arrangements `xs`, `xs'` of the same dated values
    the regression slope of the annual means and the mean year coincide, … -/
theorem isimip_trend_order_free {xs xs' : List Dated} (h : xs.Perm xs') :
    trendSlope (xs.map Prod.fst) (xs.map Prod.snd) = trendSlope (xs'.map Prod.fst) (xs'.map Prod.snd) ∧
    meanYear (xs.map Prod.snd) = meanYear (xs'.map Prod.snd) :=
  ⟨trendSlope_order_free h, meanYear_order_free (h.map Prod.snd)⟩

/-- … and **what step 3 removes from a dated value (and step 7 restores) is the same amount per date in either
    arrangement**: in the arrangement `xs'` every value of year `y` loses `trendAt cfg sig xs y`, the amount it loses
    in the arrangement `xs` (`trendAt` reads the annual trend at the position of `y` in `np.unique(years)`). -/
theorem isimip_removed_trend_order_free (cfg : Model.Isimip.Cfg) (sig : Bool) {xs xs' : List Dated} (h : xs.Perm xs') :
    (Model.Isimip.step3RemoveTrend cfg sig (xs'.map Prod.fst) (xs'.map Prod.snd)).2 =
      xs'.map (fun p => trendAt cfg sig xs p.2) ∧
    (Model.Isimip.step3RemoveTrend cfg sig (xs.map Prod.fst) (xs.map Prod.snd)).2 =
      xs.map (fun p => trendAt cfg sig xs p.2) := by
  unfold Model.Isimip.step3RemoveTrend
  simp only [dailyTrend_eq_trendAt, trendAt_order_free cfg sig h, and_self]

example : ([((1 : Rat), (2031 : Int)), (2, 2030), (4, 2031)] : List Dated).Perm [(2, 2030), (1, 2031), (4, 2031)] := by
  decide

/-! ### inferred dates (`time_* = None`): consecutive days from 1950-01-01, a function of the length only -/

open Model.InferredDates in
/-- the inferred days of year are well formed for every length: one per step, each in `1..366` — the date guards of
    the windowed theorems hold automatically when `time_cm_future` is not given -/
theorem inferred_doy_wellformed (n : Nat) : (inferredDoy n).length = n ∧ ∀ d ∈ inferredDoy n, 1 ≤ d ∧ d ≤ 366 :=
  ⟨inferredDoy_length n, inferredDoy_range n⟩

open Model.InferredDates in
/-- **The time information of a changed series is that of the original one**, given or inferred: an element-wise
    change keeps the length, and the inferred arrays depend on the length only. -/
theorem inferred_length_only {α} (φ : α → α) (x : List α) (given : Option (List Int)) (inferred : Nat → List Int) :
    resolve given inferred (x.map φ).length = resolve given inferred x.length := by
  rw [List.length_map]

open Model.InferredDates in
/-- not giving the dates is the same as giving the dates ibicus would infer (the correspondence
    `DrvInferredDates` ties `inferredDoy / inferredYears / inferredMonths` to the real inferred arrays) -/
theorem inferred_eq_explicit (inferred : Nat → List Int) (n : Nat) :
    resolve none inferred n = resolve (some (inferred n)) inferred n := rfl

open Model.InferredDates in
/-- **Seasonal lift with inferred dates**: `time_obs`, `time_cm_hist` given or not, `time_cm_future` not given —
    no guard on dates is left (only the window parameters `0 < S ≤ L`). -/
theorem windowed_shift_inferred (g : List Rat → List Rat → List Rat → List Rat) (c : Rat)
    (hg : ∀ o h x, x ≠ [] → g o h (x.map (fun v => v + c)) = (g o h x).map (fun v => v + c))
    (L S : Int) (tO tH : Option (List Int)) (obs hist fut : List Rat) (hS : 0 < S) (hSL : S ≤ L) :
    applyLocationRW (winOf g) L S (resolve tO inferredDoy obs.length) (resolve tH inferredDoy hist.length)
        (resolve none inferredDoy (fut.map (fun v => v + c)).length) obs hist (fut.map (fun v => v + c)) =
      (applyLocationRW (winOf g) L S (resolve tO inferredDoy obs.length) (resolve tH inferredDoy hist.length)
        (resolve none inferredDoy fut.length) obs hist fut).map (List.map (Option.map (fun v => v + c))) := by
  rw [inferred_length_only]
  exact windowed_shift g c hg L S _ _ _ obs hist fut hS hSL (inferredDoy_length _) (inferredDoy_range _)

open Model.InferredDates in
theorem windowed_scale_inferred (g : List Rat → List Rat → List Rat → List Rat) (k : Rat)
    (hg : ∀ o h x, x ≠ [] → g o h (x.map (fun v => k * v)) = (g o h x).map (fun v => k * v))
    (L S : Int) (tO tH : Option (List Int)) (obs hist fut : List Rat) (hS : 0 < S) (hSL : S ≤ L) :
    applyLocationRW (winOf g) L S (resolve tO inferredDoy obs.length) (resolve tH inferredDoy hist.length)
        (resolve none inferredDoy (fut.map (fun v => k * v)).length) obs hist (fut.map (fun v => k * v)) =
      (applyLocationRW (winOf g) L S (resolve tO inferredDoy obs.length) (resolve tH inferredDoy hist.length)
        (resolve none inferredDoy fut.length) obs hist fut).map (List.map (Option.map (fun v => k * v))) := by
  rw [inferred_length_only]
  exact windowed_scale g k hg L S _ _ _ obs hist fut hS hSL (inferredDoy_length _) (inferredDoy_range _)

example : Model.InferredDates.dateOf 18321 = (2000, 60) := by decide  -- 29 February 2000

/-! ### ISIMIP month mode: a linear within-period trend added to the whole `cm_future` series passes through -/

/-- **ISIMIP `apply_location`, month mode: adding `b·(year − mean year)` to `cm_future` adds exactly that signal to
    every debiased value** (`addSignal`: `out'[i] = out[i] + b·(year_i − mean year)`, never-written entries stay so).
    Guards (those the harness checks on its cases): detrending on; in every calendar month the regression of
    `cm_future` is significant in both runs (oracle, the same decision: `hsigF`); every month sample covers the same
    mean year as the whole series (`hmean`: every year has every month) and at least two different years (`h2`);
    month / year lists parallel to the series; no scaling by the annual cycle.  Any configuration of steps 4–6. -/
theorem isimip_months_linear_trend_passes (cfg : Model.Isimip.Cfg) (hd : cfg.detrending = true)
    (hsig : cfg.detrendingWithSignificanceTest = true) (hcyc : cfg.scaleByAnnualCycle = false)
    (fam : Model.Isimip.IsiFamily) (orc : List Nat → Model.Isimip.Oracles) (drw : List Nat → Model.Isimip.Draws)
    (b : Rat) (mO mH mF doyO doyH doyF yearsO yearsH yearsF : List Int) (obs H F : List Rat)
    (hlF : mF.length = F.length) (hyF : F.length = yearsF.length)
    (hsigF : ∀ m ∈ Py.arange1 1 13, (orc (monthIdx mF m)).sigF = true)
    (hmean : ∀ m ∈ Py.arange1 1 13, meanYear (take yearsF (monthIdx mF m)) = meanYear yearsF)
    (h2 : ∀ m ∈ Py.arange1 1 13, ∃ y1 ∈ take yearsF (monthIdx mF m), ∃ y2 ∈ take yearsF (monthIdx mF m), y1 ≠ y2) :
    Model.Isimip.applyLocationMonths cfg fam orc drw mO mH mF doyO doyH doyF yearsO yearsH yearsF obs H
        (List.zipWith (· + ·) F (linearSignal b yearsF)) =
      (Model.Isimip.applyLocationMonths cfg fam orc drw mO mH mF doyO doyH doyF yearsO yearsH yearsF obs H F).map
        (addSignal (linearSignal b yearsF)) := by
  have hG : (linearSignal b yearsF).length = F.length := by simp [linearSignal, hyF]
  have hvalidF : ∀ m, ∀ j ∈ monthIdx mF m, j < F.length := fun m j hj => hlF ▸ monthIdx_valid mF m j hj
  -- the global signal restricted to a month sample is the month sample's own linear signal
  have hsignal : ∀ m ∈ Py.arange1 1 13, take (linearSignal b yearsF) (monthIdx mF m) = linearSignal b (take yearsF (monthIdx mF m)) := by
    intro m hm
    unfold linearSignal
    rw [take_map', hmean m hm]
  have hwlen : ∀ m, (take F (monthIdx mF m)).length = (take yearsF (monthIdx mF m)).length :=
    fun m => take_length_eq F yearsF _ hyF (hvalidF m)
  have h := applyLocationMonths_pos (Model.Isimip.winFn cfg fam orc drw yearsO yearsH yearsF) mO mH mF obs H F
    (linearSignal b yearsF) hG hlF
    (by
      intro m hm
      simp only [Model.Isimip.winFn]
      rw [hsignal m hm]
      exact applyOnWindow_add_linear cfg hd hsig fam _ (hsigF m hm) _ b _ _ _ _ _ _ (hwlen m)
        (yearsSS_ne_zero _ (h2 m hm)))
    (by
      intro m _ res hres
      simp only [Model.Isimip.winFn] at hres
      rw [applyOnWindow_length cfg fam _ _ _ _ _ _ _ _ res (hwlen m) hres]
      exact Lemmas.Pointwise.take_length F _ (hvalidF m))
  unfold Model.Isimip.applyLocationMonths Model.Isimip.step1 Model.Isimip.step8Buffer
  simp only [hcyc, Bool.false_eq_true, if_false, bind, Except.bind, pure, Except.pure, h]
  cases applyLocationMonths (Model.Isimip.winFn cfg fam orc drw yearsO yearsH yearsF) mO mH mF obs H F with
  | error e => rfl
  | ok out => rfl

/-- the guards are satisfiable: two full years of monthly values — every month sample is `{2030, 2031}` -/
example : ∀ m ∈ Py.arange1 1 13, ∃ y1 ∈ take ((List.replicate 12 (2030 : Int)) ++ List.replicate 12 2031)
      (monthIdx (Py.arange1 1 13 ++ Py.arange1 1 13) m),
    ∃ y2 ∈ take ((List.replicate 12 (2030 : Int)) ++ List.replicate 12 2031) (monthIdx (Py.arange1 1 13 ++ Py.arange1 1 13) m),
      y1 ≠ y2 := by decide

/-! ### the quantifier "ISIMIP additive", from the library's own settings table (tier A) -/

/-- **Every variable whose documented trend preservation is additive — tas, psl, rlds — built from the library defaults**
    (`ISIMIP.from_variable(v)`: the configuration read from the regenerated settings dictionaries,
    `Lemmas.GenIsimipVars.genCfg`) passes a constant shift of `cm_future` through `_apply_on_window`; also with the
    documented options switched on top of the defaults that keep the configuration additive and unbounded
    (`event_likelihood_adjustment`, `nonparametric_qm`, `detrending`, … : `isimip_additive_shift` is for every such `cfg`). -/
theorem isimip_default_variables_shift (v : String) (hv : v ∈ additiveVariables) (cfg : Model.Isimip.Cfg)
    (hcfg : Lemmas.GenIsimipVars.genCfg v = some cfg)
    (fam : Model.Isimip.IsiFamily) (hL : IsiShiftLaws fam) (o : Model.Isimip.Oracles) (d : Model.Isimip.Draws) (c : Rat)
    (obs H F : List Rat) (yO yH yF : List Int)
    (hO : obs ≠ []) (hH : H ≠ []) (hF : F ≠ [])
    (hlO : obs.length = yO.length) (hlH : H.length = yH.length) (hlF : F.length = yF.length) :
    Model.Isimip.applyOnWindow cfg fam o d obs H (F.map (fun x => x + c)) yO yH yF =
      (Model.Isimip.applyOnWindow cfg fam o d obs H F yO yH yF).map (List.map (fun x => x + c)) := by
  have h := additive_variables_cfg v hv
  rw [hcfg] at h
  obtain ⟨hU, ht, _, _⟩ := additiveCfg_spec h
  exact isimip_additive_shift cfg hU ht fam hL o d c obs H F yO yH yF hO hH hF hlO hlH hlF

/-- the event-likelihood adjustment on top of a default additive configuration stays within the theorem -/
example (cfg : Model.Isimip.Cfg) (hU : Unbounded cfg) : Unbounded { cfg with eventLikelihoodAdjustment := true } :=
  ⟨hU.lb, hU.lt, hU.ub, hU.ut⟩

example : "rlds" ∈ additiveVariables := by decide

end Props.C02
