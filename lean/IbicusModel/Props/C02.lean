/-
  C02 — trend preservation: a uniform climate-change signal passes through unchanged.

  Property theorems only (helper lemmas: `Lemmas/C02*.lean`, `Lemmas/StatsAffine.lean`, `Lemmas/Lift.lean`).
  Every theorem is about the shared layer-N model (`Model/Debiasers.lean`, `Model/Isimip.lean`) over exact
  rationals; `obs`, `H` (= cm_hist) are fixed, `F` (= cm_future) is shifted by `c` (`F.map (· + c)`) resp.
  scaled by `k > 0` (`F.map (k * ·)`).  Guards are explicit hypotheses.  Float rounding is not modelled.

  Part A — per window:   ls_add_shift, dc_add_shift, qm_additive_detrending_shift, sdm_absolute_shift,
                         ecdfm_shift, qdm_absolute_shift(G), cdft_shift(G), isimip_additive_shift;
                         ls_mult_scale, dc_mult_scale, qm_multiplicative_detrending_scale;
                         ls/dc mean-change identities; isimip_step7_restores (+ linear-trend pass-through).
  Part B — whole series: `*_windowed_shift` (seasonal running windows, DeltaChange loop, ISIMIP month mode,
                         CDFt / QDM year windows) by the lifting lemmas of `Lemmas/Lift.lean`.
-/
import IbicusModel.Lemmas.C02Mean
import IbicusModel.Lemmas.C02Shift
import IbicusModel.Lemmas.C02Isimip
import IbicusModel.Lemmas.C02Lift

namespace Props.C02
open Model.Stats Model.Family Model.Debiasers Lemmas.C02

/-! ## Part A — per-window theorems -/

/-! ### LinearScaling -/

/-- **LinearScaling, additive**: adding `c` to every value of `cm_future` adds `c` to every debiased value. -/
theorem ls_add_shift (obs H F : List Rat) (c : Rat) :
    linearScaling .additive obs H (F.map (fun x => x + c)) =
      (linearScaling .additive obs H F).map (fun y => y + c) := by
  unfold linearScaling
  simp only [List.map_map]
  apply List.map_congr_left
  intro x _
  simp only [Function.comp]
  ring

example : linearScaling .additive [1, 2] [3, 5] ([4, 8].map (fun x => x + 3)) = [9 / 2, 17 / 2] := by decide +kernel

/-- **LinearScaling, multiplicative**: scaling `cm_future` by `k` scales the output by `k`
    (guards of the property: `k > 0`, the division `mean obs / mean H` is defined). -/
theorem ls_mult_scale (obs H F : List Rat) (k : Rat) (_hk : 0 < k) (_hH : mean H ≠ 0) :
    linearScaling .multiplicative obs H (F.map (fun x => k * x)) =
      (linearScaling .multiplicative obs H F).map (fun y => k * y) := by
  unfold linearScaling
  simp only [List.map_map]
  apply List.map_congr_left
  intro x _
  simp only [Function.comp]
  ring

example : (0 : Rat) < 2 ∧ mean [3, 5] ≠ 0 := by decide +kernel
example : linearScaling .multiplicative [1, 2] [3, 5] ([4, 8].map (fun x => 2 * x)) = [3, 6] := by decide +kernel

/-- mean of an element-wise map `x ↦ x − d` -/
theorem mean_map_sub (d : Rat) (xs : List Rat) (h : xs ≠ []) : mean (xs.map (fun x => x - d)) = mean xs - d := by
  have : xs.map (fun x => x - d) = xs.map (fun x => x + -d) := by
    apply List.map_congr_left; intro x _; ring
  rw [this, mean_shift (-d) xs h]; ring

theorem mean_map_mul_right (r : Rat) (xs : List Rat) : mean (xs.map (fun x => x * r)) = mean xs * r := by
  have : xs.map (fun x => x * r) = xs.map (fun x => r * x) := by
    apply List.map_congr_left; intro x _; ring
  rw [this, mean_scale]; ring

/-- **LinearScaling, additive — mean change**: the change of the time mean relative to observations equals the
    simulated change between `cm_hist` and `cm_future`. -/
theorem ls_add_mean_change (obs H F : List Rat) (hF : F ≠ []) :
    mean (linearScaling .additive obs H F) - mean obs = mean F - mean H := by
  unfold linearScaling
  simp only
  rw [mean_map_sub _ F hF]
  ring

example : mean (linearScaling .additive [1, 2] [3, 5] [4, 8]) - mean [1, 2] = mean [4, 8] - mean [3, 5] := by
  decide +kernel

/-- **LinearScaling, multiplicative — mean change as a ratio**: `mean out / mean obs = mean F / mean H`
    (guards: `mean H ≠ 0`, `mean obs ≠ 0`). -/
theorem ls_mult_mean_change (obs H F : List Rat) (hH : mean H ≠ 0) (hO : mean obs ≠ 0) :
    mean (linearScaling .multiplicative obs H F) / mean obs = mean F / mean H := by
  unfold linearScaling
  simp only
  rw [mean_map_mul_right]
  field_simp

example : mean [3, 5] ≠ 0 ∧ mean [1, 2] ≠ 0 := by decide +kernel

/-! ### DeltaChange -/

/-- **DeltaChange, additive**: adding `c` to `cm_future` adds `c` to the (observation-based) output. -/
theorem dc_add_shift (obs H F : List Rat) (c : Rat) (hF : F ≠ []) :
    deltaChange .additive obs H (F.map (fun x => x + c)) =
      (deltaChange .additive obs H F).map (fun y => y + c) := by
  unfold deltaChange
  simp only [List.map_map]
  rw [mean_shift c F hF]
  apply List.map_congr_left
  intro x _
  simp only [Function.comp]
  ring

example : deltaChange .additive [1, 2] [3, 5] ([4, 8].map (fun x => x + 3)) = [6, 7] := by decide +kernel

/-- **DeltaChange, multiplicative**: scaling `cm_future` by `k > 0` scales the output by `k` (guard `mean H ≠ 0`). -/
theorem dc_mult_scale (obs H F : List Rat) (k : Rat) (_hk : 0 < k) (_hH : mean H ≠ 0) :
    deltaChange .multiplicative obs H (F.map (fun x => k * x)) =
      (deltaChange .multiplicative obs H F).map (fun y => k * y) := by
  unfold deltaChange
  simp only [List.map_map]
  rw [mean_scale]
  apply List.map_congr_left
  intro x _
  simp only [Function.comp]
  ring

example : deltaChange .multiplicative [1, 2] [3, 5] ([4, 8].map (fun x => 2 * x)) = [3, 6] := by decide +kernel

/-- **DeltaChange, additive — mean change** -/
theorem dc_add_mean_change (obs H F : List Rat) (hO : obs ≠ []) :
    mean (deltaChange .additive obs H F) - mean obs = mean F - mean H := by
  unfold deltaChange
  simp only
  rw [mean_shift _ obs hO]
  ring

example : mean (deltaChange .additive [1, 2] [3, 5] [4, 8]) - mean [1, 2] = mean [4, 8] - mean [3, 5] := by
  decide +kernel

/-- **DeltaChange, multiplicative — mean change as a ratio** (guard `mean obs ≠ 0`; `mean H ≠ 0` is the guard
    of the window function itself) -/
theorem dc_mult_mean_change (obs H F : List Rat) (_hH : mean H ≠ 0) (hO : mean obs ≠ 0) :
    mean (deltaChange .multiplicative obs H F) / mean obs = mean F / mean H := by
  unfold deltaChange
  simp only
  rw [mean_map_mul_right]
  field_simp

/-! ### QuantileMapping with detrending — any inner mapping `qm` (the proof never opens `_standard_qm`) -/

/-- **QuantileMapping, additive detrending**: for an arbitrary inner mapping `qm x obs H`. -/
theorem qm_additive_detrending_shift (qm : List Rat → List Rat → List Rat → List Rat)
    (obs H F : List Rat) (c : Rat) (hF : F ≠ []) :
    quantileMapping qm .additive obs H (F.map (fun x => x + c)) =
      (quantileMapping qm .additive obs H F).map (fun y => y + c) := by
  unfold quantileMapping
  simp only
  rw [mean_shift c F hF]
  have hin : (F.map (fun x => x + c)).map (fun x => x - (mean F + c - mean H)) =
      F.map (fun x => x - (mean F - mean H)) := by
    rw [List.map_map]
    apply List.map_congr_left
    intro x _
    simp only [Function.comp]
    ring
  rw [hin, List.map_map]
  apply List.map_congr_left
  intro y _
  simp only [Function.comp]
  ring

example : qmNonparam .additive [1, 2, 4] [3, 5, 6] ([4, 8, 9].map (fun x => x + 3)) =
    (qmNonparam .additive [1, 2, 4] [3, 5, 6] [4, 8, 9]).map (fun y => y + 3) :=
  qm_additive_detrending_shift standardQMNonparam _ _ _ 3 (by decide)

/-- **QuantileMapping, multiplicative detrending**: scaling `cm_future` by `k > 0` scales the output by `k`
    (guards `mean H ≠ 0`, `mean F ≠ 0`: the two divisions of the code). -/
theorem qm_multiplicative_detrending_scale (qm : List Rat → List Rat → List Rat → List Rat)
    (obs H F : List Rat) (k : Rat) (hk : 0 < k) (_hH : mean H ≠ 0) (_hF : mean F ≠ 0) :
    quantileMapping qm .multiplicative obs H (F.map (fun x => k * x)) =
      (quantileMapping qm .multiplicative obs H F).map (fun y => k * y) := by
  unfold quantileMapping
  simp only
  rw [mean_scale]
  have hk' : k ≠ 0 := ne_of_gt hk
  have hin : (F.map (fun x => k * x)).map (fun x => x / (k * mean F / mean H)) =
      F.map (fun x => x / (mean F / mean H)) := by
    rw [List.map_map]
    apply List.map_congr_left
    intro x _
    simp only [Function.comp]
    rw [mul_div_assoc k (mean F) (mean H), mul_div_mul_left _ _ hk']
  rw [hin, List.map_map]
  apply List.map_congr_left
  intro y _
  simp only [Function.comp]
  ring

example : (0 : Rat) < 2 ∧ mean [3, 5, 6] ≠ 0 ∧ mean [4, 8, 9] ≠ 0 := by decide +kernel
example : qmNonparam .multiplicative [1, 2, 4] [3, 5, 6] ([4, 8, 9].map (fun x => 2 * x)) =
    (qmNonparam .multiplicative [1, 2, 4] [3, 5, 6] [4, 8, 9]).map (fun y => 2 * y) :=
  qm_multiplicative_detrending_scale standardQMNonparam _ _ _ 2 (by norm_num) (by decide +kernel) (by decide +kernel)

/-! ### ScaledDistributionMapping, absolute -/

theorem zipWith_shift_right (g : Rat → Rat → Rat) (c : Rat) (hg : ∀ b t, g b (t + c) = g b t + c) :
    ∀ (bs ts : List Rat), List.zipWith g bs (ts.map (fun x => x + c)) = (List.zipWith g bs ts).map (fun x => x + c)
  | [], _ => by simp
  | _ :: _, [] => by simp
  | b :: bs, t :: ts => by
      simp only [List.map_cons, List.zipWith_cons_cons, hg, zipWith_shift_right g c hg bs ts]

/-- **SDM absolute**: everything except the re-added `trend = cm_future − detrend(cm_future)` is computed from the
    detrended future sample, which does not see the shift.  Any location–scale family; no law needed. -/
theorem sdm_absolute_shift (Fam : LocScaleFam) (obs H F : List Rat) (c : Rat) (hF : F ≠ []) :
    sdmAbsolute Fam obs H (F.map (fun x => x + c)) = (sdmAbsolute Fam obs H F).map (fun y => y + c) := by
  unfold sdmAbsolute sdmAbsoluteSorted sdmAbsCdfFut
  simp only [detrendConst_shift c F hF, List.length_map, subL_shift_left]
  apply zipWith_shift_right
  intro b t
  ring

example : sdmAbsolute ratSigmoid [1, 2, 4] [3, 5, 6, 9] ([4, 8, 9].map (fun x => x + 3)) =
    (sdmAbsolute ratSigmoid [1, 2, 4] [3, 5, 6, 9] [4, 8, 9]).map (fun y => y + 3) :=
  sdm_absolute_shift ratSigmoid _ _ _ 3 (by decide)

/-! ### ECDFM -/

/-- **ECDFM** over any location–scale family satisfying `LocScaleLaws`: the fit of the shifted future sample is the
    shifted fit, so `τ = cdf_F(x)` is unchanged; the `ppf` terms do not involve `cm_future`. -/
theorem ecdfm_shift (Fam : LocScaleFam) (L : LocScaleLaws Fam) (t : Rat) (obs H F : List Rat) (c : Rat)
    (hF : F ≠ []) :
    ecdfm Fam.toFamily t obs H (F.map (fun x => x + c)) = (ecdfm Fam.toFamily t obs H F).map (fun y => y + c) := by
  unfold ecdfm LocScaleFam.toFamily
  simp only [List.map_map]
  rw [fit_shift L c F hF]
  apply List.map_congr_left
  intro x _
  simp only [Function.comp, cdf_shift]
  ring

example : LocScaleLaws ratSigmoid := Lemmas.Family.ratSigmoid_laws
example : ecdfm ratSigmoid.toFamily (1 / 64) [1, 2, 4] [3, 5, 6, 9] ([4, 8, 9].map (fun x => x + 3)) =
    (ecdfm ratSigmoid.toFamily (1 / 64) [1, 2, 4] [3, 5, 6, 9] [4, 8, 9]).map (fun y => y + 3) := by decide +kernel

/-! ### QuantileDeltaMapping, absolute -/

/-- **QDM absolute, generic** in the family (the `ppf` terms do not involve `cm_future`) and in the empirical cdf
    `E`, which only has to be shift invariant (`E (x + c) (y + c) = E x y`); censoring off (it is a
    precipitation setting and does not commute with a shift). -/
theorem qdm_absolute_shiftG {P} (Fam : Family P) (E : List Rat → Rat → Rat)
    (hE : ∀ (x : List Rat) (y c : Rat), x ≠ [] → E (x.map (fun v => v + c)) (y + c) = E x y)
    (t : Rat) (F : List Rat) (fo fh : P) (c : Rat) :
    qdmStepsG Fam .absolute E t none (F.map (fun x => x + c)) fo fh =
      (qdmStepsG Fam .absolute E t none F fo fh).map (fun y => y + c) := by
  unfold qdmStepsG
  simp only [List.map_map]
  apply List.map_congr_left
  intro x hx
  simp only [Function.comp, hE F x c (List.ne_nil_of_mem hx), qdmCensor, qdmCore]
  ring

/-- **QDM absolute** with the two empirical cdfs of the code (`step_function`, `linear_interpolation`),
    `running_window_mode_over_years_of_cm_future = False`. -/
theorem qdm_absolute_shift {P} (Fam : Family P) (em : EcdfMethod) (t : Rat) (obs H F : List Rat) (c : Rat) :
    qdmWindow Fam .absolute em t none obs H (F.map (fun x => x + c)) =
      (qdmWindow Fam .absolute em t none obs H F).map (fun y => y + c) := by
  unfold qdmWindow qdmSteps
  exact qdm_absolute_shiftG Fam (ecdf1 em) (fun x y c _ => ecdf1_shift em x y c) t F _ _ c

example : qdmWindow ratSigmoid.toFamily .absolute .linear (1 / 64) none [1, 2, 4] [3, 5, 6, 9] ([4, 8, 9].map (fun x => x + 3)) =
    (qdmWindow ratSigmoid.toFamily .absolute .linear (1 / 64) none [1, 2, 4] [3, 5, 6, 9] [4, 8, 9]).map (fun y => y + 3) :=
  qdm_absolute_shift _ _ _ _ _ _ 3

/-! ### CDFt — every `ecdf` / `iecdf` pair -/

/-- the four stages of `_apply_CDFt_mapping` after the delta shift: shifting the (already delta-shifted) future
    sample `F'` by `c` shifts the result by `c` -/
theorem cdft_core_shift (E Q : List Rat → Rat → Rat) (hL : ShiftLaws E Q) (obs H' F' : List Rat) (c : Rat)
    (hH : H' ≠ []) (hF : F' ≠ []) :
    cdftStage4 Q (F'.map (fun x => x + c)) (cdftStage3 E H' (cdftStage2 Q obs (cdftStage1 E (F'.map (fun x => x + c))))) =
      (cdftStage4 Q F' (cdftStage3 E H' (cdftStage2 Q obs (cdftStage1 E F')))).map (fun y => y + c) := by
  have h1 : cdftStage1 E (F'.map (fun x => x + c)) = cdftStage1 E F' := by
    unfold cdftStage1
    rw [List.map_map]
    apply List.map_congr_left
    intro x _
    simp only [Function.comp]
    exact hL.E_shift F' x c hF
  rw [h1]
  unfold cdftStage4
  rw [List.map_map]
  apply List.map_congr_left
  intro q hq
  simp only [Function.comp]
  apply hL.Q_shift F' q c hF
  unfold cdftStage3 at hq
  obtain ⟨y, _, rfl⟩ := List.mem_map.mp hq
  exact hL.E_le_one H' y hH

/-- **CDFt, generic**: for *any* empirical cdf `E` and inverse empirical cdf `Q` satisfying `ShiftLaws`, with the
    default additive delta shift or without shift (`delta_shift ∈ {"additive", "no_shift"}`). -/
theorem cdft_shiftG (E Q : List Rat → Rat → Rat) (hL : ShiftLaws E Q) (d : DeltaShift)
    (hd : d = .additive ∨ d = .no_shift) (obs H F : List Rat) (c : Rat) (hH : H ≠ []) (hF : F ≠ []) :
    cdftMappingG E Q d obs H (F.map (fun x => x + c)) = (cdftMappingG E Q d obs H F).map (fun y => y + c) := by
  unfold cdftMappingG cdftShifted
  rcases hd with rfl | rfl
  · simp only []
    have hcomm : (F.map (fun x => x + c)).map (fun x => x + (mean obs - mean H)) =
        (F.map (fun x => x + (mean obs - mean H))).map (fun x => x + c) := by
      rw [List.map_map, List.map_map]
      apply List.map_congr_left
      intro x _
      simp only [Function.comp]
      ring
    rw [hcomm]
    exact cdft_core_shift E Q hL obs _ _ c (map_ne_nil _ hH) (map_ne_nil _ hF)
  · exact cdft_core_shift E Q hL obs H F c hH hF

/-- with the multiplicative delta shift the signal is *rescaled* with the historical bias ratio (recorded for
    completeness: `delta_shift = "multiplicative"` is not a trend-preserving configuration in the additive sense) -/
theorem cdft_multiplicative_shiftG (E Q : List Rat → Rat → Rat) (hL : ShiftLaws E Q) (obs H F : List Rat) (c : Rat)
    (hH : H ≠ []) (hF : F ≠ []) :
    cdftMappingG E Q .multiplicative obs H (F.map (fun x => x + c)) =
      (cdftMappingG E Q .multiplicative obs H F).map (fun y => y + c * (mean obs / mean H)) := by
  unfold cdftMappingG cdftShifted
  simp only []
  have hcomm : (F.map (fun x => x + c)).map (fun x => x * (mean obs / mean H)) =
      (F.map (fun x => x * (mean obs / mean H))).map (fun x => x + c * (mean obs / mean H)) := by
    rw [List.map_map, List.map_map]
    apply List.map_congr_left
    intro x _
    simp only [Function.comp]
    ring
  rw [hcomm]
  exact cdft_core_shift E Q hL obs _ _ _ (map_ne_nil _ hH) (map_ne_nil _ hF)

/-- **CDFt** for each of the 2 × 9 `ecdf_method` × `iecdf_method` pairs of the library -/
theorem cdft_shift (d : DeltaShift) (hd : d = .additive ∨ d = .no_shift) (em : EcdfMethod) (im : IecdfMethod)
    (obs H F : List Rat) (c : Rat) (hH : H ≠ []) (hF : F ≠ []) :
    cdftMapping d em im obs H (F.map (fun x => x + c)) = (cdftMapping d em im obs H F).map (fun y => y + c) :=
  cdft_shiftG _ _ (shiftLaws_ecdf_iecdf em im) d hd obs H F c hH hF

/-- **CDFt with `ecdf_method = "kernel_density"`** under the oracle law "the histogram bins shift with the data" -/
theorem cdft_hist_shift (bins : List Rat → List Rat × List Nat) (hb : BinsShift bins) (d : DeltaShift)
    (hd : d = .additive ∨ d = .no_shift) (im : IecdfMethod) (obs H F : List Rat) (c : Rat) (hH : H ≠ []) (hF : F ≠ []) :
    cdftMappingG (histE bins) (iecdf1 im) d obs H (F.map (fun x => x + c)) =
      (cdftMappingG (histE bins) (iecdf1 im) d obs H F).map (fun y => y + c) :=
  cdft_shiftG _ _ (shiftLaws_hist_iecdf bins hb im) d hd obs H F c hH hF

example : cdftMapping .additive .linear .linear [1, 2, 4] [3, 5, 6, 9] ([4, 8, 9].map (fun x => x + 3)) =
    (cdftMapping .additive .linear .linear [1, 2, 4] [3, 5, 6, 9] [4, 8, 9]).map (fun y => y + 3) :=
  cdft_shift .additive (Or.inl rfl) .linear .linear _ _ _ 3 (by decide) (by decide)

/-- the deterministic `_apply_debiasing_steps` (`SSR = False`; SSR is the precipitation path, for which an additive
    shift of a zero-inflated series is not part of the property) -/
theorem cdft_steps_shift (d : DeltaShift) (hd : d = .additive ∨ d = .no_shift) (em : EcdfMethod) (im : IecdfMethod)
    (obs H F u : List Rat) (c : Rat) (hH : H ≠ []) (hF : F ≠ []) :
    cdftSteps false d em im obs H (F.map (fun x => x + c)) u = (cdftSteps false d em im obs H F u).map (fun y => y + c) := by
  unfold cdftSteps cdftStepsG
  simp only [Bool.false_eq_true, if_false]
  exact cdft_shift d hd em im obs H F c hH hF

/-! ### ISIMIP, additive / unbounded -/

/-- **ISIMIP additive (steps 3–7 of `_apply_on_window`)**: trend method `additive`, no bounds / thresholds (tas, psl,
    rlds), parametric **or** non-parametric step 6, with or without detrending and event-likelihood adjustment, any
    `ecdf` / `iecdf` methods; any family with `IsiShiftLaws`.  The `linregress` significance decisions and the
    Kolmogorov–Smirnov decision are the oracle `o`, the same in both runs (oracle laws: both are invariant under the
    common shift; the regression *slope* is modelled exactly and its invariance is proved: `linSlope_shift`). -/
theorem isimip_additive_shift (cfg : Model.Isimip.Cfg) (hU : Unbounded cfg) (ht : cfg.trendMethod = .additive)
    (fam : Model.Isimip.IsiFamily) (hL : IsiShiftLaws fam) (o : Model.Isimip.Oracles) (d : Model.Isimip.Draws) (c : Rat)
    (obs H F : List Rat) (yO yH yF : List Int)
    (hO : obs ≠ []) (hH : H ≠ []) (hF : F ≠ [])
    (hlO : obs.length = yO.length) (hlH : H.length = yH.length) (hlF : F.length = yF.length) :
    Model.Isimip.applyOnWindow cfg fam o d obs H (F.map (fun v => v + c)) yO yH yF =
      (Model.Isimip.applyOnWindow cfg fam o d obs H F yO yH yF).map (List.map (fun v => v + c)) :=
  applyOnWindow_shift cfg hU ht fam hL o d c obs H F yO yH yF hO hH hF hlO hlH hlF

/-- the family laws are satisfiable: every location–scale family with `LocScaleLaws` used the way step 6 uses it,
    in particular the executable rational family -/
theorem isimip_family_laws (F : LocScaleFam) (L : LocScaleLaws F) (scaleAt : Rat → List Rat → Rat) :
    IsiShiftLaws (Model.Isimip.IsiFamily.ofLocScale F scaleAt) := isiShiftLaws_ofLocScale F L scaleAt

/-- the tas configuration of the correspondence (`tas_detr`): additive, parametric, detrending on -/
def tasCfg : Model.Isimip.Cfg := { trendMethod := .additive, nonparametricQm := false, detrending := true, ksTest := false }

example : Unbounded tasCfg ∧ tasCfg.trendMethod = .additive := ⟨⟨rfl, rfl, rfl, rfl⟩, rfl⟩
example : IsiShiftLaws Model.Isimip.ratSigmoid := isiShiftLaws_ratSigmoid
example : Model.Isimip.applyOnWindow tasCfg Model.Isimip.ratSigmoid { sigF := true } {} [1, 2, 4, 3] [3, 5, 6, 9]
      ([4, 8, 9, 13].map (fun v => v + 3)) [2000, 2000, 2001, 2001] [2000, 2000, 2001, 2001] [2030, 2030, 2031, 2031] =
    (Model.Isimip.applyOnWindow tasCfg Model.Isimip.ratSigmoid { sigF := true } {} [1, 2, 4, 3] [3, 5, 6, 9]
      [4, 8, 9, 13] [2000, 2000, 2001, 2001] [2000, 2000, 2001, 2001] [2030, 2030, 2031, 2031]).map (List.map (fun v => v + 3)) :=
  isimip_additive_shift tasCfg ⟨rfl, rfl, rfl, rfl⟩ rfl _ isiShiftLaws_ratSigmoid _ _ 3 _ _ _ _ _ _
    (by decide) (by decide) (by decide) rfl rfl rfl

theorem zipWith_add_sub_cancel : ∀ (x t : List Rat), x.length = t.length →
    List.zipWith (· - ·) (List.zipWith (· + ·) x t) x = t
  | [], [], _ => rfl
  | a :: x, b :: t, h => by
      have h' : x.length = t.length := by simpa using h
      simp only [List.zipWith_cons_cons, zipWith_add_sub_cancel x t h']
      congr 1
      ring
  | [], _ :: _, h => by simp at h
  | _ :: _, [], h => by simp at h

theorem zipWith_sub_self : ∀ (x : List Rat), List.zipWith (· - ·) x x = x.map (fun _ => 0)
  | [] => rfl
  | a :: x => by simp only [List.zipWith_cons_cons, List.map_cons, zipWith_sub_self x, sub_self]

/-- **Step 7 restores exactly what step 3 removed from `cm_future`**: for any mapped series `x` of the length of
    `cm_future` (what step 6 returns), `step7 (x, trend) − x = trend`, where `trend` is the fourth component of
    `step3` — the within-period trend subtracted from `cm_future` (zero when `detrending = False`). -/
theorem isimip_step7_restores (cfg : Model.Isimip.Cfg) (o : Model.Isimip.Oracles) (obs H F x : List Rat)
    (yO yH yF : List Int) (hx : x.length = F.length) (hlen : F.length = yF.length) :
    List.zipWith (· - ·) (Model.Isimip.step7 cfg x (Model.Isimip.step3 cfg o obs H F yO yH yF).2.2.2) x =
      (Model.Isimip.step3 cfg o obs H F yO yH yF).2.2.2 := by
  unfold Model.Isimip.step7 Model.Isimip.step3
  by_cases hd : cfg.detrending = true
  · simp only [hd, if_true, Model.Isimip.step3RemoveTrend]
    apply zipWith_add_sub_cancel
    rw [hx, Lemmas.IsimipModel.dailyTrend_length cfg o.sigF F yF hlen]
  · simp only [hd, Bool.false_eq_true, if_false, zipWith_sub_self]
    clear hlen hd
    induction x generalizing F with
    | nil => cases F with
      | nil => rfl
      | cons _ _ => simp at hx
    | cons a x ih => cases F with
      | nil => simp at hx
      | cons b F => simp only [List.map_cons]; rw [ih F (by simpa using hx)]

/-- … and `cm_future` itself is recovered from its detrended part (`Lemmas.IsimipModel.step7_step3_roundtrip`) -/
theorem isimip_step7_step3_roundtrip (cfg : Model.Isimip.Cfg) (o : Model.Isimip.Oracles) (obs H F : List Rat)
    (yO yH yF : List Int) (h : F.length = yF.length) :
    Model.Isimip.step7 cfg (Model.Isimip.step3 cfg o obs H F yO yH yF).2.2.1
      (Model.Isimip.step3 cfg o obs H F yO yH yF).2.2.2 = F :=
  Lemmas.IsimipModel.step7_step3_roundtrip cfg o obs H F yO yH yF h

example : ([4, 8, 9, 13] : List Rat).length = ([2030, 2030, 2031, 2031] : List Int).length := rfl

end Props.C02
