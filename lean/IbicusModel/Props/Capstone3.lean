/-
  Capstone 3 — C01 / C09 / C10 stated on the **denotation of the regenerated per-window pieces**.

  `Props/Capstone.lean` carries C02 / C03 / C04 through the composition `regenerated loop spec ∘ regenerated per-window
  piece`.  C01 (bias removal), C09 (rank preservation) and C10 (physical bounds) are statements about ONE window — what
  `apply_location` returns with `running_window_mode = False` (window-free mode: `apply_on_window` applied to the whole
  series).  Here, per debiaser:

    1. `regenWindow_<Deb>` — the regenerated per-window piece applied to the three whole samples: the regenerated kernels
       `Gen.Debiasers.ls_apply_on_window` / `dc_apply_on_within_year_window`, the regenerated dataflow programs
       `Gen.DebWin.*` run by `Model.NpDeb.denote` with the samples bound to the program's parameters **by name**
       (`Lemmas.Capstone.callProg`), the regenerated ISIMIP step 6 (`Gen.IsimipStep6.step6` with the regenerated
       `_step6_adjust_values_between_thresholds` inside) and the regenerated wiring of `ISIMIP._apply_on_window`;
    2. `regenWindow_<Deb>_eq_model` — it is the hand-written window function (the `gen_*` / `*_denote` / `step6_eq` chain);
    3. the properties on it, each the existing theorem of `Props.C01` / `Props.C09` / `Props.C10` rewritten with 2, every
       guard of the existing theorem an explicit hypothesis.  Statements about the returned array have the form
       `∃ out, regenWindow_… = .ok out ∧ …` (the call is defined **and** the property holds) where the model function is
       total, and `regenWindow_… = .ok out → …` where the code can raise (SDM relative, ISIMIP).

  So a change of /repo that alters a regenerated per-window piece either breaks its `Gen = expected` obligation (this file
  imports all of them: it then no longer builds) or changes what these theorems are about.
-/
import IbicusModel.Props.Capstone
import IbicusModel.Props.C01
import IbicusModel.Props.C09
import IbicusModel.Props.C10

namespace Props.Capstone3
open Model.Stats Model.Family Model.Debiasers
open Model.NpDeb (Env Prog)
open Lemmas.Capstone
open Props.Capstone (CdftEnvOk)

variable {P : Type}

/-! ## 0. The regenerated per-window pieces on whole samples, and what they denote -/

/-- `LinearScaling.apply_on_window(obs, cm_hist, cm_future)` as regenerated (`dt` = the attribute `delta_type`) -/
def regenWindow_LS (dt : String) (obs H F : List Rat) : Except String (List Rat) :=
  Gen.Debiasers.ls_apply_on_window dt obs H F

/-- `DeltaChange._apply_on_within_year_window(obs, cm_hist, cm_future)` as regenerated -/
def regenWindow_DC (dt : String) (obs H F : List Rat) : Except String (List Rat) :=
  Gen.Debiasers.dc_apply_on_within_year_window dt obs H F

/-- a regenerated dataflow program called as `prog(obs=…, cm_hist=…, cm_future=…)` with the debiaser's settings `env` and
    the random streams `draws`: `Model.NpDeb.denote prog` behind Python's keyword binding; one array returned -/
def regenWindowProg (prog : Prog) (env : Env P) (draws : Nat → List Rat) (obs H F : List Rat) : Except String (List Rat) :=
  single (callProg prog env (kwSamples obs H F) draws)

/-- the keyword call is the denotation of the program on the positional arguments (parameters `obs, cm_hist, cm_future`) -/
theorem regenWindowProg_denote (prog : Prog) (env : Env P) (draws : Nat → List Rat) (obs H F : List Rat)
    (hp : prog.params = ["obs", "cm_hist", "cm_future"]) :
    regenWindowProg prog env draws obs H F
      = single (Model.NpDeb.denote prog { env with args := [.arr obs, .arr H, .arr F], draws := draws }) := by
  unfold regenWindowProg
  rw [callProg_samples _ _ _ _ _ _ hp]

def regenWindow_ECDFM (env : Env P) (obs H F : List Rat) : Except String (List Rat) :=
  regenWindowProg Gen.DebWin.ecdfm_apply_on_window env env.draws obs H F

/-- `QuantileMapping.apply_on_window` (with `_standard_qm` inlined by the extractor) -/
def regenWindow_QM (env : Env P) (obs H F : List Rat) : Except String (List Rat) :=
  regenWindowProg Gen.DebWin.qm_apply_on_window env env.draws obs H F

/-- `ScaledDistributionMapping._apply_on_window_absolute_sdm` -/
def regenWindow_SDM (env : Env P) (obs H F : List Rat) : Except String (List Rat) :=
  regenWindowProg Gen.DebWin.sdm_apply_on_window_absolute_sdm env env.draws obs H F

/-- `ScaledDistributionMapping._apply_on_window_relative_sdm` -/
def regenWindow_SDM_relative (env : Env P) (obs H F : List Rat) : Except String (List Rat) :=
  regenWindowProg Gen.DebWin.sdm_apply_on_window_relative_sdm env env.draws obs H F

/-- `CDFt._apply_debiasing_steps` (SSR steps and `_apply_CDFt_mapping` inlined); `u` = the `np.random.uniform` stream of
    the call, consumed by the three SSR draws in order -/
def regenWindow_CDFt (env : Env P) (u : List Rat) (obs H F : List Rat) : Except String (List Rat) :=
  regenWindowProg Gen.DebWin.cdft_apply_debiasing_steps env (Lemmas.GenDebWinSdm.ssrSplitDraws u obs.length H.length) obs H F

/-- `QuantileDeltaMapping`: `_get_obs_and_cm_hist_fits`, then `_apply_debiasing_steps` on the whole `cm_future` -/
def regenWindow_QDM (env : Env P) (obs H F : List Rat) : Except String (List Rat) :=
  qdmWinRegen env obs H F [] [] []

theorem regenWindow_LS_additive (obs H F : List Rat) :
    regenWindow_LS "additive" obs H F = .ok (linearScaling .additive obs H F) := by
  unfold regenWindow_LS
  rw [Lemmas.GenDebiasers.ls_apply_on_window, Lemmas.GenDebiasers.linearScalingS_additive]

theorem regenWindow_LS_multiplicative (obs H F : List Rat) :
    regenWindow_LS "multiplicative" obs H F = .ok (linearScaling .multiplicative obs H F) := by
  unfold regenWindow_LS
  rw [Lemmas.GenDebiasers.ls_apply_on_window, Lemmas.GenDebiasers.linearScalingS_multiplicative]

theorem regenWindow_DC_additive (obs H F : List Rat) :
    regenWindow_DC "additive" obs H F = .ok (deltaChange .additive obs H F) := by
  unfold regenWindow_DC
  rw [Lemmas.GenDebiasers.dc_apply_on_within_year_window, Lemmas.GenDebiasers.deltaChangeS_additive]

theorem regenWindow_DC_multiplicative (obs H F : List Rat) :
    regenWindow_DC "multiplicative" obs H F = .ok (deltaChange .multiplicative obs H F) := by
  unfold regenWindow_DC
  rw [Lemmas.GenDebiasers.dc_apply_on_within_year_window, Lemmas.GenDebiasers.deltaChangeS_multiplicative]

theorem regenWindow_ECDFM_eq_model (env : Env P) (obs H F : List Rat) :
    regenWindow_ECDFM env obs H F = .ok (ecdfm env.fam (env.num "cdf_threshold") obs H F) := by
  show progWin Gen.DebWin.ecdfm_apply_on_window env obs H F [] [] [] = _
  rw [progWin_ecdfm]; rfl

theorem regenWindow_QM_eq_model_param (env : Env P) (d : Detrending)
    (hd : env.str "detrending" = Model.NpDeb.detrendingStr d) (hm : env.str "mapping_type" = "parametric")
    (obs H F : List Rat) :
    regenWindow_QM env obs H F = .ok (qmParam env.fam (env.num "cdf_threshold") d obs H F) := by
  show progWin Gen.DebWin.qm_apply_on_window env obs H F [] [] [] = _
  rw [progWin_qm_param env d hd hm]; rfl

theorem regenWindow_QM_eq_model_nonparam (env : Env P) (d : Detrending)
    (hd : env.str "detrending" = Model.NpDeb.detrendingStr d) (hm : env.str "mapping_type" = "nonparametric")
    (obs H F : List Rat) :
    regenWindow_QM env obs H F = .ok (qmNonparam d obs H F) := by
  show progWin Gen.DebWin.qm_apply_on_window env obs H F [] [] [] = _
  rw [progWin_qm_nonparam env d hd hm]; rfl

theorem regenWindow_SDM_eq_model (env : Env (Rat × Rat)) (Fam : LocScaleFam) (hfam : env.fam = Fam.toFamily)
    (hidx : env.parIdx = Model.NpDeb.locScaleIdx) (obs H F : List Rat) :
    regenWindow_SDM env obs H F = .ok (sdmAbsolute Fam obs H F) := by
  show progWin Gen.DebWin.sdm_apply_on_window_absolute_sdm env obs H F [] [] [] = _
  rw [progWin_sdm_abs env Fam hfam hidx]; rfl

/-- SDM relative: where the code raises (`ValueError`: no value `≥ pr_lower_threshold` in a sample) so does the model -/
theorem regenWindow_SDM_relative_eq_model (env : Env P) (obs H F : List Rat) :
    regenWindow_SDM_relative env obs H F
      = sdmRelative env.fam (env.num "pr_lower_threshold") (env.num "cdf_threshold") obs H F := by
  unfold regenWindow_SDM_relative
  rw [regenWindowProg_denote _ _ _ _ _ _ rfl, Lemmas.GenDebWin.gen_sdm_apply_on_window_relative_sdm,
    Lemmas.GenDebWinSdm.sdm_relative_denote _ obs H F rfl]
  show single (match sdmRelative env.fam (env.num "pr_lower_threshold") (env.num "cdf_threshold") obs H F with
    | .ok l => .ok [.arr l] | .error e => .error e) = _
  cases sdmRelative env.fam (env.num "pr_lower_threshold") (env.num "cdf_threshold") obs H F <;> rfl

theorem regenWindow_CDFt_eq_model (env : Env P) (ssr : Bool) (d : DeltaShift) (em : EcdfMethod) (im : IecdfMethod)
    (hE : CdftEnvOk env ssr d em im) (u obs H F : List Rat) :
    regenWindow_CDFt env u obs H F = .ok (cdftSteps ssr d em im obs H F u) := by
  show progWinDraws Gen.DebWin.cdft_apply_debiasing_steps env (cdftDraws (fun _ => u)) obs H F [] [] [] = _
  rw [progWin_cdft env ssr d em im (fun _ => u) hE.delta hE.ssr hE.ecdf hE.iecdf]

theorem regenWindow_CDFt_eq_model_nossr (env : Env P) (d : DeltaShift) (em : EcdfMethod) (im : IecdfMethod)
    (hE : CdftEnvOk env false d em im) (u obs H F : List Rat) :
    regenWindow_CDFt env u obs H F = .ok (cdftMapping d em im obs H F) := by
  rw [regenWindow_CDFt_eq_model env false d em im hE]; rfl

theorem regenWindow_QDM_eq_model (env : Env P) (tp : TrendPres) (em : EcdfMethod) (cz : Option Rat)
    (hE : Lemmas.GenDebWin.qdmEnvOk env tp cz) (he : env.ecdfM "ecdf_method" = ecdf1 em) (obs H F : List Rat) :
    regenWindow_QDM env obs H F = .ok (qdmWindow env.fam tp em (env.num "cdf_threshold") cz obs H F) := by
  unfold regenWindow_QDM
  rw [qdmWinRegen_eq env tp em cz hE he]; rfl

section IsimipDefs
open Model.Isimip Lemmas.GenIsimipStep6

/-- **ISIMIP step 6 as regenerated**: `Gen.IsimipStep6.step6` with the regenerated `_get_values_between_thresholds` and the
    regenerated `_step6_adjust_values_between_thresholds` inside; `ks` = the Kolmogorov–Smirnov decision of
    `_step6_fit_good_enough`, `rice` / `weib` = the two `distribution ==` tests of the fallback -/
def regenStep6 (c : Cfg) (fam : IsiFamily) (o : Oracles) (ks : List Rat → Rat × Rat → Bool) (rice weib : Bool)
    (obs obsFut H F : List Rat) : Except String (List Rat) :=
  Gen.IsimipStep6.step6 argsort argsortIdx sortQ (maskBeyondLower c) (maskBeyondUpper c) (maskBetween c)
    (Gen.IsimipStep6.get_values_between_thresholds (maskBetween c))
    (Gen.IsimipStep6.adjust_values_between_thresholds (qmap c.ecdfMethod c.iecdfMethod) (qmapXonY c) fam.fit fam.cdf fam.ppf
      rice weib ks thrCdf interpOnLength o.logit o.expit o.log10
      c.nonparametricQm c.hasThreshold c.hasLowerThreshold c.hasUpperThreshold c.hasBound c.hasLowerBound c.hasUpperBound
      c.ksTest c.eventLikelihoodAdjustment c.lowerThreshold c.upperThreshold c.lowerBound c.upperBound)
    c.hasLowerThreshold c.hasUpperThreshold c.hasThreshold c.hasBound c.hasLowerBound c.hasUpperBound c.biasCorrectFrequencies
    c.lowerBound c.upperBound c.lowerThreshold c.upperThreshold obs obsFut H F

/-- it is the model's `step6`, the model's single KS oracle being the conjunction of the two regenerated
    `_step6_fit_good_enough` calls (`withKs`; `Lemmas.GenIsimipStep6.step6_eq` ∘ `adjust_eq`) -/
theorem regenStep6_eq_model (c : Cfg) (fam : IsiFamily) (o : Oracles) (ks : List Rat → Rat × Rat → Bool) (rice weib : Bool)
    (hrw : c.riceOrWeibull = (rice || weib)) (obs obsFut H F : List Rat) :
    regenStep6 c fam o ks rice weib obs obsFut H F = step6 c fam (withKs c fam o ks obsFut F) obs obsFut H F :=
  step6_adjust_eq c fam o ks rice weib hrw obs obsFut H F

/-- **`ISIMIP._apply_on_window` as regenerated** (the wiring of steps 2–7), window-free: the whole series and their years -/
def regenWindow_ISIMIP (c : Cfg) (fam : IsiFamily) (o : Oracles) (d : Draws) (obs H F : List Rat) (yO yH yF : List Int) :
    Except String (List Rat) :=
  Gen.IsimipStep6.apply_on_window (fun a b e => .ok (a, b, e)) (fun a b e y1 y2 y3 => .ok (step3 c o a b e y1 y2 y3))
    (step4 c d) (step5 c o) (step6 c fam o) (step7 c) obs H F yO yH yF

theorem regenWindow_ISIMIP_eq_model (c : Cfg) (fam : IsiFamily) (o : Oracles) (d : Draws) (obs H F : List Rat)
    (yO yH yF : List Int) :
    regenWindow_ISIMIP c fam o d obs H F yO yH yF = applyOnWindow c fam o d obs H F yO yH yF :=
  apply_on_window_eq c fam o d obs H F yO yH yF

end IsimipDefs

/-! ## (a) C01 — bias removal: `cm_future = cm_hist` reproduces the observed statistics -/

section C01
open Lemmas.C01 Lemmas.C03

/-- **C01, LinearScaling additive**: the mean of the corrected reference period is the observed mean.
    Guards of `Props.C01.ls_mean_add`: both samples non-empty. -/
theorem regenWindow_LS_mean_add (obs H : List Rat) (hO : obs ≠ []) (hH : H ≠ []) :
    ∃ out, regenWindow_LS "additive" obs H H = .ok out ∧ mean out = mean obs :=
  ⟨_, regenWindow_LS_additive obs H H, Props.C01.ls_mean_add obs H hO hH⟩

/-- multiplicative; guard `mean cm_hist ≠ 0` (the code divides by it) -/
theorem regenWindow_LS_mean_mult (obs H : List Rat) (hm : mean H ≠ 0) :
    ∃ out, regenWindow_LS "multiplicative" obs H H = .ok out ∧ mean out = mean obs :=
  ⟨_, regenWindow_LS_multiplicative obs H H, Props.C01.ls_mean_mult obs H hm⟩

/-- **C01, DeltaChange**: an unchanged model returns the observations.  Guard `dcGuard` (`cm_hist` non-empty). -/
theorem regenWindow_DC_id_add (obs H : List Rat) (hg : dcGuard .additive H H) :
    regenWindow_DC "additive" obs H H = .ok obs := by
  rw [regenWindow_DC_additive, Props.C01.dc_id .additive obs H hg]

/-- multiplicative: additionally `mean cm_hist ≠ 0` (inside `dcGuard`) -/
theorem regenWindow_DC_id_mult (obs H : List Rat) (hg : dcGuard .multiplicative H H) :
    regenWindow_DC "multiplicative" obs H H = .ok obs := by
  rw [regenWindow_DC_multiplicative, Props.C01.dc_id .multiplicative obs H hg]

/-- **C01, parametric QuantileMapping** over a location–scale family (every detrending): the output is the location–scale
    image `loc_obs + (scale_obs / scale_H)(x − loc_H)` of `cm_hist`.  Guards of `Props.C01.qm_param_fit`: multiplicative
    detrending only with `mean cm_hist ≠ 0`; no cdf value clipped by `cdf_threshold` (`NoClip`). -/
theorem regenWindow_QM_param_fit (env : Env (Rat × Rat)) (Fam : LocScaleFam) (hfam : env.fam = Fam.toFamily)
    (L : LocScaleLaws Fam) (d : Detrending) (hd : env.str "detrending" = Model.NpDeb.detrendingStr d)
    (hmt : env.str "mapping_type" = "parametric") (obs H : List Rat)
    (hm : d = .multiplicative → mean H ≠ 0) (hc : NoClip Fam (env.num "cdf_threshold") (Fam.fit H) H) :
    regenWindow_QM env obs H H = .ok (H.map (lsMap (Fam.loc obs) (Fam.scale obs) (Fam.loc H) (Fam.scale H))) := by
  rw [regenWindow_QM_eq_model_param env d hd hmt, hfam, Props.C01.qm_param_fit L _ d obs H hm hc]

/-- … hence the fit of the output — mean **and** calibrated spread — is the fit of the observations (both scales positive) -/
theorem regenWindow_QM_param_fit_eq (env : Env (Rat × Rat)) (Fam : LocScaleFam) (hfam : env.fam = Fam.toFamily)
    (L : LocScaleLaws Fam) (d : Detrending) (hd : env.str "detrending" = Model.NpDeb.detrendingStr d)
    (hmt : env.str "mapping_type" = "parametric") (obs H : List Rat)
    (hm : d = .multiplicative → mean H ≠ 0) (hc : NoClip Fam (env.num "cdf_threshold") (Fam.fit H) H) (hH : H ≠ [])
    (hso : 0 < Fam.scale obs) (hsh : 0 < Fam.scale H) :
    ∃ out, regenWindow_QM env obs H H = .ok out ∧ Fam.fit out = Fam.fit obs := by
  refine ⟨_, regenWindow_QM_eq_model_param env d hd hmt obs H H, ?_⟩
  rw [hfam]
  exact Props.C01.qm_param_fit_eq L _ d obs H hm hc hH hso hsh

/-- **C01, non-parametric QuantileMapping at equal sample sizes**: exactly the observed multiset.
    Guards of `Props.C01.qm_nonparam_perm`: `|obs| = |cm_hist| ≥ 2`, `cm_hist` tie-free, multiplicative detrending only
    with `mean cm_hist ≠ 0`. -/
theorem regenWindow_QM_nonparam_perm (env : Env P) (d : Detrending)
    (hd : env.str "detrending" = Model.NpDeb.detrendingStr d) (hmt : env.str "mapping_type" = "nonparametric")
    (obs H : List Rat) (hlen : obs.length = H.length) (hn : 2 ≤ H.length) (hH : H.Nodup)
    (hm : d = .multiplicative → mean H ≠ 0) :
    ∃ out, regenWindow_QM env obs H H = .ok out ∧ out.Perm obs ∧ mean out = mean obs :=
  ⟨_, regenWindow_QM_eq_model_nonparam env d hd hmt obs H H, Props.C01.qm_nonparam_perm d obs H hlen hn hH hm,
    Props.C01.qm_nonparam_mean d obs H hlen hn hH hm⟩

/-- **C01, non-parametric QuantileMapping at unequal sample sizes**: `−range(obs)/n ≤ mean out − mean obs ≤ range(obs)/m`
    (`n = |obs|`, `m = |cm_hist|`).  Guards of `Props.C01.qm_nonparam_mean_bounds`: both samples non-empty, `cm_hist`
    tie-free, multiplicative detrending only with `mean cm_hist ≠ 0`. -/
theorem regenWindow_QM_nonparam_mean_bounds (env : Env P) (d : Detrending)
    (hd : env.str "detrending" = Model.NpDeb.detrendingStr d) (hmt : env.str "mapping_type" = "nonparametric")
    (obs H : List Rat) (hn : obs ≠ []) (hm : H ≠ []) (hH : H.Nodup) (hdm : d = .multiplicative → mean H ≠ 0) :
    ∃ out, regenWindow_QM env obs H H = .ok out ∧
      -((maxQ obs - minQ obs) / (obs.length : Rat)) ≤ mean out - mean obs ∧
      mean out - mean obs ≤ (maxQ obs - minQ obs) / (H.length : Rat) :=
  ⟨_, regenWindow_QM_eq_model_nonparam env d hd hmt obs H H, Props.C01.qm_nonparam_mean_bounds d obs H hn hm hH hdm⟩

/-- … as one constant: `|mean out − mean obs| ≤ range(obs) · max(1/n, 1/m)` -/
theorem regenWindow_QM_nonparam_mean_bound (env : Env P) (d : Detrending)
    (hd : env.str "detrending" = Model.NpDeb.detrendingStr d) (hmt : env.str "mapping_type" = "nonparametric")
    (obs H : List Rat) (hn : obs ≠ []) (hm : H ≠ []) (hH : H.Nodup) (hdm : d = .multiplicative → mean H ≠ 0) :
    ∃ out, regenWindow_QM env obs H H = .ok out ∧
      |mean out - mean obs| ≤ (maxQ obs - minQ obs) * max (1 / (obs.length : Rat)) (1 / (H.length : Rat)) :=
  ⟨_, regenWindow_QM_eq_model_nonparam env d hd hmt obs H H, Props.C01.qm_nonparam_mean_bound d obs H hn hm hH hdm⟩

/-- **C01, ECDFM** over a location–scale family: the same location–scale image.  Guards of `Props.C01.ecdfm_fit`: fitted
    scale of `cm_hist` non-zero, no clipping. -/
theorem regenWindow_ECDFM_fit (env : Env (Rat × Rat)) (Fam : LocScaleFam) (hfam : env.fam = Fam.toFamily)
    (L : LocScaleLaws Fam) (obs H : List Rat) (hs : Fam.scale H ≠ 0)
    (hc : NoClip Fam (env.num "cdf_threshold") (Fam.fit H) H) :
    regenWindow_ECDFM env obs H H = .ok (H.map (lsMap (Fam.loc obs) (Fam.scale obs) (Fam.loc H) (Fam.scale H))) := by
  rw [regenWindow_ECDFM_eq_model, hfam, Props.C01.ecdfm_fit L _ obs H hs hc]

theorem regenWindow_ECDFM_fit_eq (env : Env (Rat × Rat)) (Fam : LocScaleFam) (hfam : env.fam = Fam.toFamily)
    (L : LocScaleLaws Fam) (obs H : List Rat) (hc : NoClip Fam (env.num "cdf_threshold") (Fam.fit H) H) (hH : H ≠ [])
    (hso : 0 < Fam.scale obs) (hsh : 0 < Fam.scale H) :
    ∃ out, regenWindow_ECDFM env obs H H = .ok out ∧ Fam.fit out = Fam.fit obs := by
  refine ⟨_, regenWindow_ECDFM_eq_model env obs H H, ?_⟩
  rw [hfam]
  exact Props.C01.ecdfm_fit_eq L _ obs H hc hH hso hsh

/-- **C01, CDFt** (default method pair, `SSR = False`, every `delta_shift`) **at equal sample sizes under the range guard**:
    exactly the observed multiset.  Guards of `Props.C01.cdft_perm`: `|obs| = |cm_hist| ≥ 2`, the shifted model sample
    `H'` tie-free, the observations inside `[min H', max H']`. -/
theorem regenWindow_CDFt_perm (env : Env P) (d : DeltaShift) (hE : CdftEnvOk env false d .linear .linear) (u : List Rat)
    (obs H : List Rat) (hlen : obs.length = H.length) (hn : 2 ≤ H.length) (hH' : (cdftShifted d obs H H).1.Nodup)
    (hr : ∀ v ∈ obs, minQ (cdftShifted d obs H H).1 ≤ v ∧ v ≤ maxQ (cdftShifted d obs H H).1) :
    ∃ out, regenWindow_CDFt env u obs H H = .ok out ∧ out.Perm obs :=
  ⟨_, regenWindow_CDFt_eq_model_nossr env d .linear .linear hE u obs H H, (Props.C01.cdft_perm d obs H hlen hn hH' hr).2⟩

/-- … without the range guard: the observed multiset clamped to the range of `H'` (`Props.C01.cdft_clamped_perm`) -/
theorem regenWindow_CDFt_clamped_perm (env : Env P) (d : DeltaShift) (hE : CdftEnvOk env false d .linear .linear)
    (u : List Rat) (obs H : List Rat) (hlen : obs.length = H.length) (hn : 2 ≤ H.length)
    (hH' : (cdftShifted d obs H H).1.Nodup) :
    ∃ out, regenWindow_CDFt env u obs H H = .ok out ∧
      out.Perm (obs.map (fun y => max (minQ (cdftShifted d obs H H).1) (min (maxQ (cdftShifted d obs H H).1) y))) :=
  ⟨_, regenWindow_CDFt_eq_model_nossr env d .linear .linear hE u obs H H, Props.C01.cdft_clamped_perm d obs H hlen hn hH'⟩

/-- **C01, CDFt at unequal sample sizes**: `|mean out − mean obs| ≤ range(obs)(1/n + 1/m)`.  Guards of
    `Props.C01.cdft_mean_bound`: `obs` non-empty, `|cm_hist| ≥ 2`, multiplicative shift only with `mean cm_hist ≠ 0`,
    `H'` tie-free, range guard. -/
theorem regenWindow_CDFt_mean_bound (env : Env P) (d : DeltaShift) (hE : CdftEnvOk env false d .linear .linear)
    (u : List Rat) (obs H : List Rat) (hn : obs ≠ []) (hm : 2 ≤ H.length) (hd : d = .multiplicative → mean H ≠ 0)
    (hH' : (cdftShifted d obs H H).1.Nodup)
    (hr : ∀ v ∈ obs, minQ (cdftShifted d obs H H).1 ≤ v ∧ v ≤ maxQ (cdftShifted d obs H H).1) :
    ∃ out, regenWindow_CDFt env u obs H H = .ok out ∧
      |mean out - mean obs| ≤ (maxQ obs - minQ obs) * (1 / (obs.length : Rat) + 1 / (H.length : Rat)) :=
  ⟨_, regenWindow_CDFt_eq_model_nossr env d .linear .linear hE u obs H H, Props.C01.cdft_mean_bound d obs H hn hm hd hH' hr⟩

open Lemmas.C01Sdm in
/-- **C01, ScaledDistributionMapping absolute at equal sample sizes** (repaired code): exactly the observed multiset.
    Guards of `Props.C01.sdm_abs_perm`: fitted scales of the detrended samples positive, no clipping at the default
    `cdf_threshold`. -/
theorem regenWindow_SDM_abs_perm (env : Env (Rat × Rat)) (Fam : LocScaleFam) (hfam : env.fam = Fam.toFamily)
    (hidx : env.parIdx = Model.NpDeb.locScaleIdx) (L : LocScaleLaws Fam) (obs H : List Rat) (hlen : obs.length = H.length)
    (hso : 0 < Fam.scale (detrendConst obs)) (hsh : 0 < Fam.scale (detrendConst H))
    (hco : NoClip Fam defaultCdfThreshold (Fam.fit (detrendConst obs)) (detrendConst obs))
    (hch : NoClip Fam defaultCdfThreshold (Fam.fit (detrendConst H)) (detrendConst H)) :
    ∃ out, regenWindow_SDM env obs H H = .ok out ∧ out.Perm obs ∧ mean out = mean obs :=
  ⟨_, regenWindow_SDM_eq_model env Fam hfam hidx obs H H, Props.C01.sdm_abs_perm L obs H hlen hso hsh hco hch,
    Props.C01.sdm_abs_mean L obs H hlen hso hsh hco hch⟩

/-- **C01, QuantileDeltaMapping absolute** (symmetric location–scale family, default `linear_interpolation` ecdf,
    `cdf_threshold ≤ 1/2`, no censoring): `mean out = mean cm_hist + (loc_obs − loc_H)` (`Props.C01.qdm_mean_symm`) -/
theorem regenWindow_QDM_mean_symm (env : Env (Rat × Rat)) (Fam : LocScaleFam) (hfam : env.fam = Fam.toFamily)
    (L : LocScaleLaws Fam) (hE : Lemmas.GenDebWin.qdmEnvOk env .absolute none)
    (he : env.ecdfM "ecdf_method" = ecdf1 .linear) (ht : env.num "cdf_threshold" ≤ 1 / 2) (obs H : List Rat)
    (hH : H.Nodup) (hn : 2 ≤ H.length) :
    ∃ out, regenWindow_QDM env obs H H = .ok out ∧ mean out = mean H + (Fam.loc obs - Fam.loc H) := by
  refine ⟨_, regenWindow_QDM_eq_model env .absolute .linear none hE he obs H H, ?_⟩
  rw [hfam]
  exact Props.C01.qdm_mean_symm L _ ht obs H hH hn

end C01

/-! ## (b) C09 — rank preservation: the output is a pointwise non-decreasing image of `cm_future` -/

section C09
open Model.Isimip Lemmas.C09

/-- **C09, LinearScaling additive**: the output is the image of `cm_future` under a strictly increasing map.
    Guard of `Props.C09.ls_add_strict_mono`: `lsGuard` (both samples non-empty). -/
theorem regenWindow_LS_add_strict_mono (obs H F : List Rat) (hg : lsGuard .additive obs H) :
    ∃ T : Rat → Rat, StrictMonoR T ∧ regenWindow_LS "additive" obs H F = .ok (F.map T) := by
  obtain ⟨T, hT, h⟩ := Props.C09.ls_add_strict_mono obs H F hg
  exact ⟨T, hT, by rw [regenWindow_LS_additive, h]⟩

/-- multiplicative: non-decreasing when the factor `mean obs / mean cm_hist` is non-negative (a negative factor reverses
    the order: `Props.C09.legacy_ls_mult_reverses`) -/
theorem regenWindow_LS_mult_mono (obs H F : List Rat) (hg : lsGuard .multiplicative obs H) (hr : 0 ≤ mean obs / mean H) :
    ∃ T : Rat → Rat, MonoR T ∧ regenWindow_LS "multiplicative" obs H F = .ok (F.map T) := by
  obtain ⟨T, hT, h⟩ := Props.C09.ls_mult_mono obs H F hg hr
  exact ⟨T, hT, by rw [regenWindow_LS_multiplicative, h]⟩

/-- **C09, parametric QuantileMapping, any family, every detrending, signed data**: guards of
    `Props.C09.qm_param_mono_family_signed` — `cdf_threshold ≤ 1/2`, `qmGuard`, the cdf fitted to `cm_hist` non-decreasing,
    the ppf fitted to `obs` non-decreasing on `[t, 1 − t]`, multiplicative detrending only with `mean F / mean H ≠ 0`. -/
theorem regenWindow_QM_param_mono_family_signed (env : Env P) (d : Detrending)
    (hd : env.str "detrending" = Model.NpDeb.detrendingStr d) (hmt : env.str "mapping_type" = "parametric")
    (ht : env.num "cdf_threshold" ≤ 1 / 2) (obs H F : List Rat) (hg : qmGuard d obs H F)
    (hc : MonoR (env.fam.cdf (env.fam.fit H)))
    (hp : ∀ p q : Rat, env.num "cdf_threshold" ≤ p → p ≤ q → q ≤ 1 - env.num "cdf_threshold" →
      env.fam.ppf (env.fam.fit obs) p ≤ env.fam.ppf (env.fam.fit obs) q)
    (hδ : d = .multiplicative → mean F / mean H ≠ 0) :
    ∃ T : Rat → Rat, MonoR T ∧ regenWindow_QM env obs H F = .ok (F.map T) := by
  obtain ⟨T, hT, h⟩ := Props.C09.qm_param_mono_family_signed env.fam _ ht d obs H F hg hc hp hδ
  exact ⟨T, hT, by rw [regenWindow_QM_eq_model_param env d hd hmt, h]⟩

/-- **… over a location–scale family with `LocScaleLaws`** (the laws give the two monotonicity guards): guards of
    `Props.C09.qm_param_mono_signed` — `0 < cdf_threshold ≤ 1/2`, `qmGuard`, both fitted scales positive -/
theorem regenWindow_QM_param_mono_signed (env : Env (Rat × Rat)) (Fam : LocScaleFam) (hfam : env.fam = Fam.toFamily)
    (L : LocScaleLaws Fam) (d : Detrending) (hd : env.str "detrending" = Model.NpDeb.detrendingStr d)
    (hmt : env.str "mapping_type" = "parametric")
    (ht0 : 0 < env.num "cdf_threshold") (ht : env.num "cdf_threshold" ≤ 1 / 2) (obs H F : List Rat)
    (hg : qmGuard d obs H F) (hso : 0 < Fam.scale obs) (hsh : 0 < Fam.scale H)
    (hδ : d = .multiplicative → mean F / mean H ≠ 0) :
    ∃ T : Rat → Rat, MonoR T ∧ regenWindow_QM env obs H F = .ok (F.map T) := by
  obtain ⟨T, hT, h⟩ := Props.C09.qm_param_mono_signed Fam L _ ht0 ht d obs H F hg hso hsh hδ
  exact ⟨T, hT, by rw [regenWindow_QM_eq_model_param env d hd hmt, hfam, h]⟩

/-- the positive-data form (`0 < mean F / mean H`, what non-negative variables give): `Props.C09.qm_param_mono` -/
theorem regenWindow_QM_param_mono (env : Env (Rat × Rat)) (Fam : LocScaleFam) (hfam : env.fam = Fam.toFamily)
    (L : LocScaleLaws Fam) (d : Detrending) (hd : env.str "detrending" = Model.NpDeb.detrendingStr d)
    (hmt : env.str "mapping_type" = "parametric")
    (ht0 : 0 < env.num "cdf_threshold") (ht : env.num "cdf_threshold" ≤ 1 / 2) (obs H F : List Rat)
    (hg : qmGuard d obs H F) (hso : 0 < Fam.scale obs) (hsh : 0 < Fam.scale H)
    (hδ : d = .multiplicative → 0 < mean F / mean H) :
    ∃ T : Rat → Rat, MonoR T ∧ regenWindow_QM env obs H F = .ok (F.map T) := by
  obtain ⟨T, hT, h⟩ := Props.C09.qm_param_mono Fam L _ ht0 ht d obs H F hg hso hsh hδ
  exact ⟨T, hT, by rw [regenWindow_QM_eq_model_param env d hd hmt, hfam, h]⟩

/-- **C09, non-parametric QuantileMapping, every detrending, signed data**: guards of `Props.C09.qm_nonparam_mono_signed` —
    at least two observations and two historical values, multiplicative detrending only with `mean F / mean H ≠ 0` -/
theorem regenWindow_QM_nonparam_mono_signed (env : Env P) (d : Detrending)
    (hd : env.str "detrending" = Model.NpDeb.detrendingStr d) (hmt : env.str "mapping_type" = "nonparametric")
    (obs H F : List Rat) (ho : 2 ≤ obs.length) (hh : 2 ≤ H.length) (hδ : d = .multiplicative → mean F / mean H ≠ 0) :
    ∃ T : Rat → Rat, MonoR T ∧ regenWindow_QM env obs H F = .ok (F.map T) := by
  obtain ⟨T, hT, h⟩ := Props.C09.qm_nonparam_mono_signed d obs H F ho hh hδ
  exact ⟨T, hT, by rw [regenWindow_QM_eq_model_nonparam env d hd hmt, h]⟩

theorem regenWindow_QM_nonparam_mono (env : Env P) (d : Detrending)
    (hd : env.str "detrending" = Model.NpDeb.detrendingStr d) (hmt : env.str "mapping_type" = "nonparametric")
    (obs H F : List Rat) (ho : 2 ≤ obs.length) (hh : 2 ≤ H.length) (hδ : d = .multiplicative → 0 < mean F / mean H) :
    ∃ T : Rat → Rat, MonoR T ∧ regenWindow_QM env obs H F = .ok (F.map T) := by
  obtain ⟨T, hT, h⟩ := Props.C09.qm_nonparam_mono d obs H F ho hh hδ
  exact ⟨T, hT, by rw [regenWindow_QM_eq_model_nonparam env d hd hmt, h]⟩

/-- every QuantileMapping statement above as rank preservation of the returned array -/
theorem regenWindow_orderPres_of_image (r : Except String (List Rat)) (F : List Rat)
    (h : ∃ T : Rat → Rat, MonoR T ∧ r = .ok (F.map T)) : ∃ out, r = .ok out ∧ OrderPres F out := by
  obtain ⟨T, hT, h⟩ := h
  exact ⟨_, h, Props.C09.image_orderPres F _ ⟨T, hT, rfl⟩⟩

/-- **C09, CDFt** (`SSR = False`, every `delta_shift`, all 2 × 9 method pairs): guards of `Props.C09.cdft_mono_model` —
    `cdftGuard`, three samples of size ≥ 2, the multiplicative shift `mean obs / mean cm_hist ≥ 0` -/
theorem regenWindow_CDFt_mono (env : Env P) (d : DeltaShift) (em : EcdfMethod) (im : IecdfMethod)
    (hE : CdftEnvOk env false d em im) (u obs H F : List Rat) (hg : cdftGuard d obs H F)
    (ho : 2 ≤ obs.length) (hh : 2 ≤ H.length) (hf : 2 ≤ F.length) (hs : d = .multiplicative → 0 ≤ mean obs / mean H) :
    ∃ T : Rat → Rat, MonoR T ∧ regenWindow_CDFt env u obs H F = .ok (F.map T) := by
  obtain ⟨T, hT, h⟩ := Props.C09.cdft_mono_model d em im obs H F hg ho hh hf hs
  exact ⟨T, hT, by rw [regenWindow_CDFt_eq_model_nossr env d em im hE, h]⟩

/-- **C09, CDFt with `SSR = True`, for every draw list `u`** that `np.random.uniform(0, threshold)` can produce
    (`ssrDrawsOk`) and that is long enough: the returned array preserves the order of `cm_future`.  Guards of
    `Props.C09.cdft_ssr_order_model`. -/
theorem regenWindow_CDFt_ssr_order (env : Env P) (d : DeltaShift) (em : EcdfMethod) (im : IecdfMethod)
    (hE : CdftEnvOk env true d em im) (u obs H F : List Rat)
    (ho : 2 ≤ obs.length) (hh : 2 ≤ H.length) (hf : 2 ≤ F.length)
    (hu : ssrDrawsOk (ssrThreshold obs H F) u) (hlen : ssrDrawCount obs H F ≤ u.length)
    (hs : d = .multiplicative → 0 ≤ mean (ssrBefore obs H F u).1 / mean (ssrBefore obs H F u).2.1) :
    ∃ out, regenWindow_CDFt env u obs H F = .ok out ∧ OrderPres F out :=
  ⟨_, regenWindow_CDFt_eq_model env true d em im hE u obs H F,
    Props.C09.cdft_ssr_order_model d em im obs H F u ho hh hf hu hlen hs⟩

/-- … for non-negative `obs` / `cm_hist` (precipitation) the shift guard holds by itself -/
theorem regenWindow_CDFt_ssr_order_nonneg (env : Env P) (d : DeltaShift) (em : EcdfMethod) (im : IecdfMethod)
    (hE : CdftEnvOk env true d em im) (u obs H F : List Rat)
    (ho : 2 ≤ obs.length) (hh : 2 ≤ H.length) (hf : 2 ≤ F.length)
    (hu : ssrDrawsOk (ssrThreshold obs H F) u) (hlen : ssrDrawCount obs H F ≤ u.length)
    (hobs : ∀ v ∈ obs, 0 ≤ v) (hH : ∀ v ∈ H, 0 ≤ v) :
    ∃ out, regenWindow_CDFt env u obs H F = .ok out ∧ OrderPres F out :=
  ⟨_, regenWindow_CDFt_eq_model env true d em im hE u obs H F,
    Props.C09.cdft_ssr_order_nonneg d em im obs H F u ho hh hf hu hlen hobs hH⟩

/-- **C09, ISIMIP step 6 as regenerated** (`event_likelihood_adjustment = False`; with the option on it is false: F22,
    `Props.C09.step6_ela_can_reorder`): guards of `Props.C09.step6_mono` — non-empty samples, the family laws `IsiLaws`,
    an ordered configuration, `cm_future` inside the bounds; for every KS decision `ks` and every oracle record -/
theorem regenStep6_mono (c : Cfg) (fam : IsiFamily) (o : Oracles) (ks : List Rat → Rat × Rat → Bool) (rice weib : Bool)
    (hrw : c.riceOrWeibull = (rice || weib)) (obs obsFut H F out : List Rat)
    (ho : obs ≠ []) (hh : H ≠ []) (hf : F ≠ [])
    (hela : c.eventLikelihoodAdjustment = false) (hL : IsiLaws c fam) (hc : CfgOrdered c)
    (hdata : ∀ v ∈ F, InBounds c v)
    (h : regenStep6 c fam o ks rice weib obs obsFut H F = .ok out) : OrderPres F out := by
  rw [regenStep6_eq_model c fam o ks rice weib hrw] at h
  exact Props.C09.step6_mono c fam _ obs obsFut H F out ho hh hf hela hL hc hdata h

/-- unbounded variables over a location–scale family (tas, psl): no law assumed beyond `LocScaleLaws` -/
theorem regenStep6_mono_unbounded (c : Cfg) (Fam : LocScaleFam) (L : LocScaleLaws Fam) (scaleAt : Rat → List Rat → Rat)
    (hsa : ∀ l d, 0 ≤ scaleAt l d) (hfs : ∀ fl s, fixedArgs c = .ok (fl, some s) → 0 < s)
    (hlb : c.lowerBound = .negInf) (hub : c.upperBound = .posInf)
    (o : Oracles) (ks : List Rat → Rat × Rat → Bool) (rice weib : Bool) (hrw : c.riceOrWeibull = (rice || weib))
    (obs obsFut H F out : List Rat) (ho : obs ≠ []) (hh : H ≠ []) (hf : F ≠ [])
    (hela : c.eventLikelihoodAdjustment = false)
    (h : regenStep6 c (IsiFamily.ofLocScale Fam scaleAt) o ks rice weib obs obsFut H F = .ok out) : OrderPres F out := by
  rw [regenStep6_eq_model c _ o ks rice weib hrw] at h
  exact Props.C09.step6_mono_unbounded c Fam L scaleAt hsa hfs hlb hub _ obs obsFut H F out ho hh hf hela h

/-- **C09, the regenerated `_apply_on_window` of ISIMIP** (`detrending = False`): guards of `Props.C09.window_mono` -/
theorem regenWindow_ISIMIP_mono (c : Cfg) (fam : IsiFamily) (o : Oracles) (d : Draws) (obs H F : List Rat)
    (yO yH yF : List Int) (out : List Rat) (hdet : c.detrending = false)
    (ho : obs ≠ []) (hh : H ≠ []) (hf : F ≠ [])
    (hela : c.eventLikelihoodAdjustment = false) (hL : IsiLaws c fam) (hc : CfgOrdered c)
    (hdata : ∀ v ∈ F, InBounds c v)
    (hndL : d.lowF.Nodup) (hndU : d.upF.Nodup)
    (hdL : ∀ u ∈ d.lowF, ExtRat.leOf u c.lowerThreshold = true ∧ InBounds c u)
    (hdU : ∀ u ∈ d.upF, ExtRat.geOf u c.upperThreshold = true ∧ InBounds c u)
    (h : regenWindow_ISIMIP c fam o d obs H F yO yH yF = .ok out) : OrderPres F out := by
  rw [regenWindow_ISIMIP_eq_model] at h
  exact Props.C09.window_mono c fam o d obs H F yO yH yF out hdet ho hh hf hela hL hc hdata hndL hndU hdL hdU h

end C09

/-! ## (c) C10 — physical bounds: non-negativity, "zero or at least the threshold", ISIMIP bounds -/

section C10
open Model.Isimip Model.Precip Lemmas.C10

/-- **C10, LinearScaling multiplicative on non-negative data**: the call is defined (`0 < mean cm_hist`) and every output
    is non-negative.  Guards of `Props.C10.ls_mult_nonneg`. -/
theorem regenWindow_LS_mult_nonneg (obs H F : List Rat) (ho : ∀ x ∈ obs, 0 ≤ x) (hh : ∀ x ∈ H, 0 ≤ x) (hf : ∀ x ∈ F, 0 ≤ x)
    (hg : lsGuard .multiplicative obs H) :
    0 < mean H ∧ ∃ out, regenWindow_LS "multiplicative" obs H F = .ok out ∧ ∀ v ∈ out, 0 ≤ v :=
  ⟨(Props.C10.ls_mult_nonneg obs H F ho hh hf hg).1, _, regenWindow_LS_multiplicative obs H F,
    (Props.C10.ls_mult_nonneg obs H F ho hh hf hg).2⟩

/-- **C10, DeltaChange multiplicative on non-negative data**: guards of `Props.C10.dc_mult_nonneg` -/
theorem regenWindow_DC_mult_nonneg (obs H F : List Rat) (ho : ∀ x ∈ obs, 0 ≤ x) (hh : ∀ x ∈ H, 0 ≤ x) (hf : ∀ x ∈ F, 0 ≤ x)
    (hg : dcGuard .multiplicative H F) :
    0 < mean H ∧ ∃ out, regenWindow_DC "multiplicative" obs H F = .ok out ∧ ∀ v ∈ out, 0 ≤ v :=
  ⟨(Props.C10.dc_mult_nonneg obs H F ho hh hf hg).1, _, regenWindow_DC_multiplicative obs H F,
    (Props.C10.dc_mult_nonneg obs H F ho hh hf hg).2⟩

/-- **C10, ScaledDistributionMapping relative** (through `sdm_relative_denote`): whenever the regenerated program returns,
    every value is `0` or strictly positive.  Guards of `Props.C10.sdm_relative_nonneg`: `0 < cdf_threshold ≤ 1/2`, the
    family's ppf positive on rainy fits (`PosOnRainy`, gamma with `floc = 0`). -/
theorem regenWindow_SDM_relative_nonneg (env : Env P) (h0 : 0 < env.num "cdf_threshold") (h1 : env.num "cdf_threshold" ≤ 1 / 2)
    (hpos : PosOnRainy env.fam (env.num "pr_lower_threshold")) (obs H F out : List Rat)
    (h : regenWindow_SDM_relative env obs H F = .ok out) : ∀ v ∈ out, v = 0 ∨ 0 < v := by
  rw [regenWindow_SDM_relative_eq_model] at h
  exact Props.C10.sdm_relative_nonneg env.fam _ _ h0 h1 hpos obs H F out h

/-- … and it raises exactly the code's `ValueError` (a sample without a value `≥ pr_lower_threshold`), nothing else:
    with a rainy value in each sample the call returns -/
theorem regenWindow_SDM_relative_raises (env : Env P) (obs H F : List Rat)
    (h : rainy (env.num "pr_lower_threshold") (sortQ obs) = [] ∨ rainy (env.num "pr_lower_threshold") (sortQ H) = [] ∨
      rainy (env.num "pr_lower_threshold") (takeIdx F (argsort F)) = []) :
    regenWindow_SDM_relative env obs H F = .error "ValueError" := by
  rw [regenWindow_SDM_relative_eq_model]
  simp [sdmRelative, h]

/-- **C10, CDFt with `SSR = True`, every draw list, every `delta_shift` and method pair**: every output is `0` or at least
    the SSR threshold of the call (`Props.C10.cdft_ssr_zero_or_ge`; no guard) -/
theorem regenWindow_CDFt_ssr_zero_or_ge (env : Env P) (d : DeltaShift) (em : EcdfMethod) (im : IecdfMethod)
    (hE : CdftEnvOk env true d em im) (u obs H F : List Rat) :
    ∃ out, regenWindow_CDFt env u obs H F = .ok out ∧ ∀ v ∈ out, v = 0 ∨ ssrThreshold obs H F ≤ v :=
  ⟨_, regenWindow_CDFt_eq_model env true d em im hE u obs H F,
    Props.C10.cdft_ssr_zero_or_ge (ecdf1 em) (iecdf1 im) d obs H F u⟩

theorem regenWindow_CDFt_ssr_nonneg (env : Env P) (d : DeltaShift) (em : EcdfMethod) (im : IecdfMethod)
    (hE : CdftEnvOk env true d em im) (u obs H F : List Rat) :
    ∃ out, regenWindow_CDFt env u obs H F = .ok out ∧ ∀ v ∈ out, 0 ≤ v :=
  ⟨_, regenWindow_CDFt_eq_model env true d em im hE u obs H F,
    Props.C10.cdft_ssr_nonneg (ecdf1 em) (iecdf1 im) d obs H F u⟩

/-- **C10, QuantileDeltaMapping with `censor_values_to_zero = True`** (either trend preservation, any family, either ecdf
    method): every output is `0` or at least `censoring_threshold` (`Props.C10.qdm_zero_or_ge`; no guard) -/
theorem regenWindow_QDM_zero_or_ge (env : Env P) (tp : TrendPres) (em : EcdfMethod) (thr : Rat)
    (hE : Lemmas.GenDebWin.qdmEnvOk env tp (some thr)) (he : env.ecdfM "ecdf_method" = ecdf1 em) (obs H F : List Rat) :
    ∃ out, regenWindow_QDM env obs H F = .ok out ∧ ∀ v ∈ out, v = 0 ∨ thr ≤ v :=
  ⟨_, regenWindow_QDM_eq_model env tp em (some thr) hE he obs H F,
    Props.C10.qdm_zero_or_ge env.fam tp (ecdf1 em) _ thr F _ _⟩

/-- QDM relative on non-negative `cm_future` (ppf of both fits positive on `(0, 1)`): the divisions are defined and every
    output is non-negative (`Props.C10.qdm_relative_nonneg`), censored or not -/
theorem regenWindow_QDM_relative_nonneg (env : Env P) (em : EcdfMethod) (cz : Option Rat)
    (hE : Lemmas.GenDebWin.qdmEnvOk env .relative cz) (he : env.ecdfM "ecdf_method" = ecdf1 em)
    (h0 : 0 < env.num "cdf_threshold") (h1 : env.num "cdf_threshold" ≤ 1 / 2) (obs H F : List Rat) (hF : ∀ x ∈ F, 0 ≤ x)
    (hpo : ∀ q : Rat, 0 < q → q < 1 → 0 < env.fam.ppf (env.fam.fit obs) q)
    (hph : ∀ q : Rat, 0 < q → q < 1 → 0 < env.fam.ppf (env.fam.fit H) q) :
    ∃ out, regenWindow_QDM env obs H F = .ok out ∧ ∀ v ∈ out, 0 ≤ v :=
  ⟨_, regenWindow_QDM_eq_model env .relative em cz hE he obs H F,
    (Props.C10.qdm_relative_nonneg env.fam (ecdf1 em) _ h0 h1 cz F hF _ _ hpo hph).2⟩

/-- **C10, ISIMIP step 6 as regenerated**: every returned value lies inside `[lower_bound, upper_bound]`.  Guards of
    `Props.C10.step6_in_bounds`: ordered configuration, enough values between the thresholds (`Wet`), non-parametric
    mapping or a family with `RangeLaw` and `ParamOk`, `expit` into `(0, 1)` when the likelihood adjustment is on. -/
theorem regenStep6_in_bounds (c : Cfg) (fam : IsiFamily) (o : Oracles) (ks : List Rat → Rat × Rat → Bool) (rice weib : Bool)
    (hrw : c.riceOrWeibull = (rice || weib)) (obs obsFut H F out : List Rat)
    (hord : CfgOrdered c) (hwet : Wet c obs H F obsFut)
    (hfam : c.nonparametricQm = true ∨ (RangeLaw fam ∧ ParamOk c))
    (hexpit : c.eventLikelihoodAdjustment = true → ∀ x, 0 < o.expit x ∧ o.expit x < 1)
    (h : regenStep6 c fam o ks rice weib obs obsFut H F = .ok out) : ∀ v ∈ out, InBounds c v := by
  rw [regenStep6_eq_model c fam o ks rice weib hrw] at h
  exact Props.C10.step6_in_bounds c fam (Lemmas.GenIsimipStep6.withKs c fam o ks obsFut F) obs obsFut H F out hord hwet hfam hexpit h

/-- … and no value strictly between a bound and its threshold (`NoGap`) -/
theorem regenStep6_no_gap (c : Cfg) (fam : IsiFamily) (o : Oracles) (ks : List Rat → Rat × Rat → Bool) (rice weib : Bool)
    (hrw : c.riceOrWeibull = (rice || weib)) (obs obsFut H F out : List Rat)
    (hord : CfgOrdered c) (hwet : Wet c obs H F obsFut)
    (hfam : c.nonparametricQm = true ∨ (RangeLaw fam ∧ ParamOk c))
    (hexpit : c.eventLikelihoodAdjustment = true → ∀ x, 0 < o.expit x ∧ o.expit x < 1)
    (h : regenStep6 c fam o ks rice weib obs obsFut H F = .ok out) : ∀ v ∈ out, NoGap c v := by
  rw [regenStep6_eq_model c fam o ks rice weib hrw] at h
  exact Props.C10.step6_no_gap c fam (Lemmas.GenIsimipStep6.withKs c fam o ks obsFut F) obs obsFut H F out hord hwet hfam hexpit h

/-- precipitation (`lower_bound = 0`, `lower_threshold = t`, no upper bound): every value is `0` or at least `t` -/
theorem regenStep6_pr_zero_or_ge (c : Cfg) (fam : IsiFamily) (o : Oracles) (ks : List Rat → Rat × Rat → Bool)
    (rice weib : Bool) (hrw : c.riceOrWeibull = (rice || weib)) (obs obsFut H F out : List Rat) (t : Rat)
    (hlb : c.lowerBound = .fin 0) (hlt : c.lowerThreshold = .fin t) (hub : c.upperBound = .posInf)
    (hwet : Wet c obs H F obsFut)
    (hfam : c.nonparametricQm = true ∨ (RangeLaw fam ∧ ParamOk c))
    (hexpit : c.eventLikelihoodAdjustment = true → ∀ x, 0 < o.expit x ∧ o.expit x < 1)
    (h : regenStep6 c fam o ks rice weib obs obsFut H F = .ok out) : ∀ v ∈ out, v = 0 ∨ t ≤ v := by
  rw [regenStep6_eq_model c fam o ks rice weib hrw] at h
  exact Props.C10.isimip_pr_zero_or_ge c fam (Lemmas.GenIsimipStep6.withKs c fam o ks obsFut F) obs obsFut H F out t hlb hlt hub hwet hfam hexpit h

/-- **C10, the regenerated `_apply_on_window` of ISIMIP** (`detrending = False`): every returned value is in bounds and
    outside the gaps.  Guards of `Props.C10.window_in_bounds_no_gap`. -/
theorem regenWindow_ISIMIP_in_bounds_no_gap (c : Cfg) (fam : IsiFamily) (o : Oracles) (d : Draws) (obs H F out : List Rat)
    (yO yH yF : List Int) (hord : CfgOrdered c) (hd : c.detrending = false) (hwet : WetWindow c o d obs H F)
    (hfam : c.nonparametricQm = true ∨ (RangeLaw fam ∧ ParamOk c))
    (hexpit : c.eventLikelihoodAdjustment = true → ∀ x, 0 < o.expit x ∧ o.expit x < 1)
    (h : regenWindow_ISIMIP c fam o d obs H F yO yH yF = .ok out) : ∀ v ∈ out, InBounds c v ∧ NoGap c v := by
  rw [regenWindow_ISIMIP_eq_model] at h
  exact Props.C10.window_in_bounds_no_gap c fam o d obs H F out yO yH yF hord hd hwet hfam hexpit h

end C10

/-! ## Non-vacuity: the regenerated pieces run, and the guards are satisfiable (concrete instances, by evaluation) -/

namespace Demo
open Props.Capstone.Demo (env)

/-- the settings of a CDFt instance with `SSR = True` over the same test-double family -/
def envSSR : Env (Rat × Rat) := { env with flag := fun s => decide (s = "SSR") }

-- the regenerated kernels / programs compute (bias +9 removed; an unchanged model returns the observations)
example : regenWindow_LS "additive" [1, 2, 6] [10, 14] [10, 14] = .ok [1, 5] := by decide +kernel
example : regenWindow_DC "multiplicative" [1, 2, 6] [10, 14] [10, 14] = .ok [1, 2, 6] := by decide +kernel
example : (regenWindow_QM env [1, 2, 6] [10, 14, 18, 22] [10, 14, 18, 22]).toOption.isSome = true := by decide +kernel
example : (regenWindow_CDFt envSSR [1 / 2, 1 / 4, 1 / 8] [0, 2, 3] [0, 1, 4] [0, 5, 0]).toOption.isSome = true := by
  decide +kernel

-- (a) C01: every guard holds on a biased instance
example : ∃ out, regenWindow_LS "additive" [1, 2, 6] [10, 14] [10, 14] = .ok out ∧ mean out = mean [1, 2, 6] :=
  regenWindow_LS_mean_add _ _ (by simp) (by simp)
example : regenWindow_DC "multiplicative" [1, 2, 6] [10, 14] [10, 14] = .ok [1, 2, 6] :=
  regenWindow_DC_id_mult _ _ (by decide +kernel)
example : ∃ out, regenWindow_QM env [1, 2, 6] [10, 14, 18, 22] [10, 14, 18, 22] = .ok out ∧
    ratSigmoid.fit out = ratSigmoid.fit [1, 2, 6] :=
  regenWindow_QM_param_fit_eq env ratSigmoid rfl Lemmas.Family.ratSigmoid_laws .additive rfl rfl _ _ (by simp) (by decide +kernel)
    (by simp) (by decide +kernel) (by decide +kernel)
example : ∃ out, regenWindow_ECDFM env [1, 2, 6] [10, 14, 18, 22] [10, 14, 18, 22] = .ok out ∧
    ratSigmoid.fit out = ratSigmoid.fit [1, 2, 6] :=
  regenWindow_ECDFM_fit_eq env ratSigmoid rfl Lemmas.Family.ratSigmoid_laws _ _ (by decide +kernel) (by simp) (by decide +kernel)
    (by decide +kernel)

-- (b) C09: guards of the signed parametric statement (temperatures in °C around zero)
example : ∃ T : Rat → Rat, Lemmas.C09.MonoR T ∧
    regenWindow_QM env [-1, 2, 6] [-3, 1, 4, 9] [-2, 0, 5] = .ok (([-2, 0, 5] : List Rat).map T) :=
  regenWindow_QM_param_mono_signed env ratSigmoid rfl Lemmas.Family.ratSigmoid_laws .additive rfl rfl (by decide +kernel)
    (by decide +kernel) _ _ _ (by decide +kernel) (by decide +kernel) (by decide +kernel) (by simp)
example : ∃ T : Rat → Rat, Lemmas.C09.StrictMonoR T ∧
    regenWindow_LS "additive" [1, 2, 6] [10, 14] [3, 9, 4] = .ok (([3, 9, 4] : List Rat).map T) :=
  regenWindow_LS_add_strict_mono _ _ _ (by decide +kernel)

-- (c) C10: multiplicative LinearScaling on non-negative data; CDFt SSR for a concrete draw list
example : ∃ out, regenWindow_LS "multiplicative" [1, 2, 6] [10, 14] [5, 0, 7] = .ok out ∧ ∀ v ∈ out, 0 ≤ v :=
  (regenWindow_LS_mult_nonneg _ _ _ (by decide +kernel) (by decide +kernel) (by decide +kernel) (by decide +kernel)).2
example : Props.Capstone.CdftEnvOk envSSR true .additive .step .inverted_cdf := ⟨rfl, rfl, rfl, rfl⟩
example : ∃ out, regenWindow_CDFt envSSR [1 / 2, 1 / 4, 1 / 8] [0, 2, 3] [0, 1, 4] [0, 5, 0] = .ok out ∧
    ∀ v ∈ out, v = 0 ∨ ssrThreshold [0, 2, 3] [0, 1, 4] [0, 5, 0] ≤ v :=
  regenWindow_CDFt_ssr_zero_or_ge envSSR .additive .step .inverted_cdf ⟨rfl, rfl, rfl, rfl⟩ _ _ _ _

-- the regenerated ISIMIP step 6 has a run on a pr-like instance on which every guard of `regenStep6_in_bounds` holds
-- (`List.mergeSort` does not reduce in the kernel, so the run is obtained from `Lemmas.C10.step6_total`, not evaluated)
open Lemmas.C10 in
example : ∃ out, regenStep6 Props.C10.prCfg uniformFam {} (fun _ _ => true) false false [0, 1, 2, 3] [0, 1, 2, 3]
      [0, 1 / 16, 2, 3] [0, 1 / 16, 1, 2, 4] = .ok out ∧
    (∀ v ∈ out, InBounds Props.C10.prCfg v) ∧ ∀ v ∈ out, v = 0 ∨ 1 / 8 ≤ v := by
  obtain ⟨out, h⟩ := step6_total Props.C10.prCfg uniformFam
    (Lemmas.GenIsimipStep6.withKs Props.C10.prCfg uniformFam {} (fun _ _ => true) [0, 1, 2, 3] [0, 1 / 16, 1, 2, 4])
    [0, 1, 2, 3] [0, 1, 2, 3] [0, 1 / 16, 2, 3] [0, 1 / 16, 1, 2, 4]
    (Or.inr ⟨0, rfl⟩) (Or.inl (by decide +kernel)) (by decide +kernel) rfl
  rw [← regenStep6_eq_model Props.C10.prCfg uniformFam {} (fun _ _ => true) false false rfl] at h
  exact ⟨out, h,
    regenStep6_in_bounds _ _ _ _ _ _ rfl _ _ _ _ _ (by decide +kernel) (by decide +kernel)
      (Or.inr ⟨uniformFam_rangeLaw, by decide +kernel⟩) (fun h => by cases h) h,
    regenStep6_pr_zero_or_ge _ _ _ _ _ _ rfl _ _ _ _ _ _ rfl rfl rfl (by decide +kernel)
      (Or.inr ⟨uniformFam_rangeLaw, by decide +kernel⟩) (fun h => by cases h) h⟩

end Demo

end Props.Capstone3
