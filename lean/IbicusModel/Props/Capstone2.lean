/-
  Capstone 2 — C06 / C07 / C08 stated on the **composition of the regenerated pieces**.

  `Props/Capstone.lean` defines, per debiaser, `regenApplyLocation_<Deb>` = the denotation (`Model.Loops.denote`) of the loop
  spec regenerated from /repo's `apply_location` (`Gen.Loops.loopRW`, `loopDC`, `loopIsimipRW`, …) applied to the denotation of
  the regenerated per-window piece.  Here the three structural properties are carried to that term:

    * **C07** (`…_assigned_once`): whenever the regenerated composition returns `.ok out`, `out` has the length of the corrected
      series, every index is `some _`, and `out` is the writes of the regenerated loop applied to an all-`none` buffer where the
      indices written — all iterations together, with multiplicity — are a permutation of `0..n-1` (`AssignedOnce`);
    * **C08** (`…_local`): two runs of the regenerated composition whose inputs agree at every step within `L/2 + S/2` circular
      days of the target step's day of year agree at the target step;
    * **C06** (`…_time_order`): permuting each dated series (values together with days of year) permutes the result of the
      regenerated composition like the corrected series.

  C07 and C08 hold for ANY window function: they are proved once per regenerated loop spec (`regen_loop*_…`, generic in the
  element type and the window function) and instantiated by unfolding; in particular no hypothesis on the debiaser's settings is
  needed (for C06 the settings must be those the model's window function was proved pointwise / order-free for).
  For CDFt / QDM with year windows C06 goes through `Lemmas/Capstone2.lean`: the run on plain values with a separate list of years
  is the projection of the run on dated pairs the theorems of `Props/C06Inst.lean` are stated on.
  A change of /repo that alters a loop breaks `Lemmas.GenLoops.loop* : Gen.Loops.loop* = Model.Loops.loop*`, used in every proof.
-/
import IbicusModel.Props.Capstone
import IbicusModel.Lemmas.Capstone2
import IbicusModel.Props.C06Detrend
import IbicusModel.Props.C07
import IbicusModel.Props.C08

namespace Props.Capstone2
open Model.Skeleton Model.Windows Model.Stats Model.Family Model.Debiasers
open Model.Loops (pick denote denoteYears loopWrites yearLoopWrites iterValues LoopSpec)
open Model.NpDeb (Env)
open Lemmas.Capstone Lemmas.Skeleton
open Props.Capstone
open Props.C08 (circNear)

/-! ## 0. Generic in the element type and the window function: the regenerated loop specs -/

section Generic
variable {α : Type}

/-- what C07 says about a finished run `out` of the loop `sp` with window function `f` on inputs `E`, `n` the length of the
    corrected series: (1) `out` has length `n` and every index holds a written value; (2) `out` is the writes of the loop's
    iterations (`wss`, one list per iteration) applied in order to the uninitialised buffer, and the indices written, all
    iterations together and counted with multiplicity, are a permutation of `0..n-1` — every step is written exactly once -/
def AssignedOnce (sp : LoopSpec) (f : WinFn α) (E : Model.Loops.Env α) (n : Nat) (out : List (Option α)) : Prop :=
  (out.length = n ∧ ∀ i, i < n → ∃ v, out[i]? = some (some v)) ∧
  ∃ wss, mapE (loopWrites sp f E) (iterValues E sp.iter) = .ok wss ∧
    out = applyWrites (List.replicate n none) wss.flatten ∧
    (wss.flatten.map Prod.fst).Perm (List.range n)

/-- the same for a year-window loop (`CDFt` / `QuantileDeltaMapping.apply_on_window`), first part -/
def AllAssigned (n : Nat) (out : List (Option α)) : Prop :=
  out.length = n ∧ ∀ i, i < n → ∃ v, out[i]? = some (some v)

theorem runLoop_writes {C} (writes : C → Except String (List (Nat × α))) (cs : List C) (n : Nat)
    (out : List (Option α)) (h : runLoop writes cs n = .ok out) :
    ∃ wss, mapE writes cs = .ok wss ∧ out = applyWrites (List.replicate n none) wss.flatten := by
  unfold runLoop at h
  simp only [bind, Except.bind, pure, Except.pure] at h
  split at h
  · simp at h
  · rename_i wss hwss
    simp only [Except.ok.injEq] at h
    exact ⟨wss, hwss, h.symm⟩

/-- one iteration of the regenerated `RunningWindowDebiaser.apply_location` loop is `windowWrites` -/
theorem regen_loopRW_writes (f : WinFn α) (L S : Int) (dO dH dF : List Int) (obs hist fut : List α) :
    loopWrites Gen.Loops.loopRW f ⟨L, S, pick dO dH dF, pick obs hist fut⟩ = windowWrites f L S dO dH dF obs hist fut := by
  rw [Lemmas.GenLoops.loopRW]
  funext c
  simp [loopWrites, Model.Loops.slotVal, Model.Loops.findSlot, Model.Loops.slotOf, Model.Loops.loopRW, Model.Loops.writeBack,
    Model.Loops.denIdx, Model.Loops.denSel, Model.Loops.denMask, pick, windowWrites]
  rw [Lemmas.Loops.maskOf_nodup _ _ (Lemmas.Loops.idxWindow_nodup _ _ _)]

theorem regen_loopIsimipRW_writes (f : WinFn α) (L S : Int) (dO dH dF : List Int) (obs hist fut : List α) :
    loopWrites Gen.Loops.loopIsimipRW f ⟨L, S, pick dO dH dF, pick obs hist fut⟩
      = windowWrites f L S dO dH dF obs hist fut := by
  rw [Lemmas.GenLoops.loopIsimipRW]
  funext c
  simp [loopWrites, Model.Loops.slotVal, Model.Loops.findSlot, Model.Loops.slotOf, Model.Loops.loopIsimipRW,
    Model.Loops.writeBack, Model.Loops.denIdx, Model.Loops.denSel, Model.Loops.denMask, pick, windowWrites]
  rw [Lemmas.Loops.maskOf_nodup _ _ (Lemmas.Loops.idxWindow_nodup _ _ _)]

theorem regen_loopDC_writes (f : WinFn α) (L S : Int) (dO dH dF : List Int) (obs hist fut : List α) :
    loopWrites Gen.Loops.loopDC f ⟨L, S, pick dO dH dF, pick obs hist fut⟩ = windowWritesDC f L S dO dH dF obs hist fut := by
  rw [Lemmas.GenLoops.loopDC]
  funext c
  simp [loopWrites, Model.Loops.slotVal, Model.Loops.findSlot, Model.Loops.slotOf, Model.Loops.loopDC, Model.Loops.writeBack,
    Model.Loops.denIdx, Model.Loops.denSel, Model.Loops.denMask, pick, windowWritesDC]
  rw [Lemmas.Loops.maskOf_nodup _ _ (Lemmas.Loops.idxWindow_nodup _ _ _)]

/-- **C07, generic, `RunningWindowDebiaser.apply_location` as regenerated**: any element type, any window function.
    Guards: odd step `S = 2h+1` (`__attrs_post_init__`), one day of year in `0..366` per value of `cm_future`. -/
theorem regen_loopRW_assigned_once (f : WinFn α) (L S h : Int) (dO dH dF : List Int) (obs hist fut : List α)
    (out : List (Option α)) (hS : S = 2 * h + 1) (hh : 0 ≤ h) (hlen : dF.length = fut.length)
    (hr : ∀ d ∈ dF, 0 ≤ d ∧ d ≤ 366)
    (hrun : denote Gen.Loops.loopRW f ⟨L, S, pick dO dH dF, pick obs hist fut⟩ = .ok out) :
    AssignedOnce Gen.Loops.loopRW f ⟨L, S, pick dO dH dF, pick obs hist fut⟩ fut.length out := by
  refine ⟨?_, ?_⟩
  · rw [Lemmas.GenLoops.loopRW, Lemmas.GenLoops.denote_loopRW] at hrun
    exact Props.C07.applyLocationRW_all_some f L S h dO dH dF obs hist fut out hS hh hlen hr hrun
  · obtain ⟨wss, hw, ho⟩ := runLoop_writes _ _ _ _ hrun
    refine ⟨wss, hw, ho, ?_⟩
    rw [regen_loopRW_writes, Lemmas.GenLoops.loopRW] at hw
    rw [← hlen]
    exact Props.C07.applyLocationRW_written_once f L S h dO dH dF obs hist fut wss hS hh hr hw

/-- **C07, generic, the running-window loop of `ISIMIP.apply_location` as regenerated** -/
theorem regen_loopIsimipRW_assigned_once (f : WinFn α) (L S h : Int) (dO dH dF : List Int) (obs hist fut : List α)
    (out : List (Option α)) (hS : S = 2 * h + 1) (hh : 0 ≤ h) (hlen : dF.length = fut.length)
    (hr : ∀ d ∈ dF, 0 ≤ d ∧ d ≤ 366)
    (hrun : denote Gen.Loops.loopIsimipRW f ⟨L, S, pick dO dH dF, pick obs hist fut⟩ = .ok out) :
    AssignedOnce Gen.Loops.loopIsimipRW f ⟨L, S, pick dO dH dF, pick obs hist fut⟩ fut.length out := by
  refine ⟨?_, ?_⟩
  · rw [Lemmas.GenLoops.loopIsimipRW, Lemmas.GenLoops.denote_loopIsimipRW] at hrun
    exact Props.C07.applyLocationRW_all_some f L S h dO dH dF obs hist fut out hS hh hlen hr hrun
  · obtain ⟨wss, hw, ho⟩ := runLoop_writes _ _ _ _ hrun
    refine ⟨wss, hw, ho, ?_⟩
    rw [regen_loopIsimipRW_writes, Lemmas.GenLoops.loopIsimipRW] at hw
    rw [← hlen]
    exact Props.C07.applyLocationRW_written_once f L S h dO dH dF obs hist fut wss hS hh hr hw

/-- **C07, generic, `DeltaChange.apply_location` as regenerated**: the corrected series is `obs` -/
theorem regen_loopDC_assigned_once (f : WinFn α) (L S h : Int) (dO dH dF : List Int) (obs hist fut : List α)
    (out : List (Option α)) (hS : S = 2 * h + 1) (hh : 0 ≤ h) (hlen : dO.length = obs.length)
    (hr : ∀ d ∈ dO, 0 ≤ d ∧ d ≤ 366)
    (hrun : denote Gen.Loops.loopDC f ⟨L, S, pick dO dH dF, pick obs hist fut⟩ = .ok out) :
    AssignedOnce Gen.Loops.loopDC f ⟨L, S, pick dO dH dF, pick obs hist fut⟩ obs.length out := by
  refine ⟨?_, ?_⟩
  · rw [Lemmas.GenLoops.loopDC, Lemmas.GenLoops.denote_loopDC] at hrun
    exact Props.C07.applyLocationDC_all_some f L S h dO dH dF obs hist fut out hS hh hlen hr hrun
  · obtain ⟨wss, hw, ho⟩ := runLoop_writes _ _ _ _ hrun
    refine ⟨wss, hw, ho, ?_⟩
    rw [regen_loopDC_writes, Lemmas.GenLoops.loopDC] at hw
    rw [← hlen]
    -- `DeltaChange`'s loop is the running-window loop with the roles of `obs` and `cm_future` exchanged
    exact Props.C07.applyLocationRW_written_once (Props.C06.swapFn f) L S h dF dH dO fut hist obs wss hS hh hr hw

/-- **C07, generic, ISIMIP's month loop as regenerated**: every step whose month is in `1..12` is assigned -/
theorem regen_loopIsimipMonths_all_assigned (f : WinFn α) (L S : Int) (mO mH mF : List Int) (obs hist fut : List α)
    (out : List (Option α)) (hlen : mF.length = fut.length) (hr : ∀ m ∈ mF, 1 ≤ m ∧ m ≤ 12)
    (hrun : denote Gen.Loops.loopIsimipMonths f ⟨L, S, pick mO mH mF, pick obs hist fut⟩ = .ok out) :
    AllAssigned fut.length out := by
  rw [Lemmas.GenLoops.loopIsimipMonths, Lemmas.GenLoops.denote_loopIsimipMonths] at hrun
  exact Props.C07.applyLocationMonths_all_some f mO mH mF obs hist fut out hlen hr hrun

/-- **C07, generic, the year-window loop of `CDFt.apply_on_window` as regenerated**: for every set of years present -/
theorem regen_loopCDFt_all_assigned (g : YearFn α) (L S h : Int) (yO yH years : List Int) (obs hist fut : List α)
    (out : List (Option α)) (hS : S = 2 * h + 1) (hh : 0 ≤ h) (hlen : years.length = fut.length)
    (hrun : denoteYears Gen.Loops.loopCDFt g ⟨L, S, pick yO yH years, pick obs hist fut⟩ = .ok out) :
    AllAssigned fut.length out := by
  rw [Lemmas.GenLoops.loopCDFt, Lemmas.GenLoops.denote_loopCDFt] at hrun
  exact Props.C07.applyYears_all_some g L S h years fut out hS hh hlen hrun

/-- **C07, generic, the year-window loop of `QuantileDeltaMapping.apply_on_window` as regenerated** -/
theorem regen_loopQDM_all_assigned (g : YearFn α) (L S h : Int) (yO yH years : List Int) (obs hist fut : List α)
    (out : List (Option α)) (hS : S = 2 * h + 1) (hh : 0 ≤ h) (hlen : years.length = fut.length)
    (hrun : denoteYears Gen.Loops.loopQDM g ⟨L, S, pick yO yH years, pick obs hist fut⟩ = .ok out) :
    AllAssigned fut.length out := by
  rw [Lemmas.GenLoops.loopQDM, Lemmas.GenLoops.denote_loopQDM] at hrun
  exact Props.C07.applyYears_all_some g L S h years fut out hS hh hlen hrun

/-- the two inputs of a locality statement agree, series by series, at every step whose day of year lies within `k` circular
    days of day `t` -/
def AgreeNear (k t : Int) (dO dH dF : List Int) (obs hist fut obs' hist' fut' : List α) : Prop :=
  (∀ j (_ : j < dO.length), circNear k t dO[j] → obs[j]? = obs'[j]?) ∧
  (∀ j (_ : j < dH.length), circNear k t dH[j] → hist[j]? = hist'[j]?) ∧
  (∀ j (_ : j < dF.length), circNear k t dF[j] → fut[j]? = fut'[j]?)

/-- **C08, generic, `RunningWindowDebiaser.apply_location` as regenerated**: two runs with the same dates whose inputs agree
    within `L/2 + S/2` circular days of the target step's day of year agree at the target step — bit for bit, any `f` -/
theorem regen_loopRW_local (f : WinFn α) (L S : Int) (dO dH dF : List Int) (obs hist fut obs' hist' fut' : List α)
    (out out' : List (Option α)) (i : Nat) (hi : i < dF.length) (hlen : fut.length = fut'.length)
    (hA : AgreeNear (L / 2 + S / 2) dF[i] dO dH dF obs hist fut obs' hist' fut')
    (hrun : denote Gen.Loops.loopRW f ⟨L, S, pick dO dH dF, pick obs hist fut⟩ = .ok out)
    (hrun' : denote Gen.Loops.loopRW f ⟨L, S, pick dO dH dF, pick obs' hist' fut'⟩ = .ok out') :
    out[i]? = out'[i]? := by
  rw [Lemmas.GenLoops.loopRW, Lemmas.GenLoops.denote_loopRW] at hrun hrun'
  exact Props.C08.locality_RW f L S dO dH dF obs hist fut obs' hist' fut' out out' i hi hlen hA.1 hA.2.1 hA.2.2 hrun hrun'

/-- **C08, generic, ISIMIP's running-window loop as regenerated** -/
theorem regen_loopIsimipRW_local (f : WinFn α) (L S : Int) (dO dH dF : List Int) (obs hist fut obs' hist' fut' : List α)
    (out out' : List (Option α)) (i : Nat) (hi : i < dF.length) (hlen : fut.length = fut'.length)
    (hA : AgreeNear (L / 2 + S / 2) dF[i] dO dH dF obs hist fut obs' hist' fut')
    (hrun : denote Gen.Loops.loopIsimipRW f ⟨L, S, pick dO dH dF, pick obs hist fut⟩ = .ok out)
    (hrun' : denote Gen.Loops.loopIsimipRW f ⟨L, S, pick dO dH dF, pick obs' hist' fut'⟩ = .ok out') :
    out[i]? = out'[i]? := by
  rw [Lemmas.GenLoops.loopIsimipRW, Lemmas.GenLoops.denote_loopIsimipRW] at hrun hrun'
  exact Props.C08.locality_RW f L S dO dH dF obs hist fut obs' hist' fut' out out' i hi hlen hA.1 hA.2.1 hA.2.2 hrun hrun'

/-- **C08, generic, `DeltaChange.apply_location` as regenerated**: the target step is a step of `obs` -/
theorem regen_loopDC_local (f : WinFn α) (L S : Int) (dO dH dF : List Int) (obs hist fut obs' hist' fut' : List α)
    (out out' : List (Option α)) (i : Nat) (hi : i < dO.length) (hlen : obs.length = obs'.length)
    (hA : AgreeNear (L / 2 + S / 2) dO[i] dO dH dF obs hist fut obs' hist' fut')
    (hrun : denote Gen.Loops.loopDC f ⟨L, S, pick dO dH dF, pick obs hist fut⟩ = .ok out)
    (hrun' : denote Gen.Loops.loopDC f ⟨L, S, pick dO dH dF, pick obs' hist' fut'⟩ = .ok out') :
    out[i]? = out'[i]? := by
  rw [Lemmas.GenLoops.loopDC, Lemmas.GenLoops.denote_loopDC] at hrun hrun'
  exact Props.C08.locality_DC f L S dO dH dF obs hist fut obs' hist' fut' out out' i hi hlen hA.1 hA.2.1 hA.2.2 hrun hrun'

/-- **C06, generic**: a window function with `TimeOrderEquivariantRW` keeps it under the regenerated loop -/
theorem regen_loopRW_time_order (f : WinFn α) (ok : List α → Prop) (hf : Props.C06.TimeOrderEquivariantRW f ok)
    (L S h : Int) (dO dH dF : List Int) (obs hist fut : List α) (pO pH pF : List Nat)
    (hpO : pO.Perm (List.range obs.length)) (hpH : pH.Perm (List.range hist.length))
    (hpF : pF.Perm (List.range fut.length))
    (hlO : dO.length = obs.length) (hlH : dH.length = hist.length) (hlF : dF.length = fut.length)
    (hS : S = 2 * h + 1) (hh : 0 ≤ h) (hSL : S ≤ L) (hr : ∀ d ∈ dF, 1 ≤ d ∧ d ≤ 366) (hok : ok fut) :
    ∃ out, denote Gen.Loops.loopRW f ⟨L, S, pick dO dH dF, pick obs hist fut⟩ = .ok out ∧
      denote Gen.Loops.loopRW f
        ⟨L, S, pick (take dO pO) (take dH pH) (take dF pF), pick (take obs pO) (take hist pH) (take fut pF)⟩
        = .ok (take out pF) := by
  rw [Lemmas.GenLoops.loopRW, Lemmas.GenLoops.denote_loopRW, Lemmas.GenLoops.denote_loopRW]
  exact hf L S h dO dH dF obs hist fut pO pH pF hpO hpH hpF hlO hlH hlF hS hh hSL hr hok

theorem regen_loopDC_time_order (f : WinFn α) (hf : Props.C06.TimeOrderEquivariantDC f)
    (L S h : Int) (dO dH dF : List Int) (obs hist fut : List α) (pO pH pF : List Nat)
    (hpO : pO.Perm (List.range obs.length)) (hpH : pH.Perm (List.range hist.length))
    (hpF : pF.Perm (List.range fut.length))
    (hlO : dO.length = obs.length) (hlH : dH.length = hist.length) (hlF : dF.length = fut.length)
    (hS : S = 2 * h + 1) (hh : 0 ≤ h) (hSL : S ≤ L) (hr : ∀ d ∈ dO, 1 ≤ d ∧ d ≤ 366) :
    ∃ out, denote Gen.Loops.loopDC f ⟨L, S, pick dO dH dF, pick obs hist fut⟩ = .ok out ∧
      denote Gen.Loops.loopDC f
        ⟨L, S, pick (take dO pO) (take dH pH) (take dF pF), pick (take obs pO) (take hist pH) (take fut pF)⟩
        = .ok (take out pO) := by
  rw [Lemmas.GenLoops.loopDC, Lemmas.GenLoops.denote_loopDC, Lemmas.GenLoops.denote_loopDC]
  exact hf L S h dO dH dF obs hist fut pO pH pF hpO hpH hpF hlO hlH hlF hS hh hSL hr

end Generic

/-! ## 1. C07 and C08 per debiaser: the regenerated composition `regenApplyLocation_<Deb>` of `Props/Capstone.lean`

  Each statement is the generic theorem of §0 at the debiaser's regenerated window function; `regenApplyLocation_<Deb>` unfolds
  to `denote Gen.Loops.loop… <window function> ⟨L, S, days of year, data⟩`.  No hypothesis on the settings (`env`, `dt`):
  a run that raises (unknown `delta_type`, missing keyword, …) returns no buffer and is outside both statements. -/

variable {P : Type}

/-- **C07, LinearScaling, end to end on the regenerated pieces** -/
theorem regenApplyLocation_LS_assigned_once (dt : String) (L S h : Int) (dO dH dF : List Int) (obs hist fut : List Rat)
    (out : List (Option Rat)) (hS : S = 2 * h + 1) (hh : 0 ≤ h) (hlen : dF.length = fut.length)
    (hr : ∀ d ∈ dF, 0 ≤ d ∧ d ≤ 366)
    (hrun : regenApplyLocation_LS dt L S dO dH dF obs hist fut = .ok out) :
    AssignedOnce Gen.Loops.loopRW (kernelWin (Gen.Debiasers.ls_apply_on_window dt))
      ⟨L, S, pick dO dH dF, pick obs hist fut⟩ fut.length out :=
  regen_loopRW_assigned_once _ L S h dO dH dF obs hist fut out hS hh hlen hr hrun

/-- **C08, LinearScaling** -/
theorem regenApplyLocation_LS_local (dt : String) (L S : Int) (dO dH dF : List Int)
    (obs hist fut obs' hist' fut' : List Rat) (out out' : List (Option Rat)) (i : Nat) (hi : i < dF.length)
    (hlen : fut.length = fut'.length)
    (hA : AgreeNear (L / 2 + S / 2) dF[i] dO dH dF obs hist fut obs' hist' fut')
    (hrun : regenApplyLocation_LS dt L S dO dH dF obs hist fut = .ok out)
    (hrun' : regenApplyLocation_LS dt L S dO dH dF obs' hist' fut' = .ok out') :
    out[i]? = out'[i]? :=
  regen_loopRW_local _ L S dO dH dF obs hist fut obs' hist' fut' out out' i hi hlen hA hrun hrun'

/-- **C07, DeltaChange**: the corrected series is `obs`, the loop runs over its days -/
theorem regenApplyLocation_DC_assigned_once (dt : String) (L S h : Int) (dO dH dF : List Int) (obs hist fut : List Rat)
    (out : List (Option Rat)) (hS : S = 2 * h + 1) (hh : 0 ≤ h) (hlen : dO.length = obs.length)
    (hr : ∀ d ∈ dO, 0 ≤ d ∧ d ≤ 366)
    (hrun : regenApplyLocation_DC dt L S dO dH dF obs hist fut = .ok out) :
    AssignedOnce Gen.Loops.loopDC (kernelWin (Gen.Debiasers.dc_apply_on_within_year_window dt))
      ⟨L, S, pick dO dH dF, pick obs hist fut⟩ obs.length out :=
  regen_loopDC_assigned_once _ L S h dO dH dF obs hist fut out hS hh hlen hr hrun

/-- **C08, DeltaChange**: the target step is a step of `obs` -/
theorem regenApplyLocation_DC_local (dt : String) (L S : Int) (dO dH dF : List Int)
    (obs hist fut obs' hist' fut' : List Rat) (out out' : List (Option Rat)) (i : Nat) (hi : i < dO.length)
    (hlen : obs.length = obs'.length)
    (hA : AgreeNear (L / 2 + S / 2) dO[i] dO dH dF obs hist fut obs' hist' fut')
    (hrun : regenApplyLocation_DC dt L S dO dH dF obs hist fut = .ok out)
    (hrun' : regenApplyLocation_DC dt L S dO dH dF obs' hist' fut' = .ok out') :
    out[i]? = out'[i]? :=
  regen_loopDC_local _ L S dO dH dF obs hist fut obs' hist' fut' out out' i hi hlen hA hrun hrun'

/-- **C07, CDFt, seasonal window only (SSR on or off: `drw` = the random stream of a window, keyed by its index list), end to end on the regenerated pieces** -/
theorem regenApplyLocation_CDFt_assigned_once (env : Env P) (drw : List Nat → List Rat) (L S h : Int) (dO dH dF : List Int) (obs hist fut : List Rat)
    (out : List (Option Rat)) (hS : S = 2 * h + 1) (hh : 0 ≤ h) (hlen : dF.length = fut.length)
    (hr : ∀ d ∈ dF, 0 ≤ d ∧ d ≤ 366)
    (hrun : regenApplyLocation_CDFt env drw L S dO dH dF obs hist fut = .ok out) :
    AssignedOnce Gen.Loops.loopRW (progWinDraws Gen.DebWin.cdft_apply_debiasing_steps env (cdftDraws drw))
      ⟨L, S, pick dO dH dF, pick obs hist fut⟩ fut.length out :=
  regen_loopRW_assigned_once _ L S h dO dH dF obs hist fut out hS hh hlen hr hrun

/-- **C08, CDFt, seasonal window only (SSR on or off: `drw` = the random stream of a window, keyed by its index list)** -/
theorem regenApplyLocation_CDFt_local (env : Env P) (drw : List Nat → List Rat) (L S : Int) (dO dH dF : List Int)
    (obs hist fut obs' hist' fut' : List Rat) (out out' : List (Option Rat)) (i : Nat) (hi : i < dF.length)
    (hlen : fut.length = fut'.length)
    (hA : AgreeNear (L / 2 + S / 2) dF[i] dO dH dF obs hist fut obs' hist' fut')
    (hrun : regenApplyLocation_CDFt env drw L S dO dH dF obs hist fut = .ok out)
    (hrun' : regenApplyLocation_CDFt env drw L S dO dH dF obs' hist' fut' = .ok out') :
    out[i]? = out'[i]? :=
  regen_loopRW_local _ L S dO dH dF obs hist fut obs' hist' fut' out out' i hi hlen hA hrun hrun'

/-- **C07, CDFt in its default configuration: year windows of `cm_future` inside every seasonal window, end to end on the regenerated pieces** -/
theorem regenApplyLocation_CDFt_years_assigned_once (env : Env P) (drw : List Nat → List Rat) (Ly Sy : Int) (yearsF : List Int) (L S h : Int) (dO dH dF : List Int) (obs hist fut : List Rat)
    (out : List (Option Rat)) (hS : S = 2 * h + 1) (hh : 0 ≤ h) (hlen : dF.length = fut.length)
    (hr : ∀ d ∈ dF, 0 ≤ d ∧ d ≤ 366)
    (hrun : regenApplyLocation_CDFt_years env drw Ly Sy yearsF L S dO dH dF obs hist fut = .ok out) :
    AssignedOnce Gen.Loops.loopRW (yearsWin Gen.Loops.loopCDFt (progYearFn Gen.DebWin.cdft_apply_debiasing_steps env (cdftDraws drw)) Ly Sy yearsF)
      ⟨L, S, pick dO dH dF, pick obs hist fut⟩ fut.length out :=
  regen_loopRW_assigned_once _ L S h dO dH dF obs hist fut out hS hh hlen hr hrun

/-- **C08, CDFt in its default configuration: year windows of `cm_future` inside every seasonal window** -/
theorem regenApplyLocation_CDFt_years_local (env : Env P) (drw : List Nat → List Rat) (Ly Sy : Int) (yearsF : List Int) (L S : Int) (dO dH dF : List Int)
    (obs hist fut obs' hist' fut' : List Rat) (out out' : List (Option Rat)) (i : Nat) (hi : i < dF.length)
    (hlen : fut.length = fut'.length)
    (hA : AgreeNear (L / 2 + S / 2) dF[i] dO dH dF obs hist fut obs' hist' fut')
    (hrun : regenApplyLocation_CDFt_years env drw Ly Sy yearsF L S dO dH dF obs hist fut = .ok out)
    (hrun' : regenApplyLocation_CDFt_years env drw Ly Sy yearsF L S dO dH dF obs' hist' fut' = .ok out') :
    out[i]? = out'[i]? :=
  regen_loopRW_local _ L S dO dH dF obs hist fut obs' hist' fut' out out' i hi hlen hA hrun hrun'

/-- **C07, QuantileDeltaMapping, seasonal window only, end to end on the regenerated pieces** -/
theorem regenApplyLocation_QDM_assigned_once (env : Env P) (L S h : Int) (dO dH dF : List Int) (obs hist fut : List Rat)
    (out : List (Option Rat)) (hS : S = 2 * h + 1) (hh : 0 ≤ h) (hlen : dF.length = fut.length)
    (hr : ∀ d ∈ dF, 0 ≤ d ∧ d ≤ 366)
    (hrun : regenApplyLocation_QDM env L S dO dH dF obs hist fut = .ok out) :
    AssignedOnce Gen.Loops.loopRW (qdmWinRegen env)
      ⟨L, S, pick dO dH dF, pick obs hist fut⟩ fut.length out :=
  regen_loopRW_assigned_once _ L S h dO dH dF obs hist fut out hS hh hlen hr hrun

/-- **C08, QuantileDeltaMapping, seasonal window only** -/
theorem regenApplyLocation_QDM_local (env : Env P) (L S : Int) (dO dH dF : List Int)
    (obs hist fut obs' hist' fut' : List Rat) (out out' : List (Option Rat)) (i : Nat) (hi : i < dF.length)
    (hlen : fut.length = fut'.length)
    (hA : AgreeNear (L / 2 + S / 2) dF[i] dO dH dF obs hist fut obs' hist' fut')
    (hrun : regenApplyLocation_QDM env L S dO dH dF obs hist fut = .ok out)
    (hrun' : regenApplyLocation_QDM env L S dO dH dF obs' hist' fut' = .ok out') :
    out[i]? = out'[i]? :=
  regen_loopRW_local _ L S dO dH dF obs hist fut obs' hist' fut' out out' i hi hlen hA hrun hrun'

/-- **C07, QuantileDeltaMapping in its default configuration (year windows inside every seasonal window), end to end on the regenerated pieces** -/
theorem regenApplyLocation_QDM_years_assigned_once (env : Env P) (Ly Sy : Int) (yearsF : List Int) (L S h : Int) (dO dH dF : List Int) (obs hist fut : List Rat)
    (out : List (Option Rat)) (hS : S = 2 * h + 1) (hh : 0 ≤ h) (hlen : dF.length = fut.length)
    (hr : ∀ d ∈ dF, 0 ≤ d ∧ d ≤ 366)
    (hrun : regenApplyLocation_QDM_years env Ly Sy yearsF L S dO dH dF obs hist fut = .ok out) :
    AssignedOnce Gen.Loops.loopRW (qdmYearsWinRegen env Ly Sy yearsF)
      ⟨L, S, pick dO dH dF, pick obs hist fut⟩ fut.length out :=
  regen_loopRW_assigned_once _ L S h dO dH dF obs hist fut out hS hh hlen hr hrun

/-- **C08, QuantileDeltaMapping in its default configuration (year windows inside every seasonal window)** -/
theorem regenApplyLocation_QDM_years_local (env : Env P) (Ly Sy : Int) (yearsF : List Int) (L S : Int) (dO dH dF : List Int)
    (obs hist fut obs' hist' fut' : List Rat) (out out' : List (Option Rat)) (i : Nat) (hi : i < dF.length)
    (hlen : fut.length = fut'.length)
    (hA : AgreeNear (L / 2 + S / 2) dF[i] dO dH dF obs hist fut obs' hist' fut')
    (hrun : regenApplyLocation_QDM_years env Ly Sy yearsF L S dO dH dF obs hist fut = .ok out)
    (hrun' : regenApplyLocation_QDM_years env Ly Sy yearsF L S dO dH dF obs' hist' fut' = .ok out') :
    out[i]? = out'[i]? :=
  regen_loopRW_local _ L S dO dH dF obs hist fut obs' hist' fut' out out' i hi hlen hA hrun hrun'

/-- **C07, QuantileMapping (any detrending / mapping type / family), end to end on the regenerated pieces** -/
theorem regenApplyLocation_QM_assigned_once (env : Env P) (L S h : Int) (dO dH dF : List Int) (obs hist fut : List Rat)
    (out : List (Option Rat)) (hS : S = 2 * h + 1) (hh : 0 ≤ h) (hlen : dF.length = fut.length)
    (hr : ∀ d ∈ dF, 0 ≤ d ∧ d ≤ 366)
    (hrun : regenApplyLocation_QM env L S dO dH dF obs hist fut = .ok out) :
    AssignedOnce Gen.Loops.loopRW (progWin Gen.DebWin.qm_apply_on_window env)
      ⟨L, S, pick dO dH dF, pick obs hist fut⟩ fut.length out :=
  regen_loopRW_assigned_once _ L S h dO dH dF obs hist fut out hS hh hlen hr hrun

/-- **C08, QuantileMapping (any detrending / mapping type / family)** -/
theorem regenApplyLocation_QM_local (env : Env P) (L S : Int) (dO dH dF : List Int)
    (obs hist fut obs' hist' fut' : List Rat) (out out' : List (Option Rat)) (i : Nat) (hi : i < dF.length)
    (hlen : fut.length = fut'.length)
    (hA : AgreeNear (L / 2 + S / 2) dF[i] dO dH dF obs hist fut obs' hist' fut')
    (hrun : regenApplyLocation_QM env L S dO dH dF obs hist fut = .ok out)
    (hrun' : regenApplyLocation_QM env L S dO dH dF obs' hist' fut' = .ok out') :
    out[i]? = out'[i]? :=
  regen_loopRW_local _ L S dO dH dF obs hist fut obs' hist' fut' out out' i hi hlen hA hrun hrun'

/-- **C07, ECDFM, end to end on the regenerated pieces** -/
theorem regenApplyLocation_ECDFM_assigned_once (env : Env P) (L S h : Int) (dO dH dF : List Int) (obs hist fut : List Rat)
    (out : List (Option Rat)) (hS : S = 2 * h + 1) (hh : 0 ≤ h) (hlen : dF.length = fut.length)
    (hr : ∀ d ∈ dF, 0 ≤ d ∧ d ≤ 366)
    (hrun : regenApplyLocation_ECDFM env L S dO dH dF obs hist fut = .ok out) :
    AssignedOnce Gen.Loops.loopRW (progWin Gen.DebWin.ecdfm_apply_on_window env)
      ⟨L, S, pick dO dH dF, pick obs hist fut⟩ fut.length out :=
  regen_loopRW_assigned_once _ L S h dO dH dF obs hist fut out hS hh hlen hr hrun

/-- **C08, ECDFM** -/
theorem regenApplyLocation_ECDFM_local (env : Env P) (L S : Int) (dO dH dF : List Int)
    (obs hist fut obs' hist' fut' : List Rat) (out out' : List (Option Rat)) (i : Nat) (hi : i < dF.length)
    (hlen : fut.length = fut'.length)
    (hA : AgreeNear (L / 2 + S / 2) dF[i] dO dH dF obs hist fut obs' hist' fut')
    (hrun : regenApplyLocation_ECDFM env L S dO dH dF obs hist fut = .ok out)
    (hrun' : regenApplyLocation_ECDFM env L S dO dH dF obs' hist' fut' = .ok out') :
    out[i]? = out'[i]? :=
  regen_loopRW_local _ L S dO dH dF obs hist fut obs' hist' fut' out out' i hi hlen hA hrun hrun'

/-- **C07, ScaledDistributionMapping, absolute, end to end on the regenerated pieces** -/
theorem regenApplyLocation_SDM_assigned_once (env : Env (Rat × Rat)) (L S h : Int) (dO dH dF : List Int) (obs hist fut : List Rat)
    (out : List (Option Rat)) (hS : S = 2 * h + 1) (hh : 0 ≤ h) (hlen : dF.length = fut.length)
    (hr : ∀ d ∈ dF, 0 ≤ d ∧ d ≤ 366)
    (hrun : regenApplyLocation_SDM env L S dO dH dF obs hist fut = .ok out) :
    AssignedOnce Gen.Loops.loopRW (progWin Gen.DebWin.sdm_apply_on_window_absolute_sdm env)
      ⟨L, S, pick dO dH dF, pick obs hist fut⟩ fut.length out :=
  regen_loopRW_assigned_once _ L S h dO dH dF obs hist fut out hS hh hlen hr hrun

/-- **C08, ScaledDistributionMapping, absolute** -/
theorem regenApplyLocation_SDM_local (env : Env (Rat × Rat)) (L S : Int) (dO dH dF : List Int)
    (obs hist fut obs' hist' fut' : List Rat) (out out' : List (Option Rat)) (i : Nat) (hi : i < dF.length)
    (hlen : fut.length = fut'.length)
    (hA : AgreeNear (L / 2 + S / 2) dF[i] dO dH dF obs hist fut obs' hist' fut')
    (hrun : regenApplyLocation_SDM env L S dO dH dF obs hist fut = .ok out)
    (hrun' : regenApplyLocation_SDM env L S dO dH dF obs' hist' fut' = .ok out') :
    out[i]? = out'[i]? :=
  regen_loopRW_local _ L S dO dH dF obs hist fut obs' hist' fut' out out' i hi hlen hA hrun hrun'

/-! ## 1b. The year loop inside a seasonal window (CDFt / QDM default configuration) never leaves a step unassigned

  `yearsWin` runs the regenerated year loop on the window's future sample and reads its buffer as an array
  (`Lemmas.C03.allAssigned`: an unassigned entry is the error `"unassigned"`).  By C07 on the regenerated year loop that
  error never occurs — for every set of years present in the window, however small (one leap year, …).  The index
  structure of the two loops together is `Props.C07.composed_cover_unique` (a statement about `Model.Windows` only). -/

theorem allAssigned_of_AllAssigned {α : Type} (n : Nat) (buf : List (Option α)) (h : AllAssigned n buf) :
    Lemmas.C03.allAssigned buf = .ok (buf.filterMap id) := by
  unfold Lemmas.C03.allAssigned
  rw [if_pos]
  rw [List.all_eq_true]
  intro x hx
  obtain ⟨i, hi, rfl⟩ := List.getElem_of_mem hx
  obtain ⟨v, hv⟩ := h.2 i (h.1 ▸ hi)
  rw [List.getElem?_eq_getElem hi] at hv
  rw [Option.some.inj hv]
  rfl

/-- **C07, CDFt's year loop inside a seasonal window, as regenerated**: any per-year-window function `g`; guards: odd year
    step, one year per value of the window's future sample -/
theorem regen_yearsWin_cdft_assigned (g : List Rat → List Rat → YearFn Rat) (Ly Sy hy : Int) (yearsF : List Int)
    (o h x : List Rat) (io ih ix : List Nat) (buf : List (Option Rat)) (hSy : Sy = 2 * hy + 1) (hhy : 0 ≤ hy)
    (hlen : (take yearsF ix).length = x.length)
    (hrun : denoteYears Gen.Loops.loopCDFt (g o h) ⟨Ly, Sy, pick [] [] (take yearsF ix), pick o h x⟩ = .ok buf) :
    AllAssigned x.length buf ∧ yearsWin Gen.Loops.loopCDFt g Ly Sy yearsF o h x io ih ix = .ok (buf.filterMap id) := by
  have hA := regen_loopCDFt_all_assigned (g o h) Ly Sy hy [] [] (take yearsF ix) o h x buf hSy hhy hlen hrun
  refine ⟨hA, ?_⟩
  unfold yearsWin
  rw [hrun]
  exact allAssigned_of_AllAssigned _ _ hA

/-- **C07, QDM's year loop inside a seasonal window, as regenerated** -/
theorem regen_yearsWin_qdm_assigned (g : List Rat → List Rat → YearFn Rat) (Ly Sy hy : Int) (yearsF : List Int)
    (o h x : List Rat) (io ih ix : List Nat) (buf : List (Option Rat)) (hSy : Sy = 2 * hy + 1) (hhy : 0 ≤ hy)
    (hlen : (take yearsF ix).length = x.length)
    (hrun : denoteYears Gen.Loops.loopQDM (g o h) ⟨Ly, Sy, pick [] [] (take yearsF ix), pick o h x⟩ = .ok buf) :
    AllAssigned x.length buf ∧ yearsWin Gen.Loops.loopQDM g Ly Sy yearsF o h x io ih ix = .ok (buf.filterMap id) := by
  have hA := regen_loopQDM_all_assigned (g o h) Ly Sy hy [] [] (take yearsF ix) o h x buf hSy hhy hlen hrun
  refine ⟨hA, ?_⟩
  unfold yearsWin
  rw [hrun]
  exact allAssigned_of_AllAssigned _ _ hA

/-! ## 2. C06 per debiaser: time-order equivariance of the regenerated composition

  Each series is permuted together with its days of year by its own permutation (`p ~ range n`, the permuted list is
  `take x p`); the conclusion: the run on the original order succeeds and the run on the permuted order returns the same
  buffer permuted like the corrected series — every time step keeps its value.  Guards: those of
  `Props.C06.TimeOrderEquivariantRW` (odd step `S = 2h+1 ≤ L`, days of year in `1..366`, one per value) plus what identifies
  the settings with those of the model's window function (`*_time_order_equivariant` of `Props/C06Inst.lean`). -/

/-- **C06, LinearScaling** (validated `delta_type`) -/
theorem regenApplyLocation_LS_time_order (dt : String) (hdt : dt = "additive" ∨ dt = "multiplicative")
    (L S h : Int) (dO dH dF : List Int) (obs hist fut : List Rat) (pO pH pF : List Nat)
    (hpO : pO.Perm (List.range obs.length)) (hpH : pH.Perm (List.range hist.length))
    (hpF : pF.Perm (List.range fut.length))
    (hlO : dO.length = obs.length) (hlH : dH.length = hist.length) (hlF : dF.length = fut.length)
    (hS : S = 2 * h + 1) (hh : 0 ≤ h) (hSL : S ≤ L) (hr : ∀ d ∈ dF, 1 ≤ d ∧ d ≤ 366) :
    ∃ out, regenApplyLocation_LS dt L S dO dH dF obs hist fut = .ok out ∧
      regenApplyLocation_LS dt L S (take dO pO) (take dH pH) (take dF pF) (take obs pO) (take hist pH) (take fut pF)
        = .ok (take out pF) := by
  rcases hdt with rfl | rfl
  · refine regen_loopRW_time_order _ Props.C06.anySeries ?_ L S h dO dH dF obs hist fut pO pH pF hpO hpH hpF hlO hlH hlF hS hh hSL hr trivial
    rw [kernelWin_ls_additive]; exact Props.C06.ls_time_order_equivariant .additive
  · refine regen_loopRW_time_order _ Props.C06.anySeries ?_ L S h dO dH dF obs hist fut pO pH pF hpO hpH hpF hlO hlH hlF hS hh hSL hr trivial
    rw [kernelWin_ls_multiplicative]; exact Props.C06.ls_time_order_equivariant .multiplicative

/-- **C06, DeltaChange**: the result is permuted like `obs` -/
theorem regenApplyLocation_DC_time_order (dt : String) (hdt : dt = "additive" ∨ dt = "multiplicative")
    (L S h : Int) (dO dH dF : List Int) (obs hist fut : List Rat) (pO pH pF : List Nat)
    (hpO : pO.Perm (List.range obs.length)) (hpH : pH.Perm (List.range hist.length))
    (hpF : pF.Perm (List.range fut.length))
    (hlO : dO.length = obs.length) (hlH : dH.length = hist.length) (hlF : dF.length = fut.length)
    (hS : S = 2 * h + 1) (hh : 0 ≤ h) (hSL : S ≤ L) (hr : ∀ d ∈ dO, 1 ≤ d ∧ d ≤ 366) :
    ∃ out, regenApplyLocation_DC dt L S dO dH dF obs hist fut = .ok out ∧
      regenApplyLocation_DC dt L S (take dO pO) (take dH pH) (take dF pF) (take obs pO) (take hist pH) (take fut pF)
        = .ok (take out pO) := by
  rcases hdt with rfl | rfl
  · refine regen_loopDC_time_order _ ?_ L S h dO dH dF obs hist fut pO pH pF hpO hpH hpF hlO hlH hlF hS hh hSL hr
    rw [kernelWin_dc_additive]; exact Props.C06.dc_time_order_equivariant .additive
  · refine regen_loopDC_time_order _ ?_ L S h dO dH dF obs hist fut pO pH pF hpO hpH hpF hlO hlH hlF hS hh hSL hr
    rw [kernelWin_dc_multiplicative]; exact Props.C06.dc_time_order_equivariant .multiplicative

/-- **C06, CDFt, seasonal window only, `SSR = False`** (with SSR the zeros are replaced by fresh random draws: equivariant in
    distribution only) -/
theorem regenApplyLocation_CDFt_time_order (env : Env P) (d : DeltaShift) (em : EcdfMethod) (im : IecdfMethod)
    (hE : CdftEnvOk env false d em im) (drw : List Nat → List Rat)
    (L S h : Int) (dO dH dF : List Int) (obs hist fut : List Rat) (pO pH pF : List Nat)
    (hpO : pO.Perm (List.range obs.length)) (hpH : pH.Perm (List.range hist.length))
    (hpF : pF.Perm (List.range fut.length))
    (hlO : dO.length = obs.length) (hlH : dH.length = hist.length) (hlF : dF.length = fut.length)
    (hS : S = 2 * h + 1) (hh : 0 ≤ h) (hSL : S ≤ L) (hr : ∀ d ∈ dF, 1 ≤ d ∧ d ≤ 366) :
    ∃ out, regenApplyLocation_CDFt env drw L S dO dH dF obs hist fut = .ok out ∧
      regenApplyLocation_CDFt env drw L S (take dO pO) (take dH pH) (take dF pF) (take obs pO) (take hist pH) (take fut pF)
        = .ok (take out pF) := by
  refine regen_loopRW_time_order _ Props.C06.anySeries ?_ L S h dO dH dF obs hist fut pO pH pF hpO hpH hpF hlO hlH hlF hS hh hSL hr trivial
  rw [progWin_cdft_nossr env d em im drw hE.delta hE.ssr hE.ecdf hE.iecdf]
  exact Props.C06.cdft_time_order_equivariant d em im

/-- **C06, QuantileDeltaMapping, seasonal window only**: any family whose fit does not depend on the storage order -/
theorem regenApplyLocation_QDM_time_order (env : Env P) (hfit : Lemmas.C06.FitPerm env.fam) (tp : TrendPres)
    (em : EcdfMethod) (cz : Option Rat) (hE : Lemmas.GenDebWin.qdmEnvOk env tp cz) (he : env.ecdfM "ecdf_method" = ecdf1 em)
    (L S h : Int) (dO dH dF : List Int) (obs hist fut : List Rat) (pO pH pF : List Nat)
    (hpO : pO.Perm (List.range obs.length)) (hpH : pH.Perm (List.range hist.length))
    (hpF : pF.Perm (List.range fut.length))
    (hlO : dO.length = obs.length) (hlH : dH.length = hist.length) (hlF : dF.length = fut.length)
    (hS : S = 2 * h + 1) (hh : 0 ≤ h) (hSL : S ≤ L) (hr : ∀ d ∈ dF, 1 ≤ d ∧ d ≤ 366) :
    ∃ out, regenApplyLocation_QDM env L S dO dH dF obs hist fut = .ok out ∧
      regenApplyLocation_QDM env L S (take dO pO) (take dH pH) (take dF pF) (take obs pO) (take hist pH) (take fut pF)
        = .ok (take out pF) := by
  refine regen_loopRW_time_order _ Props.C06.anySeries ?_ L S h dO dH dF obs hist fut pO pH pF hpO hpH hpF hlO hlH hlF hS hh hSL hr trivial
  rw [qdmWinRegen_eq env tp em cz hE he]
  exact Props.C06.qdm_time_order_equivariant env.fam hfit tp em _ cz

/-- **C06, QuantileMapping**, parametric (order-free fit) or non-parametric, every detrending -/
theorem regenApplyLocation_QM_time_order (env : Env P) (d : Detrending)
    (hd : env.str "detrending" = Model.NpDeb.detrendingStr d)
    (hm : (env.str "mapping_type" = "parametric" ∧ Lemmas.C06.FitPerm env.fam) ∨ env.str "mapping_type" = "nonparametric")
    (L S h : Int) (dO dH dF : List Int) (obs hist fut : List Rat) (pO pH pF : List Nat)
    (hpO : pO.Perm (List.range obs.length)) (hpH : pH.Perm (List.range hist.length))
    (hpF : pF.Perm (List.range fut.length))
    (hlO : dO.length = obs.length) (hlH : dH.length = hist.length) (hlF : dF.length = fut.length)
    (hS : S = 2 * h + 1) (hh : 0 ≤ h) (hSL : S ≤ L) (hr : ∀ d ∈ dF, 1 ≤ d ∧ d ≤ 366) :
    ∃ out, regenApplyLocation_QM env L S dO dH dF obs hist fut = .ok out ∧
      regenApplyLocation_QM env L S (take dO pO) (take dH pH) (take dF pF) (take obs pO) (take hist pH) (take fut pF)
        = .ok (take out pF) := by
  refine regen_loopRW_time_order _ Props.C06.anySeries ?_ L S h dO dH dF obs hist fut pO pH pF hpO hpH hpF hlO hlH hlF hS hh hSL hr trivial
  rcases hm with ⟨hm, hfit⟩ | hm
  · rw [progWin_qm_param env d hd hm]; exact Props.C06.qm_param_time_order_equivariant env.fam hfit _ d
  · rw [progWin_qm_nonparam env d hd hm]; exact Props.C06.qm_nonparam_time_order_equivariant d

/-- **C06, ECDFM** -/
theorem regenApplyLocation_ECDFM_time_order (env : Env P) (hfit : Lemmas.C06.FitPerm env.fam)
    (L S h : Int) (dO dH dF : List Int) (obs hist fut : List Rat) (pO pH pF : List Nat)
    (hpO : pO.Perm (List.range obs.length)) (hpH : pH.Perm (List.range hist.length))
    (hpF : pF.Perm (List.range fut.length))
    (hlO : dO.length = obs.length) (hlH : dH.length = hist.length) (hlF : dF.length = fut.length)
    (hS : S = 2 * h + 1) (hh : 0 ≤ h) (hSL : S ≤ L) (hr : ∀ d ∈ dF, 1 ≤ d ∧ d ≤ 366) :
    ∃ out, regenApplyLocation_ECDFM env L S dO dH dF obs hist fut = .ok out ∧
      regenApplyLocation_ECDFM env L S (take dO pO) (take dH pH) (take dF pF) (take obs pO) (take hist pH) (take fut pF)
        = .ok (take out pF) := by
  refine regen_loopRW_time_order _ Props.C06.anySeries ?_ L S h dO dH dF obs hist fut pO pH pF hpO hpH hpF hlO hlH hlF hS hh hSL hr trivial
  rw [progWin_ecdfm env]; exact Props.C06.ecdfm_time_order_equivariant env.fam hfit _

/-- **C06, ScaledDistributionMapping absolute**: tie-free `cm_future` (the method is rank based) -/
theorem regenApplyLocation_SDM_time_order (env : Env (Rat × Rat)) (Fam : LocScaleFam) (hfam : env.fam = Fam.toFamily)
    (hidx : env.parIdx = Model.NpDeb.locScaleIdx) (hfit : Lemmas.C06.LocScalePerm Fam)
    (L S h : Int) (dO dH dF : List Int) (obs hist fut : List Rat) (pO pH pF : List Nat)
    (hpO : pO.Perm (List.range obs.length)) (hpH : pH.Perm (List.range hist.length))
    (hpF : pF.Perm (List.range fut.length))
    (hlO : dO.length = obs.length) (hlH : dH.length = hist.length) (hlF : dF.length = fut.length)
    (hS : S = 2 * h + 1) (hh : 0 ≤ h) (hSL : S ≤ L) (hr : ∀ d ∈ dF, 1 ≤ d ∧ d ≤ 366) (hnd : fut.Nodup) :
    ∃ out, regenApplyLocation_SDM env L S dO dH dF obs hist fut = .ok out ∧
      regenApplyLocation_SDM env L S (take dO pO) (take dH pH) (take dF pF) (take obs pO) (take hist pH) (take fut pF)
        = .ok (take out pF) := by
  refine regen_loopRW_time_order _ List.Nodup ?_ L S h dO dH dF obs hist fut pO pH pF hpO hpH hpF hlO hlH hlF hS hh hSL hr hnd
  rw [progWin_sdm_abs env Fam hfam hidx]; exact Props.C06.sdm_absolute_time_order_equivariant Fam hfit

/-- **C06, CDFt in its default configuration** (year windows of `cm_future` inside every seasonal window, `SSR = False`):
    three regenerated pieces composed.  `yearsF` = the year of every step of `cm_future`; it is permuted together with
    `cm_future`.  Guards in addition: odd year step `Sy = 2·hy + 1 ≤ Ly`, one year per value. -/
theorem regenApplyLocation_CDFt_years_time_order (env : Env P) (d : DeltaShift) (em : EcdfMethod) (im : IecdfMethod)
    (hE : CdftEnvOk env false d em im) (drw : List Nat → List Rat)
    (Ly Sy hy : Int) (hSy : Sy = 2 * hy + 1) (hhy : 0 ≤ hy) (hSLy : Sy ≤ Ly) (yearsF : List Int)
    (L S h : Int) (dO dH dF : List Int) (obs hist fut : List Rat) (pO pH pF : List Nat)
    (hpO : pO.Perm (List.range obs.length)) (hpH : pH.Perm (List.range hist.length))
    (hpF : pF.Perm (List.range fut.length))
    (hlO : dO.length = obs.length) (hlH : dH.length = hist.length) (hlF : dF.length = fut.length)
    (hyF : yearsF.length = fut.length)
    (hS : S = 2 * h + 1) (hh : 0 ≤ h) (hSL : S ≤ L) (hr : ∀ d ∈ dF, 1 ≤ d ∧ d ≤ 366) :
    ∃ out, regenApplyLocation_CDFt_years env drw Ly Sy yearsF L S dO dH dF obs hist fut = .ok out ∧
      regenApplyLocation_CDFt_years env drw Ly Sy (take yearsF pF) L S (take dO pO) (take dH pH) (take dF pF)
        (take obs pO) (take hist pH) (take fut pF) = .ok (take out pF) := by
  rw [regenApplyLocation_CDFt_years_eq_model env d em im hE, regenApplyLocation_CDFt_years_eq_model env d em im hE]
  exact Lemmas.Capstone2.winOfYears_time_order _ Ly Sy
    (Props.C06.cdft_years_time_order_equivariant d em im Ly Sy hy hSy hhy hSLy) yearsF L S h dO dH dF obs hist fut pO pH pF hpO hpH hpF hlO hlH hlF hyF hS hh hSL hr

/-- **C06, QuantileDeltaMapping in its default configuration** (year windows inside every seasonal window) -/
theorem regenApplyLocation_QDM_years_time_order (env : Env P) (hfit : Lemmas.C06.FitPerm env.fam) (tp : TrendPres)
    (em : EcdfMethod) (cz : Option Rat) (hE : Lemmas.GenDebWin.qdmEnvOk env tp cz) (he : env.ecdfM "ecdf_method" = ecdf1 em)
    (Ly Sy hy : Int) (hSy : Sy = 2 * hy + 1) (hhy : 0 ≤ hy) (hSLy : Sy ≤ Ly) (yearsF : List Int)
    (L S h : Int) (dO dH dF : List Int) (obs hist fut : List Rat) (pO pH pF : List Nat)
    (hpO : pO.Perm (List.range obs.length)) (hpH : pH.Perm (List.range hist.length))
    (hpF : pF.Perm (List.range fut.length))
    (hlO : dO.length = obs.length) (hlH : dH.length = hist.length) (hlF : dF.length = fut.length)
    (hyF : yearsF.length = fut.length)
    (hS : S = 2 * h + 1) (hh : 0 ≤ h) (hSL : S ≤ L) (hr : ∀ d ∈ dF, 1 ≤ d ∧ d ≤ 366) :
    ∃ out, regenApplyLocation_QDM_years env Ly Sy yearsF L S dO dH dF obs hist fut = .ok out ∧
      regenApplyLocation_QDM_years env Ly Sy (take yearsF pF) L S (take dO pO) (take dH pH) (take dF pF)
        (take obs pO) (take hist pH) (take fut pF) = .ok (take out pF) := by
  rw [regenApplyLocation_QDM_years_eq_model env tp em cz hE he, regenApplyLocation_QDM_years_eq_model env tp em cz hE he]
  exact Lemmas.Capstone2.winOfYears_time_order _ Ly Sy
    (Props.C06.qdm_years_time_order_equivariant env.fam hfit tp em _ cz Ly Sy hy hSy hhy hSLy) yearsF L S h dO dH dF obs hist fut pO pH pF hpO hpH hpF hlO hlH hlF hyF hS hh hSL hr

/-! ## 3. ISIMIP: step 1, the regenerated window loop over the regenerated wiring of steps 2–7, step 8 -/

section Isimip
open Model.Isimip Lemmas.C06

/-- step 8 (rescaling by the annual cycle, or nothing) keeps a fully assigned buffer fully assigned -/
theorem step8Buffer_all_assigned (c : Cfg) (buf out : List (Option Rat)) (cyc : Option (List Rat)) (dF : List Int) (n : Nat)
    (hl : dF.length = n) (hb : AllAssigned n buf) (h : step8Buffer c buf cyc dF = .ok out) : AllAssigned n out := by
  unfold step8Buffer at h
  by_cases hs : c.scaleByAnnualCycle = true
  · simp only [hs, if_true] at h
    cases cyc with
    | none => cases h
    | some cy =>
      simp only [] at h
      obtain ⟨hr, hall⟩ := mapM_ok_inv _ _ _ h
      have hzl : (buf.zip dF).length = n := by rw [List.length_zip, hb.1, hl, Nat.min_self]
      refine ⟨by rw [hr, List.length_map, hzl], fun i hi => ?_⟩
      obtain ⟨v, hv⟩ := hb.2 i hi
      have hi2 : i < (buf.zip dF).length := by rw [hzl]; exact hi
      have hmem := hall _ (List.getElem_mem hi2)
      have hib : i < buf.length := by rw [hb.1]; exact hi
      have hp1 : ((buf.zip dF)[i]).1 = some v := by
        rw [List.getElem_zip]
        rw [List.getElem?_eq_getElem hib] at hv
        exact Option.some.inj hv
      rw [hr, List.getElem?_map, List.getElem?_eq_getElem hi2, Option.map_some]
      generalize (buf.zip dF)[i] = p at hmem hp1
      obtain ⟨p1, p2⟩ := p
      simp only at hp1
      subst hp1
      simp only [] at hmem
      cases hlk : lookupDay cy (uniqueYears dF) p2 with
      | error e => rw [hlk] at hmem; cases hmem
      | ok s =>
        rw [hlk] at hmem
        exact ⟨v * s, by rw [← Except.ok.inj hmem]⟩
  · simp only [hs] at h
    rw [← Except.ok.inj h]
    exact hb

/-- **C07, `ISIMIP.apply_location` (running-window mode), end to end on the regenerated pieces**: a run that returns `out`
    went through step 1, a run `buf` of the regenerated loop in which every step was written exactly once
    (`AssignedOnce`), and step 8; every step of `out` is assigned.  Guards: odd step, list lengths, days of year in `0..366`. -/
theorem regenApplyLocation_ISIMIP_assigned_once (c : Cfg) (fam : IsiFamily) (orc : List Nat → Oracles)
    (drw : List Nat → Draws) (L S h : Int) (doyO doyH doyF yearsO yearsH yearsF : List Int) (obs H F : List Rat)
    (out : List (Option Rat)) (hS : S = 2 * h + 1) (hh : 0 ≤ h)
    (hlO : obs.length = doyO.length) (hlH : H.length = doyH.length) (hlF : F.length = doyF.length)
    (hr : ∀ d ∈ doyF, 0 ≤ d ∧ d ≤ 366)
    (hrun : regenApplyLocation_ISIMIP c fam orc drw L S doyO doyH doyF yearsO yearsH yearsF obs H F = .ok out) :
    AllAssigned F.length out ∧
    ∃ o1 h1 f1 cyc buf, step1 c obs H F doyO doyH doyF = .ok (o1, h1, f1, cyc) ∧ f1.length = F.length ∧
      denote Gen.Loops.loopIsimipRW (isimipWinRegen c fam orc drw yearsO yearsH yearsF)
        ⟨L, S, pick doyO doyH doyF, pick o1 h1 f1⟩ = .ok buf ∧
      AssignedOnce Gen.Loops.loopIsimipRW (isimipWinRegen c fam orc drw yearsO yearsH yearsF)
        ⟨L, S, pick doyO doyH doyF, pick o1 h1 f1⟩ f1.length buf ∧
      step8Buffer c buf cyc doyF = .ok out := by
  unfold regenApplyLocation_ISIMIP at hrun
  cases hs1 : step1 c obs H F doyO doyH doyF with
  | error e => rw [hs1] at hrun; cases hrun
  | ok t =>
    obtain ⟨o1, h1, f1, cyc⟩ := t
    rw [hs1] at hrun
    simp only [bind, Except.bind] at hrun
    obtain ⟨_, _, l3, _⟩ := step1_cycle c obs H F doyO doyH doyF o1 h1 f1 cyc hlO hlH hlF hs1
    cases hb : denote Gen.Loops.loopIsimipRW (isimipWinRegen c fam orc drw yearsO yearsH yearsF)
        ⟨L, S, pick doyO doyH doyF, pick o1 h1 f1⟩ with
    | error e => rw [hb] at hrun; cases hrun
    | ok buf =>
      rw [hb] at hrun
      simp only [] at hrun
      have hA := regen_loopIsimipRW_assigned_once _ L S h doyO doyH doyF o1 h1 f1 buf hS hh (by omega) hr hb
      refine ⟨?_, o1, h1, f1, cyc, buf, rfl, l3, hb, hA, hrun⟩
      exact step8Buffer_all_assigned c buf out cyc doyF F.length (by omega) (l3 ▸ hA.1) hrun

/-- **C07, ISIMIP month mode**: every step (months in `1..12`) is assigned -/
theorem regenApplyLocation_ISIMIP_months_all_assigned (c : Cfg) (fam : IsiFamily) (orc : List Nat → Oracles)
    (drw : List Nat → Draws) (L S : Int) (mO mH mF doyO doyH doyF yearsO yearsH yearsF : List Int) (obs H F : List Rat)
    (out : List (Option Rat))
    (hlO : obs.length = doyO.length) (hlH : H.length = doyH.length) (hlF : F.length = doyF.length)
    (hm : mF.length = F.length) (hr : ∀ m ∈ mF, 1 ≤ m ∧ m ≤ 12)
    (hrun : regenApplyLocation_ISIMIP_months c fam orc drw L S mO mH mF doyO doyH doyF yearsO yearsH yearsF obs H F
      = .ok out) :
    AllAssigned F.length out := by
  unfold regenApplyLocation_ISIMIP_months at hrun
  cases hs1 : step1 c obs H F doyO doyH doyF with
  | error e => rw [hs1] at hrun; cases hrun
  | ok t =>
    obtain ⟨o1, h1, f1, cyc⟩ := t
    rw [hs1] at hrun
    simp only [bind, Except.bind] at hrun
    obtain ⟨_, _, l3, _⟩ := step1_cycle c obs H F doyO doyH doyF o1 h1 f1 cyc hlO hlH hlF hs1
    cases hb : denote Gen.Loops.loopIsimipMonths (isimipWinRegen c fam orc drw yearsO yearsH yearsF)
        ⟨L, S, pick mO mH mF, pick o1 h1 f1⟩ with
    | error e => rw [hb] at hrun; cases hrun
    | ok buf =>
      rw [hb] at hrun
      simp only [] at hrun
      have hA := regen_loopIsimipMonths_all_assigned _ L S mO mH mF o1 h1 f1 buf (by omega) hr hb
      exact step8Buffer_all_assigned c buf out cyc doyF F.length (by omega) (l3 ▸ hA) hrun

/-- **C08, ISIMIP running-window mode without scaling by the annual cycle** (every variable but rsds): step 1 and step 8
    are the identity, the whole of `apply_location` is the regenerated loop, and it is local.  (With
    `scale_by_annual_cycle` the annual cycle of step 1 is computed from the whole series: not a local operation.) -/
theorem regenApplyLocation_ISIMIP_local (c : Cfg) (hsc : c.scaleByAnnualCycle = false) (fam : IsiFamily)
    (orc : List Nat → Oracles) (drw : List Nat → Draws) (L S : Int) (dO dH dF yearsO yearsH yearsF : List Int)
    (obs hist fut obs' hist' fut' : List Rat) (out out' : List (Option Rat)) (i : Nat) (hi : i < dF.length)
    (hlen : fut.length = fut'.length)
    (hA : AgreeNear (L / 2 + S / 2) dF[i] dO dH dF obs hist fut obs' hist' fut')
    (hrun : regenApplyLocation_ISIMIP c fam orc drw L S dO dH dF yearsO yearsH yearsF obs hist fut = .ok out)
    (hrun' : regenApplyLocation_ISIMIP c fam orc drw L S dO dH dF yearsO yearsH yearsF obs' hist' fut' = .ok out') :
    out[i]? = out'[i]? := by
  have key : ∀ (o h f : List Rat) (r : List (Option Rat)),
      regenApplyLocation_ISIMIP c fam orc drw L S dO dH dF yearsO yearsH yearsF o h f = .ok r →
      denote Gen.Loops.loopIsimipRW (isimipWinRegen c fam orc drw yearsO yearsH yearsF)
        ⟨L, S, pick dO dH dF, pick o h f⟩ = .ok r := by
    intro o h f r hr
    unfold regenApplyLocation_ISIMIP at hr
    rw [Props.C06.step1_of_no_scaling c o h f dO dH dF hsc] at hr
    simp only [bind, Except.bind] at hr
    cases hb : denote Gen.Loops.loopIsimipRW (isimipWinRegen c fam orc drw yearsO yearsH yearsF)
        ⟨L, S, pick dO dH dF, pick o h f⟩ with
    | error e => rw [hb] at hr; cases hr
    | ok buf =>
      rw [hb] at hr
      simp only [step8Buffer, hsc, Bool.false_eq_true, if_false] at hr
      rw [← Except.ok.inj hr]
  exact regen_loopIsimipRW_local _ L S dO dH dF obs hist fut obs' hist' fut' out out' i hi hlen hA
    (key _ _ _ _ hrun) (key _ _ _ _ hrun')

/-- **C06, `ISIMIP.apply_location` (running-window mode), every configuration**: `Props.C06.isimip_apply_location_years_time_order_equivariant`
    on the regenerated composition (guards: see there — `WindowGuard` = tie-freeness of the ranked values on every window,
    `hkey` = the oracles / draws of a window do not depend on the storage order) -/
theorem regenApplyLocation_ISIMIP_time_order (c : Cfg) (fam : IsiFamily) (orc orc' : List Nat → Oracles)
    (drw drw' : List Nat → Draws) (L S h : Int) (dO dH dF yO yH yF : List Int) (obs hist fut : List Rat)
    (pO pH pF : List Nat)
    (hpO : pO.Perm (List.range obs.length)) (hpH : pH.Perm (List.range hist.length))
    (hpF : pF.Perm (List.range fut.length))
    (hlO : dO.length = obs.length) (hlH : dH.length = hist.length) (hlF : dF.length = fut.length)
    (hyO : yO.length = obs.length) (hyH : yH.length = hist.length) (hyF : yF.length = fut.length)
    (hS : S = 2 * h + 1) (hh : 0 ≤ h) (hSL : S ≤ L)
    (hrO : ∀ d ∈ dO, 1 ≤ d ∧ d ≤ 366) (hrH : ∀ d ∈ dH, 1 ≤ d ∧ d ≤ 366) (hrF : ∀ d ∈ dF, 1 ≤ d ∧ d ≤ 366)
    (hkey : ∀ cc ∈ useCenters S dF, orc' (idxWindow L (take dF pF) cc) = orc (idxWindow L dF cc) ∧
      drw' (idxWindow L (take dF pF) cc) = drw (idxWindow L dF cc))
    (hg : ∀ o1 h1 f1 cyc, step1 c obs hist fut dO dH dF = .ok (o1, h1, f1, cyc) →
      ∀ cc ∈ useCenters S dF, Props.C06.WindowGuard c (orc (idxWindow L dF cc)) (drw (idxWindow L dF cc))
        (take (o1.zip yO) (idxWindow L dO cc)) (take (h1.zip yH) (idxWindow L dH cc))
        (take (f1.zip yF) (idxWindow L dF cc))) :
    Props.C06.SameUpToOrder (regenApplyLocation_ISIMIP c fam orc drw L S dO dH dF yO yH yF obs hist fut)
      (regenApplyLocation_ISIMIP c fam orc' drw' L S (take dO pO) (take dH pH) (take dF pF)
        (take yO pO) (take yH pH) (take yF pF) (take obs pO) (take hist pH) (take fut pF)) pF := by
  rw [regenApplyLocation_ISIMIP_eq_model, regenApplyLocation_ISIMIP_eq_model]
  exact Props.C06.isimip_apply_location_years_time_order_equivariant c fam orc orc' drw drw' L S h dO dH dF yO yH yF
    obs hist fut pO pH pF hpO hpH hpF hlO hlH hlF hyO hyH hyF hS hh hSL hrO hrH hrF hkey hg

/-- **C06, ISIMIP with detrending — the settings of tas, psl, rlds** (`detrending = True`, no bound / threshold pair, no
    scaling by the annual cycle): the only data guard is tie-freeness of every detrended future window sample -/
theorem regenApplyLocation_ISIMIP_detrending_time_order (c : Cfg) (fam : IsiFamily) (orc orc' : List Nat → Oracles)
    (drw drw' : List Nat → Draws) (hd : c.detrending = true)
    (hl : (c.hasLowerBound && c.hasLowerThreshold) = false) (hu : (c.hasUpperBound && c.hasUpperThreshold) = false)
    (hsc : c.scaleByAnnualCycle = false)
    (L S h : Int) (dO dH dF yO yH yF : List Int) (obs hist fut : List Rat) (pO pH pF : List Nat)
    (hpO : pO.Perm (List.range obs.length)) (hpH : pH.Perm (List.range hist.length))
    (hpF : pF.Perm (List.range fut.length))
    (hlO : dO.length = obs.length) (hlH : dH.length = hist.length) (hlF : dF.length = fut.length)
    (hyO : yO.length = obs.length) (hyH : yH.length = hist.length) (hyF : yF.length = fut.length)
    (hS : S = 2 * h + 1) (hh : 0 ≤ h) (hSL : S ≤ L)
    (hrO : ∀ d ∈ dO, 1 ≤ d ∧ d ≤ 366) (hrH : ∀ d ∈ dH, 1 ≤ d ∧ d ≤ 366) (hrF : ∀ d ∈ dF, 1 ≤ d ∧ d ≤ 366)
    (hkey : ∀ cc ∈ useCenters S dF, orc' (idxWindow L (take dF pF) cc) = orc (idxWindow L dF cc) ∧
      drw' (idxWindow L (take dF pF) cc) = drw (idxWindow L dF cc))
    (hnd : ∀ cc ∈ useCenters S dF,
      (detr c (orc (idxWindow L dF cc)).sigF (take (fut.zip yF) (idxWindow L dF cc))).Nodup) :
    Props.C06.SameUpToOrder (regenApplyLocation_ISIMIP c fam orc drw L S dO dH dF yO yH yF obs hist fut)
      (regenApplyLocation_ISIMIP c fam orc' drw' L S (take dO pO) (take dH pH) (take dF pF)
        (take yO pO) (take yH pH) (take yF pF) (take obs pO) (take hist pH) (take fut pF)) pF := by
  rw [regenApplyLocation_ISIMIP_eq_model, regenApplyLocation_ISIMIP_eq_model]
  exact Props.C06.isimip_rw_detrending_time_order_equivariant c fam orc orc' drw drw' hd hl hu hsc L S h dO dH dF yO yH yF
    obs hist fut pO pH pF hpO hpH hpF hlO hlH hlF hyO hyH hyF hS hh hSL hrO hrH hrF hkey hnd

/-- **C06, ISIMIP month mode, every configuration** -/
theorem regenApplyLocation_ISIMIP_months_time_order (c : Cfg) (fam : IsiFamily)
    (orc orc' : List Nat → Oracles) (drw drw' : List Nat → Draws) (L S : Int)
    (mO mH mF dO dH dF yO yH yF : List Int) (obs hist fut : List Rat) (pO pH pF : List Nat)
    (hpO : pO.Perm (List.range obs.length)) (hpH : pH.Perm (List.range hist.length))
    (hpF : pF.Perm (List.range fut.length))
    (hmO : mO.length = obs.length) (hmH : mH.length = hist.length) (hmF : mF.length = fut.length)
    (hlO : dO.length = obs.length) (hlH : dH.length = hist.length) (hlF : dF.length = fut.length)
    (hyO : yO.length = obs.length) (hyH : yH.length = hist.length) (hyF : yF.length = fut.length)
    (hr : ∀ m ∈ mF, 1 ≤ m ∧ m ≤ 12)
    (hrO : ∀ d ∈ dO, 1 ≤ d ∧ d ≤ 366) (hrH : ∀ d ∈ dH, 1 ≤ d ∧ d ≤ 366) (hrF : ∀ d ∈ dF, 1 ≤ d ∧ d ≤ 366)
    (hkey : ∀ m ∈ Py.arange1 1 13, orc' (Props.C06.monthIdx (take mF pF) m) = orc (Props.C06.monthIdx mF m) ∧
      drw' (Props.C06.monthIdx (take mF pF) m) = drw (Props.C06.monthIdx mF m))
    (hg : ∀ o1 h1 f1 cyc, step1 c obs hist fut dO dH dF = .ok (o1, h1, f1, cyc) →
      ∀ m ∈ Py.arange1 1 13, Props.C06.WindowGuard c (orc (Props.C06.monthIdx mF m)) (drw (Props.C06.monthIdx mF m))
        (take (o1.zip yO) (indicesIn mO [m])) (take (h1.zip yH) (indicesIn mH [m]))
        (take (f1.zip yF) (indicesIn mF [m]))) :
    Props.C06.SameUpToOrder
      (regenApplyLocation_ISIMIP_months c fam orc drw L S mO mH mF dO dH dF yO yH yF obs hist fut)
      (regenApplyLocation_ISIMIP_months c fam orc' drw' L S (take mO pO) (take mH pH) (take mF pF) (take dO pO) (take dH pH)
        (take dF pF) (take yO pO) (take yH pH) (take yF pF) (take obs pO) (take hist pH) (take fut pF)) pF := by
  rw [regenApplyLocation_ISIMIP_months_eq_model, regenApplyLocation_ISIMIP_months_eq_model]
  exact Props.C06.isimip_apply_location_months_years_time_order_equivariant c fam orc orc' drw drw' mO mH mF dO dH dF
    yO yH yF obs hist fut pO pH pF hpO hpH hpF hmO hmH hmF hlO hlH hlF hyO hyH hyF hr hrO hrH hrF hkey hg

end Isimip

/-! ## 4. Non-vacuity: concrete instances of the hypotheses (by evaluation), on the demo data of `Props.Capstone.Demo` -/

namespace Demo
open Props.Capstone.Demo

-- C07: the run of `Props.Capstone.Demo` (LinearScaling on six days, `L = 3`, `S = 1 = 2·0 + 1`) satisfies every hypothesis
example : AssignedOnce Gen.Loops.loopRW (kernelWin (Gen.Debiasers.ls_apply_on_window "additive"))
    ⟨3, 1, pick days days days, pick obs hist fut⟩ fut.length
    [some (7 / 2), some 5, some 39, some 1, some (25 / 3), some (17 / 2)] :=
  regenApplyLocation_LS_assigned_once "additive" 3 1 0 days days days obs hist fut _ (by decide) (by decide) (by decide)
    (by decide) (by decide +kernel)

-- … DeltaChange (the corrected series is `obs`)
example : (regenApplyLocation_DC "additive" 3 1 days days days obs hist fut).toOption.map (fun l => l.all (·.isSome))
    = some true := by decide +kernel

/-- C08: `cm_hist` changed on day 5; the target step is day 1 (`L/2 + S/2 = 1`: days 366, 1, 2 are near) -/
theorem agree_demo : AgreeNear ((3 : Int) / 2 + 1 / 2) days[0] days days days obs hist fut obs (hist.set 4 99) fut := by
  refine ⟨fun _ _ _ => rfl, ?_, fun _ _ _ => rfl⟩
  intro j hj hc
  by_cases h4 : j = 4
  · subst h4
    obtain ⟨x, h1, h2, hw⟩ := hc
    exfalso
    have hd : days[0] = 1 := rfl
    rw [hd] at h1 h2
    have hd4 : days[4] = 5 := rfl
    rw [hd4] at hw
    have hx : x = 0 ∨ x = 1 ∨ x = 2 := by omega
    rcases hx with rfl | rfl | rfl <;> revert hw <;> decide
  · rw [List.getElem?_set_ne (fun h => h4 h.symm)]

-- both runs succeed, and the theorem applies to them: the values on day 1 agree (on day 4 they differ)
example : (regenApplyLocation_LS "additive" 3 1 days days days obs hist fut).toOption.map (·[0]?)
    = (regenApplyLocation_LS "additive" 3 1 days days days obs (hist.set 4 99) fut).toOption.map (·[0]?) := by
  decide +kernel
example : (regenApplyLocation_LS "additive" 3 1 days days days obs hist fut).toOption.map (·[3]?)
    ≠ (regenApplyLocation_LS "additive" 3 1 days days days obs (hist.set 4 99) fut).toOption.map (·[3]?) := by
  decide +kernel
example (out out' : List (Option Rat)) (h : regenApplyLocation_LS "additive" 3 1 days days days obs hist fut = .ok out)
    (h' : regenApplyLocation_LS "additive" 3 1 days days days obs (hist.set 4 99) fut = .ok out') : out[0]? = out'[0]? :=
  regenApplyLocation_LS_local "additive" 3 1 days days days obs hist fut obs (hist.set 4 99) fut out out' 0 (by decide) rfl
    agree_demo h h'

-- C06: the three series stored in three different orders
example : ∃ out, regenApplyLocation_LS "additive" 3 1 days days days obs hist fut = .ok out ∧
    regenApplyLocation_LS "additive" 3 1 (take days [2, 0, 1, 5, 3, 4]) (take days [5, 4, 3, 2, 1, 0])
      (take days [1, 3, 5, 0, 2, 4]) (take obs [2, 0, 1, 5, 3, 4]) (take hist [5, 4, 3, 2, 1, 0])
      (take fut [1, 3, 5, 0, 2, 4]) = .ok (take out [1, 3, 5, 0, 2, 4]) :=
  regenApplyLocation_LS_time_order "additive" (Or.inl rfl) 3 1 0 days days days obs hist fut _ _ _ (by decide) (by decide)
    (by decide) rfl rfl rfl (by decide) (by decide) (by decide) (by decide)

-- C06 with year windows (seasonal loop ∘ year loop ∘ QDM steps, the run of `Props.Capstone.Demo`): the years travel with
-- `cm_future`
example : ∃ out, regenApplyLocation_QDM_years env 3 1 [2001, 2001, 2002, 2002, 2003, 2003] 3 3 [2, 2, 2, 2, 2, 2]
      [2, 2, 2, 2, 2, 2] [2, 2, 2, 2, 2, 2] obs hist fut = .ok out ∧
    regenApplyLocation_QDM_years env 3 1 (take [2001, 2001, 2002, 2002, 2003, 2003] [1, 3, 5, 0, 2, 4]) 3 3
      (take [2, 2, 2, 2, 2, 2] [2, 0, 1, 5, 3, 4]) (take [2, 2, 2, 2, 2, 2] [5, 4, 3, 2, 1, 0])
      (take [2, 2, 2, 2, 2, 2] [1, 3, 5, 0, 2, 4]) (take obs [2, 0, 1, 5, 3, 4]) (take hist [5, 4, 3, 2, 1, 0])
      (take fut [1, 3, 5, 0, 2, 4]) = .ok (take out [1, 3, 5, 0, 2, 4]) :=
  regenApplyLocation_QDM_years_time_order env Lemmas.C06.ratSigmoid_fitPerm .absolute .step none
    ⟨rfl, rfl, fun _ h => by cases h⟩ rfl 3 1 0 (by decide) (by decide) (by decide) _ 3 3 1 _ _ _ obs hist fut _ _ _
    (by decide) (by decide) (by decide) rfl rfl rfl rfl (by decide) (by decide) (by decide) (by decide)

end Demo

end Props.Capstone2
