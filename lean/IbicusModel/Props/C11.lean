/-
  C11 — ISIMIP adjusts the frequency of beyond-threshold events as specified.
  Property theorems only (helper lemmas live in `Lemmas/IsimipFreq`).  Stated on `Model.IsimipFreq`;
  `Lemmas.GenIsimipFreq` proves the model equal to the kernels regenerated from the source.
  Exact rational arithmetic (float rounding is carried by the correspondence check, not by a theorem).
-/
import IbicusModel.Lemmas.IsimipFreq
import IbicusModel.Lemmas.GenIsimipFreq
import IbicusModel.Lemmas.C11Pipeline

namespace Props.C11
open Model.IsimipFreq Lemmas.IsimipFreq

/-! ### The bias-adjusted future frequency `P = P_obs_future(Po, Ph, Pf)` -/

/-- **`P` is a frequency**: for all `Po, Ph, Pf ∈ [0,1]`, `0 ≤ P ≤ 1` (four-branch case analysis;
    `np.isclose` is the decidable relation the code uses — the only fact needed about it is reflexivity). -/
theorem pObsFuture_range (Po Ph Pf : Rat) (hPo : 0 ≤ Po ∧ Po ≤ 1) (hPh : 0 ≤ Ph ∧ Ph ≤ 1)
    (hPf : 0 ≤ Pf ∧ Pf ≤ 1) : 0 ≤ pObsFuture Po Ph Pf ∧ pObsFuture Po Ph Pf ≤ 1 := by
  obtain ⟨o0, o1⟩ := hPo
  obtain ⟨h0, h1⟩ := hPh
  obtain ⟨f0, f1⟩ := hPf
  unfold pObsFuture
  split_ifs with c1 c2 c3
  · exact ⟨f0, f1⟩
  · obtain ⟨c2a, c2b⟩ := c2
    have hpos : 0 < Ph := by linarith
    constructor
    · exact div_nonneg (mul_nonneg o0 f0) (le_of_lt hpos)
    · rw [div_le_one hpos]
      calc Po * Pf ≤ 1 * Pf := mul_le_mul_of_nonneg_right o1 f0
        _ = Pf := one_mul _
        _ ≤ Ph := c2a
  · obtain ⟨c3a, c3b⟩ := c3
    have hpos : 0 < 1 - Ph := by linarith
    have t0 : 0 ≤ (1 - Po) * (1 - Pf) / (1 - Ph) :=
      div_nonneg (mul_nonneg (by linarith) (by linarith)) (le_of_lt hpos)
    have t1 : (1 - Po) * (1 - Pf) / (1 - Ph) ≤ 1 := by
      rw [div_le_one hpos]
      calc (1 - Po) * (1 - Pf) ≤ 1 * (1 - Pf) := mul_le_mul_of_nonneg_right (by linarith) (by linarith)
        _ = 1 - Pf := one_mul _
        _ ≤ 1 - Ph := by linarith
    constructor <;> linarith
  · have hne : Ph ≠ Po := by
      intro e; rw [e] at c1; exact c1 (isclose_self Po)
    rcases lt_or_gt_of_ne hne with hlt | hgt
    · have : ¬ Pf ≥ Ph := fun h => c3 ⟨h, hlt⟩
      push Not at this
      constructor <;> linarith
    · have : ¬ Pf ≤ Ph := fun h => c2 ⟨h, hgt⟩
      push Not at this
      constructor <;> linarith

example : pObsFuture (1/2) (3/4) (1/4) = 1/6 := by decide +kernel          -- branch 2
example : pObsFuture (1/2) (1/4) (3/4) = 5/6 := by decide +kernel          -- branch 3
example : pObsFuture (1/2) (1/4) (1/8) = 3/8 := by decide +kernel          -- branch 4
example : pObsFuture (1/2) (1/2) (1/8) = 1/8 := by decide +kernel          -- branch 1

/-- **No division by zero on frequencies**: the branch that divides by `Ph` has `Ph > 0`, the branch that
    divides by `1 − Ph` has `Ph < 1` (only `0 ≤ Po ≤ 1` is needed). -/
theorem pObsFuture_no_div0 (Po Ph Pf : Rat) (hPo : 0 ≤ Po ∧ Po ≤ 1) :
    (pBranch Po Ph Pf = 2 → 0 < Ph) ∧ (pBranch Po Ph Pf = 3 → 0 < 1 - Ph) := by
  unfold pBranch
  split_ifs with c1 c2 c3 <;> refine ⟨fun h => ?_, fun h => ?_⟩ <;>
    first
      | (exfalso; revert h; decide)
      | (obtain ⟨_, c⟩ := c2; linarith [hPo.1])
      | (obtain ⟨_, c⟩ := c3; linarith [hPo.2])

/-- **Simulated frequency unchanged (`Pf = Ph`)**: the adjusted frequency is the observed one — except
    inside `np.isclose`'s tolerance of `Ph ≈ Po`, where the first branch returns `Pf = Ph` instead.  This is
    the exact statement; the two corollaries below are the readings of the property text. -/
theorem pObsFuture_hist_eq_future (Po Ph : Rat) (hPo : 0 ≤ Po ∧ Po ≤ 1) :
    pObsFuture Po Ph Ph = if Py.isclose Ph Po = true then Ph else Po := by
  unfold pObsFuture
  split_ifs with c1 c2 c3
  · rfl
  · have : Ph ≠ 0 := by linarith [c2.2, hPo.1]
    field_simp
  · have : 1 - Ph ≠ 0 := by linarith [c3.2, hPo.2]
    field_simp
    ring
  · ring

theorem pObsFuture_hist_eq_future_or (Po Ph : Rat) (hPo : 0 ≤ Po ∧ Po ≤ 1) :
    pObsFuture Po Ph Ph = Po ∨ (Py.isclose Ph Po = true ∧ pObsFuture Po Ph Ph = Ph) := by
  rw [pObsFuture_hist_eq_future Po Ph hPo]
  by_cases c : Py.isclose Ph Po = true
  · right; simp [c]
  · left; simp [c]

/-- in either case the result is the observed frequency up to `np.isclose`'s tolerance
    (`|P − Po| ≤ 1e-8 + 1e-5·|Po|`) -/
theorem pObsFuture_hist_eq_future_close (Po Ph : Rat) (hPo : 0 ≤ Po ∧ Po ≤ 1) :
    Py.absQ (pObsFuture Po Ph Ph - Po) ≤ (1 : Rat) / 100000000 + (1 : Rat) / 100000 * Py.absQ Po := by
  rw [pObsFuture_hist_eq_future Po Ph hPo]
  by_cases c : Py.isclose Ph Po = true
  · simp only [c, if_true]
    exact (isclose_iff Ph Po).mp c
  · simp only [c]
    have := absQ_nonneg Po
    simp only [Bool.false_eq_true, if_false, sub_self, absQ_zero]
    positivity

-- hypotheses satisfiable, both alternatives occur
example : pObsFuture (1/4) (3/4) (3/4) = 1/4 := by decide +kernel
example : Py.isclose (1/2 + 1/1000000) (1/2) = true ∧ pObsFuture (1/2) (1/2 + 1/1000000) (1/2 + 1/1000000) ≠ 1/2 := by
  decide +kernel

/-- **No historical bias in the frequency (`Ph = Po`)**: the adjusted frequency is the simulated future one
    (for *all* rationals, no guard). -/
theorem pObsFuture_hist_eq_obs (Po Pf : Rat) : pObsFuture Po Po Pf = Pf := by
  unfold pObsFuture
  simp [isclose_self]

/-- more generally whenever the code regards `Ph` and `Po` as equal -/
theorem pObsFuture_of_isclose (Po Ph Pf : Rat) (h : Py.isclose Ph Po = true) : pObsFuture Po Ph Pf = Pf := by
  unfold pObsFuture
  simp [h]

/-! ### What the property text does NOT fix: the formula between the stated identities

The statement of C11 says of `P`: it lies in `[0,1]`, equals the observed frequency when `cm_future = cm_hist`, equals
the simulated future frequency when `cm_hist` and `obs` have equal frequencies.  These three clauses do not determine
the four-branch formula: `pObsFutureAlt` below satisfies all three (in exactly the form proved above for `pObsFuture`)
and differs from `pObsFuture` on frequencies.  Hence a change of the library's formula that keeps the three clauses is
reported through the broken `Gen = Model` obligation (`Lemmas.GenIsimipFreq.get_P_obs_future`) and the `P-grid`
correspondence — *without* a failing input of the property, because there is none. -/

/-- a DIFFERENT adjustment rule: the complementary-multiplicative branch whenever `Ph < Po` (also when the simulated
    frequency decreases, where `pObsFuture` is additive) -/
def pObsFutureAlt (Po Ph Pf : Rat) : Rat :=
  if Py.isclose Ph Po = true then Pf
  else if Pf ≤ Ph ∧ Ph > Po then Po * Pf / Ph
  else if Ph < Po then 1 - (1 - Po) * (1 - Pf) / (1 - Ph)
  else Po + Pf - Ph

theorem stated_clauses_do_not_pin_formula :
    ∃ g : Rat → Rat → Rat → Rat,
      (∀ Po Ph Pf, 0 ≤ Po ∧ Po ≤ 1 → 0 ≤ Ph ∧ Ph ≤ 1 → 0 ≤ Pf ∧ Pf ≤ 1 → 0 ≤ g Po Ph Pf ∧ g Po Ph Pf ≤ 1) ∧
      (∀ Po Ph, 0 ≤ Po ∧ Po ≤ 1 → g Po Ph Ph = if Py.isclose Ph Po = true then Ph else Po) ∧
      (∀ Po Pf, g Po Po Pf = Pf) ∧
      g (3/5) (2/5) (1/5) ≠ pObsFuture (3/5) (2/5) (1/5) := by
  refine ⟨pObsFutureAlt, ?_, ?_, ?_, by decide +kernel⟩
  · rintro Po Ph Pf ⟨o0, o1⟩ ⟨h0, h1⟩ ⟨f0, f1⟩
    unfold pObsFutureAlt
    split_ifs with c1 c2 c3
    · exact ⟨f0, f1⟩
    · obtain ⟨c2a, c2b⟩ := c2
      have hpos : 0 < Ph := by linarith
      constructor
      · exact div_nonneg (mul_nonneg o0 f0) (le_of_lt hpos)
      · rw [div_le_one hpos]
        calc Po * Pf ≤ 1 * Pf := mul_le_mul_of_nonneg_right o1 f0
          _ = Pf := one_mul _
          _ ≤ Ph := c2a
    · have hpos : 0 < 1 - Ph := by linarith
      have t0 : 0 ≤ (1 - Po) * (1 - Pf) / (1 - Ph) :=
        div_nonneg (mul_nonneg (by linarith) (by linarith)) (le_of_lt hpos)
      have t1 : (1 - Po) * (1 - Pf) / (1 - Ph) ≤ 1 := by
        rw [div_le_one hpos]
        calc (1 - Po) * (1 - Pf) ≤ (1 - Ph) * (1 - Pf) := mul_le_mul_of_nonneg_right (by linarith) (by linarith)
          _ ≤ (1 - Ph) * 1 := mul_le_mul_of_nonneg_left (by linarith) (by linarith)
          _ = 1 - Ph := mul_one _
      constructor <;> linarith
    · have hne : Ph ≠ Po := by
        intro e; rw [e] at c1; exact c1 (isclose_self Po)
      have hgt : Po < Ph := lt_of_le_of_ne (not_lt.mp c3) (Ne.symm hne)
      have : ¬ Pf ≤ Ph := fun h => c2 ⟨h, hgt⟩
      push Not at this
      constructor <;> linarith
  · rintro Po Ph ⟨o0, o1⟩
    unfold pObsFutureAlt
    split_ifs with c1 c2 c3
    · rfl
    · have : Ph ≠ 0 := by linarith [c2.2]
      field_simp
    · have : 1 - Ph ≠ 0 := by linarith
      field_simp
      ring
    · ring
  · intro Po Pf
    unfold pObsFutureAlt
    simp [isclose_self]

example : pObsFutureAlt (3/5) (2/5) (1/5) = 7/15 ∧ pObsFuture (3/5) (2/5) (1/5) = 2/5 := by decide +kernel

/-! ### The number of entries sent to a bound: `round(n · P)` -/

/-- **Frequency adjustment switched off**: `P` is the observed frequency, whatever the model frequencies are. -/
theorem pFuture_off (mo mh mf : List Bool) : pFuture false mo mh mf = freq mo := by
  unfold pFuture; simp

/-- … and the count is `round(n · k_obs / n_obs)`, computed on integers -/
theorem nrToBound_off (mo mh mf : List Bool) (hmo : 0 < mo.length) :
    nrToBound false mo mh mf = rhe ((mf.length : Int) * countTrue mo) (mo.length : Int) := by
  unfold nrToBound
  rw [pFuture_off]
  unfold freq
  have : (((mf.length : Int)) : Rat) * ((countTrue mo : Rat) / (((mo.length : Int)) : Rat))
      = ((((mf.length : Int) * countTrue mo : Int)) : Rat) / (((mo.length : Int)) : Rat) := by
    push_cast; ring
  rw [this, roundHalfEven_div _ _ (by exact_mod_cast hmo)]

example : nrToBound false [true, false, true] [false] [true, true, false, false, false] = 3 := by decide +kernel

/-- the frequency used is a frequency (non-empty masks: numpy yields NaN on an empty one) -/
theorem pFuture_range (adjust : Bool) (mo mh mf : List Bool)
    (_hmo : 0 < mo.length) (_hmh : 0 < mh.length) (_hmf : 0 < mf.length) :
    0 ≤ pFuture adjust mo mh mf ∧ pFuture adjust mo mh mf ≤ 1 := by
  unfold pFuture
  split_ifs
  · exact pObsFuture_range _ _ _ (freq_range mo) (freq_range mh) (freq_range mf)
  · exact freq_range mo

/-- **`n_bound = round(n · P)` lies between `0` and `n`** and is a nearest integer to `n · P`. -/
theorem nrToBound_range (adjust : Bool) (mo mh mf : List Bool)
    (hmo : 0 < mo.length) (hmh : 0 < mh.length) (hmf : 0 < mf.length) :
    0 ≤ nrToBound adjust mo mh mf ∧ nrToBound adjust mo mh mf ≤ (mf.length : Int) := by
  obtain ⟨p0, p1⟩ := pFuture_range adjust mo mh mf hmo hmh hmf
  have hn : (0 : Rat) ≤ (((mf.length : Int)) : Rat) := by exact_mod_cast Int.natCast_nonneg _
  unfold nrToBound
  apply roundHalfEven_bounds
  · push_cast; exact mul_nonneg (by exact_mod_cast hn) p0
  · calc (((mf.length : Int)) : Rat) * pFuture adjust mo mh mf ≤ (((mf.length : Int)) : Rat) * 1 :=
          mul_le_mul_of_nonneg_left p1 hn
      _ = _ := mul_one _

theorem nrToBound_nearest (adjust : Bool) (mo mh mf : List Bool) :
    (((mf.length : Int)) : Rat) * pFuture adjust mo mh mf - 1 / 2 ≤ (nrToBound adjust mo mh mf : Rat) ∧
    (nrToBound adjust mo mh mf : Rat) ≤ (((mf.length : Int)) : Rat) * pFuture adjust mo mh mf + 1 / 2 := by
  unfold nrToBound
  exact roundHalfEven_close _

-- Po = 1/4, Ph = 1/2, Pf = 1/3: P = 1/6, n = 6, round(1) = 1
example : nrToBound true [true, false, false, false] [true, true, false, false] [true, true, false, false, false, false]
    = 1 := by decide +kernel
-- Po = 1/4, Ph = 1/2, Pf = 1/6: P = 1/12, n = 6, round(1/2) = 0 (half to even)
example : nrToBound true [true, false, false, false] [true, true, false, false] [true, false, false, false, false, false]
    = 0 := by decide +kernel

/-! ### Rescaling when both bounds together claim more entries than exist -/

/-- **After rescaling the two counts sum to `n`** (repaired code: the upper count is the remainder). -/
theorem scale_sum (l u n : Int) : (scaleCounts l u n).1 + (scaleCounts l u n).2 = n := by
  unfold scaleCounts; simp

/-- **… and both are non-negative** — for all `l, u ≥ 0`, `n ≥ 0` with `l + u > n` (the situation in which
    `step6` calls the function); moreover rescaling never increases a count. -/
theorem scale_nonneg (l u n : Int) (hl : 0 ≤ l) (hu : 0 ≤ u) (hn : 0 ≤ n) (h : l + u > n) :
    0 ≤ (scaleCounts l u n).1 ∧ 0 ≤ (scaleCounts l u n).2 ∧
    (scaleCounts l u n).1 ≤ l ∧ (scaleCounts l u n).2 ≤ u := by
  have hb : 0 < l + u := by omega
  have b1 := rhe_bounds (l * n) (l + u) n hb (mul_nonneg hl hn) (by nlinarith)
  have b2 := rhe_bounds (l * n) (l + u) l hb (mul_nonneg hl hn) (by nlinarith)
  have b3 := rhe_ge (l * n) (l + u) (n - u) hb (by nlinarith)
  unfold scaleCounts
  simp only []
  omega

example : scaleCounts 2 2 3 = (2, 1) := by decide
example : scaleCounts 7 5 10 = (6, 4) := by decide

/-- **… and they are the PROPORTIONALLY rescaled counts**: each is a nearest integer of its share
    `l·n/(l+u)` resp. `u·n/(l+u)` (`2·|(l+u)·l' − l·n| ≤ l+u`, and the same for the upper count) — the clause the
    harness demands of the realised counts (`rescaled_ok`).  A rule that sums to `n` without being proportional
    ("the lower bound keeps its count, the upper bound gets the remainder") is excluded: see the `example` below. -/
theorem scale_proportional (l u n : Int) (h : 0 < l + u) :
    (2 * (l * n) - (l + u) ≤ 2 * (l + u) * (scaleCounts l u n).1 ∧
      2 * (l + u) * (scaleCounts l u n).1 ≤ 2 * (l * n) + (l + u)) ∧
    (2 * (u * n) - (l + u) ≤ 2 * (l + u) * (scaleCounts l u n).2 ∧
      2 * (l + u) * (scaleCounts l u n).2 ≤ 2 * (u * n) + (l + u)) := by
  have c := rhe_close (l * n) (l + u) h
  unfold scaleCounts
  simp only []
  refine ⟨⟨c.1, c.2⟩, ?_, ?_⟩ <;> nlinarith [c.1, c.2]

-- hypotheses satisfiable, conclusion discriminating: (l, u, n) = (60, 72, 120) ↦ (55, 65); the non-proportional
-- "(l, n − l)" = (60, 60) violates the bound (2·|132·60 − 60·120| = 1440 > 132)
example : scaleCounts 60 72 120 = (55, 65) ∧ ¬ (2 * ((60 + 72) * 60 : Int) ≤ 2 * (60 * 120) + (60 + 72)) := by decide

/-- **F4 (the code before the repair)**: the upper count was divided by a sum that already contained the
    rescaled lower count; `(l, u, n) = (2, 2, 3)` was mapped to `(2, 2)`, which does not sum to `3`
    (concrete witness, by evaluation). -/
theorem legacy_scale_counterexample :
    legacyScaleCounts 2 2 3 = (2, 2) ∧ (legacyScaleCounts 2 2 3).1 + (legacyScaleCounts 2 2 3).2 ≠ 3 := by
  decide

/-- The counts `step6` finally uses: non-negative, never more than exist, and exactly `n` when the raw
    counts overlapped; unchanged otherwise. -/
theorem finalCounts_valid (nl nu n : Int) (hl : 0 ≤ nl) (hu : 0 ≤ nu) (hn : 0 ≤ n) :
    0 ≤ (finalCounts nl nu n).1 ∧ 0 ≤ (finalCounts nl nu n).2 ∧
    (finalCounts nl nu n).1 + (finalCounts nl nu n).2 ≤ n ∧
    (nl + nu > n → (finalCounts nl nu n).1 + (finalCounts nl nu n).2 = n) ∧
    (nl + nu ≤ n → finalCounts nl nu n = (nl, nu)) := by
  unfold finalCounts
  split_ifs with c
  · have s := scale_sum nl nu n
    obtain ⟨a, b, _, _⟩ := scale_nonneg nl nu n hl hu hn c
    exact ⟨a, b, by omega, fun _ => s, fun h => by omega⟩
  · exact ⟨hl, hu, by simp only []; omega, fun h => by omega, fun _ => rfl⟩

/-- raw counts of `step6` are between `0` and `n` (series non-empty) -/
theorem rawCounts_range (adjust : Bool) (lthr uthr : Option Rat) (obs cmh cmf : List Rat)
    (ho : 0 < obs.length) (hh : 0 < cmh.length) (hf : 0 < cmf.length) :
    (0 ≤ (rawCounts adjust lthr uthr obs cmh cmf).1 ∧ (rawCounts adjust lthr uthr obs cmh cmf).1 ≤ (cmf.length : Int)) ∧
    (0 ≤ (rawCounts adjust lthr uthr obs cmh cmf).2 ∧ (rawCounts adjust lthr uthr obs cmh cmf).2 ≤ (cmf.length : Int)) := by
  unfold rawCounts
  constructor
  · cases lthr with
    | none => simp
    | some t =>
      have := nrToBound_range adjust (maskLower t obs) (maskLower t cmh) (maskLower t cmf)
        (by simpa [maskLower] using ho) (by simpa [maskLower] using hh) (by simpa [maskLower] using hf)
      simpa [maskLower] using this
  · cases uthr with
    | none => simp
    | some t =>
      have := nrToBound_range adjust (maskUpper t obs) (maskUpper t cmh) (maskUpper t cmf)
        (by simpa [maskUpper] using ho) (by simpa [maskUpper] using hh) (by simpa [maskUpper] using hf)
      simpa [maskUpper] using this

/-- **The counts `step6` uses are consistent**: `0 ≤ n_l`, `0 ≤ n_u`, `n_l + n_u ≤ n` — the two bound masks
    never overlap. -/
theorem step6Counts_valid (adjust : Bool) (lthr uthr : Option Rat) (obs cmh cmf : List Rat)
    (ho : 0 < obs.length) (hh : 0 < cmh.length) (hf : 0 < cmf.length) :
    0 ≤ (step6Counts adjust lthr uthr obs cmh cmf).1 ∧ 0 ≤ (step6Counts adjust lthr uthr obs cmh cmf).2 ∧
    (step6Counts adjust lthr uthr obs cmh cmf).1 + (step6Counts adjust lthr uthr obs cmh cmf).2 ≤ (cmf.length : Int) := by
  obtain ⟨⟨a, _⟩, ⟨b, _⟩⟩ := rawCounts_range adjust lthr uthr obs cmh cmf ho hh hf
  obtain ⟨c1, c2, c3, _, _⟩ := finalCounts_valid _ _ (cmf.length : Int) a b (Int.natCast_nonneg _)
  exact ⟨c1, c2, c3⟩

/-- when nothing has to be rescaled the lower count is `round(n · P_lower)` and the upper `round(n · P_upper)` -/
theorem step6Counts_eq_round (adjust : Bool) (tl tu : Rat) (obs cmh cmf : List Rat)
    (h : (rawCounts adjust (some tl) (some tu) obs cmh cmf).1 + (rawCounts adjust (some tl) (some tu) obs cmh cmf).2
          ≤ (cmf.length : Int)) :
    step6Counts adjust (some tl) (some tu) obs cmh cmf =
      (Py.roundHalfEven ((((cmf.length : Int)) : Rat) * pFuture adjust (maskLower tl obs) (maskLower tl cmh) (maskLower tl cmf)),
       Py.roundHalfEven ((((cmf.length : Int)) : Rat) * pFuture adjust (maskUpper tu obs) (maskUpper tu cmh) (maskUpper tu cmf))) := by
  unfold step6Counts finalCounts
  simp only []
  have : ¬ ((rawCounts adjust (some tl) (some tu) obs cmh cmf).1 + (rawCounts adjust (some tl) (some tu) obs cmh cmf).2
      > (cmf.length : Int)) := by omega
  simp only [this, if_false]
  unfold rawCounts nrToBound
  simp [maskLower, maskUpper]

/-- a variable with a lower threshold only (e.g. `pr`): nothing is ever rescaled, the counts are `(round(n · P), 0)` -/
theorem step6Counts_lower_only (adjust : Bool) (tl : Rat) (obs cmh cmf : List Rat)
    (ho : 0 < obs.length) (hh : 0 < cmh.length) (hf : 0 < cmf.length) :
    step6Counts adjust (some tl) none obs cmh cmf =
      (Py.roundHalfEven ((((cmf.length : Int)) : Rat) * pFuture adjust (maskLower tl obs) (maskLower tl cmh) (maskLower tl cmf)), 0) := by
  have v := (rawCounts_range adjust (some tl) none obs cmh cmf ho hh hf).1
  unfold step6Counts finalCounts
  have r2 : (rawCounts adjust (some tl) none obs cmh cmf).2 = 0 := rfl
  have r1 : (rawCounts adjust (some tl) none obs cmh cmf).1 =
      Py.roundHalfEven ((((cmf.length : Int)) : Rat) * pFuture adjust (maskLower tl obs) (maskLower tl cmh) (maskLower tl cmf)) := by
    unfold rawCounts nrToBound; simp [maskLower]
  generalize rawCounts adjust (some tl) none obs cmh cmf = raw at v r1 r2 ⊢
  obtain ⟨a, b⟩ := raw
  simp only at v r1 r2 ⊢
  subst r2
  have : ¬ (a + 0 > (cmf.length : Int)) := by omega
  rw [if_neg this, r1]

example : step6Counts true (some 1) none [0, 5, 10, 1/2] [0, 0, 8, 20] [0, 30, 100, 40, 50] = (1, 0) := by decide +kernel

/-- the code computes the masks on the sorted series; the counts do not depend on the order -/
theorem step6Counts_perm (adjust : Bool) (lthr uthr : Option Rat) (obs cmh cmf obs' cmh' cmf' : List Rat)
    (po : obs.Perm obs') (ph : cmh.Perm cmh') (pf : cmf.Perm cmf') :
    step6Counts adjust lthr uthr obs cmh cmf = step6Counts adjust lthr uthr obs' cmh' cmf' := by
  have fl : ∀ t (a b : List Rat), a.Perm b → freq (maskLower t a) = freq (maskLower t b) :=
    fun t a b p => freq_perm _ _ (p.map _)
  have fu : ∀ t (a b : List Rat), a.Perm b → freq (maskUpper t a) = freq (maskUpper t b) :=
    fun t a b p => freq_perm _ _ (p.map _)
  unfold step6Counts rawCounts nrToBound pFuture
  simp only [maskLower, maskUpper, List.length_map, pf.length_eq] at *
  cases lthr <;> cases uthr <;> simp only [fl _ _ _ po, fl _ _ _ ph, fl _ _ _ pf, fu _ _ _ po, fu _ _ _ ph, fu _ _ _ pf]

/-! ### The realised number of values at the bounds -/

/-- **Exactly `n_l` output values equal the lower bound and `n_u` the upper bound.**
    `xs` = sorted `cm_future`; the lowest `n_l` entries are set to `lo`, the highest `n_u` to `hi`
    (`Lemmas.IsimipFreq.assignBounds_eq`), the remaining ones take the mapped values `mid`; `out` is any
    re-ordering of the result (`step6` puts the values back in time order).
    Guards (all explicit): the counts are consistent (`step6Counts_valid` provides this), one mapped value per
    remaining entry, the bounds differ, and — the property's `Wet` guard — no mapped value falls on a bound. -/
theorem bound_counts {α} [DecidableEq α] (lo hi : α) (nl nu : Int) (xs mid out : List α)
    (hl : 0 ≤ nl) (hu : 0 ≤ nu) (hn : nl + nu ≤ (xs.length : Int))
    (hm : (mid.length : Int) = (xs.length : Int) - nl - nu) (hne : lo ≠ hi)
    (hmid : ∀ v ∈ mid, v ≠ lo ∧ v ≠ hi) (hout : out.Perm (assignBounds lo hi nl nu xs mid)) :
    (out.count lo : Int) = nl ∧ (out.count hi : Int) = nu := by
  obtain ⟨a, rfl⟩ := Int.eq_ofNat_of_zero_le hl
  obtain ⟨b, rfl⟩ := Int.eq_ofNat_of_zero_le hu
  have hn' : a + b ≤ xs.length := by exact_mod_cast hn
  have hm' : mid.length = xs.length - a - b := by omega
  -- split the sorted values into the three segments
  let A := xs.take a
  let B := (xs.drop a).take (xs.length - a - b)
  let C := (xs.drop a).drop (xs.length - a - b)
  have hA : A.length = a := by simp [A]; omega
  have hB : B.length = xs.length - a - b := by simp [B]
  have hC : C.length = b := by simp [C]; omega
  have hx : xs = A ++ (B ++ C) := by simp [A, B, C]
  have key := assignBounds_eq lo hi A B C mid (by rw [hB]; exact hm')
  rw [hA, hC, ← hx] at key
  rw [key] at hout
  have cl : mid.count lo = 0 := List.count_eq_zero.mpr (fun hmem => (hmid lo hmem).1 rfl)
  have ch : mid.count hi = 0 := List.count_eq_zero.mpr (fun hmem => (hmid hi hmem).2 rfl)
  rw [hout.count_eq, hout.count_eq]
  simp only [List.count_append, List.count_replicate, cl, ch]
  simp [hne, hne.symm]

/-- the same with the guard in the form the property states it: mapped values **strictly inside** the bounds -/
theorem bound_counts_strictly_inside (lo hi : Rat) (nl nu : Int) (xs mid out : List Rat)
    (hl : 0 ≤ nl) (hu : 0 ≤ nu) (hn : nl + nu ≤ (xs.length : Int))
    (hm : (mid.length : Int) = (xs.length : Int) - nl - nu) (hlohi : lo < hi)
    (hmid : ∀ v ∈ mid, lo < v ∧ v < hi) (hout : out.Perm (assignBounds lo hi nl nu xs mid)) :
    (out.count lo : Int) = nl ∧ (out.count hi : Int) = nu :=
  bound_counts lo hi nl nu xs mid out hl hu hn hm (ne_of_lt hlohi)
    (fun v hv => ⟨ne_of_gt (hmid v hv).1, ne_of_lt (hmid v hv).2⟩) hout

-- non-trivial instance: n = 6, two dry and one saturated value, three mapped values strictly inside
example : assignBounds (0 : Rat) 100 2 1 [1, 2, 3, 4, 5, 6] [10, 20, 30] = [0, 0, 10, 20, 30, 100] := by decide +kernel

/-- **C11, assembled**: for a thresholded variable, with the counts `(n_l, n_u) = step6Counts …` (that is
    `round(n · P)` per bound, rescaled to sum to `n` if they overlap), every re-ordering of `step6`'s
    assignment has exactly `n_l` values at the lower and `n_u` at the upper bound. -/
theorem step6_count (adjust : Bool) (lthr uthr : Option Rat) (lo hi : Rat) (obs cmh cmf xs mid out : List Rat)
    (ho : 0 < obs.length) (hh : 0 < cmh.length) (hf : 0 < cmf.length) (hxs : xs.Perm cmf)
    (hm : (mid.length : Int) = (cmf.length : Int) - (step6Counts adjust lthr uthr obs cmh cmf).1
            - (step6Counts adjust lthr uthr obs cmh cmf).2)
    (hlohi : lo < hi) (hmid : ∀ v ∈ mid, lo < v ∧ v < hi)
    (hout : out.Perm (assignBounds lo hi (step6Counts adjust lthr uthr obs cmh cmf).1
              (step6Counts adjust lthr uthr obs cmh cmf).2 xs mid)) :
    (out.count lo : Int) = (step6Counts adjust lthr uthr obs cmh cmf).1 ∧
    (out.count hi : Int) = (step6Counts adjust lthr uthr obs cmh cmf).2 := by
  obtain ⟨c1, c2, c3⟩ := step6Counts_valid adjust lthr uthr obs cmh cmf ho hh hf
  rw [← hxs.length_eq] at c3 hm
  exact bound_counts_strictly_inside lo hi _ _ xs mid out c1 c2 c3 hm hlohi hmid hout

/-! ### What counts as a beyond-threshold event; the thresholds as instance state; missing values -/

/-- **The three threshold masks partition the series** (`lower_threshold < upper_threshold`): a value is beyond the
    lower threshold (`x ≤ t_l`, the threshold value itself included), strictly between, or beyond the upper threshold
    (`x ≥ t_u`, included) — exactly one of the three. -/
theorem masks_partition (tl tu : Rat) (h : tl < tu) (xs : List Rat) :
    countTrue (maskLower tl xs) + countTrue (maskMiddle tl tu xs) + countTrue (maskUpper tu xs) = (xs.length : Int) := by
  unfold countTrue maskLower maskMiddle maskUpper
  induction xs with
  | nil => simp
  | cons a t ih =>
    simp only [List.map_cons, List.length_cons, List.count_cons] at ih ⊢
    by_cases h1 : a ≤ tl
    · have h2 : ¬ a > tl := by linarith
      have h3 : ¬ a ≥ tu := by intro h3; linarith
      simp only [h1, h2, h3, decide_true, decide_false, Bool.false_and, beq_self_eq_true, if_true] at ih ⊢
      push_cast at ih ⊢
      simp at ih ⊢
      omega
    · by_cases h3 : a ≥ tu
      · have h2 : a > tl := by linarith
        have h4 : ¬ a < tu := by linarith
        simp only [h1, h2, h3, h4, decide_true, decide_false, Bool.and_false, beq_self_eq_true, if_true] at ih ⊢
        push_cast at ih ⊢
        simp at ih ⊢
        omega
      · have h2 : a > tl := by push Not at h1; exact h1
        have h4 : a < tu := by push Not at h3; exact h3
        simp only [h1, h2, h3, h4, decide_true, decide_false, Bool.and_true, beq_self_eq_true, if_true] at ih ⊢
        push_cast at ih ⊢
        simp at ih ⊢
        omega

example : maskLower 1 [0, 1, 2, 99, 100] = [true, true, false, false, false] ∧
    maskMiddle 1 99 [0, 1, 2, 99, 100] = [false, false, true, false, false] ∧
    maskUpper 99 [0, 1, 2, 99, 100] = [false, false, false, true, true] := by decide +kernel

/-- a value lying exactly on a threshold is a beyond-threshold event -/
theorem on_threshold_is_beyond (t : Rat) : maskLower t [t] = [true] ∧ maskUpper t [t] = [true] := by
  unfold maskLower maskUpper; simp

/-- a series without beyond-threshold values has frequency `0` on both sides — in particular a series whose missing
    values were imputed from reported values that are all strictly between the thresholds (the imputed values lie
    between the smallest and the largest reported one) -/
theorem freq_zero_of_all_between (tl tu : Rat) (xs : List Rat) (h : ∀ x ∈ xs, tl < x ∧ x < tu) :
    freq (maskLower tl xs) = 0 ∧ freq (maskUpper tu xs) = 0 := by
  have a : countTrue (maskLower tl xs) = 0 := by
    unfold countTrue maskLower
    have : (xs.map (fun x => decide (x ≤ tl))).count true = 0 := by
      rw [List.count_eq_zero]
      simp only [List.mem_map, decide_eq_true_eq, not_exists, not_and]
      intro x hx hle
      have := (h x hx).1
      linarith
    rw [this]; rfl
  have b : countTrue (maskUpper tu xs) = 0 := by
    unfold countTrue maskUpper
    have : (xs.map (fun x => decide (x ≥ tu))).count true = 0 := by
      rw [List.count_eq_zero]
      simp only [List.mem_map, decide_eq_true_eq, not_exists, not_and]
      intro x hx hge
      have := (h x hx).2
      linarith
    rw [this]; rfl
  unfold freq
  rw [a, b]
  simp

example : ∀ x ∈ ([5, 10, 27] : List Rat), (1 : Rat) < x ∧ x < 99 := by decide +kernel

/-- **Uses do not change the state**: the run of a sequence of assignments and uses is the run of its assignments -/
theorem run_ignores_uses (s : ThrState) (es : List ThrEvent) : s.run es = s.run (es.filter (fun e => decide (e ≠ ThrEvent.use))) := by
  unfold ThrState.run
  induction es generalizing s with
  | nil => rfl
  | cons e t ih =>
    cases e with
    | use => simp [ThrState.step, ih]
    | setLower a => simp [ih]
    | setUpper a => simp [ih]

/-- **Only the current attribute values matter**: whatever was constructed, assigned and used before (`es`), once both
    thresholds have been assigned the state is the one of a freshly constructed instance with these thresholds … -/
theorem run_after_assign (s : ThrState) (es : List ThrEvent) (a b : Option Rat) (k : Nat) :
    s.run (es ++ [ThrEvent.setLower a, ThrEvent.setUpper b] ++ List.replicate k ThrEvent.use) = ⟨a, b⟩ := by
  rw [run_ignores_uses]
  simp only [List.filter_append, List.filter_replicate]
  unfold ThrState.run
  simp [ThrState.step]

/-- … and so are the counts of every later use (the specification that a cached `has_lower_threshold` flag violates) -/
theorem counts_after_reconfiguration (adjust : Bool) (s : ThrState) (es : List ThrEvent) (a b : Option Rat) (k : Nat)
    (obs cmh cmf : List Rat) :
    thrCountsOf adjust (s.run (es ++ [ThrEvent.setLower a, ThrEvent.setUpper b] ++ List.replicate k ThrEvent.use)) obs cmh cmf
      = step6Counts adjust a b obs cmh cmf := by
  rw [run_after_assign]; rfl

example : (ThrState.mk none none).run [ThrEvent.use, ThrEvent.setLower (some 1), ThrEvent.use, ThrEvent.setUpper (some 99), ThrEvent.use]
    = ⟨some 1, some 99⟩ := by decide +kernel

/-! ### Through the whole window: `_apply_on_window` = steps 3–7 (`Model.Isimip`), counts from the ORIGINAL inputs -/

section Window
open Model.Isimip Model.Stats Lemmas.C11Pipeline

/-- the property's counts for a window: `round(n · P)` per bound (rescaled if they overlap), with the frequencies of
    the window's **original** `obs`, `cm_hist`, `cm_future` and "beyond" meaning `x ≤ lower_threshold` /
    `x ≥ upper_threshold` -/
def windowCounts (c : Cfg) (obs H F : List Rat) : Int × Int :=
  step6Counts c.biasCorrectFrequencies (thrOpt c.lowerThreshold) (thrOpt c.upperThreshold) obs H F

/-- steps 4, 5 and 6 of a window, with step 6's intermediate results (`applyOnWindow` without detrending returns
    `.result` of this: `applyOnWindow_eq_windowStep6`) -/
def windowStep6 (c : Cfg) (fam : IsiFamily) (o : Oracles) (d : Draws) (obs H F : List Rat) : Except String Step6Out :=
  (step4 c d obs H F).bind (fun r4 => (step5 c o r4.1 r4.2.1 r4.2.2).bind
    (fun oF => step6Full c fam o r4.1 oF r4.2.1 r4.2.2))

theorem applyOnWindow_eq_windowStep6 (c : Cfg) (fam : IsiFamily) (o : Oracles) (d : Draws) (obs H F : List Rat)
    (yO yH yF : List Int) (hd : c.detrending = false) :
    applyOnWindow c fam o d obs H F yO yH yF = (windowStep6 c fam o d obs H F).map (·.result) := by
  rw [Lemmas.IsimipModel.applyOnWindow_eq, Lemmas.IsimipModel.step3_of_not_detrending c o hd]
  unfold windowStep6
  dsimp only
  cases step4 c d obs H F with
  | error e => rfl
  | ok r4 =>
    simp only [Except.bind]
    cases step5 c o r4.1 r4.2.1 r4.2.2 with
    | error e => rfl
    | ok oF =>
      simp only [Lemmas.IsimipModel.step6_eq]
      cases step6Full c fam o r4.1 oF r4.2.1 r4.2.2 with
      | error e => rfl
      | ok r => simp [Except.map, Lemmas.IsimipModel.step7_of_not_detrending c hd]

/-- the counts `step6` computes (sorted arrays, extended-real thresholds) are the property's counts -/
theorem pipeCounts_eq_windowCounts (c : Cfg) (hs : ThrSide c) (obs H F : List Rat) :
    pipeCounts c obs H F = windowCounts c obs H F := by
  unfold windowCounts
  rw [step6Counts_perm _ _ _ obs H F (sortQ obs) (sortQ H) (sortQ F) (Lemmas.Stats.sortQ_perm obs).symm
    (Lemmas.Stats.sortQ_perm H).symm (Lemmas.Stats.sortQ_perm F).symm]
  unfold pipeCounts step6Counts rawCounts
  rw [Lemmas.IsimipModel.takeIdx_argsort]
  obtain ⟨h1, h2⟩ := hs
  cases hl : c.lowerThreshold with
  | posInf => exact absurd hl h1
  | negInf =>
    cases hu : c.upperThreshold with
    | negInf => exact absurd hu h2
    | posInf => simp [Cfg.hasLowerThreshold, Cfg.hasUpperThreshold, hl, hu, ExtRat.gtNegInf, ExtRat.ltPosInf, thrOpt]
    | fin u =>
      simp [Cfg.hasLowerThreshold, Cfg.hasUpperThreshold, hl, hu, ExtRat.gtNegInf, ExtRat.ltPosInf, thrOpt,
        maskBeyondUpper_fin c u hu]
  | fin t =>
    cases hu : c.upperThreshold with
    | negInf => exact absurd hu h2
    | posInf =>
      simp [Cfg.hasLowerThreshold, Cfg.hasUpperThreshold, hl, hu, ExtRat.gtNegInf, ExtRat.ltPosInf, thrOpt,
        maskBeyondLower_fin c t hl]
    | fin u =>
      simp [Cfg.hasLowerThreshold, Cfg.hasUpperThreshold, hl, hu, ExtRat.gtNegInf, ExtRat.ltPosInf, thrOpt,
        maskBeyondLower_fin c t hl, maskBeyondUpper_fin c u hu]

/-- `step6` alone: its two counts are the property's counts of its own inputs -/
theorem step6_counts (c : Cfg) (fam : IsiFamily) (o : Oracles) (obs obsFut H F : List Rat) (r : Step6Out)
    (hs : ThrSide c) (h : step6Full c fam o obs obsFut H F = .ok r) : (r.nL, r.nU) = windowCounts c obs H F := by
  rw [step6Full_counts c fam o obs obsFut H F r h, pipeCounts_eq_windowCounts c hs]

/-- the property's counts depend on the series only through their beyond-threshold masks and lengths -/
theorem windowCounts_congr (c : Cfg) (obs H F obs' H' F' : List Rat)
    (ho : maskBeyondLower c obs' = maskBeyondLower c obs ∧ maskBeyondUpper c obs' = maskBeyondUpper c obs ∧ obs'.length = obs.length)
    (hh : maskBeyondLower c H' = maskBeyondLower c H ∧ maskBeyondUpper c H' = maskBeyondUpper c H ∧ H'.length = H.length)
    (hf : maskBeyondLower c F' = maskBeyondLower c F ∧ maskBeyondUpper c F' = maskBeyondUpper c F ∧ F'.length = F.length) :
    windowCounts c obs' H' F' = windowCounts c obs H F := by
  unfold windowCounts step6Counts rawCounts
  rw [hf.2.2]
  cases hl : c.lowerThreshold <;> cases hu : c.upperThreshold <;> simp only [thrOpt] <;>
    first
      | rfl
      | (rw [← maskBeyondUpper_fin c _ hu, ← maskBeyondUpper_fin c _ hu, ← maskBeyondUpper_fin c _ hu,
             ← maskBeyondUpper_fin c _ hu, ← maskBeyondUpper_fin c _ hu, ← maskBeyondUpper_fin c _ hu,
             ← maskBeyondLower_fin c _ hl, ← maskBeyondLower_fin c _ hl, ← maskBeyondLower_fin c _ hl,
             ← maskBeyondLower_fin c _ hl, ← maskBeyondLower_fin c _ hl, ← maskBeyondLower_fin c _ hl,
             ho.1, ho.2.1, hh.1, hh.2.1, hf.1, hf.2.1])
      | (rw [← maskBeyondUpper_fin c _ hu, ← maskBeyondUpper_fin c _ hu, ← maskBeyondUpper_fin c _ hu,
             ← maskBeyondUpper_fin c _ hu, ← maskBeyondUpper_fin c _ hu, ← maskBeyondUpper_fin c _ hu,
             ho.2.1, hh.2.1, hf.2.1])
      | (rw [← maskBeyondLower_fin c _ hl, ← maskBeyondLower_fin c _ hl, ← maskBeyondLower_fin c _ hl,
             ← maskBeyondLower_fin c _ hl, ← maskBeyondLower_fin c _ hl, ← maskBeyondLower_fin c _ hl,
             ho.1, hh.1, hf.1])

/-- **The counts used inside the window are the property's counts of the window's ORIGINAL inputs**: steps 3–5
    (no detrending; step 4 under its guard `Step4Ok`; step 5 only produces the pseudo-future observations) do not
    change any beyond-threshold frequency. -/
theorem window_counts_original (c : Cfg) (fam : IsiFamily) (o : Oracles) (d : Draws) (obs H F : List Rat) (r : Step6Out)
    (hs : ThrSide c) (h4 : Step4Ok c d) (h : windowStep6 c fam o d obs H F = .ok r) :
    (r.nL, r.nU) = windowCounts c obs H F := by
  unfold windowStep6 at h
  cases h4' : step4 c d obs H F with
  | error e => rw [h4'] at h; exact absurd h (by simp [Except.bind])
  | ok r4 =>
    rw [h4'] at h
    simp only [Except.bind] at h
    cases h5 : step5 c o r4.1 r4.2.1 r4.2.2 with
    | error e => rw [h5] at h; exact absurd h (by simp)
    | ok oF =>
      rw [h5] at h
      dsimp only at h
      obtain ⟨mo, mh, mf⟩ := step4_masks c d obs H F r4 h4 h4'
      rw [step6_counts c fam o _ _ _ _ r hs h]
      exact windowCounts_congr c obs H F r4.1 r4.2.1 r4.2.2 mo mh mf

/-- **C11 for `_apply_on_window`**: the window's output has exactly `n_l` values at the lower bound and `n_u` at the
    upper bound, where `(n_l, n_u) = windowCounts` of the window's ORIGINAL `obs`, `cm_hist`, `cm_future`.
    Guards, all explicit: thresholds on their proper side (`ThrSide`), step 4's draws inside their intervals and
    `lower_threshold < upper_threshold` (`Step4Ok`), non-empty series, a bound that is actually written is finite
    with value `lo` / `hi`, `lo ≠ hi`, and — the property's `Wet` guard — the values of the entries sent to neither
    bound are different from both bounds. -/
theorem window_bound_counts (c : Cfg) (fam : IsiFamily) (o : Oracles) (d : Draws) (obs H F : List Rat) (r : Step6Out)
    (lo hi : Rat) (hs : ThrSide c) (h4 : Step4Ok c d) (h : windowStep6 c fam o d obs H F = .ok r)
    (ho : 0 < obs.length) (hh : 0 < H.length) (hf : 0 < F.length)
    (hlo : (lowerMask r.nL F.length).any id = true → c.lowerBound = .fin lo)
    (hhi : (upperMask r.nU F.length).any id = true → c.upperBound = .fin hi) (hne : lo ≠ hi)
    (hmid : ∀ v ∈ Py.selectWhere r.mappedSorted (notMask (lowerMask r.nL F.length) (upperMask r.nU F.length)),
        v ≠ lo ∧ v ≠ hi) :
    (r.result.count lo : Int) = (windowCounts c obs H F).1 ∧ (r.result.count hi : Int) = (windowCounts c obs H F).2 := by
  have hcnt := window_counts_original c fam o d obs H F r hs h4 h
  have e1 : (windowCounts c obs H F).1 = r.nL := (congrArg Prod.fst hcnt).symm
  have e2 : (windowCounts c obs H F).2 = r.nU := (congrArg Prod.snd hcnt).symm
  obtain ⟨v1, v2, v3⟩ := step6Counts_valid c.biasCorrectFrequencies (thrOpt c.lowerThreshold) (thrOpt c.upperThreshold)
    obs H F ho hh hf
  change 0 ≤ (windowCounts c obs H F).1 at v1
  change 0 ≤ (windowCounts c obs H F).2 at v2
  change (windowCounts c obs H F).1 + (windowCounts c obs H F).2 ≤ _ at v3
  rw [e1] at v1 v3 ⊢
  rw [e2] at v2 v3 ⊢
  -- the step-6 call inside the window
  unfold windowStep6 at h
  cases h4' : step4 c d obs H F with
  | error e => rw [h4'] at h; exact absurd h (by simp [Except.bind])
  | ok r4 =>
    rw [h4'] at h
    simp only [Except.bind] at h
    cases h5 : step5 c o r4.1 r4.2.1 r4.2.2 with
    | error e => rw [h5] at h; exact absurd h (by simp)
    | ok oF =>
      rw [h5] at h
      dsimp only at h
      have lenF := (step4_masks c d obs H F r4 h4 h4').2.2.2.2
      rw [← lenF] at hlo hhi hmid v3
      obtain ⟨mid, hshape, hlen, hres⟩ := step6Full_shape c fam o r4.1 oF r4.2.1 r4.2.2 r lo hi h hlo hhi
      have hsl : (sortQ r4.2.2).length = r4.2.2.length := Lemmas.Stats.sortQ_length _
      -- the number of middle entries
      obtain ⟨a, ha⟩ := Int.eq_ofNat_of_zero_le v1
      obtain ⟨b, hb⟩ := Int.eq_ofNat_of_zero_le v2
      have hab : a + b ≤ r4.2.2.length := by rw [ha, hb] at v3; exact_mod_cast v3
      obtain ⟨k, hk⟩ : ∃ k, r4.2.2.length = a + (k + b) := ⟨r4.2.2.length - a - b, by omega⟩
      have hcount : mid.length = k := by rw [hlen, ha, hb, hk]; exact notMask_count a b k
      have hmidv : ∀ v ∈ mid, v ≠ lo ∧ v ≠ hi := by
        intro v hv
        apply hmid v
        rw [hshape]
        unfold assignBounds
        rw [hsl, selectWhere_fillWhere _ _ _ _ hlen]
        · exact hv
        · rw [notMask_length _ _ (by rw [lowerMask_length, upperMask_length]), lowerMask_length,
            setWhere_length _ _ _ (by rw [setWhere_length _ _ _ (by rw [lowerMask_length, hsl]), upperMask_length, hsl]),
            setWhere_length _ _ _ (by rw [lowerMask_length, hsl]), hsl]
      have hperm : r.result.Perm (assignBounds lo hi r.nL r.nU (sortQ r4.2.2) mid) := by
        rw [hres, ← hshape]
        apply takeIdx_rankOf_perm
        rw [hshape]
        unfold assignBounds
        rw [Lemmas.C11Pipeline.fillWhere_length,
          setWhere_length _ _ _ (by rw [setWhere_length _ _ _ (by rw [lowerMask_length]), upperMask_length]),
          setWhere_length _ _ _ (by rw [lowerMask_length]), hsl]
      exact bound_counts lo hi r.nL r.nU (sortQ r4.2.2) mid r.result v1 v2 (by rw [hsl]; exact v3)
        (by rw [hsl, hcount, ha, hb, hk]; push_cast; ring) hne hmidv hperm

/-- the same for a variable with a lower threshold only (e.g. `pr`: upper bound and threshold infinite):
    exactly `n_l` outputs at the lower bound, guard: the mapped values are above the bound -/
theorem window_lower_count (c : Cfg) (fam : IsiFamily) (o : Oracles) (d : Draws) (obs H F : List Rat) (r : Step6Out)
    (lo : Rat) (hs : ThrSide c) (h4 : Step4Ok c d) (h : windowStep6 c fam o d obs H F = .ok r)
    (ho : 0 < obs.length) (hh : 0 < H.length) (hf : 0 < F.length)
    (hlo : c.lowerBound = .fin lo) (hup : c.upperThreshold = .posInf)
    (hmid : ∀ v ∈ Py.selectWhere r.mappedSorted (notMask (lowerMask r.nL F.length) (upperMask r.nU F.length)), lo < v) :
    (r.result.count lo : Int) = (windowCounts c obs H F).1 := by
  have hcnt := window_counts_original c fam o d obs H F r hs h4 h
  have hU : r.nU = 0 := by
    have e : r.nU = (windowCounts c obs H F).2 := congrArg Prod.snd hcnt
    rw [e]
    unfold windowCounts step6Counts
    rw [hup]
    have v := (rawCounts_range c.biasCorrectFrequencies (thrOpt c.lowerThreshold) (thrOpt .posInf) obs H F ho hh hf).1
    have r2 : (rawCounts c.biasCorrectFrequencies (thrOpt c.lowerThreshold) (thrOpt .posInf) obs H F).2 = 0 := rfl
    generalize rawCounts c.biasCorrectFrequencies (thrOpt c.lowerThreshold) (thrOpt .posInf) obs H F = raw at v r2 ⊢
    dsimp only
    rw [r2]
    unfold finalCounts
    split_ifs with hc
    · exfalso; omega
    · rfl
  refine (window_bound_counts c fam o d obs H F r lo (lo - 1) hs h4 h ho hh hf (fun _ => hlo) ?_ (by linarith) ?_).1
  · intro hany
    rw [hU, Lemmas.IsimipModel.upperMask_zero] at hany
    simp at hany
  · intro v hv
    have := hmid v hv
    constructor <;> linarith

/-- the guard of step 4 in the form numpy's draw intervals give it: finite thresholds `tl < tu`, lower draws `≤ tl`
    (they come from `[lower_bound, lower_threshold)`), upper draws `≥ tu` (from `[upper_threshold, upper_bound)`) -/
theorem step4Ok_of_fin (c : Cfg) (d : Draws) (tl tu : Rat) (hl : c.lowerThreshold = .fin tl) (hu : c.upperThreshold = .fin tu)
    (hlt : tl < tu) (hlow : ∀ r ∈ d.lowO ++ d.lowH ++ d.lowF, r ≤ tl) (hup : ∀ r ∈ d.upO ++ d.upH ++ d.upF, r ≥ tu) :
    Step4Ok c d where
  sep := by
    intro v hv
    rw [hl] at hv; rw [hu]
    simp only [ExtRat.leOf, ExtRat.geOf, decide_eq_true_eq, decide_eq_false_iff_not, not_le] at hv ⊢
    linarith
  low := by intro r hr; rw [hl]; simpa [ExtRat.leOf] using hlow r hr
  up := by intro r hr; rw [hu]; simpa [ExtRat.geOf] using hup r hr

/-- … and for a variable with a lower threshold only -/
theorem step4Ok_of_lower_only (c : Cfg) (d : Draws) (tl : Rat) (hl : c.lowerThreshold = .fin tl) (hu : c.upperThreshold = .posInf)
    (hlow : ∀ r ∈ d.lowO ++ d.lowH ++ d.lowF, r ≤ tl) (hup : d.upO ++ d.upH ++ d.upF = []) : Step4Ok c d where
  sep := by intro v _; rw [hu]; rfl
  low := by intro r hr; rw [hl]; simpa [ExtRat.leOf] using hlow r hr
  up := by intro r hr; rw [hup] at hr; simp at hr

/-! a concrete window (relative humidity in percent, thresholds 1 / 99, bounds 0 / 100): every hypothesis of
    `window_bound_counts` holds and the conclusion is non-trivial (one value at each bound out of five) -/
namespace Example
def cfg : Cfg :=
  { trendMethod := TrendMethod.bounded
    nonparametricQm := true
    detrending := false
    lowerBound := ExtRat.fin 0
    lowerThreshold := ExtRat.fin 1
    upperBound := ExtRat.fin 100
    upperThreshold := ExtRat.fin 99 }
def draws : Draws := { lowO := [1/4, 3/4], lowH := [1/8, 1/2], lowF := [1/3], upF := [199/2] }
def obs : List Rat := [0, 5, 10, 1/2]
def cmHist : List Rat := [0, 0, 8, 20]
def cmFuture : List Rat := [0, 30, 100, 40, 50]

example : ThrSide cfg := by decide
example : Step4Ok cfg draws :=
  step4Ok_of_fin cfg draws 1 99 rfl rfl (by norm_num) (by decide +kernel) (by decide +kernel)
-- the kernel cannot evaluate `List.mergeSort` on two or more elements (well-founded recursion), so the run of this
-- five-value window is checked by the model driver at run time (`DrvIsimip`, op `window`, called from harness/c11.py);
-- in the kernel: its counts (next line) and a complete one-value window with all hypotheses of `window_bound_counts`
example : windowCounts cfg obs cmHist cmFuture = (1, 1) := by decide +kernel
def draws1 : Draws := { lowO := [1/2], lowF := [1/4] }
example : Step4Ok cfg draws1 := step4Ok_of_fin cfg draws1 1 99 rfl rfl (by norm_num) (by decide +kernel) (by decide +kernel)
example : (windowStep6 cfg ratSigmoid {} draws1 [0] [5] [0]).toOption.map
    (fun r => (r.nL, r.nU, r.mappedSorted, r.result)) = some (1, 0, [0], [0]) := by decide +kernel
example : windowCounts cfg [0] [5] [0] = (1, 0) := by decide +kernel
end Example

/-! ### Month mode: the same statement for every calendar month of the assembled result -/

/-- the window result `_apply_on_window` returns has one value per value of the window's `cm_future` -/
theorem windowStep6_result_length (c : Cfg) (fam : IsiFamily) (o : Oracles) (d : Draws) (obs H F : List Rat) (r : Step6Out)
    (h4 : Step4Ok c d) (h : windowStep6 c fam o d obs H F = .ok r) : r.result.length = F.length := by
  unfold windowStep6 at h
  cases h4' : step4 c d obs H F with
  | error e => rw [h4'] at h; exact absurd h (by simp [Except.bind])
  | ok r4 =>
    rw [h4'] at h
    simp only [Except.bind] at h
    cases h5 : step5 c o r4.1 r4.2.1 r4.2.2 with
    | error e => rw [h5] at h; exact absurd h (by simp)
    | ok oF =>
      rw [h5] at h
      dsimp only at h
      rw [Lemmas.IsimipModel.step6Full_result_length c fam o _ _ _ _ r h]
      exact (step4_masks c d obs H F r4 h4 h4').2.2.2.2

/-- **C11 in month mode** (`apply_location` with `running_window_mode = False`, here the loop over the twelve months
    with the real window function `winFn`): for every calendar month `m`, the values the assembled result holds at the
    positions of month `m` contain exactly `n_l` lower-bound and `n_u` upper-bound values, with
    `(n_l, n_u) = windowCounts` of the **month-`m` samples of the original series** — the months are taken from the
    month labels that were passed in (`mO`, `mH`, `mF`), other months have no influence.
    Guards: as `window_bound_counts`, for the window of month `m`. -/
theorem month_mode_bound_counts (c : Cfg) (fam : IsiFamily) (orc : List Nat → Oracles) (drw : List Nat → Draws)
    (yO yH yF mO mH mF : List Int) (obs H F : List Rat) (out : List (Option Rat)) (m : Int) (r : Step6Out) (lo hi : Rat)
    (hrun : Model.Skeleton.applyLocationMonths (winFn c fam orc drw yO yH yF) mO mH mF obs H F = .ok out)
    (hlen : mF.length = F.length) (hm : m ∈ Py.arange1 1 13) (hd : c.detrending = false)
    (hs : ThrSide c)
    (h4 : Step4Ok c (drw (Py.whereTrue (mF.map (fun x => decide (x = m))))))
    (hr : windowStep6 c fam (orc (Py.whereTrue (mF.map (fun x => decide (x = m)))))
            (drw (Py.whereTrue (mF.map (fun x => decide (x = m)))))
            (Model.Skeleton.take obs (Py.whereTrue (mO.map (fun x => decide (x = m)))))
            (Model.Skeleton.take H (Py.whereTrue (mH.map (fun x => decide (x = m)))))
            (Model.Skeleton.take F (Py.whereTrue (mF.map (fun x => decide (x = m))))) = .ok r)
    (ho : 0 < (Model.Skeleton.take obs (Py.whereTrue (mO.map (fun x => decide (x = m))))).length)
    (hh : 0 < (Model.Skeleton.take H (Py.whereTrue (mH.map (fun x => decide (x = m))))).length)
    (hf : 0 < (Model.Skeleton.take F (Py.whereTrue (mF.map (fun x => decide (x = m))))).length)
    (hlo : (lowerMask r.nL (Model.Skeleton.take F (Py.whereTrue (mF.map (fun x => decide (x = m))))).length).any id = true →
              c.lowerBound = .fin lo)
    (hhi : (upperMask r.nU (Model.Skeleton.take F (Py.whereTrue (mF.map (fun x => decide (x = m))))).length).any id = true →
              c.upperBound = .fin hi)
    (hne : lo ≠ hi)
    (hmid : ∀ v ∈ Py.selectWhere r.mappedSorted
        (notMask (lowerMask r.nL (Model.Skeleton.take F (Py.whereTrue (mF.map (fun x => decide (x = m))))).length)
                 (upperMask r.nU (Model.Skeleton.take F (Py.whereTrue (mF.map (fun x => decide (x = m))))).length)),
        v ≠ lo ∧ v ≠ hi) :
    (((Model.Skeleton.take out (Py.whereTrue (mF.map (fun x => decide (x = m))))).count (some lo) : Nat) : Int)
        = (windowCounts c (Model.Skeleton.take obs (Py.whereTrue (mO.map (fun x => decide (x = m)))))
            (Model.Skeleton.take H (Py.whereTrue (mH.map (fun x => decide (x = m)))))
            (Model.Skeleton.take F (Py.whereTrue (mF.map (fun x => decide (x = m)))))).1 ∧
    (((Model.Skeleton.take out (Py.whereTrue (mF.map (fun x => decide (x = m))))).count (some hi) : Nat) : Int)
        = (windowCounts c (Model.Skeleton.take obs (Py.whereTrue (mO.map (fun x => decide (x = m)))))
            (Model.Skeleton.take H (Py.whereTrue (mH.map (fun x => decide (x = m)))))
            (Model.Skeleton.take F (Py.whereTrue (mF.map (fun x => decide (x = m)))))).2 := by
  obtain ⟨res, hres, htake⟩ := months_block_take _ mO mH mF obs H F out hrun hlen m hm
  generalize hiO : Py.whereTrue (mO.map (fun x => decide (x = m))) = iO at *
  generalize hiH : Py.whereTrue (mH.map (fun x => decide (x = m))) = iH at *
  generalize hiF : Py.whereTrue (mF.map (fun x => decide (x = m))) = iF at *
  -- the window function of month `m` is `windowStep6 … |>.result`
  unfold winFn at hres
  rw [applyOnWindow_eq_windowStep6 _ _ _ _ _ _ _ _ _ _ hd, hr] at hres
  simp only [Except.map] at hres
  injection hres with hres
  subst hres
  have hvalid : ∀ j ∈ iF, j < F.length := by
    intro j hj
    rw [← hiF, Lemmas.Windows.mem_whereTrue, List.length_map] at hj
    rw [← hlen]; exact hj.1
  have hl : r.result.length = iF.length := by
    rw [windowStep6_result_length c fam _ _ _ _ _ r h4 hr, take_length_valid F iF hvalid]
  rw [htake hl, List.count_map_of_injective _ _ (Option.some_injective _), List.count_map_of_injective _ _ (Option.some_injective _)]
  exact window_bound_counts c fam _ _ _ _ _ r lo hi hs h4 hr ho hh hf hlo hhi hne hmid

end Window

end Props.C11
