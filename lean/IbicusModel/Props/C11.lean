/-
  C11 — ISIMIP adjusts the frequency of beyond-threshold events as specified.
  Property theorems only (helper lemmas live in `Lemmas/IsimipFreq`).  Stated on `Model.IsimipFreq`;
  `Lemmas.GenIsimipFreq` proves the model equal to the kernels regenerated from the source.
  Exact rational arithmetic (float rounding is carried by the correspondence check, not by a theorem).
-/
import IbicusModel.Lemmas.IsimipFreq
import IbicusModel.Lemmas.GenIsimipFreq

namespace Props.C11
open Model.IsimipFreq Lemmas.IsimipFreq

/-! ### The bias-adjusted future frequency `P = P_obs_future(Po, Ph, Pf)` -/

/-- **`P` is a frequency**: for all `Po, Ph, Pf ∈ [0,1]`, `0 ≤ P ≤ 1` (four-branch case analysis;
    `np.isclose` is the decidable relation the code uses — the only fact needed about it is reflexivity). -/
theorem pObsFuture_range (Po Ph Pf : Rat) (hPo : 0 ≤ Po ∧ Po ≤ 1) (hPh : 0 ≤ Ph ∧ Ph ≤ 1)
    (hPf : 0 ≤ Pf ∧ Pf ≤ 1) : 0 ≤ pObsFuture Po Ph Pf ∧ pObsFuture Po Ph Pf ≤ 1 := by
  obtain ⟨o0, o1⟩ := hPo
  obtain ⟨h0, h1⟩ := hPh
  obtain ⟨f0, f1⟩ := hPf
  unfold pObsFuture
  split_ifs with c1 c2 c3
  · exact ⟨f0, f1⟩
  · obtain ⟨c2a, c2b⟩ := c2
    have hpos : 0 < Ph := by linarith
    constructor
    · exact div_nonneg (mul_nonneg o0 f0) (le_of_lt hpos)
    · rw [div_le_one hpos]
      calc Po * Pf ≤ 1 * Pf := mul_le_mul_of_nonneg_right o1 f0
        _ = Pf := one_mul _
        _ ≤ Ph := c2a
  · obtain ⟨c3a, c3b⟩ := c3
    have hpos : 0 < 1 - Ph := by linarith
    have t0 : 0 ≤ (1 - Po) * (1 - Pf) / (1 - Ph) :=
      div_nonneg (mul_nonneg (by linarith) (by linarith)) (le_of_lt hpos)
    have t1 : (1 - Po) * (1 - Pf) / (1 - Ph) ≤ 1 := by
      rw [div_le_one hpos]
      calc (1 - Po) * (1 - Pf) ≤ 1 * (1 - Pf) := mul_le_mul_of_nonneg_right (by linarith) (by linarith)
        _ = 1 - Pf := one_mul _
        _ ≤ 1 - Ph := by linarith
    constructor <;> linarith
  · have hne : Ph ≠ Po := by
      intro e; rw [e] at c1; exact c1 (isclose_self Po)
    rcases lt_or_gt_of_ne hne with hlt | hgt
    · have : ¬ Pf ≥ Ph := fun h => c3 ⟨h, hlt⟩
      push Not at this
      constructor <;> linarith
    · have : ¬ Pf ≤ Ph := fun h => c2 ⟨h, hgt⟩
      push Not at this
      constructor <;> linarith

example : pObsFuture (1/2) (3/4) (1/4) = 1/6 := by decide +kernel          -- branch 2
example : pObsFuture (1/2) (1/4) (3/4) = 5/6 := by decide +kernel          -- branch 3
example : pObsFuture (1/2) (1/4) (1/8) = 3/8 := by decide +kernel          -- branch 4
example : pObsFuture (1/2) (1/2) (1/8) = 1/8 := by decide +kernel          -- branch 1

/-- **No division by zero on frequencies**: the branch that divides by `Ph` has `Ph > 0`, the branch that
    divides by `1 − Ph` has `Ph < 1` (only `0 ≤ Po ≤ 1` is needed). -/
theorem pObsFuture_no_div0 (Po Ph Pf : Rat) (hPo : 0 ≤ Po ∧ Po ≤ 1) :
    (pBranch Po Ph Pf = 2 → 0 < Ph) ∧ (pBranch Po Ph Pf = 3 → 0 < 1 - Ph) := by
  unfold pBranch
  split_ifs with c1 c2 c3 <;> refine ⟨fun h => ?_, fun h => ?_⟩ <;>
    first
      | (exfalso; revert h; decide)
      | (obtain ⟨_, c⟩ := c2; linarith [hPo.1])
      | (obtain ⟨_, c⟩ := c3; linarith [hPo.2])

/-- **Simulated frequency unchanged (`Pf = Ph`)**: the adjusted frequency is the observed one — except
    inside `np.isclose`'s tolerance of `Ph ≈ Po`, where the first branch returns `Pf = Ph` instead.  This is
    the exact statement; the two corollaries below are the readings of the property text. -/
theorem pObsFuture_hist_eq_future (Po Ph : Rat) (hPo : 0 ≤ Po ∧ Po ≤ 1) :
    pObsFuture Po Ph Ph = if Py.isclose Ph Po = true then Ph else Po := by
  unfold pObsFuture
  split_ifs with c1 c2 c3
  · rfl
  · have : Ph ≠ 0 := by linarith [c2.2, hPo.1]
    field_simp
  · have : 1 - Ph ≠ 0 := by linarith [c3.2, hPo.2]
    field_simp
    ring
  · ring

theorem pObsFuture_hist_eq_future_or (Po Ph : Rat) (hPo : 0 ≤ Po ∧ Po ≤ 1) :
    pObsFuture Po Ph Ph = Po ∨ (Py.isclose Ph Po = true ∧ pObsFuture Po Ph Ph = Ph) := by
  rw [pObsFuture_hist_eq_future Po Ph hPo]
  by_cases c : Py.isclose Ph Po = true
  · right; simp [c]
  · left; simp [c]

/-- in either case the result is the observed frequency up to `np.isclose`'s tolerance
    (`|P − Po| ≤ 1e-8 + 1e-5·|Po|`) -/
theorem pObsFuture_hist_eq_future_close (Po Ph : Rat) (hPo : 0 ≤ Po ∧ Po ≤ 1) :
    Py.absQ (pObsFuture Po Ph Ph - Po) ≤ (1 : Rat) / 100000000 + (1 : Rat) / 100000 * Py.absQ Po := by
  rw [pObsFuture_hist_eq_future Po Ph hPo]
  by_cases c : Py.isclose Ph Po = true
  · simp only [c, if_true]
    exact (isclose_iff Ph Po).mp c
  · simp only [c]
    have := absQ_nonneg Po
    simp only [Bool.false_eq_true, if_false, sub_self, absQ_zero]
    positivity

-- hypotheses satisfiable, both alternatives occur
example : pObsFuture (1/4) (3/4) (3/4) = 1/4 := by decide +kernel
example : Py.isclose (1/2 + 1/1000000) (1/2) = true ∧ pObsFuture (1/2) (1/2 + 1/1000000) (1/2 + 1/1000000) ≠ 1/2 := by
  decide +kernel

/-- **No historical bias in the frequency (`Ph = Po`)**: the adjusted frequency is the simulated future one
    (for *all* rationals, no guard). -/
theorem pObsFuture_hist_eq_obs (Po Pf : Rat) : pObsFuture Po Po Pf = Pf := by
  unfold pObsFuture
  simp [isclose_self]

/-- more generally whenever the code regards `Ph` and `Po` as equal -/
theorem pObsFuture_of_isclose (Po Ph Pf : Rat) (h : Py.isclose Ph Po = true) : pObsFuture Po Ph Pf = Pf := by
  unfold pObsFuture
  simp [h]

/-! ### The number of entries sent to a bound: `round(n · P)` -/

/-- **Frequency adjustment switched off**: `P` is the observed frequency, whatever the model frequencies are. -/
theorem pFuture_off (mo mh mf : List Bool) : pFuture false mo mh mf = freq mo := by
  unfold pFuture; simp

/-- … and the count is `round(n · k_obs / n_obs)`, computed on integers -/
theorem nrToBound_off (mo mh mf : List Bool) (hmo : 0 < mo.length) :
    nrToBound false mo mh mf = rhe ((mf.length : Int) * countTrue mo) (mo.length : Int) := by
  unfold nrToBound
  rw [pFuture_off]
  unfold freq
  have : (((mf.length : Int)) : Rat) * ((countTrue mo : Rat) / (((mo.length : Int)) : Rat))
      = ((((mf.length : Int) * countTrue mo : Int)) : Rat) / (((mo.length : Int)) : Rat) := by
    push_cast; ring
  rw [this, roundHalfEven_div _ _ (by exact_mod_cast hmo)]

example : nrToBound false [true, false, true] [false] [true, true, false, false, false] = 3 := by decide +kernel

/-- the frequency used is a frequency (non-empty masks: numpy yields NaN on an empty one) -/
theorem pFuture_range (adjust : Bool) (mo mh mf : List Bool)
    (_hmo : 0 < mo.length) (_hmh : 0 < mh.length) (_hmf : 0 < mf.length) :
    0 ≤ pFuture adjust mo mh mf ∧ pFuture adjust mo mh mf ≤ 1 := by
  unfold pFuture
  split_ifs
  · exact pObsFuture_range _ _ _ (freq_range mo) (freq_range mh) (freq_range mf)
  · exact freq_range mo

/-- **`n_bound = round(n · P)` lies between `0` and `n`** and is a nearest integer to `n · P`. -/
theorem nrToBound_range (adjust : Bool) (mo mh mf : List Bool)
    (hmo : 0 < mo.length) (hmh : 0 < mh.length) (hmf : 0 < mf.length) :
    0 ≤ nrToBound adjust mo mh mf ∧ nrToBound adjust mo mh mf ≤ (mf.length : Int) := by
  obtain ⟨p0, p1⟩ := pFuture_range adjust mo mh mf hmo hmh hmf
  have hn : (0 : Rat) ≤ (((mf.length : Int)) : Rat) := by exact_mod_cast Int.natCast_nonneg _
  unfold nrToBound
  apply roundHalfEven_bounds
  · push_cast; exact mul_nonneg (by exact_mod_cast hn) p0
  · calc (((mf.length : Int)) : Rat) * pFuture adjust mo mh mf ≤ (((mf.length : Int)) : Rat) * 1 :=
          mul_le_mul_of_nonneg_left p1 hn
      _ = _ := mul_one _

theorem nrToBound_nearest (adjust : Bool) (mo mh mf : List Bool) :
    (((mf.length : Int)) : Rat) * pFuture adjust mo mh mf - 1 / 2 ≤ (nrToBound adjust mo mh mf : Rat) ∧
    (nrToBound adjust mo mh mf : Rat) ≤ (((mf.length : Int)) : Rat) * pFuture adjust mo mh mf + 1 / 2 := by
  unfold nrToBound
  exact roundHalfEven_close _

-- Po = 1/4, Ph = 1/2, Pf = 1/3: P = 1/6, n = 6, round(1) = 1
example : nrToBound true [true, false, false, false] [true, true, false, false] [true, true, false, false, false, false]
    = 1 := by decide +kernel
-- Po = 1/4, Ph = 1/2, Pf = 1/6: P = 1/12, n = 6, round(1/2) = 0 (half to even)
example : nrToBound true [true, false, false, false] [true, true, false, false] [true, false, false, false, false, false]
    = 0 := by decide +kernel

/-! ### Rescaling when both bounds together claim more entries than exist -/

/-- **After rescaling the two counts sum to `n`** (repaired code: the upper count is the remainder). -/
theorem scale_sum (l u n : Int) : (scaleCounts l u n).1 + (scaleCounts l u n).2 = n := by
  unfold scaleCounts; simp

/-- **… and both are non-negative** — for all `l, u ≥ 0`, `n ≥ 0` with `l + u > n` (the situation in which
    `step6` calls the function); moreover rescaling never increases a count. -/
theorem scale_nonneg (l u n : Int) (hl : 0 ≤ l) (hu : 0 ≤ u) (hn : 0 ≤ n) (h : l + u > n) :
    0 ≤ (scaleCounts l u n).1 ∧ 0 ≤ (scaleCounts l u n).2 ∧
    (scaleCounts l u n).1 ≤ l ∧ (scaleCounts l u n).2 ≤ u := by
  have hb : 0 < l + u := by omega
  have b1 := rhe_bounds (l * n) (l + u) n hb (mul_nonneg hl hn) (by nlinarith)
  have b2 := rhe_bounds (l * n) (l + u) l hb (mul_nonneg hl hn) (by nlinarith)
  have b3 := rhe_ge (l * n) (l + u) (n - u) hb (by nlinarith)
  unfold scaleCounts
  simp only []
  omega

example : scaleCounts 2 2 3 = (2, 1) := by decide
example : scaleCounts 7 5 10 = (6, 4) := by decide

/-- **F4 (the code before the repair)**: the upper count was divided by a sum that already contained the
    rescaled lower count; `(l, u, n) = (2, 2, 3)` was mapped to `(2, 2)`, which does not sum to `3`
    (concrete witness, by evaluation). -/
theorem legacy_scale_counterexample :
    legacyScaleCounts 2 2 3 = (2, 2) ∧ (legacyScaleCounts 2 2 3).1 + (legacyScaleCounts 2 2 3).2 ≠ 3 := by
  decide

/-- The counts `step6` finally uses: non-negative, never more than exist, and exactly `n` when the raw
    counts overlapped; unchanged otherwise. -/
theorem finalCounts_valid (nl nu n : Int) (hl : 0 ≤ nl) (hu : 0 ≤ nu) (hn : 0 ≤ n) :
    0 ≤ (finalCounts nl nu n).1 ∧ 0 ≤ (finalCounts nl nu n).2 ∧
    (finalCounts nl nu n).1 + (finalCounts nl nu n).2 ≤ n ∧
    (nl + nu > n → (finalCounts nl nu n).1 + (finalCounts nl nu n).2 = n) ∧
    (nl + nu ≤ n → finalCounts nl nu n = (nl, nu)) := by
  unfold finalCounts
  split_ifs with c
  · have s := scale_sum nl nu n
    obtain ⟨a, b, _, _⟩ := scale_nonneg nl nu n hl hu hn c
    exact ⟨a, b, by omega, fun _ => s, fun h => by omega⟩
  · exact ⟨hl, hu, by simp only []; omega, fun h => by omega, fun _ => rfl⟩

/-- raw counts of `step6` are between `0` and `n` (series non-empty) -/
theorem rawCounts_range (adjust : Bool) (lthr uthr : Option Rat) (obs cmh cmf : List Rat)
    (ho : 0 < obs.length) (hh : 0 < cmh.length) (hf : 0 < cmf.length) :
    (0 ≤ (rawCounts adjust lthr uthr obs cmh cmf).1 ∧ (rawCounts adjust lthr uthr obs cmh cmf).1 ≤ (cmf.length : Int)) ∧
    (0 ≤ (rawCounts adjust lthr uthr obs cmh cmf).2 ∧ (rawCounts adjust lthr uthr obs cmh cmf).2 ≤ (cmf.length : Int)) := by
  unfold rawCounts
  constructor
  · cases lthr with
    | none => simp
    | some t =>
      have := nrToBound_range adjust (maskLower t obs) (maskLower t cmh) (maskLower t cmf)
        (by simpa [maskLower] using ho) (by simpa [maskLower] using hh) (by simpa [maskLower] using hf)
      simpa [maskLower] using this
  · cases uthr with
    | none => simp
    | some t =>
      have := nrToBound_range adjust (maskUpper t obs) (maskUpper t cmh) (maskUpper t cmf)
        (by simpa [maskUpper] using ho) (by simpa [maskUpper] using hh) (by simpa [maskUpper] using hf)
      simpa [maskUpper] using this

/-- **The counts `step6` uses are consistent**: `0 ≤ n_l`, `0 ≤ n_u`, `n_l + n_u ≤ n` — the two bound masks
    never overlap. -/
theorem step6Counts_valid (adjust : Bool) (lthr uthr : Option Rat) (obs cmh cmf : List Rat)
    (ho : 0 < obs.length) (hh : 0 < cmh.length) (hf : 0 < cmf.length) :
    0 ≤ (step6Counts adjust lthr uthr obs cmh cmf).1 ∧ 0 ≤ (step6Counts adjust lthr uthr obs cmh cmf).2 ∧
    (step6Counts adjust lthr uthr obs cmh cmf).1 + (step6Counts adjust lthr uthr obs cmh cmf).2 ≤ (cmf.length : Int) := by
  obtain ⟨⟨a, _⟩, ⟨b, _⟩⟩ := rawCounts_range adjust lthr uthr obs cmh cmf ho hh hf
  obtain ⟨c1, c2, c3, _, _⟩ := finalCounts_valid _ _ (cmf.length : Int) a b (Int.natCast_nonneg _)
  exact ⟨c1, c2, c3⟩

/-- when nothing has to be rescaled the lower count is `round(n · P_lower)` and the upper `round(n · P_upper)` -/
theorem step6Counts_eq_round (adjust : Bool) (tl tu : Rat) (obs cmh cmf : List Rat)
    (h : (rawCounts adjust (some tl) (some tu) obs cmh cmf).1 + (rawCounts adjust (some tl) (some tu) obs cmh cmf).2
          ≤ (cmf.length : Int)) :
    step6Counts adjust (some tl) (some tu) obs cmh cmf =
      (Py.roundHalfEven ((((cmf.length : Int)) : Rat) * pFuture adjust (maskLower tl obs) (maskLower tl cmh) (maskLower tl cmf)),
       Py.roundHalfEven ((((cmf.length : Int)) : Rat) * pFuture adjust (maskUpper tu obs) (maskUpper tu cmh) (maskUpper tu cmf))) := by
  unfold step6Counts finalCounts
  simp only []
  have : ¬ ((rawCounts adjust (some tl) (some tu) obs cmh cmf).1 + (rawCounts adjust (some tl) (some tu) obs cmh cmf).2
      > (cmf.length : Int)) := by omega
  simp only [this, if_false]
  unfold rawCounts nrToBound
  simp [maskLower, maskUpper]

/-- the code computes the masks on the sorted series; the counts do not depend on the order -/
theorem step6Counts_perm (adjust : Bool) (lthr uthr : Option Rat) (obs cmh cmf obs' cmh' cmf' : List Rat)
    (po : obs.Perm obs') (ph : cmh.Perm cmh') (pf : cmf.Perm cmf') :
    step6Counts adjust lthr uthr obs cmh cmf = step6Counts adjust lthr uthr obs' cmh' cmf' := by
  have fl : ∀ t (a b : List Rat), a.Perm b → freq (maskLower t a) = freq (maskLower t b) :=
    fun t a b p => freq_perm _ _ (p.map _)
  have fu : ∀ t (a b : List Rat), a.Perm b → freq (maskUpper t a) = freq (maskUpper t b) :=
    fun t a b p => freq_perm _ _ (p.map _)
  unfold step6Counts rawCounts nrToBound pFuture
  simp only [maskLower, maskUpper, List.length_map, pf.length_eq] at *
  cases lthr <;> cases uthr <;> simp only [fl _ _ _ po, fl _ _ _ ph, fl _ _ _ pf, fu _ _ _ po, fu _ _ _ ph, fu _ _ _ pf]

/-! ### The realised number of values at the bounds -/

/-- **Exactly `n_l` output values equal the lower bound and `n_u` the upper bound.**
    `xs` = sorted `cm_future`; the lowest `n_l` entries are set to `lo`, the highest `n_u` to `hi`
    (`Lemmas.IsimipFreq.assignBounds_eq`), the remaining ones take the mapped values `mid`; `out` is any
    re-ordering of the result (`step6` puts the values back in time order).
    Guards (all explicit): the counts are consistent (`step6Counts_valid` provides this), one mapped value per
    remaining entry, the bounds differ, and — the property's `Wet` guard — no mapped value falls on a bound. -/
theorem bound_counts {α} [DecidableEq α] (lo hi : α) (nl nu : Int) (xs mid out : List α)
    (hl : 0 ≤ nl) (hu : 0 ≤ nu) (hn : nl + nu ≤ (xs.length : Int))
    (hm : (mid.length : Int) = (xs.length : Int) - nl - nu) (hne : lo ≠ hi)
    (hmid : ∀ v ∈ mid, v ≠ lo ∧ v ≠ hi) (hout : out.Perm (assignBounds lo hi nl nu xs mid)) :
    (out.count lo : Int) = nl ∧ (out.count hi : Int) = nu := by
  obtain ⟨a, rfl⟩ := Int.eq_ofNat_of_zero_le hl
  obtain ⟨b, rfl⟩ := Int.eq_ofNat_of_zero_le hu
  have hn' : a + b ≤ xs.length := by exact_mod_cast hn
  have hm' : mid.length = xs.length - a - b := by omega
  -- split the sorted values into the three segments
  let A := xs.take a
  let B := (xs.drop a).take (xs.length - a - b)
  let C := (xs.drop a).drop (xs.length - a - b)
  have hA : A.length = a := by simp [A]; omega
  have hB : B.length = xs.length - a - b := by simp [B]
  have hC : C.length = b := by simp [C]; omega
  have hx : xs = A ++ (B ++ C) := by simp [A, B, C]
  have key := assignBounds_eq lo hi A B C mid (by rw [hB]; exact hm')
  rw [hA, hC, ← hx] at key
  rw [key] at hout
  have cl : mid.count lo = 0 := List.count_eq_zero.mpr (fun hmem => (hmid lo hmem).1 rfl)
  have ch : mid.count hi = 0 := List.count_eq_zero.mpr (fun hmem => (hmid hi hmem).2 rfl)
  rw [hout.count_eq, hout.count_eq]
  simp only [List.count_append, List.count_replicate, cl, ch]
  simp [hne, hne.symm]

/-- the same with the guard in the form the property states it: mapped values **strictly inside** the bounds -/
theorem bound_counts_strictly_inside (lo hi : Rat) (nl nu : Int) (xs mid out : List Rat)
    (hl : 0 ≤ nl) (hu : 0 ≤ nu) (hn : nl + nu ≤ (xs.length : Int))
    (hm : (mid.length : Int) = (xs.length : Int) - nl - nu) (hlohi : lo < hi)
    (hmid : ∀ v ∈ mid, lo < v ∧ v < hi) (hout : out.Perm (assignBounds lo hi nl nu xs mid)) :
    (out.count lo : Int) = nl ∧ (out.count hi : Int) = nu :=
  bound_counts lo hi nl nu xs mid out hl hu hn hm (ne_of_lt hlohi)
    (fun v hv => ⟨ne_of_gt (hmid v hv).1, ne_of_lt (hmid v hv).2⟩) hout

-- non-trivial instance: n = 6, two dry and one saturated value, three mapped values strictly inside
example : assignBounds (0 : Rat) 100 2 1 [1, 2, 3, 4, 5, 6] [10, 20, 30] = [0, 0, 10, 20, 30, 100] := by decide +kernel

/-- **C11, assembled**: for a thresholded variable, with the counts `(n_l, n_u) = step6Counts …` (that is
    `round(n · P)` per bound, rescaled to sum to `n` if they overlap), every re-ordering of `step6`'s
    assignment has exactly `n_l` values at the lower and `n_u` at the upper bound. -/
theorem step6_count (adjust : Bool) (lthr uthr : Option Rat) (lo hi : Rat) (obs cmh cmf xs mid out : List Rat)
    (ho : 0 < obs.length) (hh : 0 < cmh.length) (hf : 0 < cmf.length) (hxs : xs.Perm cmf)
    (hm : (mid.length : Int) = (cmf.length : Int) - (step6Counts adjust lthr uthr obs cmh cmf).1
            - (step6Counts adjust lthr uthr obs cmh cmf).2)
    (hlohi : lo < hi) (hmid : ∀ v ∈ mid, lo < v ∧ v < hi)
    (hout : out.Perm (assignBounds lo hi (step6Counts adjust lthr uthr obs cmh cmf).1
              (step6Counts adjust lthr uthr obs cmh cmf).2 xs mid)) :
    (out.count lo : Int) = (step6Counts adjust lthr uthr obs cmh cmf).1 ∧
    (out.count hi : Int) = (step6Counts adjust lthr uthr obs cmh cmf).2 := by
  obtain ⟨c1, c2, c3⟩ := step6Counts_valid adjust lthr uthr obs cmh cmf ho hh hf
  rw [← hxs.length_eq] at c3 hm
  exact bound_counts_strictly_inside lo hi _ _ xs mid out c1 c2 c3 hm hlohi hmid hout

end Props.C11
