/-
  C20 — bias and trend evaluation report the documented quantities.
  Property theorems only, stated on `Model.Evaluate` (per-location reading, exact rational arithmetic, division
  partial: `"div0"` = inf/NaN of the real code; Python exceptions = the other error strings).  `Lemmas.GenEvaluate`
  proves the model equal to the formulas regenerated from `ibicus/evaluate/{marginal,trend,multivariate}.py`.
  The statistics (`Q` = `np.quantile(·, q, axis=0)`, `P` = exceedance probability of a metric, `Py.mean`) are
  universally quantified parameters or plain functions of the column, so "every statistic, every metric" is literal.
  Every guard (denominator ≠ 0, time sorted, at least one exceedance …) is an explicit hypothesis; the zero-divisor
  cases are stated separately.
-/
import IbicusModel.Lemmas.Evaluate
import IbicusModel.Lemmas.GenEvaluate
import Mathlib.Tactic.Linarith
import Mathlib.Tactic.Ring
import Mathlib.Tactic.FieldSimp
import Mathlib.Tactic.Positivity

namespace Props.C20
open Model.Evaluate Lemmas.Evaluate

/-! ### marginal bias: the documented formulas -/

/-- percentage bias `100 (cm − obs) / obs` (guard: the observed statistic is not 0) -/
theorem marginal_percentage (cm obs : Rat) (h : obs ≠ 0) :
    marginalBias "percentage" cm obs = .ok (100 * (cm - obs) / obs) := by
  unfold marginalBias pctBias; rw [if_pos rfl, divE_ok _ _ h]

/-- absolute bias `cm − obs` -/
theorem marginal_absolute (cm obs : Rat) : marginalBias "absolute" cm obs = .ok (cm - obs) := by
  unfold marginalBias absBias
  rw [if_neg (by decide), if_pos rfl]

/-- observed statistic 0: no percentage bias (the real code yields inf/NaN and drops the row on inf) -/
theorem marginal_percentage_div0 (cm : Rat) : marginalBias "percentage" cm 0 = .error "div0" := by
  unfold marginalBias pctBias; rw [if_pos rfl, divE_zero]

/-- any other `bias_type`: the local is never bound -/
theorem marginal_invalid_type (bt : String) (cm obs : Rat) (h1 : bt ≠ "percentage") (h2 : bt ≠ "absolute") :
    marginalBias bt cm obs = .error "UnboundLocalError" := by
  unfold marginalBias; rw [if_neg h1, if_neg h2]

/-- `Py.mean` is the arithmetic mean of a non-empty column; on an empty one it is Lean's `0 / 0 = 0` where numpy gives NaN,
    so every theorem about means carries the guard "at least one time step" (`_hne`) -/
theorem mean_spec (x : List Rat) : (x ≠ [] → Py.mean x * (x.length : Rat) = x.sum) ∧ Py.mean [] = 0 := by
  refine ⟨fun hx => ?_, by simp [Py.mean]⟩
  have hl : ((x.length : Nat) : Rat) ≠ 0 := by
    cases x with
    | nil => exact absurd rfl hx
    | cons a t => simp only [List.length_cons]; push_cast; positivity
  unfold Py.mean; field_simp

/-- **`_marginal_mean_bias`** compares the two means of the right data sets -/
theorem marginal_mean (obs cm : List Rat) (_hne : obs ≠ [] ∧ cm ≠ []) :
    (Py.mean obs ≠ 0 → marginalMeanBias obs cm "percentage" = .ok (100 * (Py.mean cm - Py.mean obs) / Py.mean obs)) ∧
    marginalMeanBias obs cm "absolute" = .ok (Py.mean cm - Py.mean obs) :=
  ⟨fun h => marginal_percentage _ _ h, marginal_absolute _ _⟩

example : marginalMeanBias [1, 3] [2, 6] "percentage" = .ok 100 := by decide +kernel

/-- **`_marginal_quantile_bias`** for every quantile statistic `Q` and `0 ≤ q ≤ 1` -/
theorem marginal_quantile (Q : List Rat → Rat → Rat) (q : Rat) (obs cm : List Rat) (h0 : 0 ≤ q) (h1 : q ≤ 1) :
    (Q obs q ≠ 0 → marginalQuantileBias Q q obs cm "percentage" = .ok (100 * (Q cm q - Q obs q) / Q obs q)) ∧
    marginalQuantileBias Q q obs cm "absolute" = .ok (Q cm q - Q obs q) := by
  have hq : ¬ (q < 0 ∨ q > 1) := by rintro (h | h) <;> linarith
  simp only [marginalQuantileBias, if_neg hq]
  exact ⟨fun h => marginal_percentage _ _ h, marginal_absolute _ _⟩

theorem marginal_quantile_invalid (Q : List Rat → Rat → Rat) (q : Rat) (obs cm : List Rat) (bt : String)
    (h : q < 0 ∨ q > 1) : marginalQuantileBias Q q obs cm bt = .error "ValueError" := by
  unfold marginalQuantileBias; rw [if_pos h]

/-- **`_marginal_metrics_bias` / `_marginal_metrics_absolute_bias`** for every metric (its exceedance probability `P`):
    percentage bias of the probabilities, absolute bias in days per year -/
theorem marginal_metrics (P : List Rat → List Int → Rat) (obs cm : List Rat) (tO tC : List Int) :
    (P obs tO ≠ 0 → marginalMetricsBias P obs cm tO tC = .ok (100 * (P cm tC - P obs tO) / P obs tO)) ∧
    marginalMetricsAbsoluteBias P obs cm tO tC = 365 * (P cm tC - P obs tO) := by
  refine ⟨fun h => ?_, ?_⟩
  · unfold marginalMetricsBias pctBias; rw [divE_ok _ _ h]
  · unfold marginalMetricsAbsoluteBias; ring

/-- **A data set evaluated against itself has zero bias** (mean, every quantile, every metric; percentage and absolute). -/
theorem marginal_self_zero (Q : List Rat → Rat → Rat) (P : List Rat → List Int → Rat) (q : Rat) (x : List Rat) (t : List Int)
    (h0 : 0 ≤ q) (h1 : q ≤ 1) (hx : x ≠ []) :
    (Py.mean x ≠ 0 → marginalMeanBias x x "percentage" = .ok 0) ∧ marginalMeanBias x x "absolute" = .ok 0 ∧
    (Q x q ≠ 0 → marginalQuantileBias Q q x x "percentage" = .ok 0) ∧ marginalQuantileBias Q q x x "absolute" = .ok 0 ∧
    (P x t ≠ 0 → marginalMetricsBias P x x t t = .ok 0) ∧ marginalMetricsAbsoluteBias P x x t t = 0 := by
  refine ⟨fun h => ?_, ?_, fun h => ?_, ?_, fun h => ?_, ?_⟩
  · rw [(marginal_mean x x ⟨hx, hx⟩).1 h]; simp
  · rw [(marginal_mean x x ⟨hx, hx⟩).2]; simp
  · rw [(marginal_quantile Q q x x h0 h1).1 h]; simp
  · rw [(marginal_quantile Q q x x h0 h1).2]; simp
  · rw [(marginal_metrics P x x t t).1 h]; simp
  · rw [(marginal_metrics P x x t t).2]; simp

example : marginalMeanBias [1, 3] [1, 3] "percentage" = .ok 0 := by decide +kernel

/-! ### trends and trend biases -/

/-- additive trend `fut − val`; multiplicative trend `fut / val` (guard: validation statistic ≠ 0) -/
theorem trend_formula (g : Bool) (val fut : Rat) :
    trend g "additive" val fut = .ok (fut - val) ∧ (val ≠ 0 → trend g "multiplicative" val fut = .ok (fut / val)) := by
  constructor
  · unfold trend; rw [if_pos rfl]
  · intro h
    unfold trend
    rw [if_neg (by decide), if_pos rfl, if_neg (fun hc => h hc.2), divE_ok _ _ h]

/-- validation statistic 0: the quantile / metric paths raise `ZeroDivisionError`, the mean path yields inf/NaN -/
theorem trend_zero_validation (fut : Rat) :
    trend true "multiplicative" 0 fut = .error "ZeroDivisionError" ∧ trend false "multiplicative" 0 fut = .error "div0" := by
  constructor
  · unfold trend; rw [if_neg (by decide), if_pos rfl, if_pos ⟨rfl, rfl⟩]
  · unfold trend; rw [if_neg (by decide), if_pos rfl, if_neg (by simp), divE_zero]

theorem trend_invalid_type (g : Bool) (tt : String) (a b c d : Rat) (h1 : tt ≠ "additive") (h2 : tt ≠ "multiplicative") :
    trend g tt a b = .error "ValueError" ∧ trendBias g tt a b c d = .error "ValueError" := by
  unfold trend trendBias; rw [if_neg h1, if_neg h2, if_neg h1, if_neg h2]; exact ⟨rfl, rfl⟩

/-- **additive trend bias** `100 (bc_trend − raw_trend) / raw_trend` with `trend = future − validation`
    (guard: the raw trend is not 0) -/
theorem trend_bias_additive (g : Bool) (rawV rawF bcV bcF : Rat) (h : rawF - rawV ≠ 0) :
    trendBias g "additive" rawV rawF bcV bcF = .ok (100 * ((bcF - bcV) - (rawF - rawV)) / (rawF - rawV)) := by
  unfold trendBias pctBias; rw [if_pos rfl, divE_ok _ _ h]

/-- **multiplicative trend bias** with `trend = future / validation`
    (guards: both validation statistics and the raw future statistic are not 0) -/
theorem trend_bias_multiplicative (g : Bool) (rawV rawF bcV bcF : Rat) (hb : bcV ≠ 0) (hr : rawV ≠ 0) (hf : rawF ≠ 0) :
    trendBias g "multiplicative" rawV rawF bcV bcF = .ok (100 * (bcF / bcV - rawF / rawV) / (rawF / rawV)) := by
  unfold trendBias pctBias
  rw [if_neg (by decide), if_pos rfl, if_neg (by rintro ⟨_, h | h⟩ <;> contradiction), divE_ok _ _ hb, divE_ok _ _ hr]
  simp only []
  rw [divE_ok _ _ (div_ne_zero hf hr)]

/-- the guard of the quantile / metric paths: a validation statistic 0 raises before anything is divided -/
theorem trend_bias_guard (rawV rawF bcV bcF : Rat) (h : bcV = 0 ∨ rawV = 0) :
    trendBias true "multiplicative" rawV rawF bcV bcF = .error "ZeroDivisionError" := by
  unfold trendBias; rw [if_neg (by decide), if_pos rfl, if_pos ⟨rfl, h⟩]

/-- **Zero trend bias of a data set against itself** (debiased = raw), additive and multiplicative. -/
theorem trend_bias_self_zero (g : Bool) (rawV rawF : Rat) :
    (rawF - rawV ≠ 0 → trendBias g "additive" rawV rawF rawV rawF = .ok 0) ∧
    (rawV ≠ 0 → rawF ≠ 0 → trendBias g "multiplicative" rawV rawF rawV rawF = .ok 0) := by
  constructor
  · intro h; rw [trend_bias_additive g _ _ _ _ h]; simp
  · intro hv hf; rw [trend_bias_multiplicative g _ _ _ _ hv hv hf]; simp

/-- **`_calculate_mean_trend_bias`**: the four means, each of the right data set -/
theorem mean_trend_bias (rawV rawF bcV bcF : List Rat) (_hne : rawV ≠ [] ∧ rawF ≠ [] ∧ bcV ≠ [] ∧ bcF ≠ []) :
    (Py.mean rawF - Py.mean rawV ≠ 0 → meanTrendBias "additive" rawV rawF bcV bcF =
      .ok (100 * ((Py.mean bcF - Py.mean bcV) - (Py.mean rawF - Py.mean rawV)) / (Py.mean rawF - Py.mean rawV))) ∧
    (Py.mean bcV ≠ 0 → Py.mean rawV ≠ 0 → Py.mean rawF ≠ 0 → meanTrendBias "multiplicative" rawV rawF bcV bcF =
      .ok (100 * (Py.mean bcF / Py.mean bcV - Py.mean rawF / Py.mean rawV) / (Py.mean rawF / Py.mean rawV))) :=
  ⟨trend_bias_additive _ _ _ _ _, trend_bias_multiplicative _ _ _ _ _⟩

example : meanTrendBias "additive" [1, 3] [2, 4] [1, 3] [4, 4] = .ok 100 := by decide +kernel
example : meanTrendBias "multiplicative" [1, 3] [2, 6] [1, 1] [4, 4] = .ok 100 := by decide +kernel

/-- **`_calculate_quantile_trend_bias`** for every quantile statistic -/
theorem quantile_trend_bias (Q : List Rat → Rat → Rat) (q : Rat) (rawV rawF bcV bcF : List Rat) :
    (Q rawF q - Q rawV q ≠ 0 → quantileTrendBias Q "additive" q rawV rawF bcV bcF =
      .ok (100 * ((Q bcF q - Q bcV q) - (Q rawF q - Q rawV q)) / (Q rawF q - Q rawV q))) ∧
    (Q bcV q ≠ 0 → Q rawV q ≠ 0 → Q rawF q ≠ 0 → quantileTrendBias Q "multiplicative" q rawV rawF bcV bcF =
      .ok (100 * (Q bcF q / Q bcV q - Q rawF q / Q rawV q) / (Q rawF q / Q rawV q))) ∧
    (Q bcV q = 0 ∨ Q rawV q = 0 → quantileTrendBias Q "multiplicative" q rawV rawF bcV bcF = .error "ZeroDivisionError") :=
  ⟨trend_bias_additive _ _ _ _ _, trend_bias_multiplicative _ _ _ _ _, trend_bias_guard _ _ _ _⟩

/-- **`_calculate_metrics_trend_bias`** for every metric: validation probabilities with `time_validate`, future ones
    with `time_future`, raw ones from the raw data sets (F9c: `m_raw_validate` once came from `bc_validate`) -/
theorem metrics_trend_bias (P : List Rat → List Int → Rat) (rawV rawF bcV bcF : List Rat) (tV tF : List Int) :
    (P rawF tF - P rawV tV ≠ 0 → metricsTrendBias P "additive" rawV rawF bcV bcF tV tF =
      .ok (100 * ((P bcF tF - P bcV tV) - (P rawF tF - P rawV tV)) / (P rawF tF - P rawV tV))) ∧
    (P bcV tV ≠ 0 → P rawV tV ≠ 0 → P rawF tF ≠ 0 → metricsTrendBias P "multiplicative" rawV rawF bcV bcF tV tF =
      .ok (100 * (P bcF tF / P bcV tV - P rawF tF / P rawV tV) / (P rawF tF / P rawV tV))) ∧
    (P bcV tV = 0 ∨ P rawV tV = 0 → metricsTrendBias P "multiplicative" rawV rawF bcV bcF tV tF = .error "ZeroDivisionError") :=
  ⟨trend_bias_additive _ _ _ _ _, trend_bias_multiplicative _ _ _ _ _, trend_bias_guard _ _ _ _⟩

/-- **`calculate_future_trend`'s formulas**: mean / quantile / metric trend of the debiased data set itself -/
theorem future_trend (Q : List Rat → Rat → Rat) (P : List Rat → List Int → Rat) (q : Rat) (bcV bcF : List Rat) (tV tF : List Int)
    (_hne : bcV ≠ [] ∧ bcF ≠ []) :
    meanTrend "additive" bcV bcF = .ok (Py.mean bcF - Py.mean bcV) ∧
    (Py.mean bcV ≠ 0 → meanTrend "multiplicative" bcV bcF = .ok (Py.mean bcF / Py.mean bcV)) ∧
    quantileTrend Q "additive" q bcV bcF = .ok (Q bcF q - Q bcV q) ∧
    (Q bcV q ≠ 0 → quantileTrend Q "multiplicative" q bcV bcF = .ok (Q bcF q / Q bcV q)) ∧
    metricsTrend P "additive" bcV bcF tV tF = .ok (P bcF tF - P bcV tV) ∧
    (P bcV tV ≠ 0 → metricsTrend P "multiplicative" bcV bcF tV tF = .ok (P bcF tF / P bcV tV)) :=
  ⟨(trend_formula _ _ _).1, (trend_formula _ _ _).2, (trend_formula _ _ _).1, (trend_formula _ _ _).2,
   (trend_formula _ _ _).1, (trend_formula _ _ _).2⟩

/-- **Zero trend bias of the raw model against itself**, for mean, every quantile, every metric, both trend types. -/
theorem self_zero (Q : List Rat → Rat → Rat) (P : List Rat → List Int → Rat) (q : Rat) (rawV rawF : List Rat) (tV tF : List Int)
    (_hne : rawV ≠ [] ∧ rawF ≠ []) :
    (Py.mean rawF - Py.mean rawV ≠ 0 → meanTrendBias "additive" rawV rawF rawV rawF = .ok 0) ∧
    (Py.mean rawV ≠ 0 → Py.mean rawF ≠ 0 → meanTrendBias "multiplicative" rawV rawF rawV rawF = .ok 0) ∧
    (Q rawF q - Q rawV q ≠ 0 → quantileTrendBias Q "additive" q rawV rawF rawV rawF = .ok 0) ∧
    (Q rawV q ≠ 0 → Q rawF q ≠ 0 → quantileTrendBias Q "multiplicative" q rawV rawF rawV rawF = .ok 0) ∧
    (P rawF tF - P rawV tV ≠ 0 → metricsTrendBias P "additive" rawV rawF rawV rawF tV tF = .ok 0) ∧
    (P rawV tV ≠ 0 → P rawF tF ≠ 0 → metricsTrendBias P "multiplicative" rawV rawF rawV rawF tV tF = .ok 0) :=
  ⟨(trend_bias_self_zero _ _ _).1, (trend_bias_self_zero _ _ _).2, (trend_bias_self_zero _ _ _).1,
   (trend_bias_self_zero _ _ _).2, (trend_bias_self_zero _ _ _).1, (trend_bias_self_zero _ _ _).2⟩

example : meanTrendBias "additive" [1, 3] [2, 6] [1, 3] [2, 6] = .ok 0 := by decide +kernel
example : meanTrendBias "multiplicative" [1, 3] [2, 6] [1, 3] [2, 6] = .ok 0 := by decide +kernel

/-! ### yearly exceedances -/

/-- **Yearly split.**  For time-sorted data covering any number of years ≥ 1 (`years` = `year(time)`, non-empty,
    non-decreasing; one 0/1 instance per time step) `_yearly_exceedances` returns, for the distinct years in
    ascending order, the sum of the instances on the days of that year. -/
theorem yearly_split (years inst : List Int) (hne : years ≠ []) (hs : years.Pairwise (· ≤ ·))
    (hl : inst.length = years.length) :
    yearlyExceedances years inst = (Py.uniqueSorted years).map (yearSum years inst) := by
  obtain ⟨hc, hu⟩ := uniqueCounts_sorted years hs
  unfold yearlyExceedances Py.splitAtIdx Py.cumsum
  rw [hc, hu]
  have := split_blocks inst ((Py.runs years).map (fun p => (p.2 : Int))) 0 (le_refl 0)
    (by intro c hc; simp only [List.mem_map] at hc; obtain ⟨p, _, rfl⟩ := hc; exact Int.natCast_nonneg _)
  simp only [Int.toNat_zero, List.drop_zero] at this
  rw [this]
  exact blocks_eq_yearSums years inst hne hs hl

example : yearlyExceedances [2000, 2000, 2001, 2001, 2001, 2003] [1, 0, 1, 1, 0, 1] = [1, 2, 1] := by
  rw [yearly_split _ _ (by decide) (by decide) (by decide), (uniqueCounts_sorted _ (by decide)).2]
  decide

/-- the years listed are exactly the years present, each once, ascending -/
theorem yearly_years (years : List Int) (hs : years.Pairwise (· ≤ ·)) :
    (Py.uniqueSorted years).Pairwise (· < ·) ∧ ∀ y, y ∈ Py.uniqueSorted years ↔ y ∈ years := by
  rw [(uniqueCounts_sorted years hs).2]
  exact ⟨runs_values_sorted years hs, fun y => ⟨runs_values_mem years y, runs_values_complete years y⟩⟩

/-- **One year of data is one year**: the single entry is the total number of exceedances, so the mean number of
    days per year is that total (F10: it was halved). -/
theorem yearly_single_year (y : Int) (n : Nat) (inst : List Int) :
    yearlyExceedances (List.replicate (n + 1) y) inst = [inst.sum] ∧
    meanYearlyExceedances (List.replicate (n + 1) y) inst = (inst.sum : Int) := by
  have hs : (List.replicate (n + 1) y).Pairwise (· ≤ ·) := by
    rw [List.pairwise_replicate]; exact Or.inr (le_refl y)
  have e : yearlyExceedances (List.replicate (n + 1) y) inst = [inst.sum] := by
    unfold yearlyExceedances
    rw [(uniqueCounts_sorted _ hs).1, runs_replicate]
    simp [Py.cumsum, Py.cumsumFrom, Py.splitAtIdx, Py.splitFrom]
  refine ⟨e, ?_⟩
  unfold meanYearlyExceedances
  rw [e]; simp [Py.mean]

example : meanYearlyExceedances [1999, 1999, 1999] [1, 1, 0] = 2 := by
  rw [show [(1999 : Int), 1999, 1999] = List.replicate (2 + 1) 1999 from rfl, (yearly_single_year 1999 2 _).2]
  decide +kernel

/-- **What the code did before repair 7cffa2c**: a single year was split into `[all, empty]`, so the mean number of
    days per year was half the count. -/
theorem legacy_yearly_single_year :
    legacyYearlyExceedances [1999, 1999, 1999] [1, 1, 0] = [2, 0] ∧
    Py.mean ((legacyYearlyExceedances [1999, 1999, 1999] [1, 1, 0]).map (fun (z : Int) => (z : Rat))) = 1 ∧
    meanYearlyExceedances [1999, 1999, 1999] [1, 1, 0] = 2 := by
  have hc : Py.uniqueCounts [1999, 1999, 1999] = [3] := by
    rw [(uniqueCounts_sorted _ (by decide)).1]; decide
  have e : legacyYearlyExceedances [1999, 1999, 1999] [1, 1, 0] = [2, 0] := by
    unfold legacyYearlyExceedances; rw [hc]; decide
  refine ⟨e, ?_, ?_⟩
  · rw [e]; decide +kernel
  · rw [show [(1999 : Int), 1999, 1999] = List.replicate (2 + 1) 1999 from rfl, (yearly_single_year 1999 2 _).2]
    decide +kernel

/-- for two and more years the legacy indices were the same as the repaired ones -/
theorem legacy_index_two_years (c c' : Int) (cs : List Int) :
    legacyIndex (c :: c' :: cs) = (Py.cumsum (c :: c' :: cs)).dropLast := by
  have key : ∀ (cs : List Int) (acc c' : Int),
      (List.range cs.length).map (fun i => acc + ((c' :: cs).take (i + 1)).sum) = (Py.cumsumFrom acc (c' :: cs)).dropLast := by
    intro cs
    induction cs with
    | nil => intro acc c'; simp [Py.cumsumFrom]
    | cons d ds ih =>
      intro acc c'
      simp only [Py.cumsumFrom, List.length_cons, List.range_succ_eq_map, List.map_cons, List.map_map]
      rw [List.dropLast_cons_cons]
      have := ih (acc + c') d
      simp only [Py.cumsumFrom] at this
      rw [← this]
      simp only [List.take_succ_cons, List.sum_cons, List.take_zero, List.sum_nil, add_zero, List.cons.injEq, true_and]
      apply List.map_congr_left
      intro i _
      simp only [Function.comp, List.take_succ_cons, List.sum_cons]
      ring
  unfold legacyIndex Py.cumsum
  simp only [List.headD_cons, List.length_cons, Py.cumsumFrom, zero_add]
  rw [List.dropLast_cons_cons]
  congr 1
  have := key cs c c'
  simp only [Py.cumsumFrom] at this
  rw [← this]
  have e : cs.length + 1 + 1 - 2 = cs.length := by omega
  rw [e]
  apply List.map_congr_left
  intro i _
  simp only [List.take_succ_cons, List.sum_cons]

/-! ### conditional joint exceedance -/

/-- **`chi = #(m1 ∧ m2) / #m2`** on 0/1 instance arrays (guard: metric 2 occurs at least once) -/
theorem chi_formula (i1 i2 : List Int) (h1 : Bin i1) (h2 : Bin i2) (h : i2.sum ≠ 0) :
    chi i1 i2 = .ok ((((List.zipWith (· * ·) i1 i2).sum : Int) : Rat) / ((i2.sum : Int) : Rat)) := by
  unfold chi
  rw [if_neg h, cooccurrence_eq_and i1 i2 h1 h2, divE_ok _ _ (by exact_mod_cast h)]

example : chi [1, 0, 1, 1] [1, 1, 0, 1] = .ok (2 / 3) := by decide +kernel

/-- **A metric conditioned on itself has probability 1** (guard: it occurs at least once). -/
theorem chi_self (i : List Int) (hb : Bin i) (h : 0 < i.sum) : chi i i = .ok 1 := by
  have hne : i.sum ≠ 0 := ne_of_gt h
  unfold chi
  rw [if_neg hne, cooccurrence_self i hb, divE_ok _ _ (by exact_mod_cast hne)]
  congr 1
  exact div_self (by exact_mod_cast hne)

example : chi [0, 1, 1, 0] [0, 1, 1, 0] = .ok 1 := chi_self _ (by unfold Bin; decide) (by decide)

/-- metric 2 never occurs: the real code raises `ValueError` (for the whole grid) -/
theorem chi_undefined (i1 i2 : List Int) (h : i2.sum = 0) : chi i1 i2 = .error "ValueError" := by
  unfold chi; rw [if_pos h]

/-! ### grids: the value at a location depends on that location's column only -/

/-- **Cell-wise.**  When the grid-level call returns, the value reported at every location is the per-location
    formula applied to that location's own column (`f c`), for every grid (list of cells), 1×1 included. -/
theorem cellwise {κ} (cells : List κ) (f : κ → Except String Rat) (out : List (κ × Except String Rat))
    (h : gridEval cells f = .ok out) : out = cells.map (fun c => (c, f c)) := by
  unfold gridEval at h
  split at h
  · split at h <;> cases h
  · simp only [Except.ok.injEq] at h; exact h.symm

/-- the grid-level call raises iff some location raises (trend type / quantile range are global, the multiplicative
    guards are `np.all` over the locations); a location that merely divides by zero does not abort the others -/
theorem grid_raises_iff {κ} (cells : List κ) (f : κ → Except String Rat) :
    (∃ e, gridEval cells f = .error e) ↔ ∃ c ∈ cells, isRaise (f c) = true := by
  unfold gridEval
  cases hf : cells.find? (fun c => isRaise (f c)) with
  | none =>
    simp only [reduceCtorEq, exists_false, false_iff]
    rintro ⟨c, hc, hr⟩
    exact absurd hr (by simpa using List.find?_eq_none.mp hf c hc)
  | some c =>
    have hm := List.mem_of_find?_eq_some hf
    have hr := List.find?_some hf
    constructor
    · intro _; exact ⟨c, hm, hr⟩
    · intro _
      cases hc : f c with
      | error e => exact ⟨e, by simp only [hc]⟩
      | ok v => exact ⟨"unreachable", by simp only [hc]⟩

/-- **Independence of the grid shape**: a column evaluated alone (1×1) and inside any larger grid gives the same
    value, provided no location of the larger grid raises. -/
theorem grid_independent {κ} (c : κ) (cells : List κ) (f : κ → Except String Rat) (v : Rat)
    (out : List (κ × Except String Rat)) (hc : c ∈ cells)
    (h1 : gridEval [c] f = .ok [(c, .ok v)]) (h : gridEval cells f = .ok out) : (c, .ok v) ∈ out := by
  have e1 := cellwise [c] f _ h1
  simp only [List.map_cons, List.map_nil, List.cons.injEq, Prod.mk.injEq, true_and, and_true] at e1
  rw [cellwise cells f out h, e1]
  exact List.mem_map_of_mem (f := fun c => (c, f c)) hc

example : gridEval [(0, 0), (0, 1)] (fun c => if c.2 = 0 then .ok 5 else .error "div0") =
    .ok [((0, 0), .ok 5), ((0, 1), .error "div0")] := by decide +kernel
example : gridEval [(0, 0), (0, 1)] (fun c => if c.2 = 0 then .ok 5 else .error "ZeroDivisionError") =
    .error "ZeroDivisionError" := by decide +kernel

/-! ### RMSE between correlation maps -/

/-- **RMSE of a map against itself is 0** (`sqrt` abstract with `sqrt 0 = 0`; guard: at least one location). -/
theorem rmse_self_zero (sqrt : Rat → Rat) (h0 : sqrt 0 = 0) (a : List Rat) (hne : a ≠ []) : rmse sqrt a a = .ok 0 := by
  have hs : (List.zipWith (fun x y => (x - y) * (x - y)) a a).sum = 0 := by
    induction a with
    | nil => rfl
    | cons x t ih =>
      simp only [List.zipWith_cons_cons, List.sum_cons, sub_self, mul_zero, zero_add]
      cases t with
      | nil => rfl
      | cons y u => exact ih (by simp)
  have hl : (a.length : Rat) ≠ 0 := by
    cases a with
    | nil => exact absurd rfl hne
    | cons x t => simp only [List.length_cons]; push_cast; positivity
  unfold rmse mse
  rw [hs, divE_ok _ _ hl, zero_div]
  simp only [Except.map, h0]

example : rmse (fun x => x) [1 / 2, -1, 1] [1 / 2, -1, 1] = .ok 0 := by decide +kernel

/-! ### independence of the number of years and of the record length -/

/-- **One year at a time.**  For time-sorted data the yearly exceedances of the whole record are the single-year
    results side by side: evaluating each year on its own (its days, its instances) and concatenating gives the same
    list, so the mean number of days per year over `k` years is the mean of the `k` single-year values. -/
theorem yearly_by_single_years (years inst : List Int) (hne : years ≠ []) (hs : years.Pairwise (· ≤ ·))
    (hl : inst.length = years.length) :
    yearlyExceedances years inst =
      (Py.uniqueSorted years).flatMap (fun y => yearlyExceedances (years.filter (fun v => decide (v = y))) (instOfYear years inst y)) := by
  rw [yearly_split years inst hne hs hl, List.map_eq_flatMap]
  apply List.flatMap_congr
  intro y hy
  have hm : y ∈ years := ((yearly_years years hs).2 y).mp hy
  have hpos : 0 < (years.filter (fun v => decide (v = y))).length :=
    List.length_pos_of_mem (List.mem_filter.mpr ⟨hm, by simp⟩)
  obtain ⟨n, hn⟩ := Nat.exists_eq_succ_of_ne_zero (Nat.pos_iff_ne_zero.mp hpos)
  rw [filter_eq_replicate years y, hn, (yearly_single_year y n _).1, yearSum_eq]

example : yearlyExceedances [2000, 2000, 2001] [1, 1, 0] =
    [2000, 2001].flatMap (fun y => yearlyExceedances ([2000, 2000, 2001].filter (fun v => decide (v = y))) (instOfYear [2000, 2000, 2001] [1, 1, 0] y)) := by
  have h := yearly_by_single_years [2000, 2000, 2001] [1, 1, 0] (by decide) (by decide) (by decide)
  rwa [(uniqueCounts_sorted _ (by decide)).2, show (Py.runs [2000, 2000, 2001]).map (·.1) = [2000, 2001] by decide] at h

/-- **The record length does not matter**: a record tiled `k ≥ 1` times along time has the same exceedance probability
    of every (overall) threshold metric and the same mean — 10 years and the same 10 years repeated to 100 years give the
    same bias, trend and trend bias.  (Counts are unbounded integers here; that the real code does not overflow is
    decided on the long-record case of the harness.) -/
theorem record_length_independent (m : Metric) (k : Nat) (hk : 0 < k) (x : List Rat) (hx : x ≠ []) :
    m.prob (tile k x) = m.prob x ∧ Py.mean (tile k x) = Py.mean x := by
  have hk' : (k : Rat) ≠ 0 := by exact_mod_cast (Nat.pos_iff_ne_zero.mp hk)
  have hl : ((x.length : Nat) : Rat) ≠ 0 := by
    cases x with
    | nil => exact absurd rfl hx
    | cons a t => simp only [List.length_cons]; push_cast; positivity
  constructor
  · unfold Metric.prob Metric.instances
    rw [tile_map, tile_sum_int, tile_length]
    push_cast
    rw [mul_div_mul_left _ _ hk']
  · unfold Py.mean
    rw [tile_sum_rat, tile_length]
    push_cast
    rw [mul_div_mul_left _ _ hk']

example : (Metric.higher 1).prob (tile 3 [0, 2, 5]) = (Metric.higher 1).prob [0, 2, 5] :=
  (record_length_independent _ 3 (by decide) _ (by decide)).1

/-! ### what the public functions report: percent, days per year, row order, defaults -/

/-- the public conditional exceedance is `100 · chi`: a metric conditioned on itself gives 100 % -/
theorem chi_percent (i1 i2 : List Int) (h1 : Bin i1) (h2 : Bin i2) (h : i2.sum ≠ 0) :
    chiPercent i1 i2 = .ok ((((List.zipWith (· * ·) i1 i2).sum : Int) : Rat) / ((i2.sum : Int) : Rat) * 100) ∧
    (i1 = i2 → chiPercent i1 i2 = .ok 100) := by
  unfold chiPercent
  constructor
  · rw [chi_formula i1 i2 h1 h2 h]; rfl
  · rintro rfl
    rw [chi_self i1 h1 (lt_of_le_of_ne (bin_sum_nonneg i1 h1) (Ne.symm h))]
    simp [Except.map]

example : chiPercent [0, 1, 1] [0, 1, 1] = .ok 100 := (chi_percent _ _ (by unfold Bin; decide) (by unfold Bin; decide) (by decide)).2 rfl

/-- `calculate_bias_days_metrics`: `Bias = CM − Obs` column-wise, and a data set against itself has bias 0 -/
theorem days_metrics (yC iC yO iO : List Int) :
    (daysMetrics yC iC yO iO).2.2 = (daysMetrics yC iC yO iO).1 - (daysMetrics yC iC yO iO).2.1 ∧
    (daysMetrics yC iC yO iO).1 = meanYearlyExceedances yC iC ∧ (daysMetrics yC iC yO iO).2.1 = meanYearlyExceedances yO iO ∧
    (daysMetrics yO iO yO iO).2.2 = 0 := by
  unfold daysMetrics
  exact ⟨rfl, rfl, rfl, sub_self _⟩

/-- **Rows by position**: row `ki · n + j` of a result frame is entry `j` (of `statistics ++ metrics`) for debiaser
    `ki`, carrying that entry's own quantity — for every labelling, in particular when two metrics share a name. -/
theorem frame_row {κ ν} (n : Nat) (label : Nat → String) (val : κ → Nat → ν) :
    ∀ (keys : List κ) (ki j : Nat) (hk : ki < keys.length), j < n →
      (frameRows keys n label val)[ki * n + j]? = some (keys[ki], label j, val keys[ki] j)
  | [], ki, _, hk, _ => by simp at hk
  | k :: ks, 0, j, _, hj => by
    rw [frameRows_cons, List.getElem?_append_left (by simpa using hj)]
    simp [List.getElem?_map, List.getElem?_range hj]
  | k :: ks, ki + 1, j, hk, hj => by
    rw [frameRows_cons, List.getElem?_append_right (by simp; nlinarith)]
    have e : (ki + 1) * n + j - ((List.range n).map (fun j => (k, label j, val k j))).length = ki * n + j := by
      simp only [List.length_map, List.length_range]; rw [Nat.add_mul]; omega
    rw [e, frame_row n label val ks ki j (by simpa using hk) hj]
    simp

theorem frame_length {κ ν} (n : Nat) (label : Nat → String) (val : κ → Nat → ν) (keys : List κ) :
    (frameRows keys n label val).length = keys.length * n := by
  induction keys with
  | nil => simp [frameRows]
  | cons k ks ih => rw [frameRows_cons, List.length_append, ih]; simp [Nat.add_mul, Nat.add_comm]

/-- the reported quantities do not depend on the labels at all -/
theorem frame_values_label_oblivious {κ ν} (n : Nat) (label label' : Nat → String) (val : κ → Nat → ν) (keys : List κ) :
    (frameRows keys n label val).map (fun r => (r.1, r.2.2)) = (frameRows keys n label' val).map (fun r => (r.1, r.2.2)) := by
  induction keys with
  | nil => rfl
  | cons k ks ih => rw [frameRows_cons, frameRows_cons, List.map_append, List.map_append, ih]; simp

example : (frameRows ["raw", "bc"] 3 (fun _ => "unknown") (fun k j => (k, j)))[1 * 3 + 2]? = some ("bc", "unknown", ("bc", 2)) :=
  frame_row 3 _ _ ["raw", "bc"] 1 2 (by decide) (by decide)

/-- **Documented defaults** (tier A, `Lemmas.GenEvaluate.defaults`): `statistics = ["mean", 0.05, 0.95]` for the three
    functions that take it, additive trends, percentage bias, no metrics. -/
theorem documented_defaults :
    (∀ f ∈ ["calculate_marginal_bias", "calculate_future_trend_bias", "calculate_future_trend"],
      (f, "statistics", "['mean', 0.05, 0.95]") ∈ Gen.EvaluateConfig.defaults) ∧
    ("calculate_future_trend_bias", "trend_type", "'additive'") ∈ Gen.EvaluateConfig.defaults ∧
    ("calculate_future_trend", "trend_type", "'additive'") ∈ Gen.EvaluateConfig.defaults ∧
    ("calculate_marginal_bias", "percentage_or_absolute", "'percentage'") ∈ Gen.EvaluateConfig.defaults := by
  rw [Lemmas.GenEvaluate.defaults]
  decide

end Props.C20
