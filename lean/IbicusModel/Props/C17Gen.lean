/-
  C17 on the code itself: the statements of `Props/C17.lean` transported along the tier-A equalities of
  `Lemmas/GenPrecip.lean` onto the definitions regenerated from /repo's current source (`Gen.Precip.*`).
  Property theorems only.

  `cdf ppf : Rat → P → Rat` is the amounts distribution (`distribution.cdf / ppf (·, *prm)`), `U lo hi` the draw
  `np.random.uniform(lo, hi)` at this position.  numpy's contract for the draw is a hypothesis:
  `UniformIn U` — `lo ≤ U lo hi ≤ hi` for `lo ≤ hi` (closed at `hi` to cover the degenerate `uniform(0, 0)`), and
  `UniformOpen U` — `lo ≤ U lo hi < hi` for `lo < hi`.
-/
import IbicusModel.Props.C17
import IbicusModel.Lemmas.GenPrecip

namespace Props.C17Gen
open Model.Precip Lemmas.Precip Lemmas.GenPrecip

def UniformIn (U : Rat → Rat → Rat) : Prop := ∀ lo hi, lo ≤ hi → lo ≤ U lo hi ∧ U lo hi ≤ hi

def UniformOpen (U : Rat → Rat → Rat) : Prop := ∀ lo hi, lo < hi → lo ≤ U lo hi ∧ U lo hi < hi

/-- the hypotheses are satisfiable: the midpoint draw -/
theorem mid_uniform : UniformIn (fun lo hi => (lo + hi) / 2) ∧ UniformOpen (fun lo hi => (lo + hi) / 2) := by
  constructor <;> intro lo hi h <;> constructor <;> linarith

/-! ## hurdle model -/

/-- **the regenerated `fit` returns the observed fraction of zeros as `p0`** and hands the non-zero values to the amounts fit -/
theorem hurdle_fit_p0 {P K : Type} (dist_fit : List Rat → Option K → P) (kw : Option K) (data : List Rat) (hne : data ≠ []) :
    (Gen.Precip.hurdle_fit dist_fit kw data).1 = (zeros data : Rat) / (data.length : Rat) ∧
    (Gen.Precip.hurdle_fit dist_fit kw data).2 = dist_fit (data.filter (fun v => decide (v ≠ 0))) kw := by
  rw [hurdle_fit]
  exact ⟨Props.C17.hurdle_p0 data hne, rfl⟩

example : (Gen.Precip.hurdle_fit (fun (l : List Rat) (_ : Option Unit) => l.length) none [0, 3, 0, 1 / 2]).1 = 1 / 2 := by
  decide +kernel  -- concrete witness

/-- **wet values: `ppf (cdf x) = x`** on the regenerated code, with or without randomisation, whatever the draws -/
theorem hurdle_wet_roundtrip {P : Type} (cdf ppf : Rat → P → Rat) (prm : P) (hA : AmountLaws (applied cdf ppf prm))
    (U : Rat → Rat → Rat) (rand : Bool) (p0 x : Rat) (hp1 : p0 < 1) (hx : 0 < x) :
    Gen.Precip.hurdle_cdf cdf U rand x (p0, prm) > p0 ∧
    Gen.Precip.hurdle_ppf ppf (Gen.Precip.hurdle_cdf cdf U rand x (p0, prm)) (p0, prm) = x := by
  rw [hurdle_cdf cdf ppf, hurdle_ppf cdf ppf]
  exact Props.C17.hurdle_wet_roundtrip _ hA p0 hp1 rand _ x hx

/-- **dry values come back as exactly 0** on the regenerated code, with or without randomisation, for every draw in the
    range the code asks for (`uniform(0, p0)`) -/
theorem hurdle_dry {P : Type} (cdf ppf : Rat → P → Rat) (prm : P) (U : Rat → Rat → Rat) (hU : UniformIn U) (rand : Bool)
    (p0 : Rat) (h0 : 0 ≤ p0) :
    Gen.Precip.hurdle_ppf ppf (Gen.Precip.hurdle_cdf cdf U rand 0 (p0, prm)) (p0, prm) = 0 := by
  rw [hurdle_cdf cdf ppf, hurdle_ppf cdf ppf]
  exact Props.C17.hurdle_dry_any_family _ p0 _ rand (hU 0 p0 h0).2

/-- cdf values in `[0,1]`, wet values never below `p0` nor below a dry day's value -/
theorem hurdle_cdf_range {P : Type} (cdf ppf : Rat → P → Rat) (prm : P) (hA : AmountLaws (applied cdf ppf prm))
    (U : Rat → Rat → Rat) (hU : UniformIn U) (rand : Bool) (p0 x : Rat) (h0 : 0 ≤ p0) (h1 : p0 ≤ 1) (hx : 0 ≤ x) :
    0 ≤ Gen.Precip.hurdle_cdf cdf U rand x (p0, prm) ∧ Gen.Precip.hurdle_cdf cdf U rand x (p0, prm) ≤ 1 := by
  rw [hurdle_cdf cdf ppf]
  exact Props.C17.hurdle_cdf_range _ hA p0 h0 h1 rand _ x (hU 0 p0 h0).1 (hU 0 p0 h0).2 hx

theorem hurdle_wet_above_dry {P : Type} (cdf ppf : Rat → P → Rat) (prm : P) (hA : AmountLaws (applied cdf ppf prm))
    (U U' : Rat → Rat → Rat) (hU' : UniformIn U') (rand : Bool) (p0 x : Rat) (h0 : 0 ≤ p0) (h1 : p0 ≤ 1) (hx : 0 < x) :
    p0 ≤ Gen.Precip.hurdle_cdf cdf U rand x (p0, prm) ∧
    Gen.Precip.hurdle_cdf cdf U' rand 0 (p0, prm) ≤ Gen.Precip.hurdle_cdf cdf U rand x (p0, prm) := by
  rw [hurdle_cdf cdf ppf, hurdle_cdf cdf ppf]
  exact Props.C17.hurdle_wet_above_dry _ hA p0 h1 rand _ _ x (hU' 0 p0 h0).2 hx

theorem hurdle_cdf_mono_wet {P : Type} (cdf ppf : Rat → P → Rat) (prm : P) (hA : AmountLaws (applied cdf ppf prm))
    (U U' : Rat → Rat → Rat) (rand : Bool) (p0 x y : Rat) (h1 : p0 < 1) (hx : 0 < x) (hxy : x < y) :
    Gen.Precip.hurdle_cdf cdf U rand x (p0, prm) < Gen.Precip.hurdle_cdf cdf U' rand y (p0, prm) := by
  rw [hurdle_cdf cdf ppf, hurdle_cdf cdf ppf]
  exact Props.C17.hurdle_cdf_mono_wet _ hA p0 h1 rand _ _ x y hx hxy

/-! ## ignore-zeros model -/

/-- zero ↦ `-∞` ↦ 0, whatever `distribution.ppf` returns at `-∞` -/
theorem iz_dry {P : Type} (cdf : Rat → P → Rat) (ppfE : ERat → P → Rat) (prm : P) :
    Gen.Precip.iz_cdf cdf 0 prm = .negInf ∧ Gen.Precip.iz_ppf ppfE (Gen.Precip.iz_cdf cdf 0 prm) prm = 0 := by
  have h := iz_ppf cdf (fun r p => ppfE (.fin r) p) ppfE prm (fun _ => rfl)
  rw [h, iz_cdf cdf (fun r p => ppfE (.fin r) p)]
  exact ⟨Props.C17.iz_cdf_zero _, Props.C17.iz_dry _⟩

theorem iz_wet_roundtrip {P : Type} (cdf ppf : Rat → P → Rat) (ppfE : ERat → P → Rat) (prm : P)
    (hE : ∀ r, ppfE (.fin r) prm = ppf r prm) (hA : AmountLaws (applied cdf ppf prm)) (x : Rat) (hx : 0 < x) :
    (∃ q, Gen.Precip.iz_cdf cdf x prm = .fin q ∧ 0 < q ∧ q < 1) ∧
    Gen.Precip.iz_ppf ppfE (Gen.Precip.iz_cdf cdf x prm) prm = x := by
  rw [iz_ppf cdf ppf ppfE prm hE, iz_cdf cdf ppf]
  exact Props.C17.iz_wet_roundtrip _ hA x hx

/-! ## left-censored gamma model -/

theorem cens_wet_roundtrip {P : Type} (cdf ppf : Rat → P → Rat) (prm : P) (hA : AmountLaws (applied cdf ppf prm))
    (U : Rat → Rat → Rat) (thr : Rat) (hthr : 0 < thr) (censor : Bool) (x : Rat) (hx : thr ≤ x) :
    Gen.Precip.cens_ppf ppf thr censor (Gen.Precip.cens_cdf cdf U thr x prm) prm = x := by
  rw [cens_cdf cdf ppf, cens_ppf cdf ppf]
  exact Props.C17.cens_wet_roundtrip _ hA thr hthr censor _ x hx

/-- **values below the threshold come back as exactly 0** (`censor_in_ppf = True`) for every draw in the range the code asks
    for (`uniform(0, thr)`, half-open); the draw `0` needs `ppf (cdf 0) = 0` of the family -/
theorem cens_dry {P : Type} (cdf ppf : Rat → P → Rat) (prm : P) (hA : AmountLaws (applied cdf ppf prm))
    (hinv0 : ppf (cdf 0 prm) prm = 0) (U : Rat → Rat → Rat) (hU : UniformOpen U) (thr : Rat) (hthr : 0 < thr) (x : Rat)
    (hx : x < thr) : Gen.Precip.cens_ppf ppf thr true (Gen.Precip.cens_cdf cdf U thr x prm) prm = 0 := by
  rw [cens_cdf cdf ppf, cens_ppf cdf ppf]
  obtain ⟨h0, h1⟩ := hU 0 thr hthr
  rcases lt_or_eq_of_le h0 with h | h
  · exact Props.C17.cens_dry _ hA thr _ x h h1 hx
  · rw [← h]
    exact Props.C17.cens_dry_u_zero _ hinv0 thr hthr x hx

theorem cens_cdf_mono_wet {P : Type} (cdf ppf : Rat → P → Rat) (prm : P) (hA : AmountLaws (applied cdf ppf prm))
    (U U' : Rat → Rat → Rat) (thr : Rat) (hthr : 0 < thr) (x y : Rat) (hx : thr ≤ x) (hxy : x < y) :
    Gen.Precip.cens_cdf cdf U thr x prm < Gen.Precip.cens_cdf cdf U' thr y prm := by
  rw [cens_cdf cdf ppf, cens_cdf cdf ppf]
  exact Props.C17.cens_cdf_mono_wet _ hA thr hthr _ _ x y hx hxy

/-- the data split of the regenerated `fit`: the optimiser sees the values strictly above the threshold and the number of
    values at or below it -/
theorem cens_fit_split {P : Type} (inner : List Rat → Int → Rat → P) (thr : Rat) (data : List Rat) :
    Gen.Precip.cens_fit inner thr data =
      inner (data.filter (fun v => decide (v > thr))) (((data.filter (fun v => decide (v ≤ thr))).length : Nat) : Int) thr := by
  rw [cens_fit]
  obtain ⟨h1, _, h3⟩ := Props.C17.cens_fit_split thr data
  rw [h1, h3]

/-! ## non-vacuity: the rational family as a parametrised distribution (`prm` = scale) -/

example : AmountLaws (applied (fun x (s : Rat) => ratCdf 0 s x) (fun p (s : Rat) => ratPpf 0 s p) 2) :=
  Props.C17.ratFam_laws 2 (by norm_num)

example : Gen.Precip.hurdle_ppf (fun p (s : Rat) => ratPpf 0 s p)
    (Gen.Precip.hurdle_cdf (fun x (s : Rat) => ratCdf 0 s x) (fun lo hi => (lo + hi) / 2) true 3 (1 / 4, 2)) (1 / 4, 2) = 3 :=
  (hurdle_wet_roundtrip (fun x (s : Rat) => ratCdf 0 s x) (fun p (s : Rat) => ratPpf 0 s p) 2
    (Props.C17.ratFam_laws 2 (by norm_num)) _ true (1 / 4) 3 (by norm_num) (by norm_num)).2

end Props.C17Gen
