/-
  C01 — bias removal: debiasing the reference period itself (`cm_future = cm_hist`) reproduces the observed
  statistics.  Property theorems only, on the shared layer-N models `Model.Debiasers` / `Model.Isimip`; exact
  rational arithmetic, one window (window-free) unless said.

  What is proved exactly: LinearScaling (mean), DeltaChange (identity), parametric QuantileMapping / ECDFM / ISIMIP
  additive step 6 (location–scale map, hence fit = fit of the observations: mean **and** calibrated spread),
  QuantileDeltaMapping absolute (mean, symmetric family), non-parametric QuantileMapping and CDFt at equal sample
  sizes (the observed multiset), ScaledDistributionMapping absolute (legacy counterexample; the collapse of its
  recurrence-interval scaling).
  What is **not** proved (marked `_partial`, decided only by the search of `harness/c01.py`): the quantitative clause
  "at most a small fraction of the original bias" for the empirical-CDF methods at unequal sizes and for seasonal
  windows.  Proved instead: the outputs lie in the range of the target sample, and the exact formulas per window.
-/
import IbicusModel.Lemmas.C01
import IbicusModel.Props.C03

namespace Props.C01
open Model.Stats Model.Family Model.Debiasers Model.Skeleton Model.Windows
open Lemmas.Stats Lemmas.Family Lemmas.C03 Lemmas.C01

/-! ## 1. LinearScaling: the mean of the corrected reference period is the observed mean -/

theorem ls_mean_add (obs H : List Rat) (hH : H ≠ []) : mean (linearScaling .additive obs H H) = mean obs := by
  unfold linearScaling
  rw [mean_map_sub _ _ hH]; ring

/-- multiplicative, guard `mean H ≠ 0` (the code divides by it) -/
theorem ls_mean_mult (obs H : List Rat) (hm : mean H ≠ 0) : mean (linearScaling .multiplicative obs H H) = mean obs := by
  unfold linearScaling
  rw [mean_map_mul]; field_simp

/-- both delta types under the model's `lsGuard` -/
theorem ls_mean (d : DeltaType) (obs H : List Rat) (hg : lsGuard d obs H) : mean (linearScaling d obs H H) = mean obs := by
  cases d with
  | additive => exact ls_mean_add obs H hg.2.1
  | multiplicative => exact ls_mean_mult obs H (hg.2.2 rfl)

example : mean (linearScaling .additive [1, 2, 6] [10, 14] [10, 14]) = mean [1, 2, 6] := ls_mean_add _ _ (by simp)
example : mean (linearScaling .multiplicative [1, 2, 6] [10, 14] [10, 14]) = mean [1, 2, 6] :=
  ls_mean .multiplicative _ _ (by decide +kernel)
-- the residual bias is really removed, not merely bounded: before the correction the bias is 9
example : mean [10, 14] - mean [1, 2, 6] = 9 := by decide +kernel

/-! ## 2. DeltaChange with an unchanged model returns the observations (= `Props.C03.dc_identity`) -/

theorem dc_id (d : DeltaType) (obs H : List Rat) (hg : dcGuard d H H) : deltaChange d obs H H = obs :=
  Props.C03.dc_identity d obs H hg

/-! ## 3. Parametric QuantileMapping and ECDFM over any location–scale family: the location–scale map -/

/-- **parametric QM, `F = H`, no clipping**: `out_i = loc_obs + (scale_obs / scale_H)(x_i − loc_H)`
    (every detrending mode: the detrending is the identity when `F = H`; multiplicative guard `mean H ≠ 0`) -/
theorem qm_param_fit {Fam : LocScaleFam} (L : LocScaleLaws Fam) (t : Rat) (d : Detrending) (obs H : List Rat)
    (hm : d = .multiplicative → mean H ≠ 0) (hc : NoClip Fam t (Fam.fit H) H) :
    qmParam Fam.toFamily t d obs H H = H.map (lsMap (Fam.loc obs) (Fam.scale obs) (Fam.loc H) (Fam.scale H)) := by
  unfold qmParam
  rw [quantileMapping_self _ d obs H hm, standardQMParam_noclip L t H obs H hc]
  rfl

/-- … hence **the fit of the output is the fit of the observations — mean and calibrated spread**
    (guards: both fitted scales positive) -/
theorem qm_param_fit_eq {Fam : LocScaleFam} (L : LocScaleLaws Fam) (t : Rat) (d : Detrending) (obs H : List Rat)
    (hm : d = .multiplicative → mean H ≠ 0) (hc : NoClip Fam t (Fam.fit H) H) (hH : H ≠ [])
    (hso : 0 < Fam.scale obs) (hsh : 0 < Fam.scale H) :
    Fam.fit (qmParam Fam.toFamily t d obs H H) = Fam.fit obs := by
  rw [qm_param_fit L t d obs H hm hc, fit_lsMap L _ _ H hH hso hsh]
  rfl

/-- **ECDFM, `F = H`, no clipping**: the same map (`x + ppf_obs(cdf_H x) − ppf_H(cdf_H x) = ppf_obs(cdf_H x)`) -/
theorem ecdfm_fit {Fam : LocScaleFam} (L : LocScaleLaws Fam) (t : Rat) (obs H : List Rat)
    (hs : Fam.scale H ≠ 0) (hc : NoClip Fam t (Fam.fit H) H) :
    ecdfm Fam.toFamily t obs H H = H.map (lsMap (Fam.loc obs) (Fam.scale obs) (Fam.loc H) (Fam.scale H)) := by
  unfold ecdfm
  apply List.map_congr_left
  intro x hx
  obtain ⟨h0, h1⟩ := hc x hx
  simp only [LocScaleFam.toFamily]
  rw [thresholdCdf_id t _ h0 h1, ppf_cdf L (Fam.fit H) hs x]
  unfold lsMap LocScaleFam.ppf LocScaleFam.cdf LocScaleFam.fit
  simp only []
  rw [L.Ginv_G]
  ring

theorem ecdfm_fit_eq {Fam : LocScaleFam} (L : LocScaleLaws Fam) (t : Rat) (obs H : List Rat)
    (hc : NoClip Fam t (Fam.fit H) H) (hH : H ≠ []) (hso : 0 < Fam.scale obs) (hsh : 0 < Fam.scale H) :
    Fam.fit (ecdfm Fam.toFamily t obs H H) = Fam.fit obs := by
  rw [ecdfm_fit L t obs H (ne_of_gt hsh) hc, fit_lsMap L _ _ H hH hso hsh]
  rfl

/-- for the executable family (`loc` = mean, `scale` = mean absolute deviation): observed mean and observed spread -/
theorem qm_param_mean_spread_ratSigmoid (t : Rat) (d : Detrending) (obs H : List Rat)
    (hm : d = .multiplicative → mean H ≠ 0) (hc : NoClip ratSigmoid t (ratSigmoid.fit H) H) (hH : H ≠ [])
    (hso : 0 < meanAbsDev obs) (hsh : 0 < meanAbsDev H) :
    mean (qmParam ratSigmoid.toFamily t d obs H H) = mean obs ∧
      meanAbsDev (qmParam ratSigmoid.toFamily t d obs H H) = meanAbsDev obs := by
  have := qm_param_fit_eq ratSigmoid_laws t d obs H hm hc hH hso hsh
  exact ⟨congrArg Prod.fst this, congrArg Prod.snd this⟩

-- non-vacuity: all guards hold on a concrete biased instance (bias +10, twice the spread)
example : mean (qmParam ratSigmoid.toFamily (1 / 100) .additive [1, 2, 6] [10, 14, 18, 22] [10, 14, 18, 22]) = mean [1, 2, 6] :=
  (qm_param_mean_spread_ratSigmoid _ _ _ _ (by simp) (by decide +kernel) (by simp) (by decide +kernel) (by decide +kernel)).1
example : NoClip ratSigmoid (1 / 100) (ratSigmoid.fit [10, 14, 18, 22]) [10, 14, 18, 22] := by decide +kernel
-- the clipped branch is different (documented `cdf_threshold` behaviour): with a large threshold the extremes are pulled in
example : ¬ NoClip ratSigmoid (1 / 4) (ratSigmoid.fit [10, 14, 18, 22]) [10, 14, 18, 22] := by decide +kernel

/-! ## 4. Non-parametric QuantileMapping at equal sample sizes: exactly the observed multiset -/

/-- **non-parametric QM, `F = H`, `|obs| = |H|`, `H` tie-free**: the output is the observations re-ordered like
    `cm_hist` (rank transfer) … -/
theorem qm_nonparam_sortLike (d : Detrending) (obs H : List Rat) (hlen : obs.length = H.length) (hn : 2 ≤ H.length)
    (hH : H.Nodup) (hm : d = .multiplicative → mean H ≠ 0) :
    qmNonparam d obs H H = sortLike obs H := by
  unfold qmNonparam
  rw [quantileMapping_self _ d obs H hm]
  unfold standardQMNonparam
  rw [qmapExtrap_self]
  exact qmap_equal_sizes_sortLike_all (.step, .inverted_cdf) (by simp [exactPairs]) H obs hlen.symm hn hH

/-- … hence **exactly the observed multiset of values** -/
theorem qm_nonparam_perm (d : Detrending) (obs H : List Rat) (hlen : obs.length = H.length) (hn : 2 ≤ H.length)
    (hH : H.Nodup) (hm : d = .multiplicative → mean H ≠ 0) :
    (qmNonparam d obs H H).Perm obs := by
  rw [qm_nonparam_sortLike d obs H hlen hn hH hm]
  exact sortLike_perm obs H hlen

/-- consequence: observed mean (and every other symmetric statistic) -/
theorem qm_nonparam_mean (d : Detrending) (obs H : List Rat) (hlen : obs.length = H.length) (hn : 2 ≤ H.length)
    (hH : H.Nodup) (hm : d = .multiplicative → mean H ≠ 0) :
    mean (qmNonparam d obs H H) = mean obs :=
  mean_perm (qm_nonparam_perm d obs H hlen hn hH hm)

example : (qmNonparam .additive [5, 1, 3] [20, 40, 30] [20, 40, 30]).Perm [5, 1, 3] :=
  qm_nonparam_perm _ _ _ rfl (by decide) (by decide) (by simp)

/-! ## 5. CDFt (default methods) at equal sample sizes: clamped rank transfer -/

/-- the shifted historical sample of `_apply_CDFt_mapping`; with `cm_future = cm_hist` the shifted future sample
    is the same list -/
theorem cdftShifted_same (d : DeltaShift) (obs H : List Rat) :
    (cdftShifted d obs H H).2 = (cdftShifted d obs H H).1 := by
  cases d <;> rfl

/-- **CDFt, `F = H`, `|obs| = |H|`, default pair, shifted sample `H'` tie-free**: every output is the observation of
    the same rank, clamped to the range of the shifted model sample `H' = H + (mean obs − mean H)`
    (resp. `H · mean obs / mean H`). -/
theorem cdft_rank_transfer_clamped (d : DeltaShift) (obs H : List Rat) (hlen : obs.length = H.length) (hn : 2 ≤ H.length)
    (hH' : (cdftShifted d obs H H).1.Nodup) :
    cdftMapping d .linear .linear obs H H =
      (sortLike obs (cdftShifted d obs H H).1).map
        (fun y => max (minQ (cdftShifted d obs H H).1) (min (maxQ (cdftShifted d obs H H).1) y)) := by
  have hl' : (cdftShifted d obs H H).1.length = H.length := by cases d <;> simp [cdftShifted]
  unfold cdftMapping cdftMappingG
  simp only []
  rw [cdftShifted_same]
  generalize (cdftShifted d obs H H).1 = H' at hH' hl' ⊢
  have h12 : cdftStage2 (iecdf1 .linear) obs (cdftStage1 (ecdf1 .linear) H') = sortLike obs H' := by
    have := qmap_equal_sizes_sortLike_all (.linear, .linear) (by simp [exactPairs]) H' obs (by omega) (by omega) hH'
    rw [← this, qmap_eq_map]
    unfold cdftStage1 cdftStage2 qmap1
    rw [List.map_map]; rfl
  rw [h12]
  unfold cdftStage3 cdftStage4
  rw [List.map_map]
  apply List.map_congr_left
  intro y _
  simp only [Function.comp, ecdf1_linear]
  exact iecdfLinear_ecdfLin_clamp hH' (by omega) y

/-- **with the range guard** (`range obs ⊆ range H'`) the clamp is inactive: the output is the observations
    re-ordered like the model — exactly the observed multiset -/
theorem cdft_perm (d : DeltaShift) (obs H : List Rat) (hlen : obs.length = H.length) (hn : 2 ≤ H.length)
    (hH' : (cdftShifted d obs H H).1.Nodup)
    (hr : ∀ v ∈ obs, minQ (cdftShifted d obs H H).1 ≤ v ∧ v ≤ maxQ (cdftShifted d obs H H).1) :
    cdftMapping d .linear .linear obs H H = sortLike obs (cdftShifted d obs H H).1 ∧
      (cdftMapping d .linear .linear obs H H).Perm obs := by
  have hl' : (cdftShifted d obs H H).1.length = H.length := by cases d <;> simp [cdftShifted]
  have hp := sortLike_perm obs (cdftShifted d obs H H).1 (by omega)
  have h1 : cdftMapping d .linear .linear obs H H = sortLike obs (cdftShifted d obs H H).1 := by
    rw [cdft_rank_transfer_clamped d obs H hlen hn hH']
    apply map_eq_self
    intro y hy
    obtain ⟨h0, h1⟩ := hr y (hp.mem_iff.mp hy)
    rw [min_eq_right h1, max_eq_right h0]
  exact ⟨h1, h1 ▸ hp⟩

/-- additive shift: `H'` is tie-free as soon as `H` is -/
theorem cdftShifted_additive_nodup (obs H : List Rat) (hH : H.Nodup) : (cdftShifted .additive obs H H).1.Nodup := by
  simp only [cdftShifted]
  exact hH.map (fun a b h => by linarith)

example : (cdftMapping .additive .linear .linear [4, 2, 3] [20, 26, 22] [20, 26, 22]).Perm [4, 2, 3] := by
  have h : (cdftShifted .additive [4, 2, 3] [20, 26, 22] [20, 26, 22]).1 = [1 / 3, 19 / 3, 7 / 3] := by decide +kernel
  have hmin : minQ ([1 / 3, 19 / 3, 7 / 3] : List Rat) = 1 / 3 := by decide +kernel
  have hmax : maxQ ([1 / 3, 19 / 3, 7 / 3] : List Rat) = 19 / 3 := by decide +kernel
  refine (cdft_perm .additive [4, 2, 3] [20, 26, 22] rfl (by decide) (cdftShifted_additive_nodup _ _ (by decide)) ?_).2
  rw [h, hmin, hmax]
  decide +kernel

/-! ## 6. The windowed / unequal-length clause — *partial*

Full statement (NOT proved; decided only by the search in `harness/c01.py`, violation iff the residual mean bias
exceeds `max(tol, 0.25·|bias|)` on samples with at least 200 values):

    for the empirical-CDF methods (CDFt, non-parametric QuantileMapping) with `|obs| ≠ |H|`, and for every debiaser in
    seasonal running-window mode, `|mean (f obs H H) − mean obs| ≤ ε · |mean H − mean obs|` with a small `ε`
    (an `O(range / min(n, m))` bound for means of interpolated quantiles).

Proved: the outputs of the rank-transfer methods lie in the range of the target sample (so the residual bias is
bounded by the observed range, whatever the original bias), and — by the sections above and the lifts of
`Props.C03` / `Lemmas.Pointwise.applyLocationRW_value` — the exact formulas on every window. -/

/-- non-parametric QM, `F = H`, any lengths: every output lies in `[min obs, max obs]` -/
theorem out_in_obs_range_partial (d : Detrending) (obs H : List Rat) (ho : obs ≠ [])
    (hm : d = .multiplicative → mean H ≠ 0) :
    ∀ v ∈ qmNonparam d obs H H, minQ obs ≤ v ∧ v ≤ maxQ obs := by
  unfold qmNonparam
  rw [quantileMapping_self _ d obs H hm]
  unfold standardQMNonparam
  rw [qmapExtrap_self, qmap_eq_map]
  intro v hv
  obtain ⟨x, _, rfl⟩ := List.mem_map.mp hv
  exact qmap_step_inverted_range H obs ho x

/-- CDFt (default pair), any lengths, any `cm_future`: every output lies in the range of the *shifted future
    sample* (for `F = H`: of `H + mean obs − mean H`, a sample with the observed mean) -/
theorem cdft_out_in_shifted_range_partial (d : DeltaShift) (obs H F : List Rat) (hF : F ≠ []) :
    ∀ v ∈ cdftMapping d .linear .linear obs H F,
      minQ (cdftShifted d obs H F).2 ≤ v ∧ v ≤ maxQ (cdftShifted d obs H F).2 := by
  have hne : (cdftShifted d obs H F).2 ≠ [] := by cases d <;> simpa [cdftShifted] using hF
  unfold cdftMapping cdftMappingG cdftStage4
  intro v hv
  obtain ⟨p, _, rfl⟩ := List.mem_map.mp hv
  unfold iecdf1 iecdfSorted
  simp only []
  rw [quantileLinear_eq]
  have := clampLerp_range (sortQ_sorted (cdftShifted d obs H F).2) (sortQ_ne_nil hne)
    ((((sortQ (cdftShifted d obs H F).2).length : Rat) - 1) * p)
  rw [sortQ_head _ hne, sortQ_length, sortQ_last _ hne] at this
  rw [sortQ_length]
  exact this

/-- the shifted sample has the observed mean (additive shift) — why the clamp range of CDFt is centred correctly -/
theorem cdftShifted_mean (obs H : List Rat) (hH : H ≠ []) :
    mean (cdftShifted .additive obs H H).1 = mean obs := by
  simp only [cdftShifted]
  rw [mean_map_add _ _ hH]; ring

end Props.C01
