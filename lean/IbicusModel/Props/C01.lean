/-
  C01 — bias removal: debiasing the reference period itself (`cm_future = cm_hist`) reproduces the observed
  statistics.  Property theorems only, on the shared layer-N models `Model.Debiasers` / `Model.Isimip`; exact
  rational arithmetic, one window (window-free) unless said.

  What is proved exactly: LinearScaling (mean), DeltaChange (identity), parametric QuantileMapping / ECDFM / ISIMIP
  additive step 6 (location–scale map, hence fit = fit of the observations: mean **and** calibrated spread),
  QuantileDeltaMapping absolute (mean, symmetric family), non-parametric QuantileMapping and CDFt at equal sample
  sizes (the observed multiset), ScaledDistributionMapping absolute (legacy counterexample; the collapse of its
  recurrence-interval scaling).
  What is **not** proved (marked `_partial`, decided only by the search of `harness/c01.py`): the quantitative clause
  "at most a small fraction of the original bias" for the empirical-CDF methods at unequal sizes and for seasonal
  windows.  Proved instead: the outputs lie in the range of the target sample, and the exact formulas per window.
  Added later (§7, §8): for ONE window (window-free mode) the unequal-size clause IS proved with an explicit constant —
  non-parametric QuantileMapping: `−range(obs)/n ≤ mean out − mean obs ≤ range(obs)/m` (`qm_nonparam_mean_bounds`);
  CDFt (default pair) under the range guard: `|mean out − mean obs| ≤ range(obs)(1/n + 1/m)` (`cdft_mean_bound`).
  Still not proved: seasonal running windows (the lift of these bounds through the window skeleton), CDFt when the
  observations reach outside the shifted model sample (there the bound is false).
-/
import IbicusModel.Lemmas.C01
import IbicusModel.Lemmas.C01Isimip
import IbicusModel.Lemmas.C01Sdm
import IbicusModel.Lemmas.C01Bound
import IbicusModel.Lemmas.C01BoundCdft
import IbicusModel.Props.C03

namespace Props.C01
open Model.Stats Model.Family Model.Debiasers Model.Skeleton Model.Windows
open Lemmas.Stats Lemmas.Family Lemmas.C03 Lemmas.C01

/-! ## 1. LinearScaling: the mean of the corrected reference period is the observed mean -/

theorem ls_mean_add (obs H : List Rat) (_hO : obs ≠ []) (hH : H ≠ []) : mean (linearScaling .additive obs H H) = mean obs := by
  unfold linearScaling
  rw [mean_map_sub _ _ hH]; ring

/-- multiplicative, guard `mean H ≠ 0` (the code divides by it) -/
theorem ls_mean_mult (obs H : List Rat) (hm : mean H ≠ 0) : mean (linearScaling .multiplicative obs H H) = mean obs := by
  unfold linearScaling
  rw [mean_map_mul]; field_simp

/-- both delta types under the model's `lsGuard` -/
theorem ls_mean (d : DeltaType) (obs H : List Rat) (hg : lsGuard d obs H) : mean (linearScaling d obs H H) = mean obs := by
  cases d with
  | additive => exact ls_mean_add obs H hg.1 hg.2.1
  | multiplicative => exact ls_mean_mult obs H (hg.2.2 rfl)

example : mean (linearScaling .additive [1, 2, 6] [10, 14] [10, 14]) = mean [1, 2, 6] := ls_mean_add _ _ (by simp) (by simp)
example : mean (linearScaling .multiplicative [1, 2, 6] [10, 14] [10, 14]) = mean [1, 2, 6] :=
  ls_mean .multiplicative _ _ (by decide +kernel)
-- the residual bias is really removed, not merely bounded: before the correction the bias is 9
example : mean [10, 14] - mean [1, 2, 6] = 9 := by decide +kernel

/-! ## 2. DeltaChange with an unchanged model returns the observations (= `Props.C03.dc_identity`) -/

theorem dc_id (d : DeltaType) (obs H : List Rat) (hg : dcGuard d H H) : deltaChange d obs H H = obs :=
  Props.C03.dc_identity d obs H hg

/-- … in running-window mode as well (every step assigned; multiplicative guard on every window) -/
theorem dc_id_rw (dt : DeltaType) (L S h : Int) (dO dH : List Int) (obs H : List Rat)
    (hS : S = 2 * h + 1) (hh : 0 ≤ h) (hSL : S ≤ L) (hlen : dO.length = obs.length) (hr : ∀ d ∈ dO, 1 ≤ d ∧ d ≤ 366)
    (hne : ∀ c ∈ useCenters S dO, take H (idxWindow L dH c) ≠ [])
    (hm : dt = .multiplicative → ∀ c ∈ useCenters S dO, mean (take H (idxWindow L dH c)) ≠ 0) :
    applyLocationDC (winOf (deltaChange dt)) L S dO dH dH obs H H = .ok (obs.map some) :=
  Props.C03.dc_identity_rw dt L S h dO dH obs H hS hh hSL hlen hr hne hm

/-! ## 3. Parametric QuantileMapping and ECDFM over any location–scale family: the location–scale map -/

/-- **parametric QM, `F = H`, no clipping**: `out_i = loc_obs + (scale_obs / scale_H)(x_i − loc_H)`
    (every detrending mode: the detrending is the identity when `F = H`; multiplicative guard `mean H ≠ 0`) -/
theorem qm_param_fit {Fam : LocScaleFam} (L : LocScaleLaws Fam) (t : Rat) (d : Detrending) (obs H : List Rat)
    (hm : d = .multiplicative → mean H ≠ 0) (hc : NoClip Fam t (Fam.fit H) H) :
    qmParam Fam.toFamily t d obs H H = H.map (lsMap (Fam.loc obs) (Fam.scale obs) (Fam.loc H) (Fam.scale H)) := by
  unfold qmParam
  rw [quantileMapping_self _ d obs H hm, standardQMParam_noclip L t H obs H hc]
  rfl

/-- … hence **the fit of the output is the fit of the observations — mean and calibrated spread**
    (guards: both fitted scales positive) -/
theorem qm_param_fit_eq {Fam : LocScaleFam} (L : LocScaleLaws Fam) (t : Rat) (d : Detrending) (obs H : List Rat)
    (hm : d = .multiplicative → mean H ≠ 0) (hc : NoClip Fam t (Fam.fit H) H) (hH : H ≠ [])
    (hso : 0 < Fam.scale obs) (hsh : 0 < Fam.scale H) :
    Fam.fit (qmParam Fam.toFamily t d obs H H) = Fam.fit obs := by
  rw [qm_param_fit L t d obs H hm hc, fit_lsMap L _ _ H hH hso hsh]
  rfl

/-- **ECDFM, `F = H`, no clipping**: the same map (`x + ppf_obs(cdf_H x) − ppf_H(cdf_H x) = ppf_obs(cdf_H x)`) -/
theorem ecdfm_fit {Fam : LocScaleFam} (L : LocScaleLaws Fam) (t : Rat) (obs H : List Rat)
    (hs : Fam.scale H ≠ 0) (hc : NoClip Fam t (Fam.fit H) H) :
    ecdfm Fam.toFamily t obs H H = H.map (lsMap (Fam.loc obs) (Fam.scale obs) (Fam.loc H) (Fam.scale H)) := by
  unfold ecdfm
  apply List.map_congr_left
  intro x hx
  obtain ⟨h0, h1⟩ := hc x hx
  simp only [LocScaleFam.toFamily]
  rw [thresholdCdf_id t _ h0 h1, ppf_cdf L (Fam.fit H) hs x]
  unfold lsMap LocScaleFam.ppf LocScaleFam.cdf LocScaleFam.fit
  simp only []
  rw [L.Ginv_G]
  ring

theorem ecdfm_fit_eq {Fam : LocScaleFam} (L : LocScaleLaws Fam) (t : Rat) (obs H : List Rat)
    (hc : NoClip Fam t (Fam.fit H) H) (hH : H ≠ []) (hso : 0 < Fam.scale obs) (hsh : 0 < Fam.scale H) :
    Fam.fit (ecdfm Fam.toFamily t obs H H) = Fam.fit obs := by
  rw [ecdfm_fit L t obs H (ne_of_gt hsh) hc, fit_lsMap L _ _ H hH hso hsh]
  rfl

/-- for the executable family (`loc` = mean, `scale` = mean absolute deviation): observed mean and observed spread -/
theorem qm_param_mean_spread_ratSigmoid (t : Rat) (d : Detrending) (obs H : List Rat)
    (hm : d = .multiplicative → mean H ≠ 0) (hc : NoClip ratSigmoid t (ratSigmoid.fit H) H) (hH : H ≠ [])
    (hso : 0 < meanAbsDev obs) (hsh : 0 < meanAbsDev H) :
    mean (qmParam ratSigmoid.toFamily t d obs H H) = mean obs ∧
      meanAbsDev (qmParam ratSigmoid.toFamily t d obs H H) = meanAbsDev obs := by
  have := qm_param_fit_eq ratSigmoid_laws t d obs H hm hc hH hso hsh
  exact ⟨congrArg Prod.fst this, congrArg Prod.snd this⟩

-- non-vacuity: all guards hold on a concrete biased instance (bias +10, twice the spread)
example : mean (qmParam ratSigmoid.toFamily (1 / 100) .additive [1, 2, 6] [10, 14, 18, 22] [10, 14, 18, 22]) = mean [1, 2, 6] :=
  (qm_param_mean_spread_ratSigmoid _ _ _ _ (by simp) (by decide +kernel) (by simp) (by decide +kernel) (by decide +kernel)).1
example : NoClip ratSigmoid (1 / 100) (ratSigmoid.fit [10, 14, 18, 22]) [10, 14, 18, 22] := by decide +kernel
-- the clipped branch is different (documented `cdf_threshold` behaviour): with a large threshold the extremes are pulled in
example : ¬ NoClip ratSigmoid (1 / 4) (ratSigmoid.fit [10, 14, 18, 22]) [10, 14, 18, 22] := by decide +kernel

/-! ## 4. Non-parametric QuantileMapping at equal sample sizes: exactly the observed multiset -/

/-- **non-parametric QM, `F = H`, `|obs| = |H|`, `H` tie-free**: the output is the observations re-ordered like
    `cm_hist` (rank transfer) … -/
theorem qm_nonparam_sortLike (d : Detrending) (obs H : List Rat) (hlen : obs.length = H.length) (hn : 2 ≤ H.length)
    (hH : H.Nodup) (hm : d = .multiplicative → mean H ≠ 0) :
    qmNonparam d obs H H = sortLike obs H := by
  unfold qmNonparam
  rw [quantileMapping_self _ d obs H hm]
  unfold standardQMNonparam
  rw [qmapExtrap_self]
  exact qmap_equal_sizes_sortLike_all (.step, .inverted_cdf) (by simp [exactPairs]) H obs hlen.symm hn hH

/-- … hence **exactly the observed multiset of values** -/
theorem qm_nonparam_perm (d : Detrending) (obs H : List Rat) (hlen : obs.length = H.length) (hn : 2 ≤ H.length)
    (hH : H.Nodup) (hm : d = .multiplicative → mean H ≠ 0) :
    (qmNonparam d obs H H).Perm obs := by
  rw [qm_nonparam_sortLike d obs H hlen hn hH hm]
  exact sortLike_perm obs H hlen

/-- consequence: observed mean (and every other symmetric statistic) -/
theorem qm_nonparam_mean (d : Detrending) (obs H : List Rat) (hlen : obs.length = H.length) (hn : 2 ≤ H.length)
    (hH : H.Nodup) (hm : d = .multiplicative → mean H ≠ 0) :
    mean (qmNonparam d obs H H) = mean obs :=
  mean_perm (qm_nonparam_perm d obs H hlen hn hH hm)

example : (qmNonparam .additive [5, 1, 3] [20, 40, 30] [20, 40, 30]).Perm [5, 1, 3] :=
  qm_nonparam_perm _ _ _ rfl (by decide) (by decide) (by simp)

/-! ## 5. CDFt (default methods) at equal sample sizes: clamped rank transfer -/

/-- the shifted historical sample of `_apply_CDFt_mapping`; with `cm_future = cm_hist` the shifted future sample
    is the same list -/
theorem cdftShifted_same (d : DeltaShift) (obs H : List Rat) :
    (cdftShifted d obs H H).2 = (cdftShifted d obs H H).1 := by
  cases d <;> rfl

/-- **CDFt, `F = H`, `|obs| = |H|`, default pair, shifted sample `H'` tie-free**: every output is the observation of
    the same rank, clamped to the range of the shifted model sample `H' = H + (mean obs − mean H)`
    (resp. `H · mean obs / mean H`). -/
theorem cdft_rank_transfer_clamped (d : DeltaShift) (obs H : List Rat) (hlen : obs.length = H.length) (hn : 2 ≤ H.length)
    (hH' : (cdftShifted d obs H H).1.Nodup) :
    cdftMapping d .linear .linear obs H H =
      (sortLike obs (cdftShifted d obs H H).1).map
        (fun y => max (minQ (cdftShifted d obs H H).1) (min (maxQ (cdftShifted d obs H H).1) y)) := by
  have hl' : (cdftShifted d obs H H).1.length = H.length := by cases d <;> simp [cdftShifted]
  unfold cdftMapping cdftMappingG
  simp only []
  rw [cdftShifted_same]
  generalize (cdftShifted d obs H H).1 = H' at hH' hl' ⊢
  have h12 : cdftStage2 (iecdf1 .linear) obs (cdftStage1 (ecdf1 .linear) H') = sortLike obs H' := by
    have := qmap_equal_sizes_sortLike_all (.linear, .linear) (by simp [exactPairs]) H' obs (by omega) (by omega) hH'
    rw [← this, qmap_eq_map]
    unfold cdftStage1 cdftStage2 qmap1
    rw [List.map_map]; rfl
  rw [h12]
  unfold cdftStage3 cdftStage4
  rw [List.map_map]
  apply List.map_congr_left
  intro y _
  simp only [Function.comp, ecdf1_linear]
  exact iecdfLinear_ecdfLin_clamp hH' (by omega) y

/-- … as multisets: the output is a permutation of the observations clamped to the range of `H'` (what the oracle of
    `harness/c01.py` compares: `sorted(out) == clip(sorted(obs), min H', max H')`) -/
theorem cdft_clamped_perm (d : DeltaShift) (obs H : List Rat) (hlen : obs.length = H.length) (hn : 2 ≤ H.length)
    (hH' : (cdftShifted d obs H H).1.Nodup) :
    (cdftMapping d .linear .linear obs H H).Perm
      (obs.map (fun y => max (minQ (cdftShifted d obs H H).1) (min (maxQ (cdftShifted d obs H H).1) y))) := by
  have hl' : (cdftShifted d obs H H).1.length = H.length := by cases d <;> simp [cdftShifted]
  rw [cdft_rank_transfer_clamped d obs H hlen hn hH']
  exact (sortLike_perm obs (cdftShifted d obs H H).1 (by omega)).map _

/-- **with the range guard** (`range obs ⊆ range H'`) the clamp is inactive: the output is the observations
    re-ordered like the model — exactly the observed multiset -/
theorem cdft_perm (d : DeltaShift) (obs H : List Rat) (hlen : obs.length = H.length) (hn : 2 ≤ H.length)
    (hH' : (cdftShifted d obs H H).1.Nodup)
    (hr : ∀ v ∈ obs, minQ (cdftShifted d obs H H).1 ≤ v ∧ v ≤ maxQ (cdftShifted d obs H H).1) :
    cdftMapping d .linear .linear obs H H = sortLike obs (cdftShifted d obs H H).1 ∧
      (cdftMapping d .linear .linear obs H H).Perm obs := by
  have hl' : (cdftShifted d obs H H).1.length = H.length := by cases d <;> simp [cdftShifted]
  have hp := sortLike_perm obs (cdftShifted d obs H H).1 (by omega)
  have h1 : cdftMapping d .linear .linear obs H H = sortLike obs (cdftShifted d obs H H).1 := by
    rw [cdft_rank_transfer_clamped d obs H hlen hn hH']
    apply map_eq_self
    intro y hy
    obtain ⟨h0, h1⟩ := hr y (hp.mem_iff.mp hy)
    rw [min_eq_right h1, max_eq_right h0]
  exact ⟨h1, h1 ▸ hp⟩

/-- additive shift: `H'` is tie-free as soon as `H` is -/
theorem cdftShifted_additive_nodup (obs H : List Rat) (hH : H.Nodup) : (cdftShifted .additive obs H H).1.Nodup := by
  simp only [cdftShifted]
  exact hH.map (fun a b h => by linarith)

example : (cdftMapping .additive .linear .linear [4, 2, 3] [20, 26, 22] [20, 26, 22]).Perm [4, 2, 3] := by
  have h : (cdftShifted .additive [4, 2, 3] [20, 26, 22] [20, 26, 22]).1 = [1 / 3, 19 / 3, 7 / 3] := by decide +kernel
  have hmin : minQ ([1 / 3, 19 / 3, 7 / 3] : List Rat) = 1 / 3 := by decide +kernel
  have hmax : maxQ ([1 / 3, 19 / 3, 7 / 3] : List Rat) = 19 / 3 := by decide +kernel
  refine (cdft_perm .additive [4, 2, 3] [20, 26, 22] rfl (by decide) (cdftShifted_additive_nodup _ _ (by decide)) ?_).2
  rw [h, hmin, hmax]
  decide +kernel

/-! ## 5b. QuantileDeltaMapping (absolute), window-free: the observed location, by symmetry -/

/-- **QDM absolute, `F = H`, tie-free, symmetric location–scale family, `linear_interpolation` ecdf (the default),
    `cdf_threshold ≤ 1/2`**: `mean out = mean H + (loc_obs − loc_H)`.  The quantiles `τ_i = clip(r_i / (n − 1))` are
    symmetric about ½ (ranks `0..n−1`, symmetric clipping), `ppf` is antisymmetric about the location, so the
    scale terms `(scale_obs − scale_H) · Ginv(τ_i)` cancel in the sum — clipped or not. -/
theorem qdm_mean_symm {Fam : LocScaleFam} (L : LocScaleLaws Fam) (t : Rat) (ht : t ≤ 1 / 2) (obs H : List Rat)
    (hH : H.Nodup) (hn : 2 ≤ H.length) :
    mean (qdmWindow Fam.toFamily .absolute .linear t none obs H H) = mean H + (Fam.loc obs - Fam.loc H) := by
  have hne : H ≠ [] := by intro h; rw [h] at hn; simp at hn
  have e : qdmWindow Fam.toFamily .absolute .linear t none obs H H
      = H.map (fun x => (x + (Fam.loc obs - Fam.loc H)) +
          (Fam.scale obs - Fam.scale H) * Fam.Ginv (thresholdCdf t (ecdfLin1 H x))) := by
    unfold qdmWindow qdmSteps qdmStepsG qdmCore qdmCensor
    apply List.map_congr_left
    intro x _
    simp only [LocScaleFam.toFamily, LocScaleFam.ppf, LocScaleFam.fit, ecdf1_linear]
    ring
  have h0 : (H.map (fun x => Fam.Ginv (thresholdCdf t (ecdfLin1 H x)))).sum = 0 :=
    sum_symm_ecdf hH hn t ht Fam.Ginv L.Ginv_symm
  have h2 : (H.map (fun x => (Fam.scale obs - Fam.scale H) * Fam.Ginv (thresholdCdf t (ecdfLin1 H x)))).sum = 0 := by
    have := sum_map_mul (Fam.scale obs - Fam.scale H) (H.map (fun x => Fam.Ginv (thresholdCdf t (ecdfLin1 H x))))
    rw [List.map_map, h0, mul_zero] at this
    exact this
  have h1 := mean_map_add (Fam.loc obs - Fam.loc H) H hne
  rw [e]
  unfold mean at h1 ⊢
  rw [List.sum_map_add, h2, add_zero, List.length_map]
  rw [List.length_map] at h1
  exact h1

/-- when the family's location estimator is the sample mean (`norm`, the executable double): the observed location -/
theorem qdm_mean_symm_loc_mean {Fam : LocScaleFam} (L : LocScaleLaws Fam) (hloc : ∀ xs, Fam.loc xs = mean xs) (t : Rat)
    (ht : t ≤ 1 / 2) (obs H : List Rat) (hH : H.Nodup) (hn : 2 ≤ H.length) :
    mean (qdmWindow Fam.toFamily .absolute .linear t none obs H H) = mean obs := by
  rw [qdm_mean_symm L t ht obs H hH hn, hloc, hloc]; ring

example : mean (qdmWindow ratSigmoid.toFamily .absolute .linear (1 / 4) none [1, 2, 6] [10, 14, 21, 12] [10, 14, 21, 12])
    = mean [1, 2, 6] :=
  qdm_mean_symm_loc_mean ratSigmoid_laws (fun _ => rfl) _ (by norm_num) _ _ (by decide) (by decide)

/-! ## 5c. ISIMIP, tas-like configuration (additive trend transfer, parametric step 6), one window -/

section isimip
open Model.Isimip Lemmas.IsimipModel Lemmas.C01Isimip

/-- **ISIMIP `_apply_on_window`, `cm_future = cm_hist`, tas-like configuration, no trend removed, no clipping**
    (`Lemmas.C01Isimip.TasCfg`: no bounds / thresholds, parametric quantile mapping, additive trend transfer;
    `NoTrendRemoved`: `detrending = False`, or the significance test — an oracle of the model — finds no trend):
    step 5 returns the observations, step 6 is the location–scale map
    `out_i = loc_obs + (scale_obs / scale_H)(x_i − loc_H)`.
    Guards: at least two values per sample, fitted scales `≠ 0`, KS test off or passed (oracle), every cdf value in
    `[1e-10, 1 − 1e-10]`.  (When a significant trend *is* removed the same map acts on the detrended samples and the
    trend of `cm_future` is added back: `Lemmas.IsimipModel.step7_step3_roundtrip`; not needed for the mean.) -/
theorem isimip_add_fit (c : Cfg) (hc : TasCfg c) (Fam : LocScaleFam) (L : LocScaleLaws Fam)
    (scaleAt : Rat → List Rat → Rat) (o : Oracles) (hks : (c.ksTest && !o.ksGood) = false) (d : Draws)
    (obs H : List Rat) (yO yH : List Int) (hd : NoTrendRemoved c o obs H yO yH) (hO : 2 ≤ obs.length) (hH : 2 ≤ H.length)
    (hsO : Fam.scale obs ≠ 0) (hsH : Fam.scale H ≠ 0) (hnc : NoClip Fam (1 / 10000000000) (Fam.fit H) H) :
    applyOnWindow c (IsiFamily.ofLocScale Fam scaleAt) o d obs H H yO yH yH =
      .ok (H.map (lsMap (Fam.loc obs) (Fam.scale obs) (Fam.loc H) (Fam.scale H))) := by
  have hOne : obs ≠ [] := by intro h; rw [h] at hO; simp at hO
  have hHne : H ≠ [] := by intro h; rw [h] at hH; simp at hH
  have hb : (c.hasLowerBound && c.hasLowerThreshold) = false ∧ (c.hasUpperBound && c.hasUpperThreshold) = false := by
    simp [Cfg.hasLowerBound, Cfg.hasUpperBound, hc.lb, hc.ub, ExtRat.gtNegInf, ExtRat.ltPosInf]
  rw [applyOnWindow_eq, step3_noTrend c o obs H yO yH hd]
  simp only []
  rw [step4_of_no_bound_threshold_pair c d hb.1 hb.2]
  simp only [Except.bind]
  rw [step5_tas_self c hc o obs H hOne hHne]
  simp only []
  rw [step6_tas c hc Fam L scaleAt o hks obs obs H H hH hO hsH hsO]
  simp only []
  rw [step7_zero c _ H (by simp)]
  congr 1
  apply List.map_congr_left
  intro x hx
  obtain ⟨h0, h1⟩ := hnc x hx
  unfold thrCdf
  rw [thresholdCdf_id _ _ h0 h1]
  unfold lsMap LocScaleFam.ppf LocScaleFam.cdf LocScaleFam.fit
  simp only []
  rw [L.Ginv_G]

/-- … hence the fit of the output — mean **and** calibrated spread — is the fit of the observations -/
theorem isimip_add_fit_eq (c : Cfg) (hc : TasCfg c) (Fam : LocScaleFam) (L : LocScaleLaws Fam)
    (scaleAt : Rat → List Rat → Rat) (o : Oracles) (hks : (c.ksTest && !o.ksGood) = false) (d : Draws)
    (obs H : List Rat) (yO yH : List Int) (hd : NoTrendRemoved c o obs H yO yH) (hO : 2 ≤ obs.length) (hH : 2 ≤ H.length)
    (hsO : 0 < Fam.scale obs) (hsH : 0 < Fam.scale H) (hnc : NoClip Fam (1 / 10000000000) (Fam.fit H) H) :
    (applyOnWindow c (IsiFamily.ofLocScale Fam scaleAt) o d obs H H yO yH yH).map Fam.fit = .ok (Fam.fit obs) := by
  have hHne : H ≠ [] := by intro h; rw [h] at hH; simp at hH
  rw [isimip_add_fit c hc Fam L scaleAt o hks d obs H yO yH hd hO hH (ne_of_gt hsO) (ne_of_gt hsH) hnc]
  simp only [Except.map]
  rw [fit_lsMap L _ _ H hHne hsO hsH]
  rfl

-- executable instance (ISIMIP's tas settings, default oracles = no significant trend, KS passed): mean and spread
example : (applyOnWindow { trendMethod := .additive, nonparametricQm := false, detrending := true }
      (IsiFamily.ofLocScale Model.Family.ratSigmoid meanAbsDevAt) {} {} [1, 2, 6] [10, 14, 18, 22] [10, 14, 18, 22]
      [2000, 2000, 2001] [2000, 2000, 2001, 2001] [2000, 2000, 2001, 2001]).map Model.Family.ratSigmoid.fit
    = .ok (Model.Family.ratSigmoid.fit [1, 2, 6]) :=
  isimip_add_fit_eq { trendMethod := .additive, nonparametricQm := false, detrending := true }
    ⟨rfl, rfl, rfl, rfl, rfl, rfl, rfl⟩ Model.Family.ratSigmoid ratSigmoid_laws meanAbsDevAt {} rfl {}
    [1, 2, 6] [10, 14, 18, 22] [2000, 2000, 2001] [2000, 2000, 2001, 2001]
    (Or.inr ⟨rfl, rfl, rfl, rfl, rfl⟩) (by decide) (by decide) (by decide +kernel) (by decide +kernel) (by decide +kernel)

/-- **the trend step 3 removes is centred**: the annual trend values `slope · (year − mean(unique years))` sum to zero over
    the unique years, whatever the data — so removing / restoring it does not move the mean of a series with equally many
    values per year (an anchor other than the mean year, e.g. the first year, shifts obs and cm_hist by
    `slope · half-span` each and leaves a residual bias `(slope_cm − slope_obs) · (n_years − 1)/2`). -/
theorem isimip_annual_trend_centred (c : Cfg) (sig : Bool) (x : List Rat) (years : List Int) :
    (annualTrend c sig x years).sum = 0 := by
  unfold annualTrend
  simp only []
  split
  · generalize (uniqueYears years).map (fun (y : Int) => (y : Rat)) = uy
    generalize linSlope uy (yearlyMeans x years) = s
    by_cases hne : uy = []
    · subst hne; rfl
    · have hn := length_cast_ne_zero hne
      have e : uy.map (fun y => s * (y - Model.Stats.mean uy)) = uy.map (fun y => s * y + (-(s * Model.Stats.mean uy))) := by
        apply List.map_congr_left; intro y _; ring
      rw [e, sum_affine]
      unfold Model.Stats.mean
      field_simp
      ring
  · induction (uniqueYears years).map (fun (y : Int) => (y : Rat)) with
    | nil => rfl
    | cons a t _ => simp

example : (annualTrend { trendMethod := .additive, nonparametricQm := false, detrending := true } true [1, 2, 4, 7]
    [2000, 2000, 2001, 2002]).sum = 0 := isimip_annual_trend_centred _ _ _ _

/-- the configuration is satisfiable: ISIMIP's tas settings with `detrending = False` -/
example : TasCfg { trendMethod := .additive, nonparametricQm := false, detrending := false } :=
  ⟨rfl, rfl, rfl, rfl, rfl, rfl, rfl⟩

end isimip

/-! ## 5d. ScaledDistributionMapping (absolute) at equal sample sizes; the defect that was repaired (F3) -/

section sdm
open Lemmas.C01Sdm

/-- **absolute SDM, `F = H`, `|obs| = |H|`, no clipping, repaired code**: the recurrence-interval scaling collapses
    (`ri_obs · ri_F / ri_H = ri_obs`), the scaling term vanishes, and the output is the observations re-ordered like the
    model — **exactly the observed multiset**.  Guards: fitted scales of the detrended samples positive; every cdf
    value in `[1e-10, 1 − 1e-10]` (`NoClip`, decidable).  No tie-freeness is needed: equal model values receive the
    stable ranks of the model's `argsort`; for tied values numpy's unstable sort may permute the outputs among the tied
    positions, which does not change the multiset. -/
theorem sdm_abs_perm {Fam : LocScaleFam} (L : LocScaleLaws Fam) (obs H : List Rat) (hlen : obs.length = H.length)
    (hso : 0 < Fam.scale (detrendConst obs)) (hsh : 0 < Fam.scale (detrendConst H))
    (hco : NoClip Fam defaultCdfThreshold (Fam.fit (detrendConst obs)) (detrendConst obs))
    (hch : NoClip Fam defaultCdfThreshold (Fam.fit (detrendConst H)) (detrendConst H)) :
    (sdmAbsolute Fam obs H H).Perm obs := by
  rw [sdmAbsolute_self L obs H hlen hso hsh hco hch]
  have hl : (detrendConst obs).length = (detrendConst H).length := by simp [detrendConst, hlen]
  have h1 := (sortLike_perm (detrendConst obs) (detrendConst H) hl).map (fun b => b + mean obs)
  have h2 : (detrendConst obs).map (fun b => b + mean obs) = obs := by
    unfold detrendConst
    rw [List.map_map]
    apply map_eq_self
    intro x _
    simp
  rwa [h2] at h1

theorem sdm_abs_mean {Fam : LocScaleFam} (L : LocScaleLaws Fam) (obs H : List Rat) (hlen : obs.length = H.length)
    (hso : 0 < Fam.scale (detrendConst obs)) (hsh : 0 < Fam.scale (detrendConst H))
    (hco : NoClip Fam defaultCdfThreshold (Fam.fit (detrendConst obs)) (detrendConst obs))
    (hch : NoClip Fam defaultCdfThreshold (Fam.fit (detrendConst H)) (detrendConst H)) :
    mean (sdmAbsolute Fam obs H H) = mean obs :=
  mean_perm (sdm_abs_perm L obs H hlen hso hsh hco hch)

/-- `_apply_on_window_absolute_sdm` **before the repair** (F3): the last line was
    `bias_corrected[reverse_sorting_idx] + trend`, without `− (mean(cm_hist) − mean(obs))` -/
def legacySdmAbsolute (Fam : LocScaleFam) (obs H F : List Rat) : List Rat :=
  let bc := sdmAbsoluteSorted Fam obs H F
  let fd := detrendConst F
  let trend := subL F fd
  let back := takeIdx bc (rankOf fd)
  List.zipWith (fun b tr => b + tr) back trend

/-- the legacy output is the repaired output plus the full mean bias of the model, element by element -/
theorem legacy_sdm_eq (Fam : LocScaleFam) (obs H F : List Rat) :
    legacySdmAbsolute Fam obs H F = (sdmAbsolute Fam obs H F).map (fun v => v + (mean H - mean obs)) := by
  unfold legacySdmAbsolute sdmAbsolute
  simp only []
  rw [List.map_zipWith]
  congr 1
  funext b tr
  ring

/-- **F3, on a concrete 4-point witness** (executable family, bias +10, all guards checked by `decide +kernel`): the
    legacy formula returns a series whose mean is the *model's* mean, not the observed one — the mean bias is not
    removed at all. -/
theorem legacy_sdm_abs_counterexample :
    mean (legacySdmAbsolute ratSigmoid [1, 2, 4, 5] [11, 13, 14, 18] [11, 13, 14, 18]) = mean [11, 13, 14, 18] ∧
      mean [11, 13, 14, 18] ≠ mean [1, 2, 4, 5] := by
  have hperm := sdm_abs_perm ratSigmoid_laws [1, 2, 4, 5] [11, 13, 14, 18] rfl (by decide +kernel) (by decide +kernel)
    (by decide +kernel) (by decide +kernel)
  have hne : sdmAbsolute ratSigmoid [1, 2, 4, 5] [11, 13, 14, 18] [11, 13, 14, 18] ≠ [] := by
    intro h; rw [h] at hperm; simpa using hperm.length_eq
  constructor
  · rw [legacy_sdm_eq, mean_map_add _ _ hne, mean_perm hperm]; ring
  · decide +kernel

end sdm

/-! ## 6. The windowed / unequal-length clause — *partial*  (see §7 / §8 for what is proved about unequal lengths in one window)

Full statement (NOT proved; decided only by the search in `harness/c01.py`, violation iff the residual mean bias
exceeds `max(tol, 0.25·|bias|)` on samples with at least 200 values):

    for the empirical-CDF methods (CDFt, non-parametric QuantileMapping) with `|obs| ≠ |H|`, and for every debiaser in
    seasonal running-window mode, `|mean (f obs H H) − mean obs| ≤ ε · |mean H − mean obs|` with a small `ε`
    (an `O(range / min(n, m))` bound for means of interpolated quantiles).

Proved: the outputs of the rank-transfer methods lie in the range of the target sample (so the residual bias is
bounded by the observed range, whatever the original bias), and — by the sections above and the lifts of
`Props.C03` / `Lemmas.Pointwise.applyLocationRW_value` — the exact formulas on every window. -/

/-- non-parametric QM, `F = H`, any lengths: every output lies in `[min obs, max obs]` -/
theorem out_in_obs_range_partial (d : Detrending) (obs H : List Rat) (ho : obs ≠ [])
    (hm : d = .multiplicative → mean H ≠ 0) :
    ∀ v ∈ qmNonparam d obs H H, minQ obs ≤ v ∧ v ≤ maxQ obs := by
  unfold qmNonparam
  rw [quantileMapping_self _ d obs H hm]
  unfold standardQMNonparam
  rw [qmapExtrap_self, qmap_eq_map]
  intro v hv
  obtain ⟨x, _, rfl⟩ := List.mem_map.mp hv
  exact qmap_step_inverted_range H obs ho x

/-- CDFt (default pair), any lengths, any `cm_future`: every output lies in the range of the *shifted future
    sample* (for `F = H`: of `H + mean obs − mean H`, a sample with the observed mean) -/
theorem cdft_out_in_shifted_range_partial (d : DeltaShift) (obs H F : List Rat) (hF : F ≠ []) :
    ∀ v ∈ cdftMapping d .linear .linear obs H F,
      minQ (cdftShifted d obs H F).2 ≤ v ∧ v ≤ maxQ (cdftShifted d obs H F).2 := by
  have hne : (cdftShifted d obs H F).2 ≠ [] := by cases d <;> simpa [cdftShifted] using hF
  unfold cdftMapping cdftMappingG cdftStage4
  intro v hv
  obtain ⟨p, _, rfl⟩ := List.mem_map.mp hv
  unfold iecdf1 iecdfSorted
  simp only []
  rw [quantileLinear_eq]
  have := clampLerp_range (sortQ_sorted (cdftShifted d obs H F).2) (sortQ_ne_nil hne)
    ((((sortQ (cdftShifted d obs H F).2).length : Rat) - 1) * p)
  rw [sortQ_head _ hne, sortQ_length, sortQ_last _ hne] at this
  rw [sortQ_length]
  exact this

/-- the shifted sample has the observed mean (additive shift) — why the clamp range of CDFt is centred correctly -/
theorem cdftShifted_mean (obs H : List Rat) (hH : H ≠ []) :
    mean (cdftShifted .additive obs H H).1 = mean obs := by
  simp only [cdftShifted]
  rw [mean_map_add _ _ hH]; ring

/-! ## 7. Unequal sample sizes: an explicit bound on the residual mean bias (non-parametric QuantileMapping)

`obs` has `n` values, the tie-free `cm_hist` has `m` values, `n ≠ m` allowed.  The step ecdf of `cm_hist` at its value of
0-based rank `r` is `(r+1)/m`; `IECDF` of the observations reads the order statistic `⌊(n−1)(r+1)/m⌋`; so
`mean out = (1/m) Σ_{r<m} obs_(⌊(n−1)(r+1)/m⌋)`, a Riemann sum of the observed quantile function on the grid of the model
sample.  Compared term by term with `mean obs` over the common refinement `p < n·m` (`Lemmas/C01Bound.lean`):

    − range(obs) / n  ≤  mean out − mean obs  ≤  range(obs) / m .

Both constants are attained in the limit (`obs = [0, 1]`, `m → ∞`: residual `1/m − 1/2 → −range/n`;
`obs = [0, …, 0, 1]`, `m = 1`: residual `1 − 1/n → range/m`), so `max(1/n, 1/m) = 1/min(n, m)` cannot be improved
by more than the factor `(1 − 1/max(n,m))`.  Guards: both samples non-empty (the means divide by `n`, `m`), `cm_hist`
tie-free (numpy's sort of tied values and the step ecdf at a tie group are a different formula), multiplicative
detrending only with `mean cm_hist ≠ 0` (the code divides by it). -/

open Lemmas.C01Bound in
/-- **non-parametric QM, `F = H`, any sizes, `H` tie-free: two-sided bound on the residual mean bias** -/
theorem qm_nonparam_mean_bounds (d : Detrending) (obs H : List Rat) (hn : obs ≠ []) (hm : H ≠ []) (hH : H.Nodup)
    (hd : d = .multiplicative → mean H ≠ 0) :
    -((maxQ obs - minQ obs) / (obs.length : Rat)) ≤ mean (qmNonparam d obs H H) - mean obs ∧
      mean (qmNonparam d obs H H) - mean obs ≤ (maxQ obs - minQ obs) / (H.length : Rat) := by
  have hlen : (qmNonparam d obs H H).length = H.length := by
    rw [qmNonparam_self d obs H hd, List.length_map]
  have hmean : mean obs = (sortQ obs).sum / ((sortQ obs).length : Rat) := (mean_perm (sortQ_perm obs)).symm
  have hb := gridMean_bounds (sortQ_sorted obs) (sortQ_ne_nil hn) (List.length_pos_iff.mpr hm)
  rw [sortQ_head obs hn, sortQ_length, sortQ_last obs hn] at hb
  rw [hmean, sortQ_length]
  unfold mean
  rw [hlen, qmNonparam_sum d obs H hn hH hd]
  exact hb

/-- **… as one constant: `|mean out − mean obs| ≤ range(obs) · max(1/n, 1/m)`** (`= range(obs) / min(n, m)`) -/
theorem qm_nonparam_mean_bound (d : Detrending) (obs H : List Rat) (hn : obs ≠ []) (hm : H ≠ []) (hH : H.Nodup)
    (hd : d = .multiplicative → mean H ≠ 0) :
    |mean (qmNonparam d obs H H) - mean obs| ≤
      (maxQ obs - minQ obs) * max (1 / (obs.length : Rat)) (1 / (H.length : Rat)) := by
  obtain ⟨hl, hu⟩ := qm_nonparam_mean_bounds d obs H hn hm hH hd
  have hR : 0 ≤ maxQ obs - minQ obs := sub_nonneg.mpr (minQ_le_maxQ hn)
  have h1 : (maxQ obs - minQ obs) * (1 / (obs.length : Rat)) ≤
      (maxQ obs - minQ obs) * max (1 / (obs.length : Rat)) (1 / (H.length : Rat)) :=
    mul_le_mul_of_nonneg_left (le_max_left _ _) hR
  have h2 : (maxQ obs - minQ obs) * (1 / (H.length : Rat)) ≤
      (maxQ obs - minQ obs) * max (1 / (obs.length : Rat)) (1 / (H.length : Rat)) :=
    mul_le_mul_of_nonneg_left (le_max_right _ _) hR
  rw [abs_le]
  constructor
  · have : (maxQ obs - minQ obs) / (obs.length : Rat) = (maxQ obs - minQ obs) * (1 / (obs.length : Rat)) := by ring
    linarith
  · have : (maxQ obs - minQ obs) / (H.length : Rat) = (maxQ obs - minQ obs) * (1 / (H.length : Rat)) := by ring
    linarith

-- non-vacuity: every guard holds on a concrete instance with n = 3 ≠ m = 5 (every detrending mode)
example : |mean (qmNonparam .additive [1, 2, 6] [10, 14, 11, 19, 12] [10, 14, 11, 19, 12]) - mean [1, 2, 6]| ≤
    (maxQ [1, 2, 6] - minQ [1, 2, 6]) * max (1 / (([1, 2, 6] : List Rat).length : Rat))
      (1 / (([10, 14, 11, 19, 12] : List Rat).length : Rat)) :=
  qm_nonparam_mean_bound _ _ _ (by simp) (by simp) (by decide +kernel) (by simp)
example : (Model.Debiasers.Detrending.multiplicative = .multiplicative → mean ([10, 14, 11, 19, 12] : List Rat) ≠ 0) := by
  intro _; decide +kernel
-- the bound is not trivially loose — the residual on that instance is −3/5 (a bound of 0 would be false), and it lies
-- inside the proved interval [−range/n, range/m] = [−5/3, 1]   (concrete witness, `decide +kernel`)
open Lemmas.C01Bound in
example : mean (qmNonparam .no_detrending [1, 2, 6] [10, 14, 11, 19, 12] [10, 14, 11, 19, 12]) - mean [1, 2, 6] = -3 / 5 := by
  have hs : sortQ [1, 2, 6] = [1, 2, 6] := sortQ_of_sorted (by decide +kernel)
  have hlen : (qmNonparam .no_detrending [1, 2, 6] [10, 14, 11, 19, 12] [10, 14, 11, 19, 12]).length = 5 := by
    rw [qmNonparam_self _ _ _ (by simp), List.length_map]; rfl
  unfold mean
  rw [hlen, qmNonparam_sum _ _ _ (by simp) (by decide +kernel) (by simp), hs]
  decide +kernel
example : -((maxQ [1, 2, 6] - minQ [1, 2, 6]) / 3) = -5 / 3 ∧ (maxQ [1, 2, 6] - minQ [1, 2, 6]) / 5 = (1 : Rat) := by
  decide +kernel

/-! ## 8. Unequal sample sizes: CDFt (default pair `linear_interpolation` + `linear`), `cm_future = cm_hist`

Under the range guard of `cdft_perm` (the observations lie inside the range of the shifted model sample `H'`, so the
last `iecdf_H'(ecdf_H'(·))` does not clamp) every output is the `linear` quantile of the observations at `r/(m−1)`,
`r` the rank of the value in `H'`; the interpolant is sandwiched between order statistics and both sides are grid sums
of §7 (`Lemmas/C01BoundCdft.lean`):  `|mean out − mean obs| ≤ range(obs)·(1/n + 1/m)`.
Without the range guard the statement is FALSE (the clamp to `[min H', max H']` moves the mean by an amount that depends
on `H'`; measured on the real code: 1.56 × this bound) — what holds then is `cdft_out_in_shifted_range_partial`.
The constant is not sharp (measured on the real code: the residual stays below `range·(1/(2n) + 1/m)`). -/

open Lemmas.C01Bound in
/-- **CDFt, `F = H`, any sizes, `H'` tie-free, range guard: bound on the residual mean bias**.  Guards: `obs` non-empty,
    at least two model values (the linear ecdf divides by `m − 1`), multiplicative shift only with `mean H ≠ 0`. -/
theorem cdft_mean_bound (d : DeltaShift) (obs H : List Rat) (hn : obs ≠ []) (hm : 2 ≤ H.length)
    (_hd : d = .multiplicative → mean H ≠ 0) (hH' : (cdftShifted d obs H H).1.Nodup)
    (hr : ∀ v ∈ obs, minQ (cdftShifted d obs H H).1 ≤ v ∧ v ≤ maxQ (cdftShifted d obs H H).1) :
    |mean (cdftMapping d .linear .linear obs H H) - mean obs| ≤
      (maxQ obs - minQ obs) * (1 / (obs.length : Rat) + 1 / (H.length : Rat)) := by
  have hl' : (cdftShifted d obs H H).1.length = H.length := by cases d <;> simp [cdftShifted]
  have hm' : 2 ≤ (cdftShifted d obs H H).1.length := by omega
  have hlen : (cdftMapping d .linear .linear obs H H).length = H.length := by
    rw [cdft_self_value d obs H hn hm' hH' hr, List.length_map, hl']
  have hmean : mean obs = (sortQ obs).sum / ((sortQ obs).length : Rat) := (mean_perm (sortQ_perm obs)).symm
  obtain ⟨hlo, hhi⟩ := linearGrid_bounds (sortQ_sorted obs) (sortQ_ne_nil hn) hm'
  rw [← cdft_self_sum d obs H hn hm' hH' hr, sortQ_head obs hn, sortQ_length, sortQ_last obs hn, hl'] at hlo hhi
  rw [hmean, sortQ_length]
  unfold mean
  rw [hlen]
  have hn0 : (0 : Rat) < (obs.length : Rat) := by exact_mod_cast List.length_pos_iff.mpr hn
  have hm0 : (0 : Rat) < (H.length : Rat) := by
    have : 0 < H.length := by omega
    exact_mod_cast this
  have hnm := mul_pos hn0 hm0
  generalize (cdftMapping d .linear .linear obs H H).sum = S at hlo hhi ⊢
  generalize (sortQ obs).sum = T at hlo hhi ⊢
  generalize maxQ obs - minQ obs = R at hlo hhi ⊢
  have k1 : S / (H.length : Rat) - T / (obs.length : Rat)
      = ((obs.length : Rat) * S - (H.length : Rat) * T) / ((obs.length : Rat) * (H.length : Rat)) := by
    field_simp
  have k2 : R * (1 / (obs.length : Rat) + 1 / (H.length : Rat))
      = (((obs.length : Rat) + (H.length : Rat)) * R) / ((obs.length : Rat) * (H.length : Rat)) := by
    field_simp; ring
  rw [k1, k2, abs_le, ← neg_div]
  exact ⟨div_le_div_of_nonneg_right (by linarith) (le_of_lt hnm), div_le_div_of_nonneg_right (by linarith) (le_of_lt hnm)⟩

-- non-vacuity: every guard holds on a concrete instance with n = 3 ≠ m = 5 (additive shift; the shifted model sample
-- [4/5, 34/5, 14/5, -6/5, 29/5] covers the observed range [1, 6])
example : |mean (cdftMapping .additive .linear .linear [1, 2, 6] [20, 26, 22, 18, 25] [20, 26, 22, 18, 25]) - mean [1, 2, 6]| ≤
    (maxQ [1, 2, 6] - minQ [1, 2, 6]) * (1 / (([1, 2, 6] : List Rat).length : Rat) + 1 / (([20, 26, 22, 18, 25] : List Rat).length : Rat)) := by
  have h : (cdftShifted .additive [1, 2, 6] [20, 26, 22, 18, 25] [20, 26, 22, 18, 25]).1 = [4 / 5, 34 / 5, 14 / 5, -6 / 5, 29 / 5] := by
    decide +kernel
  have hmin : minQ ([4 / 5, 34 / 5, 14 / 5, -6 / 5, 29 / 5] : List Rat) = -6 / 5 := by decide +kernel
  have hmax : maxQ ([4 / 5, 34 / 5, 14 / 5, -6 / 5, 29 / 5] : List Rat) = 34 / 5 := by decide +kernel
  refine cdft_mean_bound .additive [1, 2, 6] [20, 26, 22, 18, 25] (by simp) (by decide) (by simp)
    (cdftShifted_additive_nodup _ _ (by decide +kernel)) ?_
  rw [h, hmin, hmax]
  decide +kernel
-- the bound is not trivially loose: on that instance the residual is −1/10 (the quantiles 1, 3/2, 2, 4, 6 of the
-- observations at r/4 have mean 29/10, the observations have mean 3); the proved bound is 5·(1/3 + 1/5) = 8/3
open Lemmas.C01Bound in
example : mean (cdftMapping .additive .linear .linear [1, 2, 6] [20, 26, 22, 18, 25] [20, 26, 22, 18, 25]) - mean [1, 2, 6] = -1 / 10 := by
  have h : (cdftShifted .additive [1, 2, 6] [20, 26, 22, 18, 25] [20, 26, 22, 18, 25]).1 = [4 / 5, 34 / 5, 14 / 5, -6 / 5, 29 / 5] := by
    decide +kernel
  have hmin : minQ ([4 / 5, 34 / 5, 14 / 5, -6 / 5, 29 / 5] : List Rat) = -6 / 5 := by decide +kernel
  have hmax : maxQ ([4 / 5, 34 / 5, 14 / 5, -6 / 5, 29 / 5] : List Rat) = 34 / 5 := by decide +kernel
  have hs : sortQ [1, 2, 6] = [1, 2, 6] := sortQ_of_sorted (by decide +kernel)
  have hnd := cdftShifted_additive_nodup [1, 2, 6] [20, 26, 22, 18, 25] (by decide +kernel)
  have hr : ∀ v ∈ ([1, 2, 6] : List Rat), minQ (cdftShifted .additive [1, 2, 6] [20, 26, 22, 18, 25] [20, 26, 22, 18, 25]).1 ≤ v ∧
      v ≤ maxQ (cdftShifted .additive [1, 2, 6] [20, 26, 22, 18, 25] [20, 26, 22, 18, 25]).1 := by
    rw [h, hmin, hmax]; decide +kernel
  have hm' : 2 ≤ (cdftShifted .additive [1, 2, 6] [20, 26, 22, 18, 25] [20, 26, 22, 18, 25]).1.length := by rw [h]; decide
  have hlen : (cdftMapping .additive .linear .linear [1, 2, 6] [20, 26, 22, 18, 25] [20, 26, 22, 18, 25]).length = 5 := by
    rw [cdft_self_value _ _ _ (by simp) hm' hnd hr, List.length_map, h]; rfl
  unfold mean
  rw [hlen, cdft_self_sum _ _ _ (by simp) hm' hnd hr, h, hs]
  decide +kernel

end Props.C01
