/-
  C19 on the code itself, part 2: `clusters_conserve`, the absence of the background row (F8), `spatial_extent_conserve`
  and its range transported along the tier-A equalities of `Lemmas/GenMetrics2.lean` onto the expressions regenerated
  from /repo's current `calculate_spatiotemporal_clusters` / `calculate_spatial_extent`.  Property theorems only.
-/
import IbicusModel.Props.C19
import IbicusModel.Lemmas.GenMetrics2

namespace Props.C19Gen2
open Model.Metrics Model.NpGrid Lemmas.GenMetrics2

/-- **clusters_conserve on the source's expression**: for a non-empty data set and a labelling (extern) that satisfies
    `LabelLaw` with `k` labels, the column that `calculate_spatiotemporal_clusters` reports *now* has `k` rows, all positive
    (so no background row), summing to the number of instances. -/
theorem source_clusters_conserve (label : Arr → Arr) (mk : Mask) (T I J k : Nat) (hne : T * I * J ≠ 0)
    (law : LabelLaw mk (label (inst mk)) T I J k) :
    ∃ l, denote label (.arr T I J (inst mk)) Gen.Metrics.clusters_body = .ok (.vecN l) ∧
      l.length = k ∧ (∀ s ∈ l, 0 < s) ∧ l.sum = total mk T I J := by
  refine ⟨clusterSizes mk (label (inst mk)) T I J, ?_, Props.C19.clusters_conserve mk _ T I J k law⟩
  rw [clusters_body_denote, if_neg hne]

-- the hypotheses are satisfiable: the labelling of `Props.C19.exMask` (two clusters on a 3 × 1 × 2 grid)
example : (match denote (fun _ => Props.C19.exLab) (.arr 3 1 2 (inst Props.C19.exMask)) Gen.Metrics.clusters_body with
    | .ok (.vecN l) => l | _ => []) = [2, 1] := by
  decide +kernel  -- concrete witness

/-- **F8 on the source's expression**: what the code before the repair computed starts with the background label's row,
    which is 0 under `LabelLaw` — and the source's expression is not that one (`clusters_src_not_legacy`). -/
theorem source_legacy_cluster_label0 (label : Arr → Arr) (mk : Mask) (T I J k : Nat) (hne : T * I * J ≠ 0)
    (law : LabelLaw mk (label (inst mk)) T I J k) :
    denote label (.arr T I J (inst mk)) legacyClustersTerm
      = .ok (.vecN (0 :: clusterSizes mk (label (inst mk)) T I J)) ∧ Gen.Metrics.clusters_body ≠ legacyClustersTerm := by
  refine ⟨?_, clusters_src_not_legacy⟩
  rw [legacy_clusters_denote label mk T I J hne, Props.C19.legacy_cluster_label0 mk _ T I J k law]

/-- **spatial_extent_conserve on the source's expression**: with at least one cell the reported extents times the number
    of cells sum to the number of instances, and every reported extent lies in `(0, 1]`. -/
theorem source_spatial_extent_conserve (label : Arr → Arr) (mk : Mask) (T I J : Nat) (hIJ : 0 < I * J) :
    ∃ l, denote label (.arr T I J (inst mk)) Gen.Metrics.spatial_extent_body = .ok (.vecQ l) ∧
      l.sum * ((I * J : Nat) : Rat) = ((total mk T I J : Nat) : Rat) ∧ (∀ e ∈ l, 0 < e ∧ e ≤ 1) := by
  refine ⟨spatialExtent mk T I J, ?_, Props.C19.spatial_extent_conserve mk T I J hIJ, fun e he =>
    ⟨Props.C19.spatial_extent_pos mk T I J e he, Props.C19.spatial_extent_le_one mk T I J hIJ e he⟩⟩
  rw [spatial_extent_body_denote, if_neg (Nat.pos_iff_ne_zero.mp hIJ)]

example : (match denote id (.arr 4 2 3 (inst (fun t i _ => decide (t = 1 ∨ (t = 2 ∧ i = 0))))) Gen.Metrics.spatial_extent_body with
    | .ok (.vecQ l) => l | _ => []) = [1, 1 / 2] := by
  decide +kernel  -- concrete witness

end Props.C19Gen2
