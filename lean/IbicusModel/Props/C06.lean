/-
  C06 — values stay attached to their time steps (time-order equivariance).
  Part 1 (this file): the write-back skeletons, for an arbitrary element type and any window function that is
  pointwise over an order-free context.  Part 2 (`Props/C06Inst.lean`): every debiaser window function is of that form.
-/
import IbicusModel.Lemmas.Lift
import IbicusModel.Lemmas.Perm
import IbicusModel.Lemmas.Years

namespace Props.C06
open Model.Skeleton Model.Windows Lemmas.Windows Lemmas.Skeleton Lemmas.Pointwise Lemmas.Perm Lemmas.Years

/-- the context map of a window function does not depend on the storage order of the three samples -/
def OrderFree {α} (G : List α → List α → List α → α → α) : Prop :=
  ∀ o o' h h' x x', o.Perm o' → h.Perm h' → x.Perm x' → G o h x = G o' h' x'

theorem getElem_take {α} (x : List α) (p : List Nat) (hv : ∀ j ∈ p, j < x.length) (k : Nat) (hk : k < p.length)
    (hk' : k < (take x p).length) : (take x p)[k] = x[p[k]]'(hv _ (List.getElem_mem hk)) := by
  have := take_getElem? x p hv k
  rw [List.getElem?_eq_getElem hk', List.getElem?_eq_getElem hk] at this
  simp only [Option.bind_some] at this
  rw [List.getElem?_eq_getElem (hv _ (List.getElem_mem hk))] at this
  exact Option.some.inj this

/-- **Time-order equivariance of the running-window skeleton.**  For a window function that is pointwise over an
    order-free context, permuting each of the three dated series (values together with their days of year, each
    with its own permutation) permutes the result exactly like `cm_future`: every time step keeps its value. -/
theorem equivariance_RW {α} (f : WinFn α) (G : List α → List α → List α → α → α)
    (hf : PointwiseOn f G) (hG : OrderFree G) (L S h : Int) (dO dH dF : List Int) (obs hist fut : List α)
    (pO pH pF : List Nat)
    (hpO : pO.Perm (List.range obs.length)) (hpH : pH.Perm (List.range hist.length))
    (hpF : pF.Perm (List.range fut.length))
    (hlO : dO.length = obs.length) (hlH : dH.length = hist.length) (hlF : dF.length = fut.length)
    (hS : S = 2 * h + 1) (hh : 0 ≤ h) (hSL : S ≤ L) (hr : ∀ d ∈ dF, 1 ≤ d ∧ d ≤ 366) :
    ∃ out, applyLocationRW f L S dO dH dF obs hist fut = .ok out ∧
      applyLocationRW f L S (take dO pO) (take dH pH) (take dF pF) (take obs pO) (take hist pH) (take fut pF)
        = .ok (take out pF) := by
  obtain ⟨out, hrun, hl, hval⟩ := applyLocationRW_value f G hf L S h dO dH dF obs hist fut hS hh hSL hlF hr
  have hvF := perm_valid pF hpF
  have hvFd : ∀ j ∈ pF, j < dF.length := fun j hj => hlF ▸ hvF j hj
  have hpFd : pF.Perm (List.range dF.length) := hlF ▸ hpF
  have hlen' : (take dF pF).length = (take fut pF).length := by
    rw [take_length dF pF hvFd, take_length fut pF hvF]
  have hr' : ∀ d ∈ take dF pF, 1 ≤ d ∧ d ≤ 366 :=
    fun d hd => hr d ((take_perm dF pF hpFd).mem_iff.mp hd)
  obtain ⟨out', hrun', hl', hval'⟩ := applyLocationRW_value f G hf L S h (take dO pO) (take dH pH) (take dF pF)
    (take obs pO) (take hist pH) (take fut pF) hS hh hSL hlen' hr'
  refine ⟨out, hrun, ?_⟩
  rw [hrun']
  congr 1
  have hpl : pF.length = fut.length := by simpa using hpF.length_eq
  apply List.ext_getElem?
  intro k
  have hvO : ∀ j ∈ pF, j < out.length := fun j hj => hl ▸ hvF j hj
  rw [take_getElem? out pF hvO k]
  by_cases hk : k < pF.length
  · have hkf : k < (take fut pF).length := by rw [take_length fut pF hvF]; exact hk
    have hj : pF[k] < fut.length := hvF _ (List.getElem_mem hk)
    -- the centre adjusting the original step pF[k]
    obtain ⟨c, hc⟩ := Props.C07.use_cover_unique S h dF pF[k] hS hh (by omega) (fun d hd => by have := hr d hd; omega)
    have hcm : c ∈ (useCenters S dF).filter (fun c => (idxAdjust S dF c).contains pF[k]) := by
      rw [hc]; exact List.mem_singleton.mpr rfl
    obtain ⟨hc1, hc2⟩ := List.mem_filter.mp hcm
    have hic : pF[k] ∈ idxAdjust S dF c := List.contains_iff_mem.mp hc2
    -- it also adjusts step k of the permuted series
    have hc1' : c ∈ useCenters S (take dF pF) := by
      rw [useCenters_perm S (take dF pF) dF (take_perm dF pF hpFd)]; exact hc1
    have hkd : k < (take dF pF).length := by rw [take_length dF pF hvFd]; exact hk
    have hic' : k ∈ idxAdjust S (take dF pF) c := by
      unfold idxAdjust at hic ⊢
      obtain ⟨hlt, hm⟩ := (mem_indicesIn _ _ _).mp hic
      refine (mem_indicesIn _ _ _).mpr ⟨hkd, ?_⟩
      rw [getElem_take dF pF hvFd k hk hkd]
      exact hm
    rw [hval' k hkf c hc1' hic', List.getElem?_eq_getElem hk, Option.bind_some, hval pF[k] hj c hc1 hic]
    have e1 := hG _ _ _ _ _ _
      (window_sample_perm obs dO (windowRange L c) pO hlO.symm hpO)
      (window_sample_perm hist dH (windowRange L c) pH hlH.symm hpH)
      (window_sample_perm fut dF (windowRange L c) pF hlF.symm hpF)
    unfold idxWindow
    rw [e1, getElem_take fut pF hvF k hk hkf]
  · have : out'.length = pF.length := by rw [hl', take_length fut pF hvF]
    rw [List.getElem?_eq_none (by omega), List.getElem?_eq_none (by omega)]
    rfl


/-! ### DeltaChange: the same loop with the roles of `obs` and `cm_future` exchanged -/

/-- exchange the first and the third sample of a window function -/
def swapFn {α} (f : WinFn α) : WinFn α := fun o h x io ih ix => f x h o ix ih io

theorem applyLocationDC_eq_RW {α} (f : WinFn α) (L S : Int) (dO dH dF : List Int) (obs hist fut : List α) :
    applyLocationDC f L S dO dH dF obs hist fut = applyLocationRW (swapFn f) L S dF dH dO fut hist obs := rfl

/-- **Time-order equivariance, DeltaChange**: the window function is pointwise in the `obs` sample; the result is
    permuted exactly like `obs`. -/
theorem equivariance_DC {α} (f : WinFn α) (G : List α → List α → List α → α → α)
    (hf : ∀ o h x io ih ix, f o h x io ih ix = .ok (o.map (G o h x))) (hG : OrderFree G)
    (L S h : Int) (dO dH dF : List Int) (obs hist fut : List α) (pO pH pF : List Nat)
    (hpO : pO.Perm (List.range obs.length)) (hpH : pH.Perm (List.range hist.length))
    (hpF : pF.Perm (List.range fut.length))
    (hlO : dO.length = obs.length) (hlH : dH.length = hist.length) (hlF : dF.length = fut.length)
    (hS : S = 2 * h + 1) (hh : 0 ≤ h) (hSL : S ≤ L) (hr : ∀ d ∈ dO, 1 ≤ d ∧ d ≤ 366) :
    ∃ out, applyLocationDC f L S dO dH dF obs hist fut = .ok out ∧
      applyLocationDC f L S (take dO pO) (take dH pH) (take dF pF) (take obs pO) (take hist pH) (take fut pF)
        = .ok (take out pO) := by
  simp only [applyLocationDC_eq_RW]
  apply equivariance_RW (swapFn f) (fun x h o => G o h x) _ _ L S h dF dH dO fut hist obs pF pH pO
    hpF hpH hpO hlF hlH hlO hS hh hSL hr
  · intro o h x io ih ix
    exact hf x h o ix ih io
  · intro o o' h h' x x' ho hh' hx
    exact hG _ _ _ _ _ _ hx hh' ho

/-! ### Year windows of the future period (CDFt / QDM) -/

/-- the context map of a per-year-window function does not depend on the storage order of the sample -/
def OrderFreeY {α} (G : List α → α → α) : Prop := ∀ x x', x.Perm x' → G x = G x'

theorem yearCenters_perm (S : Int) (ys ys' : List Int) (h : ys.Perm ys') : yearCenters S ys = yearCenters S ys' := by
  unfold yearCenters
  simp only []
  rw [minL_perm ys ys' h, maxL_perm ys ys' h]
  split_ifs
  · rfl
  · apply List.filter_congr
    intro c _
    unfold Py.isin
    simp only [List.any_map, Function.comp, id]
    rw [Bool.eq_iff_iff, List.any_eq_true, List.any_eq_true]
    constructor <;> rintro ⟨y, hy, hc⟩ <;> refine ⟨y, hy, ?_⟩
    · simp only [Function.comp, id, List.contains_iff_mem] at hc ⊢; exact h.mem_iff.mp hc
    · simp only [Function.comp, id, List.contains_iff_mem] at hc ⊢; exact h.mem_iff.mpr hc

/-- **Time-order equivariance of the year-window loop**, for every set of years present. -/
theorem equivariance_years {α} (g : YearFn α) (G : List α → α → α) (hg : PointwiseY g G) (hG : OrderFreeY G)
    (L S h : Int) (years : List Int) (fut : List α) (p : List Nat)
    (hp : p.Perm (List.range fut.length)) (hlen : years.length = fut.length)
    (hS : S = 2 * h + 1) (hh : 0 ≤ h) (hSL : S ≤ L) :
    ∃ out, applyYears g L S years fut = .ok out ∧
      applyYears g L S (take years p) (take fut p) = .ok (take out p) := by
  obtain ⟨out, hrun, hl, hval⟩ := applyYears_value g G hg L S h years fut hS hh hSL hlen
  have hv := perm_valid p hp
  have hvy : ∀ j ∈ p, j < years.length := fun j hj => hlen ▸ hv j hj
  have hpy : p.Perm (List.range years.length) := hlen ▸ hp
  have hlen' : (take years p).length = (take fut p).length := by
    rw [take_length years p hvy, take_length fut p hv]
  obtain ⟨out', hrun', hl', hval'⟩ := applyYears_value g G hg L S h (take years p) (take fut p) hS hh hSL hlen'
  refine ⟨out, hrun, ?_⟩
  rw [hrun']
  congr 1
  apply List.ext_getElem?
  intro k
  have hvO : ∀ j ∈ p, j < out.length := fun j hj => hl ▸ hv j hj
  rw [take_getElem? out p hvO k]
  by_cases hk : k < p.length
  · have hkf : k < (take fut p).length := by rw [take_length fut p hv]; exact hk
    have hky : k < (take years p).length := by rw [take_length years p hvy]; exact hk
    have hj : p[k] < fut.length := hv _ (List.getElem_mem hk)
    have hjy : p[k] < years.length := hvy _ (List.getElem_mem hk)
    obtain ⟨c, hc⟩ := Props.C07.years_cover_unique S h years years[p[k]] hS hh (List.getElem_mem hjy)
    have hcm : c ∈ (yearCenters S years).filter (fun c => inBlock S c years[p[k]]) := by
      rw [hc]; exact List.mem_singleton.mpr rfl
    obtain ⟨hc1, hc2⟩ := List.mem_filter.mp hcm
    have hic : p[k] ∈ indicesIn years (yearsAdjusted S c) :=
      (mem_indicesIn _ _ _).mpr ⟨hjy, (Props.C07.mem_yearsAdjusted S c _).mpr hc2⟩
    have hc1' : c ∈ yearCenters S (take years p) := by
      rw [yearCenters_perm S (take years p) years (take_perm years p hpy)]; exact hc1
    have hic' : k ∈ indicesIn (take years p) (yearsAdjusted S c) := by
      refine (mem_indicesIn _ _ _).mpr ⟨hky, ?_⟩
      rw [getElem_take years p hvy k hk hky]
      exact (Props.C07.mem_yearsAdjusted S c _).mpr hc2
    rw [hval' k hkf c hc1' hic', List.getElem?_eq_getElem hk, Option.bind_some, hval p[k] hj c hc1 hic]
    rw [hG _ _ (window_sample_perm fut years (yearsInWindow L c) p hlen.symm hp), getElem_take fut p hv k hk hkf]
  · have : out'.length = p.length := by rw [hl', take_length fut p hv]
    rw [List.getElem?_eq_none (by omega), List.getElem?_eq_none (by omega)]
    rfl

end Props.C06
