/-
  C05 — grid application is exactly the per-location method, serial or parallel.
  Property theorems only (helper lemmas live in `Lemmas/Grid`).  Stated on `Model.Grid`, for an arbitrary
  element type `α`, exception type `ε` and location function: the statements are bit-for-bit because no
  arithmetic is used.  `m : Mode` is `serial` or `parallel sched`; `ModeOk m nx ny` says that a pool's
  completion schedule `sched` is *some* permutation of the tasks — the theorems hold for every one.

  Partial (not modelled): process start, pickling, per-worker RNG state.  "Whatever order the pool completes
  locations in" is proved for the slot model of the pool in `Model.Grid.poolRun` (`starmap_contract` below);
  that this is what `multiprocessing.Pool.starmap` does is trusted and exercised by the tier-B runs.
-/
import IbicusModel.Lemmas.Grid
import IbicusModel.Lemmas.GridState
import IbicusModel.Lemmas.GenGridLoops
import IbicusModel.Model.GridRefresh

namespace Props.C05
open Model.Grid Lemmas.Grid Lemmas.GridState

variable {α ε : Type}

/-! ### the two index enumerations -/

/-- `np.ndindex((nx, ny))` (serial loop) and `[(i, j) for i in range(nx) for j in range(ny)]` (parallel
    argument list and write-back) are the same list, for every grid shape (also `nx = 0` or `ny = 0`). -/
theorem ndindex_eq_comprehension (nx ny : Nat) : ndindex nx ny = pairIndices nx ny :=
  ndindex_eq_pairIndices nx ny

/-- every cell of the grid is visited exactly once (so every column of the buffer is written exactly once),
    and nothing outside the grid is visited -/
theorem cell_visited_once (nx ny : Nat) (c : Cell) :
    (ndindex nx ny).count c = if c.1 < nx ∧ c.2 < ny then 1 else 0 := by
  rw [ndindex_eq_pairIndices, (pairIndices_nodup nx ny).count]
  simp only [mem_pairIndices]

example : ndindex 2 3 = [(0, 0), (0, 1), (0, 2), (1, 0), (1, 1), (1, 2)] := by decide
example : ndindex 1 3 = [(0, 0), (0, 1), (0, 2)] ∧ ndindex 3 1 = [(0, 0), (1, 0), (2, 0)] := by decide

/-! ### shape, cell-wise result, independence -/

/-- **Shape.** Whatever is returned has the shape `(T, nx, ny)` of the buffer (`T` = time length of
    `cm_future`, of `obs` for DeltaChange, see `debiaser_shape` / `deltachange_shape`). -/
theorem apply_shape (f : Cell → Except ε (List α)) (fs : Bool) (T nx ny : Nat) (m : Mode)
    (hm : ModeOk m nx ny) (out : Arr3 (Elem α)) (h : applyGrid f fs T nx ny m = .ok out) :
    Shaped out T nx ny :=
  (grid_ok_inv f fs T nx ny m hm out h).1

/-- **No element of the returned array is left unwritten** (no uninitialised memory escapes). -/
theorem apply_all_written (f : Cell → Except ε (List α)) (fs : Bool) (T nx ny : Nat) (m : Mode)
    (hm : ModeOk m nx ny) (out : Arr3 (Elem α)) (h : applyGrid f fs T nx ny m = .ok out)
    (t i j : Nat) (ht : t < T) (hi : i < nx) (hj : j < ny) : ∃ v, get3 out t i j = some (some v) := by
  obtain ⟨hsh, hcols⟩ := grid_ok_inv f fs T nx ny m hm out h
  obtain ⟨col, hcol, hsl⟩ := hcols i j hi hj
  have hlen := cellCol_length hcol
  have hlt : t < col.length := by omega
  refine ⟨col[t], ?_⟩
  rw [← slice_getElem? hsh hi hj t, hsl]
  simp [List.getElem?_eq_getElem hlt]

/-- **Cell-wise.** The column at `(i, j)` of the returned array is exactly what the location function
    returns for that cell — every grid shape (`1×N`, `N×1`, `1×1` included), every `α`, every `f`,
    serial or any completion schedule. -/
theorem apply_cellwise (f : Cell → Except ε (List α)) (fs : Bool) (T nx ny : Nat) (m : Mode)
    (hm : ModeOk m nx ny) (out : Arr3 (Elem α)) (h : applyGrid f fs T nx ny m = .ok out)
    (i j : Nat) (hi : i < nx) (hj : j < ny) (v : List α) (hv : f (i, j) = .ok v) (hl : v.length = T) :
    slice out i j = v.map (fun x => some (.val x)) := by
  obtain ⟨col, hcol, hsl⟩ := (grid_ok_inv f fs T nx ny m hm out h).2 i j hi hj
  rw [cellCol_series f fs T (i, j) v hv hl] at hcol
  rw [hsl, ← Except.ok.inj hcol, List.map_map]; rfl

/-- … and an array *is* returned when every location returns a series of the buffer's time length. -/
theorem apply_total (f : Cell → Except ε (List α)) (fs : Bool) (T nx ny : Nat) (m : Mode)
    (hm : ModeOk m nx ny) (hall : ∀ i j, i < nx → j < ny → ∃ v, f (i, j) = .ok v ∧ v.length = T) :
    ∃ out, applyGrid f fs T nx ny m = .ok out :=
  ⟨_, grid_ok_of_all f fs T nx ny m hm (fun i j hi hj => by
    obtain ⟨v, hv, hl⟩ := hall i j hi hj
    exact ⟨_, cellCol_series f fs T (i, j) v hv hl⟩)⟩

/-- **No cell influences another.** Two location functions that agree at `(i, j)` — e.g. the same debiaser
    on data that differs in other cells only — give the same column at `(i, j)`, whatever the modes,
    failsafe flags being equal. -/
theorem cell_independence (f g : Cell → Except ε (List α)) (fs : Bool) (T nx ny : Nat) (m m' : Mode)
    (hm : ModeOk m nx ny) (hm' : ModeOk m' nx ny) (out out' : Arr3 (Elem α))
    (h : applyGrid f fs T nx ny m = .ok out) (h' : applyGrid g fs T nx ny m' = .ok out')
    (i j : Nat) (hi : i < nx) (hj : j < ny) (hfg : f (i, j) = g (i, j)) :
    slice out i j = slice out' i j := by
  obtain ⟨col, hcol, hsl⟩ := (grid_ok_inv f fs T nx ny m hm out h).2 i j hi hj
  obtain ⟨col', hcol', hsl'⟩ := (grid_ok_inv g fs T nx ny m' hm' out' h').2 i j hi hj
  have : cellCol f fs T (i, j) = cellCol g fs T (i, j) := by unfold cellCol; rw [hfg]
  rw [this, hcol'] at hcol
  rw [hsl, hsl', Except.ok.inj hcol]

/-! ### broadcasting of the right-hand side of `output[:, i, j] = result` -/

/-- the scalar NaN that failsafe mode returns for a raising location fills that location's whole column -/
theorem scalar_broadcast (f : Cell → Except ε (List α)) (T nx ny : Nat) (m : Mode)
    (hm : ModeOk m nx ny) (out : Arr3 (Elem α)) (h : applyGrid f true T nx ny m = .ok out)
    (i j : Nat) (hi : i < nx) (hj : j < ny) (e : ε) (he : f (i, j) = .error e) :
    slice out i j = List.replicate T (some .nan) := by
  obtain ⟨col, hcol, hsl⟩ := (grid_ok_inv f true T nx ny m hm out h).2 i j hi hj
  rw [cellCol_failsafe f T (i, j) e he] at hcol
  rw [hsl, ← Except.ok.inj hcol, List.map_replicate]

/-- a length-1 result is broadcast over the column too (numpy semantics; no built-in debiaser returns one) -/
theorem length_one_broadcast (f : Cell → Except ε (List α)) (fs : Bool) (T nx ny : Nat) (m : Mode)
    (hm : ModeOk m nx ny) (out : Arr3 (Elem α)) (h : applyGrid f fs T nx ny m = .ok out)
    (i j : Nat) (hi : i < nx) (hj : j < ny) (x : α) (hx : f (i, j) = .ok [x]) :
    slice out i j = List.replicate T (some (.val x)) := by
  obtain ⟨col, hcol, hsl⟩ := (grid_ok_inv f fs T nx ny m hm out h).2 i j hi hj
  rw [cellCol_single f fs T (i, j) x hx] at hcol
  rw [hsl, ← Except.ok.inj hcol, List.map_replicate]

/-- **A result of the wrong length is an error, not a silent write** — in every mode, and failsafe mode does
    not turn it into NaN (the assignment is outside the `try`). -/
theorem wrong_length_no_array (f : Cell → Except ε (List α)) (fs : Bool) (T nx ny : Nat) (m : Mode)
    (hm : ModeOk m nx ny) (i j : Nat) (hi : i < nx) (hj : j < ny) (v : List α) (hv : f (i, j) = .ok v)
    (hl : v.length ≠ T) (h1 : v.length ≠ 1) (out : Arr3 (Elem α)) : applyGrid f fs T nx ny m ≠ .ok out := by
  intro h
  obtain ⟨col, hcol, _⟩ := (grid_ok_inv f fs T nx ny m hm out h).2 i j hi hj
  rw [cellCol_wrong_length f fs T (i, j) v hv hl h1] at hcol
  cases hcol

/-- serial: if the first cell (row-major) that does not contribute a column returns a wrong length, the
    run ends with numpy's broadcast `ValueError` -/
theorem wrong_length_serial (f : Cell → Except ε (List α)) (fs : Bool) (T nx ny : Nat)
    (pre post : List Cell) (c : Cell) (hsplit : ndindex nx ny = pre ++ c :: post)
    (hpre : ∀ c' ∈ pre, ∃ v, f c' = .ok v ∧ v.length = T)
    (v : List α) (hv : f c = .ok v) (hl : v.length ≠ T) (h1 : v.length ≠ 1) :
    applySerial f fs T nx ny = .error .broadcast :=
  serial_first_error f fs T nx ny pre post c .broadcast hsplit
    (fun c' hc' => by
      obtain ⟨v', hv', hl'⟩ := hpre c' hc'
      exact ⟨_, cellCol_series f fs T c' v' hv' hl'⟩)
    (cellCol_wrong_length f fs T c v hv hl h1)

/-! ### parallel = serial for every completion schedule -/

/-- **The `starmap` contract, derived from the slot model of the pool**: whatever order the tasks complete in
    (`sched` any permutation of the task positions), the result list is in argument order. -/
theorem starmap_contract {β γ : Type} (g : β → Except (Err ε) γ) (r : β → γ) (args : List β) (sched : List Nat)
    (hs : sched.Perm (List.range args.length)) (hg : ∀ a ∈ args, g a = .ok (r a)) :
    starmap g args sched = .ok (args.map r) :=
  starmap_ok g r args sched hs hg

/-- **parallel = serial, as values of `Except`**, for every completion schedule, whenever no exception of a
    location function propagates (failsafe mode, or no location raises) — including the runs that end with a
    broadcast error. -/
theorem parallel_eq_serial (f : Cell → Except ε (List α)) (fs : Bool) (T nx ny : Nat) (sched : List Nat)
    (hs : sched.Perm (List.range (nx * ny)))
    (hall : fs = true ∨ ∀ i j, i < nx → j < ny → ∃ v, f (i, j) = .ok v) :
    applyParallel f fs T nx ny sched = applySerial f fs T nx ny := by
  apply parallel_eq_serial_of_caught f fs T nx ny sched hs
  intro c hc
  rcases hall with rfl | hall
  · exact runCatch_failsafe _
  · have := (mem_pairIndices nx ny c).mp hc
    obtain ⟨v, hv⟩ := hall c.1 c.2 this.1 this.2
    exact ⟨.series v, by show runCatch fs (f c) = _; rw [hv]; rfl⟩

/-- **In general**: for every completion schedule the parallel run returns an array iff the serial run does,
    and then the same array.  (When a location raises and failsafe is off both raise; *which* exception the
    pool re-raises depends on the schedule — see `Props.C13`.) -/
theorem parallel_ok_iff_serial_ok (f : Cell → Except ε (List α)) (fs : Bool) (T nx ny : Nat) (sched : List Nat)
    (hs : sched.Perm (List.range (nx * ny))) (out : Arr3 (Elem α)) :
    applyParallel f fs T nx ny sched = .ok out ↔ applySerial f fs T nx ny = .ok out :=
  parallel_ok_iff f fs T nx ny sched hs out

/-- two schedules give the same array: the number of workers and the order of completion are unobservable -/
theorem schedule_irrelevant (f : Cell → Except ε (List α)) (fs : Bool) (T nx ny : Nat) (s1 s2 : List Nat)
    (h1 : s1.Perm (List.range (nx * ny))) (h2 : s2.Perm (List.range (nx * ny))) (out : Arr3 (Elem α)) :
    applyParallel f fs T nx ny s1 = .ok out ↔ applyParallel f fs T nx ny s2 = .ok out := by
  rw [parallel_ok_iff f fs T nx ny s1 h1, parallel_ok_iff f fs T nx ny s2 h2]

/-! ### `Debiaser.apply` / `DeltaChange.apply` on data -/

/-- `Debiaser.apply`: the output has the time length of `cm_future` and the common spatial shape, whatever
    the time lengths of `obs` and `cm_hist` are. -/
theorem debiaser_shape (loc : LocFn α ε) (fs : Bool) (obs hist fut : Arr3 α) (nx ny : Nat) (m : Mode)
    (hm : ModeOk m nx ny) (out : Arr3 (Elem α)) (h : debiaserApply loc fs obs hist fut nx ny m = .ok out) :
    Shaped out fut.length nx ny :=
  apply_shape _ fs _ nx ny m hm out h

/-- `DeltaChange.apply`: the output has the time length of **`obs`**. -/
theorem deltachange_shape (loc : LocFn α ε) (fs : Bool) (obs hist fut : Arr3 α) (nx ny : Nat) (m : Mode)
    (hm : ModeOk m nx ny) (out : Arr3 (Elem α)) (h : deltaChangeApply loc fs obs hist fut nx ny m = .ok out) :
    Shaped out obs.length nx ny :=
  apply_shape _ fs _ nx ny m hm out h

/-- **`apply` = stacked `apply_location`** (`Debiaser.apply`; three different time lengths allowed): the
    column at `(i, j)` is `apply_location(obs[:, i, j], cm_hist[:, i, j], cm_future[:, i, j])`. -/
theorem debiaser_cellwise (loc : LocFn α ε) (fs : Bool) (obs hist fut : Arr3 α) (nx ny : Nat) (m : Mode)
    (hm : ModeOk m nx ny) (out : Arr3 (Elem α)) (h : debiaserApply loc fs obs hist fut nx ny m = .ok out)
    (i j : Nat) (hi : i < nx) (hj : j < ny) (v : List α)
    (hv : loc (slice obs i j) (slice hist i j) (slice fut i j) = .ok v) (hl : v.length = fut.length) :
    slice out i j = v.map (fun x => some (.val x)) :=
  apply_cellwise _ fs _ nx ny m hm out h i j hi hj v hv hl

/-- the same for `DeltaChange.apply` (result length = length of `obs`) -/
theorem deltachange_cellwise (loc : LocFn α ε) (fs : Bool) (obs hist fut : Arr3 α) (nx ny : Nat) (m : Mode)
    (hm : ModeOk m nx ny) (out : Arr3 (Elem α)) (h : deltaChangeApply loc fs obs hist fut nx ny m = .ok out)
    (i j : Nat) (hi : i < nx) (hj : j < ny) (v : List α)
    (hv : loc (slice obs i j) (slice hist i j) (slice fut i j) = .ok v) (hl : v.length = obs.length) :
    slice out i j = v.map (fun x => some (.val x)) :=
  apply_cellwise _ fs _ nx ny m hm out h i j hi hj v hv hl

/-- **No cross-cell leakage on data**: change `obs`, `cm_hist`, `cm_future` anywhere except in the three
    columns of cell `(i, j)` (time lengths of the other data may even change, as long as `cm_future` keeps its
    own) — the output column at `(i, j)` does not change.  Serial or parallel on either side. -/
theorem data_cell_independence (loc : LocFn α ε) (fs : Bool) (obs hist fut obs' hist' fut' : Arr3 α)
    (nx ny : Nat) (m m' : Mode) (hm : ModeOk m nx ny) (hm' : ModeOk m' nx ny) (out out' : Arr3 (Elem α))
    (h : debiaserApply loc fs obs hist fut nx ny m = .ok out)
    (h' : debiaserApply loc fs obs' hist' fut' nx ny m' = .ok out')
    (hT : fut.length = fut'.length)
    (i j : Nat) (hi : i < nx) (hj : j < ny)
    (ho : slice obs i j = slice obs' i j) (hh : slice hist i j = slice hist' i j)
    (hf : slice fut i j = slice fut' i j) :
    slice out i j = slice out' i j := by
  unfold debiaserApply at h h'
  rw [← hT] at h'
  apply cell_independence _ _ fs _ nx ny m m' hm hm' out out' h h' i j hi hj
  show loc _ _ _ = loc _ _ _
  rw [ho, hh, hf]

/-! ### non-vacuity: a concrete 2×3 grid (and 1×3, 3×1, 1×1), three different time lengths -/

namespace Example

instance {β : Type} (a : Arr3 β) (T nx ny : Nat) : Decidable (Shaped a T nx ny) := by
  unfold Shaped; infer_instance

/-- obs: 2 time steps; entry = 100·t + 10·i + j -/
def obs : Arr3 Nat := [[[0, 1, 2], [10, 11, 12]], [[100, 101, 102], [110, 111, 112]]]
/-- cm_hist: 1 time step -/
def hist : Arr3 Nat := [[[5, 6, 7], [8, 9, 4]]]
/-- cm_future: 3 time steps -/
def fut : Arr3 Nat := [[[1, 2, 3], [4, 5, 6]], [[7, 8, 9], [1, 3, 5]], [[2, 4, 6], [8, 1, 2]]]

/-- a location function that looks at all three columns -/
def loc : LocFn Nat String := fun o h x => .ok (x.map (fun v => 1000000 * v + 1000 * o.sum + h.sum))

/-- DeltaChange-like: result on the time axis of `obs` -/
def locDC : LocFn Nat String := fun o h x => .ok (o.map (fun v => 1000000 * v + 1000 * h.sum + x.sum))

/-- a completion schedule in which the last task completes first -/
def sched : List Nat := [5, 2, 0, 4, 1, 3]

example : sched.Perm (List.range (2 * 3)) := by decide

example : slice obs 1 2 = [12, 112] ∧ slice hist 1 2 = [4] ∧ slice fut 1 2 = [6, 5, 2] := by decide

/-- the serial run returns an array whose column (1,2) is `loc` on the three columns of (1,2) -/
example : ∃ out, debiaserApply loc false obs hist fut 2 3 .serial = .ok out ∧
    slice out 1 2 = [some (.val 6124004), some (.val 5124004), some (.val 2124004)] ∧
    slice out 0 0 = [some (.val 1100005), some (.val 7100005), some (.val 2100005)] :=
  ⟨_, rfl, by decide, by decide⟩

/-- the parallel run under `sched` returns the very same array -/
example : debiaserApply loc false obs hist fut 2 3 (.parallel sched) =
    debiaserApply loc false obs hist fut 2 3 .serial := by decide

/-- DeltaChange: output on the time axis of `obs` (2 steps), although `cm_future` has 3 -/
example : ∃ out, deltaChangeApply locDC false obs hist fut 2 3 (.parallel sched) = .ok out ∧
    Shaped out 2 2 3 ∧ slice out 1 2 = [some (.val 12004013), some (.val 112004013)] :=
  ⟨_, rfl, by decide, by decide⟩

/-- legacy (a mutant, not the code): a DeltaChange buffer with the shape of `cm_future` (3 steps) cannot
    take the 2-step result: numpy's broadcast error -/
example : applyGrid (cellFn locDC obs hist fut) false fut.length 2 3 .serial = .error .broadcast := by decide

/-- `1×3`, `3×1` and `1×1` grids -/
example : applySerial (ε := String) (fun c => .ok [c.1, c.2]) false 2 1 3 =
    .ok [[[some (.val 0), some (.val 0), some (.val 0)]], [[some (.val 0), some (.val 1), some (.val 2)]]] := by decide
example : applyParallel (ε := String) (fun c => .ok [c.1, c.2]) false 2 3 1 [2, 0, 1] =
    .ok [[[some (.val 0)], [some (.val 1)], [some (.val 2)]], [[some (.val 0)], [some (.val 0)], [some (.val 0)]]] := by decide
example : applySerial (ε := String) (fun _ => .ok [7]) false 1 1 1 = .ok [[[some (.val 7)]]] := by decide

/-- a wrong-length result at (0,1): error in serial, parallel, and with failsafe on -/
example : applySerial (ε := String) (fun c => if c = (0, 1) then .ok [1, 2, 3] else .ok [1, 2]) true 2 2 2 =
    .error .broadcast := by decide
example : applyParallel (ε := String) (fun c => if c = (0, 1) then .ok [1, 2, 3] else .ok [1, 2]) true 2 2 2 [3, 2, 1, 0] =
    .error .broadcast := by decide

end Example

/-! ## Round 4: input columns, keyword arguments, the pool's chunking, instance state, dispatch -/

/-- **`obs[:, i, j]` is the column**: for an input of shape `(T, nx, ny)` and a cell inside the grid, `slice` has the
    array's time length and its `t`-th element is `a[t, i, j]` (so the data-level theorems above speak about the real
    columns; outside the shape numpy raises, which cannot happen because indices come from the shape). -/
theorem input_slice_is_column {β : Type} (a : Arr3 β) (T nx ny i j : Nat) (h : Shaped a T nx ny) (hi : i < nx) (hj : j < ny) :
    (slice a i j).length = T ∧ ∀ t, (slice a i j)[t]? = get3 a t i j :=
  ⟨slice_length h hi hj, fun t => slice_getElem? h hi hj t⟩

example : Shaped Example.fut 3 2 3 ∧ (1 : Nat) < 2 ∧ (2 : Nat) < 3 := by decide

/-- no cross-cell leakage on data, `DeltaChange.apply` (the output follows `obs`) -/
theorem deltachange_data_cell_independence (loc : LocFn α ε) (fs : Bool) (obs hist fut obs' hist' fut' : Arr3 α)
    (nx ny : Nat) (m m' : Mode) (hm : ModeOk m nx ny) (hm' : ModeOk m' nx ny) (out out' : Arr3 (Elem α))
    (h : deltaChangeApply loc fs obs hist fut nx ny m = .ok out)
    (h' : deltaChangeApply loc fs obs' hist' fut' nx ny m' = .ok out')
    (hT : obs.length = obs'.length)
    (i j : Nat) (hi : i < nx) (hj : j < ny)
    (ho : slice obs i j = slice obs' i j) (hh : slice hist i j = slice hist' i j)
    (hf : slice fut i j = slice fut' i j) :
    slice out i j = slice out' i j := by
  unfold deltaChangeApply at h h'
  rw [← hT] at h'
  apply cell_independence _ _ fs _ nx ny m m' hm hm' out out' h h' i j hi hj
  show loc _ _ _ = loc _ _ _
  rw [ho, hh, hf]

/-- **Keyword arguments reach every location unchanged**, in every mode, for `Debiaser.apply` … -/
theorem kwargs_forwarded {κ : Type} (loc : LocFnKw κ α ε) (kw : κ) (fs : Bool) (obs hist fut : Arr3 α) (nx ny : Nat)
    (m : Mode) (hm : ModeOk m nx ny) (out : Arr3 (Elem α))
    (h : debiaserApplyKw loc kw fs obs hist fut nx ny m = .ok out)
    (i j : Nat) (hi : i < nx) (hj : j < ny) (v : List α)
    (hv : loc kw (slice obs i j) (slice hist i j) (slice fut i j) = .ok v) (hl : v.length = fut.length) :
    slice out i j = v.map (fun x => some (.val x)) :=
  debiaser_cellwise (loc kw) fs obs hist fut nx ny m hm out h i j hi hj v hv hl

/-- … and for `DeltaChange.apply` -/
theorem deltachange_kwargs_forwarded {κ : Type} (loc : LocFnKw κ α ε) (kw : κ) (fs : Bool) (obs hist fut : Arr3 α)
    (nx ny : Nat) (m : Mode) (hm : ModeOk m nx ny) (out : Arr3 (Elem α))
    (h : deltaChangeApplyKw loc kw fs obs hist fut nx ny m = .ok out)
    (i j : Nat) (hi : i < nx) (hj : j < ny) (v : List α)
    (hv : loc kw (slice obs i j) (slice hist i j) (slice fut i j) = .ok v) (hl : v.length = obs.length) :
    slice out i j = v.map (fun x => some (.val x)) :=
  deltachange_cellwise (loc kw) fs obs hist fut nx ny m hm out h i j hi hj v hv hl

/-! ### dispatch and the map functions, read from the source (tier A, semantic: `Gen/GridLoops.lean`, `Lemmas.GenGridLoops`)

  Stated on the values `Gen.GridLoops.*` that `translator/extract_gridloops.py` regenerates from /repo's current AST on every
  run (names of locals and parameters resolved to roles — a rename changes nothing; a changed slice, enumeration, write
  target, caught class, dropped argument … changes the value or is rejected by the extractor). -/

open Model.GridLoops in
/-- the two classes that define `apply`, each with exactly two call sites: the `if parallel:` branch calls
    `parallel_map_over_locations`, the `else` branch `map_over_locations` (four call sites: class × branch) -/
theorem dispatch_complete :
    [Gen.GridLoops.applyDebiaser, Gen.GridLoops.applyDeltaChange].map
        (fun a => (a.cls, a.parallelBranch.callee, a.serialBranch.callee)) =
      [("Debiaser", MapFn.parallel, MapFn.serial), ("DeltaChange", MapFn.parallel, MapFn.serial)] := by decide

open Model.GridLoops Model.GridDispatch in
/-- **Every call site computes what the property demands of it.**  What the regenerated `apply` of either class denotes —
    its dispatch onto the regenerated map functions, which call the regenerated catch wrapper — is `spec`: the output is
    sized by `cm_future` (by `obs` for DeltaChange) in the serial *and* in the parallel branch (`E.parallel` is arbitrary),
    the mode matches the branch, `apply`'s own arrays reach the map function's array parameters, the failsafe flag and the
    keyword arguments are forwarded (`E.kw` whatever `E.noKw` is) — for all data, flags, keyword arguments, subclass
    relations `E.isa` and completion schedules, on inputs of common spatial shape (what the input check establishes). -/
theorem dispatch_correct {κ : Type} (a : ApplySpec) (ha : a ∈ [Gen.GridLoops.applyDebiaser, Gen.GridLoops.applyDeltaChange])
    (E : ApplyEnv κ α ε) (nx ny : Nat) (hs : ∀ s, E.spatial s = (nx, ny)) :
    denoteApply a Gen.GridLoops.serialSpec Gen.GridLoops.parallelSpec Gen.GridLoops.catchSpec E
      = spec a.cls E.parallel E.loc E.kw E.failsafe (E.arr .obs) (E.arr .hist) (E.arr .fut) nx ny E.sched := by
  simp only [List.mem_cons, List.not_mem_nil, or_false] at ha
  rcases ha with rfl | rfl
  · exact (Lemmas.GenGridLoops.gen_apply_eq_spec E nx ny hs).1
  · exact (Lemmas.GenGridLoops.gen_apply_eq_spec E nx ny hs).2

/-- the guard of `dispatch_correct` is satisfiable: a 1×2 grid with time lengths 1 / 1 / 2, parallel, schedule `[1, 0]` -/
example : ∀ s, (Lemmas.GenGridLoops.Witness.E 7 false true).spatial s = (1, 2) := fun _ => rfl

open Model.GridLoops in
/-- **what the two map functions do, read from the source**: for every location function, keyword arguments, flag, arrays
    with `obs.shape[1:] = (nx, ny)` and `output_size = (T, nx, ny)`, `map_over_locations` is `applySerial` and
    `parallel_map_over_locations` is `applyParallel` (every completion schedule) of the per-cell function
    `func(obs[:, i, j], cm_hist[:, i, j], cm_future[:, i, j], **kwargs)` run through the catch wrapper — the functions the
    theorems above are stated on -/
theorem map_functions_denote {κ : Type} (env : MapEnv κ α ε) (fs : Bool) (T nx ny : Nat) (sched : List Nat)
    (hobs : env.spatial .obs = (nx, ny)) (hout : env.outputSize = (T, nx, ny)) :
    denoteSerial Gen.GridLoops.serialSpec Gen.GridLoops.catchSpec { env with failsafe := some fs }
        = applySerial (cellFn (env.loc env.kw) (env.arr .obs) (env.arr .hist) (env.arr .fut)) fs T nx ny ∧
    denoteParallel Gen.GridLoops.parallelSpec Gen.GridLoops.catchSpec { env with failsafe := some fs } sched
        = applyParallel (cellFn (env.loc env.kw) (env.arr .obs) (env.arr .hist) (env.arr .fut)) fs T nx ny sched := by
  rw [Lemmas.GenGridLoops.serialSpec, Lemmas.GenGridLoops.parallelSpec, Lemmas.GenGridLoops.catchSpec]
  exact ⟨Lemmas.GenGridLoops.denote_serial env fs T nx ny hobs hout,
    Lemmas.GenGridLoops.denote_parallel env fs T nx ny sched hobs hout⟩

example : (Lemmas.GenGridLoops.Witness.env 7 false (2, 1, 2)).spatial .obs = (1, 2) ∧
    (Lemmas.GenGridLoops.Witness.env 7 false (2, 1, 2)).outputSize = (2, 1, 2) := ⟨rfl, rfl⟩

open Model.GridLoops in
/-- the structure the model of the map functions was written from (regenerated from the source on every run): the pool
    method is `starmap` and gets no chunk size; the argument tuples are the three columns of the current cell in the order
    obs, cm_hist, cm_future, with the flag and `**kwargs` bound in the `partial`; the argument list runs over
    `[(i, j) for i in range(obs.shape[1]) for j in range(obs.shape[2])]` and the write-back over that very enumeration,
    writing the result at the same position into column `(cell[0], cell[1])`; the serial loop runs over
    `np.ndindex(obs.shape[1:])`, makes the same wrapper call and writes column `(cell[0], cell[1])`; both allocate
    `np.empty(output_size, dtype=cm_future.dtype)`; the wrapper calls `func(a0, a1, a2, **kwargs)`, catches `Exception`
    only, returns the scalar `np.nan` in failsafe mode and re-raises unchanged otherwise -/
theorem map_function_statements :
    Gen.GridLoops.parallelSpec.pool = ⟨.param "nr_processes", "starmap", none⟩ ∧
    Gen.GridLoops.parallelSpec.call = cellCall ∧
    Gen.GridLoops.parallelSpec.argsOver = .comprehension ⟨.ofArr .obs, .x⟩ ⟨.ofArr .obs, .y⟩ .c0 .c1 ∧
    Gen.GridLoops.parallelSpec.writeOver = Gen.GridLoops.parallelSpec.argsOver ∧
    Gen.GridLoops.parallelSpec.target = (.c0, .c1) ∧
    Gen.GridLoops.parallelSpec.alloc = ⟨"np.empty", .outputSize, .fut⟩ ∧
    Gen.GridLoops.serialSpec.cells = .ndindexTail (.ofArr .obs) ∧
    Gen.GridLoops.serialSpec.call = cellCall ∧
    Gen.GridLoops.serialSpec.target = (.c0, .c1) ∧
    Gen.GridLoops.serialSpec.alloc = ⟨"np.empty", .outputSize, .fut⟩ ∧
    Gen.GridLoops.catchSpec.tryArgs = (.a0, .a1, .a2) ∧
    Gen.GridLoops.catchSpec.tryStarKw = true ∧
    Gen.GridLoops.catchSpec.excClass = .exception ∧
    Gen.GridLoops.catchSpec.onTrue = .returnNan ∧
    Gen.GridLoops.catchSpec.onFalse = .reraise := by decide

/-! ### the pool's chunking -/

/-- `Pool._get_tasks`: the chunks are consecutive, at most `k` long, and together they are the argument list -/
theorem chunks_partition {β : Type} (k : Nat) (hk : 1 ≤ k) (l : List β) :
    (chunksOf k l).flatten = l ∧ ∀ ch ∈ chunksOf k l, ch.length ≤ k :=
  ⟨flatten_chunksOf k hk l, chunk_length_le k l.length l⟩

example : chunksOf 3 [1, 2, 3, 4, 5, 6, 7] = [[1, 2, 3], [4, 5, 6], [7]] := by decide

/-- the default chunk size is at least 1 for a non-empty grid (so `chunks_partition` applies), is exactly 1 when there are
    at most four cells per worker (in particular when there are more workers than cells), and `4 * processes` chunks of
    that size cover all cells -/
theorem default_chunksize (n p : Nat) (hn : 1 ≤ n) (hp : 1 ≤ p) :
    1 ≤ defaultChunksize n p ∧ (n ≤ p * 4 → defaultChunksize n p = 1) ∧ n ≤ defaultChunksize n p * (p * 4) :=
  ⟨defaultChunksize_pos n p hn, defaultChunksize_small n p hn, defaultChunksize_covers n p hp⟩

example : defaultChunksize 3 4 = 1 ∧ defaultChunksize 9 1 = 3 ∧ defaultChunksize 9 2 = 2 ∧ defaultChunksize 6 8 = 1 := by decide

/-- legacy (a mutant): `chunksize = len(indices) // nr_processes` is 0 when there are more processes than cells -/
example : 3 / 4 = 0 ∧ (chunksOf 0 [(0, 0), (0, 1), (0, 2)]).flatten ≠ [((0 : Nat), (0 : Nat)), (0, 1), (0, 2)] := by decide

/-! ### instance state (`f s c = (result, state left behind)`) -/

/-- **A debiaser that does not change itself: chunked pool = serial loop.**  For every chunk size `k ≥ 1`, every completion
    order of the chunks (any number of workers), every state `s0` the instance is in: the parallel run returns `(out, s)`
    iff `s = s0` and the serial loop of the location function *as configured* (`frozen f s0`) returns `out`. -/
theorem pure_instance_parallel_iff_serial {σ : Type} (f : StCell σ α ε) (hf : PureSt f) (fs : Bool) (T nx ny : Nat) (s0 : σ)
    (k : Nat) (hk : 1 ≤ k) (sched : List Nat)
    (hs : sched.Perm (List.range (chunksOf k (pairIndices nx ny)).length)) (out : Arr3 (Elem α)) (s : σ) :
    applyParallelSt f fs T nx ny s0 k sched = .ok (out, s) ↔
      s = s0 ∧ applySerial (frozen f s0) fs T nx ny = .ok out :=
  parallelSt_ok_iff f hf fs T nx ny s0 k hk sched hs out s

/-- **… and the serial run leaves such an instance as it found it** and is the stateless serial run -/
theorem pure_instance_serial {σ : Type} (f : StCell σ α ε) (hf : PureSt f) (fs : Bool) (T nx ny : Nat) (s0 : σ) :
    applySerialSt f fs T nx ny s0 = (applySerial (frozen f s0) fs T nx ny).map (fun o => (o, s0)) :=
  serialSt_pure f hf fs T nx ny s0

/-- consequently all of `apply_cellwise`, `cell_independence`, … hold for the stateful runs of a pure instance; e.g.
    cell-wise for the chunked pool: -/
theorem pure_instance_parallel_cellwise {σ : Type} (f : StCell σ α ε) (hf : PureSt f) (fs : Bool) (T nx ny : Nat) (s0 : σ)
    (k : Nat) (hk : 1 ≤ k) (sched : List Nat)
    (hs : sched.Perm (List.range (chunksOf k (pairIndices nx ny)).length)) (out : Arr3 (Elem α)) (s : σ)
    (h : applyParallelSt f fs T nx ny s0 k sched = .ok (out, s))
    (i j : Nat) (hi : i < nx) (hj : j < ny) (v : List α) (hv : (f s0 (i, j)).1 = .ok v) (hl : v.length = T) :
    slice out i j = v.map (fun x => some (.val x)) :=
  apply_cellwise (frozen f s0) fs T nx ny .serial trivial out
    ((parallelSt_ok_iff f hf fs T nx ny s0 k hk sched hs out s).mp h).2 i j hi hj v hv hl

/-- **The parent's instance is never changed by a parallel run**, whatever the location function does to the copy it
    runs on (every chunk works on its own pickled copy). -/
theorem parallel_never_changes_parent_instance {σ : Type} (f : StCell σ α ε) (fs : Bool) (T nx ny : Nat) (s0 : σ) (k : Nat)
    (sched : List Nat) (out : Arr3 (Elem α)) (s : σ) (h : applyParallelSt f fs T nx ny s0 k sched = .ok (out, s)) :
    s = s0 :=
  parallelSt_parent_state f fs T nx ny s0 k sched out s h

namespace Example

/-- a debiaser that counts its calls and lets the count leak into the result (NOT pure) -/
def counting : StCell Nat Nat String := fun s c => (.ok [100 * c.1 + 10 * c.2 + s], s + 1)

/-- a pure one -/
def constant : StCell Nat Nat String := fun s c => (.ok [100 * c.1 + 10 * c.2 + s], s)

example : PureSt constant := fun _ _ => rfl

/-- pure: serial = chunked pool (chunks of 2, completed in the order 2, 0, 1), state kept -/
example : applySerialSt constant false 1 2 3 7 = applyParallelSt constant false 1 2 3 7 2 [2, 0, 1] := by rfl

/-- legacy / necessity of `PureSt`: the counting debiaser gives 0..5 serially, restarts in every chunk in the pool, and the
    serial run leaves the instance changed while the parallel run does not -/
example : applySerialSt counting false 1 2 3 0 =
    .ok ([[[some (.val 0), some (.val 11), some (.val 22)], [some (.val 103), some (.val 114), some (.val 125)]]], 6) := by rfl
example : applyParallelSt counting false 1 2 3 0 2 [2, 0, 1] =
    .ok ([[[some (.val 0), some (.val 11), some (.val 20)], [some (.val 101), some (.val 110), some (.val 121)]]], 0) := by rfl

end Example

/-! ### the history of the instance: `apply` re-derives the helper objects, then maps the instance's own location function
    (`Model/GridRefresh.lean`).  Quantifiers "configurations" (also those reached by assigning settings on an existing
    instance) and "schedules" (whatever the instance did before). -/

/-- a pool's chunk size is ≥ 1 and its completion order is some permutation of the chunks -/
def RunModeOk (nx ny : Nat) : RunMode → Prop
  | .serial => True
  | .pool k sched => 1 ≤ k ∧ sched.Perm (List.range (chunksOf k (pairIndices nx ny)).length)

/-- **Whatever state `s0` the history left the instance in**, every run mode of `apply` returns `(out, s)` iff the instance is
    left re-derived (`s = refresh s0`) and `out` is the stateless serial run of the re-derived instance's location function. -/
theorem refreshed_instance_run_iff {σ : Type} (refresh : σ → σ) (f : StCell σ α ε) (hf : PureSt f) (fs : Bool) (T nx ny : Nat)
    (s0 : σ) (m : RunMode) (hm : RunModeOk nx ny m) (out : Arr3 (Elem α)) (s : σ) :
    applyRefresh refresh f fs T nx ny s0 m = .ok (out, s) ↔
      s = refresh s0 ∧ applySerial (frozen f (refresh s0)) fs T nx ny = .ok out := by
  cases m with
  | serial =>
    simp only [applyRefresh, serialSt_pure f hf]
    cases h : applySerial (frozen f (refresh s0)) fs T nx ny with
    | error e => simp [Except.map]
    | ok o =>
      simp only [Except.map, Except.ok.injEq, Prod.mk.injEq]
      constructor
      · rintro ⟨h1, h2⟩; exact ⟨h2.symm, h1⟩
      · rintro ⟨h1, h2⟩; exact ⟨h2, h1.symm⟩
  | pool k sched => exact parallelSt_ok_iff f hf fs T nx ny (refresh s0) k hm.1 sched hm.2 out s

/-- … hence **parallel = serial on an instance with any history** (array and the state the instance is left in) -/
theorem refreshed_instance_parallel_iff_serial {σ : Type} (refresh : σ → σ) (f : StCell σ α ε) (hf : PureSt f) (fs : Bool)
    (T nx ny : Nat) (s0 : σ) (k : Nat) (hk : 1 ≤ k) (sched : List Nat)
    (hs : sched.Perm (List.range (chunksOf k (pairIndices nx ny)).length)) (out : Arr3 (Elem α)) (s : σ) :
    applyRefresh refresh f fs T nx ny s0 (.pool k sched) = .ok (out, s) ↔
      applyRefresh refresh f fs T nx ny s0 .serial = .ok (out, s) := by
  rw [refreshed_instance_run_iff refresh f hf fs T nx ny s0 (.pool k sched) ⟨hk, hs⟩,
      refreshed_instance_run_iff refresh f hf fs T nx ny s0 .serial trivial]

/-- **two instances that re-derive to the same state give the same run** — e.g. one constructed with the settings and one on
    which they were assigned later, or one that has worked on other data before (no purity needed) -/
theorem history_irrelevant {σ : Type} (refresh : σ → σ) (f : StCell σ α ε) (fs : Bool) (T nx ny : Nat)
    (s0 s1 : σ) (h : refresh s0 = refresh s1) (m : RunMode) :
    applyRefresh refresh f fs T nx ny s0 m = applyRefresh refresh f fs T nx ny s1 m := by
  cases m <;> simp only [applyRefresh, h]

/-- **the column at every cell is what the instance, as `apply` left it, returns for that cell alone** (`f s (i, j)`, the
    per-location call made on the very instance after the grid call), in every run mode -/
theorem refreshed_instance_cellwise {σ : Type} (refresh : σ → σ) (f : StCell σ α ε) (hf : PureSt f) (fs : Bool) (T nx ny : Nat)
    (s0 : σ) (m : RunMode) (hm : RunModeOk nx ny m) (out : Arr3 (Elem α)) (s : σ)
    (h : applyRefresh refresh f fs T nx ny s0 m = .ok (out, s))
    (i j : Nat) (hi : i < nx) (hj : j < ny) (v : List α) (hv : (f s (i, j)).1 = .ok v) (hl : v.length = T) :
    s = refresh s0 ∧ slice out i j = v.map (fun x => some (.val x)) := by
  obtain ⟨hs, hser⟩ := (refreshed_instance_run_iff refresh f hf fs T nx ny s0 m hm out s).mp h
  subst hs
  exact ⟨rfl, apply_cellwise (frozen f (refresh s0)) fs T nx ny .serial trivial out hser i j hi hj v hv hl⟩

namespace Example

/-- instance state = (window-length setting, window length of the derived helper object); the location function reads the helper -/
def windowed : StCell (Nat × Nat) Nat String := fun s c => (.ok [100 * c.1 + 10 * c.2 + s.2], s)

/-- `__attrs_post_init__`: the helper object is rebuilt from the setting -/
def rederive : Nat × Nat → Nat × Nat := fun s => (s.1, s.1)

example : PureSt windowed := fun _ _ => rfl

/-- setting 91 assigned after construction (helper still 31): serial = pool = the instance constructed with 91 (hypotheses of
    the theorems above satisfied by a concrete instance: 1×2 grid, chunks of 1 completed in the order 1, 0) -/
example : RunModeOk 1 2 (.pool 1 [1, 0]) := ⟨Nat.le_refl 1, by decide⟩
example : applyRefresh rederive windowed false 1 1 2 (91, 31) .serial =
    applyRefresh rederive windowed false 1 1 2 (91, 31) (.pool 1 [1, 0]) := by rfl
example : applyRefresh rederive windowed false 1 1 2 (91, 31) (.pool 1 [1, 0]) =
    applyRefresh rederive windowed false 1 1 2 (91, 91) (.pool 1 [1, 0]) := by rfl

/-- legacy / negative: re-deriving only on a copy that the serial branch maps lets the two branches disagree (91 vs 31) -/
example : applyRefreshCopy rederive windowed false 1 1 2 (91, 31) .serial =
    .ok ([[[some (.val 91), some (.val 101)]]], (91, 31)) := by rfl
example : applyRefreshCopy rederive windowed false 1 1 2 (91, 31) (.pool 1 [1, 0]) =
    .ok ([[[some (.val 31), some (.val 41)]]], (91, 31)) := by rfl

end Example

end Props.C05
