/-
  C12 — debiasing is pure: inputs untouched, instances reusable, seed-deterministic.

  PARTIAL BY NATURE.  A pure functional model is trivially pure, so the theorems are about an explicit STORE MODEL:

  (A) alias model (`Model/Purity.lean`): every modelled function of ibicus is a straight-line program over named
      buffers; numpy's view/copy behaviour enters as the TRUSTED classification `NpOp.aliases` (basic slicing and name
      passing alias; fancy/boolean indexing, np.sort, np.where, arithmetic, .copy(), astype, zeros_like/empty_like and
      library routines allocate).  Tier B validates the classification on every run (np.shares_memory at the entry of
      each modelled function, read-only inputs, byte comparison); tier A ties the list of in-place write sites of the
      source to the stores of the programs.
  (B) instance model (`Model/Instance.lean`): `apply` = `__attrs_post_init__` then a run that is a function of the
      view (settings + active derived attributes), the arguments and the random draws.  That the run assigns nothing to
      `self` is the tier-A fact `selfAssigns_in_post_init`; that its numerical result is a function of exactly these
      inputs is the modelling assumption validated by tier B (repeated / interleaved calls under `np.random.seed`).

  Not modelled: float rounding (irrelevant here: everything is bit-for-bit), the process pool (C05), the internals of
  numpy/scipy routines (assumed not to write into their operands unless `out=`/`overwrite_*` is given — the extractor
  lists every such keyword).
-/
import IbicusModel.Lemmas.Purity
import IbicusModel.Lemmas.Instance
import IbicusModel.Lemmas.GenWriteSites

namespace Props.C12
open Model.Purity Model.Instance

/-! ## (A) the caller's buffers -/

/-- **inputs_preserved.**  For every debiaser, every settings branch and both entry points (`apply` on 3-d arrays with
    or without dtype conversion, `apply_location` on 1-d arrays, time arrays given or inferred; for ISIMIP also the
    window function `_apply_on_window` = public steps 2–7 entered with window copies): whatever the stores write
    and whichever inner configuration the ISIMIP window function runs under, the six caller buffers (obs, cm_hist,
    cm_future, time_obs, time_cm_hist, time_cm_future) hold the same contents after the call. -/
theorem inputs_preserved {α : Type} (c : Cfg) (s t : St α) (henv : s.env = c.initEnv) (hheap : nCaller ≤ s.heap.length)
    (hx : Exec c (entryProg c) s t) : ∀ k, k < nCaller → t.heap[k]? = s.heap[k]? := by
  have hs := Lemmas.Purity.safe_all c
  unfold safe at hs
  cases hc : check c fuel (entryProg c) (absEnv c.initEnv) with
  | none => simp [hc] at hs
  | some e' => exact (Lemmas.Purity.check_sound hx fuel e' hheap (by rw [henv]; exact hc)).2.2

/-- the hypotheses of `inputs_preserved` are satisfiable: an execution of `LinearScaling.apply_location` (no window)
    exists for every content `v` of the result -/
example (o h f : List Int) (v : List Int) :
    ∃ t : St Int, Exec (.ls (.applyLocation false) false)
      (entryProg (.ls (.applyLocation false) false)) ⟨initEnvOf false, [o, h, f, [], [], []]⟩ t :=
  ⟨_, Exec.call (Exec.call (Exec.fresh v (Exec.nil _ _)) rfl (Exec.nil _ _)) rfl (Exec.nil _ _)⟩

/-- **result_is_fresh.**  The array handed back is a buffer the library allocated (it shares no memory with an input). -/
theorem result_is_fresh {α : Type} (c : Cfg) (s t : St α) (henv : s.env = c.initEnv) (hheap : nCaller ≤ s.heap.length)
    (hx : Exec c (entryProg c) s t) : ∃ b, clook t.env .result = some b ∧ nCaller ≤ b := by
  have hr := Lemmas.Purity.resultOwn_all c
  unfold resultOwn at hr
  cases hc : check c fuel (entryProg c) (absEnv c.initEnv) with
  | none => simp [hc] at hr
  | some e' =>
    simp only [hc] at hr
    have h1 := (Lemmas.Purity.check_sound hx fuel e' hheap (by rw [henv]; exact hc)).1
    have h2 : alook e' .result = some .own := by simpa using hr
    rw [h1, Lemmas.Purity.alook_abs] at h2
    cases hb : clook t.env .result with
    | none => simp [hb] at h2
    | some b =>
      simp only [hb, Option.map_some, Option.some.injEq] at h2
      exact ⟨b, rfl, Lemmas.Purity.provOf_own h2⟩

/-- the checker is not vacuous: a store through a name that may denote a caller buffer is refused, in every program -/
theorem store_into_caller_rejected (c : Cfg) (f : Nat) (v : V) (k : Nat) (r : List Stmt) (e : AEnv)
    (h : alook e v = some (.caller k)) : check c f (.store v :: r) e = none := by
  cases f with
  | zero => simp [check]
  | succ f => simp [check, h]

/-- concrete witnesses (labelled `decide`): the realistic mutants are refused by the checker —
    an in-place `obs.sort()` in the relative ScaledDistributionMapping without running window;
    handing the caller's `obs` (a view) instead of `obs[indices]` to the ISIMIP window function;
    ISIMIP step 2 imputing directly into the caller's array -/
theorem mutants_rejected :
    check (.sdm (.applyLocation true) false true) fuel [.store .obs] (absEnv (initEnvOf true)) = none ∧
    check (.isimip (.applyLocation true) true false) fuel
      [.callWin [(.obsHist, .obs), (.cmHist, .cmHist), (.cmFuture, .cmFuture)] .res] (absEnv (initEnvOf true)) = none ∧
    check (.isimipWindow true false false false true .additive) fuel
      [.call .step2Impute [(.x, .obs)] [(.obs, .ret)]] (absEnv (initEnvOf true)) = none := by
  decide +kernel

/-- the write-site table is backed by the programs: every site marked `modelled fn v` is a `store v` of `body c fn` in
    some branch, and conversely every store of every body of every configuration is a listed site -/
theorem sites_justified : sitesJ.all (justBacked Lemmas.Purity.witnessCfgs) = true := Lemmas.Purity.sites_justified

theorem stores_listed (c : Cfg) : storesListed c = true := Lemmas.Purity.stores_listed c

/-- what the per-window functions receive, as written in the source: a bare name (the non-window branches: the
    caller's array itself) or `x[index variable]` (fancy / boolean indexing: a copy) — never a basic slice; and the
    ISIMIP window function, which writes into its arguments, only ever receives copies (complete finite table) -/
theorem callArgs_classified : callArgsJ.all callArgOk = true ∧ isimipWindowArgsFresh = true := by decide +kernel

/-- seed-determinism, the static part: the only draw sites of the anchored files are the six guarded ones, each inside
    a function the alias model knows (the three ISIMIP ones) or a `distribution` method / the CDFt SSR helper; a
    configuration whose guards are all off reaches none of them.  (Complete finite table; that a deterministic
    configuration leaves `np.random.get_state()` untouched and repeats bit-for-bit without re-seeding is checked on the
    real code by tier B.) -/
theorem rng_sites_guarded :
    rngSitesJ.map (·.2) = [.cdftSSR, .isimipImpute, .isimipLower, .isimipUpper, .hurdleRandomization, .censoredModel] ∧
    (∀ e w y h, (Cfg.cdft e w y false h).rngGuards = []) ∧
    (∀ d t m, (Cfg.isimipWindow false d false false t m).rngGuards = []) := by
  refine ⟨rfl, ?_, ?_⟩ <;> intros <;> rfl

/-- the trusted classification, spelled out -/
theorem trusted_alias_classification :
    [NpOp.name, .basicSlice, .fancyIndex, .boolIndex, .sort, .where_, .arith, .copy, .astype, .zerosLike, .emptyLike,
     .alloc, .libCall].map NpOp.aliases =
    [true, true, false, false, false, false, false, false, false, false, false, false, false] := rfl

/-! ## (B) the instance -/

/-- every `self.<attr> = …` of ibicus/debias and of the window classes is a plain assignment inside an
    `__attrs_post_init__` and targets a derived attribute (or the `None` fill of QuantileDeltaMapping.cdf_threshold);
    no `setattr`, no `__dict__` access, no global / nonlocal / cache decorator / class-attribute state -/
theorem selfAssigns_in_post_init : Model.Purity.selfAssigns.all selfAssignOk = true := by decide +kernel

theorem no_global_state : Model.Purity.globalState = [] := rfl

variable {σ A U O : Type}

/-- **derive_idem.**  `__attrs_post_init__` a second time: same instance, same exception (if any). -/
theorem derive_idem (k : Kind) (i : Inst σ) : derive k (derive k i).1 = derive k i := Lemmas.Instance.derive_idem k i

/-- **apply_settings_fixed.**  `apply` leaves the instance in the state `__attrs_post_init__` produces; this state
    differs from the one before in no setting except that a QuantileDeltaMapping `cdf_threshold` that was `None` has
    been filled in. -/
theorem apply_settings_fixed (run : Kind → View σ → A → U → Except String O) (k : Kind) (i : Inst σ) (a : A) (u : U) :
    (apply run k i a u).1 = (derive k i).1 ∧
    Lemmas.Instance.core (apply run k i a u).1 = Lemmas.Instance.core i ∧
    ((i.settings.cdfThreshold ≠ none ∨ k ≠ .quantileDeltaMapping) →
      (apply run k i a u).1.settings.cdfThreshold = i.settings.cdfThreshold) := by
  have h1 : (apply run k i a u).1 = (derive k i).1 := by
    unfold apply
    cases hd : derive k i with
    | mk j x => cases x <;> rfl
  refine ⟨h1, ?_, ?_⟩
  · rw [h1]
    exact Lemmas.Instance.deriveL_core (steps k) i _ _ rfl
  · intro h
    rw [h1]
    apply Lemmas.Instance.deriveL_cdf (steps k) i _ _ rfl
    rcases h with h | h
    · exact Or.inl h
    · right
      cases k <;> simp_all [steps]

/-- **output_depends_only_on.**  Two instances with the same settings — whatever derived attributes earlier calls or
    earlier settings left on them — give the same output (or the same exception) for the same arguments and draws. -/
theorem output_depends_only_on (run : Kind → View σ → A → U → Except String O) (k : Kind) (i i' : Inst σ)
    (h : i.settings = i'.settings) (a : A) (u : U) : (apply run k i a u).2 = (apply run k i' a u).2 := by
  have hs := Lemmas.Instance.deriveL_sim (steps k) i i' h
  unfold apply
  cases h1 : derive k i with
  | mk j x =>
    cases h2 : derive k i' with
    | mk j' x' =>
      have e1 : deriveL (steps k) i = (j, x) := h1
      have e2 : deriveL (steps k) i' = (j', x') := h2
      rw [e1, e2] at hs
      simp only at hs
      obtain ⟨hx, hset⟩ := hs
      subst hx
      cases x with
      | some e => rfl
      | none =>
        simp only
        rw [Lemmas.Instance.view_of_derive k i j h1, Lemmas.Instance.view_of_derive k i' j' h2, hset]

/-- **apply_repeatable.**  After any sequence of earlier calls on the same instance (other data, other draws, calls that
    raised), a call gives the output of the very first such call on the original instance. -/
theorem apply_repeatable (run : Kind → View σ → A → U → Except String O) (k : Kind) (i : Inst σ)
    (calls : List (A × U)) (a : A) (u : U) :
    (apply run k (applySeq run k i calls) a u).2 = (apply run k i a u).2 := by
  induction calls generalizing i with
  | nil => rfl
  | cons cu r ih =>
    obtain ⟨a', u'⟩ := cu
    simp only [applySeq]
    rw [ih]
    have hst := (apply_settings_fixed run k i a' u').1
    rw [hst]
    unfold apply
    rw [derive_idem]

/-- non-trivial instance of the hypotheses: a QuantileDeltaMapping whose output is the threshold it sees -/
example : (apply (fun _ v (_ : Unit) (_ : Unit) => (.ok v.settings.cdfThreshold : Except String (Option Rat)))
    .quantileDeltaMapping ⟨⟨true, 31, 31, true, 31, 1, none, false, false, ()⟩, ⟨none, none⟩⟩ () ()).2.toOption
    = some (some (1 / 962 : Rat)) := by decide +kernel

/-- **qdm_cdf_threshold_sticky** (what the code does; relevant to C15, outside C12's "same settings" clause).
    Construct a QuantileDeltaMapping with `cdf_threshold=None` and window length 31, then assign
    `running_window_length = 91`: the threshold stays `1/(31·31+1)`, whereas a fresh instance with length 91 has
    `1/(91·31+1)`.  The filled-in value has become a setting. -/
theorem qdm_cdf_threshold_sticky :
    let s : Settings Unit := ⟨true, 31, 31, true, 31, 1, none, false, false, ()⟩
    let used := setRwLen (construct .quantileDeltaMapping s).1 91
    let fresh : Inst Unit := ⟨{ s with rwLen := 91 }, ⟨none, none⟩⟩
    (derive .quantileDeltaMapping used).1.settings.cdfThreshold = some (1 / 962) ∧
    (derive .quantileDeltaMapping fresh).1.settings.cdfThreshold = some (1 / 2822) := by
  decide +kernel

end Props.C12
