/-
  C12 — debiasing is pure: inputs untouched, instances reusable, seed-deterministic.

  PARTIAL BY NATURE.  A pure functional model is trivially pure, so the theorems are about an explicit STORE MODEL:

  (A) alias model (`Model/Purity.lean`): every modelled function of ibicus is a straight-line program over named
      buffers; numpy's view/copy behaviour enters as the TRUSTED classification `NpOp.aliases` (basic slicing and name
      passing alias; fancy/boolean indexing, np.sort, np.where, arithmetic, .copy(), astype, zeros_like/empty_like and
      library routines allocate).  Tier B validates the classification on every run (np.shares_memory at the entry of
      each modelled function, read-only inputs, byte comparison); tier A ties the list of in-place write sites of the
      source to the stores of the programs.
  (B) instance model (`Model/Instance.lean`): `apply` = `__attrs_post_init__` then a run that is a function of the
      view (settings + active derived attributes), the arguments and the random draws.  That the run assigns nothing to
      `self` is the tier-A fact `selfAssigns_in_post_init`; that its numerical result is a function of exactly these
      inputs is the modelling assumption validated by tier B (repeated / interleaved calls under `np.random.seed`).

  Not modelled: float rounding (irrelevant here: everything is bit-for-bit), the process pool (C05), the internals of
  numpy/scipy routines (assumed not to write into their operands unless `out=`/`overwrite_*` is given — the extractor
  lists every such keyword).
-/
import IbicusModel.Lemmas.Purity
import IbicusModel.Lemmas.Instance
import IbicusModel.Lemmas.GenWriteSites

namespace Props.C12
open Model.Purity Model.Instance

/-! ## (A) the caller's buffers -/

/-- **inputs_preserved.**  For every debiaser, every settings branch and both entry points (`apply` on 3-d arrays with
    or without dtype conversion, `apply_location` on 1-d arrays, time arrays given or inferred; for ISIMIP also the
    window function `_apply_on_window` = public steps 2–7 entered with window copies): whatever the stores write
    and whichever inner configuration the ISIMIP window function runs under, the six caller buffers (obs, cm_hist,
    cm_future, time_obs, time_cm_hist, time_cm_future) hold the same contents after the call. -/
theorem inputs_preserved {α : Type} (G : RngGuard → Bool) (c : Cfg) (s t : St α) (henv : s.env = c.initEnv)
    (hheap : nCaller ≤ s.heap.length) (hx : Exec G c (entryProg c) s t) : ∀ k, k < nCaller → t.heap[k]? = s.heap[k]? := by
  have hs := Lemmas.Purity.safe_all c
  unfold safe at hs
  cases hc : check c fuel (entryProg c) (absEnv c.initEnv) with
  | none => simp [hc] at hs
  | some e' => exact (Lemmas.Purity.check_sound hx fuel e' hheap (by rw [henv]; exact hc)).2.2

/-- the hypotheses of `inputs_preserved` are satisfiable: an execution of `LinearScaling.apply_location` (no window)
    exists for every content `v` of the result -/
example (G : RngGuard → Bool) (o h f : List Int) (v : List Int) :
    ∃ t : St Int, Exec G (.ls (.applyLocation false) false)
      (entryProg (.ls (.applyLocation false) false)) ⟨initEnvOf false, [o, h, f, [], [], []], 0⟩ t :=
  ⟨_, Exec.call (Exec.call (Exec.fresh v (Exec.nil _ _)) rfl (Exec.nil _ _)) rfl (Exec.nil _ _)⟩

/-- **result_is_fresh.**  The array handed back is a buffer the library allocated (it shares no memory with an input). -/
theorem result_is_fresh {α : Type} (G : RngGuard → Bool) (c : Cfg) (s t : St α) (henv : s.env = c.initEnv)
    (hheap : nCaller ≤ s.heap.length) (hx : Exec G c (entryProg c) s t) : ∃ b, clook t.env .result = some b ∧ nCaller ≤ b := by
  have hr := Lemmas.Purity.resultOwn_all c
  unfold resultOwn at hr
  cases hc : check c fuel (entryProg c) (absEnv c.initEnv) with
  | none => simp [hc] at hr
  | some e' =>
    simp only [hc] at hr
    have h1 := (Lemmas.Purity.check_sound hx fuel e' hheap (by rw [henv]; exact hc)).1
    have h2 : alook e' .result = some .own := by simpa using hr
    rw [h1, Lemmas.Purity.alook_abs] at h2
    cases hb : clook t.env .result with
    | none => simp [hb] at h2
    | some b =>
      simp only [hb, Option.map_some, Option.some.injEq] at h2
      exact ⟨b, rfl, Lemmas.Purity.provOf_own h2⟩

/-- the checker is not vacuous: a store through a name that may denote a caller buffer is refused, in every program -/
theorem store_into_caller_rejected (c : Cfg) (f : Nat) (v : V) (k : Nat) (r : List Stmt) (e : AEnv)
    (h : alook e v = some (.caller k)) : check c f (.store v :: r) e = none := by
  cases f with
  | zero => simp [check]
  | succ f => simp [check, h]

/-- concrete witnesses (labelled `decide`): the realistic mutants are refused by the checker —
    an in-place `obs.sort()` in the relative ScaledDistributionMapping without running window;
    handing the caller's `obs` (a view) instead of `obs[indices]` to the ISIMIP window function;
    ISIMIP step 2 imputing directly into the caller's array -/
theorem mutants_rejected :
    check (.sdm (.applyLocation true) false true) fuel [.store .obs] (absEnv (initEnvOf true)) = none ∧
    check (.isimip (.applyLocation true) true false) fuel
      [.callWin [(.obsHist, .obs), (.cmHist, .cmHist), (.cmFuture, .cmFuture)] .res] (absEnv (initEnvOf true)) = none ∧
    check (.isimipWindow true false false false true .additive) fuel
      [.call .step2Impute [(.x, .obs)] [(.obs, .ret)]] (absEnv (initEnvOf true)) = none := by
  decide +kernel

/-- the write-site table is backed by the programs: every site marked `modelled fn v` is a `store v` of `body c fn` in
    some branch, and conversely every store of every body of every configuration is a listed site -/
theorem sites_justified : sitesJ.all (justBacked Lemmas.Purity.witnessCfgs) = true := Lemmas.Purity.sites_justified

theorem stores_listed (c : Cfg) : storesListed c = true := Lemmas.Purity.stores_listed c

/-- what the per-window functions receive, as written in the source: a bare name (the non-window branches: the
    caller's array itself) or `x[index variable]` (fancy / boolean indexing: a copy) — never a basic slice; and the
    ISIMIP window function, which writes into its arguments, only ever receives copies (complete finite table) -/
theorem callArgs_classified : callArgsJ.all callArgOk = true ∧ isimipWindowArgsFresh = true := by decide +kernel

/-! ### numpy's global generator (a counter in the store: how many values have been drawn) -/

/-- **generator_moves_only_under_guard.**  In every execution of every program the generator never goes backwards, and
    if it has moved then a guard of the instance is on (CDFt SSR, ISIMIP imputation / lower / upper randomisation,
    a hurdle model with cdf randomisation, a left-censored gamma model). -/
theorem generator_moves_only_under_guard {α : Type} (G : RngGuard → Bool) (c : Cfg) (p : List Stmt) (s t : St α)
    (hx : Exec G c p s t) : s.rng ≤ t.rng ∧ (t.rng ≠ s.rng → ∃ g, G g = true) :=
  Lemmas.Purity.rng_moves_only_under_guard hx

/-- **deterministic_leaves_generator_untouched.**  A call on an instance none of whose random steps is switched on
    does not consume numpy's global generator (`np.random.get_state()` is the same before and after). -/
theorem deterministic_leaves_generator_untouched {α : Type} (G : RngGuard → Bool) (hG : ∀ g, G g = false) (c : Cfg)
    (s t : St α) (hx : Exec G c (entryProg c) s t) : t.rng = s.rng := by
  by_cases h : t.rng = s.rng
  · exact h
  · obtain ⟨g, hg⟩ := (Lemmas.Purity.rng_moves_only_under_guard hx).2 h
    rw [hG g] at hg
    exact absurd hg (by simp)

/-- the guards are not decoration: with the SSR guard on, the CDFt randomisation helper does advance the generator -/
example : Exec (α := Int) (fun _ => true) (.cdft (.applyLocation true) false false true true)
    (body (.cdft (.applyLocation true) false false true true) .cdftRandomize) ⟨[(V.x.ctorIdx, 0)], [[]], 0⟩
    ⟨[(V.ret.ctorIdx, 1), (V.x.ctorIdx, 0)], [[], [7]], 5⟩ :=
  Exec.draw 5 (by simp) (Exec.fresh [7] (Exec.nil _ _))

/-- **draw_sites_tied** (complete finite tables).  The `draw` statements of the programs and the table of
    `np.random.*` call sites (regenerated from the source: `Lemmas.GenWriteSites.rngSites`) name the same
    (function, guard) pairs, in both directions; a draw that a settings flag switches on occurs only in a configuration
    that declares the guard, and the flag-guarded helpers (`_step2_impute_values`, the two step-4 randomisers, the
    CDFt SSR randomiser) are called only under their flag.  Hence a configuration with `rngGuards = []` and a
    distribution without cdf randomisation reaches no draw: its guard valuation is all-false and
    `deterministic_leaves_generator_untouched` applies. -/
theorem draw_sites_tied :
    drawsBacked Lemmas.Purity.witnessCfgs = true ∧ ∀ c : Cfg, drawsListed c = true ∧ helperCallsGuarded c = true :=
  ⟨Lemmas.Purity.draws_backed, fun c => ⟨Lemmas.Purity.draws_listed c, Lemmas.Purity.helper_calls_guarded c⟩⟩

/-- which configurations of the alias model declare no guard -/
theorem rng_sites_guarded :
    rngSitesJ.map (·.2.1) = [.cdftSSR, .isimipImpute, .isimipLower, .isimipUpper, .hurdleRandomization, .censoredModel] ∧
    (∀ e w y h, (Cfg.cdft e w y false h).rngGuards = []) ∧
    (∀ d t m, (Cfg.isimipWindow false d false false t m).rngGuards = []) := by
  refine ⟨rfl, ?_, ?_⟩ <;> intros <;> rfl

/-- the trusted classification, spelled out -/
theorem trusted_alias_classification :
    [NpOp.name, .basicSlice, .fancyIndex, .boolIndex, .sort, .where_, .arith, .copy, .astype, .zerosLike, .emptyLike,
     .alloc, .libCall].map NpOp.aliases =
    [true, true, false, false, false, false, false, false, false, false, false, false, false] := rfl

/-! ## (B) the instance -/

/-- every `self.<attr> = …` of ibicus/debias and of the window classes is a plain assignment inside an
    `__attrs_post_init__` and targets a derived attribute (or the `None` fill of QuantileDeltaMapping.cdf_threshold);
    no `setattr`, no `__dict__` access, no global / nonlocal / cache decorator / class-attribute state -/
theorem selfAssigns_in_post_init : Model.Purity.selfAssigns.all selfAssignOk = true := by decide +kernel

theorem no_global_state : Model.Purity.globalState = [] := rfl

variable {σ A U O : Type}

/-- **derive_idem.**  `__attrs_post_init__` a second time: same instance, same exception (if any). -/
theorem derive_idem (k : Kind) (i : Inst σ) : derive k (derive k i).1 = derive k i := Lemmas.Instance.derive_idem k i

/-- **apply_settings_fixed.**  `apply` leaves the instance in the state `__attrs_post_init__` produces; this state
    differs from the one before in no setting except that a QuantileDeltaMapping `cdf_threshold` that was `None` has
    been filled in. -/
theorem apply_settings_fixed (run : Kind → View σ → A → U → Except String O) (k : Kind) (i : Inst σ) (a : A) (u : U) :
    (apply run k i a u).1 = (derive k i).1 ∧
    Lemmas.Instance.core (apply run k i a u).1 = Lemmas.Instance.core i ∧
    ((i.settings.cdfThreshold ≠ none ∨ k ≠ .quantileDeltaMapping) →
      (apply run k i a u).1.settings.cdfThreshold = i.settings.cdfThreshold) := by
  have h1 : (apply run k i a u).1 = (derive k i).1 := by
    unfold apply
    cases hd : derive k i with
    | mk j x => cases x <;> rfl
  refine ⟨h1, ?_, ?_⟩
  · rw [h1]
    exact Lemmas.Instance.deriveL_core (steps k) i _ _ rfl
  · intro h
    rw [h1]
    apply Lemmas.Instance.deriveL_cdf (steps k) i _ _ rfl
    rcases h with h | h
    · exact Or.inl h
    · right
      cases k <;> simp_all [steps]

/-- **output_depends_only_on.**  Two instances with the same settings — whatever derived attributes earlier calls or
    earlier settings left on them — give the same output (or the same exception) for the same arguments and draws. -/
theorem output_depends_only_on (run : Kind → View σ → A → U → Except String O) (k : Kind) (i i' : Inst σ)
    (h : i.settings = i'.settings) (a : A) (u : U) : (apply run k i a u).2 = (apply run k i' a u).2 := by
  have hs := Lemmas.Instance.deriveL_sim (steps k) i i' h
  unfold apply
  cases h1 : derive k i with
  | mk j x =>
    cases h2 : derive k i' with
    | mk j' x' =>
      have e1 : deriveL (steps k) i = (j, x) := h1
      have e2 : deriveL (steps k) i' = (j', x') := h2
      rw [e1, e2] at hs
      simp only at hs
      obtain ⟨hx, hset⟩ := hs
      subst hx
      cases x with
      | some e => rfl
      | none =>
        simp only
        rw [Lemmas.Instance.view_of_derive k i j h1, Lemmas.Instance.view_of_derive k i' j' h2, hset]

/-- **apply_repeatable.**  After any sequence of earlier calls on the same instance (other data, other draws, calls that
    raised), a call gives the output of the very first such call on the original instance. -/
theorem apply_repeatable (run : Kind → View σ → A → U → Except String O) (k : Kind) (i : Inst σ)
    (calls : List (A × U)) (a : A) (u : U) :
    (apply run k (applySeq run k i calls) a u).2 = (apply run k i a u).2 := by
  induction calls generalizing i with
  | nil => rfl
  | cons cu r ih =>
    obtain ⟨a', u'⟩ := cu
    simp only [applySeq]
    rw [ih]
    have hst := (apply_settings_fixed run k i a' u').1
    rw [hst]
    unfold apply
    rw [derive_idem]

/-- **apply_state_fixpoint.**  The instance after a second `apply` is the instance after the first (the `vars(instance)`
    snapshots of tier B). -/
theorem apply_state_fixpoint (run : Kind → View σ → A → U → Except String O) (k : Kind) (i : Inst σ) (a a' : A) (u u' : U) :
    (apply run k (apply run k i a u).1 a' u').1 = (apply run k i a u).1 := by
  rw [(apply_settings_fixed run k _ a' u').1, (apply_settings_fixed run k i a u).1, derive_idem]

/-- **applyLocation_state.**  `apply_location` leaves every attribute of the instance as it is (it does not even
    re-derive). -/
theorem applyLocation_state (runLoc : Kind → View σ → A → U → Except String O) (k : Kind) (i : Inst σ) (a : A) (u : U) :
    (applyLocation runLoc k i a u).1 = i := rfl

private theorem normOdd_facts (n : Int) : Model.Windows.normOdd n % 2 = 1 ∧ n ≤ Model.Windows.normOdd n ∧
    Model.Windows.normOdd (Model.Windows.normOdd n) = Model.Windows.normOdd n := by
  unfold Model.Windows.normOdd
  split <;> (refine ⟨by omega, by omega, ?_⟩; first | rfl | (split <;> omega))

/-- **window_normalised_at_construction.**  The (length, step) a window object carries after construction (what the
    FIRST run reads) is already the normalised pair: both odd, `0 < step ≤ length`, and a fixed point of the
    construction — normalising again at the time of use would change nothing.  Together with `applyLocation_state`
    (no call changes a derived attribute) the first `apply_location` and every later one read the same window, for
    every setting incl. the even ones the constructor increases by one. -/
theorem window_normalised_at_construction (L S : Int) (w : Int × Int) (h : mkWindow L S = .ok w) :
    w.1 % 2 = 1 ∧ w.2 % 2 = 1 ∧ 0 < w.2 ∧ w.2 ≤ w.1 ∧ mkWindow w.1 w.2 = .ok w := by
  obtain ⟨a, b⟩ := w
  unfold mkWindow Model.Windows.postInit at h
  have hL := normOdd_facts L
  have hS := normOdd_facts S
  split at h
  · cases h
  · split at h
    · cases h
    · simp only [Except.ok.injEq, Prod.mk.injEq] at h
      obtain ⟨rfl, rfl⟩ := h
      refine ⟨hL.1, hS.1, by omega, by omega, ?_⟩
      unfold mkWindow Model.Windows.postInit
      rw [hL.2.2, hS.2.2]
      split
      · omega
      · first | rfl | (split <;> first | omega | rfl)

/-- the hypothesis is satisfiable by an even (length, step): `RunningWindowOverYears(18, 10)` carries `(19, 11)` -/
example : mkWindow 18 10 = .ok (19, 11) := by rfl

theorem runSeq_state (run runLoc : Kind → View σ → A → U → Except String O) (k : Kind) (i : Inst σ) (calls : List (Call A U)) :
    runSeq run runLoc k i calls = i ∨ runSeq run runLoc k i calls = (derive k i).1 := by
  induction calls generalizing i with
  | nil => exact Or.inl rfl
  | cons c r ih =>
    simp only [runSeq]
    cases c with
    | applyLocation a u => exact ih i
    | apply a u =>
      simp only [runCall]
      rw [(apply_settings_fixed run k i a u).1]
      rcases ih (derive k i).1 with h | h
      · exact Or.inr h
      · right; rw [h, derive_idem]

/-- **mixed_repeatable.**  After any sequence of earlier calls through BOTH entry points (`apply` on grids,
    `apply_location` on single series; other data, other draws, calls that raised), `apply` gives the output of the very
    first such call on the original instance. -/
theorem mixed_repeatable (run runLoc : Kind → View σ → A → U → Except String O) (k : Kind) (i : Inst σ)
    (calls : List (Call A U)) (a : A) (u : U) :
    (apply run k (runSeq run runLoc k i calls) a u).2 = (apply run k i a u).2 := by
  rcases runSeq_state run runLoc k i calls with h | h
  · rw [h]
  · rw [h]; unfold apply; rw [derive_idem]

/-- **applyLocation_repeatable.**  On an instance in the state construction leaves it in (a fixed point of
    `__attrs_post_init__`), a direct `apply_location` after any mixed sequence of earlier calls gives the same output:
    the sequence never changes the instance. -/
theorem applyLocation_repeatable (run runLoc : Kind → View σ → A → U → Except String O) (k : Kind) (i : Inst σ)
    (hfix : (derive k i).1 = i) (calls : List (Call A U)) (a : A) (u : U) :
    (applyLocation runLoc k (runSeq run runLoc k i calls) a u).2 = (applyLocation runLoc k i a u).2 := by
  rcases runSeq_state run runLoc k i calls with h | h
  · rw [h]
  · rw [h, hfix]

/-- the hypothesis of `applyLocation_repeatable` holds for every constructed instance -/
example (k : Kind) (s : Settings σ) : (derive k (construct k s).1).1 = (construct k s).1 := by
  unfold construct; rw [derive_idem]

/-- **deterministic_any_draws.**  If the run of a configuration does not read the draws (no random step is switched
    on — what `draw_sites_tied` says statically and tier B checks by not re-seeding), then a call after any mixed
    sequence of earlier calls gives the same output whatever state the generator is in. -/
theorem deterministic_any_draws (run runLoc : Kind → View σ → A → U → Except String O) (k : Kind) (i : Inst σ)
    (hdet : ∀ v a u u', run k v a u = run k v a u') (calls : List (Call A U)) (a : A) (u u' : U) :
    (apply run k (runSeq run runLoc k i calls) a u').2 = (apply run k i a u).2 := by
  rw [mixed_repeatable]
  unfold apply
  cases derive k i with
  | mk j x => cases x with
    | none => exact hdet _ _ _ _
    | some e => rfl

theorem settings_ext (i j : Inst σ) (hc : Lemmas.Instance.core i = Lemmas.Instance.core j)
    (ht : i.settings.cdfThreshold = j.settings.cdfThreshold) : i.settings = j.settings := by
  obtain ⟨⟨a1, a2, a3, a4, a5, a6, a7, a8, a9, a10⟩, d⟩ := i
  obtain ⟨⟨b1, b2, b3, b4, b5, b6, b7, b8, b9, b10⟩, d'⟩ := j
  simp only [Lemmas.Instance.core, Lemmas.Instance.Core.mk.injEq] at hc
  simp only at ht
  obtain ⟨h1, h2, h3, h4, h5, h6, h7, h8, h9⟩ := hc
  subst h1 h2 h3 h4 h5 h6 h7 h8 h9 ht
  rfl

/-- **excursion_invisible.**  Assign another `running_window_length`, call `apply`, assign the old length back: the
    next `apply` gives the output it gave before the excursion (the derived window object is rebuilt; nothing else
    remembers the excursion) — provided the threshold of a QuantileDeltaMapping is a value (it always is after
    construction); `qdm_cdf_threshold_sticky` shows what happens to it when the length is NOT assigned back. -/
theorem excursion_invisible (run : Kind → View σ → A → U → Except String O) (k : Kind) (j : Inst σ)
    (hcdf : j.settings.cdfThreshold ≠ none ∨ k ≠ .quantileDeltaMapping) (L' : Int) (a a' : A) (u u' : U) :
    (apply run k (setRwLen (apply run k (setRwLen j L') a' u').1 j.settings.rwLen) a u).2 = (apply run k j a u).2 := by
  apply output_depends_only_on
  have hs := apply_settings_fixed run k (setRwLen j L') a' u'
  have hc := hs.2.1
  have ht := hs.2.2 (by
    rcases hcdf with h | h
    · exact Or.inl (by simpa [setRwLen] using h)
    · exact Or.inr h)
  apply settings_ext
  · simp only [Lemmas.Instance.core, Lemmas.Instance.Core.mk.injEq, setRwLen] at hc ⊢
    obtain ⟨h1, _, h3, h4, h5, h6, h7, h8, h9⟩ := hc
    simp [h1, h3, h4, h5, h6, h7, h8, h9]
  · simpa [setRwLen] using ht

/-- non-trivial instance of the hypotheses: a QuantileDeltaMapping whose output is the threshold it sees -/
example : (apply (fun _ v (_ : Unit) (_ : Unit) => (.ok v.settings.cdfThreshold : Except String (Option Rat)))
    .quantileDeltaMapping ⟨⟨true, 31, 31, true, 31, 1, none, false, false, ()⟩, ⟨none, none⟩⟩ () ()).2.toOption
    = some (some (1 / 962 : Rat)) := by decide +kernel

/-- **qdm_cdf_threshold_sticky** (what the code does; relevant to C15, outside C12's "same settings" clause).
    Construct a QuantileDeltaMapping with `cdf_threshold=None` and window length 31, then assign
    `running_window_length = 91`: the threshold stays `1/(31·31+1)`, whereas a fresh instance with length 91 has
    `1/(91·31+1)`.  The filled-in value has become a setting. -/
theorem qdm_cdf_threshold_sticky :
    let s : Settings Unit := ⟨true, 31, 31, true, 31, 1, none, false, false, ()⟩
    let used := setRwLen (construct .quantileDeltaMapping s).1 91
    let fresh : Inst Unit := ⟨{ s with rwLen := 91 }, ⟨none, none⟩⟩
    (derive .quantileDeltaMapping used).1.settings.cdfThreshold = some (1 / 962) ∧
    (derive .quantileDeltaMapping fresh).1.settings.cdfThreshold = some (1 / 2822) := by
  decide +kernel

end Props.C12
