/-
  C04, tier A for the ISIMIP `has_*` properties: the definitions regenerated from `/repo`'s current text
  (`Gen.Config.has_*`, translator group `Config`) are what the layer-N model of ISIMIP (`Model.Isimip.Cfg.has*`) uses,
  and for the `∓∞` settings of an unbounded variable every one of them is `false`.
  Imports the generated file only (not `Lemmas/GenConfig`, whose other obligations belong to C15).
-/
import IbicusModel.Gen.Config
import IbicusModel.Lemmas.C04Isimip

namespace Props.C04
open Model.Isimip Lemmas.C04

/-- the two copies of the extended reals (configuration model / ISIMIP model) -/
def toConfigExt : ExtRat → Model.Config.ExtRat
  | .negInf => .negInf
  | .fin q => .fin q
  | .posInf => .posInf

/-- **the model's `has_*` are the generated ones** (whatever the settings) -/
theorem isimip_flags_are_generated (c : Cfg) :
    c.hasLowerThreshold = Gen.Config.has_lower_threshold (toConfigExt c.lowerBound) (toConfigExt c.lowerThreshold)
        (toConfigExt c.upperBound) (toConfigExt c.upperThreshold) ∧
    c.hasLowerBound = Gen.Config.has_lower_bound (toConfigExt c.lowerBound) (toConfigExt c.lowerThreshold)
        (toConfigExt c.upperBound) (toConfigExt c.upperThreshold) ∧
    c.hasUpperThreshold = Gen.Config.has_upper_threshold (toConfigExt c.lowerBound) (toConfigExt c.lowerThreshold)
        (toConfigExt c.upperBound) (toConfigExt c.upperThreshold) ∧
    c.hasUpperBound = Gen.Config.has_upper_bound (toConfigExt c.lowerBound) (toConfigExt c.lowerThreshold)
        (toConfigExt c.upperBound) (toConfigExt c.upperThreshold) := by
  unfold Cfg.hasLowerThreshold Cfg.hasLowerBound Cfg.hasUpperThreshold Cfg.hasUpperBound
  refine ⟨?_, ?_, ?_, ?_⟩
  · cases c.lowerThreshold <;> rfl
  · cases c.lowerBound <;> rfl
  · cases c.upperThreshold <;> rfl
  · cases c.upperBound <;> rfl

/-- **for `∓∞` settings the generated `has_*` are all false** (complete finite evaluation: `decide`) -/
theorem isimip_unbounded_flags_generated :
    Gen.Config.has_lower_threshold .negInf .negInf .posInf .posInf = false ∧
    Gen.Config.has_lower_bound .negInf .negInf .posInf .posInf = false ∧
    Gen.Config.has_upper_threshold .negInf .negInf .posInf .posInf = false ∧
    Gen.Config.has_upper_bound .negInf .negInf .posInf .posInf = false ∧
    Gen.Config.has_bound .negInf .negInf .posInf .posInf = false ∧
    Gen.Config.has_threshold .negInf .negInf .posInf .posInf = false := by decide

/-- **`_from_variable` builds its constructor arguments as a fresh dict literal** from the general settings, the variable
    settings and the keyword arguments, in this order (later entries win) — the shape `Model.FromVariable.params` has; an
    implementation that updates one of the tables in place has a different literal (tier A: regenerated from the source) -/
theorem from_variable_builds_fresh_dict :
    Gen.Config.fromVariableShape.mergeOrder
      = ["variable", "reasonable_physical_range", "**default_settings_general", "**variable_settings", "**kwargs"] := by decide

-- non-vacuity of the first statement: a pr-like configuration has a lower threshold, in the model and in the generated text
example : Gen.Config.has_lower_threshold (.fin 0) (.fin (1 / 10)) .posInf .posInf = true := by decide +kernel

end Props.C04
