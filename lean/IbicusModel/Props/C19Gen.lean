/-
  C19 on the code itself: statements of `Props/C19.lean` transported along the tier-A equalities of
  `Lemmas/GenMetrics.lean` onto the definitions regenerated from /repo's current `ibicus/evaluate/metrics.py`
  (`Gen.Metrics.*`).  Property theorems only.
-/
import IbicusModel.Props.C19
import IbicusModel.Lemmas.GenMetrics

namespace Props.C19Gen
open Model.Metrics Model.NpExpr Lemmas.Metrics Lemmas.GenMetrics

/-- **instances_def on the source's dispatch**: for each of the four `threshold_type` strings the regenerated
    `_get_mask_threshold_condition` / `_get_mask_higher_or_lower`, applied to one value `x` with thresholds `lo`
    (`threshold_value` resp. `threshold_value[0]`) and `hi` (`threshold_value[1]`), returns exactly the defining comparison:
    strict `>`; strict `<`; `lo < x ∧ x < hi`; `x < lo ∨ x > hi`. -/
theorem source_condition (ty : ThType) (x lo hi : Rat) :
    condition ty.str x lo hi = .ok (match ty with
      | .higher => decide (x > lo)
      | .lower => decide (x < lo)
      | .between => decide (lo < x ∧ x < hi)
      | .outside => decide (x < lo ∨ x > hi)) := by
  rw [condition_known, Props.C19.condX_fin]
  cases ty <;> rfl

example : condition "between" 2 1 3 = .ok true ∧ condition "between" 1 1 3 = .ok false ∧
    condition "outside" 1 1 3 = .ok false ∧ condition "higher" 1 1 0 = .ok false ∧
    condition "inside" 2 1 3 = .error "ValueError" := by
  simp only [condition_elementwise]; decide +kernel  -- concrete witnesses

/-- **instances_def on the source's masks**: whenever the regenerated `_get_mask_threshold_condition` (over the regenerated
    comparison and `Model.Metrics.thresholds`) returns a mask, `.astype(int)` of it satisfies `Props.C19.instances_def`. -/
theorem source_instances (m : Metric) (x : Data) (grp : Option (Nat → Int)) (T : Nat) (mk : Mask)
    (h : Gen.Metrics.mask_threshold_condition (genMaskHL x grp T) maskAnd maskOr m.ty.str m.v0 m.v0 m.v1 = .ok mk) :
    instances m x grp T = .ok (inst mk) := by
  rw [mask_threshold_condition_model] at h
  simp [instances, h, Except.map]

/-- **spell_eq_rle on the source's expression**: on every non-empty Boolean series the expression that
    `_calculate_spell_lengths_one_location` returns *now* denotes the lengths of the maximal runs of `True`, in order. -/
theorem source_spell_eq_rle (m : List Bool) (hne : m ≠ []) (p : Int) :
    denote (.bs m) p Gen.Metrics.spellExpr = .ok (.is ((rle m).map (fun (n : Nat) => (n : Int)))) := by
  rw [spellExpr_denote, Props.C19.spell_eq_rle m hne]

/-- on an empty series it raises `IndexError` -/
theorem source_spell_empty (p : Int) : denote (.bs []) p Gen.Metrics.spellExpr = .error "IndexError" := by
  rw [spellExpr_denote]; rfl

example : denote (.bs [true, true, false, true, false, false, true, true, true]) 0 Gen.Metrics.spellExpr
    = .ok (.is [2, 1, 3]) := by decide +kernel  -- concrete witness

/-- **calculate_spell_length on the source's pieces** (non-empty time axis): the run lengths of every location's column,
    locations in `np.ndindex` order, those with `length > minimum_length` kept. -/
theorem source_spell_lengths_grid (m : Mask) (T I J : Nat) (hT : 0 < T) (minLen : Int) :
    genSpellLengths m T I J minLen = .ok
      (((cells I J).map (fun c => (rle (column m T c.1 c.2)).map (fun (n : Nat) => (n : Int)))).flatten.filter
        (fun s => decide (s > minLen))) := by
  rw [genSpellLengths_model, Props.C19.spell_lengths_grid m T I J hT minLen]

/-- **accumulative_percent / intensity on the source's formulas**: at one location the regenerated formulas are
    `100 · Σ filtered / Σ all` and `Σ filtered / #instances` of the regenerated `np.where(mask, dataset, 0)` and
    `.astype(int)`; a zero denominator is `div0` (NaN / inf in numpy). -/
theorem source_accumulative (x : Data) (m : Mask) (T i j : Nat) (tm : List Int) :
    let maskf : List Rat → List Int → List Bool := fun _ _ => column m T i j
    let data := col T (fun t => x t i j)
    Gen.Metrics.percent_of_total (Gen.Metrics.filter_exceedances maskf) data tm
        = (match percent x m T i j with | some v => .ok v | none => .error "div0") ∧
    Gen.Metrics.intensity_index (Gen.Metrics.filter_exceedances maskf) (Gen.Metrics.instances maskf) data tm
        = (match intensity x m T i j with | some v => .ok v | none => .error "div0") := by
  intro maskf data
  have hf : Gen.Metrics.filter_exceedances maskf data tm = col T (fun t => filt x m t i j) := filter_column x m T i j tm
  have hi : Gen.Metrics.instances maskf data tm = col T (fun t => ((inst m t i j : Nat) : Int)) :=
    instances_column m T i j data tm
  constructor
  · have := percent_column x m T i j tm
    simp only [Gen.Metrics.percent_of_total] at this ⊢
    rw [hf]; exact this
  · have := intensity_column x m T i j tm
    simp only [Gen.Metrics.intensity_index] at this ⊢
    rw [hf, hi]; exact this

end Props.C19Gen
