/-
  C13 — failsafe mode isolates failing locations.
  Property theorems only.  Stated on `Model.Grid` for an arbitrary element type `α`, exception type `ε`,
  every grid size, **every subset of failing cells** (`failAt S err clean`: the location function that raises
  `err c` exactly on `S` and returns `clean c` elsewhere — every partial location function has this form,
  see `failAt_complete`), serial and every completion schedule of the pool (`ModeOk`).

  Not modelled: process start, pickling, logging.  Pool behaviour relative to the slot model of
  `Model.Grid.poolRun` (first *completed* raising task ends the map with its exception).
-/
import IbicusModel.Lemmas.Grid

namespace Props.C13
open Model.Grid Lemmas.Grid

variable {α ε : Type}

/-- every location function is a `failAt`: quantifying over `S`, `err`, `clean` is quantifying over all
    partial location functions and all subsets of failing cells -/
theorem failAt_complete [Inhabited ε] (f : Cell → Except ε (List α)) :
    ∃ S err clean, f = failAt S err clean := by
  refine ⟨fun c => match f c with | .ok _ => false | .error _ => true,
          fun c => match f c with | .ok _ => default | .error e => e,
          fun c => match f c with | .ok v => v | .error _ => [], ?_⟩
  funext c
  unfold failAt
  cases hf : f c <;> simp [hf]

/-! ### failsafe = True -/

/-- **Failsafe isolates.** For every location function (every set of raising cells), every grid size and
    every mode: with `failsafe=True` an array is returned; its column is all-NaN exactly at the raising
    cells and is the location's own result at every other cell.  (Guard: non-raising cells return a series of
    the buffer's time length — a wrong length is numpy's error, see `Props.C05.wrong_length_no_array`.) -/
theorem failsafe_isolates (f : Cell → Except ε (List α)) (T nx ny : Nat) (m : Mode) (hm : ModeOk m nx ny)
    (hlen : ∀ i j, i < nx → j < ny → ∀ v, f (i, j) = .ok v → v.length = T) :
    ∃ out, applyGrid f true T nx ny m = .ok out ∧ Shaped out T nx ny ∧
      ∀ i j, i < nx → j < ny →
        (∀ e, f (i, j) = .error e → slice out i j = List.replicate T (some .nan)) ∧
        (∀ v, f (i, j) = .ok v → slice out i j = v.map (fun x => some (.val x))) := by
  have hall : ∀ i j, i < nx → j < ny → ∃ col, cellCol f true T (i, j) = .ok col := by
    intro i j hi hj
    cases hf : f (i, j) with
    | ok v => exact ⟨_, cellCol_series f true T (i, j) v hf (hlen i j hi hj v hf)⟩
    | error e => exact ⟨_, cellCol_failsafe f T (i, j) e hf⟩
  have hok := grid_ok_of_all f true T nx ny m hm hall
  obtain ⟨hsh, hcols⟩ := grid_ok_inv f true T nx ny m hm _ hok
  refine ⟨_, hok, hsh, ?_⟩
  intro i j hi hj
  obtain ⟨col, hcol, hsl⟩ := hcols i j hi hj
  constructor
  · intro e he
    rw [cellCol_failsafe f T (i, j) e he] at hcol
    rw [hsl, ← Except.ok.inj hcol, List.map_replicate]
  · intro v hv
    rw [cellCol_series f true T (i, j) v hv (hlen i j hi hj v hv)] at hcol
    rw [hsl, ← Except.ok.inj hcol, List.map_map]; rfl

/-- **Every subset `S` of failing cells; other cells identical to a clean run.**  Run A: the debiaser raises
    exactly on `S`, `failsafe=True`, mode `m`.  Run B ("nothing failed"): it returns `clean c` everywhere, any
    failsafe flag, mode `m'`.  Both return arrays of the same shape; A's column is NaN on `S`; off `S` the two
    columns are equal (and are `clean c`). -/
theorem failsafe_subset (S : Cell → Bool) (err : Cell → ε) (clean : Cell → List α) (T nx ny : Nat)
    (m m' : Mode) (hm : ModeOk m nx ny) (hm' : ModeOk m' nx ny) (fs' : Bool)
    (hlen : ∀ i j, i < nx → j < ny → (clean (i, j)).length = T) :
    ∃ outA outB,
      applyGrid (failAt S err clean) true T nx ny m = .ok outA ∧
      applyGrid (ε := ε) (fun c => .ok (clean c)) fs' T nx ny m' = .ok outB ∧
      Shaped outA T nx ny ∧ Shaped outB T nx ny ∧
      ∀ i j, i < nx → j < ny →
        (S (i, j) = true → slice outA i j = List.replicate T (some .nan)) ∧
        (S (i, j) = false → slice outA i j = slice outB i j) ∧
        slice outB i j = (clean (i, j)).map (fun x => some (.val x)) := by
  obtain ⟨outA, hA, hshA, hcolA⟩ := failsafe_isolates (failAt S err clean) T nx ny m hm (by
    intro i j hi hj v hv
    unfold failAt at hv
    split at hv
    · cases hv
    · rw [← Except.ok.inj hv]; exact hlen i j hi hj)
  have hallB : ∀ i j, i < nx → j < ny →
      ∃ col, cellCol (ε := ε) (fun c => .ok (clean c)) fs' T (i, j) = .ok col :=
    fun i j hi hj => ⟨_, cellCol_series _ fs' T (i, j) (clean (i, j)) rfl (hlen i j hi hj)⟩
  have hB := grid_ok_of_all (ε := ε) (fun c => .ok (clean c)) fs' T nx ny m' hm' hallB
  obtain ⟨hshB, hcolB⟩ := grid_ok_inv _ fs' T nx ny m' hm' _ hB
  refine ⟨outA, _, hA, hB, hshA, hshB, ?_⟩
  intro i j hi hj
  have hBcol : slice (built (ε := ε) (fun c => .ok (clean c)) fs' T nx ny) i j =
      (clean (i, j)).map (fun x => some (.val x)) := by
    obtain ⟨col, hcol, hsl⟩ := hcolB i j hi hj
    rw [cellCol_series _ fs' T (i, j) (clean (i, j)) rfl (hlen i j hi hj)] at hcol
    rw [hsl, ← Except.ok.inj hcol, List.map_map]; rfl
  refine ⟨?_, ?_, hBcol⟩
  · intro hS
    exact (hcolA i j hi hj).1 (err (i, j)) (by unfold failAt; rw [hS]; rfl)
  · intro hS
    rw [hBcol]
    exact (hcolA i j hi hj).2 (clean (i, j)) (by unfold failAt; rw [hS]; rfl)

/-- failsafe mode never lets an exception of a location function out (what can still end the run is only a
    wrong-length result, which is not a failure of the location function) -/
theorem failsafe_never_cell_error (f : Cell → Except ε (List α)) (T nx ny : Nat) (m : Mode)
    (hm : ModeOk m nx ny) (e : ε) : applyGrid f true T nx ny m ≠ .error (.cell e) := by
  intro h
  have hcaught : ∀ c ∈ pairIndices nx ny, ∃ x, runCatch true (f c) = .ok x := fun c _ => runCatch_failsafe _
  have hser : applySerial f true T nx ny = .error (.cell e) := by
    cases m with
    | serial => exact h
    | parallel sched => rw [← parallel_eq_serial_of_caught f true T nx ny sched hm hcaught]; exact h
  -- the serial run: every step either writes or ends with the step's own column error, never a cell error
  rcases all_or_first (p := fun c => ∃ col, cellCol f true T c = .ok col) (ndindex nx ny) with hall | ⟨pre, c, post, hsplit, hpre, hc⟩
  · rw [serial_ok f true T nx ny hall] at hser; cases hser
  · cases hcc : cellCol f true T c with
    | ok col => exact hc ⟨col, hcc⟩
    | error e' =>
      rw [serial_first_error f true T nx ny pre post c e' hsplit hpre hcc] at hser
      have he' : e' = .cell e := Except.error.inj hser
      subst he'
      unfold cellCol at hcc
      obtain ⟨x, hx⟩ := runCatch_failsafe (f c)
      rw [hx] at hcc
      unfold colOf at hcc
      cases x with
      | nan => cases hcc
      | series v =>
        simp only at hcc
        split at hcc
        · cases hcc
        · split at hcc <;> cases hcc

/-! ### failsafe = False -/

/-- **No failsafe, some cell raises ⇒ no array**, in every mode (serial, any completion schedule). -/
theorem no_failsafe_no_array (f : Cell → Except ε (List α)) (T nx ny : Nat) (m : Mode) (hm : ModeOk m nx ny)
    (i j : Nat) (hi : i < nx) (hj : j < ny) (e : ε) (he : f (i, j) = .error e) (out : Arr3 (Elem α)) :
    applyGrid f false T nx ny m ≠ .ok out := by
  intro h
  obtain ⟨col, hcol, _⟩ := (grid_ok_inv f false T nx ny m hm out h).2 i j hi hj
  rw [cellCol_raise f T (i, j) e he] at hcol
  cases hcol

/-- **Serial: the exception of the first raising cell in row-major order propagates**, unchanged.
    (`pre` = the cells before it; they return series of the buffer's time length.) -/
theorem no_failsafe_propagates (f : Cell → Except ε (List α)) (T nx ny : Nat)
    (pre post : List Cell) (c : Cell) (hsplit : ndindex nx ny = pre ++ c :: post)
    (hpre : ∀ c' ∈ pre, ∃ v, f c' = .ok v ∧ v.length = T) (e : ε) (he : f c = .error e) :
    applySerial f false T nx ny = .error (.cell e) :=
  serial_first_error f false T nx ny pre post c (.cell e) hsplit
    (fun c' hc' => by
      obtain ⟨v, hv, hl⟩ := hpre c' hc'
      exact ⟨_, cellCol_series f false T c' v hv hl⟩)
    (cellCol_raise f T c e he)

/-- **Parallel: the exception of *some* raising cell propagates** (for every completion schedule), before
    anything is written — whatever the other cells return. -/
theorem no_failsafe_propagates_parallel (f : Cell → Except ε (List α)) (T nx ny : Nat) (sched : List Nat)
    (hs : sched.Perm (List.range (nx * ny))) (i j : Nat) (hi : i < nx) (hj : j < ny) (e : ε)
    (he : f (i, j) = .error e) :
    ∃ i' j' e', i' < nx ∧ j' < ny ∧ f (i', j') = .error e' ∧
      applyParallel (α := α) f false T nx ny sched = .error (.cell e') := by
  obtain ⟨c', hc', e', he', hp⟩ := parallel_error (α := α) f false T nx ny sched hs (i, j)
    ((mem_pairIndices nx ny (i, j)).mpr ⟨hi, hj⟩) (.cell e) (by unfold runCatch; rw [he]; rfl)
  obtain ⟨_, e0, h0, rfl⟩ := (runCatch_error_iff false (f c') e').mp he'
  have := (mem_pairIndices nx ny c').mp hc'
  exact ⟨c'.1, c'.2, e0, this.1, this.2, h0, hp⟩

/-- … precisely: the first raising task *in completion order* (`sched = pre ++ k :: post`, the tasks in `pre`
    do not raise, task `k` is cell `c` and raises `e`). -/
theorem no_failsafe_parallel_first_completed (f : Cell → Except ε (List α)) (T nx ny : Nat)
    (pre post : List Nat) (k : Nat) (c : Cell) (hk : (pairIndices nx ny)[k]? = some c)
    (hpre : ∀ k' ∈ pre, ∀ c', (pairIndices nx ny)[k']? = some c' → ∃ v, f c' = .ok v)
    (e : ε) (he : f c = .error e) :
    applyParallel (α := α) f false T nx ny (pre ++ k :: post) = .error (.cell e) := by
  unfold applyParallel
  simp only []
  rw [starmap_first_error (fun c => runCatch false (f c)) (pairIndices nx ny) pre post k c (.cell e)
    (fun k' hk' c' hc' => by
      obtain ⟨v, hv⟩ := hpre k' hk' c' hc'
      exact ⟨.series v, by show runCatch false (f c') = _; rw [hv]; rfl⟩)
    hk (by show runCatch false (f c) = _; rw [he]; rfl)]
  rfl

/-! ### non-vacuity: a concrete 2×3 grid, failing subset S = {(0,1), (1,2)} -/

namespace Example

def S : Cell → Bool := fun c => c == (0, 1) || c == (1, 2)
def err : Cell → String := fun c => s!"boom{c.1}{c.2}"
def clean : Cell → List Nat := fun c => [10 * c.1 + c.2, 100 + 10 * c.1 + c.2]
def sched : List Nat := [5, 2, 0, 4, 1, 3]

example : sched.Perm (List.range (2 * 3)) := by decide

/-- failsafe on: NaN columns exactly at (0,1) and (1,2), the clean values elsewhere — serial … -/
example : applyGrid (failAt S err clean) true 2 2 3 .serial =
    .ok [[[some (.val 0), some .nan, some (.val 2)], [some (.val 10), some (.val 11), some .nan]],
         [[some (.val 100), some .nan, some (.val 102)], [some (.val 110), some (.val 111), some .nan]]] := by
  decide

/-- … and under the pool schedule -/
example : applyGrid (failAt S err clean) true 2 2 3 (.parallel sched) =
    applyGrid (failAt S err clean) true 2 2 3 .serial := by decide

/-- the clean run -/
example : applyGrid (ε := String) (fun c => .ok (clean c)) false 2 2 3 .serial =
    .ok [[[some (.val 0), some (.val 1), some (.val 2)], [some (.val 10), some (.val 11), some (.val 12)]],
         [[some (.val 100), some (.val 101), some (.val 102)], [some (.val 110), some (.val 111), some (.val 112)]]] := by
  decide

/-- failsafe off, serial: the exception of (0,1) — the first of S in row-major order -/
example : applyGrid (failAt S err clean) false 2 2 3 .serial = .error (.cell "boom01") := by decide

/-- failsafe off, parallel under `sched` (task 5 = cell (1,2) completes first): the exception of (1,2) -/
example : applyGrid (failAt S err clean) false 2 2 3 (.parallel sched) = .error (.cell "boom12") := by decide

/-- the hypotheses of `no_failsafe_propagates` are satisfiable: `ndindex 2 3 = [(0,0)] ++ (0,1) :: …` -/
example : ndindex 2 3 = [(0, 0)] ++ (0, 1) :: [(0, 2), (1, 0), (1, 1), (1, 2)] ∧
    (∀ c' ∈ [((0 : Nat), (0 : Nat))], ∃ v, failAt S err clean c' = .ok v ∧ v.length = 2) ∧
    failAt S err clean (0, 1) = .error "boom01" := by
  refine ⟨by decide, ?_, by decide⟩
  intro c' hc'
  simp only [List.mem_singleton] at hc'
  subst hc'
  exact ⟨[0, 100], by decide, rfl⟩

end Example

end Props.C13
