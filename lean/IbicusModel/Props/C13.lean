/-
  C13 — failsafe mode isolates failing locations.
  Property theorems only.  Stated on `Model.Grid` for an arbitrary element type `α`, exception type `ε`,
  every grid size, **every subset of failing cells** (`failAt S err clean`: the location function that raises
  `err c` exactly on `S` and returns `clean c` elsewhere — every partial location function has this form,
  see `failAt_complete`), serial and every completion schedule of the pool (`ModeOk`).

  Not modelled: process start, pickling, logging.  Pool behaviour relative to the slot model of
  `Model.Grid.poolRun` (first *completed* raising task ends the map with its exception).
-/
import IbicusModel.Lemmas.Grid
import IbicusModel.Lemmas.GridState
import IbicusModel.Lemmas.GenGridLoops

namespace Props.C13
open Model.Grid Lemmas.Grid Lemmas.GridState

variable {α ε : Type}

/-- every location function is a `failAt`: quantifying over `S`, `err`, `clean` is quantifying over all
    partial location functions and all subsets of failing cells -/
theorem failAt_complete [Inhabited ε] (f : Cell → Except ε (List α)) :
    ∃ S err clean, f = failAt S err clean := by
  refine ⟨fun c => match f c with | .ok _ => false | .error _ => true,
          fun c => match f c with | .ok _ => default | .error e => e,
          fun c => match f c with | .ok v => v | .error _ => [], ?_⟩
  funext c
  unfold failAt
  cases hf : f c <;> simp [hf]

/-! ### failsafe = True -/

/-- **Failsafe isolates.** For every location function (every set of raising cells), every grid size and
    every mode: with `failsafe=True` an array is returned; its column is all-NaN exactly at the raising
    cells and is the location's own result at every other cell.  (Guard: non-raising cells return a series of
    the buffer's time length — a wrong length is numpy's error, see `Props.C05.wrong_length_no_array`.) -/
theorem failsafe_isolates (f : Cell → Except ε (List α)) (T nx ny : Nat) (m : Mode) (hm : ModeOk m nx ny)
    (hlen : ∀ i j, i < nx → j < ny → ∀ v, f (i, j) = .ok v → v.length = T) :
    ∃ out, applyGrid f true T nx ny m = .ok out ∧ Shaped out T nx ny ∧
      ∀ i j, i < nx → j < ny →
        (∀ e, f (i, j) = .error e → slice out i j = List.replicate T (some .nan)) ∧
        (∀ v, f (i, j) = .ok v → slice out i j = v.map (fun x => some (.val x))) := by
  have hall : ∀ i j, i < nx → j < ny → ∃ col, cellCol f true T (i, j) = .ok col := by
    intro i j hi hj
    cases hf : f (i, j) with
    | ok v => exact ⟨_, cellCol_series f true T (i, j) v hf (hlen i j hi hj v hf)⟩
    | error e => exact ⟨_, cellCol_failsafe f T (i, j) e hf⟩
  have hok := grid_ok_of_all f true T nx ny m hm hall
  obtain ⟨hsh, hcols⟩ := grid_ok_inv f true T nx ny m hm _ hok
  refine ⟨_, hok, hsh, ?_⟩
  intro i j hi hj
  obtain ⟨col, hcol, hsl⟩ := hcols i j hi hj
  constructor
  · intro e he
    rw [cellCol_failsafe f T (i, j) e he] at hcol
    rw [hsl, ← Except.ok.inj hcol, List.map_replicate]
  · intro v hv
    rw [cellCol_series f true T (i, j) v hv (hlen i j hi hj v hv)] at hcol
    rw [hsl, ← Except.ok.inj hcol, List.map_map]; rfl

/-- **Every subset `S` of failing cells; other cells identical to a clean run.**  Run A: the debiaser raises
    exactly on `S`, `failsafe=True`, mode `m`.  Run B ("nothing failed"): it returns `clean c` everywhere, any
    failsafe flag, mode `m'`.  Both return arrays of the same shape; A's column is NaN on `S`; off `S` the two
    columns are equal (and are `clean c`). -/
theorem failsafe_subset (S : Cell → Bool) (err : Cell → ε) (clean : Cell → List α) (T nx ny : Nat)
    (m m' : Mode) (hm : ModeOk m nx ny) (hm' : ModeOk m' nx ny) (fs' : Bool)
    (hlen : ∀ i j, i < nx → j < ny → (clean (i, j)).length = T) :
    ∃ outA outB,
      applyGrid (failAt S err clean) true T nx ny m = .ok outA ∧
      applyGrid (ε := ε) (fun c => .ok (clean c)) fs' T nx ny m' = .ok outB ∧
      Shaped outA T nx ny ∧ Shaped outB T nx ny ∧
      ∀ i j, i < nx → j < ny →
        (S (i, j) = true → slice outA i j = List.replicate T (some .nan)) ∧
        (S (i, j) = false → slice outA i j = slice outB i j) ∧
        slice outB i j = (clean (i, j)).map (fun x => some (.val x)) := by
  obtain ⟨outA, hA, hshA, hcolA⟩ := failsafe_isolates (failAt S err clean) T nx ny m hm (by
    intro i j hi hj v hv
    unfold failAt at hv
    split at hv
    · cases hv
    · rw [← Except.ok.inj hv]; exact hlen i j hi hj)
  have hallB : ∀ i j, i < nx → j < ny →
      ∃ col, cellCol (ε := ε) (fun c => .ok (clean c)) fs' T (i, j) = .ok col :=
    fun i j hi hj => ⟨_, cellCol_series _ fs' T (i, j) (clean (i, j)) rfl (hlen i j hi hj)⟩
  have hB := grid_ok_of_all (ε := ε) (fun c => .ok (clean c)) fs' T nx ny m' hm' hallB
  obtain ⟨hshB, hcolB⟩ := grid_ok_inv _ fs' T nx ny m' hm' _ hB
  refine ⟨outA, _, hA, hB, hshA, hshB, ?_⟩
  intro i j hi hj
  have hBcol : slice (built (ε := ε) (fun c => .ok (clean c)) fs' T nx ny) i j =
      (clean (i, j)).map (fun x => some (.val x)) := by
    obtain ⟨col, hcol, hsl⟩ := hcolB i j hi hj
    rw [cellCol_series _ fs' T (i, j) (clean (i, j)) rfl (hlen i j hi hj)] at hcol
    rw [hsl, ← Except.ok.inj hcol, List.map_map]; rfl
  refine ⟨?_, ?_, hBcol⟩
  · intro hS
    exact (hcolA i j hi hj).1 (err (i, j)) (by unfold failAt; rw [hS]; rfl)
  · intro hS
    rw [hBcol]
    exact (hcolA i j hi hj).2 (clean (i, j)) (by unfold failAt; rw [hS]; rfl)

/-- failsafe mode never lets an exception of a location function out (what can still end the run is only a
    wrong-length result, which is not a failure of the location function) -/
theorem failsafe_never_cell_error (f : Cell → Except ε (List α)) (T nx ny : Nat) (m : Mode)
    (hm : ModeOk m nx ny) (e : ε) : applyGrid f true T nx ny m ≠ .error (.cell e) := by
  intro h
  have hcaught : ∀ c ∈ pairIndices nx ny, ∃ x, runCatch true (f c) = .ok x := fun c _ => runCatch_failsafe _
  have hser : applySerial f true T nx ny = .error (.cell e) := by
    cases m with
    | serial => exact h
    | parallel sched => rw [← parallel_eq_serial_of_caught f true T nx ny sched hm hcaught]; exact h
  -- the serial run: every step either writes or ends with the step's own column error, never a cell error
  rcases all_or_first (p := fun c => ∃ col, cellCol f true T c = .ok col) (ndindex nx ny) with hall | ⟨pre, c, post, hsplit, hpre, hc⟩
  · rw [serial_ok f true T nx ny hall] at hser; cases hser
  · cases hcc : cellCol f true T c with
    | ok col => exact hc ⟨col, hcc⟩
    | error e' =>
      rw [serial_first_error f true T nx ny pre post c e' hsplit hpre hcc] at hser
      have he' : e' = .cell e := Except.error.inj hser
      subst he'
      unfold cellCol at hcc
      obtain ⟨x, hx⟩ := runCatch_failsafe (f c)
      rw [hx] at hcc
      unfold colOf at hcc
      cases x with
      | nan => cases hcc
      | series v =>
        simp only at hcc
        split at hcc
        · cases hcc
        · split at hcc <;> cases hcc

/-! ### failsafe = False -/

/-- **No failsafe, some cell raises ⇒ no array**, in every mode (serial, any completion schedule). -/
theorem no_failsafe_no_array (f : Cell → Except ε (List α)) (T nx ny : Nat) (m : Mode) (hm : ModeOk m nx ny)
    (i j : Nat) (hi : i < nx) (hj : j < ny) (e : ε) (he : f (i, j) = .error e) (out : Arr3 (Elem α)) :
    applyGrid f false T nx ny m ≠ .ok out := by
  intro h
  obtain ⟨col, hcol, _⟩ := (grid_ok_inv f false T nx ny m hm out h).2 i j hi hj
  rw [cellCol_raise f T (i, j) e he] at hcol
  cases hcol

/-- **Serial: the exception of the first raising cell in row-major order propagates**, unchanged.
    (`pre` = the cells before it; they return series of the buffer's time length.) -/
theorem no_failsafe_propagates (f : Cell → Except ε (List α)) (T nx ny : Nat)
    (pre post : List Cell) (c : Cell) (hsplit : ndindex nx ny = pre ++ c :: post)
    (hpre : ∀ c' ∈ pre, ∃ v, f c' = .ok v ∧ v.length = T) (e : ε) (he : f c = .error e) :
    applySerial f false T nx ny = .error (.cell e) :=
  serial_first_error f false T nx ny pre post c (.cell e) hsplit
    (fun c' hc' => by
      obtain ⟨v, hv, hl⟩ := hpre c' hc'
      exact ⟨_, cellCol_series f false T c' v hv hl⟩)
    (cellCol_raise f T c e he)

/-- **Parallel: the exception of *some* raising cell propagates** (for every completion schedule), before
    anything is written — whatever the other cells return. -/
theorem no_failsafe_propagates_parallel (f : Cell → Except ε (List α)) (T nx ny : Nat) (sched : List Nat)
    (hs : sched.Perm (List.range (nx * ny))) (i j : Nat) (hi : i < nx) (hj : j < ny) (e : ε)
    (he : f (i, j) = .error e) :
    ∃ i' j' e', i' < nx ∧ j' < ny ∧ f (i', j') = .error e' ∧
      applyParallel (α := α) f false T nx ny sched = .error (.cell e') := by
  obtain ⟨c', hc', e', he', hp⟩ := parallel_error (α := α) f false T nx ny sched hs (i, j)
    ((mem_pairIndices nx ny (i, j)).mpr ⟨hi, hj⟩) (.cell e) (by unfold runCatch; rw [he]; rfl)
  obtain ⟨_, e0, h0, rfl⟩ := (runCatch_error_iff false (f c') e').mp he'
  have := (mem_pairIndices nx ny c').mp hc'
  exact ⟨c'.1, c'.2, e0, this.1, this.2, h0, hp⟩

/-- … precisely: the first raising task *in completion order* (`sched = pre ++ k :: post`, the tasks in `pre`
    do not raise, task `k` is cell `c` and raises `e`). -/
theorem no_failsafe_parallel_first_completed (f : Cell → Except ε (List α)) (T nx ny : Nat)
    (pre post : List Nat) (k : Nat) (c : Cell) (hk : (pairIndices nx ny)[k]? = some c)
    (hpre : ∀ k' ∈ pre, ∀ c', (pairIndices nx ny)[k']? = some c' → ∃ v, f c' = .ok v)
    (e : ε) (he : f c = .error e) :
    applyParallel (α := α) f false T nx ny (pre ++ k :: post) = .error (.cell e) := by
  unfold applyParallel
  simp only []
  rw [starmap_first_error (fun c => runCatch false (f c)) (pairIndices nx ny) pre post k c (.cell e)
    (fun k' hk' c' hc' => by
      obtain ⟨v, hv⟩ := hpre k' hk' c' hc'
      exact ⟨.series v, by show runCatch false (f c') = _; rw [hv]; rfl⟩)
    hk (by show runCatch false (f c) = _; rw [he]; rfl)]
  rfl

/-! ### non-vacuity: a concrete 2×3 grid, failing subset S = {(0,1), (1,2)} -/

namespace Example

def S : Cell → Bool := fun c => c == (0, 1) || c == (1, 2)
def err : Cell → String := fun c => s!"boom{c.1}{c.2}"
def clean : Cell → List Nat := fun c => [10 * c.1 + c.2, 100 + 10 * c.1 + c.2]
def sched : List Nat := [5, 2, 0, 4, 1, 3]

example : sched.Perm (List.range (2 * 3)) := by decide

/-- failsafe on: NaN columns exactly at (0,1) and (1,2), the clean values elsewhere — serial … -/
example : applyGrid (failAt S err clean) true 2 2 3 .serial =
    .ok [[[some (.val 0), some .nan, some (.val 2)], [some (.val 10), some (.val 11), some .nan]],
         [[some (.val 100), some .nan, some (.val 102)], [some (.val 110), some (.val 111), some .nan]]] := by
  decide

/-- … and under the pool schedule -/
example : applyGrid (failAt S err clean) true 2 2 3 (.parallel sched) =
    applyGrid (failAt S err clean) true 2 2 3 .serial := by decide

/-- the clean run -/
example : applyGrid (ε := String) (fun c => .ok (clean c)) false 2 2 3 .serial =
    .ok [[[some (.val 0), some (.val 1), some (.val 2)], [some (.val 10), some (.val 11), some (.val 12)]],
         [[some (.val 100), some (.val 101), some (.val 102)], [some (.val 110), some (.val 111), some (.val 112)]]] := by
  decide

/-- failsafe off, serial: the exception of (0,1) — the first of S in row-major order -/
example : applyGrid (failAt S err clean) false 2 2 3 .serial = .error (.cell "boom01") := by decide

/-- failsafe off, parallel under `sched` (task 5 = cell (1,2) completes first): the exception of (1,2) -/
example : applyGrid (failAt S err clean) false 2 2 3 (.parallel sched) = .error (.cell "boom12") := by decide

/-- the hypotheses of `no_failsafe_propagates` are satisfiable: `ndindex 2 3 = [(0,0)] ++ (0,1) :: …` -/
example : ndindex 2 3 = [(0, 0)] ++ (0, 1) :: [(0, 2), (1, 0), (1, 1), (1, 2)] ∧
    (∀ c' ∈ [((0 : Nat), (0 : Nat))], ∃ v, failAt S err clean c' = .ok v ∧ v.length = 2) ∧
    failAt S err clean (0, 1) = .error "boom01" := by
  refine ⟨by decide, ?_, by decide⟩
  intro c' hc'
  simp only [List.mem_singleton] at hc'
  subst hc'
  exact ⟨[0, 100], by decide, rfl⟩

end Example

/-! ## Round 4: the flag without a failure, DeltaChange's time axis, the chunked pool, instance state, dispatch -/

/-- **When no location raises the failsafe flag is unobservable**: the serial runs are equal as values (also when a
    result has the wrong length: both end with the same broadcast error) … -/
theorem failsafe_flag_irrelevant_serial (f : Cell → Except ε (List α)) (T nx ny : Nat)
    (hall : ∀ i j, i < nx → j < ny → ∃ v, f (i, j) = .ok v) :
    applySerial f true T nx ny = applySerial f false T nx ny := by
  unfold applySerial
  apply foldlM_congr
  intro c hc s
  have hin := (mem_ndindex nx ny c).mp hc
  obtain ⟨v, hv⟩ := hall c.1 c.2 hin.1 hin.2
  unfold serialStep runCatch
  have : f c = .ok v := hv
  rw [this]

/-- … and in every pair of modes the same array is returned, or none -/
theorem failsafe_flag_irrelevant (f : Cell → Except ε (List α)) (T nx ny : Nat) (m m' : Mode)
    (hm : ModeOk m nx ny) (hm' : ModeOk m' nx ny)
    (hall : ∀ i j, i < nx → j < ny → ∃ v, f (i, j) = .ok v) (out : Arr3 (Elem α)) :
    applyGrid f true T nx ny m = .ok out ↔ applyGrid f false T nx ny m' = .ok out := by
  rw [applyGrid_ok_iff f true T nx ny m hm, applyGrid_ok_iff f false T nx ny m' hm',
    failsafe_flag_irrelevant_serial f T nx ny hall]

example : ∀ i j, i < 2 → j < 3 → ∃ v, (fun c : Cell => (Except.ok (Example.clean c) : Except String (List Nat))) (i, j) = .ok v :=
  fun _ _ _ _ => ⟨_, rfl⟩

/-- **DeltaChange: the NaN column has the length of `obs`** whatever the lengths of `cm_hist` and `cm_future` are
    (three different time lengths allowed): with failsafe on, `DeltaChange.apply` returns an array of `obs`' time length
    whose column is all-NaN exactly at the raising locations and the location's own result elsewhere. -/
theorem deltachange_failsafe_isolates (loc : LocFn α ε) (obs hist fut : Arr3 α) (nx ny : Nat) (m : Mode)
    (hm : ModeOk m nx ny)
    (hlen : ∀ i j, i < nx → j < ny → ∀ v,
      loc (slice obs i j) (slice hist i j) (slice fut i j) = .ok v → v.length = obs.length) :
    ∃ out, deltaChangeApply loc true obs hist fut nx ny m = .ok out ∧ Shaped out obs.length nx ny ∧
      ∀ i j, i < nx → j < ny →
        (∀ e, loc (slice obs i j) (slice hist i j) (slice fut i j) = .error e →
          slice out i j = List.replicate obs.length (some .nan)) ∧
        (∀ v, loc (slice obs i j) (slice hist i j) (slice fut i j) = .ok v →
          slice out i j = v.map (fun x => some (.val x))) :=
  failsafe_isolates (cellFn loc obs hist fut) obs.length nx ny m hm hlen

/-- the same for `Debiaser.apply` (time length of `cm_future`) -/
theorem debiaser_failsafe_isolates (loc : LocFn α ε) (obs hist fut : Arr3 α) (nx ny : Nat) (m : Mode)
    (hm : ModeOk m nx ny)
    (hlen : ∀ i j, i < nx → j < ny → ∀ v,
      loc (slice obs i j) (slice hist i j) (slice fut i j) = .ok v → v.length = fut.length) :
    ∃ out, debiaserApply loc true obs hist fut nx ny m = .ok out ∧ Shaped out fut.length nx ny ∧
      ∀ i j, i < nx → j < ny →
        (∀ e, loc (slice obs i j) (slice hist i j) (slice fut i j) = .error e →
          slice out i j = List.replicate fut.length (some .nan)) ∧
        (∀ v, loc (slice obs i j) (slice hist i j) (slice fut i j) = .ok v →
          slice out i j = v.map (fun x => some (.val x))) :=
  failsafe_isolates (cellFn loc obs hist fut) fut.length nx ny m hm hlen

/-! ### the chunked pool and an instance with state -/

/-- **Failsafe isolates under the chunked pool** — every chunk size `k ≥ 1` (the library's default is one, see
    `Props.C05.default_chunksize`; also when there are more workers than cells), every completion order of the chunks,
    every state `s0` of an instance that its location function does not change (also not when it raises): an array is
    returned, the instance is as before, NaN exactly at the raising cells, the cell's own result elsewhere. -/
theorem failsafe_isolates_chunked {σ : Type} (f : StCell σ α ε) (hf : PureSt f) (T nx ny : Nat) (s0 : σ) (k : Nat)
    (hk : 1 ≤ k) (sched : List Nat) (hs : sched.Perm (List.range (chunksOf k (pairIndices nx ny)).length))
    (hlen : ∀ i j, i < nx → j < ny → ∀ v, (f s0 (i, j)).1 = .ok v → v.length = T) :
    ∃ out, applyParallelSt f true T nx ny s0 k sched = .ok (out, s0) ∧ Shaped out T nx ny ∧
      ∀ i j, i < nx → j < ny →
        (∀ e, (f s0 (i, j)).1 = .error e → slice out i j = List.replicate T (some .nan)) ∧
        (∀ v, (f s0 (i, j)).1 = .ok v → slice out i j = v.map (fun x => some (.val x))) := by
  obtain ⟨out, hout, hsh, hcols⟩ := failsafe_isolates (frozen f s0) T nx ny .serial trivial hlen
  exact ⟨out, (parallelSt_ok_iff f hf true T nx ny s0 k hk sched hs out s0).mpr ⟨rfl, hout⟩, hsh, hcols⟩

/-- the same for the serial loop on such an instance -/
theorem failsafe_isolates_stateful_serial {σ : Type} (f : StCell σ α ε) (hf : PureSt f) (T nx ny : Nat) (s0 : σ)
    (hlen : ∀ i j, i < nx → j < ny → ∀ v, (f s0 (i, j)).1 = .ok v → v.length = T) :
    ∃ out, applySerialSt f true T nx ny s0 = .ok (out, s0) ∧ Shaped out T nx ny ∧
      ∀ i j, i < nx → j < ny →
        (∀ e, (f s0 (i, j)).1 = .error e → slice out i j = List.replicate T (some .nan)) ∧
        (∀ v, (f s0 (i, j)).1 = .ok v → slice out i j = v.map (fun x => some (.val x))) := by
  obtain ⟨out, hout, hsh, hcols⟩ := failsafe_isolates (frozen f s0) T nx ny .serial trivial hlen
  refine ⟨out, ?_, hsh, hcols⟩
  rw [serialSt_pure f hf true T nx ny s0]
  have : applySerial (frozen f s0) true T nx ny = .ok out := hout
  rw [this]; rfl

/-- **No failsafe under the chunked pool: no array**, for every chunk size and chunk schedule -/
theorem no_failsafe_no_array_chunked {σ : Type} (f : StCell σ α ε) (hf : PureSt f) (T nx ny : Nat) (s0 : σ) (k : Nat)
    (hk : 1 ≤ k) (sched : List Nat) (hs : sched.Perm (List.range (chunksOf k (pairIndices nx ny)).length))
    (i j : Nat) (hi : i < nx) (hj : j < ny) (e : ε) (he : (f s0 (i, j)).1 = .error e) (out : Arr3 (Elem α)) (s : σ) :
    applyParallelSt f false T nx ny s0 k sched ≠ .ok (out, s) := by
  intro h
  have := ((parallelSt_ok_iff f hf false T nx ny s0 k hk sched hs out s).mp h).2
  exact no_failsafe_no_array (frozen f s0) T nx ny .serial trivial i j hi hj e he out this

namespace Example

/-- an instance whose location function is pure: raises on `S` -/
def failing : StCell Nat Nat String := fun s c => (failAt S err clean c, s)

example : PureSt failing := fun _ _ => rfl

/-- chunked pool, chunks of 4 (2 chunks, the second completes first): NaN exactly on S -/
example : applyParallelSt failing true 2 2 3 0 4 [1, 0] =
    .ok ([[[some (.val 0), some .nan, some (.val 2)], [some (.val 10), some (.val 11), some .nan]],
          [[some (.val 100), some .nan, some (.val 102)], [some (.val 110), some (.val 111), some .nan]]], 0) := by rfl

/-- legacy / necessity of `PureSt`: a location function that leaves the instance changed **when it fails** (a cache filled
    while iterating, truncated by the exception) — the healthy cells processed after the failing one see the damaged state -/
def damaging : StCell Nat Nat String := fun s c =>
  match c, s with
  | (0, 0), _ => (.error "boom", 1)
  | _, 0 => (.ok [7, 7], s)
  | _, _ => (.ok [7, 7, 7], s)

example : applySerialSt damaging true 2 1 2 0 = .error .broadcast := by rfl
example : applySerialSt (fun s c => ((damaging 0 c).1, s)) true 2 1 2 0 =
    .ok ([[[some .nan, some (.val 7)]], [[some .nan, some (.val 7)]]], 0) := by rfl

end Example

/-! ### dispatch and the catch wrapper, read from the source (tier A, semantic: `Gen/GridLoops.lean`, `Lemmas.GenGridLoops`) -/

open Model.GridLoops in
/-- **all four call sites hand the caller's failsafe flag to the map function, and both map functions hand theirs to the
    catch wrapper** (stated on the specs regenerated from the source): whatever `apply` is called with, the flag the
    wrapper runs with at every cell is `apply`'s `failsafe` argument — so the theorems above apply to `Debiaser.apply` and
    `DeltaChange.apply`, serial and parallel -/
theorem dispatch_forwards_failsafe {κ : Type} (b : BranchCall)
    (hb : b ∈ [Gen.GridLoops.applyDebiaser.parallelBranch, Gen.GridLoops.applyDebiaser.serialBranch,
               Gen.GridLoops.applyDeltaChange.parallelBranch, Gen.GridLoops.applyDeltaChange.serialBranch])
    (E : ApplyEnv κ α ε) :
    (branchEnv b E).failsafe = some E.failsafe ∧
    evalFlag Gen.GridLoops.catchSpec.flagDefault ((branchEnv b E).failsafe.getD Gen.GridLoops.serialSpec.failsafeDefault)
        Gen.GridLoops.serialSpec.call.failsafe = E.failsafe ∧
    evalFlag Gen.GridLoops.catchSpec.flagDefault ((branchEnv b E).failsafe.getD Gen.GridLoops.parallelSpec.failsafeDefault)
        Gen.GridLoops.parallelSpec.call.failsafe = E.failsafe := by
  simp only [List.mem_cons, List.not_mem_nil, or_false] at hb
  rcases hb with rfl | rfl | rfl | rfl <;> exact ⟨rfl, rfl, rfl⟩

open Model.GridLoops in
/-- the wrapper (regenerated from the source) calls `func(a0, a1, a2, **kwargs)` on its three data parameters in order,
    catches `Exception` only, tests its flag parameter (default `False`), returns the scalar `np.nan` in failsafe mode and
    re-raises unchanged otherwise -/
theorem catch_wrapper_statements :
    Gen.GridLoops.catchSpec.excClass = .exception ∧ Gen.GridLoops.catchSpec.flagDefault = false ∧
    Gen.GridLoops.catchSpec.onTrue = .returnNan ∧ Gen.GridLoops.catchSpec.onFalse = .reraise ∧
    Gen.GridLoops.catchSpec.tryArgs = (.a0, .a1, .a2) ∧ Gen.GridLoops.catchSpec.tryStarKw = true := by decide

open Model.GridLoops in
/-- **what the wrapper does, read from the source**: for every exception type, subclass relation `isa`, location function,
    keyword arguments, flag and data arguments it is `runCatch` (the function the theorems above are stated on) of
    `func(a0, a1, a2, **kwargs)` -/
theorem catch_wrapper_denotes {κ : Type} (isa : String → ε → Bool) (loc : LocFnKw κ α ε) (kw noKw : κ) (fs : Bool)
    (a : ArgIx → List α) :
    denoteCatch Gen.GridLoops.catchSpec isa loc kw noKw fs a = runCatch fs (loc kw (a .a0) (a .a1) (a .a2)) := by
  rw [Lemmas.GenGridLoops.catchSpec]
  exact Lemmas.GenGridLoops.denote_catch isa loc kw noKw fs a

end Props.C13
