/-
  Helper lemmas for the numeric toolkit, part 4: `argsort`, `argsort ∘ argsort` (ranks) and
  `sort_array_like_another_one`.
-/
import IbicusModel.Lemmas.Stats
import Mathlib.Data.List.Perm.Basic
import Mathlib.Data.List.Nodup
import Mathlib.Data.List.Range

namespace Lemmas.Stats
open Model.Stats

theorem getDN_eq (s : List Nat) (i : Nat) (h : i < s.length) : s.getD i 0 = s[i] :=
  (List.getElem_eq_getD 0).symm

/-- the sorted list of (value, original index) pairs behind `argsort` -/
def pairs (l : List Rat) : List (Rat × Nat) :=
  (l.zip (List.range l.length)).mergeSort (fun a b => decide (a.1 ≤ b.1))

theorem argsort_eq (l : List Rat) : argsort l = (pairs l).map (·.2) := rfl

theorem pairs_perm (l : List Rat) : (pairs l).Perm (l.zip (List.range l.length)) := List.mergeSort_perm _ _

theorem pairs_length (l : List Rat) : (pairs l).length = l.length := by
  unfold pairs; rw [List.length_mergeSort, List.length_zip, List.length_range, Nat.min_self]

theorem pairs_sorted (l : List Rat) : (pairs l).Pairwise (fun a b => a.1 ≤ b.1) := by
  have h := List.pairwise_mergeSort (le := fun (a b : Rat × Nat) => decide (a.1 ≤ b.1))
    (fun a b c hab hbc => by simp only [decide_eq_true_eq] at *; exact le_trans hab hbc)
    (fun a b => by simp only [Bool.or_eq_true, decide_eq_true_eq]; exact le_total a.1 b.1)
    (l.zip (List.range l.length))
  simpa [pairs] using h

theorem mem_zip_range {l : List Rat} {p : Rat × Nat} (h : p ∈ l.zip (List.range l.length)) :
    p.2 < l.length ∧ l.getD p.2 0 = p.1 := by
  obtain ⟨k, hk, hkp⟩ := List.mem_iff_getElem.mp h
  rw [List.getElem_zip] at hkp
  have hk' : k < l.length := by
    rw [List.length_zip, List.length_range, Nat.min_self] at hk; exact hk
  subst hkp
  simp only [List.getElem_range]
  exact ⟨hk', getD_eq l k hk'⟩

theorem argsort_perm (l : List Rat) : (argsort l).Perm (List.range l.length) := by
  rw [argsort_eq]
  have h := (pairs_perm l).map (·.2)
  have h2 : (l.zip (List.range l.length)).map (·.2) = List.range l.length :=
    List.map_snd_zip (by simp)
  rw [h2] at h; exact h

theorem argsort_length (l : List Rat) : (argsort l).length = l.length := by
  rw [(argsort_perm l).length_eq, List.length_range]

theorem pairs_fst (l : List Rat) : (pairs l).map (·.1) = sortQ l := by
  have hp : ((pairs l).map (·.1)).Perm (sortQ l) := by
    have h := (pairs_perm l).map (·.1)
    have h2 : (l.zip (List.range l.length)).map (·.1) = l := List.map_fst_zip (by simp)
    rw [h2] at h
    exact h.trans (sortQ_perm l).symm
  apply List.Perm.eq_of_pairwise (le := (· ≤ ·)) _ _ (sortQ_sorted l) hp
  · intro a b _ _ hab hba; exact le_antisymm hab hba
  · rw [List.pairwise_map]; exact pairs_sorted l

/-- **specification of `argsort`**: reading `l` through `argsort l` gives the sorted sample, position by
    position, and every entry of `argsort l` is a valid index -/
theorem argsort_spec (l : List Rat) (k : Nat) (hk : k < l.length) :
    (argsort l).getD k 0 < l.length ∧ l.getD ((argsort l).getD k 0) 0 = (sortQ l).getD k 0 := by
  have hkp : k < (pairs l).length := by rw [pairs_length]; exact hk
  have hmem : (pairs l)[k] ∈ l.zip (List.range l.length) := (pairs_perm l).mem_iff.mp (List.getElem_mem hkp)
  obtain ⟨h1, h2⟩ := mem_zip_range hmem
  have ha : (argsort l).getD k 0 = (pairs l)[k].2 := by
    have hka : k < (argsort l).length := by rw [argsort_length]; exact hk
    rw [getDN_eq _ k hka]
    simp [argsort_eq]
  have hs : (sortQ l).getD k 0 = (pairs l)[k].1 := by
    have hks : k < (sortQ l).length := by rw [sortQ_length]; exact hk
    rw [getD_eq _ k hks]
    simp [← pairs_fst]
  rw [ha, hs]
  exact ⟨h1, h2⟩

/-! ### ranks -/

theorem rankOf_perm (y : List Rat) : (rankOf y).Perm (List.range y.length) := by
  unfold rankOf
  have := argsort_perm ((argsort y).map (fun (i : Nat) => (i : Rat)))
  rwa [List.length_map, argsort_length] at this

theorem rankOf_length (y : List Rat) : (rankOf y).length = y.length := by
  rw [(rankOf_perm y).length_eq, List.length_range]

theorem rankOf_lt (y : List Rat) (i : Nat) (hi : i < y.length) : (rankOf y).getD i 0 < y.length := by
  have hi' : i < (rankOf y).length := by rw [rankOf_length]; exact hi
  have hm : (rankOf y)[i] ∈ List.range y.length := (rankOf_perm y).mem_iff.mp (List.getElem_mem hi')
  rw [getDN_eq _ i hi']
  exact List.mem_range.mp hm

theorem range_cast_sorted (n : Nat) : ((List.range n).map (fun (i : Nat) => (i : Rat))).Pairwise (· ≤ ·) := by
  rw [List.pairwise_map]
  exact List.pairwise_lt_range.imp (fun h => by exact_mod_cast le_of_lt h)

/-- sorting the (cast) entries of a permutation of `0..n-1` gives `0..n-1` -/
theorem sortQ_cast_perm {σ : List Nat} {n : Nat} (h : σ.Perm (List.range n)) :
    sortQ (σ.map (fun (i : Nat) => (i : Rat))) = (List.range n).map (fun (i : Nat) => (i : Rat)) := by
  apply List.Perm.eq_of_pairwise (le := (· ≤ ·)) _ (sortQ_sorted _) (range_cast_sorted n)
  · exact (sortQ_perm _).trans (h.map _)
  · intro a b _ _ hab hba; exact le_antisymm hab hba

/-- **`argsort (argsort y)` is the inverse permutation of `argsort y`** -/
theorem argsort_rankOf (y : List Rat) (m : Nat) (hm : m < y.length) :
    (argsort y).getD ((rankOf y).getD m 0) 0 = m := by
  have hlen : ((argsort y).map (fun (i : Nat) => (i : Rat))).length = y.length := by
    rw [List.length_map, argsort_length]
  obtain ⟨h1, h2⟩ := argsort_spec ((argsort y).map (fun (i : Nat) => (i : Rat))) m (by rw [hlen]; exact hm)
  rw [hlen] at h1
  change (rankOf y).getD m 0 < y.length at h1
  change ((argsort y).map (fun (i : Nat) => (i : Rat))).getD ((rankOf y).getD m 0) 0 = _ at h2
  rw [sortQ_cast_perm (argsort_perm y)] at h2
  have hr : ((List.range y.length).map (fun (i : Nat) => (i : Rat))).getD m 0 = (m : Rat) := by
    rw [getD_eq _ m (by simpa using hm)]; simp
  rw [hr] at h2
  have hl : ((argsort y).map (fun (i : Nat) => (i : Rat))).getD ((rankOf y).getD m 0) 0
      = (((argsort y).getD ((rankOf y).getD m 0) 0 : Nat) : Rat) := by
    have hlt : (rankOf y).getD m 0 < (argsort y).length := by rw [argsort_length]; exact h1
    rw [getD_eq _ _ (by rw [List.length_map]; exact hlt)]
    rw [List.getElem_map, getDN_eq _ _ hlt]
  rw [hl] at h2
  exact_mod_cast h2

/-- a larger value has a larger rank (no tie-freeness needed for the strict comparison) -/
theorem rankOf_lt_of_lt (y : List Rat) {i j : Nat} (hi : i < y.length) (hj : j < y.length)
    (h : y.getD i 0 < y.getD j 0) : (rankOf y).getD i 0 < (rankOf y).getD j 0 := by
  by_contra hge
  have hba : (rankOf y).getD j 0 ≤ (rankOf y).getD i 0 := Nat.le_of_not_lt hge
  have hai := rankOf_lt y i hi
  have h1 := argsort_spec y _ hai
  have h2 := argsort_spec y _ (rankOf_lt y j hj)
  rw [argsort_rankOf y i hi] at h1
  rw [argsort_rankOf y j hj] at h2
  have hs := sorted_getD_mono (sortQ_sorted y) hba (by rw [sortQ_length]; exact hai)
  rw [← h1.2, ← h2.2] at hs
  linarith

/-! ### `sort_array_like_another_one` -/

theorem range_map_getD (s : List Rat) : (List.range s.length).map (fun i => s.getD i 0) = s := by
  apply List.ext_getElem
  · simp
  · intro i h1 h2
    simp only [List.getElem_map, List.getElem_range]
    exact getD_eq s i h2

theorem sortLike_perm (x y : List Rat) (h : x.length = y.length) : (sortLike x y).Perm x := by
  unfold sortLike takeIdx
  have h1 := (rankOf_perm y).map (fun i => (sortQ x).getD i 0)
  rw [← h, ← sortQ_length x, range_map_getD] at h1
  exact h1.trans (sortQ_perm x)

theorem sortLike_length (x y : List Rat) : (sortLike x y).length = y.length := by
  unfold sortLike takeIdx; rw [List.length_map, rankOf_length]

theorem sortLike_getD (x y : List Rat) (i : Nat) (hi : i < y.length) :
    (sortLike x y).getD i 0 = (sortQ x).getD ((rankOf y).getD i 0) 0 := by
  have hi' : i < (rankOf y).length := by rw [rankOf_length]; exact hi
  rw [getD_eq _ i (by rw [sortLike_length]; exact hi)]
  unfold sortLike takeIdx
  rw [List.getElem_map, getDN_eq _ i hi']

theorem sortLike_ordered (x y : List Rat) (h : x.length = y.length) {i j : Nat} (hi : i < y.length)
    (hj : j < y.length) (hlt : y.getD i 0 < y.getD j 0) :
    (sortLike x y).getD i 0 ≤ (sortLike x y).getD j 0 := by
  rw [sortLike_getD x y i hi, sortLike_getD x y j hj]
  apply sorted_getD_mono (sortQ_sorted x) (le_of_lt (rankOf_lt_of_lt y hi hj hlt))
  rw [sortQ_length, h]; exact rankOf_lt y j hj

end Lemmas.Stats
