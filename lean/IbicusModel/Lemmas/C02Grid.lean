/-
  C02 helper lemmas, part 5: the grid level.  `Debiaser.apply` is `Model.Grid.debiaserApply` (C05: the column at
  `(i, j)` of the result is `apply_location` of the three columns at `(i, j)`); an element-wise change of the whole
  `cm_future` array is an element-wise change of every column.
-/
import IbicusModel.Model.Grid
import IbicusModel.Props.C05

namespace Lemmas.C02
open Model.Grid

/-- `g` applied to every entry of a `[t][i][j]` array -/
def map3 {β} (g : β → β) (a : Arr3 β) : Arr3 β := a.map (fun p => p.map (fun r => r.map g))

theorem map3_length {β} (g : β → β) (a : Arr3 β) : (map3 g a).length = a.length := by
  unfold map3; rw [List.length_map]

/-- `(g • a)[:, i, j] = g • a[:, i, j]` -/
theorem slice_map3 {β} (g : β → β) (a : Arr3 β) (i j : Nat) : slice (map3 g a) i j = (slice a i j).map g := by
  unfold slice map3
  rw [List.filterMap_map, List.map_filterMap]
  apply List.filterMap_congr
  intro p _
  simp only [Function.comp, List.getElem?_map]
  cases p[i]? with
  | none => rfl
  | some r =>
    simp only [Option.map, Option.bind, List.getElem?_map]

end Lemmas.C02
