/-
  Tier A proof obligation: the censored-gamma fit regenerated from /repo's current source (`Gen.PrecipFit.censored_fit`)
  is the model `Model.PrecipFit.censoredFit` — it hands the optimiser the filtered sample and a count, nothing that
  depends on storage positions.
-/
import IbicusModel.Model.PrecipFit
import IbicusModel.Gen.PrecipFit
import IbicusModel.Lemmas.GenWindows

namespace Lemmas.GenPrecipFit

theorem censored_fit (inner : List Rat → Int → Rat → Rat × Rat × Rat) (thr : Rat) (data : List Rat) :
    Gen.PrecipFit.censored_fit inner thr data = Model.PrecipFit.censoredFit inner thr data := by
  unfold Gen.PrecipFit.censored_fit Model.PrecipFit.censoredFit
  simp only [Lemmas.GenWindows.selectWhere_map]

end Lemmas.GenPrecipFit
