/-
  Permutation lemmas for the write-back skeletons (C06): fancy indexing by a permutation, window samples of a
  permuted dated series, invariance of min/max and of the centres.
-/
import IbicusModel.Lemmas.Pointwise
import Mathlib.Data.List.Perm.Basic
import Mathlib.Data.List.Range

namespace Lemmas.Perm
open Model.Skeleton Model.Windows Lemmas.Windows Lemmas.Skeleton Lemmas.Pointwise

/-! ### `take` (fancy indexing) and permutations -/

theorem take_map_succ {α} (a : α) (x : List α) (l : List Nat) :
    take (a :: x) (l.map Nat.succ) = take x l := by
  unfold take
  rw [List.filterMap_map]
  rfl

theorem take_range {α} (x : List α) : take x (List.range x.length) = x := by
  induction x with
  | nil => rfl
  | cons a t ih =>
    rw [List.length_cons, List.range_succ_eq_map]
    rw [take_cons_valid (a :: t) 0 _ (by simp)]
    rw [take_map_succ, ih]
    rfl

theorem take_perm {α} (x : List α) (p : List Nat) (hp : p.Perm (List.range x.length)) :
    (take x p).Perm x := by
  have := List.Perm.filterMap (fun i => x[i]?) hp
  unfold take
  rw [show List.filterMap (fun i => x[i]?) (List.range x.length) = x from take_range x] at this
  exact this

theorem perm_valid {n : Nat} (p : List Nat) (hp : p.Perm (List.range n)) : ∀ j ∈ p, j < n :=
  fun j hj => List.mem_range.mp (hp.mem_iff.mp hj)

theorem take_zip {α β} (x : List α) (d : List β) (p : List Nat) (hl : x.length = d.length)
    (hv : ∀ j ∈ p, j < x.length) : take (x.zip d) p = (take x p).zip (take d p) := by
  induction p with
  | nil => rfl
  | cons j t ih =>
    have hj := hv j List.mem_cons_self
    have ht := fun k hk => hv k (List.mem_cons_of_mem _ hk)
    rw [take_cons_valid x j t hj, take_cons_valid d j t (hl ▸ hj),
      take_cons_valid (x.zip d) j t (by simp [hl]; omega)]
    simp [ih ht]

theorem take_getElem? {α} (x : List α) (p : List Nat) (hv : ∀ j ∈ p, j < x.length) (k : Nat) :
    (take x p)[k]? = p[k]?.bind (fun j => x[j]?) := by
  induction p generalizing k with
  | nil => simp [take]
  | cons j t ih =>
    rw [take_cons_valid x j t (hv j List.mem_cons_self)]
    cases k with
    | zero => simp [List.getElem?_eq_getElem (hv j List.mem_cons_self)]
    | succ k => simpa using ih (fun i hi => hv i (List.mem_cons_of_mem _ hi)) k

/-- the window sample as a filter of the dated series -/
theorem take_indicesIn_eq_zip_filter {α} (x : List α) (d r : List Int) (hl : x.length = d.length) :
    take x (indicesIn d r) = ((x.zip d).filter (fun pr => r.contains pr.2)).map Prod.fst := by
  unfold indicesIn Py.whereTrue Py.isin take
  simp only [List.length_map]
  induction d generalizing x with
  | nil => simp
  | cons a t ih =>
    cases x with
    | nil => simp at hl
    | cons b u =>
      have hl' : u.length = t.length := by simpa using hl
      rw [List.length_cons, List.range_succ_eq_map, List.filter_cons]
      simp only [List.map_cons, List.getD_cons_zero, List.zip_cons_cons, List.filter_cons]
      have key : ∀ hb : Bool, List.filterMap (fun i => (b :: u)[i]?)
          (List.filter (fun i => (hb :: List.map (fun x => r.contains x) t).getD i false)
            (List.map Nat.succ (List.range t.length))) =
          List.map Prod.fst (List.filter (fun pr => r.contains pr.2) (u.zip t)) := by
        intro hb
        rw [List.filter_map, List.filterMap_map, ← ih u hl']
        rfl
      by_cases ha : r.contains a = true
      · simp only [ha, if_true, List.filterMap_cons, List.getElem?_cons_zero, List.map_cons]
        rw [key true]
      · have ha' : r.contains a = false := by simpa using ha
        simp only [ha', Bool.false_eq_true, if_false]
        rw [key false]


theorem window_sample_perm {α} (x : List α) (d r : List Int) (p : List Nat) (hl : x.length = d.length)
    (hp : p.Perm (List.range x.length)) :
    (take (take x p) (indicesIn (take d p) r)).Perm (take x (indicesIn d r)) := by
  have hv := perm_valid p hp
  have hvd : ∀ j ∈ p, j < d.length := fun j hj => hl ▸ hv j hj
  rw [take_indicesIn_eq_zip_filter _ _ _ (by rw [take_length x p hv, take_length d p hvd]),
    take_indicesIn_eq_zip_filter _ _ _ hl, ← take_zip x d p hl hv]
  apply List.Perm.map
  apply List.Perm.filter
  exact take_perm (x.zip d) p (by simpa [hl] using hp)

/-! ### min / max and the centres are invariant under permutation -/

theorem minL_mem (l : List Int) (h : l ≠ []) : Py.minL l ∈ l := by
  cases l with
  | nil => exact absurd rfl h
  | cons a t =>
    simp only [Py.minL]
    clear h
    induction t generalizing a with
    | nil => simp
    | cons b u ih =>
      simp only [List.foldl_cons]
      have := ih (min a b)
      rcases List.mem_cons.mp this with h1 | h1
      · rw [h1]
        rcases min_choice a b with h2 | h2 <;> rw [h2] <;> simp
      · exact List.mem_cons_of_mem _ (List.mem_cons_of_mem _ h1)

theorem maxL_mem (l : List Int) (h : l ≠ []) : Py.maxL l ∈ l := by
  cases l with
  | nil => exact absurd rfl h
  | cons a t =>
    simp only [Py.maxL]
    clear h
    induction t generalizing a with
    | nil => simp
    | cons b u ih =>
      simp only [List.foldl_cons]
      have := ih (max a b)
      rcases List.mem_cons.mp this with h1 | h1
      · rw [h1]
        rcases max_choice a b with h2 | h2 <;> rw [h2] <;> simp
      · exact List.mem_cons_of_mem _ (List.mem_cons_of_mem _ h1)

theorem minL_perm (l l' : List Int) (h : l.Perm l') : Py.minL l = Py.minL l' := by
  by_cases hl : l = []
  · subst hl; rw [List.Perm.nil_eq h]
  · have hl' : l' ≠ [] := fun e => hl (by subst e; exact h.eq_nil)
    apply le_antisymm
    · exact minL_le l _ (h.mem_iff.mpr (minL_mem l' hl'))
    · exact minL_le l' _ (h.mem_iff.mp (minL_mem l hl))

theorem maxL_perm (l l' : List Int) (h : l.Perm l') : Py.maxL l = Py.maxL l' := by
  by_cases hl : l = []
  · subst hl; rw [List.Perm.nil_eq h]
  · have hl' : l' ≠ [] := fun e => hl (by subst e; exact h.eq_nil)
    apply le_antisymm
    · exact le_maxL l' _ (h.mem_iff.mp (maxL_mem l hl))
    · exact le_maxL l _ (h.mem_iff.mpr (maxL_mem l' hl'))

theorem idxAdjust_isEmpty_perm (S : Int) (d d' : List Int) (c : Int) (h : d.Perm d') :
    (idxAdjust S d c).isEmpty = (idxAdjust S d' c).isEmpty := by
  have key : ∀ e : List Int, (idxAdjust S e c).isEmpty = false ↔ ∃ v ∈ e, v ∈ adjustRange S c := by
    intro e
    rw [List.isEmpty_eq_false_iff_exists_mem]
    unfold idxAdjust
    constructor
    · rintro ⟨i, hi⟩
      obtain ⟨hlt, hm⟩ := (mem_indicesIn _ _ _).mp hi
      exact ⟨e[i], List.getElem_mem hlt, hm⟩
    · rintro ⟨v, hv, hm⟩
      obtain ⟨i, hlt, rfl⟩ := List.getElem_of_mem hv
      exact ⟨i, (mem_indicesIn _ _ _).mpr ⟨hlt, hm⟩⟩
  cases hb : (idxAdjust S d' c).isEmpty with
  | false =>
    obtain ⟨v, hv, hm⟩ := (key d').mp hb
    exact (key d).mpr ⟨v, h.mem_iff.mpr hv, hm⟩
  | true =>
    cases hb2 : (idxAdjust S d c).isEmpty with
    | true => rfl
    | false =>
      obtain ⟨v, hv, hm⟩ := (key d).mp hb2
      have := (key d').mpr ⟨v, h.mem_iff.mp hv, hm⟩
      rw [hb] at this; exact absurd this (by simp)

theorem useCenters_perm (S : Int) (d d' : List Int) (h : d.Perm d') : useCenters S d = useCenters S d' := by
  unfold useCenters centers
  rw [minL_perm d d' h, maxL_perm d d' h]
  apply List.filter_congr
  intro c _
  rw [idxAdjust_isEmpty_perm S d d' c h]

end Lemmas.Perm
