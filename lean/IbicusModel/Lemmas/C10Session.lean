/-
  C10 helpers, part 6: the session model (`Model/IsimipSession.lean`) — every apply of a re-used ISIMIP object is the
  window pipeline at the settings current at that apply — and the lifts of the CDFt / QDM censoring statements through
  sub-samples (running windows) to a whole location.
-/
import IbicusModel.Model.IsimipSession
import IbicusModel.Lemmas.C10Isimip
import IbicusModel.Lemmas.C10Lift
import IbicusModel.Lemmas.C10Precip

namespace Lemmas.C10
open Model.Isimip Model.IsimipSession Model.Stats Model.Debiasers Model.Family

/-! ### sessions -/

/-- every recorded apply is `_apply_on_window` at the settings and family recorded with it -/
theorem run_result : ∀ (ops : List Op) (c : Cfg) (f : IsiFamily), ∀ a ∈ run c f ops,
    a.result = applyOnWindow a.cfg a.fam a.call.o a.call.d a.call.obs a.call.H a.call.F a.call.yO a.call.yH a.call.yF
  | [], _, _, a, h => by simp [run] at h
  | .assign b :: t, c, f, a, h => run_result t (b.on c) (b.fam f) a (by simpa [run] using h)
  | .apply x :: t, c, f, a, h => by
    simp only [run, List.mem_cons] at h
    rcases h with rfl | h
    · rfl
    · exact run_result t c f a h

/-- the settings an apply runs with are the construction settings with all earlier re-assignments applied, in order -/
theorem run_assigns_then_apply (c : Cfg) (f : IsiFamily) (as : List Assign) (x : Call) :
    (run c f (as.map Op.assign ++ [Op.apply x])).map (·.cfg) = [cfgAfter c as] := by
  induction as generalizing c f with
  | nil => simp [run, cfgAfter]
  | cons a t ih => simpa [run, cfgAfter] using ih (a.on c) (a.fam f)

/-- … and an apply does not change them: a later apply without re-assignment in between sees the same settings -/
theorem run_apply_apply (c : Cfg) (f : IsiFamily) (x y : Call) :
    (run c f [Op.apply x, Op.apply y]).map (·.cfg) = [c, c] := by simp [run]

/-! ### sub-samples -/

theorem take_mem {α} (x : List α) (idx : List Nat) {v : α} (h : v ∈ Model.Skeleton.take x idx) : v ∈ x := by
  unfold Model.Skeleton.take at h
  rw [List.mem_filterMap] at h
  obtain ⟨i, -, hi⟩ := h
  exact List.mem_of_getElem? hi

/-- the SSR threshold of sub-samples is at least the threshold of the whole samples (their positive values are among
    the positive values of the whole), provided the sub-samples contain a positive value -/
theorem ssrThreshold_subsample (obs H F ow Hw Fw : List Rat) (ho : ∀ v ∈ ow, v ∈ obs) (hh : ∀ v ∈ Hw, v ∈ H)
    (hf : ∀ v ∈ Fw, v ∈ F) (hpos : ∃ x, (x ∈ ow ∨ x ∈ Hw ∨ x ∈ Fw) ∧ 0 < x) :
    ssrThreshold obs H F ≤ ssrThreshold ow Hw Fw := by
  obtain ⟨x, hx, hx0⟩ := hpos
  have hx' : x ∈ obs ∨ x ∈ H ∨ x ∈ F := by
    rcases hx with h | h | h
    · exact Or.inl (ho x h)
    · exact Or.inr (Or.inl (hh x h))
    · exact Or.inr (Or.inr (hf x h))
  have hneW : positives ow Hw Fw ≠ [] := List.ne_nil_of_mem (mem_positives.mpr ⟨hx, hx0⟩)
  have hne : positives obs H F ≠ [] := List.ne_nil_of_mem (mem_positives.mpr ⟨hx', hx0⟩)
  obtain ⟨hm, -⟩ := ssrThreshold_spec ow Hw Fw hneW
  obtain ⟨hm1, hm2⟩ := mem_positives.mp hm
  apply (ssrThreshold_spec obs H F hne).2
  rw [mem_positives]
  refine ⟨?_, hm2⟩
  rcases hm1 with h | h | h
  · exact Or.inl (ho _ h)
  · exact Or.inr (Or.inl (hh _ h))
  · exact Or.inr (Or.inr (hf _ h))

/-- the inner (year-window) result buffer used as an array: an unassigned entry is the error `"unassigned"` -/
def assignedAll (l : List (Option Rat)) : Except String (List Rat) :=
  l.mapM (fun o => match o with | some v => .ok v | none => .error "unassigned")

theorem assignedAll_mem (l : List (Option Rat)) (r : List Rat) (h : assignedAll l = .ok r) : ∀ v ∈ r, some v ∈ l := by
  induction l generalizing r with
  | nil =>
    simp only [assignedAll, List.mapM_nil, pure, Except.pure] at h
    injection h with h; subst h; intro v hv; simp at hv
  | cons a t ih =>
    unfold assignedAll at h
    rw [List.mapM_cons] at h
    cases a with
    | none => simp [bind, Except.bind] at h
    | some w =>
      simp only [bind, Except.bind, pure, Except.pure] at h
      cases ht : t.mapM (fun o => match o with | some v => Except.ok v | none => Except.error "unassigned") with
      | error e => rw [ht] at h; exact absurd h (by simp)
      | ok rs =>
        rw [ht] at h
        injection h with h; subst h
        intro v hv
        rcases List.mem_cons.mp hv with rfl | hv
        · exact List.mem_cons_self
        · exact List.mem_cons_of_mem _ (ih rs ht v hv)

end Lemmas.C10
